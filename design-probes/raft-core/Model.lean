/-! probe: cluster model (votes only), hashicorp-style vote handler with separately persisted
    term / vote-term / vote-candidate, message soup, crash. Core Lean only. -/
namespace RP

inductive Role | follower | candidate | leader
deriving DecidableEq, Repr

structure Entry where
  term : Nat
  payload : Nat
deriving DecidableEq, Repr

structure Node where
  term     : Nat := 0
  voteTerm : Nat := 0
  voteCand : Option Nat := none
  log      : List Entry := []
  role     : Role := .follower
  tally    : List Nat := []
deriving Repr

inductive Msg
  | voteReq (cand term lastIdx lastTerm : Nat)
  | voteResp (voter cand term : Nat) (granted : Bool)
  | ae (ldr term prevIdx prevTerm : Nat) (es : List Entry)
deriving DecidableEq, Repr

structure Ghost where
  grants  : List (Nat × Nat × Nat) := []          -- (voter, term, cand)
  elected : List (Nat × Nat × List Nat) := []     -- (term, leader, tallied voters)
  tl      : Nat → List Entry := fun _ => []       -- term log: the log of the leader of that term

structure Sys where
  nodes : Nat → Node
  net   : List Msg
  ghost : Ghost

def quorum (n : Nat) : Nat := n / 2 + 1

def lastTerm (l : List Entry) : Nat := match l.getLast? with | some e => e.term | none => 0

def setNode (s : Sys) (i : Nat) (nd : Node) : Sys :=
  { s with nodes := fun j => if j = i then nd else s.nodes j }

/-- outcome of the vote handler on node `nd` (pinned order: duplicate-vote check before log check).
    `stage` models a crash/failed write inside persistVote: 0 = nothing of the vote persisted,
    1 = only LastVoteTerm written, 2 = both written (normal). -/
def handleVote (nd : Node) (c t li lt : Nat) (stage : Nat) : Node × Bool :=
  if t < nd.term then (nd, false) else
  let nd1 : Node := if nd.term < t then { nd with term := t, role := .follower, tally := [] } else nd
  if nd1.voteTerm = t ∧ nd1.voteCand.isSome then
    (nd1, nd1.voteCand = some c)
  else if lt < lastTerm nd1.log then (nd1, false)
  else if lastTerm nd1.log = lt ∧ li < nd1.log.length then (nd1, false)
  else match stage with
    | 0 => (nd1, false)
    | 1 => ({ nd1 with voteTerm := t }, false)
    | _ => ({ nd1 with voteTerm := t, voteCand := some c }, true)

/-- term of the entry at 1-based index `i` (0 for index 0 or out of range) -/
def termAt (l : List Entry) (i : Nat) : Nat :=
  match i with
  | 0 => 0
  | k + 1 => match l[k]? with | some e => e.term | none => 0

/-- hashicorp follower merge on the suffix after the previous entry: skip entries whose stored
    term equals the sent term, on the first term conflict drop the rest of the stored suffix and
    append the rest of the sent entries, keep the stored suffix if the sent entries run out. -/
def mergeSuffix : List Entry → List Entry → List Entry
  | suf, [] => suf
  | [], es => es
  | x :: suf, e :: es => if x.term = e.term then x :: mergeSuffix suf es else e :: es

/-- the suffix surviving only the truncation half of the merge (crash before StoreLogs) -/
def truncSuffix : List Entry → List Entry → List Entry
  | suf, [] => suf
  | [], _ => []
  | x :: suf, e :: es => if x.term = e.term then x :: truncSuffix suf es else []

/-- AppendEntries handler on the log part. `stage = 0`: crash after DeleteRange, before StoreLogs. -/
def handleAE (nd : Node) (t prevIdx prevTerm : Nat) (es : List Entry) (stage : Nat) : Node × Bool :=
  if t < nd.term then (nd, false) else
  let nd1 : Node := if nd.term < t ∨ nd.role ≠ .follower
                    then { nd with term := t, role := .follower, tally := [] } else nd
  if prevIdx ≠ 0 ∧ (nd1.log.length < prevIdx ∨ termAt nd1.log prevIdx ≠ prevTerm) then (nd1, false)
  else
    let pre := nd1.log.take prevIdx
    let suf := nd1.log.drop prevIdx
    match stage with
    | 0 => ({ nd1 with log := pre ++ truncSuffix suf es }, false)
    | _ => ({ nd1 with log := pre ++ mergeSuffix suf es }, true)

inductive Label
  | timeout (i : Nat)
  | timeoutCrash (i k : Nat)
  | voteReq (j c t li lt stage : Nat)
  | voteResp (i v t : Nat)
  | crash (i : Nat)
  | dup (m : Msg)
  | append (i p : Nat)
  | sendAE (i prevIdx len : Nat)
  | recvAE (j ldr t prevIdx prevTerm : Nat) (es : List Entry) (stage : Nat)

def enabled (n : Nat) (s : Sys) : Label → Prop
  | .timeout i => i < n
  | .timeoutCrash i _ => i < n
  | .voteReq j c t li lt _ => j < n ∧ Msg.voteReq c t li lt ∈ s.net
  | .voteResp i v t => i < n ∧ v < n ∧ Msg.voteResp v i t true ∈ s.net ∧
      (s.nodes i).role = .candidate ∧ (s.nodes i).term = t
  | .crash i => i < n
  | .dup m => m ∈ s.net
  | .append i _ => i < n ∧ (s.nodes i).role = .leader
  | .sendAE i prevIdx _ => i < n ∧ (s.nodes i).role = .leader ∧ prevIdx ≤ (s.nodes i).log.length
  | .recvAE j ldr t prevIdx prevTerm es _ => j < n ∧ Msg.ae ldr t prevIdx prevTerm es ∈ s.net

def apply (n : Nat) (s : Sys) : Label → Sys
  | .timeout i =>
      let nd := s.nodes i
      let t := nd.term + 1
      { (setNode s i { nd with term := t, voteTerm := t, voteCand := some i,
                                role := .candidate, tally := [i] }) with
        net := Msg.voteReq i t nd.log.length (lastTerm nd.log) :: s.net,
        ghost := { s.ghost with grants := (i, t, i) :: s.ghost.grants } }
  | .timeoutCrash i k =>
      let nd := s.nodes i
      let t := nd.term + 1
      setNode s i { nd with term := t, voteTerm := if k = 0 then nd.voteTerm else t,
                            role := .follower, tally := [] }
  | .voteReq j c t li lt stage =>
      let r := handleVote (s.nodes j) c t li lt stage
      { (setNode s j r.1) with
        net := Msg.voteResp j c t r.2 :: s.net,
        ghost := if r.2 then { s.ghost with grants := (j, t, c) :: s.ghost.grants } else s.ghost }
  | .voteResp i v t =>
      let nd := s.nodes i
      let tl := if v ∈ nd.tally then nd.tally else v :: nd.tally
      let won := decide (quorum n ≤ tl.length)
      let lg := if won then nd.log ++ [⟨t, 0⟩] else nd.log          -- the new leader's no-op
      { (setNode s i { nd with tally := tl, role := if won then .leader else .candidate, log := lg }) with
        ghost := if won then { s.ghost with elected := (t, i, tl) :: s.ghost.elected,
                                            tl := fun u => if u = t then lg else s.ghost.tl u }
                 else s.ghost }
  | .crash i => setNode s i { (s.nodes i) with role := .follower, tally := [] }
  | .dup m => { s with net := m :: s.net }
  | .append i p =>
      let nd := s.nodes i
      let lg := nd.log ++ [⟨nd.term, p⟩]
      { (setNode s i { nd with log := lg }) with
        ghost := { s.ghost with tl := fun u => if u = nd.term then lg else s.ghost.tl u } }
  | .sendAE i prevIdx len =>
      let nd := s.nodes i
      { s with net := Msg.ae i nd.term prevIdx (termAt nd.log prevIdx) ((nd.log.drop prevIdx).take len) :: s.net }
  | .recvAE j _ t prevIdx prevTerm es stage =>
      setNode s j (handleAE (s.nodes j) t prevIdx prevTerm es stage).1

def Step (n : Nat) (s s' : Sys) : Prop := ∃ l, enabled n s l ∧ s' = apply n s l

def init : Sys := { nodes := fun _ => {}, net := [], ghost := {} }

inductive Reachable (n : Nat) : Sys → Prop
  | init : Reachable n init
  | step {s s'} : Reachable n s → Step n s s' → Reachable n s'

end RP
