import RP.Model
open RP

def run (n : Nat) (ls : List Label) : Sys := ls.foldl (apply n) init

def tr : List Label :=
  [ .timeout 0,
    .voteReq 1 0 1 0 0 2,
    .voteResp 0 1 1,
    .append 0 7,
    .sendAE 0 0 2 0,
    .recvAE 1 0 1 0 0 [⟨1, 0⟩, ⟨1, 7⟩] 0 2,
    .advanceCommit 0 2 [0, 1],
    .sendAE 0 2 0 2,
    .recvAE 1 0 1 2 1 [] 2 2 ]

#eval let s := run 3 tr
      ((s.nodes 0).role, (s.nodes 0).term, (s.nodes 0).log, (s.nodes 0).commit,
       (s.nodes 1).role, (s.nodes 1).term, (s.nodes 1).log, (s.nodes 1).commit, s.ghost.acks, s.ghost.elected)
