import RP
#print axioms RP.election_safety
#print axioms RP.log_matching
#print axioms RP.leader_completeness
#print axioms RP.state_machine_safety
