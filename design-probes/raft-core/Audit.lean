import RP
#print axioms RP.election_safety
#print axioms RP.log_matching
#print axioms RP.leader_completeness
#print axioms RP.state_machine_safety
#print axioms RP.snapshot_coverage
#print axioms RP.state_machine_safety_snap
#print axioms RP.fsm_safety
#print axioms RP.ack_exact
#print axioms RP.ack_exact_forever
#print axioms RP.catchup_terminates
