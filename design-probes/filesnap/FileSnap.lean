/-! Probe for C15: crash atomicity of `FileSnapshotStore` sinks (Create / Write / Close / Cancel),
under an explicit crash model, for every interleaving of any number of sinks, every point at which
a call is abandoned (error return), every writeback schedule of the page cache and journal, and a
crash at every instant.  Reaping is not in this probe.  Core Lean only.

Crash model (DESIGN.md, C15): namespace operations reach the disk in the order they were issued
(`pend` is the not-yet-durable tail of that journal); `fsync` of a file or of the parent directory
forces the whole tail; a file's content reaches the disk at any time after it was written, possibly
torn, and certainly at `fsync` of that file. -/
namespace FSS

inductive F | mj | sb
deriving DecidableEq, Repr

/-- `meta.json`: empty, an undecodable part, or the whole JSON document (which carries the CRC:
    `none` in the copy `Create` writes, `some crc` in the copy `Close` writes) -/
inductive MetaC
  | empty
  | part
  | full (crc : Option Nat)
deriving DecidableEq, Repr

structure Dir where
  final : Bool       -- the directory carries its final name (no `.tmp` suffix)
  hasMeta : Bool
  hasState : Bool
deriving DecidableEq, Repr

inductive NsOp
  | mkdir (id : Nat)
  | creat (id : Nat) (f : F)
  | rename (id : Nat)
  | unlink (id : Nat) (f : F)
  | rmdir (id : Nat)
deriving DecidableEq, Repr

def NsOp.id : NsOp → Nat
  | .mkdir id | .creat id _ | .rename id | .unlink id _ | .rmdir id => id

abbrev NS := Nat → Option Dir

def updDir (ns : NS) (id : Nat) (g : Dir → Dir) : NS :=
  fun i => if i = id then (ns id).map g else ns i

def applyNs (ns : NS) : NsOp → NS
  | .mkdir id => fun i => if i = id then (match ns id with | some d => some d | none => some ⟨false, false, false⟩) else ns i
  | .creat id .mj => updDir ns id (fun d => { d with hasMeta := true })
  | .creat id .sb => updDir ns id (fun d => { d with hasState := true })
  | .rename id => updDir ns id (fun d => { d with final := true })
  | .unlink id .mj => updDir ns id (fun d => { d with hasMeta := false })
  | .unlink id .sb => updDir ns id (fun d => { d with hasState := false })
  | .rmdir id => fun i => if i = id then none else ns i

/-- uninterpreted checksum -/
opaque crc : List Nat → Nat

structure Sys where
  dns : NS := fun _ => none                 -- durable namespace
  pend : List NsOp := []                    -- journal tail, oldest first
  vmeta : Nat → MetaC := fun _ => .empty    -- page cache
  dmeta : Nat → MetaC := fun _ => .empty    -- disk
  vstate : Nat → List Nat := fun _ => []
  dstate : Nat → List Nat := fun _ => []
  ph : Nat → Nat := fun _ => 0              -- program counter of sink `id` (see `Label`)

def nsAt (s : Sys) (j : Nat) : NS := (s.pend.take j).foldl applyNs s.dns
def vns (s : Sys) : NS := s.pend.foldl applyNs s.dns

/-- One syscall of one sink, or one writeback step.  The sink program is the code of `Create`
    (phases 0→6), `Write` (6→6), `Close` (6→13) and the `RemoveAll` of `Cancel` / of a failed
    `finalize` (6|7→20→…→24), one label per syscall that changes what a crash can leave behind.
    A call that returns an error early is a sink that takes no further step. -/
inductive Label
  | mkdir (id : Nat)                 -- 0→1   os.MkdirAll(dir.tmp)
  | creatMeta1 (id : Nat)            -- 1→2   os.Create(meta.json)
  | wmetaP1 (id : Nat)               -- 2→3   part of the JSON written
  | wmetaF1 (id : Nat)               -- 3→4   all of it (CRC nil)
  | fsyncMeta1 (id : Nat)            -- 4→5
  | creatState (id : Nat)            -- 5→6   os.Create(state.bin)
  | write (id : Nat) (b : List Nat)  -- 6→6   buffered writer flushes a chunk
  | fsyncState (id : Nat)            -- 6→7   finalize
  | creatMeta2 (id : Nat)            -- 7→8   os.Create truncates meta.json
  | wmetaP2 (id : Nat)               -- 8→9
  | wmetaF2 (id : Nat)               -- 9→10  with the CRC of everything written
  | fsyncMeta2 (id : Nat)            -- 10→11
  | rename (id : Nat)                -- 11→12
  | fsyncParent (id : Nat)           -- 12→13 Close returns nil (before reaping)
  | startCleanup (id : Nat)          -- 6|7→20  Cancel, or finalize failed
  | unlinkMetaA (id : Nat)           -- 20→21
  | unlinkStateA (id : Nat)          -- 20→22
  | unlinkStateB (id : Nat)          -- 21→23
  | unlinkMetaB (id : Nat)           -- 22→23
  | rmdir (id : Nat)                 -- 23→24
  | flushNs                          -- journal: the oldest pending operation becomes durable
  | flushMeta (id : Nat)             -- page cache → disk, whole
  | flushMetaTorn (id : Nat)         -- page cache → disk, torn
  | flushState (id : Nat) (n : Nat)  -- page cache → disk, any prefix

def enabled (s : Sys) : Label → Prop
  | .mkdir id => s.ph id = 0
  | .creatMeta1 id => s.ph id = 1
  | .wmetaP1 id => s.ph id = 2
  | .wmetaF1 id => s.ph id = 3
  | .fsyncMeta1 id => s.ph id = 4
  | .creatState id => s.ph id = 5
  | .write id _ => s.ph id = 6
  | .fsyncState id => s.ph id = 6
  | .creatMeta2 id => s.ph id = 7
  | .wmetaP2 id => s.ph id = 8
  | .wmetaF2 id => s.ph id = 9
  | .fsyncMeta2 id => s.ph id = 10
  | .rename id => s.ph id = 11
  | .fsyncParent id => s.ph id = 12
  | .startCleanup id => s.ph id = 6 ∨ s.ph id = 7
  | .unlinkMetaA id => s.ph id = 20
  | .unlinkStateA id => s.ph id = 20
  | .unlinkStateB id => s.ph id = 21
  | .unlinkMetaB id => s.ph id = 22
  | .rmdir id => s.ph id = 23
  | .flushNs => s.pend ≠ []
  | .flushMeta id => s.dmeta id ≠ s.vmeta id
  | .flushMetaTorn id => s.dmeta id ≠ s.vmeta id ∧ s.vmeta id ≠ .empty
  | .flushState id _ => s.dstate id ≠ s.vstate id

def setPh (s : Sys) (id p : Nat) : Sys := { s with ph := fun i => if i = id then p else s.ph i }
def nsop (s : Sys) (op : NsOp) (p : Nat) : Sys := setPh { s with pend := s.pend ++ [op] } op.id p
def setVMeta (s : Sys) (id : Nat) (c : MetaC) (p : Nat) : Sys :=
  setPh { s with vmeta := fun i => if i = id then c else s.vmeta i } id p
def syncAll (s : Sys) : Sys := { s with dns := vns s, pend := [] }

def apply (s : Sys) : Label → Sys
  | .mkdir id => nsop s (.mkdir id) 1
  | .creatMeta1 id => { (nsop s (.creat id .mj) 2) with vmeta := fun i => if i = id then .empty else s.vmeta i }
  | .wmetaP1 id => setVMeta s id .part 3
  | .wmetaF1 id => setVMeta s id (.full none) 4
  | .fsyncMeta1 id => setPh { (syncAll s) with dmeta := fun i => if i = id then s.vmeta id else s.dmeta i } id 5
  | .creatState id => { (nsop s (.creat id .sb) 6) with vstate := fun i => if i = id then [] else s.vstate i }
  | .write id b => { s with vstate := fun i => if i = id then s.vstate id ++ b else s.vstate i }
  | .fsyncState id => setPh { (syncAll s) with dstate := fun i => if i = id then s.vstate id else s.dstate i } id 7
  | .creatMeta2 id => { (nsop s (.creat id .mj) 8) with vmeta := fun i => if i = id then .empty else s.vmeta i }
  | .wmetaP2 id => setVMeta s id .part 9
  | .wmetaF2 id => setVMeta s id (.full (some (crc (s.vstate id)))) 10
  | .fsyncMeta2 id => setPh { (syncAll s) with dmeta := fun i => if i = id then s.vmeta id else s.dmeta i } id 11
  | .rename id => nsop s (.rename id) 12
  | .fsyncParent id => setPh (syncAll s) id 13
  | .startCleanup id => setPh s id 20
  | .unlinkMetaA id => nsop s (.unlink id .mj) 21
  | .unlinkStateA id => nsop s (.unlink id .sb) 22
  | .unlinkStateB id => nsop s (.unlink id .sb) 23
  | .unlinkMetaB id => nsop s (.unlink id .mj) 23
  | .rmdir id => nsop s (.rmdir id) 24
  | .flushNs => match s.pend with
      | [] => s
      | op :: rest => { s with dns := applyNs s.dns op, pend := rest }
  | .flushMeta id => { s with dmeta := fun i => if i = id then s.vmeta id else s.dmeta i }
  | .flushMetaTorn id => { s with dmeta := fun i => if i = id then .part else s.dmeta i }
  | .flushState id n => { s with dstate := fun i => if i = id then (s.vstate id).take n else s.dstate i }

inductive Reachable : Sys → Prop
  | init : Reachable {}
  | step {s} (l : Label) : Reachable s → enabled s l → Reachable (apply s l)

/-! ## what a restart sees: the durable namespace and the durable contents -/

/-- `getSnapshots` after a crash keeps this directory: final name, `meta.json` present and decodable -/
def Listed (s : Sys) (id : Nat) : Prop :=
  ∃ d c, s.dns id = some d ∧ d.final = true ∧ d.hasMeta = true ∧ s.dmeta id = .full c

/-- `Open` succeeds and returns exactly the bytes the writer handed to the sink -/
def Complete (s : Sys) (id : Nat) : Prop :=
  ∃ d, s.dns id = some d ∧ d.hasState = true ∧ s.dstate id = s.vstate id ∧
    s.dmeta id = .full (some (crc (s.dstate id))) ∧ (s.ph id = 12 ∨ s.ph id = 13)

/-! ## namespace half of the invariant: depends on the journal and the program counters only -/

def nsAtOf (dns : NS) (pend : List NsOp) (j : Nat) : NS := (pend.take j).foldl applyNs dns
def vnsOf (dns : NS) (pend : List NsOp) : NS := pend.foldl applyNs dns
def updPh (ph : Nat → Nat) (id p : Nat) : Nat → Nat := fun i => if i = id then p else ph i

structure NInv (dns : NS) (pend : List NsOp) (ph : Nat → Nat) : Prop where
  /-- in every crash image of the namespace a directory with a final name has both files and
      belongs to a sink that got past `rename` -/
  good : ∀ j id d, nsAtOf dns pend j id = some d → d.final = true →
      d.hasMeta = true ∧ d.hasState = true ∧ (ph id = 12 ∨ ph id = 13)
  fresh : ∀ id, ph id = 0 → ∀ j, nsAtOf dns pend j id = none
  vshape : ∀ id, 1 ≤ ph id → ph id ≤ 11 → ∃ d, vnsOf dns pend id = some d ∧ d.final = false ∧
      (2 ≤ ph id → d.hasMeta = true) ∧ (6 ≤ ph id → d.hasState = true)
  v12 : ∀ id, ph id = 12 → ∃ d, vnsOf dns pend id = some d ∧ d.final = true
  done13 : ∀ id, ph id = 13 → (∃ d, dns id = some d ∧ d.final = true) ∧ ∀ op ∈ pend, op.id ≠ id

theorem applyNs_other (ns : NS) (op : NsOp) (i : Nat) (h : i ≠ op.id) : applyNs ns op i = ns i := by
  cases op with
  | mkdir id => simp only [applyNs, NsOp.id] at *; simp [h]
  | creat id f => cases f <;> simp only [applyNs, updDir, NsOp.id] at * <;> simp [h]
  | rename id => simp only [applyNs, updDir, NsOp.id] at *; simp [h]
  | unlink id f => cases f <;> simp only [applyNs, updDir, NsOp.id] at * <;> simp [h]
  | rmdir id => simp only [applyNs, NsOp.id] at *; simp [h]

theorem foldl_other (ns : NS) (l : List NsOp) (i : Nat) (h : ∀ op ∈ l, op.id ≠ i) :
    l.foldl applyNs ns i = ns i := by
  induction l generalizing ns with
  | nil => rfl
  | cons op rest ih =>
    simp only [List.foldl_cons]
    rw [ih _ (fun o ho => h o (List.mem_cons_of_mem _ ho))]
    exact applyNs_other ns op i (fun e => h op (List.mem_cons_self) e.symm)

theorem vnsOf_eq_nsAt (dns : NS) (pend : List NsOp) : vnsOf dns pend = nsAtOf dns pend pend.length := by
  simp [vnsOf, nsAtOf]

theorem nsAt_ge (dns : NS) (pend : List NsOp) (j : Nat) (h : pend.length ≤ j) :
    nsAtOf dns pend j = vnsOf dns pend := by
  simp [vnsOf, nsAtOf, List.take_of_length_le h]

theorem nsAt_append (dns : NS) (pend : List NsOp) (op : NsOp) (j : Nat) :
    nsAtOf dns (pend ++ [op]) j = if j ≤ pend.length then nsAtOf dns pend j
                                   else applyNs (vnsOf dns pend) op := by
  split
  · rename_i h; simp [nsAtOf, List.take_append_of_le_length h]
  · rename_i h
    have : (pend ++ [op]).length ≤ j := by simp; omega
    simp [nsAtOf, vnsOf, List.take_of_length_le this, List.foldl_append]

theorem vnsOf_append (dns : NS) (pend : List NsOp) (op : NsOp) :
    vnsOf dns (pend ++ [op]) = applyNs (vnsOf dns pend) op := by
  simp [vnsOf, List.foldl_append]

/-- program-counter moves that no namespace conjunct can see -/
theorem ninv_ph (dns : NS) (pend : List NsOp) (ph ph' : Nat → Nat) (h : NInv dns pend ph)
    (hph : ∀ i, ((ph i = 12 ∨ ph i = 13) → ph' i = ph i) ∧ (ph' i = 0 → ph i = 0) ∧
      (1 ≤ ph' i → ph' i ≤ 11 → 1 ≤ ph i ∧ ph i ≤ 11 ∧ (2 ≤ ph' i → 2 ≤ ph i) ∧ (6 ≤ ph' i → 6 ≤ ph i)) ∧
      (ph' i = 12 → ph i = 12) ∧ (ph' i = 13 → ph i = 13)) : NInv dns pend ph' := by
  refine ⟨?_, ?_, ?_, ?_, ?_⟩
  · intro j id d h1 h2
    obtain ⟨a, b, c⟩ := h.good j id d h1 h2
    refine ⟨a, b, ?_⟩
    have := (hph id).1 c
    rw [this]; exact c
  · intro id h0 j; exact h.fresh id ((hph id).2.1 h0) j
  · intro id h1 h2
    obtain ⟨a, b, c, e⟩ := (hph id).2.2.1 h1 h2
    obtain ⟨d, d1, d2, d3, d4⟩ := h.vshape id a b
    exact ⟨d, d1, d2, fun x => d3 (c x), fun x => d4 (e x)⟩
  · intro id h12; exact h.v12 id ((hph id).2.2.2.1 h12)
  · intro id h13; exact h.done13 id ((hph id).2.2.2.2 h13)

/-- `fsync` of a file or of the parent: the whole journal tail becomes durable -/
theorem ninv_sync (dns : NS) (pend : List NsOp) (ph : Nat → Nat) (h : NInv dns pend ph) (id p : Nat)
    (hen : (ph id = 4 ∧ p = 5) ∨ (ph id = 6 ∧ p = 7) ∨ (ph id = 10 ∧ p = 11) ∨ (ph id = 12 ∧ p = 13)) :
    NInv (vnsOf dns pend) [] (updPh ph id p) := by
  have hat : ∀ j, nsAtOf (vnsOf dns pend) [] j = vnsOf dns pend := by intro j; simp [nsAtOf]
  have hv : vnsOf (vnsOf dns pend) [] = vnsOf dns pend := by simp [vnsOf]
  refine ⟨?_, ?_, ?_, ?_, ?_⟩
  · intro j i d h1 h2
    rw [hat, vnsOf_eq_nsAt] at h1
    obtain ⟨a, b, c⟩ := h.good _ i d h1 h2
    refine ⟨a, b, ?_⟩
    simp only [updPh]; split
    · rename_i e; subst e; omega
    · exact c
  · intro i h0 j
    rw [hat, vnsOf_eq_nsAt]
    simp only [updPh] at h0
    split at h0
    · omega
    · exact h.fresh i h0 _
  · intro i h1 h2
    rw [hv]
    simp only [updPh] at h1 h2 ⊢
    split at h1
    · rename_i e; subst e
      simp only [if_true] at h2 ⊢
      have hr : 1 ≤ ph i ∧ ph i ≤ 11 := by omega
      obtain ⟨d, d1, d2, d3, d4⟩ := h.vshape i hr.1 hr.2
      exact ⟨d, d1, d2, fun _ => d3 (by omega), fun _ => d4 (by omega)⟩
    · rename_i e; simp only [e, if_false] at h2 ⊢
      exact h.vshape i h1 h2
  · intro i h12
    rw [hv]
    simp only [updPh] at h12
    split at h12
    · omega
    · exact h.v12 i h12
  · intro i h13
    refine ⟨?_, by simp⟩
    simp only [updPh] at h13
    split at h13
    · rename_i e; subst e
      have : ph i = 12 := by omega
      exact h.v12 i this
    · obtain ⟨⟨d, d1, d2⟩, hno⟩ := h.done13 i h13
      refine ⟨d, ?_, d2⟩
      show pend.foldl applyNs dns i = some d
      rw [foldl_other dns pend i hno]; exact d1

/-- the journal writes its oldest pending operation -/
theorem ninv_flush (dns : NS) (op : NsOp) (rest : List NsOp) (ph : Nat → Nat)
    (h : NInv dns (op :: rest) ph) : NInv (applyNs dns op) rest ph := by
  have hat : ∀ j, nsAtOf (applyNs dns op) rest j = nsAtOf dns (op :: rest) (j + 1) := by
    intro j; simp [nsAtOf]
  have hv : vnsOf (applyNs dns op) rest = vnsOf dns (op :: rest) := by simp [vnsOf]
  refine ⟨?_, ?_, ?_, ?_, ?_⟩
  · intro j i d h1 h2; rw [hat] at h1; exact h.good _ i d h1 h2
  · intro i h0 j; rw [hat]; exact h.fresh i h0 _
  · intro i h1 h2; rw [hv]; exact h.vshape i h1 h2
  · intro i h12; rw [hv]; exact h.v12 i h12
  · intro i h13
    obtain ⟨⟨d, d1, d2⟩, hno⟩ := h.done13 i h13
    refine ⟨⟨d, ?_, d2⟩, fun o ho => hno o (List.mem_cons_of_mem _ ho)⟩
    rw [applyNs_other dns op i (fun e => hno op List.mem_cons_self e.symm)]; exact d1

/-- which namespace syscall the sink program issues at which program counter -/
def okAppend : NsOp → Nat → Nat → Prop
  | .mkdir _, p, q => p = 0 ∧ q = 1
  | .creat _ .mj, p, q => (p = 1 ∧ q = 2) ∨ (p = 7 ∧ q = 8)
  | .creat _ .sb, p, q => p = 5 ∧ q = 6
  | .rename _, p, q => p = 11 ∧ q = 12
  | .unlink _ .mj, p, q => (p = 20 ∧ q = 21) ∨ (p = 22 ∧ q = 23)
  | .unlink _ .sb, p, q => (p = 20 ∧ q = 22) ∨ (p = 21 ∧ q = 23)
  | .rmdir _, p, q => p = 23 ∧ q = 24

theorem okAppend_range (op : NsOp) (p q : Nat) (h : okAppend op p q) :
    p ≠ 12 ∧ p ≠ 13 ∧ q ≠ 0 ∧ q ≠ 13 := by
  cases op with
  | mkdir id => simp only [okAppend] at h; omega
  | creat id f => cases f <;> simp only [okAppend] at h <;> omega
  | rename id => simp only [okAppend] at h; omega
  | unlink id f => cases f <;> simp only [okAppend] at h <;> omega
  | rmdir id => simp only [okAppend] at h; omega

/-- what the new volatile entry of the sink's own directory looks like -/
theorem applyNs_self (ns : NS) (op : NsOp) (p q : Nat) (h : okAppend op p q)
    (hfresh : p = 0 → ns op.id = none)
    (hshape : 1 ≤ p → p ≤ 11 → ∃ d, ns op.id = some d ∧ d.final = false ∧
        (2 ≤ p → d.hasMeta = true) ∧ (6 ≤ p → d.hasState = true))
    (hnf : 20 ≤ p → ∀ d, ns op.id = some d → d.final = false) :
    (∀ d, applyNs ns op op.id = some d → d.final = true → d.hasMeta = true ∧ d.hasState = true ∧ q = 12) ∧
    (1 ≤ q → q ≤ 11 → ∃ d, applyNs ns op op.id = some d ∧ d.final = false ∧
        (2 ≤ q → d.hasMeta = true) ∧ (6 ≤ q → d.hasState = true)) ∧
    (q = 12 → ∃ d, applyNs ns op op.id = some d ∧ d.final = true) := by
  cases op with
  | mkdir id =>
    simp only [okAppend] at h
    obtain ⟨hp, hq⟩ := h
    have hn := hfresh hp
    simp only [NsOp.id] at hn ⊢
    simp only [applyNs, if_true, hn]
    refine ⟨?_, ?_, ?_⟩
    · intro d hd hf; cases hd; simp at hf
    · intro _ _; exact ⟨_, rfl, rfl, fun _ => by omega, fun _ => by omega⟩
    · intro _; omega
  | creat id f =>
    cases f with
    | mj =>
      simp only [okAppend] at h
      obtain ⟨d, d1, d2, d3, d4⟩ := hshape (by omega) (by omega)
      simp only [NsOp.id] at d1 ⊢
      simp only [applyNs, updDir, if_true, d1, Option.map_some]
      refine ⟨?_, ?_, ?_⟩
      · intro d' hd hf; cases hd; simp [d2] at hf
      · intro _ _; exact ⟨_, rfl, d2, fun _ => rfl, fun hq6 => d4 (by omega)⟩
      · intro _; omega
    | sb =>
      simp only [okAppend] at h
      obtain ⟨d, d1, d2, d3, d4⟩ := hshape (by omega) (by omega)
      simp only [NsOp.id] at d1 ⊢
      simp only [applyNs, updDir, if_true, d1, Option.map_some]
      refine ⟨?_, ?_, ?_⟩
      · intro d' hd hf; cases hd; simp [d2] at hf
      · intro _ _; exact ⟨_, rfl, d2, fun _ => d3 (by omega), fun _ => rfl⟩
      · intro _; omega
  | rename id =>
    simp only [okAppend] at h
    obtain ⟨d, d1, d2, d3, d4⟩ := hshape (by omega) (by omega)
    simp only [NsOp.id] at d1 ⊢
    simp only [applyNs, updDir, if_true, d1, Option.map_some]
    refine ⟨?_, ?_, ?_⟩
    · intro d' hd hf; cases hd; exact ⟨d3 (by omega), d4 (by omega), h.2⟩
    · intro _ _; omega
    · intro _; exact ⟨_, rfl, rfl⟩
  | unlink id f =>
    cases f with
    | mj =>
      simp only [okAppend] at h
      simp only [NsOp.id] at hnf ⊢
      simp only [applyNs, updDir, if_true]
      refine ⟨?_, ?_, ?_⟩
      · intro d' hd hf
        cases hns : ns id with
        | none => rw [hns] at hd; cases hd
        | some d => rw [hns] at hd; cases hd; have := hnf (by omega) d hns; simp [this] at hf
      · intro _ _; omega
      · intro _; omega
    | sb =>
      simp only [okAppend] at h
      simp only [NsOp.id] at hnf ⊢
      simp only [applyNs, updDir, if_true]
      refine ⟨?_, ?_, ?_⟩
      · intro d' hd hf
        cases hns : ns id with
        | none => rw [hns] at hd; cases hd
        | some d => rw [hns] at hd; cases hd; have := hnf (by omega) d hns; simp [this] at hf
      · intro _ _; omega
      · intro _; omega
  | rmdir id =>
    simp only [okAppend] at h
    simp only [NsOp.id]
    simp only [applyNs, if_true]
    refine ⟨?_, ?_, ?_⟩
    · intro d hd; cases hd
    · intro _ _; omega
    · intro _; omega

/-- a namespace syscall of the sink program is appended to the journal -/
theorem ninv_append (dns : NS) (pend : List NsOp) (ph : Nat → Nat) (h : NInv dns pend ph)
    (op : NsOp) (q : Nat) (hok : okAppend op (ph op.id) q) :
    NInv dns (pend ++ [op]) (updPh ph op.id q) := by
  obtain ⟨r1, r2, r3, r4⟩ := okAppend_range op _ q hok
  -- facts about the sink's own directory in the volatile view
  have hself := applyNs_self (vnsOf dns pend) op (ph op.id) q hok
    (fun h0 => by rw [vnsOf_eq_nsAt]; exact h.fresh _ h0 _)
    (fun h1 h2 => h.vshape _ h1 h2)
    (fun h20 d hd => by
      cases hf : d.final with
      | false => rfl
      | true =>
        rw [vnsOf_eq_nsAt] at hd
        obtain ⟨_, _, c⟩ := h.good _ _ d hd hf
        omega)
  obtain ⟨s1, s2, s3⟩ := hself
  refine ⟨?_, ?_, ?_, ?_, ?_⟩
  · intro j i d h1 h2
    rw [nsAt_append] at h1
    split at h1
    · obtain ⟨a, b, c⟩ := h.good j i d h1 h2
      refine ⟨a, b, ?_⟩
      simp only [updPh]; split
      · rename_i e; subst e; omega
      · exact c
    · by_cases e : i = op.id
      · subst e
        obtain ⟨a, b, c⟩ := s1 d h1 h2
        refine ⟨a, b, ?_⟩
        simp only [updPh, if_true]; left; exact c
      · rw [applyNs_other _ _ _ e, vnsOf_eq_nsAt] at h1
        obtain ⟨a, b, c⟩ := h.good _ i d h1 h2
        refine ⟨a, b, ?_⟩
        simp only [updPh, e, if_false]; exact c
  · intro i h0 j
    simp only [updPh] at h0
    split at h0
    · omega
    · rename_i e
      rw [nsAt_append]; split
      · exact h.fresh i h0 j
      · rw [applyNs_other _ _ _ e, vnsOf_eq_nsAt]; exact h.fresh i h0 _
  · intro i h1 h2
    rw [vnsOf_append]
    by_cases e : i = op.id
    · subst e
      simp only [updPh, if_true] at h1 h2 ⊢
      exact s2 h1 h2
    · simp only [updPh, e, if_false] at h1 h2 ⊢
      rw [applyNs_other _ _ _ e]; exact h.vshape i h1 h2
  · intro i h12
    rw [vnsOf_append]
    by_cases e : i = op.id
    · subst e
      simp only [updPh, if_true] at h12
      exact s3 h12
    · simp only [updPh, e, if_false] at h12
      rw [applyNs_other _ _ _ e]; exact h.v12 i h12
  · intro i h13
    by_cases e : i = op.id
    · subst e; simp only [updPh, if_true] at h13; omega
    · simp only [updPh, e, if_false] at h13
      obtain ⟨a, b⟩ := h.done13 i h13
      refine ⟨a, ?_⟩
      intro o ho
      rcases List.mem_append.mp ho with ho | ho
      · exact b o ho
      · have : o = op := by simpa using ho
        rw [this]; exact fun x => e x.symm

/-! ## content half of the invariant, per sink -/

def CInv (p : Nat) (vm dm : MetaC) (vs ds : List Nat) : Prop :=
  (7 ≤ p → p ≤ 13 → ds = vs) ∧ (p = 10 → vm = .full (some (crc vs))) ∧
  (11 ≤ p → p ≤ 13 → vm = .full (some (crc vs)) ∧ dm = vm)

structure Inv (s : Sys) : Prop where
  ns : NInv s.dns s.pend s.ph
  content : ∀ id, CInv (s.ph id) (s.vmeta id) (s.dmeta id) (s.vstate id) (s.dstate id)

theorem inv_init : Inv {} := by
  refine ⟨⟨?_, ?_, ?_, ?_, ?_⟩, ?_⟩
  · intro j id d h; simp [nsAtOf] at h
  · intro id _ j; simp [nsAtOf]
  · intro id h; simp at h
  · intro id h; simp at h
  · intro id h; simp at h
  · intro id; simp [CInv]

theorem content_upd (s s' : Sys) (id : Nat)
    (h : ∀ i, CInv (s.ph i) (s.vmeta i) (s.dmeta i) (s.vstate i) (s.dstate i))
    (hother : ∀ i, i ≠ id → s'.ph i = s.ph i ∧ s'.vmeta i = s.vmeta i ∧ s'.dmeta i = s.dmeta i ∧
        s'.vstate i = s.vstate i ∧ s'.dstate i = s.dstate i)
    (hid : CInv (s'.ph id) (s'.vmeta id) (s'.dmeta id) (s'.vstate id) (s'.dstate id)) :
    ∀ i, CInv (s'.ph i) (s'.vmeta i) (s'.dmeta i) (s'.vstate i) (s'.dstate i) := by
  intro i
  by_cases e : i = id
  · subst e; exact hid
  · obtain ⟨a, b, c, d, f⟩ := hother i e
    rw [a, b, c, d, f]; exact h i

theorem updPh_compat (ph : Nat → Nat) (id p q : Nat) (hp : ph id = p)
    (hc : (p ≠ 12 ∧ p ≠ 13) ∧ q ≠ 0 ∧ q ≠ 12 ∧ q ≠ 13 ∧
      (1 ≤ q → q ≤ 11 → 1 ≤ p ∧ p ≤ 11 ∧ (2 ≤ q → 2 ≤ p) ∧ (6 ≤ q → 6 ≤ p))) :
    ∀ i, ((ph i = 12 ∨ ph i = 13) → updPh ph id q i = ph i) ∧ (updPh ph id q i = 0 → ph i = 0) ∧
      (1 ≤ updPh ph id q i → updPh ph id q i ≤ 11 →
        1 ≤ ph i ∧ ph i ≤ 11 ∧ (2 ≤ updPh ph id q i → 2 ≤ ph i) ∧ (6 ≤ updPh ph id q i → 6 ≤ ph i)) ∧
      (updPh ph id q i = 12 → ph i = 12) ∧ (updPh ph id q i = 13 → ph i = 13) := by
  intro i
  by_cases e : i = id
  · subst e
    simp only [updPh, if_true]
    refine ⟨by omega, by omega, ?_, by omega, by omega⟩
    intro h1 h2
    obtain ⟨a, b, c, d⟩ := hc.2.2.2.2 h1 h2
    exact ⟨by omega, by omega, fun x => by have := c x; omega, fun x => by have := d x; omega⟩
  · simp only [updPh, e, if_false]
    exact ⟨fun _ => trivial, fun x => x, fun h1 h2 => ⟨h1, h2, fun x => x, fun x => x⟩, fun x => x, fun x => x⟩

theorem inv_step (s : Sys) (l : Label) (h : Inv s) (hen : enabled s l) : Inv (apply s l) := by
  have hc := h.content
  cases l with
  | mkdir id =>
    simp only [enabled] at hen
    refine ⟨ninv_append _ _ _ h.ns (.mkdir id) 1 (by simp [okAppend, NsOp.id, hen]), ?_⟩
    refine content_upd s _ id hc (by intro i e; simp [apply, nsop, setPh, NsOp.id, e]) ?_
    simp [apply, nsop, setPh, NsOp.id, CInv]
  | creatMeta1 id =>
    simp only [enabled] at hen
    refine ⟨ninv_append _ _ _ h.ns (.creat id .mj) 2 (by simp [okAppend, NsOp.id, hen]), ?_⟩
    refine content_upd s _ id hc (by intro i e; simp [apply, nsop, setPh, NsOp.id, e]) ?_
    simp [apply, nsop, setPh, NsOp.id, CInv]
  | wmetaP1 id =>
    simp only [enabled] at hen
    refine ⟨ninv_ph _ _ _ _ h.ns (updPh_compat s.ph id 2 3 hen (by omega)), ?_⟩
    refine content_upd s _ id hc (by intro i e; simp [apply, setVMeta, setPh, e]) ?_
    simp [apply, setVMeta, setPh, CInv]
  | wmetaF1 id =>
    simp only [enabled] at hen
    refine ⟨ninv_ph _ _ _ _ h.ns (updPh_compat s.ph id 3 4 hen (by omega)), ?_⟩
    refine content_upd s _ id hc (by intro i e; simp [apply, setVMeta, setPh, e]) ?_
    simp [apply, setVMeta, setPh, CInv]
  | fsyncMeta1 id =>
    simp only [enabled] at hen
    refine ⟨ninv_sync _ _ _ h.ns id 5 (by omega), ?_⟩
    refine content_upd s _ id hc (by intro i e; simp [apply, syncAll, setPh, e]) ?_
    simp [apply, syncAll, setPh, CInv]
  | creatState id =>
    simp only [enabled] at hen
    refine ⟨ninv_append _ _ _ h.ns (.creat id .sb) 6 (by simp [okAppend, NsOp.id, hen]), ?_⟩
    refine content_upd s _ id hc (by intro i e; simp [apply, nsop, setPh, NsOp.id, e]) ?_
    simp [apply, nsop, setPh, NsOp.id, CInv]
  | write id b =>
    simp only [enabled] at hen
    refine ⟨h.ns, ?_⟩
    refine content_upd s _ id hc (by intro i e; simp [apply, e]) ?_
    simp only [apply, if_true, CInv, hen]
    refine ⟨by omega, by omega, by omega⟩
  | fsyncState id =>
    simp only [enabled] at hen
    refine ⟨ninv_sync _ _ _ h.ns id 7 (by omega), ?_⟩
    refine content_upd s _ id hc (by intro i e; simp [apply, syncAll, setPh, e]) ?_
    simp [apply, syncAll, setPh, CInv]
  | creatMeta2 id =>
    simp only [enabled] at hen
    have hci := hc id
    refine ⟨ninv_append _ _ _ h.ns (.creat id .mj) 8 (by simp [okAppend, NsOp.id, hen]), ?_⟩
    refine content_upd s _ id hc (by intro i e; simp [apply, nsop, setPh, NsOp.id, e]) ?_
    simp only [apply, nsop, setPh, NsOp.id, if_true, CInv] at hci ⊢
    exact ⟨fun _ _ => hci.1 (by omega) (by omega), by omega, by omega⟩
  | wmetaP2 id =>
    simp only [enabled] at hen
    have hci := hc id
    refine ⟨ninv_ph _ _ _ _ h.ns (updPh_compat s.ph id 8 9 hen (by omega)), ?_⟩
    refine content_upd s _ id hc (by intro i e; simp [apply, setVMeta, setPh, e]) ?_
    simp only [apply, setVMeta, setPh, if_true, CInv] at hci ⊢
    exact ⟨fun _ _ => hci.1 (by omega) (by omega), by omega, by omega⟩
  | wmetaF2 id =>
    simp only [enabled] at hen
    have hci := hc id
    refine ⟨ninv_ph _ _ _ _ h.ns (updPh_compat s.ph id 9 10 hen (by omega)), ?_⟩
    refine content_upd s _ id hc (by intro i e; simp [apply, setVMeta, setPh, e]) ?_
    simp only [apply, setVMeta, setPh, if_true, CInv] at hci ⊢
    exact ⟨fun _ _ => hci.1 (by omega) (by omega), fun _ => trivial, by omega⟩
  | fsyncMeta2 id =>
    simp only [enabled] at hen
    have hci := hc id
    refine ⟨ninv_sync _ _ _ h.ns id 11 (by omega), ?_⟩
    refine content_upd s _ id hc (by intro i e; simp [apply, syncAll, setPh, e]) ?_
    simp only [apply, syncAll, setPh, if_true, CInv] at hci ⊢
    exact ⟨fun _ _ => hci.1 (by omega) (by omega), by omega, fun _ _ => ⟨hci.2.1 hen, trivial⟩⟩
  | rename id =>
    simp only [enabled] at hen
    have hci := hc id
    refine ⟨ninv_append _ _ _ h.ns (.rename id) 12 (by simp [okAppend, NsOp.id, hen]), ?_⟩
    refine content_upd s _ id hc (by intro i e; simp [apply, nsop, setPh, NsOp.id, e]) ?_
    simp only [apply, nsop, setPh, NsOp.id, if_true, CInv] at hci ⊢
    exact ⟨fun _ _ => hci.1 (by omega) (by omega), by omega, fun _ _ => hci.2.2 (by omega) (by omega)⟩
  | fsyncParent id =>
    simp only [enabled] at hen
    have hci := hc id
    refine ⟨ninv_sync _ _ _ h.ns id 13 (by omega), ?_⟩
    refine content_upd s _ id hc (by intro i e; simp [apply, syncAll, setPh, e]) ?_
    simp only [apply, syncAll, setPh, if_true, CInv] at hci ⊢
    exact ⟨fun _ _ => hci.1 (by omega) (by omega), by omega, fun _ _ => hci.2.2 (by omega) (by omega)⟩
  | startCleanup id =>
    simp only [enabled] at hen
    refine ⟨?_, ?_⟩
    · rcases hen with hen | hen
      · exact ninv_ph _ _ _ _ h.ns (updPh_compat s.ph id 6 20 hen (by omega))
      · exact ninv_ph _ _ _ _ h.ns (updPh_compat s.ph id 7 20 hen (by omega))
    · refine content_upd s _ id hc (by intro i e; simp [apply, setPh, e]) ?_
      simp [apply, setPh, CInv]
  | unlinkMetaA id =>
    simp only [enabled] at hen
    refine ⟨ninv_append _ _ _ h.ns (.unlink id .mj) 21 (by simp [okAppend, NsOp.id, hen]), ?_⟩
    refine content_upd s _ id hc (by intro i e; simp [apply, nsop, setPh, NsOp.id, e]) ?_
    simp [apply, nsop, setPh, NsOp.id, CInv]
  | unlinkStateA id =>
    simp only [enabled] at hen
    refine ⟨ninv_append _ _ _ h.ns (.unlink id .sb) 22 (by simp [okAppend, NsOp.id, hen]), ?_⟩
    refine content_upd s _ id hc (by intro i e; simp [apply, nsop, setPh, NsOp.id, e]) ?_
    simp [apply, nsop, setPh, NsOp.id, CInv]
  | unlinkStateB id =>
    simp only [enabled] at hen
    refine ⟨ninv_append _ _ _ h.ns (.unlink id .sb) 23 (by simp [okAppend, NsOp.id, hen]), ?_⟩
    refine content_upd s _ id hc (by intro i e; simp [apply, nsop, setPh, NsOp.id, e]) ?_
    simp [apply, nsop, setPh, NsOp.id, CInv]
  | unlinkMetaB id =>
    simp only [enabled] at hen
    refine ⟨ninv_append _ _ _ h.ns (.unlink id .mj) 23 (by simp [okAppend, NsOp.id, hen]), ?_⟩
    refine content_upd s _ id hc (by intro i e; simp [apply, nsop, setPh, NsOp.id, e]) ?_
    simp [apply, nsop, setPh, NsOp.id, CInv]
  | rmdir id =>
    simp only [enabled] at hen
    refine ⟨ninv_append _ _ _ h.ns (.rmdir id) 24 (by simp [okAppend, NsOp.id, hen]), ?_⟩
    refine content_upd s _ id hc (by intro i e; simp [apply, nsop, setPh, NsOp.id, e]) ?_
    simp [apply, nsop, setPh, NsOp.id, CInv]
  | flushNs =>
    simp only [enabled] at hen
    cases hp : s.pend with
    | nil => exact absurd hp hen
    | cons op rest =>
      have hns := h.ns
      rw [hp] at hns
      refine ⟨?_, ?_⟩
      · simp only [apply, hp]; exact ninv_flush _ _ _ _ hns
      · simp only [apply, hp]; exact hc
  | flushMeta id =>
    simp only [enabled] at hen
    have hci := hc id
    refine ⟨h.ns, ?_⟩
    refine content_upd s _ id hc (by intro i e; simp [apply, e]) ?_
    simp only [apply, if_true, CInv] at hci ⊢
    exact ⟨hci.1, hci.2.1, fun a b => ⟨(hci.2.2 a b).1, trivial⟩⟩
  | flushMetaTorn id =>
    simp only [enabled] at hen
    have hci := hc id
    refine ⟨h.ns, ?_⟩
    refine content_upd s _ id hc (by intro i e; simp [apply, e]) ?_
    simp only [apply, if_true, CInv] at hci ⊢
    exact ⟨hci.1, hci.2.1, fun a b => absurd (hci.2.2 a b).2 hen.1⟩
  | flushState id n =>
    simp only [enabled] at hen
    have hci := hc id
    refine ⟨h.ns, ?_⟩
    refine content_upd s _ id hc (by intro i e; simp [apply, e]) ?_
    simp only [apply, if_true, CInv] at hci ⊢
    exact ⟨fun a b => absurd (hci.1 a b) hen, hci.2.1, hci.2.2⟩

theorem inv_reachable (s : Sys) (h : Reachable s) : Inv s := by
  induction h with
  | init => exact inv_init
  | step l _ hen ih => exact inv_step _ l ih hen

/-! ## C15, sink half -/

/-- **Listed ⇒ complete.**  Whatever any number of sinks did, wherever each stopped, whatever the
    page cache and the journal had written back when the machine died: a snapshot directory that
    `List` would return after the restart has both files, its `state.bin` holds exactly the bytes
    handed to the sink, and its `meta.json` carries their CRC — so `Open` succeeds with the original
    contents. -/
theorem listed_implies_complete (s : Sys) (h : Reachable s) (id : Nat) (hl : Listed s id) :
    Complete s id := by
  have inv := inv_reachable s h
  obtain ⟨d, c, h1, h2, h3, h4⟩ := hl
  have h1' : nsAtOf s.dns s.pend 0 id = some d := by simpa [nsAtOf] using h1
  obtain ⟨a, b, hp⟩ := inv.ns.good 0 id d h1' h2
  obtain ⟨c1, _, c3⟩ := inv.content id
  have hr : 7 ≤ s.ph id ∧ 11 ≤ s.ph id ∧ s.ph id ≤ 13 := by omega
  have e1 := c1 hr.1 hr.2.2
  obtain ⟨e2, e3⟩ := c3 hr.2.1 hr.2.2
  exact ⟨d, h1, b, e1, by rw [e3, e2, e1], hp⟩

/-- **Cancelled or interrupted ⇒ never listed.**  A sink that did not get as far as `rename` —
    still being written, abandoned after an error at any syscall, cancelled and partly or wholly
    removed — is invisible after a crash at any instant. -/
theorem unfinished_never_listed (s : Sys) (h : Reachable s) (id : Nat)
    (hp : s.ph id ≠ 12 ∧ s.ph id ≠ 13) : ¬ Listed s id := by
  intro hl
  obtain ⟨_, _, _, _, hq⟩ := listed_implies_complete s h id hl
  omega

/-- **Close returned nil ⇒ durable.**  Once the parent directory was synced the snapshot is listed
    and complete in every later crash image (reaping aside). -/
theorem closed_is_durable (s : Sys) (h : Reachable s) (id : Nat) (hp : s.ph id = 13) :
    Listed s id ∧ Complete s id := by
  have inv := inv_reachable s h
  obtain ⟨⟨d, d1, d2⟩, _⟩ := inv.ns.done13 id hp
  have h1' : nsAtOf s.dns s.pend 0 id = some d := by simpa [nsAtOf] using d1
  obtain ⟨a, b, _⟩ := inv.ns.good 0 id d h1' d2
  obtain ⟨_, _, c3⟩ := inv.content id
  obtain ⟨e2, e3⟩ := c3 (by omega) (by omega)
  have hl : Listed s id := ⟨d, _, d1, d2, a, by rw [e3, e2]⟩
  exact ⟨hl, listed_implies_complete s h id hl⟩

/-! ## the hypotheses are satisfiable -/

def run (ls : List Label) : Sys := ls.foldl apply {}

/-- sink 1 runs `Create`, two `Write`s and `Close` to the end -/
def happy : List Label :=
  [.mkdir 1, .creatMeta1 1, .wmetaP1 1, .wmetaF1 1, .fsyncMeta1 1, .creatState 1, .write 1 [7, 8], .write 1 [9],
   .fsyncState 1, .creatMeta2 1, .wmetaP2 1, .wmetaF2 1, .fsyncMeta2 1, .rename 1, .fsyncParent 1]

example : (run happy).ph 1 = 13 ∧ (run happy).dstate 1 = [7, 8, 9] ∧
    (run happy).dns 1 = some ⟨true, true, true⟩ ∧ (run happy).pend = [] := by
  refine ⟨rfl, rfl, rfl, rfl⟩

end FSS
#print axioms FSS.listed_implies_complete
#print axioms FSS.closed_is_durable
#print axioms FSS.unfinished_never_listed
