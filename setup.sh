#!/bin/sh
# Offline setup: build the Lean library (models, proofs, property theorems) and the compiled driver,
# and check that the harness builds against /repo.  Nothing is fetched.
set -e
cd "$(dirname "$0")"
mkdir -p build evidence replays
(cd lean && lake build RaftVerif rvdriver)
export GOFLAGS=-mod=mod GOPROXY=off GOSUMDB=off GOTOOLCHAIN=local
cp /repo/go.sum harness/go.sum
(cd harness && go1.26 build -tags verif ./... && go1.26 vet -tags verif ./... )
echo setup-ok
