import Driver.Parse
import RaftVerif.Spec.FileSnapSpec
/-! H4 engine `filesnap`: syscall trace of the real FileSnapshotStore vs the model's program, and the
property's Spec on every crash image. -/
namespace Drv
open FSP

def pApi : P Api := do
  let t ← tok
  if t = "C" then do let a ← nat; let b ← nat; let c ← nat; pure (.create a b c)
  else if t = "W" then do let a ← nat; let b ← nat; pure (.write a b)
  else if t = "X" then do let a ← nat; pure (.close a)
  else if t = "K" then do let a ← nat; pure (.cancel a)
  else failure

def pLbl : P Lbl := do let n ← tok; let a ← nat; pure (n, a)

def pObs : P Obs := do
  let c ← nat; let n ← nat; let k ← nat; let t ← tok
  if t = "E" then do let _ ← nat; pure ⟨c, n, k ≠ 0, true, []⟩
  else if t = "L" then do
    let ls ← many (do let s ← nat; let i ← nat; let tm ← nat; let o ← nat; pure (⟨s, i, tm, o⟩ : Listed))
    pure ⟨c, n, k ≠ 0, false, ls⟩
  else failure

def lblStr (l : List Lbl) : String := " ".intercalate (l.map (fun x => x.1 ++ " " ++ toString x.2))

def fsJudge (caseLine implLine : String) : String :=
  let pc : P (Nat × List Api) := do kw "R"; let r ← nat; kw "OPS"; let ops ← many pApi; pure (r, ops)
  let pi : P (List Lbl × List (Nat × Nat) × List (Nat × Nat) × List Obs × List (Nat × Nat × Nat)) := do
    kw "T"; let tr ← many pLbl
    kw "CL"; let cl ← many (do let a ← nat; let b ← nat; pure (a, b))
    kw "CA"; let ca ← many (do let a ← nat; let b ← nat; pure (a, b))
    kw "I"; let obs ← many pObs
    kw "DM"; let dm ← many (do let a ← nat; let b ← nat; let c ← nat; pure (a, b, c))
    pure (tr, cl, ca, obs, dm)
  match runP pc caseLine, runP pi implLine with
  | some (retain, ops), some (tr, cl, _ca, obs, dm) =>
      -- a state file damaged behind the store's back is refused, never handed out (checksum verified)
      if let some (s, var, _) := dm.find? (fun x => x.2.2 = 2) then
        s!"bad open-returned-damaged-contents snapshot={s} damage={var}" else
      let info := ops.filterMap (fun a => match a with | .create s i t => some (s, i, t) | _ => none)
      let closedIds := cl.map (·.1)
      let neverFinal := (info.map (·.1)).filter (fun s => !closedIds.contains s)
      match obs.findSome? (fun o => (obsOK retain info cl neverFinal o).map (fun m => s!"{m} crash-after={o.crashAt} journal-cut={o.nsCut} unsynced-data-kept={o.keep}")) with
      | some b => "bad " ++ b
      | none =>
        let m := canon (program retain ops)
        if canon tr ≠ m then "diff syscalls model=" ++ lblStr m else "ok"
  | none, _ => "malformed case"
  | _, _ => "malformed impl"

end Drv
