import Driver.Parse
import RaftVerif.Spec.ClusterSpec
/-! H3 engine `cluster`: the recorded history of a real cluster run, judged by the `CL` monitors. -/
namespace Drv
open CL

def pOptNat : P (Option Nat) := do
  let t ← tok
  match t.toNat? with
  | some n => pure (some n)
  | none => pure none

def pKind : P Nat := do
  let t ← tok
  if t = "a" then pure 0 else if t = "b" then pure 1 else if t = "v" then pure 2
  else if t = "s" then pure 3 else if t = "t" then pure 4 else if t = "m" then pure 5 else if t = "g" then pure 6 else failure

def pEv : P Ev := do
  let t ← tok
  if t = "C" then do let n ← nat; let m ← nat; pure (.cfg n (m ≠ 0))
  else if t = "S" then do let a ← nat; let b ← nat; let c ← nat; pure (.sender a b c)
  else if t = "G" then do let a ← nat; let b ← nat; let c ← nat; pure (.grant a b c)
  else if t = "F" then do
    let s ← nat; let l ← nat; let k ← tok
    if k = "a" then do let i ← nat; let tm ← nat; let p ← nat; pure (.fapply s l i tm p)
    else if k = "r" then do let d ← many nat; pure (.frestore s l d)
    else failure
  else if t = "N" then do let s ← nat; let l ← nat; let v ← nat; let tm ← nat; pure (.notify s l (v ≠ 0) tm)
  else if t = "P" then do
    let s ← nat; let l ← nat; let tm ← nat; let term ← nat; let role ← nat; let cm ← nat; let last ← nat; let own ← nat
    let nc ← nat; let nco ← nat; let st ← nat; let il ← nat; let lo ← nat
    pure (.sample s l tm term role cm last own nc nco st (il ≠ 0) lo)
  else if t = "ISOL" then do let s ← nat; let tm ← nat; pure (.isol s tm)
  else if t = "UNISOL" then do let s ← nat; let tm ← nat; pure (.unisol s tm)
  else if t = "HEALALL" then do let tm ← nat; pure (.healAll tm)
  else if t = "CALM" then do let tm ← nat; pure (.calm tm)
  else if t = "CALMEND" then do let tm ← nat; pure (.calmEnd tm)
  else if t = "ISO" then do let s ← nat; let l ← nat; let tm ← nat; let ls ← nat; pure (.isolate s l tm ls)
  else if t = "END" then do let tm ← nat; pure (.endObs tm)
  else if t = "RI" then do let s ← nat; let l ← nat; let tm ← nat; pure (.restoreInvoke s l tm)
  else if t = "R" then do
    let s ← nat; let l ← nat; let t0 ← nat; let t1 ← nat; let ok ← nat; let mi ← nat; let la ← nat; let d ← many nat
    pure (.restore s l t0 t1 (ok ≠ 0) mi la d)
  else if t = "RX" then do let s ← nat; let l ← nat; pure (.restoreDuringTransfer s l)
  else if t = "RR" then do let s ← nat; let l ← nat; let c ← nat; let d ← many nat; pure (.restoreRefused s l c d)
  else if t = "X" then do let s ← nat; let l ← nat; let _ ← tok; pure (.dead s l)
  else if t = "Z" then do let s ← nat; let l ← nat; let tm ← nat; pure (.crash s l tm)
  else if t = "I" then do let c ← nat; pure (.invoke c)
  else if t = "Y" then do let s ← nat; let l ← nat; pure (.shutdownHung s l)
  else if t = "NOPV" then do let s ← nat; pure (.noPreVote s)
  else if t = "LV" then do
    let s ← nat; let l ← nat; let v ← nat; let ci ← nat; let st ← nat; let k ← nat
    pure (.electedAs s l (v ≠ 0) ci st (k ≠ 0))
  else if t = "MAJ" then do let tt ← nat; let n ← nat; let ok ← nat; pure (.majority tt n (ok ≠ 0))
  else if t = "MAJS" then do let tt ← nat; let n ← nat; let ok ← nat; pure (.majorityStale tt n (ok ≠ 0))
  else if t = "REJOIN" then do
    let s ← nat; let t0 ← nat; let l0 ← nat; let tm0 ← nat; let t1 ← nat; let l1 ← nat; let tm1 ← nat
    pure (.rejoin s t0 l0 tm0 t1 l1 tm1)
  else if t = "LC" then do
    let s ← nat; let l ← nat; let v ← nat; let il ← nat
    pure (.leaderCh s l (if v = 2 then none else some (v ≠ 0)) (il ≠ 0))
  else if t = "K" then do
    let cid ← nat; let s ← nat; let l ← nat; let k ← pKind; let p ← nat; let t0 ← nat; let t1 ← nat
    let code ← nat; let idx ← nat; let r ← pOptNat
    pure (.call cid s l k p t0 t1 code idx r)
  else if t = "Q" then do let tm ← nat; pure (.quiet tm)
  else if t = "D" then do
    let _ ← tok; let s ← nat; let l ← nat; let st ← tok
    if st = "down" then pure (.dumpDown s l)
    else do
      let term ← nat; let role ← nat; let cm ← nat; let ap ← nat; let last ← nat; let ld ← nat; let sn ← nat
      let log ← many (do let a ← nat; let b ← nat; let c ← nat; let d ← nat; pure (a, b, c, d))
      let state ← many nat
      pure (.dumpUp s l term role cm ap last ld sn log state)
  else failure

def parseHist (line : String) : Option (List Ev) :=
  match (line.trimAscii.toString.splitOn " ; ") with
  | [] => none
  | _ :: evs => evs.mapM (fun e => runP pEv e)

abbrev CMon := List Ev → Option String

def cmonFor : String → List CMon
  | "C01" => [oneSenderPerTerm, oneGrantPerTerm, configGated, nonVoterNeverElected]
  | "C02" => [streamsAgree, streamsInOrder]
  | "C03" => [ackedSurvive, streamsAgree, currentTermRule, configGated]
  | "C04" => [logsAgree, termsMonotone, retainedAgree]
  | "C05" => [commitLeLast, currentTermRule, ackedSurvive, streamsAgree]
  | "C07" => [configGated, nonVoterNeverElected]
  | "C14" => [isolatedTermConstant, rejoinQuiet]
  | "C08" => [refusedRestoreInert, failedRestoreResidue, clientOutcomes, barrierOK, ackedSurvive, streamsAgree]
  | "C09" => [verifyFresh]
  | "C13" => [leaseStepDown, calmStable]
  | "C20" => [noRestoreDuringTransfer, refusedRestoreInert, failedRestoreResidue, restoreOK, finalStatesEqual, allResolved]
  | "C10" => [restartable, streamsInOrder]
  | "C11" => [restartable, ackedSurvive, streamsAgree]
  | "C12" => [converged, majorityElects]
  | "C17" => [allResolved, shutdownCompletes]
  | "C18" => [notifyAlternates, leaderChLatest]
  | _ => [oneSenderPerTerm, oneGrantPerTerm, streamsAgree, streamsInOrder, clientOutcomes, barrierOK, ackedSurvive,
          logsAgree, termsMonotone, retainedAgree, commitLeLast, converged, allResolved, notifyAlternates, verifyFresh, configGated, currentTermRule, isolatedTermConstant, restartable, shutdownCompletes, leaderChLatest, nonVoterNeverElected, majorityElects, rejoinQuiet]

def cJudgeWith (ms : List CMon) (_caseLine implLine : String) : String :=
  match parseHist implLine with
  | none => "malformed history"
  | some h =>
    match ms.findSome? (fun m => m h) with
    | some b => "bad " ++ b
    | none =>
      match leaderStartIndex h with
      | some d => "diff " ++ d
      | none => "ok"

end Drv
