/-! Token parser shared by the line-protocol engines.  A line is a list of space-separated tokens;
numbers are decimal naturals. -/
namespace Drv

abbrev P := StateT (List String) Option

def toks (s : String) : List String := (s.trimAscii.toString.splitOn " ").filter (· ≠ "")

def tok : P String := fun ts => match ts with
  | [] => none
  | t :: r => some (t, r)

def nat : P Nat := do
  let t ← tok
  match t.toNat? with
  | some n => pure n
  | none => failure

def kw (k : String) : P Unit := do
  let t ← tok
  if t = k then pure () else failure

def peek : P (Option String) := fun ts => some (ts.head?, ts)

def atEnd : P Bool := fun ts => some (ts.isEmpty, ts)

/-- `n` items -/
def rep (n : Nat) (p : P α) : P (List α) :=
  match n with
  | 0 => pure []
  | k + 1 => do let x ← p; let xs ← rep k p; pure (x :: xs)

/-- a counted list: `<n> item*` -/
def many (p : P α) : P (List α) := do let n ← nat; rep n p

def runP (p : P α) (line : String) : Option α :=
  match p (toks line) with
  | some (a, []) => some a
  | _ => none

def natsToString (l : List Nat) : String := " ".intercalate (l.map toString)

end Drv
