import Driver.H1
import Driver.H2
import Driver.H3
import Driver.H4
import Driver.H5
import Driver.H6
import Driver.H7
open Drv

partial def loop (h : IO.FS.Stream) (out : IO.FS.Stream) (judge : String → String → String) : IO Unit := do
  let c ← h.getLine
  if c.isEmpty then return ()
  let i ← h.getLine
  out.putStrLn (judge c i)
  loop h out judge

def engines : List (String × (String → String → String)) :=
  [("commitment", cmJudge), ("nextconfig", ncJudge), ("logcache", lcJudge), ("compaction", cpJudge), ("sinkfault", sfJudge),
   ("handlers", hJudge), ("handlers-nomon", hJudgeWith []), ("universe", uJudgeWith umonAll), ("cluster", cJudgeWith (cmonFor "all")), ("filesnap", fsJudge), ("wire", wireJudge), ("catchup", cuJudge), ("leader", lJudgeWith (lmonFor "all")), ("follower", lJudgeWith (lmonFor "all"))] ++
  ["C01", "C02", "C03", "C04", "C05", "C07", "C08", "C09", "C12", "C13", "C14", "C17", "C18"].map (fun p => ("leader-" ++ p, lJudgeWith (lmonFor p))) ++
  ["C01", "C02", "C03", "C04", "C05", "C07", "C08", "C09", "C10", "C11", "C12", "C13", "C14", "C17", "C18", "C20"].map (fun p => ("cluster-" ++ p, cJudgeWith (cmonFor p))) ++
  ["C02", "C03", "C04", "C05", "C06", "C07", "C10", "C11", "C12", "C14", "C18"].flatMap (fun p =>
    [("handlers-" ++ p, hJudgeWith (amonFor p)), ("universe-" ++ p, uJudgeWith (umonFor p))])

def main (args : List String) : IO UInt32 := do
  match args with
  | [e] =>
    match engines.lookup e with
    | some j => do
        loop (← IO.getStdin) (← IO.getStdout) j
        return 0
    | none => IO.eprintln s!"unknown engine {e}"; return 2
  | _ => IO.eprintln "usage: rvdriver <engine>"; return 2
