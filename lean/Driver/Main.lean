import Driver.H1
open Drv

partial def loop (h : IO.FS.Stream) (out : IO.FS.Stream) (judge : String → String → String) : IO Unit := do
  let c ← h.getLine
  if c.isEmpty then return ()
  let i ← h.getLine
  out.putStrLn (judge c i)
  loop h out judge

def engines : List (String × (String → String → String)) :=
  [("commitment", cmJudge), ("nextconfig", ncJudge), ("logcache", lcJudge), ("compaction", cpJudge)]

def main (args : List String) : IO UInt32 := do
  match args with
  | [e] =>
    match engines.lookup e with
    | some j => do
        loop (← IO.getStdin) (← IO.getStdout) j
        return 0
    | none => IO.eprintln s!"unknown engine {e}"; return 2
  | _ => IO.eprintln "usage: rvdriver <engine>"; return 2
