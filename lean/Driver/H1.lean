import Driver.Parse
import RaftVerif.Spec.CommitSpec
import RaftVerif.Spec.ConfigSpec
import RaftVerif.Model.InmemStore
import RaftVerif.Model.Compaction
/-! H1 engines: one case per pair of lines (the case, then what the implementation produced);
the verdict is `ok`, `diff …` (model ≠ implementation) or `bad …` (the implementation's own output
fails the property's executable Spec). -/
namespace Drv

/-! ## commitment (C05) -/

def insPair (x : Nat × Nat) : List (Nat × Nat) → List (Nat × Nat)
  | [] => [x]
  | y :: ys => if x.1 ≤ y.1 then x :: y :: ys else y :: insPair x ys
def sortPairs : List (Nat × Nat) → List (Nat × Nat)
  | [] => []
  | x :: xs => insPair x (sortPairs xs)

structure CmCase where
  start : Nat
  voters : List Nat
  ops : List CM.Op

def pCmOp : P CM.Op := do
  let t ← tok
  if t = "M" then do let id ← nat; let idx ← nat; pure (.match_ id idx)
  else if t = "C" then do let vs ← many nat; pure (.setConfig vs)
  else failure

def pCmCase : P CmCase := do
  kw "S"; let s ← nat; kw "V"; let vs ← many nat; kw "O"; let ops ← many pCmOp
  pure ⟨s, vs, ops⟩

/-- one observed snapshot: commit index and the table sorted by id -/
def pCmSnap : P (Nat × List (Nat × Nat)) := do
  let c ← nat
  let t ← many (do let a ← nat; let b ← nat; pure (a, b))
  pure (c, t)

def cmSnapStr (c : CM.Commitment) : String :=
  toString c.commitIndex ++ " " ++ toString c.matchIndexes.length ++
    String.join ((sortPairs c.matchIndexes).map (fun p => " " ++ toString p.1 ++ " " ++ toString p.2))

def votersAfter (vs : List Nat) : CM.Op → List Nat
  | .match_ _ _ => vs
  | .setConfig v => v

/-- walk the operations: `m` is the model state, `pre` the implementation's previous snapshot -/
def cmWalk (start : Nat) : Nat → CM.Commitment → CM.Commitment → List Nat → List CM.Op →
    List (Nat × List (Nat × Nat)) → String
  | _, _, _, _, [], [] => "ok"
  | k, m, pre, vs, op :: ops, (ci, tbl) :: snaps =>
      let m' := CM.step m op
      let vs' := votersAfter vs op
      let post : CM.Commitment := ⟨tbl, ci, start⟩
      -- Spec on the implementation's own output
      if !CM.stepOK pre post then s!"bad@{k} commit-rule impl={ci}"
      else if (sortPairs (vs'.map (fun v => (v, 0)))).map (·.1) ≠ tbl.map (·.1) then s!"bad@{k} tracked-servers-not-voters"
      else if ci ≠ m'.commitIndex ∨ sortPairs m'.matchIndexes ≠ tbl then s!"diff@{k} model={cmSnapStr m'}"
      else cmWalk start (k + 1) m' post vs' ops snaps
  | k, _, _, _, _, _ => s!"malformed@{k}"

def cmJudge (caseLine implLine : String) : String :=
  match runP pCmCase caseLine, runP (do let n ← nat; rep n pCmSnap) implLine with
  | some c, some (s0 :: snaps) =>
      let m0 : CM.Commitment := ⟨c.voters.map (fun v => (v, 0)), 0, c.start⟩
      if s0.1 ≠ 0 ∨ s0.2 ≠ sortPairs m0.matchIndexes then s!"diff@init model={cmSnapStr m0}"
      else cmWalk c.start 0 m0 ⟨s0.2, s0.1, c.start⟩ c.voters c.ops snaps
  | _, _ => "malformed"

end Drv

namespace Drv
/-! ## nextConfiguration (C07) -/
open CF in
def pSuff : P CF.Suffrage := do
  let n ← nat
  match n with
  | 0 => pure .voter | 1 => pure .nonvoter | 2 => pure .staging | _ => failure

def pServer : P CF.Server := do let s ← pSuff; let i ← nat; let a ← nat; pure ⟨s, i, a⟩

def pCmd : P CF.Cmd := do
  let n ← nat
  match n with
  | 0 => pure .addVoter | 1 => pure .addNonvoter | 2 => pure .demoteVoter | 3 => pure .removeServer | 4 => pure .promote
  | _ => failure

def suffNum : CF.Suffrage → Nat | .voter => 0 | .nonvoter => 1 | .staging => 2

def cfgStr (c : CF.Config) : String :=
  "K " ++ toString c.length ++ String.join (c.map (fun s => s!" {suffNum s.suffrage} {s.id} {s.addr}"))

def pCfg : P CF.Config := do kw "K"; many pServer

def pNcOut : P (Option (Option CF.Config)) := do   -- none = input mutated; some none = error
  let t ← peek
  if t = some "E" then do kw "E"; pure (some none)
  else if t = some "X" then do kw "X"; pure none
  else do let c ← pCfg; pure (some (some c))

def ncJudge (caseLine implLine : String) : String :=
  let pc : P (Nat × CF.Config × CF.Change) := do
    kw "I"; let i ← nat; let c ← pCfg; kw "R"
    let cmd ← pCmd; let id ← nat; let a ← nat; let p ← nat
    pure (i, c, ⟨cmd, id, a, p⟩)
  match runP pc caseLine, runP pNcOut implLine with
  | some (idx, cur, ch), some (some out) =>
      let m := CF.nextConfiguration cur idx ch
      if !CF.callOK cur idx ch out then
        "bad " ++ (match out with
          | some c' => if (decide (ch.prevIndex > 0) && decide (ch.prevIndex ≠ idx)) then "stale-prevIndex-accepted"
                       else if !CF.wellFormed c' then "result-not-wellformed" else "more-than-one-voter-changed"
          | none => "?")
      else if m ≠ out then "diff model=" ++ (match m with | some c => cfgStr c | none => "E")
      else "ok"
  | some _, some none => "bad input-configuration-mutated"
  | _, _ => "malformed"

end Drv

namespace Drv
/-! ## LogCache (C19) and compaction arithmetic (C11) -/

def pEntry : P LC.Entry := do let i ← nat; let t ← nat; let p ← nat; pure ⟨i, t, p⟩

def pLcOp : P LC.Op := do
  let t ← tok
  if t = "G" then do let i ← nat; pure (.getLog i)
  else if t = "S" then do let f ← nat; let ls ← many pEntry; pure (.storeLogs ls f)
  else if t = "D" then do let lo ← nat; let hi ← nat; let f ← nat; pure (.deleteRange lo hi f)
  else if t = "F" then pure .firstIndex
  else if t = "L" then pure .lastIndex
  else failure

def pLcRes : P LC.Res := do
  let t ← tok
  if t = "e" then do
    let k ← nat
    if k = 0 then pure (.entry none) else do let e ← pEntry; pure (.entry (some e))
  else if t = "b" then do let k ← nat; pure (.ok (k = 1))
  else if t = "i" then do let k ← nat; pure (.idx (some k))
  else failure

def lcResStr : LC.Res → String
  | .entry none => "e 0"
  | .entry (some e) => s!"e 1 {e.index} {e.term} {e.payload}"
  | .ok b => if b then "b 1" else "b 0"
  | .idx (some k) => s!"i {k}"
  | .idx none => "i -"

/-- first position at which two result lists differ -/
def firstDiff : Nat → List LC.Res → List LC.Res → Option Nat
  | _, [], [] => none
  | k, a :: as, b :: bs => if a = b then firstDiff (k + 1) as bs else some k
  | k, _, _ => some k

/-- impl line: the cache's results, then the bare store's results for the same operations -/
def lcJudge (caseLine implLine : String) : String :=
  let pc : P (Nat × List LC.Op) := do kw "C"; let c ← nat; kw "O"; let ops ← many pLcOp; pure (c, ops)
  let pi : P (List LC.Res × List LC.Res) := do let a ← many pLcRes; kw "|"; let b ← many pLcRes; pure (a, b)
  match runP pc caseLine, runP pi implLine with
  | some (cap, ops), some (cacheRes, storeRes) =>
      match firstDiff 0 cacheRes storeRes with
      | some k => s!"bad@{k} cache-result-differs-from-wrapped-store"
      | none =>
        let m := LC.runCache LC.inmemBackend { st := LC.Inmem.empty, slots := List.replicate cap none } ops
        match firstDiff 0 m cacheRes with
        | some k => s!"diff@{k} model=" ++ (match m[k]? with | some r => lcResStr r | none => "-")
        | none => "ok"
  | _, _ => "malformed"

def cpJudge (caseLine implLine : String) : String :=
  let pc : P (Nat × Nat × Nat × Nat × Nat) := do
    let a ← nat; let b ← nat; let c ← nat; let d ← nat; let e ← nat; pure (a, b, c, d, e)
  let pi : P (Option (Nat × Nat)) := do
    let t ← tok
    if t = "N" then pure none else if t = "D" then do let a ← nat; let b ← nat; pure (some (a, b)) else failure
  match runP pc caseLine, runP pi implLine with
  | some (snap, last, trailing, first, storeLast), some out =>
      -- Spec (C11): never above the snapshot, keeps `trailing` entries when that many exist,
      -- starts at the store's first index
      let bad := match out with
        | none => false
        | some (_, hi) => hi > snap || (hi + trailing > last) || storeLast ≠ last
      if bad then "bad compaction-range"
      else
        let m := CP.compactRange snap last trailing first
        if m ≠ out then "diff model=" ++ (match m with | none => "N" | some (a, b) => s!"D {a} {b}")
        else "ok"
  | _, _ => "malformed"

/-- engine `sinkfault` (C15/C11): a sink whose state file was broken at some point.  Spec: a Close
    that returns nil means the snapshot is listed and opens with the bytes written; a Close that
    returns an error, or a Cancel, leaves nothing listed for that sink. -/
def sfJudge (caseLine implLine : String) : String :=
  let pc : P (Bool × Nat × Nat × Bool) := do kw "SF"; let c ← nat; let w ← nat; let n ← nat; let e ← nat; pure (c ≠ 0, w, n, e ≠ 0)
  let pi : P (Bool × Nat × Nat × Nat) := do let a0 ← nat; let a := (a0 != 0); let l ← nat; let o ← nat; let t ← nat; pure (a, l, o, t)
  match runP pc caseLine, runP pi implLine with
  | some (cancel, _, _, _), some (nilResult, listed, opens, _) =>
      if cancel then (if listed ≠ 0 then "bad cancelled-snapshot-is-listed" else "ok")
      else if nilResult && (listed = 0 || opens = 0) then "bad close-returned-nil-but-the-snapshot-is-not-there"
      else if !nilResult && listed ≠ 0 then "bad close-failed-but-the-snapshot-is-listed"
      else "ok"
  | _, _ => "malformed"

end Drv
