import Driver.Parse
import RaftVerif.Spec.CommitSpec
/-! H1 engines: one case per pair of lines (the case, then what the implementation produced);
the verdict is `ok`, `diff …` (model ≠ implementation) or `bad …` (the implementation's own output
fails the property's executable Spec). -/
namespace Drv

/-! ## commitment (C05) -/

def insPair (x : Nat × Nat) : List (Nat × Nat) → List (Nat × Nat)
  | [] => [x]
  | y :: ys => if x.1 ≤ y.1 then x :: y :: ys else y :: insPair x ys
def sortPairs : List (Nat × Nat) → List (Nat × Nat)
  | [] => []
  | x :: xs => insPair x (sortPairs xs)

structure CmCase where
  start : Nat
  voters : List Nat
  ops : List CM.Op

def pCmOp : P CM.Op := do
  let t ← tok
  if t = "M" then do let id ← nat; let idx ← nat; pure (.match_ id idx)
  else if t = "C" then do let vs ← many nat; pure (.setConfig vs)
  else failure

def pCmCase : P CmCase := do
  kw "S"; let s ← nat; kw "V"; let vs ← many nat; kw "O"; let ops ← many pCmOp
  pure ⟨s, vs, ops⟩

/-- one observed snapshot: commit index and the table sorted by id -/
def pCmSnap : P (Nat × List (Nat × Nat)) := do
  let c ← nat
  let t ← many (do let a ← nat; let b ← nat; pure (a, b))
  pure (c, t)

def cmSnapStr (c : CM.Commitment) : String :=
  toString c.commitIndex ++ " " ++ toString c.matchIndexes.length ++
    String.join ((sortPairs c.matchIndexes).map (fun p => " " ++ toString p.1 ++ " " ++ toString p.2))

def votersAfter (vs : List Nat) : CM.Op → List Nat
  | .match_ _ _ => vs
  | .setConfig v => v

/-- walk the operations: `m` is the model state, `pre` the implementation's previous snapshot -/
def cmWalk (start : Nat) : Nat → CM.Commitment → CM.Commitment → List Nat → List CM.Op →
    List (Nat × List (Nat × Nat)) → String
  | _, _, _, _, [], [] => "ok"
  | k, m, pre, vs, op :: ops, (ci, tbl) :: snaps =>
      let m' := CM.step m op
      let vs' := votersAfter vs op
      let post : CM.Commitment := ⟨tbl, ci, start⟩
      -- Spec on the implementation's own output
      if !CM.stepOK pre post then s!"bad@{k} commit-rule impl={ci}"
      else if (sortPairs (vs'.map (fun v => (v, 0)))).map (·.1) ≠ tbl.map (·.1) then s!"bad@{k} tracked-servers-not-voters"
      else if ci ≠ m'.commitIndex ∨ sortPairs m'.matchIndexes ≠ tbl then s!"diff@{k} model={cmSnapStr m'}"
      else cmWalk start (k + 1) m' post vs' ops snaps
  | k, _, _, _, _, _ => s!"malformed@{k}"

def cmJudge (caseLine implLine : String) : String :=
  match runP pCmCase caseLine, runP (do let n ← nat; rep n pCmSnap) implLine with
  | some c, some (s0 :: snaps) =>
      let m0 : CM.Commitment := ⟨c.voters.map (fun v => (v, 0)), 0, c.start⟩
      if s0.1 ≠ 0 ∨ s0.2 ≠ sortPairs m0.matchIndexes then s!"diff@init model={cmSnapStr m0}"
      else cmWalk c.start 0 m0 ⟨s0.2, s0.1, c.start⟩ c.voters c.ops snaps
  | _, _ => "malformed"

end Drv
