import Driver.Parse
import RaftVerif.Model.Wire
/-! H5 engine `wire`: what travelled between two real NetworkTransports.  For AppendEntries the
recorded bytes are compared with the proved codec model (`WR.encAEReq`, `WR.encAEResp`, the strict
decoders); for every exchange the harness's own observations (handler saw the request, caller saw
the response, pipeline order, failed exchange = error) are the property's Spec. -/
namespace Drv
open WR

def pOptBytes : P (Option Bytes) := do
  let t ← tok
  if t = "N" then pure none
  else if t = "B" then do let bs ← many nat; pure (some bs)
  else failure

def pWLog : P WR.Log := do
  let i ← nat; let t ← nat; let ty ← nat; let d ← pOptBytes; let e ← pOptBytes; let s ← nat; let ns ← nat
  pure ⟨i, t, ty, d, e, ⟨s, ns, 65535⟩⟩

def pAEReq : P WR.AEReq := do
  let addr ← pOptBytes; let id ← pOptBytes; let leader ← pOptBytes
  let lc ← nat; let pe ← nat; let pt ← nat; let pv ← nat; let term ← nat
  let t ← tok
  let entries ← (if t = "N" then pure none else if t = "E" then do let ls ← many pWLog; pure (some ls) else failure)
  pure { addr := addr, entries := entries, id := id, leader := leader, leaderCommit := lc, prevEntry := pe, prevTerm := pt, protoVer := pv, term := term }

def pAEResp : P WR.AEResp := do
  let addr ← pOptBytes; let id ← pOptBytes; let ll ← nat; let nr ← nat; let pv ← nat; let su ← nat; let term ← nat
  pure { addr := addr, id := id, lastLog := ll, noRetryBackoff := nr ≠ 0, protoVer := pv, success := su ≠ 0, term := term }

def firstDiffB : Nat → Bytes → Bytes → Option Nat
  | _, [], [] => none
  | k, a :: as, b :: bs => if a = b then firstDiffB (k + 1) as bs else some k
  | k, _, _ => some k

def wireJudge (caseLine implLine : String) : String :=
  match toks caseLine with
  | "AE" :: _ =>
    let pc : P (WR.AEReq × WR.AEResp × Option Bytes) := do
      kw "AE"; let r ← pAEReq; kw "R"; let p ← pAEResp; kw "ERR"; let e ← pOptBytes; pure (r, p, e)
    let pi : P (Bool × Bool × Bytes × Bytes) := do
      let a ← nat; let b ← nat; kw "REQ"; let rq ← many nat; kw "RESP"; let rs ← many nat; pure (a ≠ 0, b ≠ 0, rq, rs)
    match runP pc caseLine, runP pi implLine with
    | some (req, resp, err), some (recvOK, respOK, reqB, respB) =>
        if !recvOK then "bad handler-did-not-see-the-request-as-sent"
        else if !respOK then "bad caller-did-not-get-the-response-as-produced"
        else
          let mReq := 0 :: encAEReq req
          let mResp := encBytes err ++ encAEResp resp
          match firstDiffB 0 mReq reqB with
          | some k => s!"diff request-bytes@{k} model={(mReq[k]?).getD 999} impl={(reqB[k]?).getD 999} (lengths {mReq.length}/{reqB.length})"
          | none =>
            match firstDiffB 0 mResp respB with
            | some k => s!"diff response-bytes@{k} model={(mResp[k]?).getD 999} impl={(respB[k]?).getD 999}"
            | none =>
              -- and the strict decoder of the model reads the real bytes back
              if decAEReq (reqB.drop 1) ≠ some (req, []) then "diff model-decoder-rejects-real-request-bytes"
              else "ok"
    | none, _ => "malformed case"
    | _, _ => "malformed impl"
  | kind :: _ =>
    match toks implLine with
    | a :: b :: _ =>
      if a = "1" ∧ b = "1" then "ok"
      else if kind = "PF" then (if a ≠ "1" then "bad pipelined-request-never-completed" else "bad pipeline-responses-out-of-order-or-mispaired")
      else if kind = "PL" then "bad pipeline-responses-out-of-order-or-mispaired"
      else if kind = "CF" then (if a ≠ "1" then "bad failed-exchange-did-not-yield-an-error" else "bad exchange-after-a-failed-one-got-a-foreign-response")
      else if a ≠ "1" then "bad handler-did-not-see-the-request-as-sent"
      else "bad caller-did-not-get-the-response-as-produced"
    | _ => "malformed impl"
  | [] => "malformed case"

end Drv
