import Driver.H2
import RaftVerif.Model.Replicate
import RaftVerif.Spec.CatchupSpec
/-! H2 engine `catchup`: the leader's `replicateTo` against a follower, model against
implementation request by request, and the catch-up clauses evaluated on the implementation's run. -/
namespace Drv
open SV

structure CUCase where
  lcf : Cfg
  ld : Durable
  fcf : Cfg
  fd : Durable
  next : Nat
  last : Nat
  fuel : Nat
  faults : List (Nat × Fault)
  pipe : Bool
  ops : List POp

def pCfgLine (k : String) : P Cfg := do
  kw k; let m ← pBool; let rc ← pBool; let tr ← nat; let ma ← nat; let npv ← pBool
  pure ⟨m, rc, tr, ma, npv⟩

def pCUCase : P CUCase := do
  kw "CU"
  let lcf ← pCfgLine "LCF"; kw "LDU"; let ld ← pDurable
  let fcf ← pCfgLine "FCF"; kw "FDU"; let fd ← pDurable
  kw "NX"; let nx ← nat; let la ← nat
  kw "FU"; let fu ← nat
  kw "FT"; let fts ← many (do let k ← nat; let f ← pOrd; let c ← pOrd; pure (k, ((f, c) : Fault)))
  kw "PL"; let pm ← pBool; let ops ← many (do let k ← nat; pure (if k = 0 then POp.send else POp.deliver))
  pure ⟨lcf, ld, fcf, fd, nx, la, fu, fts, pm, ops⟩

/-- the fault list the model consumes: position `k` holds the fault armed for exchange `k` -/
def faultList (fts : List (Nat × Fault)) : List Fault :=
  (List.range 8).map (fun k => (fts.lookup k).getD (none, none))

structure CUImpl where
  lobs : IObs
  fobs : IObs
  trace : List (Event × IObs)
  next : Nat
  matched : Nat
  failures : Nat
  pipeline : Bool
  stepDown : Bool
  stop : Bool

def pCUImpl : P CUImpl := do
  let l ← pIObs; let f ← pIObs
  kw "T"; let tr ← many (do let e ← pEvent; let o ← pIObs; pure (e, o))
  kw "E"; let nx ← nat; let mt ← nat; let fl ← nat; let pl ← pBool; let sd ← pBool; let st ← pBool
  pure ⟨l, f, tr, nx, mt, fl, pl, sd, st⟩

def evMatches (m : Msg) (ft : Fault) (e : Event) : Bool :=
  match m.event ft, e with
  | .append a f c, .append a' f' c' => a = a' ∧ f = f' ∧ c = c'
  | .install q f c, .install q' f' c' => q = q' ∧ f = f' ∧ c = c'
  | _, _ => false

def msgTok : Msg → String
  | .ae a => s!"AE(term {a.term} prev {a.prevIdx}/{a.prevTerm} commit {a.commit} entries {a.entries.map (fun e => (e.index, e.term))})"
  | .snap q => s!"IS(term {q.term} last {q.lastIdx}/{q.lastTerm})"

def cuWalk : Nat → List Fault → List (Msg × Obs) → List (Event × IObs) → Option String
  | _, _, [], [] => none
  | k, fts, (m, o) :: ms, (e, io) :: es =>
      if ¬ evMatches m (fts.headD (none, none)) e then some s!"diff@{k} request model={msgTok m}"
      else match obsDiff o io with
        | some d => some s!"diff@{k} follower {d}"
        | none => cuWalk (k + 1) fts.tail ms es
  | k, _, ms, es => some s!"diff@{k} exchanges model={ms.length} more, impl={es.length} more"

def msgOfEvent : Event → Option Msg
  | .append a _ _ => some (.ae a)
  | .install q _ _ => some (.snap q)
  | _ => none

def cuJudge (caseLine implLine : String) : String :=
  match runP pCUCase caseLine, runP pCUImpl implLine with
  | some c, some i =>
    let lb := boot c.lcf c.ld
    let fb := boot c.fcf c.fd
    -- the clauses of the property, on what the implementation did
    let xs : List (Msg × View) := i.trace.filterMap (fun p => (msgOfEvent p.1).map (fun m => (m, p.2.view)))
    let run : CU.Run := ⟨i.lobs.view, i.fobs.view, c.next, c.last, c.fuel, c.faults.isEmpty, xs, i.next, i.matched, i.stepDown, c.pipe⟩
    match CU.check run with
    | some b => "bad " ++ b
    | none =>
      match obsDiff lb.2 i.lobs with
      | some d => s!"diff@leader-boot {d}"
      | none =>
        match obsDiff fb.2 i.fobs with
        | some d => s!"diff@follower-boot {d}"
        | none =>
          if lb.1.dead ∨ fb.1.dead then (if i.trace.isEmpty then "ok" else "diff@0 exchanges with a dead server")
          else if c.pipe then
            let fts := faultList c.faults
            let p := pipelineRun c.lcf lb.1.d lb.1.v c.fuel fts fb.1 c.next c.ops
            match cuWalk 0 fts p.trace i.trace with
            | some d => d
            | none =>
              if (p.s.next, p.s.matched) ≠ (i.next, i.matched) then
                s!"diff@end replication-state model=({p.s.next},{p.s.matched})"
              else if p.stale ≠ i.stepDown then s!"diff@end stale model={p.stale}"
              else if (!p.alive) ≠ i.stop then s!"diff@end pipeline-over model={!p.alive}"
              else "ok"
          else
            let fts := faultList c.faults
            let r := replicateTo c.lcf lb.1.d lb.1.v c.last c.fuel fts fb.1 ⟨c.next, 0, 0, false⟩
            match cuWalk 0 fts r.trace i.trace with
            | some d => d
            | none =>
              if r.s ≠ ⟨i.next, i.matched, i.failures, i.pipeline⟩ then
                s!"diff@end replication-state model=({r.s.next},{r.s.matched},{r.s.failures},{r.s.pipeline})"
              else if r.stale ≠ i.stepDown ∨ r.stale ≠ i.stop then s!"diff@end stale model={r.stale}"
              else "ok"
  | none, _ => "malformed case"
  | _, none => "malformed impl"

end Drv
