import Driver.H1
import RaftVerif.Spec.ServerSpec
import RaftVerif.Model.CampaignFault
/-! H2 engine `handlers`: a durable image and an event sequence, stepped through the model
(`SV.runAll`) and compared observation by observation with what the real server produced. -/
namespace Drv
open SV

def pBool : P Bool := do let n ← nat; pure (n ≠ 0)

def pCfgN : P CF.Config := many pServer

def pSvEntry : P Entry := do
  let i ← nat; let t ← nat; let k ← nat; let d ← nat; let c ← pCfgN
  pure ⟨i, t, k, d, c⟩

def pSnap : P Snap := do
  let i ← nat; let t ← nat; let ci ← nat; let c ← pCfgN; let d ← many nat; let ok ← pBool
  pure ⟨i, t, ci, c, d, ok⟩

def pDurable : P Durable := do
  let ct ← nat; let vt ← nat; let pr ← pBool; let cand ← nat
  let lo ← nat; let hi ← nat; let es ← many pSvEntry
  let sg ← nat; let sn ← many pSnap
  pure ⟨ct, vt, if pr then some cand else none, es, lo, hi, sg, sn⟩

def pOrd : P (Option Nat) := do let n ← nat; pure (if n = 0 then none else some (n - 1))

def pEvent : P Event := do
  let t ← tok
  if t = "V" then do
    let c ← nat; let cid ← nat; let tm ← nat; let li ← nat; let lt ← nat; let tr ← pBool
    let f ← pOrd; let cr ← pOrd
    pure (.vote ⟨c, cid, tm, li, lt, tr⟩ f cr)
  else if t = "P" then do
    let c ← nat; let cid ← nat; let tm ← nat; let li ← nat; let lt ← nat
    pure (.prevote ⟨c, cid, tm, li, lt, false⟩)
  else if t = "A" then do
    let l ← nat; let lid ← nat; let tm ← nat; let pi ← nat; let pt ← nat; let cm ← nat
    let es ← many pSvEntry; let f ← pOrd; let cr ← pOrd
    pure (.append ⟨l, lid, tm, pi, pt, cm, es⟩ f cr)
  else if t = "I" then do
    let l ← nat; let lid ← nat; let tm ← nat; let li ← nat; let lt ← nat; let ci ← nat
    let c ← pCfgN; let d ← many nat; let ok ← pBool; let f ← pOrd; let cr ← pOrd
    pure (.install ⟨l, lid, tm, li, lt, ci, c, d, ok⟩ f cr)
  else if t = "T" then pure .timeoutNow
  else if t = "K" then do let f ← pOrd; let cr ← pOrd; pure (.snapshot f cr)
  else if t = "G" then do
    let rs ← many (do
      let id ← nat; let pe ← nat; let pt ← nat; let pg ← pBool; let ve ← pBool; let vt ← nat; let vg ← pBool
      pure (⟨id, pe, pt, pg, ve, vt, vg⟩ : PeerResp))
    pure (.campaign rs)
  else if t = "R" then pure .restart
  else if t = "RD" then pure .damagedRestart
  else if t = "S" then do
    let r ← nat; let l ← nat; let lid ← nat
    pure (.setRole (match r with | 0 => .follower | 1 => .candidate | _ => .leader) l lid)
  else failure

/-- an event of a case: one of the model's events, or a pass of the candidate loop during which the
    write with ordinal `k` fails (stepped through `SV.campaignF`) -/
inductive DEv
  | ev (e : Event)
  | campFault (rs : List PeerResp) (k : Nat)

def DEv.event : DEv → Event
  | .ev e => e
  | .campFault rs _ => .campaign rs

def pDEv : P DEv := do
  let t ← peek
  if t = some "GF" then do
    kw "GF"
    let rs ← many (do
      let id ← nat; let pe ← nat; let pt ← nat; let pg ← pBool; let ve ← pBool; let vt ← nat; let vg ← pBool
      pure (⟨id, pe, pt, pg, ve, vt, vg⟩ : PeerResp))
    let k ← nat
    pure (.campFault rs k)
  else do let e ← pEvent; pure (.ev e)

structure HCase where
  cf : Cfg
  d : Durable
  devs : List DEv

def HCase.evs (c : HCase) : List Event := c.devs.map DEv.event

def pHCase : P HCase := do
  kw "CF"; let m ← pBool; let rc ← pBool; let tr ← nat; let ma ← nat; let npv ← pBool
  kw "DU"; let d ← pDurable
  kw "EV"; let evs ← many pDEv
  pure ⟨⟨m, rc, tr, ma, npv⟩, d, evs⟩

def stepDEv (w : World) : DEv → World × Obs
  | .ev e => stepEvent w e
  | .campFault rs k => if w.dead then (w, deadObs w.d) else stepPlan w (campaignF w.cf w.v rs) (some k) none

def pResp : P Resp := do
  let t ← tok
  if t = "v" then do let a ← nat; let b ← pBool; pure (.vote a b)
  else if t = "p" then do let a ← nat; let b ← pBool; pure (.prevote a b)
  else if t = "a" then do let a ← nat; let b ← nat; let c ← pBool; let d ← pBool; pure (.append a b c d)
  else if t = "i" then do let a ← nat; let b ← pBool; let c ← pBool; pure (.install a b c)
  else if t = "t" then pure .timeoutNow
  else if t = "s" then do let a ← pBool; pure (.snap a)
  else if t = "c" then do
    let pre ← many nat; let vote ← many nat; let tm ← nat; let li ← nat; let lt ← nat; let tr ← pBool
    pure (.campaigned pre vote tm li lt tr)
  else if t = "n" then pure .none
  else failure

def pWriteKey : P (String × Nat × Nat) := do let n ← tok; let a ← nat; let b ← nat; pure (n, a, b)

def pVol : P Vol := do
  let term ← nat; let role ← nat; let lli ← nat; let llt ← nat; let si ← nat; let st ← nat
  let cm ← nat; let ap ← nat; let li ← nat; let lc ← pCfgN; let ci ← nat; let cc ← pCfgN
  let ld ← nat; let lid ← nat; let tr ← pBool
  pure ⟨term, (match role with | 0 => .follower | 1 => .candidate | _ => .leader), lli, llt, si, st, cm, ap, lc, li, cc, ci, ld, lid, tr⟩

def pFsmCall : P FsmCall := do
  let t ← tok
  if t = "a" then do let i ← nat; let tm ← nat; let d ← nat; pure (.apply i tm d)
  else if t = "r" then do let d ← many nat; pure (.restore d)
  else failure

/-- an observation as the harness prints it -/
structure IObs where
  dead : Bool
  panic : Bool
  resp : Resp
  writes : List (String × Nat × Nat)
  vol : Vol
  dur : Durable
  fsm : List FsmCall

def pIObs : P IObs := do
  let t ← tok
  if t = "X" then do
    let d ← pDurable
    pure ⟨true, false, .none, [], emptyVol, d, []⟩
  else if t = "O" then do
    let p ← pBool; let r ← pResp
    kw "W"; let ws ← many pWriteKey
    kw "V"; let v ← pVol
    kw "D"; let d ← pDurable
    kw "F"; let f ← many pFsmCall
    pure ⟨false, p, r, ws, v, d, f⟩
  else failure

def obsDiff (m : Obs) (i : IObs) : Option String :=
  if m.dead ≠ i.dead then some s!"dead model={m.dead}"
  else if m.dead then (if m.dur ≠ i.dur then some "durable(dead)" else none)
  else if m.panic ≠ i.panic then some s!"panic model={m.panic}"
  else if m.resp ≠ i.resp then some ("resp model=" ++ reprStr m.resp)
  else if m.writes.map writeKey ≠ i.writes then some ("writes model=" ++ toString (m.writes.map writeKey))
  else if m.dur ≠ i.dur then
    (if m.dur.log ≠ i.dur.log then some ("durable.log model=" ++ toString (m.dur.log.map (fun e => (e.index, e.term, e.kind))))
     else if m.dur.low ≠ i.dur.low ∨ m.dur.high ≠ i.dur.high then some s!"durable.low/high model={m.dur.low}/{m.dur.high}"
     else if m.dur.snaps ≠ i.dur.snaps then some "durable.snaps"
     else if m.dur.staged ≠ i.dur.staged then some s!"durable.staged model={m.dur.staged}"
     else some s!"durable.stable model=({m.dur.curTerm},{m.dur.voteTerm},{m.dur.voteCand})")
  else if m.vol ≠ i.vol then
    (if m.vol.term ≠ i.vol.term then some s!"vol.term model={m.vol.term}"
     else if m.vol.role ≠ i.vol.role then some ("vol.role model=" ++ reprStr m.vol.role)
     else if m.vol.commit ≠ i.vol.commit then some s!"vol.commit model={m.vol.commit}"
     else if m.vol.applied ≠ i.vol.applied then some s!"vol.applied model={m.vol.applied}"
     else if m.vol.lastLogIdx ≠ i.vol.lastLogIdx ∨ m.vol.lastLogTerm ≠ i.vol.lastLogTerm then some s!"vol.lastLog model=({m.vol.lastLogIdx},{m.vol.lastLogTerm})"
     else if m.vol.snapIdx ≠ i.vol.snapIdx ∨ m.vol.snapTerm ≠ i.vol.snapTerm then some s!"vol.lastSnapshot model=({m.vol.snapIdx},{m.vol.snapTerm})"
     else if m.vol.leader ≠ i.vol.leader ∨ m.vol.leaderId ≠ i.vol.leaderId then some s!"vol.leader model=({m.vol.leader},{m.vol.leaderId})"
     else if m.vol.transfer ≠ i.vol.transfer then some "vol.transfer"
     else some s!"vol.configurations model=(latest@{m.vol.latestIdx}, committed@{m.vol.committedIdx})")
  else if m.fsm ≠ i.fsm then some ("fsm model=" ++ reprStr m.fsm)
  else none

/-- step model and implementation observation lists together; the model is *re-synchronised* to
    the implementation's state after every event so that one divergence is reported once -/
def hWalk : Nat → World → List DEv → List IObs → Option String
  | _, _, [], [] => none
  | k, w, e :: es, o :: os =>
      let r := stepDEv w e
      match obsDiff r.2 o with
      | some d => some s!"diff@{k} {d}"
      | none => hWalk (k + 1) r.1 es os
  | k, _, _, _ => some s!"malformed@{k}"

end Drv

namespace Drv
open SV

def IObs.view (o : IObs) : View := ⟨o.dead, o.panic, o.resp, o.writes, o.vol, o.dur, o.fsm⟩

def mkSteps' : List Event → List IObs → List Step
  | e :: es, a :: b :: os => ⟨e, a.view, b.view⟩ :: mkSteps' es (b :: os)
  | _, _ => []

/-- step 0 is the boot of the first process (a restart on the initial image); event `k` of the case
    is step `k + 1` -/
def mkSteps (evs : List Event) (obs : List IObs) : List Step :=
  match obs with
  | o0 :: _ => ⟨.restart, o0.view, o0.view⟩ :: mkSteps' evs obs
  | [] => []

abbrev Monitor := HCase → List Step → Option String

def at_ (name : String) (r : Option Nat) : Option String := r.map (fun k => s!"{name}@{k}")
def at2 (name : String) (r : Option (Nat × String)) : Option String := r.map (fun p => s!"{name}:{p.2}@{p.1}")

def monC06 : List Monitor :=
  [ fun _ st => if oneVotePerTerm (grantsOf st) then none else some "two-candidates-granted-in-one-term",
    fun _ st => if nondecreasing (reportedTerms st) then none else some "reported-term-decreased",
    fun c st => at_ "vote-granted-to-candidate-behind-durable-log" (votesUpToDate (c.d.voteCand.map (fun x => (c.d.voteTerm, x))) st 0),
    fun _ st => at_ "vote-granted-to-non-voter" (votesToVotersOnly st 0),
    fun _ st => at_ "leader-without-its-own-durable-vote" (leaderHasOwnVote st 0) ]
def monC14 : List Monitor := [ fun _ st => at_ "prevote-changed-state" (preVoteInert st 0) ]
def monC04 : List Monitor := [ fun _ st => at2 "append-entries" (aeConsistent st 0) ]
def monC02 : List Monitor :=
  [ fun _ st => at2 "fsm-local" (fsmLocal st 0 0),
    fun _ st => at_ "commit-advanced-over-unverified-entries" (commitVerified st 0) ]
def monC11 : List Monitor :=
  [ fun _ st => at_ "index-neither-in-snapshot-nor-in-log" (coverage st 0),
    fun _ st => at_ "cached-snapshot-regressed" (snapMonotone st 0) ]
def monC10 : List Monitor := [ fun _ st => at2 "restart" (restartFaithful st 0) ]

def firstSome (c : HCase) (st : List Step) : List Monitor → Option String
  | [] => none
  | m :: ms => match m c st with | some r => some r | none => firstSome c st ms

def hJudgeWith (monitors : List Monitor) (caseLine implLine : String) : String :=
  match runP pHCase caseLine, runP (many pIObs) implLine with
  | some c, some (o0 :: os) =>
      match firstSome c (mkSteps c.evs (o0 :: os)) monitors with
      | some b => "bad " ++ b
      | none =>
        let b := boot c.cf c.d
        match obsDiff b.2 o0 with
        | some d => s!"diff@boot {d}"
        | none =>
          match hWalk 0 b.1 c.devs os with
          | some d => d
          | none => "ok"
  | none, _ => "malformed case"
  | _, _ => "malformed impl"

/-- the clauses that must hold for *every* input a handler can be given (the adversarial stream) -/
def amonC06 : List Monitor :=
  [ fun _ st => if oneVotePerTerm (grantsOf st) then none else some "two-candidates-granted-in-one-term",
    fun _ st => if nondecreasing (reportedTerms st) then none else some "reported-term-decreased",
    fun _ st => at_ "vote-granted-to-non-voter" (votesToVotersOnly st 0),
    fun _ st => at_ "leader-without-its-own-durable-vote" (leaderHasOwnVote st 0) ]
def amonC04 : List Monitor := [ fun _ st => at2 "append-entries" (aeConsistentAny st 0) ]
def amonFor : String → List Monitor
  | "C06" => amonC06
  | "C04" => amonC04
  | "C14" => monC14
  | "C02" => [ fun _ st => at_ "commit-advanced-over-unverified-entries" (commitVerified st 0) ]
  | "C18" => [ fun _ st => at_ "stale-request-renamed-the-leader" (staleRequestKeepsLeader st 0),
               fun _ st => at_ "leader-kept-across-a-term-change" (leaderIsOfCurrentTerm st 0) ]
  | _ => []
def hJudge := hJudgeWith (amonC06 ++ amonC04 ++ monC14)

end Drv

namespace Drv
open SV

/-- `universe` engine: the case line starts with the ghost truth `U <H> HL <lengths>` -/
structure UCase where
  H : List Entry
  hl : List Nat
  c : HCase

def pUCase : P UCase := do
  kw "U"; let h ← many pSvEntry; kw "HL"; let hl ← many nat; let c ← pHCase
  pure ⟨h, hl, c⟩

abbrev UMonitor := UCase → List Step → Option String

def lift (m : Monitor) : UMonitor := fun u st => m u.c st

def staleMon : UMonitor := fun u st => at_ "stale-entry-kept-below-installed-snapshot" (retainedMatchesHistory u.H st 0)
def umonC02 : List UMonitor := [ fun u st => at2 "fsm" (fsmTruth u.H st (u.hl.headD 0 :: u.hl) 0 0) ]
def umonC03 : List UMonitor := [ fun u st => at2 "commit" (commitTruth u.H st (u.hl.headD 0 :: u.hl) 0 0) ]
def umonSnap : List UMonitor := [ fun u st => at2 "snapshot" (snapshotTruth u.H st (u.hl.headD 0 :: u.hl) 0) ]
def umonAll : List UMonitor :=
  umonC02 ++ umonC03 ++ (monC06 ++ monC14 ++ monC04 ++ monC11 ++ monC10).map lift ++
  [ lift (fun _ st => at_ "prevote-granted-to-candidate-behind-durable-log" (preVotesUpToDate st 0)) ] ++
  [ staleMon ] ++ umonSnap
def umonFor : String → List UMonitor
  | "C02" => umonC02 ++ umonSnap
  | "C03" => umonC03
  | "C05" => umonC03
  | "C04" => monC04.map lift ++ [ staleMon ]
  | "C06" => monC06.map lift
  | "C10" => monC10.map lift ++ umonC02 ++ umonSnap
  | "C11" => monC11.map lift ++ umonC03 ++ umonSnap
  | "C14" => monC14.map lift ++ [ lift (fun _ st => at_ "prevote-granted-to-candidate-behind-durable-log" (preVotesUpToDate st 0)) ]
  | "C07" => [ lift (fun _ st => at_ "latest-configuration-names-an-entry-that-is-gone" (latestConfigBacked st 0)) ]
  | "C12" => []
  | "C18" => [ lift (fun _ st => at_ "stale-request-renamed-the-leader" (staleRequestKeepsLeader st 0)),
               lift (fun _ st => at_ "leader-kept-across-a-term-change" (leaderIsOfCurrentTerm st 0)) ]
  | _ => umonAll

def ufirstSome (u : UCase) (st : List Step) : List UMonitor → Option String
  | [] => none
  | m :: ms => match m u st with | some r => some r | none => ufirstSome u st ms

def uJudgeWith (monitors : List UMonitor) (caseLine implLine : String) : String :=
  match runP pUCase caseLine, runP (many pIObs) implLine with
  | some u, some (o0 :: os) =>
      match ufirstSome u (mkSteps u.c.evs (o0 :: os)) monitors with
      | some b => "bad " ++ b
      | none =>
        let b := boot u.c.cf u.c.d
        match obsDiff b.2 o0 with
        | some d => s!"diff@boot {d}"
        | none =>
          match hWalk 0 b.1 u.c.devs os with
          | some d => d
          | none => "ok"
  | none, _ => "malformed case"
  | _, _ => "malformed impl"

end Drv
