import Driver.H2
import RaftVerif.Model.Leader
import RaftVerif.Spec.LeaderSpec
/-! H2 engine `leader`: the real leader loop stepped against `SV.stepLeader`, observation by
observation, and the leader clauses of C04 / C05 / C07 / C08 / C09 / C17 / C18 evaluated on the
implementation's own output. -/
namespace Drv
open SV

def pCall : P (Nat × Call) := do
  let id ← nat
  let t ← tok
  if t = "a" then do let d ← nat; pure (id, .apply d)
  else if t = "b" then pure (id, .barrier)
  else if t = "c" then do
    let cmd ← nat; let sid ← nat; let addr ← nat; let prev ← nat
    let c : CF.Cmd := match cmd with | 0 => .addVoter | 1 => .addNonvoter | 2 => .demoteVoter | _ => .removeServer
    pure (id, .change ⟨c, sid, addr, prev⟩)
  else if t = "v" then pure (id, .verify)
  else failure

def pLEvent : P LEvent := do
  let t ← tok
  if t = "R" then do let e ← pEvent; pure (.rpc e)
  else if t = "S" then pure .start
  else if t = "C" then do let cs ← many pCall; let f ← pOrd; pure (.calls cs f)
  else if t = "K" then do let p ← nat; let i ← nat; pure (.ack p i)
  else if t = "X" then pure .deposed
  else if t = "TK" then pure .tick
  else if t = "FT" then pure .heartbeatTimeout
  else if t = "FQ" then pure .idle
  else if t = "H" then do
    let p ← nat; let a ← nat
    pure (.hb p (match a with | 0 => .ok | 1 => .deny | _ => .fail))
  else failure

structure LCase where
  cf : Cfg
  d : Durable
  evs : List LEvent

def pLCase : P LCase := do
  kw "CF"; let m ← pBool; let rc ← pBool; let tr ← nat; let ma ← nat; let npv ← pBool
  kw "DU"; let d ← pDurable
  kw "EV"; let evs ← many pLEvent
  pure ⟨⟨m, rc, tr, ma, npv⟩, d, evs⟩

def pOutcome : P (Nat × Outcome) := do
  let id ← nat; let c ← tok; let idx ← nat; let resp ← nat
  let o : Outcome :=
    if c = "ok" then .ok idx resp else if c = "ll" then .leadershipLost else if c = "nl" then .notLeader
    else if c = "sf" then .storeFailed else .refused
  pure (id, o)

def pDump : P (Option LS.Dump) := do
  kw "L"; let a ← pBool
  if !a then pure none else do
    let st ← nat; let cc ← nat
    let ms ← many (do let i ← nat; let x ← nat; pure (i, x))
    let inf ← many nat; let peers ← many nat; let vp ← nat
    pure (some ⟨st, cc, ms, inf, peers, vp⟩)

/-- a parked request: the follower's id, and the request; the address it was sent to travels in the
    request's `leader` field (the leader's own address is not part of what is compared) -/
def pPending : P (Nat × AEReq) := do
  let p ← nat; let ad ← nat; let tm ← nat; let pi ← nat; let pt ← nat; let cm ← nat
  let es ← many pSvEntry
  pure (p, ⟨ad, selfId, tm, pi, pt, cm, es⟩)

structure LIObs where
  o : IObs
  outcomes : List (Nat × Outcome)
  dump : Option LS.Dump
  notify : List Bool
  pending : List (Nat × AEReq)
  hbPending : List Nat
  lc : List Nat := []      -- slow-reader cases: what LeaderCh held when each notification was taken

def pLIObs : P LIObs := do
  let o ← pIObs
  kw "U"; let us ← many pOutcome
  let d ← pDump
  kw "N"; let ns ← many pBool
  kw "LC"; let lc ← many nat
  kw "Q"; let q ← many pPending
  kw "B"; let hb ← many nat
  pure ⟨o, us, d, ns, q, hb, lc⟩

def sortOutcomes (l : List (Nat × Outcome)) : List (Nat × Outcome) := l.mergeSort (fun a b => a.1 ≤ b.1)

def dumpOf (l : Option Lead) : Option LS.Dump :=
  l.map (fun x => ⟨x.cm.startIndex, x.cm.commitIndex, x.cm.matchIndexes.mergeSort (fun a b => a.1 ≤ b.1),
                   x.inflight.map (·.2.index), x.peers.mergeSort (· ≤ ·), x.verifies.length⟩)

def lobsDiff (m : LObs) (lead : Option Lead) (notify : List Bool) (i : LIObs) : Option String :=
  match obsDiff m.obs i.o with
  | some d => some d
  | none =>
    if sortOutcomes m.outcomes ≠ sortOutcomes i.outcomes then some ("futures model=" ++ (reprStr (sortOutcomes m.outcomes)).replace "\n" " ")
    else if dumpOf lead ≠ i.dump then some ("leader-state model=" ++ (reprStr (dumpOf lead)).replace "\n" " ")
    else if notify ≠ i.notify then some s!"notify model={notify}"
    else none

/-- what NotifyCh carries in a step: `true` when the loop starts, `false` when it ends -/
def notifyOf (pre post : LWorld) (e : LEvent) (o : LObs) : List Bool :=
  if o.obs.dead ∨ o.obs.panic then [] else
  (match e, pre.lead with | .start, none => if pre.w.v.role = .leader then [true] else [] | _, _ => []) ++
  (if (pre.lead.isSome || (match e with | .start => decide (pre.w.v.role = .leader) | _ => false)) && post.lead.isNone then [false] else [])

def lWalk : Nat → LWorld → List LEvent → List LIObs → Option String
  | _, _, [], [] => none
  | k, w, e :: es, o :: os =>
      let r := stepLeader w e
      match lobsDiff r.2 r.1.lead (notifyOf w r.1 e r.2) o with
      | some d => some s!"diff@{k} {d}"
      | none => lWalk (k + 1) r.1 es os
  | k, _, _, _ => some s!"malformed@{k}"

def LIObs.lview (o : LIObs) : LS.LView := ⟨o.o.view, sortOutcomes o.outcomes, o.dump, o.notify, o.pending, o.hbPending, o.lc⟩

def mkLSteps : List LEvent → List LIObs → List LS.LStep
  | e :: es, a :: b :: os => ⟨e, a.lview, b.lview⟩ :: mkLSteps es (b :: os)
  | _, _ => []

abbrev LMonitor := List LS.LStep → Option String

def lp (st : List LS.LStep) : List LS.LStep := LS.leaderPart st false

def lmonFor : String → List LMonitor
  | "C05" => [fun st => at2 "commit" (LS.commitRule st 0)]
  | "C07" => [fun st => at2 "membership" (LS.oneChangeAtATime st false 0), fun st => at2 "membership" (LS.stalePrevRefused st 0),
              fun st => at2 "membership" (LS.latestConfigInLog st 0),
              fun st => at2 "follower" (LS.followerRules st 0)]
  | "C14" => [fun st => at2 "follower" (LS.followerRules st 0)]
  | "C13" => [fun st => at2 "lease" (LS.leaseRule st 0 [] 0)]
  | "C08" => [fun st => at2 "client" (LS.ackExact (lp st) 0 (lp st)), fun st => LS.ackOrder (lp st), fun st => LS.fsmInOrder (lp st)]
  | "C02" => [fun st => LS.fsmInOrder (lp st), fun st => at2 "client" (LS.ackExact (lp st) 0 (lp st)),
              fun st => at2 "commit" (LS.commitRule st 0)]
  | "C03" => [fun st => at2 "commit" (LS.commitRule st 0), fun st => at2 "membership" (LS.oneChangeAtATime st false 0),
              fun st => at2 "leader" (LS.requestsSpeakForLedTerm st none 0)]
  | "C09" => [LS.verifyFresh]
  | "C17" => [LS.nothingStranded, fun st => at2 "follower" (LS.followerRules st 0)]
  | "C18" => [LS.notifyFaithful, LS.leaderChFirst, fun st => at2 "follower" (LS.followerRules st 0)]
  | "C04" => [fun st => at2 "leader" (LS.requestsFromLog st 0), fun st => at2 "leader" (LS.requestsSpeakForLedTerm st none 0)]
  | "C12" => [fun st => at2 "leader" (LS.requestsFromLog st 0), fun st => at2 "leader" (LS.requestsToCurrentAddress st 0),
              fun st => at2 "follower" (LS.followerRules st 0)]
  | "C01" => [fun st => at2 "membership" (LS.oneChangeAtATime st false 0), fun st => at2 "leader" (LS.requestsSpeakForLedTerm st none 0)]
  | _ => [fun st => at2 "commit" (LS.commitRule st 0), fun st => at2 "membership" (LS.oneChangeAtATime st false 0),
          fun st => at2 "membership" (LS.stalePrevRefused st 0), fun st => at2 "membership" (LS.latestConfigInLog st 0),
          fun st => at2 "client" (LS.ackExact (lp st) 0 (lp st)), fun st => LS.ackOrder (lp st), fun st => LS.fsmInOrder (lp st), LS.verifyFresh, LS.nothingStranded,
          LS.notifyFaithful, LS.leaderChFirst, fun st => at2 "leader" (LS.requestsFromLog st 0), fun st => at2 "leader" (LS.requestsSpeakForLedTerm st none 0),
          fun st => at2 "leader" (LS.requestsToCurrentAddress st 0), fun st => at2 "follower" (LS.followerRules st 0),
          fun st => at2 "lease" (LS.leaseRule st 0 [] 0)]

def lfirstSome (st : List LS.LStep) : List LMonitor → Option String
  | [] => none
  | m :: ms => match m st with | some r => some r | none => lfirstSome st ms

/-- the boot observation carries no leader part -/
def bootL (o : IObs) : LIObs := ⟨o, [], none, [], [], [], []⟩

def lJudgeWith (monitors : List LMonitor) (caseLine implLine : String) : String :=
  match runP pLCase caseLine, runP (do let o0 ← pIObs; let os ← many pLIObs; pure (o0, os)) implLine with
  | some c, some (o0, os) =>
      match lfirstSome (mkLSteps c.evs (bootL o0 :: os)) monitors with
      | some b => "bad " ++ b
      | none =>
        let b := boot c.cf c.d
        match obsDiff b.2 o0 with
        | some d => s!"diff@boot {d}"
        | none =>
          match lWalk 0 ⟨b.1, none⟩ c.evs os with
          | some d => d
          | none => "ok"
  | none, _ => "malformed case"
  | _, _ => "malformed impl"

end Drv
