import RaftVerif.Model.World
import RaftVerif.Model.Commitment
/-! # The leader's main goroutine (raft.go: `runLeader`, `setupLeaderState`, `leaderLoop`,
`dispatchLogs`, the commit branch with `processLogs` and the in-flight futures,
`configurationChangeChIfStable` + `appendConfigurationEntry`, `verifyLeader` with the heartbeat
routines' bookkeeping of replication.go, and the clean-up `runLeader` defers)

One step = one iteration of `leaderLoop` run to quiescence (a commit signal raised by the step is
served, a membership call waiting for the gate is served once the gate opens).  The replication
routines are the environment: the model is told which follower acknowledged which index
(`ack`), that a follower reported a newer term (`deposed`), and how a heartbeat was answered
(`hb`); what those routines *send* is the business of `SV.replicateTo` (Model/Replicate.lean).
RPCs reaching a leader go through the same handler plans as on any other server. -/
namespace SV
open CF (Config)

/-- a call made through the public API -/
inductive Call
  | apply (data : Nat)          -- Apply: a command
  | barrier                     -- Barrier
  | change (ch : CF.Change)     -- AddVoter / AddNonvoter / DemoteVoter / RemoveServer
  | verify                      -- VerifyLeader
deriving Repr

/-- how a future resolved -/
inductive Outcome
  | ok (index resp : Nat)       -- nil; `Index()`; `Response()` (the payload for a command, 0 otherwise)
  | leadershipLost              -- ErrLeadershipLost
  | notLeader                   -- ErrNotLeader
  | storeFailed                 -- the error `StoreLogs` returned
  | refused                     -- the error `nextConfiguration` returned
deriving DecidableEq, Repr

/-- a VerifyLeader request being tallied -/
structure Verify where
  id : Nat
  votes : Nat
  quorum : Nat
deriving DecidableEq, Repr

/-- one follower's heartbeat routine, as far as verify requests go: the requests the heartbeat now
    in the network carries (taken when it was sent), the ones registered since, and whether the
    routine is sitting in its failure back-off (for good: no time passes in a stepped run) -/
structure Hb where
  peer : Nat
  carrying : Option (List Nat)
  waiting : List Nat
  dead : Bool
deriving DecidableEq, Repr

structure Lead where
  cm : CM.Commitment
  inflight : List (Nat × Entry)         -- (call id, its entry) in log order; the no-op has id 0
  peers : List Nat                      -- ids with a replication routine
  stepDown : Bool                       -- a committed configuration took this server's vote away
  queued : List (Nat × CF.Change)       -- membership calls blocked on the gate
  verifies : List Verify
  hbs : List Hb
  now : Nat := 0                        -- virtual milliseconds since the loop started
  leaseAt : Nat := 250                  -- when the lease timer is due
  contact : List (Nat × Nat) := []      -- follower ↦ time of its last answer (`lastContact`)
deriving Repr

def voterIds (c : Config) : List Nat := (c.filter (fun s => s.suffrage = .voter)).map (·.id)

def peerIds (c : Config) : List Nat := (c.filter (fun s => s.id ≠ selfId)).map (·.id)

/-- `newCommitment` -/
def newCommitment (c : Config) (start : Nat) : CM.Commitment := ⟨(voterIds c).map (fun id => (id, 0)), 0, start⟩

structure LWorld where
  w : World
  lead : Option Lead
deriving Repr

/-- what one step lets the outside see beyond the server observation: the futures it resolved -/
structure LObs where
  obs : Obs
  outcomes : List (Nat × Outcome)
deriving Repr

inductive HbAnswer | ok | deny | fail
deriving DecidableEq, Repr

inductive LEvent
  | start                                         -- `runLeader` up to the loop
  | calls (cs : List (Nat × Call)) (failAt : Option Nat)   -- API calls, the first picked up alone, the rest in groups
  | ack (peer idx : Nat)                          -- a follower stored our entries through `idx`
  | deposed                                       -- a follower answered with a newer term
  | hb (peer : Nat) (a : HbAnswer)                -- the heartbeat now in the network is answered
  | rpc (e : Event)                               -- a request from another server
  | heartbeatTimeout                              -- the follower loop's timer fires without recent contact
  | idle                                          -- time passes and nothing is due
  | tick                                          -- the leader loop: 250 ms pass
deriving Repr

/-! ## pieces -/

/-- result of a main-loop fragment: world pieces threaded through -/
structure Acc where
  d : Durable
  v : Vol
  lead : Lead
  writes : List Write
  fsm : List FsmCall
  outcomes : List (Nat × Outcome)
  panic : Bool := false

def entryOf (idx term : Nat) : Call → Config → Entry
  | .apply data, _ => ⟨idx, term, 0, data, []⟩
  | .barrier, _ => ⟨idx, term, 4, 0, []⟩
  | .change _, c => ⟨idx, term, 5, 0, c⟩
  | .verify, _ => ⟨idx, term, 1, 0, []⟩

/-- number the entries of one group from `first` -/
def numberGroup (term : Nat) : Nat → List (Nat × Nat × Nat × Config) → List (Nat × Entry)
  | _, [] => []
  | i, (id, kind, data, c) :: rest => (id, ⟨i, term, kind, data, c⟩) :: numberGroup term (i + 1) rest

/-- `dispatchLogs` for one group `(call id, kind, data, cfg)`; `fail` = the StoreLogs call errors.
    Returns the new state and whether the store failed (the server is then a follower). -/
def dispatch (cf : Cfg) (a : Acc) (group : List (Nat × Nat × Nat × Config)) (fail : Bool) : Acc × Bool :=
  let ents := numberGroup a.v.term (lastIndex a.v + 1) group
  let stageW : List Write := if cf.restoreCommitted then [.stage a.v.commit] else []
  let d1 := applyAll a.d stageW
  let lead1 : Lead := { a.lead with inflight := a.lead.inflight ++ ents }
  if fail then
    ({ a with d := d1, writes := a.writes ++ stageW, lead := lead1, v := { a.v with role := .follower },
              outcomes := a.outcomes ++ ents.map (fun p => (p.1, Outcome.storeFailed)) }, true)
  else
    let es := ents.map (·.2)
    let w : Write := .storeLogs es
    let last := lastIndex a.v + group.length
    ({ a with d := w.apply d1, writes := a.writes ++ stageW ++ [w],
              lead := { lead1 with cm := CM.matchOp lead1.cm selfId last },
              v := { a.v with lastLogIdx := last, lastLogTerm := a.v.term } }, false)

/-- the response a committed entry's future gets -/
def okOf (e : Entry) : Outcome := .ok e.index (if e.kind = 0 then e.data else 0)

/-! ### the commit branch of `leaderLoop`, in pieces -/

/-- has a configuration entry just become committed -/
def cbNewCfg (a : Acc) : Bool := decide (a.v.latestIdx > a.v.commit ∧ a.v.latestIdx ≤ a.lead.cm.commitIndex)

/-- the new commit index, and the latest configuration becoming the committed one -/
def cbVol (a : Acc) : Vol :=
  let v1 : Vol := { a.v with commit := a.lead.cm.commitIndex }
  if cbNewCfg a then { v1 with committed := v1.latest, committedIdx := v1.latestIdx } else v1

/-- `stepDown`: a committed configuration took this server's vote away -/
def cbStepDown (a : Acc) : Bool := a.lead.stepDown || (cbNewCfg a && !hasVote a.v.latest selfId)

/-- the in-flight calls the commit index has reached, and the others -/
def cbReady (a : Acc) : List (Nat × Entry) := a.lead.inflight.takeWhile (fun p => p.2.index ≤ a.lead.cm.commitIndex)
def cbRest (a : Acc) : List (Nat × Entry) := a.lead.inflight.dropWhile (fun p => p.2.index ≤ a.lead.cm.commitIndex)

/-- the answers the ready calls get (the no-op has no caller) -/
def cbAcks (a : Acc) : List (Nat × Outcome) := ((cbReady a).filter (fun p => p.1 ≠ 0)).map (fun p => (p.1, okOf p.2))

/-- `processLogs` up to the last ready call, the ready calls leave the in-flight list -/
def cbApply (a : Acc) : Acc :=
  let v2 := cbVol a
  let l1 : Lead := { a.lead with stepDown := cbStepDown a }
  match (cbReady a).getLast? with
  | none => { a with v := v2, lead := l1 }
  | some lastReady =>
    let l2 : Lead := { l1 with inflight := cbRest a }
    if lastReady.2.index ≤ v2.applied then { a with v := v2, lead := l2 }
    else
      match processLogs a.d.log v2.applied lastReady.2.index with
      | none => { a with v := v2, lead := l2, panic := true }
      | some calls =>
        { a with v := { v2 with applied := lastReady.2.index }, fsm := a.fsm ++ calls, lead := l2,
                 outcomes := a.outcomes ++ cbAcks a }

def commitBranch (a : Acc) : Acc :=
  let a1 := cbApply a
  if cbStepDown a then { a1 with v := { a1.v with role := .follower } } else a1

def gateOpen (a : Acc) : Bool := a.v.latestIdx = a.v.committedIdx && decide (a.v.commit ≥ a.lead.cm.startIndex)

/-- `startStopReplication`: a routine for every other server of the latest configuration (a new
    one starts with an idle heartbeat routine); routines of servers no longer listed are stopped
    (how long the heartbeat routine of a removed server lingers depends on what its replication
    routine is doing; the stepped runs leave such a heartbeat unanswered) -/
def restartPeers (l : Lead) (c : Config) : Lead :=
  let ps := peerIds c
  { l with peers := ps,
           hbs := ps.map (fun p => match l.hbs.find? (·.peer = p) with
                                   | some h => h
                                   | none => ⟨p, none, [], false⟩),
           -- a new routine starts with `lastContact = now`
           contact := ps.map (fun p => match l.contact.find? (·.1 = p) with
                                       | some c => c
                                       | none => (p, l.now)) }

/-- `appendConfigurationEntry` -/
def appendConfig (cf : Cfg) (a : Acc) (id : Nat) (ch : CF.Change) (fail : Bool) : Acc :=
  match CF.nextConfiguration a.v.latest a.v.latestIdx ch with
  | none => { a with outcomes := a.outcomes ++ [(id, .refused)] }
  | some c' =>
    let idx := lastIndex a.v + 1
    let r := dispatch cf a [(id, 5, 0, c')] fail
    let a1 := r.1
    -- an entry that could not be stored is in no log: its configuration is not adopted
    if r.2 then a1 else
    { a1 with v := { a1.v with latest := c', latestIdx := idx },
              lead := restartPeers { a1.lead with cm := CM.setConfiguration a1.lead.cm (voterIds c') } c' }

/-- serve commit signals and the membership gate until nothing is left to do (each round either
    ends or consumes a queued call; `fuel` bounds the rounds) -/
def settle (cf : Cfg) : Nat → Acc → Acc
  | 0, a => a
  | fuel + 1, a =>
    if a.panic ∨ a.v.role ≠ .leader then a
    else if a.lead.cm.commitIndex ≠ a.v.commit ∧ a.lead.cm.commitIndex > a.v.commit then settle cf fuel (commitBranch a)
    else
      match a.lead.queued with
      | (id, ch) :: rest =>
        if gateOpen a then settle cf fuel (appendConfig cf { a with lead := { a.lead with queued := rest } } id ch false)
        else a
      | [] => a

/-- every round but the last consumes a commit signal or a queued call; a queued call raises at
    most one commit signal -/
def settleAll (cf : Cfg) (a : Acc) : Acc := settle cf (2 * a.lead.queued.length + 6) a

/-- what `runLeader` does on the way out -/
def cleanup (a : Acc) : Acc :=
  let v := a.v
  { a with v := if v.leader = selfAddr ∧ v.leaderId = selfId then { v with leader := 0, leaderId := 0 } else v,
           outcomes := a.outcomes ++ a.lead.inflight.filterMap (fun p =>
                         if p.1 ≠ 0 ∧ ¬ a.outcomes.any (fun o => o.1 = p.1) then some (p.1, Outcome.leadershipLost) else none)
                       ++ a.lead.verifies.map (fun x => (x.id, Outcome.leadershipLost)) }

/-! ## VerifyLeader -/

/-- `verifyLeader`: the request is registered with the heartbeat routine of every voter; an idle
    routine sends its heartbeat at once, carrying everything registered with it -/
def registerVerify (l : Lead) (c : Config) (id : Nat) : Lead :=
  { l with hbs := l.hbs.map (fun h =>
      if hasVote c h.peer then
        (if h.carrying.isNone ∧ ¬ h.dead then { h with carrying := some (h.waiting ++ [id]), waiting := [] }
         else { h with waiting := h.waiting ++ [id] })
      else h) }

def verifyCall (a : Acc) (id : Nat) : Acc :=
  let votes := if hasVote a.v.latest selfId then 1 else 0
  let q := quorumOf a.v.latest
  if votes ≥ q then { a with outcomes := a.outcomes ++ [(id, .ok 0 0)] }
  else { a with lead := registerVerify { a.lead with verifies := a.lead.verifies ++ [⟨id, votes, q⟩] } a.v.latest id }

/-- a positive answer for the requests `ids`: each gains a vote; one reaching its quorum resolves -/
def voteYes (a : Acc) : List Nat → Acc
  | [] => a
  | id :: rest =>
    match a.lead.verifies.find? (·.id = id) with
    | none => voteYes a rest
    | some x =>
      if x.votes + 1 ≥ x.quorum then
        voteYes { a with lead := { a.lead with verifies := a.lead.verifies.filter (·.id ≠ id) },
                         outcomes := a.outcomes ++ [(id, .ok 0 0)] } rest
      else
        voteYes { a with lead := { a.lead with verifies := a.lead.verifies.map (fun y => if y.id = id then { y with votes := y.votes + 1 } else y) } } rest

/-- a negative answer: the first request it carries that is still open deposes the leader -/
def voteNo (a : Acc) (ids : List Nat) : Acc :=
  match ids.find? (fun id => a.lead.verifies.any (·.id = id)) with
  | none => a
  | some id =>
    { a with v := { a.v with role := .follower },
             lead := { a.lead with verifies := a.lead.verifies.filter (·.id ≠ id) },
             outcomes := a.outcomes ++ [(id, .notLeader)] }

def hbStep (a : Acc) (peer : Nat) (ans : HbAnswer) : Acc :=
  match a.lead.hbs.find? (·.peer = peer) with
  | none => a
  | some h =>
    match h.carrying with
    | none => a
    | some ids =>
      let setHb (h' : Hb) (l : Lead) : Lead := { l with hbs := l.hbs.map (fun x => if x.peer = peer then h' else x) }
      match ans with
      | .fail => { a with lead := setHb { h with carrying := none, waiting := ids ++ h.waiting, dead := true } a.lead }
      | .ok =>
        let h' : Hb := if h.waiting = [] then { h with carrying := none } else { h with carrying := some h.waiting, waiting := [] }
        voteYes { a with lead := setHb h' a.lead } ids
      | .deny =>
        let h' : Hb := if h.waiting = [] then { h with carrying := none } else { h with carrying := some h.waiting, waiting := [] }
        voteNo { a with lead := setHb h' a.lead } ids

/-! ## the lease (raft.go: `checkLeaderLease` and the timer in `leaderLoop`) -/

def leaseMs : Nat := 250        -- LeaderLeaseTimeout of the stepped instance (HeartbeatTimeout is 1000)
def minCheckMs : Nat := 10      -- minCheckInterval
def tickMs : Nat := 250

def touch (l : Lead) (p : Nat) : Lead :=
  { l with contact := l.contact.map (fun c => if c.1 = p then (p, l.now) else c) }

/-- `checkLeaderLease` at time `t`: the voters heard from within the lease (the leader itself
    counts if it is one), and the longest such silence -/
def leaseCount (v : Vol) (l : Lead) (t : Nat) : Nat × Nat :=
  v.latest.foldl (fun (acc : Nat × Nat) s =>
    if s.suffrage = .voter then
      if s.id = selfId then (acc.1 + 1, acc.2)
      else
        let diff := t - ((l.contact.find? (·.1 = s.id)).map (·.2)).getD 0
        if diff ≤ leaseMs then (acc.1 + 1, max acc.2 diff) else acc
    else acc) (0, 0)

/-- the lease checks that fall due up to `now`: each either deposes the leader (fewer voters heard
    from than a quorum) or re-arms the timer to `lease - maxDiff`, at least `minCheckInterval` -/
def leaseLoop : Nat → Acc → Acc
  | 0, a => a
  | fuel + 1, a =>
    if a.v.role ≠ .leader ∨ a.lead.leaseAt > a.lead.now then a
    else
      let r := leaseCount a.v a.lead a.lead.leaseAt
      let a1 : Acc := { a with lead := { a.lead with leaseAt := a.lead.leaseAt + max (leaseMs - r.2) minCheckMs } }
      if r.1 < quorumOf a.v.latest then { a1 with v := { a1.v with role := .follower } }
      else leaseLoop fuel a1

/-- 250 ms pass: every idle heartbeat routine has sent its next heartbeat (carrying whatever was
    registered with it), and the lease checks that fell due have run -/
def tickStep (a : Acc) : Acc :=
  let l1 : Lead := { a.lead with now := a.lead.now + tickMs,
                                  hbs := a.lead.hbs.map (fun h => if h.carrying.isNone ∧ ¬ h.dead then { h with carrying := some h.waiting, waiting := [] } else h) }
  leaseLoop 40 { a with lead := l1 }

/-! ## API calls -/

/-- split off the first `n` -/
def chunk (n : Nat) : Nat → List α → List (List α)
  | 0, _ => []
  | _, [] => []
  | fuel + 1, l => l.take n :: chunk n fuel (l.drop n)

def logKind : Call → Option (Nat × Nat)
  | .apply d => some (0, d)
  | .barrier => some (4, 0)
  | _ => none

/-- one group of Apply / Barrier calls received from `applyCh` -/
def applyGroup (cf : Cfg) (a : Acc) (g : List (Nat × Nat × Nat)) (fail : Bool) : Acc :=
  if a.lead.stepDown then { a with outcomes := a.outcomes ++ g.map (fun p => (p.1, Outcome.notLeader)) }
  else (dispatch cf a (g.map (fun p => (p.1, p.2.1, p.2.2, []))) fail).1

/-- log calls in arrival order: the first is picked up alone (the loop was idle), the others while
    it was busy, so they come in groups of up to `MaxAppendEntries + 1` -/
def applyCalls (cf : Cfg) (a : Acc) (ls : List (Nat × Nat × Nat)) (failAt : Option Nat) : Acc :=
  match ls with
  | [] => a
  | first :: rest =>
    let groups := [first] :: chunk (cf.maxAE + 1) rest.length rest
    let stagePer := if cf.restoreCommitted then 2 else 1
    (groups.foldl (fun (st : Acc × Nat) g =>
        if st.1.panic ∨ st.1.v.role ≠ .leader then st
        else
          -- the ordinal of this group's StoreLogs among the writes of the event
          let ord := st.2 * stagePer + (stagePer - 1)
          (settleAll cf (applyGroup cf st.1 g (failAt = some ord)), st.2 + 1)) (a, 0)).1

def callStep (cf : Cfg) (a : Acc) (cs : List (Nat × Call)) (failAt : Option Nat) : Acc :=
  let logs := cs.filterMap (fun p => (logKind p.2).map (fun k => (p.1, k.1, k.2)))
  let a1 := applyCalls cf a logs failAt
  -- the other kinds are generated one per event
  cs.foldl (fun a p =>
    if a.panic ∨ a.v.role ≠ .leader then a else
    match p.2 with
    | .change ch =>
      if gateOpen a ∧ a.lead.queued = [] then settleAll cf (appendConfig cf a p.1 ch (failAt = some (if cf.restoreCommitted then 1 else 0)))
      else { a with lead := { a.lead with queued := a.lead.queued ++ [(p.1, ch)] } }
    | .verify => verifyCall a p.1
    | _ => a) a1

/-! ## the follower loop (raft.go: `runFollower`) -/

/-- the heartbeat timer fires and there has been no contact for a heartbeat timeout: the leader is
    forgotten; the server becomes a candidate only if it knows a configuration in which it has a
    vote (a non-voter, a server that is in no configuration, and a server without any configuration
    stay followers however often the timer fires) -/
def followerTimeout (v : Vol) : Vol :=
  let v1 : Vol := { v with leader := 0, leaderId := 0 }
  if v.latestIdx = 0 then v1
  else if v.latestIdx = v.committedIdx ∧ ¬ hasVote v.latest selfId then v1
  else if hasVote v.latest selfId then { v1 with role := .candidate }
  else v1

/-! ## the step -/

def accOf (w : World) (l : Lead) : Acc := ⟨w.d, w.v, l, [], [], [], false⟩

/-- back to a world: a step that left the server a follower (or dead) ends the leader's life -/
def finish (lw : LWorld) (a : Acc) (resp : Resp := .none) : LWorld × LObs :=
  if a.panic then
    -- the process dies: a new one starts on what was written
    let b := boot lw.w.cf a.d
    (⟨b.1, none⟩, ⟨{ b.2 with panic := true, writes := a.writes }, []⟩)
  else
    let a' := if a.v.role ≠ .leader then cleanup a else a
    let fs := fsmNext lw.w a'.d a'.v a'.fsm
    (⟨⟨lw.w.cf, a'.d, a'.v, false, fs.1, fs.2⟩, if a'.v.role ≠ .leader then none else some a'.lead⟩,
     ⟨⟨false, false, resp, a'.writes, a'.v, a'.d, a'.fsm⟩, a'.outcomes⟩)

def idleObs (w : World) : LObs := ⟨⟨w.dead, false, .none, [], w.v, w.d, []⟩, []⟩

def stepLeader (lw : LWorld) (e : LEvent) : LWorld × LObs :=
  if lw.w.dead then (lw, ⟨deadObs lw.w.d, []⟩) else
  match lw.lead, e with
  | none, .start =>
    if lw.w.v.role ≠ .leader then (lw, idleObs lw.w) else
    let l0 : Lead := restartPeers { cm := newCommitment lw.w.v.latest (lastIndex lw.w.v + 1), inflight := [], peers := [], stepDown := false, queued := [], verifies := [], hbs := [] } lw.w.v.latest
    let r := dispatch lw.w.cf (accOf lw.w l0) [(0, 1, 0, [])] false
    finish lw (settleAll lw.w.cf r.1)
  | none, .rpc ev =>
    let r := stepEvent lw.w ev
    (⟨r.1, none⟩, ⟨r.2, []⟩)
  | none, .heartbeatTimeout =>
    if lw.w.v.role ≠ .follower then (lw, idleObs lw.w) else
    let v' := followerTimeout lw.w.v
    (⟨{ lw.w with v := v' }, none⟩, ⟨⟨false, false, .none, [], v', lw.w.d, []⟩, []⟩)
  | none, .calls cs _ =>
    -- the follower and candidate loops refuse every call that needs a leader
    (lw, ⟨(idleObs lw.w).obs, cs.map (fun c => (c.1, Outcome.notLeader))⟩)
  | none, _ => (lw, idleObs lw.w)
  | some _, .start => (lw, idleObs lw.w)
  | some _, .heartbeatTimeout => (lw, idleObs lw.w)
  | some _, .idle => (lw, idleObs lw.w)
  | some l, .calls cs failAt => finish lw (callStep lw.w.cf (accOf lw.w l) cs failAt)
  | some l, .ack peer idx =>
    finish lw (settleAll lw.w.cf { accOf lw.w l with lead := touch { l with cm := CM.matchOp l.cm peer idx } peer })
  | some l, .tick => finish lw (tickStep (accOf lw.w l))
  | some l, .deposed => finish lw { accOf lw.w l with v := { lw.w.v with role := .follower } }
  | some l, .hb peer ans =>
    finish lw (hbStep (accOf lw.w (if ans = .fail then l else touch l peer)) peer ans)
  | some l, .rpc ev =>
    let r := stepEvent lw.w ev
    if r.2.dead ∨ r.2.panic then (⟨r.1, none⟩, ⟨r.2, []⟩)
    else
      let a : Acc := ⟨r.1.d, r.1.v, l, r.2.writes, r.2.fsm, [], false⟩
      let a' := if a.v.role ≠ .leader then cleanup a else a
      (⟨{ r.1 with v := a'.v }, if a'.v.role ≠ .leader then none else some l⟩,
       ⟨{ r.2 with vol := a'.v }, a'.outcomes⟩)

def runLeaderObs (lw : LWorld) : List LEvent → List LObs
  | [] => []
  | e :: es => let r := stepLeader lw e; r.2 :: runLeaderObs r.1 es

end SV
