import Batteries.Data.List.Perm

/-! Probe for C15: crash atomicity of `FileSnapshotStore` sinks (Create / Write / Close / Cancel),
under an explicit crash model, for every interleaving of any number of sinks, every point at which
a call is abandoned (error return), every writeback schedule of the page cache and journal, and a
crash at every instant.  Reaping is not in this probe.  Core Lean only.

Crash model (DESIGN.md, C15): namespace operations reach the disk in the order they were issued
(`pend` is the not-yet-durable tail of that journal); `fsync` of a file or of the parent directory
forces the whole tail; a file's content reaches the disk at any time after it was written, possibly
torn, and certainly at `fsync` of that file. -/
namespace FSS

inductive F | mj | sb
deriving DecidableEq, Repr

/-- `meta.json`: empty, an undecodable part, or the whole JSON document (which carries the CRC:
    `none` in the copy `Create` writes, `some crc` in the copy `Close` writes) -/
inductive MetaC
  | empty
  | part
  | full (crc : Option Nat)
deriving DecidableEq, Repr

structure Dir where
  final : Bool       -- the directory carries its final name (no `.tmp` suffix)
  hasMeta : Bool
  hasState : Bool
deriving DecidableEq, Repr

inductive NsOp
  | mkdir (id : Nat)
  | creat (id : Nat) (f : F)
  | rename (id : Nat)
  | unlink (id : Nat) (f : F)
  | rmdir (id : Nat)
deriving DecidableEq, Repr

def NsOp.id : NsOp → Nat
  | .mkdir id | .creat id _ | .rename id | .unlink id _ | .rmdir id => id

abbrev NS := Nat → Option Dir

def updDir (ns : NS) (id : Nat) (g : Dir → Dir) : NS :=
  fun i => if i = id then (ns id).map g else ns i

def applyNs (ns : NS) : NsOp → NS
  | .mkdir id => fun i => if i = id then (match ns id with | some d => some d | none => some ⟨false, false, false⟩) else ns i
  | .creat id .mj => updDir ns id (fun d => { d with hasMeta := true })
  | .creat id .sb => updDir ns id (fun d => { d with hasState := true })
  | .rename id => updDir ns id (fun d => { d with final := true })
  | .unlink id .mj => updDir ns id (fun d => { d with hasMeta := false })
  | .unlink id .sb => updDir ns id (fun d => { d with hasState := false })
  | .rmdir id => fun i => if i = id then none else ns i

/-- uninterpreted checksum -/
opaque crc : List Nat → Nat

structure Sys where
  dns : NS := fun _ => none                 -- durable namespace
  pend : List NsOp := []                    -- journal tail, oldest first
  vmeta : Nat → MetaC := fun _ => .empty    -- page cache
  dmeta : Nat → MetaC := fun _ => .empty    -- disk
  vstate : Nat → List Nat := fun _ => []
  dstate : Nat → List Nat := fun _ => []
  ph : Nat → Nat := fun _ => 0              -- program counter of sink `id` (see `Label`)
  ids : List Nat := []                      -- every id ever created, newest snapshot = largest id
  retain : Nat := 1                         -- `FileSnapshotStore.retain`

def nsAt (s : Sys) (j : Nat) : NS := (s.pend.take j).foldl applyNs s.dns
def vns (s : Sys) : NS := s.pend.foldl applyNs s.dns

/-- One syscall of one sink, or one writeback step.  The sink program is the code of `Create`
    (phases 0→6), `Write` (6→6), `Close` (6→13) and the `RemoveAll` of `Cancel` / of a failed
    `finalize` (6|7→20→…→24), one label per syscall that changes what a crash can leave behind.
    A call that returns an error early is a sink that takes no further step. -/
inductive Label
  | mkdir (id : Nat)                 -- 0→1   os.MkdirAll(dir.tmp)
  | creatMeta1 (id : Nat)            -- 1→2   os.Create(meta.json)
  | wmetaP1 (id : Nat)               -- 2→3   part of the JSON written
  | wmetaF1 (id : Nat)               -- 3→4   all of it (CRC nil)
  | fsyncMeta1 (id : Nat)            -- 4→5
  | creatState (id : Nat)            -- 5→6   os.Create(state.bin)
  | write (id : Nat) (b : List Nat)  -- 6→6   buffered writer flushes a chunk
  | fsyncState (id : Nat)            -- 6→7   finalize
  | creatMeta2 (id : Nat)            -- 7→8   os.Create truncates meta.json
  | wmetaP2 (id : Nat)               -- 8→9
  | wmetaF2 (id : Nat)               -- 9→10  with the CRC of everything written
  | fsyncMeta2 (id : Nat)            -- 10→11
  | rename (id : Nat)                -- 11→12
  | fsyncParent (id : Nat)           -- 12→13 Close returns nil (before reaping)
  | startCleanup (id : Nat)          -- 6|7→20  Cancel, or finalize failed
  | unlinkMetaA (id : Nat)           -- 20→21
  | unlinkStateA (id : Nat)          -- 20→22
  | unlinkStateB (id : Nat)          -- 21→23
  | unlinkMetaB (id : Nat)           -- 22→23
  | rmdir (id : Nat)                 -- 23→24
  | reapSelect                       -- ReapSnapshots: scan, sort newest first, everything past `retain` is doomed (13→30)
  | rUnlinkMetaA (id : Nat)          -- 30→31  RemoveAll of a doomed snapshot, either unlink order
  | rUnlinkStateA (id : Nat)         -- 30→32
  | rUnlinkStateB (id : Nat)         -- 31→33
  | rUnlinkMetaB (id : Nat)          -- 32→33
  | rRmdir (id : Nat)                -- 33→34
  | flushNs                          -- journal: the oldest pending operation becomes durable
  | flushMeta (id : Nat)             -- page cache → disk, whole
  | flushMetaTorn (id : Nat)         -- page cache → disk, torn
  | flushState (id : Nat) (n : Nat)  -- page cache → disk, any prefix

/-- descending insertion sort (`sort.Sort(sort.Reverse(...))`; ids stand for (term, index, ID)) -/
def insD (x : Nat) : List Nat → List Nat
  | [] => [x]
  | y :: ys => if y ≤ x then x :: y :: ys else y :: insD x ys

def sortDesc : List Nat → List Nat
  | [] => []
  | x :: xs => insD x (sortDesc xs)

def MetaC.isFull : MetaC → Bool
  | .full _ => true
  | _ => false

/-- `getSnapshots` keeps this directory (what the running process sees: the volatile view) -/
def validB (s : Sys) (i : Nat) : Bool :=
  match vns s i with
  | some d => d.final && d.hasMeta && (s.vmeta i).isFull
  | none => false

/-- the snapshots `ReapSnapshots` removes: positions `retain…` of the newest-first scan -/
def doomed (s : Sys) : List Nat := (sortDesc (s.ids.filter (validB s))).drop s.retain

def enabled (s : Sys) : Label → Prop
  | .mkdir id => s.ph id = 0
  | .creatMeta1 id => s.ph id = 1
  | .wmetaP1 id => s.ph id = 2
  | .wmetaF1 id => s.ph id = 3
  | .fsyncMeta1 id => s.ph id = 4
  | .creatState id => s.ph id = 5
  | .write id _ => s.ph id = 6
  | .fsyncState id => s.ph id = 6
  | .creatMeta2 id => s.ph id = 7
  | .wmetaP2 id => s.ph id = 8
  | .wmetaF2 id => s.ph id = 9
  | .fsyncMeta2 id => s.ph id = 10
  | .rename id => s.ph id = 11
  | .fsyncParent id => s.ph id = 12
  | .startCleanup id => s.ph id = 6 ∨ s.ph id = 7
  | .unlinkMetaA id => s.ph id = 20
  | .unlinkStateA id => s.ph id = 20
  | .unlinkStateB id => s.ph id = 21
  | .unlinkMetaB id => s.ph id = 22
  | .rmdir id => s.ph id = 23
  | .reapSelect => s.pend = []
  | .rUnlinkMetaA id => s.ph id = 30
  | .rUnlinkStateA id => s.ph id = 30
  | .rUnlinkStateB id => s.ph id = 31
  | .rUnlinkMetaB id => s.ph id = 32
  | .rRmdir id => s.ph id = 33
  | .flushNs => s.pend ≠ []
  | .flushMeta id => s.dmeta id ≠ s.vmeta id
  | .flushMetaTorn id => s.dmeta id ≠ s.vmeta id ∧ s.vmeta id ≠ .empty
  | .flushState id _ => s.dstate id ≠ s.vstate id

def setPh (s : Sys) (id p : Nat) : Sys := { s with ph := fun i => if i = id then p else s.ph i }
def nsop (s : Sys) (op : NsOp) (p : Nat) : Sys := setPh { s with pend := s.pend ++ [op] } op.id p
def setVMeta (s : Sys) (id : Nat) (c : MetaC) (p : Nat) : Sys :=
  setPh { s with vmeta := fun i => if i = id then c else s.vmeta i } id p
def syncAll (s : Sys) : Sys := { s with dns := vns s, pend := [] }

def apply (s : Sys) : Label → Sys
  | .mkdir id => { (nsop s (.mkdir id) 1) with ids := id :: s.ids }
  | .creatMeta1 id => { (nsop s (.creat id .mj) 2) with vmeta := fun i => if i = id then .empty else s.vmeta i }
  | .wmetaP1 id => setVMeta s id .part 3
  | .wmetaF1 id => setVMeta s id (.full none) 4
  | .fsyncMeta1 id => setPh { (syncAll s) with dmeta := fun i => if i = id then s.vmeta id else s.dmeta i } id 5
  | .creatState id => { (nsop s (.creat id .sb) 6) with vstate := fun i => if i = id then [] else s.vstate i }
  | .write id b => { s with vstate := fun i => if i = id then s.vstate id ++ b else s.vstate i }
  | .fsyncState id => setPh { (syncAll s) with dstate := fun i => if i = id then s.vstate id else s.dstate i } id 7
  | .creatMeta2 id => { (nsop s (.creat id .mj) 8) with vmeta := fun i => if i = id then .empty else s.vmeta i }
  | .wmetaP2 id => setVMeta s id .part 9
  | .wmetaF2 id => setVMeta s id (.full (some (crc (s.vstate id)))) 10
  | .fsyncMeta2 id => setPh { (syncAll s) with dmeta := fun i => if i = id then s.vmeta id else s.dmeta i } id 11
  | .rename id => nsop s (.rename id) 12
  | .fsyncParent id => setPh (syncAll s) id 13
  | .startCleanup id => setPh s id 20
  | .unlinkMetaA id => nsop s (.unlink id .mj) 21
  | .unlinkStateA id => nsop s (.unlink id .sb) 22
  | .unlinkStateB id => nsop s (.unlink id .sb) 23
  | .unlinkMetaB id => nsop s (.unlink id .mj) 23
  | .rmdir id => nsop s (.rmdir id) 24
  | .reapSelect => { s with ph := fun i => if i ∈ doomed s ∧ s.ph i = 13 then 30 else s.ph i }
  | .rUnlinkMetaA id => nsop s (.unlink id .mj) 31
  | .rUnlinkStateA id => nsop s (.unlink id .sb) 32
  | .rUnlinkStateB id => nsop s (.unlink id .sb) 33
  | .rUnlinkMetaB id => nsop s (.unlink id .mj) 33
  | .rRmdir id => nsop s (.rmdir id) 34
  | .flushNs => match s.pend with
      | [] => s
      | op :: rest => { s with dns := applyNs s.dns op, pend := rest }
  | .flushMeta id => { s with dmeta := fun i => if i = id then s.vmeta id else s.dmeta i }
  | .flushMetaTorn id => { s with dmeta := fun i => if i = id then .part else s.dmeta i }
  | .flushState id n => { s with dstate := fun i => if i = id then (s.vstate id).take n else s.dstate i }

/-- every state of a store created with `retain = r` -/
inductive Reachable (r : Nat) : Sys → Prop
  | init : Reachable r { retain := r }
  | step {s} (l : Label) : Reachable r s → enabled s l → Reachable r (apply s l)

/-! ## what a restart sees: the durable namespace and the durable contents -/

/-- `getSnapshots` after a crash keeps this directory: final name, `meta.json` present and decodable -/
def Listed (s : Sys) (id : Nat) : Prop :=
  ∃ d c, s.dns id = some d ∧ d.final = true ∧ d.hasMeta = true ∧ s.dmeta id = .full c

/-- `Open` succeeds and returns exactly the bytes the writer handed to the sink -/
def Complete (s : Sys) (id : Nat) : Prop :=
  ∃ d, s.dns id = some d ∧ d.hasState = true ∧ s.dstate id = s.vstate id ∧
    s.dmeta id = .full (some (crc (s.dstate id))) ∧ (s.ph id = 12 ∨ s.ph id = 13)

/-! ## namespace half of the invariant: depends on the journal and the program counters only -/

def nsAtOf (dns : NS) (pend : List NsOp) (j : Nat) : NS := (pend.take j).foldl applyNs dns
def vnsOf (dns : NS) (pend : List NsOp) : NS := pend.foldl applyNs dns
def updPh (ph : Nat → Nat) (id p : Nat) : Nat → Nat := fun i => if i = id then p else ph i

/-- program counters at which the directory may carry its final name: renamed (12), closed (13), or
    selected for reaping (30..34) -/
def FinPh (p : Nat) : Prop := p = 12 ∨ p = 13 ∨ 30 ≤ p

structure NInv (dns : NS) (pend : List NsOp) (ph : Nat → Nat) : Prop where
  /-- in every crash image of the namespace a directory with a final name has both files and
      belongs to a sink that got past `rename` -/
  good : ∀ j id d, nsAtOf dns pend j id = some d → d.final = true →
      FinPh (ph id) ∧ (ph id < 30 → d.hasMeta = true ∧ d.hasState = true)
  fresh : ∀ id, ph id = 0 → ∀ j, nsAtOf dns pend j id = none
  vshape : ∀ id, 1 ≤ ph id → ph id ≤ 11 → ∃ d, vnsOf dns pend id = some d ∧ d.final = false ∧
      (2 ≤ ph id → d.hasMeta = true) ∧ (6 ≤ ph id → d.hasState = true)
  v12 : ∀ id, ph id = 12 → ∃ d, vnsOf dns pend id = some d ∧ d.final = true
  done13 : ∀ id, ph id = 13 → (∃ d, dns id = some d ∧ d.final = true) ∧ ∀ op ∈ pend, op.id ≠ id

theorem applyNs_other (ns : NS) (op : NsOp) (i : Nat) (h : i ≠ op.id) : applyNs ns op i = ns i := by
  cases op with
  | mkdir id => simp only [applyNs, NsOp.id] at *; simp [h]
  | creat id f => cases f <;> simp only [applyNs, updDir, NsOp.id] at * <;> simp [h]
  | rename id => simp only [applyNs, updDir, NsOp.id] at *; simp [h]
  | unlink id f => cases f <;> simp only [applyNs, updDir, NsOp.id] at * <;> simp [h]
  | rmdir id => simp only [applyNs, NsOp.id] at *; simp [h]

theorem foldl_other (ns : NS) (l : List NsOp) (i : Nat) (h : ∀ op ∈ l, op.id ≠ i) :
    l.foldl applyNs ns i = ns i := by
  induction l generalizing ns with
  | nil => rfl
  | cons op rest ih =>
    simp only [List.foldl_cons]
    rw [ih _ (fun o ho => h o (List.mem_cons_of_mem _ ho))]
    exact applyNs_other ns op i (fun e => h op (List.mem_cons_self) e.symm)

theorem vnsOf_eq_nsAt (dns : NS) (pend : List NsOp) : vnsOf dns pend = nsAtOf dns pend pend.length := by
  simp [vnsOf, nsAtOf]

theorem nsAt_ge (dns : NS) (pend : List NsOp) (j : Nat) (h : pend.length ≤ j) :
    nsAtOf dns pend j = vnsOf dns pend := by
  simp [vnsOf, nsAtOf, List.take_of_length_le h]

theorem nsAt_append (dns : NS) (pend : List NsOp) (op : NsOp) (j : Nat) :
    nsAtOf dns (pend ++ [op]) j = if j ≤ pend.length then nsAtOf dns pend j
                                   else applyNs (vnsOf dns pend) op := by
  split
  · rename_i h; simp [nsAtOf, List.take_append_of_le_length h]
  · rename_i h
    have : (pend ++ [op]).length ≤ j := by simp; omega
    simp [nsAtOf, vnsOf, List.take_of_length_le this, List.foldl_append]

theorem vnsOf_append (dns : NS) (pend : List NsOp) (op : NsOp) :
    vnsOf dns (pend ++ [op]) = applyNs (vnsOf dns pend) op := by
  simp [vnsOf, List.foldl_append]

/-- program-counter moves that no namespace conjunct can see -/
theorem ninv_ph (dns : NS) (pend : List NsOp) (ph ph' : Nat → Nat) (h : NInv dns pend ph)
    (hph : ∀ i, (FinPh (ph i) → FinPh (ph' i) ∧ (ph' i < 30 → ph i < 30)) ∧ (ph' i = 0 → ph i = 0) ∧
      (1 ≤ ph' i → ph' i ≤ 11 → 1 ≤ ph i ∧ ph i ≤ 11 ∧ (2 ≤ ph' i → 2 ≤ ph i) ∧ (6 ≤ ph' i → 6 ≤ ph i)) ∧
      (ph' i = 12 → ph i = 12) ∧ (ph' i = 13 → ph i = 13)) : NInv dns pend ph' := by
  refine ⟨?_, ?_, ?_, ?_, ?_⟩
  · intro j id d h1 h2
    obtain ⟨a, b⟩ := h.good j id d h1 h2
    obtain ⟨c1, c2⟩ := (hph id).1 a
    exact ⟨c1, fun x => b (c2 x)⟩
  · intro id h0 j; exact h.fresh id ((hph id).2.1 h0) j
  · intro id h1 h2
    obtain ⟨a, b, c, e⟩ := (hph id).2.2.1 h1 h2
    obtain ⟨d, d1, d2, d3, d4⟩ := h.vshape id a b
    exact ⟨d, d1, d2, fun x => d3 (c x), fun x => d4 (e x)⟩
  · intro id h12; exact h.v12 id ((hph id).2.2.2.1 h12)
  · intro id h13; exact h.done13 id ((hph id).2.2.2.2 h13)

/-- `fsync` of a file or of the parent: the whole journal tail becomes durable -/
theorem ninv_sync (dns : NS) (pend : List NsOp) (ph : Nat → Nat) (h : NInv dns pend ph) (id p : Nat)
    (hen : (ph id = 4 ∧ p = 5) ∨ (ph id = 6 ∧ p = 7) ∨ (ph id = 10 ∧ p = 11) ∨ (ph id = 12 ∧ p = 13)) :
    NInv (vnsOf dns pend) [] (updPh ph id p) := by
  have hat : ∀ j, nsAtOf (vnsOf dns pend) [] j = vnsOf dns pend := by intro j; simp [nsAtOf]
  have hv : vnsOf (vnsOf dns pend) [] = vnsOf dns pend := by simp [vnsOf]
  refine ⟨?_, ?_, ?_, ?_, ?_⟩
  · intro j i d h1 h2
    rw [hat, vnsOf_eq_nsAt] at h1
    obtain ⟨a, b⟩ := h.good _ i d h1 h2
    simp only [updPh]; split
    · rename_i e; subst e
      unfold FinPh at a ⊢
      exact ⟨by omega, fun _ => b (by omega)⟩
    · exact ⟨a, b⟩
  · intro i h0 j
    rw [hat, vnsOf_eq_nsAt]
    simp only [updPh] at h0
    split at h0
    · omega
    · exact h.fresh i h0 _
  · intro i h1 h2
    rw [hv]
    simp only [updPh] at h1 h2 ⊢
    split at h1
    · rename_i e; subst e
      simp only [if_true] at h2 ⊢
      have hr : 1 ≤ ph i ∧ ph i ≤ 11 := by omega
      obtain ⟨d, d1, d2, d3, d4⟩ := h.vshape i hr.1 hr.2
      exact ⟨d, d1, d2, fun _ => d3 (by omega), fun _ => d4 (by omega)⟩
    · rename_i e; simp only [e, if_false] at h2 ⊢
      exact h.vshape i h1 h2
  · intro i h12
    rw [hv]
    simp only [updPh] at h12
    split at h12
    · omega
    · exact h.v12 i h12
  · intro i h13
    refine ⟨?_, by simp⟩
    simp only [updPh] at h13
    split at h13
    · rename_i e; subst e
      have : ph i = 12 := by omega
      exact h.v12 i this
    · obtain ⟨⟨d, d1, d2⟩, hno⟩ := h.done13 i h13
      refine ⟨d, ?_, d2⟩
      show pend.foldl applyNs dns i = some d
      rw [foldl_other dns pend i hno]; exact d1

/-- the journal writes its oldest pending operation -/
theorem ninv_flush (dns : NS) (op : NsOp) (rest : List NsOp) (ph : Nat → Nat)
    (h : NInv dns (op :: rest) ph) : NInv (applyNs dns op) rest ph := by
  have hat : ∀ j, nsAtOf (applyNs dns op) rest j = nsAtOf dns (op :: rest) (j + 1) := by
    intro j; simp [nsAtOf]
  have hv : vnsOf (applyNs dns op) rest = vnsOf dns (op :: rest) := by simp [vnsOf]
  refine ⟨?_, ?_, ?_, ?_, ?_⟩
  · intro j i d h1 h2; rw [hat] at h1; exact h.good _ i d h1 h2
  · intro i h0 j; rw [hat]; exact h.fresh i h0 _
  · intro i h1 h2; rw [hv]; exact h.vshape i h1 h2
  · intro i h12; rw [hv]; exact h.v12 i h12
  · intro i h13
    obtain ⟨⟨d, d1, d2⟩, hno⟩ := h.done13 i h13
    refine ⟨⟨d, ?_, d2⟩, fun o ho => hno o (List.mem_cons_of_mem _ ho)⟩
    rw [applyNs_other dns op i (fun e => hno op List.mem_cons_self e.symm)]; exact d1

/-- which namespace syscall the sink program issues at which program counter -/
def okAppend : NsOp → Nat → Nat → Prop
  | .mkdir _, p, q => p = 0 ∧ q = 1
  | .creat _ .mj, p, q => (p = 1 ∧ q = 2) ∨ (p = 7 ∧ q = 8)
  | .creat _ .sb, p, q => p = 5 ∧ q = 6
  | .rename _, p, q => p = 11 ∧ q = 12
  | .unlink _ .mj, p, q => (p = 20 ∧ q = 21) ∨ (p = 22 ∧ q = 23) ∨ (p = 30 ∧ q = 31) ∨ (p = 32 ∧ q = 33)
  | .unlink _ .sb, p, q => (p = 20 ∧ q = 22) ∨ (p = 21 ∧ q = 23) ∨ (p = 30 ∧ q = 32) ∨ (p = 31 ∧ q = 33)
  | .rmdir _, p, q => (p = 23 ∧ q = 24) ∨ (p = 33 ∧ q = 34)

theorem okAppend_range (op : NsOp) (p q : Nat) (h : okAppend op p q) :
    p ≠ 12 ∧ p ≠ 13 ∧ q ≠ 0 ∧ q ≠ 13 ∧ (30 ≤ p → 30 ≤ q) ∧ (p < 30 → q < 30) := by
  cases op with
  | mkdir id => simp only [okAppend] at h; omega
  | creat id f => cases f <;> simp only [okAppend] at h <;> omega
  | rename id => simp only [okAppend] at h; omega
  | unlink id f => cases f <;> simp only [okAppend] at h <;> omega
  | rmdir id => simp only [okAppend] at h; omega

/-- what the new volatile entry of the sink's own directory looks like -/
theorem applyNs_self (ns : NS) (op : NsOp) (p q : Nat) (h : okAppend op p q)
    (hfresh : p = 0 → ns op.id = none)
    (hshape : 1 ≤ p → p ≤ 11 → ∃ d, ns op.id = some d ∧ d.final = false ∧
        (2 ≤ p → d.hasMeta = true) ∧ (6 ≤ p → d.hasState = true))
    (hnf : 20 ≤ p → p < 30 → ∀ d, ns op.id = some d → d.final = false) :
    (∀ d, applyNs ns op op.id = some d → d.final = true →
        (q = 12 ∧ d.hasMeta = true ∧ d.hasState = true) ∨ 30 ≤ q) ∧
    (1 ≤ q → q ≤ 11 → ∃ d, applyNs ns op op.id = some d ∧ d.final = false ∧
        (2 ≤ q → d.hasMeta = true) ∧ (6 ≤ q → d.hasState = true)) ∧
    (q = 12 → ∃ d, applyNs ns op op.id = some d ∧ d.final = true) := by
  cases op with
  | mkdir id =>
    simp only [okAppend] at h
    obtain ⟨hp, hq⟩ := h
    have hn := hfresh hp
    simp only [NsOp.id] at hn ⊢
    simp only [applyNs, if_true, hn]
    refine ⟨?_, ?_, ?_⟩
    · intro d hd hf; cases hd; simp at hf
    · intro _ _; exact ⟨_, rfl, rfl, fun _ => by omega, fun _ => by omega⟩
    · intro _; omega
  | creat id f =>
    cases f with
    | mj =>
      simp only [okAppend] at h
      obtain ⟨d, d1, d2, d3, d4⟩ := hshape (by omega) (by omega)
      simp only [NsOp.id] at d1 ⊢
      simp only [applyNs, updDir, if_true, d1, Option.map_some]
      refine ⟨?_, ?_, ?_⟩
      · intro d' hd hf; cases hd; simp [d2] at hf
      · intro _ _; exact ⟨_, rfl, d2, fun _ => rfl, fun hq6 => d4 (by omega)⟩
      · intro _; omega
    | sb =>
      simp only [okAppend] at h
      obtain ⟨d, d1, d2, d3, d4⟩ := hshape (by omega) (by omega)
      simp only [NsOp.id] at d1 ⊢
      simp only [applyNs, updDir, if_true, d1, Option.map_some]
      refine ⟨?_, ?_, ?_⟩
      · intro d' hd hf; cases hd; simp [d2] at hf
      · intro _ _; exact ⟨_, rfl, d2, fun _ => d3 (by omega), fun _ => rfl⟩
      · intro _; omega
  | rename id =>
    simp only [okAppend] at h
    obtain ⟨d, d1, d2, d3, d4⟩ := hshape (by omega) (by omega)
    simp only [NsOp.id] at d1 ⊢
    simp only [applyNs, updDir, if_true, d1, Option.map_some]
    refine ⟨?_, ?_, ?_⟩
    · intro d' hd hf; cases hd; left; exact ⟨h.2, d3 (by omega), d4 (by omega)⟩
    · intro _ _; omega
    · intro _; exact ⟨_, rfl, rfl⟩
  | unlink id f =>
    cases f with
    | mj =>
      simp only [okAppend] at h
      simp only [NsOp.id] at hnf ⊢
      simp only [applyNs, updDir, if_true]
      refine ⟨?_, ?_, ?_⟩
      · intro d' hd hf
        by_cases h30 : 30 ≤ p
        · right; omega
        · cases hns : ns id with
          | none => rw [hns] at hd; cases hd
          | some d => rw [hns] at hd; cases hd; have := hnf (by omega) (by omega) d hns; simp [this] at hf
      · intro _ _; omega
      · intro _; omega
    | sb =>
      simp only [okAppend] at h
      simp only [NsOp.id] at hnf ⊢
      simp only [applyNs, updDir, if_true]
      refine ⟨?_, ?_, ?_⟩
      · intro d' hd hf
        by_cases h30 : 30 ≤ p
        · right; omega
        · cases hns : ns id with
          | none => rw [hns] at hd; cases hd
          | some d => rw [hns] at hd; cases hd; have := hnf (by omega) (by omega) d hns; simp [this] at hf
      · intro _ _; omega
      · intro _; omega
  | rmdir id =>
    simp only [okAppend] at h
    simp only [NsOp.id]
    simp only [applyNs, if_true]
    refine ⟨?_, ?_, ?_⟩
    · intro d hd; cases hd
    · intro _ _; omega
    · intro _; omega

/-- a namespace syscall of the sink program is appended to the journal -/
theorem ninv_append (dns : NS) (pend : List NsOp) (ph : Nat → Nat) (h : NInv dns pend ph)
    (op : NsOp) (q : Nat) (hok : okAppend op (ph op.id) q) :
    NInv dns (pend ++ [op]) (updPh ph op.id q) := by
  obtain ⟨r1, r2, r3, r4, r5, r6⟩ := okAppend_range op _ q hok
  -- facts about the sink's own directory in the volatile view
  have hself := applyNs_self (vnsOf dns pend) op (ph op.id) q hok
    (fun h0 => by rw [vnsOf_eq_nsAt]; exact h.fresh _ h0 _)
    (fun h1 h2 => h.vshape _ h1 h2)
    (fun h20 h30 d hd => by
      cases hf : d.final with
      | false => rfl
      | true =>
        rw [vnsOf_eq_nsAt] at hd
        obtain ⟨c, _⟩ := h.good _ _ d hd hf
        unfold FinPh at c
        omega)
  obtain ⟨s1, s2, s3⟩ := hself
  refine ⟨?_, ?_, ?_, ?_, ?_⟩
  · intro j i d h1 h2
    rw [nsAt_append] at h1
    split at h1
    · obtain ⟨a, b⟩ := h.good j i d h1 h2
      simp only [updPh]; split
      · rename_i e; subst e
        unfold FinPh at a ⊢
        exact ⟨by omega, fun x => by omega⟩
      · exact ⟨a, b⟩
    · by_cases e : i = op.id
      · subst e
        simp only [updPh, if_true]
        rcases s1 d h1 h2 with ⟨c, a, b⟩ | c
        · exact ⟨Or.inl c, fun _ => ⟨a, b⟩⟩
        · exact ⟨Or.inr (Or.inr c), fun x => by omega⟩
      · rw [applyNs_other _ _ _ e, vnsOf_eq_nsAt] at h1
        obtain ⟨a, b⟩ := h.good _ i d h1 h2
        simp only [updPh, e, if_false]; exact ⟨a, b⟩
  · intro i h0 j
    simp only [updPh] at h0
    split at h0
    · omega
    · rename_i e
      rw [nsAt_append]; split
      · exact h.fresh i h0 j
      · rw [applyNs_other _ _ _ e, vnsOf_eq_nsAt]; exact h.fresh i h0 _
  · intro i h1 h2
    rw [vnsOf_append]
    by_cases e : i = op.id
    · subst e
      simp only [updPh, if_true] at h1 h2 ⊢
      exact s2 h1 h2
    · simp only [updPh, e, if_false] at h1 h2 ⊢
      rw [applyNs_other _ _ _ e]; exact h.vshape i h1 h2
  · intro i h12
    rw [vnsOf_append]
    by_cases e : i = op.id
    · subst e
      simp only [updPh, if_true] at h12
      exact s3 h12
    · simp only [updPh, e, if_false] at h12
      rw [applyNs_other _ _ _ e]; exact h.v12 i h12
  · intro i h13
    by_cases e : i = op.id
    · subst e; simp only [updPh, if_true] at h13; omega
    · simp only [updPh, e, if_false] at h13
      obtain ⟨a, b⟩ := h.done13 i h13
      refine ⟨a, ?_⟩
      intro o ho
      rcases List.mem_append.mp ho with ho | ho
      · exact b o ho
      · have : o = op := by simpa using ho
        rw [this]; exact fun x => e x.symm

/-! ## content half of the invariant, per sink -/

def CInv (p : Nat) (vm dm : MetaC) (vs ds : List Nat) : Prop :=
  (7 ≤ p → p ≤ 13 → ds = vs) ∧ (p = 10 → vm = .full (some (crc vs))) ∧
  (11 ≤ p → p ≤ 13 → vm = .full (some (crc vs)) ∧ dm = vm)

structure Inv (s : Sys) : Prop where
  ns : NInv s.dns s.pend s.ph
  content : ∀ id, CInv (s.ph id) (s.vmeta id) (s.dmeta id) (s.vstate id) (s.dstate id)

theorem inv_init (r : Nat) : Inv { retain := r } := by
  refine ⟨⟨?_, ?_, ?_, ?_, ?_⟩, ?_⟩
  · intro j id d h; simp [nsAtOf] at h
  · intro id _ j; simp [nsAtOf]
  · intro id h; simp at h
  · intro id h; simp at h
  · intro id h; simp at h
  · intro id; simp [CInv]

theorem content_upd (s s' : Sys) (id : Nat)
    (h : ∀ i, CInv (s.ph i) (s.vmeta i) (s.dmeta i) (s.vstate i) (s.dstate i))
    (hother : ∀ i, i ≠ id → s'.ph i = s.ph i ∧ s'.vmeta i = s.vmeta i ∧ s'.dmeta i = s.dmeta i ∧
        s'.vstate i = s.vstate i ∧ s'.dstate i = s.dstate i)
    (hid : CInv (s'.ph id) (s'.vmeta id) (s'.dmeta id) (s'.vstate id) (s'.dstate id)) :
    ∀ i, CInv (s'.ph i) (s'.vmeta i) (s'.dmeta i) (s'.vstate i) (s'.dstate i) := by
  intro i
  by_cases e : i = id
  · subst e; exact hid
  · obtain ⟨a, b, c, d, f⟩ := hother i e
    rw [a, b, c, d, f]; exact h i

theorem updPh_compat (ph : Nat → Nat) (id p q : Nat) (hp : ph id = p)
    (hc : (p ≠ 12 ∧ p ≠ 13 ∧ p < 30) ∧ q ≠ 0 ∧ q ≠ 12 ∧ q ≠ 13 ∧
      (1 ≤ q → q ≤ 11 → 1 ≤ p ∧ p ≤ 11 ∧ (2 ≤ q → 2 ≤ p) ∧ (6 ≤ q → 6 ≤ p))) :
    ∀ i, (FinPh (ph i) → FinPh (updPh ph id q i) ∧ (updPh ph id q i < 30 → ph i < 30)) ∧
      (updPh ph id q i = 0 → ph i = 0) ∧
      (1 ≤ updPh ph id q i → updPh ph id q i ≤ 11 →
        1 ≤ ph i ∧ ph i ≤ 11 ∧ (2 ≤ updPh ph id q i → 2 ≤ ph i) ∧ (6 ≤ updPh ph id q i → 6 ≤ ph i)) ∧
      (updPh ph id q i = 12 → ph i = 12) ∧ (updPh ph id q i = 13 → ph i = 13) := by
  intro i
  by_cases e : i = id
  · subst e
    simp only [updPh, if_true]
    refine ⟨fun hf => by unfold FinPh at hf; omega, by omega, ?_, by omega, by omega⟩
    intro h1 h2
    obtain ⟨a, b, c, d⟩ := hc.2.2.2.2 h1 h2
    exact ⟨by omega, by omega, fun x => by have := c x; omega, fun x => by have := d x; omega⟩
  · simp only [updPh, e, if_false]
    exact ⟨fun hf => ⟨hf, fun x => x⟩, fun x => x, fun h1 h2 => ⟨h1, h2, fun x => x, fun x => x⟩, fun x => x, fun x => x⟩

theorem inv_step (s : Sys) (l : Label) (h : Inv s) (hen : enabled s l) : Inv (apply s l) := by
  have hc := h.content
  cases l with
  | mkdir id =>
    simp only [enabled] at hen
    refine ⟨ninv_append _ _ _ h.ns (.mkdir id) 1 (by simp [okAppend, NsOp.id, hen]), ?_⟩
    refine content_upd s _ id hc (by intro i e; simp [apply, nsop, setPh, NsOp.id, e]) ?_
    simp [apply, nsop, setPh, NsOp.id, CInv]
  | creatMeta1 id =>
    simp only [enabled] at hen
    refine ⟨ninv_append _ _ _ h.ns (.creat id .mj) 2 (by simp [okAppend, NsOp.id, hen]), ?_⟩
    refine content_upd s _ id hc (by intro i e; simp [apply, nsop, setPh, NsOp.id, e]) ?_
    simp [apply, nsop, setPh, NsOp.id, CInv]
  | wmetaP1 id =>
    simp only [enabled] at hen
    refine ⟨ninv_ph _ _ _ _ h.ns (updPh_compat s.ph id 2 3 hen (by omega)), ?_⟩
    refine content_upd s _ id hc (by intro i e; simp [apply, setVMeta, setPh, e]) ?_
    simp [apply, setVMeta, setPh, CInv]
  | wmetaF1 id =>
    simp only [enabled] at hen
    refine ⟨ninv_ph _ _ _ _ h.ns (updPh_compat s.ph id 3 4 hen (by omega)), ?_⟩
    refine content_upd s _ id hc (by intro i e; simp [apply, setVMeta, setPh, e]) ?_
    simp [apply, setVMeta, setPh, CInv]
  | fsyncMeta1 id =>
    simp only [enabled] at hen
    refine ⟨ninv_sync _ _ _ h.ns id 5 (by omega), ?_⟩
    refine content_upd s _ id hc (by intro i e; simp [apply, syncAll, setPh, e]) ?_
    simp [apply, syncAll, setPh, CInv]
  | creatState id =>
    simp only [enabled] at hen
    refine ⟨ninv_append _ _ _ h.ns (.creat id .sb) 6 (by simp [okAppend, NsOp.id, hen]), ?_⟩
    refine content_upd s _ id hc (by intro i e; simp [apply, nsop, setPh, NsOp.id, e]) ?_
    simp [apply, nsop, setPh, NsOp.id, CInv]
  | write id b =>
    simp only [enabled] at hen
    refine ⟨h.ns, ?_⟩
    refine content_upd s _ id hc (by intro i e; simp [apply, e]) ?_
    simp only [apply, if_true, CInv, hen]
    refine ⟨by omega, by omega, by omega⟩
  | fsyncState id =>
    simp only [enabled] at hen
    refine ⟨ninv_sync _ _ _ h.ns id 7 (by omega), ?_⟩
    refine content_upd s _ id hc (by intro i e; simp [apply, syncAll, setPh, e]) ?_
    simp [apply, syncAll, setPh, CInv]
  | creatMeta2 id =>
    simp only [enabled] at hen
    have hci := hc id
    refine ⟨ninv_append _ _ _ h.ns (.creat id .mj) 8 (by simp [okAppend, NsOp.id, hen]), ?_⟩
    refine content_upd s _ id hc (by intro i e; simp [apply, nsop, setPh, NsOp.id, e]) ?_
    simp only [apply, nsop, setPh, NsOp.id, if_true, CInv] at hci ⊢
    exact ⟨fun _ _ => hci.1 (by omega) (by omega), by omega, by omega⟩
  | wmetaP2 id =>
    simp only [enabled] at hen
    have hci := hc id
    refine ⟨ninv_ph _ _ _ _ h.ns (updPh_compat s.ph id 8 9 hen (by omega)), ?_⟩
    refine content_upd s _ id hc (by intro i e; simp [apply, setVMeta, setPh, e]) ?_
    simp only [apply, setVMeta, setPh, if_true, CInv] at hci ⊢
    exact ⟨fun _ _ => hci.1 (by omega) (by omega), by omega, by omega⟩
  | wmetaF2 id =>
    simp only [enabled] at hen
    have hci := hc id
    refine ⟨ninv_ph _ _ _ _ h.ns (updPh_compat s.ph id 9 10 hen (by omega)), ?_⟩
    refine content_upd s _ id hc (by intro i e; simp [apply, setVMeta, setPh, e]) ?_
    simp only [apply, setVMeta, setPh, if_true, CInv] at hci ⊢
    exact ⟨fun _ _ => hci.1 (by omega) (by omega), fun _ => trivial, by omega⟩
  | fsyncMeta2 id =>
    simp only [enabled] at hen
    have hci := hc id
    refine ⟨ninv_sync _ _ _ h.ns id 11 (by omega), ?_⟩
    refine content_upd s _ id hc (by intro i e; simp [apply, syncAll, setPh, e]) ?_
    simp only [apply, syncAll, setPh, if_true, CInv] at hci ⊢
    exact ⟨fun _ _ => hci.1 (by omega) (by omega), by omega, fun _ _ => ⟨hci.2.1 hen, trivial⟩⟩
  | rename id =>
    simp only [enabled] at hen
    have hci := hc id
    refine ⟨ninv_append _ _ _ h.ns (.rename id) 12 (by simp [okAppend, NsOp.id, hen]), ?_⟩
    refine content_upd s _ id hc (by intro i e; simp [apply, nsop, setPh, NsOp.id, e]) ?_
    simp only [apply, nsop, setPh, NsOp.id, if_true, CInv] at hci ⊢
    exact ⟨fun _ _ => hci.1 (by omega) (by omega), by omega, fun _ _ => hci.2.2 (by omega) (by omega)⟩
  | fsyncParent id =>
    simp only [enabled] at hen
    have hci := hc id
    refine ⟨ninv_sync _ _ _ h.ns id 13 (by omega), ?_⟩
    refine content_upd s _ id hc (by intro i e; simp [apply, syncAll, setPh, e]) ?_
    simp only [apply, syncAll, setPh, if_true, CInv] at hci ⊢
    exact ⟨fun _ _ => hci.1 (by omega) (by omega), by omega, fun _ _ => hci.2.2 (by omega) (by omega)⟩
  | startCleanup id =>
    simp only [enabled] at hen
    refine ⟨?_, ?_⟩
    · rcases hen with hen | hen
      · exact ninv_ph _ _ _ _ h.ns (updPh_compat s.ph id 6 20 hen (by omega))
      · exact ninv_ph _ _ _ _ h.ns (updPh_compat s.ph id 7 20 hen (by omega))
    · refine content_upd s _ id hc (by intro i e; simp [apply, setPh, e]) ?_
      simp [apply, setPh, CInv]
  | unlinkMetaA id =>
    simp only [enabled] at hen
    refine ⟨ninv_append _ _ _ h.ns (.unlink id .mj) 21 (by simp [okAppend, NsOp.id, hen]), ?_⟩
    refine content_upd s _ id hc (by intro i e; simp [apply, nsop, setPh, NsOp.id, e]) ?_
    simp [apply, nsop, setPh, NsOp.id, CInv]
  | unlinkStateA id =>
    simp only [enabled] at hen
    refine ⟨ninv_append _ _ _ h.ns (.unlink id .sb) 22 (by simp [okAppend, NsOp.id, hen]), ?_⟩
    refine content_upd s _ id hc (by intro i e; simp [apply, nsop, setPh, NsOp.id, e]) ?_
    simp [apply, nsop, setPh, NsOp.id, CInv]
  | unlinkStateB id =>
    simp only [enabled] at hen
    refine ⟨ninv_append _ _ _ h.ns (.unlink id .sb) 23 (by simp [okAppend, NsOp.id, hen]), ?_⟩
    refine content_upd s _ id hc (by intro i e; simp [apply, nsop, setPh, NsOp.id, e]) ?_
    simp [apply, nsop, setPh, NsOp.id, CInv]
  | unlinkMetaB id =>
    simp only [enabled] at hen
    refine ⟨ninv_append _ _ _ h.ns (.unlink id .mj) 23 (by simp [okAppend, NsOp.id, hen]), ?_⟩
    refine content_upd s _ id hc (by intro i e; simp [apply, nsop, setPh, NsOp.id, e]) ?_
    simp [apply, nsop, setPh, NsOp.id, CInv]
  | rmdir id =>
    simp only [enabled] at hen
    refine ⟨ninv_append _ _ _ h.ns (.rmdir id) 24 (by simp [okAppend, NsOp.id, hen]), ?_⟩
    refine content_upd s _ id hc (by intro i e; simp [apply, nsop, setPh, NsOp.id, e]) ?_
    simp [apply, nsop, setPh, NsOp.id, CInv]
  | reapSelect =>
    refine ⟨?_, ?_⟩
    · apply ninv_ph _ _ _ _ h.ns
      intro i
      simp only [apply]
      split
      · rename_i hsel
        rw [hsel.2]
        refine ⟨fun _ => ⟨Or.inr (Or.inr (Nat.le_refl _)), fun x => by omega⟩, by omega, by omega, by omega, by omega⟩
      · exact ⟨fun hf => ⟨hf, fun x => x⟩, fun x => x, fun h1 h2 => ⟨h1, h2, fun x => x, fun x => x⟩, fun x => x, fun x => x⟩
    · intro i
      have hci := hc i
      simp only [apply]
      split
      · simp [CInv]
      · exact hci
  | rUnlinkMetaA id =>
    simp only [enabled] at hen
    refine ⟨ninv_append _ _ _ h.ns (.unlink id .mj) 31 (by simp [okAppend, NsOp.id, hen]), ?_⟩
    refine content_upd s _ id hc (by intro i e; simp [apply, nsop, setPh, NsOp.id, e]) ?_
    simp [apply, nsop, setPh, NsOp.id, CInv]
  | rUnlinkStateA id =>
    simp only [enabled] at hen
    refine ⟨ninv_append _ _ _ h.ns (.unlink id .sb) 32 (by simp [okAppend, NsOp.id, hen]), ?_⟩
    refine content_upd s _ id hc (by intro i e; simp [apply, nsop, setPh, NsOp.id, e]) ?_
    simp [apply, nsop, setPh, NsOp.id, CInv]
  | rUnlinkStateB id =>
    simp only [enabled] at hen
    refine ⟨ninv_append _ _ _ h.ns (.unlink id .sb) 33 (by simp [okAppend, NsOp.id, hen]), ?_⟩
    refine content_upd s _ id hc (by intro i e; simp [apply, nsop, setPh, NsOp.id, e]) ?_
    simp [apply, nsop, setPh, NsOp.id, CInv]
  | rUnlinkMetaB id =>
    simp only [enabled] at hen
    refine ⟨ninv_append _ _ _ h.ns (.unlink id .mj) 33 (by simp [okAppend, NsOp.id, hen]), ?_⟩
    refine content_upd s _ id hc (by intro i e; simp [apply, nsop, setPh, NsOp.id, e]) ?_
    simp [apply, nsop, setPh, NsOp.id, CInv]
  | rRmdir id =>
    simp only [enabled] at hen
    refine ⟨ninv_append _ _ _ h.ns (.rmdir id) 34 (by simp [okAppend, NsOp.id, hen]), ?_⟩
    refine content_upd s _ id hc (by intro i e; simp [apply, nsop, setPh, NsOp.id, e]) ?_
    simp [apply, nsop, setPh, NsOp.id, CInv]
  | flushNs =>
    simp only [enabled] at hen
    cases hp : s.pend with
    | nil => exact absurd hp hen
    | cons op rest =>
      have hns := h.ns
      rw [hp] at hns
      refine ⟨?_, ?_⟩
      · simp only [apply, hp]; exact ninv_flush _ _ _ _ hns
      · simp only [apply, hp]; exact hc
  | flushMeta id =>
    simp only [enabled] at hen
    have hci := hc id
    refine ⟨h.ns, ?_⟩
    refine content_upd s _ id hc (by intro i e; simp [apply, e]) ?_
    simp only [apply, if_true, CInv] at hci ⊢
    exact ⟨hci.1, hci.2.1, fun a b => ⟨(hci.2.2 a b).1, trivial⟩⟩
  | flushMetaTorn id =>
    simp only [enabled] at hen
    have hci := hc id
    refine ⟨h.ns, ?_⟩
    refine content_upd s _ id hc (by intro i e; simp [apply, e]) ?_
    simp only [apply, if_true, CInv] at hci ⊢
    exact ⟨hci.1, hci.2.1, fun a b => absurd (hci.2.2 a b).2 hen.1⟩
  | flushState id n =>
    simp only [enabled] at hen
    have hci := hc id
    refine ⟨h.ns, ?_⟩
    refine content_upd s _ id hc (by intro i e; simp [apply, e]) ?_
    simp only [apply, if_true, CInv] at hci ⊢
    exact ⟨fun a b => absurd (hci.1 a b) hen, hci.2.1, hci.2.2⟩

/-! ## sorting facts -/

theorem mem_insD (a x : Nat) (l : List Nat) : a ∈ insD x l ↔ a = x ∨ a ∈ l := by
  induction l with
  | nil => simp [insD]
  | cons y ys ih =>
    simp only [insD]; split
    · simp
    · simp only [List.mem_cons, ih]
      constructor
      · rintro (h | h | h) <;> simp [h]
      · rintro (h | h | h) <;> simp [h]

theorem mem_sortDesc (a : Nat) (l : List Nat) : a ∈ sortDesc l ↔ a ∈ l := by
  induction l with
  | nil => simp [sortDesc]
  | cons x xs ih => simp [sortDesc, mem_insD, ih]

theorem insD_sorted (x : Nat) (l : List Nat) (h : l.Pairwise (· ≥ ·)) : (insD x l).Pairwise (· ≥ ·) := by
  induction l with
  | nil => simp [insD]
  | cons y ys ih =>
    simp only [insD]; split
    · rename_i hyx
      rw [List.pairwise_cons] at h ⊢
      refine ⟨?_, List.pairwise_cons.mpr h⟩
      intro a ha
      rcases List.mem_cons.mp ha with rfl | ha
      · exact hyx
      · exact Nat.le_trans (h.1 a ha) hyx
    · rename_i hyx
      rw [List.pairwise_cons] at h ⊢
      refine ⟨?_, ih h.2⟩
      intro a ha
      rcases (mem_insD a x ys).mp ha with rfl | ha
      · show a ≤ y; omega
      · exact h.1 a ha

theorem sortDesc_sorted (l : List Nat) : (sortDesc l).Pairwise (· ≥ ·) := by
  induction l with
  | nil => simp [sortDesc]
  | cons x xs ih => exact insD_sorted x _ ih

theorem insD_nodup (x : Nat) (l : List Nat) (h : l.Nodup) (hx : x ∉ l) : (insD x l).Nodup := by
  induction l with
  | nil => simp [insD]
  | cons y ys ih =>
    simp only [insD]; split
    · exact List.nodup_cons.mpr ⟨hx, h⟩
    · rw [List.nodup_cons] at h ⊢
      refine ⟨?_, ih h.2 (fun hm => hx (List.mem_cons_of_mem _ hm))⟩
      intro hm
      rcases (mem_insD y x ys).mp hm with e | hm
      · exact hx (by rw [e]; exact List.mem_cons_self)
      · exact h.1 hm

theorem sortDesc_nodup (l : List Nat) (h : l.Nodup) : (sortDesc l).Nodup := by
  induction l with
  | nil => simp [sortDesc]
  | cons x xs ih =>
    rw [List.nodup_cons] at h
    exact insD_nodup x _ (ih h.2) (fun hm => h.1 ((mem_sortDesc x xs).mp hm))

/-- in a newest-first duplicate-free list, everything in the first `r` is newer than anything past
    position `r`, and if something is past position `r` the first `r` are exactly `r` -/
theorem take_drop_split (L : List Nat) (hs : L.Pairwise (· ≥ ·)) (hn : L.Nodup) (r w : Nat)
    (hw : w ∈ L.drop r) : (∀ k ∈ L.take r, w < k) ∧ (L.take r).length = r := by
  have hsplit : L = L.take r ++ L.drop r := (List.take_append_drop r L).symm
  rw [hsplit] at hs hn
  refine ⟨?_, ?_⟩
  · intro k hk
    have h1 := (List.pairwise_append.mp hs).2.2 k hk w hw
    have h2 : k ≠ w := by
      intro e; subst e
      exact (List.nodup_append.mp hn).2.2 k hk k hw rfl
    show w < k; omega
  · have : r < L.length := by
      rcases Nat.lt_or_ge r L.length with h | h
      · exact h
      · rw [List.drop_eq_nil_of_le h] at hw; cases hw
    simp; omega

/-- in such a list, an element among the first `r` has fewer than `r` elements above it -/
theorem few_above_in_take (L : List Nat) (hs : L.Pairwise (· ≥ ·)) (r x : Nat) (hx : x ∈ L.take r) :
    (L.filter (fun y => decide (x < y))).length < r := by
  obtain ⟨A, B, hAB⟩ := List.append_of_mem hx
  have hL : L = A ++ x :: (B ++ L.drop r) := by
    conv => lhs; rw [← List.take_append_drop r L, hAB]
    simp
  have hlen : A.length < r := by
    have := congrArg List.length hAB
    simp at this; omega
  rw [hL] at hs ⊢
  have hB : ∀ b ∈ B ++ L.drop r, ¬ (x < b) := by
    intro b hb
    have := (List.pairwise_append.mp hs).2.1
    rw [List.pairwise_cons] at this
    have := this.1 b hb
    show ¬ (x < b); omega
  rw [List.filter_append, List.filter_cons]
  have hself : ¬ (x < x) := Nat.lt_irrefl x
  simp only [hself, decide_false, Bool.false_eq_true, if_false]
  have hBe : (B ++ L.drop r).filter (fun y => decide (x < y)) = [] := by
    rw [List.filter_eq_nil_iff]; intro b hb; simpa using hB b hb
  rw [hBe, List.append_nil]
  have := List.length_filter_le (fun y => decide (x < y)) A
  omega

/-- a duplicate-free list of elements all found in `L.filter p` is no longer than it -/
theorem length_le_filter (K L : List Nat) (p : Nat → Bool) (hk : K.Nodup)
    (hsub : ∀ k ∈ K, k ∈ L ∧ p k = true) : K.length ≤ (L.filter p).length := by
  apply List.Subperm.length_le
  apply List.subperm_of_subset hk
  intro k hk'
  exact List.mem_filter.mpr (hsub k hk')

theorem filter_length_mono (L : List Nat) (p q : Nat → Bool) (h : ∀ x ∈ L, p x = true → q x = true) :
    (L.filter p).length ≤ (L.filter q).length := by
  induction L with
  | nil => simp
  | cons a as ih =>
    have ih' := ih (fun x hx => h x (List.mem_cons_of_mem _ hx))
    simp only [List.filter_cons]
    by_cases hp : p a = true
    · have := h a List.mem_cons_self hp
      simp only [hp, this, if_true, List.length_cons]; omega
    · simp only [hp, Bool.false_eq_true, if_false]
      split
      · simp only [List.length_cons]; omega
      · exact ih'

/-! ## the reaper half of the invariant -/

/-- durable, final-named, and not doomed -/
def nvB (s : Sys) (y : Nat) : Bool :=
  (match s.dns y with | some d => d.final | none => false) && (s.ph y == 12 || s.ph y == 13)

structure RInv (s : Sys) : Prop where
  nodup : s.ids.Nodup
  idsPh : ∀ i, i ∈ s.ids ↔ s.ph i ≠ 0
  rmd : ∀ i, NsOp.rmdir i ∈ s.pend → s.ph i = 24 ∨ s.ph i = 34
  /-- every doomed snapshot has at least `retain` durable, complete, not-doomed snapshots newer than it -/
  cnt : ∀ v, 30 ≤ s.ph v → s.retain ≤ (s.ids.filter (fun y => decide (v < y) && nvB s y)).length

theorem applyNs_keeps_final (ns : NS) (op : NsOp) (y : Nat) (d : Dir) (h : ns y = some d) (hf : d.final = true)
    (hne : op ≠ .rmdir y) : ∃ d', applyNs ns op y = some d' ∧ d'.final = true := by
  by_cases e : y = op.id
  · cases op with
    | mkdir id => simp only [NsOp.id] at e; subst e; simp [applyNs, h, hf]
    | creat id f => simp only [NsOp.id] at e; subst e; cases f <;> simp [applyNs, updDir, h, hf]
    | rename id => simp only [NsOp.id] at e; subst e; simp [applyNs, updDir, h]
    | unlink id f => simp only [NsOp.id] at e; subst e; cases f <;> simp [applyNs, updDir, h, hf]
    | rmdir id => simp only [NsOp.id] at e; subst e; exact absurd rfl hne
  · rw [applyNs_other ns op y e]; exact ⟨d, h, hf⟩

theorem foldl_keeps_final (ns : NS) (l : List NsOp) (y : Nat) (d : Dir) (h : ns y = some d) (hf : d.final = true)
    (hne : NsOp.rmdir y ∉ l) : ∃ d', l.foldl applyNs ns y = some d' ∧ d'.final = true := by
  induction l generalizing ns d with
  | nil => exact ⟨d, h, hf⟩
  | cons op rest ih =>
    obtain ⟨d1, a, b⟩ := applyNs_keeps_final ns op y d h hf (fun e => hne (by rw [e]; exact List.mem_cons_self))
    exact ih _ d1 a b (fun hm => hne (List.mem_cons_of_mem _ hm))

theorem nvB_true (s : Sys) (y : Nat) :
    nvB s y = true ↔ (∃ d, s.dns y = some d ∧ d.final = true) ∧ (s.ph y = 12 ∨ s.ph y = 13) := by
  unfold nvB
  cases h : s.dns y with
  | none => simp
  | some d => simp

/-- the shape every non-selecting step has, as far as the reaper invariant can see -/
theorem rinv_frame (s s' : Sys) (h : RInv s)
    (hret : s'.retain = s.retain)
    (hids : s'.ids = s.ids ∨ ∃ id, s'.ids = id :: s.ids ∧ s.ph id = 0)
    (hph0 : ∀ i, (s'.ph i ≠ 0 ↔ (s.ph i ≠ 0 ∨ (s'.ids ≠ s.ids ∧ i ∈ s'.ids ∧ i ∉ s.ids))))
    (hvic : ∀ v, 30 ≤ s'.ph v → 30 ≤ s.ph v)
    (hnv : ∀ y, nvB s y = true → nvB s' y = true)
    (hrm : ∀ i, NsOp.rmdir i ∈ s'.pend → (NsOp.rmdir i ∈ s.pend ∧ s'.ph i = s.ph i) ∨ s'.ph i = 24 ∨ s'.ph i = 34) :
    RInv s' := by
  refine ⟨?_, ?_, ?_, ?_⟩
  · rcases hids with e | ⟨id, e, h0⟩
    · rw [e]; exact h.nodup
    · rw [e]; exact List.nodup_cons.mpr ⟨fun hm => ((h.idsPh id).mp hm) h0, h.nodup⟩
  · intro i
    rw [hph0 i]
    rcases hids with e | ⟨id, e, h0⟩
    · rw [e]; rw [h.idsPh i]
      constructor
      · intro x; left; exact x
      · rintro (x | ⟨x, _⟩)
        · exact x
        · exact absurd rfl x
    · rw [e]
      simp only [List.mem_cons]
      constructor
      · rintro (x | x)
        · by_cases hi : i ∈ s.ids
          · left; exact (h.idsPh i).mp hi
          · right; exact ⟨by intro e2; have := congrArg List.length e2; simp at this, Or.inl x, hi⟩
        · left; exact (h.idsPh i).mp x
      · rintro (x | ⟨_, x, _⟩)
        · right; exact (h.idsPh i).mpr x
        · exact x
  · intro i hi
    rcases hrm i hi with ⟨a, b⟩ | c
    · rw [b]; exact h.rmd i a
    · exact c
  · intro v hv
    have := h.cnt v (hvic v hv)
    rw [hret]
    refine Nat.le_trans this ?_
    have hmono : (s.ids.filter (fun y => decide (v < y) && nvB s y)).length ≤
        (s.ids.filter (fun y => decide (v < y) && nvB s' y)).length := by
      apply filter_length_mono
      intro x _ hx
      simp only [Bool.and_eq_true] at hx ⊢
      exact ⟨hx.1, hnv x hx.2⟩
    refine Nat.le_trans hmono ?_
    rcases hids with e | ⟨id, e, _⟩
    · rw [e]; exact Nat.le_refl _
    · rw [e, List.filter_cons]; split
      · simp only [List.length_cons]; omega
      · exact Nat.le_refl _

theorem updPh_ne0 (ph : Nat → Nat) (id q : Nat) (hp : ph id ≠ 0) (hq : q ≠ 0) (i : Nat) :
    updPh ph id q i ≠ 0 ↔ ph i ≠ 0 := by
  simp only [updPh]; split
  · rename_i e; subst e; exact ⟨fun _ => hp, fun _ => hq⟩
  · exact Iff.rfl

/-- steps that touch neither the namespace nor the id list -/
theorem rinv_kindA (s s' : Sys) (h : RInv s) (e1 : s'.ids = s.ids) (e2 : s'.pend = s.pend) (e3 : s'.dns = s.dns)
    (e4 : s'.retain = s.retain)
    (e5 : s'.ph = s.ph ∨ ∃ id q, s'.ph = updPh s.ph id q ∧ s.ph id ≠ 0 ∧ s.ph id ≠ 12 ∧ s.ph id ≠ 13 ∧
      q ≠ 0 ∧ q < 30 ∧ s.ph id < 24) : RInv s' := by
  apply rinv_frame s s' h e4 (Or.inl e1)
  · intro i
    rw [e1]
    rcases e5 with e | ⟨id, q, e, a, _, _, b, _, _⟩
    · rw [e]; exact ⟨fun x => Or.inl x, fun x => x.elim id (fun y => absurd rfl y.1)⟩
    · rw [e, updPh_ne0 _ _ _ a b]; exact ⟨fun x => Or.inl x, fun x => x.elim (fun y => y) (fun y => absurd rfl y.1)⟩
  · intro v hv
    rcases e5 with e | ⟨id, q, e, _, _, _, _, b, _⟩
    · rw [e] at hv; exact hv
    · rw [e] at hv; simp only [updPh] at hv; split at hv
      · omega
      · exact hv
  · intro y hy
    rw [nvB_true] at hy ⊢
    rw [e3]
    refine ⟨hy.1, ?_⟩
    rcases e5 with e | ⟨id, q, e, _, a, b, _, _, _⟩
    · rw [e]; exact hy.2
    · rw [e]; simp only [updPh]; split
      · rename_i ey; subst ey; omega
      · exact hy.2
  · intro i hi
    rw [e2] at hi
    rcases e5 with e | ⟨id, q, e, _, _, _, _, _, c⟩
    · left; exact ⟨hi, by rw [e]⟩
    · have := h.rmd i hi
      left; refine ⟨hi, ?_⟩
      rw [e]; simp only [updPh]; split
      · rename_i ey; subst ey; omega
      · rfl

/-- a namespace syscall is appended to the journal (`mkdir` also registers the id) -/
theorem rinv_kindB (s s' : Sys) (h : RInv s) (op : NsOp) (q : Nat) (hok : okAppend op (s.ph op.id) q)
    (e1 : s'.pend = s.pend ++ [op]) (e2 : s'.dns = s.dns) (e3 : s'.ph = updPh s.ph op.id q)
    (e4 : s'.retain = s.retain)
    (e5 : (s'.ids = s.ids ∧ s.ph op.id ≠ 0) ∨ (s'.ids = op.id :: s.ids ∧ s.ph op.id = 0))
    (e6 : (∃ i, op = .rmdir i) → q = 24 ∨ q = 34) : RInv s' := by
  obtain ⟨r1, r2, r3, r4, r5, r6⟩ := okAppend_range op _ q hok
  have hp24 : s.ph op.id ≠ 24 ∧ s.ph op.id ≠ 34 := by
    cases op with
    | mkdir id => simp only [okAppend, NsOp.id] at hok ⊢; omega
    | creat id f => cases f <;> simp only [okAppend, NsOp.id] at hok ⊢ <;> omega
    | rename id => simp only [okAppend, NsOp.id] at hok ⊢; omega
    | unlink id f => cases f <;> simp only [okAppend, NsOp.id] at hok ⊢ <;> omega
    | rmdir id => simp only [okAppend, NsOp.id] at hok ⊢; omega
  apply rinv_frame s s' h e4
  · rcases e5 with ⟨a, _⟩ | ⟨a, b⟩
    · exact Or.inl a
    · exact Or.inr ⟨_, a, b⟩
  · intro i
    rw [e3]
    rcases e5 with ⟨a, b⟩ | ⟨a, b⟩
    · rw [a, updPh_ne0 _ _ _ b r3]; exact ⟨fun x => Or.inl x, fun x => x.elim (fun y => y) (fun y => absurd rfl y.1)⟩
    · rw [a]
      simp only [updPh]
      split
      · rename_i e; subst e
        constructor
        · intro _; right
          refine ⟨fun e2 => by have := congrArg List.length e2; simp at this, List.mem_cons_self, ?_⟩
          intro hm; exact ((h.idsPh _).mp hm) b
        · intro _; exact r3
      · rename_i e
        constructor
        · intro x; left; exact x
        · rintro (x | ⟨_, x, y⟩)
          · exact x
          · rcases List.mem_cons.mp x with x | x
            · exact absurd x e
            · exact absurd x y
  · intro v hv
    rw [e3] at hv; simp only [updPh] at hv; split at hv
    · rename_i e; subst e
      rcases Nat.lt_or_ge (s.ph op.id) 30 with c | c
      · have := r6 c; omega
      · exact c
    · exact hv
  · intro y hy
    rw [nvB_true] at hy ⊢
    rw [e2, e3]
    refine ⟨hy.1, ?_⟩
    simp only [updPh]; split
    · rename_i ey; subst ey; omega
    · exact hy.2
  · intro i hi
    rw [e1] at hi
    rcases List.mem_append.mp hi with hi | hi
    · have := h.rmd i hi
      left; refine ⟨hi, ?_⟩
      rw [e3]; simp only [updPh]; split
      · rename_i ey; subst ey; omega
      · rfl
    · have : op = .rmdir i := by have := List.mem_singleton.mp hi; exact this.symm
      right
      have hq := e6 ⟨i, this⟩
      rw [e3, this]; simp only [updPh, NsOp.id, if_true]; exact hq

/-- `fsync`: the journal tail becomes durable -/
theorem rinv_kindC (s s' : Sys) (h : RInv s) (id q : Nat)
    (hen : (s.ph id = 4 ∧ q = 5) ∨ (s.ph id = 6 ∧ q = 7) ∨ (s.ph id = 10 ∧ q = 11) ∨ (s.ph id = 12 ∧ q = 13))
    (e1 : s'.pend = []) (e2 : s'.dns = vns s) (e3 : s'.ph = updPh s.ph id q)
    (e4 : s'.retain = s.retain) (e5 : s'.ids = s.ids) : RInv s' := by
  apply rinv_frame s s' h e4 (Or.inl e5)
  · intro i
    rw [e3, e5, updPh_ne0 _ _ _ (by omega) (by omega)]
    exact ⟨fun x => Or.inl x, fun x => x.elim (fun y => y) (fun y => absurd rfl y.1)⟩
  · intro v hv
    rw [e3] at hv; simp only [updPh] at hv; split at hv
    · omega
    · exact hv
  · intro y hy
    rw [nvB_true] at hy ⊢
    obtain ⟨⟨d, d1, d2⟩, hph⟩ := hy
    refine ⟨?_, ?_⟩
    · rw [e2]
      exact foldl_keeps_final s.dns s.pend y d d1 d2 (fun hm => by have := h.rmd y hm; omega)
    · rw [e3]; simp only [updPh]; split
      · rename_i ey; subst ey; omega
      · exact hph
  · intro i hi; rw [e1] at hi; cases hi

/-- the journal writes its oldest pending operation -/
theorem rinv_kindD (s s' : Sys) (h : RInv s) (op : NsOp) (rest : List NsOp) (hp : s.pend = op :: rest)
    (e1 : s'.pend = rest) (e2 : s'.dns = applyNs s.dns op) (e3 : s'.ph = s.ph)
    (e4 : s'.retain = s.retain) (e5 : s'.ids = s.ids) : RInv s' := by
  apply rinv_frame s s' h e4 (Or.inl e5)
  · intro i; rw [e3, e5]
    exact ⟨fun x => Or.inl x, fun x => x.elim (fun y => y) (fun y => absurd rfl y.1)⟩
  · intro v hv; rw [e3] at hv; exact hv
  · intro y hy
    rw [nvB_true] at hy ⊢
    obtain ⟨⟨d, d1, d2⟩, hph⟩ := hy
    rw [e2, e3]
    refine ⟨applyNs_keeps_final s.dns op y d d1 d2 ?_, hph⟩
    intro e
    have := h.rmd y (by rw [hp, e]; exact List.mem_cons_self)
    omega
  · intro i hi
    left; refine ⟨?_, by rw [e3]⟩
    rw [hp]; rw [e1] at hi; exact List.mem_cons_of_mem _ hi

theorem insD_length (x : Nat) (l : List Nat) : (insD x l).length = l.length + 1 := by
  induction l with
  | nil => rfl
  | cons y ys ih => simp only [insD]; split <;> simp [ih]

/-- `ReapSnapshots` chooses its victims: the reaper invariant survives, because whatever is chosen has
    `retain` newer snapshots that are durable, complete and themselves not chosen -/
theorem rinv_select (s : Sys) (h : RInv s) (inv : Inv s) (hp : s.pend = []) :
    RInv (apply s .reapSelect) := by
  have hvns : vns s = s.dns := by simp [vns, hp]
  have hS_sorted := sortDesc_sorted (s.ids.filter (validB s))
  have hS_nodup := sortDesc_nodup _ (h.nodup.filter (validB s))
  -- F1: a durable, final, not-doomed snapshot is in the scan
  have F1 : ∀ y, nvB s y = true → y ∈ sortDesc (s.ids.filter (validB s)) := by
    intro y hy
    rw [nvB_true] at hy
    obtain ⟨⟨d, d1, d2⟩, hph⟩ := hy
    rw [mem_sortDesc, List.mem_filter]
    refine ⟨(h.idsPh y).mpr (by omega), ?_⟩
    have hg := inv.ns.good 0 y d (by simpa [nsAtOf] using d1) d2
    have hm := (hg.2 (by omega)).1
    have hc := (inv.content y).2.2 (by omega) (by omega)
    simp only [validB, hvns, d1, d2, hm, hc.1, MetaC.isFull, Bool.and_self]
  -- F2: the kept ones are durable, final, not doomed — before and after
  have F2 : ∀ k, k ∈ (sortDesc (s.ids.filter (validB s))).take s.retain →
      nvB s k = true ∧ ¬ (k ∈ doomed s) := by
    intro k hk
    have hkS : k ∈ sortDesc (s.ids.filter (validB s)) := List.mem_of_mem_take hk
    have hkv := (List.mem_filter.mp ((mem_sortDesc _ _).mp hkS))
    have hnd : ¬ (k ∈ doomed s) := by
      intro hd
      have hsplit := List.take_append_drop s.retain (sortDesc (s.ids.filter (validB s)))
      rw [← hsplit] at hS_nodup
      exact (List.nodup_append.mp hS_nodup).2.2 k hk k hd rfl
    refine ⟨?_, hnd⟩
    -- its directory is final in the durable namespace
    have hval := hkv.2
    simp only [validB, hvns] at hval
    cases hd : s.dns k with
    | none => rw [hd] at hval; cases hval
    | some d =>
      rw [hd] at hval
      simp only [Bool.and_eq_true] at hval
      have hfin : d.final = true := hval.1.1
      have hg := inv.ns.good 0 k d (by simpa [nsAtOf] using hd) hfin
      rw [nvB_true]
      refine ⟨⟨d, hd, hfin⟩, ?_⟩
      rcases hg.1 with e | e | e
      · left; exact e
      · right; exact e
      · -- an already doomed snapshot cannot be among the first `retain`
        exfalso
        have hc := h.cnt k e
        have hle : (s.ids.filter (fun y => decide (k < y) && nvB s y)).length ≤
            ((sortDesc (s.ids.filter (validB s))).filter (fun y => decide (k < y))).length := by
          apply length_le_filter _ _ _ (h.nodup.filter _)
          intro y hy
          have := List.mem_filter.mp hy
          simp only [Bool.and_eq_true] at this
          exact ⟨F1 y this.2.2, this.2.1⟩
        have hlt := few_above_in_take _ hS_sorted s.retain k hk
        omega
  have hKlen : ∀ w, w ∈ doomed s →
      (∀ k ∈ (sortDesc (s.ids.filter (validB s))).take s.retain, w < k) ∧
      ((sortDesc (s.ids.filter (validB s))).take s.retain).length = s.retain :=
    fun w hw => take_drop_split _ hS_sorted hS_nodup s.retain w hw
  have hKnodup : ((sortDesc (s.ids.filter (validB s))).take s.retain).Nodup :=
    hS_nodup.sublist (List.take_sublist _ _)
  -- the new state
  have hph' : ∀ i, (apply s .reapSelect).ph i = if i ∈ doomed s ∧ s.ph i = 13 then 30 else s.ph i := fun i => rfl
  have hnv' : ∀ k, nvB s k = true → ¬ (k ∈ doomed s) → nvB (apply s .reapSelect) k = true := by
    intro k hk hnd
    rw [nvB_true] at hk ⊢
    refine ⟨hk.1, ?_⟩
    rw [hph' k]
    have : ¬ (k ∈ doomed s ∧ s.ph k = 13) := fun x => hnd x.1
    simp only [this, if_false]; exact hk.2
  -- the kept ones witness the count for anything below a doomed snapshot
  have hwit : ∀ v w, w ∈ doomed s → v ≤ w →
      s.retain ≤ (s.ids.filter (fun y => decide (v < y) && nvB (apply s .reapSelect) y)).length := by
    intro v w hw hvw
    obtain ⟨hgt, hlen⟩ := hKlen w hw
    rw [← hlen]
    apply length_le_filter _ _ _ hKnodup
    intro k hk
    obtain ⟨a, b⟩ := F2 k hk
    have hkS : k ∈ sortDesc (s.ids.filter (validB s)) := List.mem_of_mem_take hk
    have hkids := (List.mem_filter.mp ((mem_sortDesc _ _).mp hkS)).1
    refine ⟨hkids, ?_⟩
    simp only [Bool.and_eq_true, decide_eq_true_eq]
    exact ⟨by have := hgt k hk; omega, hnv' k a b⟩
  refine ⟨h.nodup, ?_, ?_, ?_⟩
  · intro i
    show i ∈ s.ids ↔ (apply s .reapSelect).ph i ≠ 0
    rw [hph' i, h.idsPh i]
    split
    · rename_i e; rw [e.2]; simp
    · exact Iff.rfl
  · intro i hi
    have : (apply s .reapSelect).pend = s.pend := rfl
    rw [this, hp] at hi; cases hi
  · intro v hv
    show s.retain ≤ _
    rw [hph' v] at hv
    split at hv
    · rename_i e
      exact hwit v v e.1 (Nat.le_refl _)
    · -- doomed before: either none of its witnesses is chosen now, or a chosen one brings the kept ones
      by_cases hex : ∃ y ∈ s.ids, (decide (v < y) && nvB s y) = true ∧ y ∈ doomed s
      · obtain ⟨y, _, hy1, hy2⟩ := hex
        simp only [Bool.and_eq_true, decide_eq_true_eq] at hy1
        exact hwit v y hy2 (by omega)
      · refine Nat.le_trans (h.cnt v hv) ?_
        apply filter_length_mono
        intro y hy hpy
        simp only [Bool.and_eq_true, decide_eq_true_eq] at hpy ⊢
        refine ⟨hpy.1, hnv' y hpy.2 ?_⟩
        intro hd
        exact hex ⟨y, hy, by simp only [Bool.and_eq_true, decide_eq_true_eq]; exact hpy, hd⟩
theorem rinv_step (s : Sys) (l : Label) (h : RInv s) (inv : Inv s) (hen : enabled s l) : RInv (apply s l) := by
  cases l with
  | mkdir id =>
    simp only [enabled] at hen
    exact rinv_kindB s _ h (.mkdir id) 1 (by simp [okAppend, NsOp.id, hen]) rfl rfl rfl rfl
      (Or.inr ⟨rfl, by simp only [NsOp.id]; exact hen⟩) (by simp)
  | creatMeta1 id =>
    simp only [enabled] at hen
    exact rinv_kindB s _ h (.creat id .mj) 2 (by simp [okAppend, NsOp.id, hen]) rfl rfl rfl rfl
      (Or.inl ⟨rfl, by simp only [NsOp.id]; omega⟩) (by simp)
  | wmetaP1 id =>
    simp only [enabled] at hen
    exact rinv_kindA s _ h rfl rfl rfl rfl (Or.inr ⟨id, 3, rfl, by omega, by omega, by omega, by omega, by omega, by omega⟩)
  | wmetaF1 id =>
    simp only [enabled] at hen
    exact rinv_kindA s _ h rfl rfl rfl rfl (Or.inr ⟨id, 4, rfl, by omega, by omega, by omega, by omega, by omega, by omega⟩)
  | fsyncMeta1 id =>
    simp only [enabled] at hen
    exact rinv_kindC s _ h id 5 (by omega) rfl rfl rfl rfl rfl
  | creatState id =>
    simp only [enabled] at hen
    exact rinv_kindB s _ h (.creat id .sb) 6 (by simp [okAppend, NsOp.id, hen]) rfl rfl rfl rfl
      (Or.inl ⟨rfl, by simp only [NsOp.id]; omega⟩) (by simp)
  | write id b => exact rinv_kindA s _ h rfl rfl rfl rfl (Or.inl rfl)
  | fsyncState id =>
    simp only [enabled] at hen
    exact rinv_kindC s _ h id 7 (by omega) rfl rfl rfl rfl rfl
  | creatMeta2 id =>
    simp only [enabled] at hen
    exact rinv_kindB s _ h (.creat id .mj) 8 (by simp [okAppend, NsOp.id, hen]) rfl rfl rfl rfl
      (Or.inl ⟨rfl, by simp only [NsOp.id]; omega⟩) (by simp)
  | wmetaP2 id =>
    simp only [enabled] at hen
    exact rinv_kindA s _ h rfl rfl rfl rfl (Or.inr ⟨id, 9, rfl, by omega, by omega, by omega, by omega, by omega, by omega⟩)
  | wmetaF2 id =>
    simp only [enabled] at hen
    exact rinv_kindA s _ h rfl rfl rfl rfl (Or.inr ⟨id, 10, rfl, by omega, by omega, by omega, by omega, by omega, by omega⟩)
  | fsyncMeta2 id =>
    simp only [enabled] at hen
    exact rinv_kindC s _ h id 11 (by omega) rfl rfl rfl rfl rfl
  | rename id =>
    simp only [enabled] at hen
    exact rinv_kindB s _ h (.rename id) 12 (by simp [okAppend, NsOp.id, hen]) rfl rfl rfl rfl
      (Or.inl ⟨rfl, by simp only [NsOp.id]; omega⟩) (by simp)
  | fsyncParent id =>
    simp only [enabled] at hen
    exact rinv_kindC s _ h id 13 (by omega) rfl rfl rfl rfl rfl
  | startCleanup id =>
    simp only [enabled] at hen
    exact rinv_kindA s _ h rfl rfl rfl rfl (Or.inr ⟨id, 20, rfl, by omega, by omega, by omega, by omega, by omega, by omega⟩)
  | unlinkMetaA id =>
    simp only [enabled] at hen
    exact rinv_kindB s _ h (.unlink id .mj) 21 (by simp [okAppend, NsOp.id, hen]) rfl rfl rfl rfl
      (Or.inl ⟨rfl, by simp only [NsOp.id]; omega⟩) (by simp)
  | unlinkStateA id =>
    simp only [enabled] at hen
    exact rinv_kindB s _ h (.unlink id .sb) 22 (by simp [okAppend, NsOp.id, hen]) rfl rfl rfl rfl
      (Or.inl ⟨rfl, by simp only [NsOp.id]; omega⟩) (by simp)
  | unlinkStateB id =>
    simp only [enabled] at hen
    exact rinv_kindB s _ h (.unlink id .sb) 23 (by simp [okAppend, NsOp.id, hen]) rfl rfl rfl rfl
      (Or.inl ⟨rfl, by simp only [NsOp.id]; omega⟩) (by simp)
  | unlinkMetaB id =>
    simp only [enabled] at hen
    exact rinv_kindB s _ h (.unlink id .mj) 23 (by simp [okAppend, NsOp.id, hen]) rfl rfl rfl rfl
      (Or.inl ⟨rfl, by simp only [NsOp.id]; omega⟩) (by simp)
  | rmdir id =>
    simp only [enabled] at hen
    exact rinv_kindB s _ h (.rmdir id) 24 (by simp [okAppend, NsOp.id, hen]) rfl rfl rfl rfl
      (Or.inl ⟨rfl, by simp only [NsOp.id]; omega⟩) (by simp)
  | reapSelect =>
    simp only [enabled] at hen
    exact rinv_select s h inv hen
  | rUnlinkMetaA id =>
    simp only [enabled] at hen
    exact rinv_kindB s _ h (.unlink id .mj) 31 (by simp [okAppend, NsOp.id, hen]) rfl rfl rfl rfl
      (Or.inl ⟨rfl, by simp only [NsOp.id]; omega⟩) (by simp)
  | rUnlinkStateA id =>
    simp only [enabled] at hen
    exact rinv_kindB s _ h (.unlink id .sb) 32 (by simp [okAppend, NsOp.id, hen]) rfl rfl rfl rfl
      (Or.inl ⟨rfl, by simp only [NsOp.id]; omega⟩) (by simp)
  | rUnlinkStateB id =>
    simp only [enabled] at hen
    exact rinv_kindB s _ h (.unlink id .sb) 33 (by simp [okAppend, NsOp.id, hen]) rfl rfl rfl rfl
      (Or.inl ⟨rfl, by simp only [NsOp.id]; omega⟩) (by simp)
  | rUnlinkMetaB id =>
    simp only [enabled] at hen
    exact rinv_kindB s _ h (.unlink id .mj) 33 (by simp [okAppend, NsOp.id, hen]) rfl rfl rfl rfl
      (Or.inl ⟨rfl, by simp only [NsOp.id]; omega⟩) (by simp)
  | rRmdir id =>
    simp only [enabled] at hen
    exact rinv_kindB s _ h (.rmdir id) 34 (by simp [okAppend, NsOp.id, hen]) rfl rfl rfl rfl
      (Or.inl ⟨rfl, by simp only [NsOp.id]; omega⟩) (by simp)
  | flushNs =>
    simp only [enabled] at hen
    cases hp : s.pend with
    | nil => exact absurd hp hen
    | cons op rest =>
      refine rinv_kindD s _ h op rest hp ?_ ?_ ?_ ?_ ?_ <;> simp only [apply, hp]
  | flushMeta id => exact rinv_kindA s _ h rfl rfl rfl rfl (Or.inl rfl)
  | flushMetaTorn id => exact rinv_kindA s _ h rfl rfl rfl rfl (Or.inl rfl)
  | flushState id n => exact rinv_kindA s _ h rfl rfl rfl rfl (Or.inl rfl)

theorem rinv_init (r : Nat) : RInv { retain := r } := by
  refine ⟨List.nodup_nil, ?_, ?_, ?_⟩
  · intro i; simp
  · intro i hi; cases hi
  · intro v hv; simp at hv

theorem all_reachable (r : Nat) (s : Sys) (h : Reachable r s) : Inv s ∧ RInv s ∧ s.retain = r := by
  induction h with
  | init => exact ⟨inv_init r, rinv_init r, rfl⟩
  | step l _ hen ih =>
    refine ⟨inv_step _ l ih.1 hen, rinv_step _ l ih.2.1 ih.1 hen, ?_⟩
    rw [← ih.2.2]
    cases l <;> first | rfl | (simp only [apply]; split <;> rfl)

/-! ## C15 -/

/-- `getSnapshots` on the crash image keeps this directory -/
def listedB (s : Sys) (i : Nat) : Bool :=
  match s.dns i with
  | some d => d.final && d.hasMeta && (s.dmeta i).isFull
  | none => false

/-- `List()` on the crash image: newest first, cut at `retain` -/
def listD (s : Sys) : List Nat := (sortDesc (s.ids.filter (listedB s))).take s.retain

/-- `Open` on the crash image succeeds and returns exactly the bytes handed to the sink -/
def CompleteD (s : Sys) (id : Nat) : Prop :=
  ∃ d, s.dns id = some d ∧ d.hasMeta = true ∧ d.hasState = true ∧ s.dstate id = s.vstate id ∧
    s.dmeta id = .full (some (crc (s.dstate id)))

theorem complete_of_final (s : Sys) (inv : Inv s) (id : Nat) (d : Dir) (h1 : s.dns id = some d)
    (h2 : d.final = true) (hp : s.ph id = 12 ∨ s.ph id = 13) : CompleteD s id := by
  obtain ⟨_, b⟩ := inv.ns.good 0 id d (by simpa [nsAtOf] using h1) h2
  obtain ⟨c1, _, c3⟩ := inv.content id
  have e1 := c1 (by omega) (by omega)
  obtain ⟨e2, e3⟩ := c3 (by omega) (by omega)
  obtain ⟨m, st⟩ := b (by omega)
  exact ⟨d, h1, m, st, e1, by rw [e3, e2, e1]⟩

/-- **C15, main theorem.**  For a store with any `retain`, any number of sinks created, written,
    closed, cancelled or abandoned after any syscall, reaping interleaved anywhere after a parent
    sync, every writeback schedule and a crash at every instant: every snapshot that `List` returns
    on the crash image is complete — both files present, `state.bin` byte-identical to what was
    written, `meta.json` carrying its CRC.  (A half-reaped directory may still have a final name
    and a readable `meta.json`; it is never among the first `retain`.) -/
theorem list_implies_complete (r : Nat) (s : Sys) (h : Reachable r s) (x : Nat) (hx : x ∈ listD s) :
    CompleteD s x := by
  obtain ⟨inv, rinv, _⟩ := all_reachable r s h
  have hxS : x ∈ sortDesc (s.ids.filter (listedB s)) := List.mem_of_mem_take hx
  have hxl := (List.mem_filter.mp ((mem_sortDesc _ _).mp hxS)).2
  simp only [listedB] at hxl
  cases hd : s.dns x with
  | none => rw [hd] at hxl; cases hxl
  | some d =>
    rw [hd] at hxl
    simp only [Bool.and_eq_true] at hxl
    have hfin : d.final = true := hxl.1.1
    have hg := inv.ns.good 0 x d (by simpa [nsAtOf] using hd) hfin
    rcases hg.1 with e | e | e
    · exact complete_of_final s inv x d hd hfin (Or.inl e)
    · exact complete_of_final s inv x d hd hfin (Or.inr e)
    · -- doomed: at least `retain` complete snapshots are newer and listed, so it is past the cut
      exfalso
      have hc := rinv.cnt x e
      have hle : (s.ids.filter (fun y => decide (x < y) && nvB s y)).length ≤
          ((sortDesc (s.ids.filter (listedB s))).filter (fun y => decide (x < y))).length := by
        apply length_le_filter _ _ _ (rinv.nodup.filter _)
        intro y hy
        have hy' := List.mem_filter.mp hy
        simp only [Bool.and_eq_true] at hy'
        refine ⟨?_, hy'.2.1⟩
        rw [mem_sortDesc, List.mem_filter]
        refine ⟨hy'.1, ?_⟩
        have hnv := (nvB_true s y).mp hy'.2.2
        obtain ⟨⟨dy, dy1, dy2⟩, hph⟩ := hnv
        obtain ⟨dd, q1, q2, _, _, q5⟩ := complete_of_final s inv y dy dy1 dy2 hph
        rw [dy1] at q1; cases q1
        simp only [listedB, dy1, dy2, q2, q5, MetaC.isFull, Bool.and_self]
      have hlt := few_above_in_take _ (sortDesc_sorted _) s.retain x hx
      omega

/-- `List` is newest first and never longer than `retain` -/
theorem list_sorted_and_bounded (s : Sys) : (listD s).Pairwise (· ≥ ·) ∧ (listD s).length ≤ s.retain := by
  refine ⟨(sortDesc_sorted _).sublist (List.take_sublist _ _), ?_⟩
  simp [listD]; omega

/-- **Cancelled or interrupted ⇒ never listed** -/
theorem unfinished_never_listed (r : Nat) (s : Sys) (h : Reachable r s) (x : Nat)
    (hp : ¬ FinPh (s.ph x)) : x ∉ listD s := by
  intro hx
  obtain ⟨inv, _, _⟩ := all_reachable r s h
  have hxS : x ∈ sortDesc (s.ids.filter (listedB s)) := List.mem_of_mem_take hx
  have hxl := (List.mem_filter.mp ((mem_sortDesc _ _).mp hxS)).2
  simp only [listedB] at hxl
  cases hd : s.dns x with
  | none => rw [hd] at hxl; cases hxl
  | some d =>
    rw [hd] at hxl
    simp only [Bool.and_eq_true] at hxl
    exact hp (inv.ns.good 0 x d (by simpa [nsAtOf] using hd) hxl.1.1).1

/-- **Close returned nil ⇒ durable**: complete in every later crash image for as long as the
    snapshot is not chosen for reaping -/
theorem closed_is_durable (r : Nat) (s : Sys) (h : Reachable r s) (x : Nat) (hp : s.ph x = 13) :
    CompleteD s x ∧ listedB s x = true := by
  obtain ⟨inv, _, _⟩ := all_reachable r s h
  obtain ⟨⟨d, d1, d2⟩, _⟩ := inv.ns.done13 x hp
  have hc := complete_of_final s inv x d d1 d2 (Or.inr hp)
  refine ⟨hc, ?_⟩
  obtain ⟨dd, q1, q2, _, _, q5⟩ := hc
  rw [d1] at q1; cases q1
  simp only [listedB, d1, d2, q2, q5, MetaC.isFull, Bool.and_self]

/-- **Retention never removes the newest.**  Whatever `ReapSnapshots` has chosen to remove, at least
    `retain` snapshots newer than it are durable, complete and not chosen. -/
theorem reap_keeps_newest (r : Nat) (s : Sys) (h : Reachable r s) (v : Nat) (hv : 30 ≤ s.ph v) :
    r ≤ (s.ids.filter (fun y => decide (v < y) && nvB s y)).length := by
  obtain ⟨_, rinv, hr⟩ := all_reachable r s h
  rw [← hr]; exact rinv.cnt v hv

/-! ## the hypotheses are satisfiable -/

def run (r : Nat) (ls : List Label) : Sys := ls.foldl apply { retain := r }

def sink (i : Nat) (b : List Nat) : List Label :=
  [.mkdir i, .creatMeta1 i, .wmetaP1 i, .wmetaF1 i, .fsyncMeta1 i, .creatState i, .write i b,
   .fsyncState i, .creatMeta2 i, .wmetaP2 i, .wmetaF2 i, .fsyncMeta2 i, .rename i, .fsyncParent i]

/-- retain = 1: snapshots 1 and 2 are closed, the reaper dooms 1 and has removed its `state.bin`
    (durably) but not yet its `meta.json` when the machine dies: directory 1 is final-named with a
    readable `meta.json` and no state file — and `List` returns only 2 -/
def halfReaped : List Label :=
  sink 1 [7] ++ sink 2 [8, 9] ++ [.reapSelect, .rUnlinkStateA 1, .flushNs]

example : (run 1 halfReaped).ph 1 = 32 ∧ (run 1 halfReaped).dns 1 = some ⟨true, true, false⟩ ∧
    listedB (run 1 halfReaped) 1 = true ∧ listD (run 1 halfReaped) = [2] := by
  refine ⟨rfl, rfl, rfl, ?_⟩
  decide

end FSS
#print axioms FSS.list_implies_complete
#print axioms FSS.closed_is_durable
#print axioms FSS.unfinished_never_listed
#print axioms FSS.reap_keeps_newest
