/-! Probe for C19: `LogCache` refines the wrapped `LogStore`, for every backend that meets three
laws, every capacity, every operation sequence, with write failures injected anywhere.  Core Lean only. -/
namespace LC

structure Entry where
  index : Nat
  term : Nat
  payload : Nat
deriving DecidableEq, Repr

/-- What `LogCache` needs from the store it wraps.  `σ` is the backend's state, `get` is the
    observable result of `GetLog` (`none` = `ErrLogNotFound` or any other persistent error), every
    mutating call takes a fault token `f` the backend may use to fail.  Nothing is assumed about
    `DeleteRange`, `FirstIndex`, `LastIndex`. -/
structure Backend (σ : Type) where
  get : σ → Nat → Option Entry
  store : σ → List Entry → Nat → σ × Bool
  delete : σ → Nat → Nat → Nat → σ × Bool
  first : σ → Option Nat
  last : σ → Option Nat
  /-- a successful `StoreLogs` makes every written index read back the last entry written to it and
      leaves every other index alone -/
  store_ok : ∀ s ls f, (store s ls f).2 = true → ∀ i,
      get (store s ls f).1 i = match ls.reverse.find? (·.index = i) with
                               | some e => some e
                               | none => get s i
  /-- assumption (the suite's `errorStore`, `InmemStore`, BoltDB transactions): a failed `StoreLogs`
      is atomic -/
  store_fail : ∀ s ls f, (store s ls f).2 = false → ∀ i, get (store s ls f).1 i = get s i

/-- `LogCache`: the backend plus `cap` slots; slot `i % cap` may hold an entry -/
structure Cache (σ : Type) where
  st : σ
  slots : List (Option Entry)     -- length = capacity, never changes

inductive Op
  | getLog (i : Nat)
  | storeLogs (ls : List Entry) (f : Nat)
  | deleteRange (lo hi f : Nat)
  | firstIndex
  | lastIndex

inductive Res
  | entry (e : Option Entry)
  | ok (b : Bool)
  | idx (i : Option Nat)
deriving DecidableEq

variable {σ : Type}

/-- the wrapped store alone -/
def stepStore (B : Backend σ) (s : σ) : Op → σ × Res
  | .getLog i => (s, .entry (B.get s i))
  | .storeLogs ls f => let r := B.store s ls f; (r.1, .ok r.2)
  | .deleteRange lo hi f => let r := B.delete s lo hi f; (r.1, .ok r.2)
  | .firstIndex => (s, .idx (B.first s))
  | .lastIndex => (s, .idx (B.last s))

/-- `for _, l := range logs { c.cache[l.Index % len] = l }` -/
def fill (slots : List (Option Entry)) : List Entry → List (Option Entry)
  | [] => slots
  | l :: ls => fill (slots.set (l.index % slots.length) (some l)) ls

/-- log_cache.go, line by line -/
def stepCache (B : Backend σ) (c : Cache σ) : Op → Cache σ × Res
  | .getLog i =>
      match c.slots[i % c.slots.length]? with
      | some (some e) => if e.index = i then (c, .entry (some e)) else (c, .entry (B.get c.st i))
      | _ => (c, .entry (B.get c.st i))
  | .storeLogs ls f =>
      let r := B.store c.st ls f
      if r.2 then ({ st := r.1, slots := fill c.slots ls }, .ok true)
      else ({ c with st := r.1 }, .ok false)
  | .deleteRange lo hi f =>
      let r := B.delete c.st lo hi f
      ({ st := r.1, slots := List.replicate c.slots.length none }, .ok r.2)
  | .firstIndex => (c, .idx (B.first c.st))
  | .lastIndex => (c, .idx (B.last c.st))

/-- a slot holds only an entry that belongs there, and never lies about the backend -/
def Inv (B : Backend σ) (c : Cache σ) : Prop :=
  ∀ (k : Nat) (e : Entry), c.slots[k]? = some (some e) →
    k = e.index % c.slots.length ∧ B.get c.st e.index = some e

@[simp] theorem fill_length (slots : List (Option Entry)) (ls : List Entry) :
    (fill slots ls).length = slots.length := by
  induction ls generalizing slots with
  | nil => rfl
  | cons l ls ih => simp [fill, ih]

/-- after the fill loop a slot holds either what it held before — and then no written entry maps to
    that slot — or a written entry that is the *last* one written with its index -/
theorem fill_slot (slots : List (Option Entry)) (ls : List Entry) (k : Nat) (x : Option Entry)
    (h : (fill slots ls)[k]? = some x) :
    (slots[k]? = some x ∧ ∀ l ∈ ls, l.index % slots.length ≠ k) ∨
    (∃ e, x = some e ∧ k = e.index % slots.length ∧ ls.reverse.find? (·.index = e.index) = some e) := by
  induction ls generalizing slots with
  | nil => left; exact ⟨h, by simp⟩
  | cons l ls ih =>
    simp only [fill] at h
    rcases ih _ h with ⟨h1, h2⟩ | ⟨e, he, hke, hf⟩
    · simp only [List.length_set] at h2
      by_cases hk : l.index % slots.length = k
      · -- the slot was written by `l`, and nothing later touches it
        right
        have hlt : k < slots.length := by
          rcases Nat.lt_or_ge k slots.length with h' | h'
          · exact h'
          · rw [List.getElem?_eq_none (by simpa using h')] at h1; cases h1
        rw [hk, List.getElem?_set_self hlt] at h1
        refine ⟨l, (Option.some.inj h1).symm, hk.symm, ?_⟩
        rw [List.reverse_cons, List.find?_append]
        have : ls.reverse.find? (·.index = l.index) = none := by
          rw [List.find?_eq_none]
          intro y hy hyi
          have hyi' : y.index = l.index := by simpa using hyi
          exact h2 y (List.mem_reverse.mp hy) (by rw [hyi']; exact hk)
        simp [this]
      · left
        rw [List.getElem?_set_ne hk] at h1
        refine ⟨h1, ?_⟩
        intro y hy
        rcases List.mem_cons.mp hy with rfl | hy
        · exact hk
        · exact h2 y hy
    · right
      simp only [List.length_set] at hke
      refine ⟨e, he, hke, ?_⟩
      rw [List.reverse_cons, List.find?_append, hf]; rfl

theorem inv_step (B : Backend σ) (c : Cache σ) (op : Op) (h : Inv B c) : Inv B (stepCache B c op).1 := by
  cases op with
  | getLog i =>
    simp only [stepCache]
    split
    · split <;> exact h
    · exact h
  | storeLogs ls f =>
    simp only [stepCache]
    by_cases hr : (B.store c.st ls f).2 = true
    · simp only [hr, if_true]
      intro k e hk
      show k = e.index % (fill c.slots ls).length ∧ B.get (B.store c.st ls f).1 e.index = some e
      rw [B.store_ok _ _ _ hr, fill_length]
      rcases fill_slot c.slots ls k (some e) hk with ⟨h1, h2⟩ | ⟨e', he', hke, hf⟩
      · -- untouched slot: no written entry has this index (it would map to this slot)
        obtain ⟨hslot, hget⟩ := h k e h1
        have hnone : ls.reverse.find? (·.index = e.index) = none := by
          rw [List.find?_eq_none]
          intro y hy hyi
          have hyi' : y.index = e.index := by simpa using hyi
          exact h2 y (List.mem_reverse.mp hy) (by rw [hyi']; exact hslot.symm)
        rw [hnone]; exact ⟨hslot, hget⟩
      · cases he'; rw [hf]; exact ⟨hke, rfl⟩
    · have hr' : (B.store c.st ls f).2 = false := by simpa using hr
      simp only [hr', Bool.false_eq_true, if_false]
      intro k e hk
      show k = e.index % c.slots.length ∧ B.get (B.store c.st ls f).1 e.index = some e
      rw [B.store_fail _ _ _ hr']; exact h k e hk
  | deleteRange lo hi f =>
    simp only [stepCache]
    intro k e hk
    simp [List.getElem?_replicate] at hk
  | firstIndex => exact h
  | lastIndex => exact h

/-- both systems run on the same operation list -/
def runStore (B : Backend σ) (s : σ) : List Op → List Res
  | [] => []
  | op :: ops => (stepStore B s op).2 :: runStore B (stepStore B s op).1 ops

def runCache (B : Backend σ) (c : Cache σ) : List Op → List Res
  | [] => []
  | op :: ops => (stepCache B c op).2 :: runCache B (stepCache B c op).1 ops

/-- one step: same answer, same backend state afterwards -/
theorem step_refines (B : Backend σ) (c : Cache σ) (op : Op) (h : Inv B c) :
    (stepCache B c op).2 = (stepStore B c.st op).2 ∧ (stepCache B c op).1.st = (stepStore B c.st op).1 := by
  cases op with
  | getLog i =>
    simp only [stepCache, stepStore]
    split
    · rename_i e he
      split
      · rename_i hei
        obtain ⟨_, hget⟩ := h _ e he
        rw [hei] at hget
        exact ⟨by rw [hget], rfl⟩
      · exact ⟨rfl, rfl⟩
    · exact ⟨rfl, rfl⟩
  | storeLogs ls f =>
    simp only [stepCache, stepStore]
    by_cases hr : (B.store c.st ls f).2 = true
    · simp [hr]
    · have hr' : (B.store c.st ls f).2 = false := by simpa using hr
      simp [hr']
  | deleteRange lo hi f => exact ⟨rfl, rfl⟩
  | firstIndex => exact ⟨rfl, rfl⟩
  | lastIndex => exact ⟨rfl, rfl⟩

/-- **C19.**  Whatever the backend (any state type, any behaviour of `DeleteRange`, `FirstIndex`,
    `LastIndex`, any pattern of failed writes), whatever the capacity, whatever the operation
    sequence: a `LogCache` that starts empty over the backend answers every call exactly as the
    backend alone would. -/
theorem logcache_refines_store (B : Backend σ) (s : σ) (cap : Nat) (ops : List Op) :
    runCache B { st := s, slots := List.replicate cap none } ops = runStore B s ops := by
  suffices H : ∀ (c : Cache σ), Inv B c → runCache B c ops = runStore B c.st ops by
    apply H
    intro k e hk
    simp [List.getElem?_replicate] at hk
  induction ops with
  | nil => intro c _; rfl
  | cons op ops ih =>
    intro c hc
    obtain ⟨h1, h2⟩ := step_refines B c op hc
    simp only [runCache, runStore]
    rw [h1, ih _ (inv_step B c op hc), h2]

/-- the laws are satisfiable: the in-memory store (a finite map seen as a function), failing
    whenever the fault token is odd -/
def memBackend : Backend (Nat → Option Entry) where
  get s i := s i
  store s ls f := if f % 2 = 1 then (s, false)
                  else (fun i => match ls.reverse.find? (·.index = i) with
                                 | some e => some e
                                 | none => s i, true)
  delete s lo hi f := if f % 2 = 1 then (s, false)
                      else (fun i => if lo ≤ i ∧ i ≤ hi then none else s i, true)
  first _ := none
  last _ := none
  store_ok := by
    intro s ls f h i
    by_cases hf : f % 2 = 1
    · simp [hf] at h
    · simp [hf]
  store_fail := by
    intro s ls f h i
    by_cases hf : f % 2 = 1
    · simp [hf]
    · simp [hf] at h

/-- a run that exercises hit, miss, eviction (capacity 2, indexes 1 and 3 share a slot), rewrite
    after truncation and a failed write -/
example :
    runCache memBackend { st := fun _ => none, slots := List.replicate 2 none }
      [.storeLogs [⟨1, 1, 10⟩, ⟨2, 1, 20⟩] 0, .getLog 1, .storeLogs [⟨3, 1, 30⟩] 0, .getLog 1, .getLog 3,
       .deleteRange 2 3 0, .storeLogs [⟨2, 2, 21⟩] 1, .getLog 2, .storeLogs [⟨2, 2, 22⟩] 0, .getLog 2]
    = [.ok true, .entry (some ⟨1, 1, 10⟩), .ok true, .entry (some ⟨1, 1, 10⟩), .entry (some ⟨3, 1, 30⟩),
       .ok true, .ok false, .entry none, .ok true, .entry (some ⟨2, 2, 22⟩)] := by decide

end LC
#print axioms LC.logcache_refines_store
