import RaftVerif.Model.World
/-! One pass of the candidate loop with a *failing vote write* (raft.go: `electSelf`).

`SV.campaign` tags every write of a campaign with "the process dies" because the engines that step it
inject no store fault there, and its theorems are about fault-free campaigns.  This file gives the
same plan the failure results the code really has, so that a campaign can also be stepped with a
failing StableStore write: `setCurrentTerm` panics, but a failure of either write of `persistVote`
makes `electSelf` give up — the candidate has asked the voters listed before itself in the
configuration, does not count its own vote, never looks at an answer, and sits the term out until
the election timer fires. -/
namespace SV

/-- the voters `electSelf` has already asked when it reaches its own entry in the configuration -/
def askedBeforeSelf (v : Vol) : List Nat :=
  (((v.latest.takeWhile (fun s => s.id ≠ selfId)).filter (fun s => s.suffrage = .voter)).map (·.id)).mergeSort (· ≤ ·)

/-- the result of an election given up because the own vote could not be persisted -/
def campGaveUp (v : Vol) (preAsked : List Nat) : Res :=
  mkRes (campSaid v preAsked (askedBeforeSelf v)) (campDone { v with term := v.term + 1 })

def campBaseF (v : Vol) (preAsked : List Nat) : List (Write × Res) :=
  (.setTerm (v.term + 1), campDead v) ::
    (if hasVote v.latest selfId then
      [(.setVoteTerm (v.term + 1), campGaveUp v preAsked), (.setVoteCand selfAddr, campGaveUp v preAsked)]
     else [])

def campElectF (v : Vol) (rs : List PeerResp) (preAsked : List Nat) : Plan :=
  let t1 := v.term + 1
  let v1 : Vol := { v with term := t1 }
  match tally (quorumOf v.latest) t1 0 (campSelf v ++ voteAnswers t1 (campAsked v) rs) with
  | .won => ⟨campBaseF v preAsked, mkRes (campSaid v preAsked (campAsked v))
              (campDone { v1 with role := .leader, leader := selfAddr, leaderId := selfId })⟩
  | .higher t => ⟨campBaseF v preAsked ++ [(.setTerm t, campDead v1)], mkRes (campSaid v preAsked (campAsked v)) (campDone (stepDown v1 t))⟩
  | .open => ⟨campBaseF v preAsked, mkRes (campSaid v preAsked (campAsked v)) (campDone v1)⟩

/-- `campaign` with the failure results of the vote writes filled in -/
def campaignF (cf : Cfg) (v : Vol) (rs : List PeerResp) : Plan :=
  if cf.noPreVote ∨ v.transfer then campElectF v rs []
  else
    match tally (quorumOf v.latest) (v.term + 1) 0 (campSelf v ++ preVoteAnswers (v.term + 1) (campAsked v) rs) with
    | .won => campElectF v rs (campAsked v)
    | .higher t => ⟨[(.setTerm t, campDead v)], mkRes (campSaid v (campAsked v) []) (campDone (stepDown v t))⟩
    | .open => ⟨[], mkRes (campSaid v (campAsked v) []) (campDone v)⟩

theorem campBaseF_writes (v : Vol) (pre : List Nat) : (campBaseF v pre).map (·.1) = (campBase v).map (·.1) := by
  unfold campBaseF campBase; split <;> rfl

/-- filling in failure results changes neither the writes nor the fault-free outcome -/
theorem campElectF_same (v : Vol) (rs : List PeerResp) (pre : List Nat) :
    (campElectF v rs pre).writes = (campElect v rs pre).writes ∧ (campElectF v rs pre).final = (campElect v rs pre).final := by
  unfold campElectF campElect Plan.writes
  simp only []
  cases tally (quorumOf v.latest) (v.term + 1) 0 (campSelf v ++ voteAnswers (v.term + 1) (campAsked v) rs) <;>
    simp [campBaseF_writes]

theorem campaignF_same (cf : Cfg) (v : Vol) (rs : List PeerResp) :
    (campaignF cf v rs).writes = (campaign cf v rs).writes ∧ (campaignF cf v rs).final = (campaign cf v rs).final := by
  unfold campaignF campaign
  split
  · exact campElectF_same v rs []
  · cases tally (quorumOf v.latest) (v.term + 1) 0 (campSelf v ++ preVoteAnswers (v.term + 1) (campAsked v) rs) with
    | won => exact campElectF_same v rs _
    | higher t => exact ⟨rfl, rfl⟩
    | «open» => exact ⟨rfl, rfl⟩

/-- the step at ordinal 1 or 2 of an election, if it is a vote write, fails with "gave up" -/
theorem campElectF_vote_step (v : Vol) (rs : List PeerResp) (pre : List Nat) (k : Nat) (hk : k = 1 ∨ k = 2) (s : Write × Res)
    (hs : (campElectF v rs pre).steps[k]? = some s)
    (hkind : s.1 = .setVoteTerm (v.term + 1) ∨ s.1 = .setVoteCand selfAddr) : s.2 = campGaveUp v pre := by
  unfold campElectF campBaseF at hs
  simp only [] at hs
  by_cases hv : hasVote v.latest selfId = true
  · simp only [hv, if_true] at hs
    split at hs <;> rcases hk with rfl | rfl <;> simp at hs <;> rw [← hs]
  · simp only [hv] at hs
    split at hs <;> rcases hk with rfl | rfl <;> simp at hs
    all_goals (rw [← hs] at hkind; simp at hkind)

/-- **C01 / C06.**  A candidate whose vote for itself could not be persisted does not become leader
    in that pass: whichever of the two vote writes fails, the pass ends with the server still a
    candidate (and whatever the other voters answered is never counted). -/
theorem campaign_vote_fault_no_leader (cf : Cfg) (v : Vol) (rs : List PeerResp) (k : Nat)
    (hrole : v.role = .candidate) (hk : k = 1 ∨ k = 2)
    (hw : ∃ s, (campaignF cf v rs).steps[k]? = some s ∧ (s.1 = .setVoteTerm (v.term + 1) ∨ s.1 = .setVoteCand selfAddr)) :
    (exec (campaignF cf v rs) (some k) none).1.vol.role = .candidate ∧ (exec (campaignF cf v rs) (some k) none).1.panic = false := by
  obtain ⟨s, hs, hkind⟩ := hw
  have hfail : s.1.failable = true := by rcases hkind with h | h <;> rw [h] <;> rfl
  have hex : exec (campaignF cf v rs) (some k) none = (s.2, (campaignF cf v rs).writes.take k) := by
    unfold exec
    simp [hs, hfail]
  rw [hex]
  have hres : ∃ pre, s.2 = campGaveUp v pre := by
    unfold campaignF at hs
    split at hs
    · exact ⟨_, campElectF_vote_step v rs _ k hk s hs hkind⟩
    · split at hs
      · exact ⟨_, campElectF_vote_step v rs _ k hk s hs hkind⟩
      · rcases hk with rfl | rfl <;> simp at hs
      · rcases hk with rfl | rfl <;> simp at hs
  obtain ⟨pre, hp⟩ := hres
  rw [hp]
  exact ⟨by simp [campGaveUp, mkRes, campDone, hrole], rfl⟩

end SV
