/-! `restoreUserSnapshot` (raft.go:1105-1200) and the dispatch that follows it, reduced to what C20
speaks about: the index the restored snapshot is given, what happens to the futures in flight, and
the indexes later entries receive.  Core Lean only. -/
namespace UR

inductive Out | aborted | ok
deriving DecidableEq, Repr

structure Leader where
  lastIdx : Nat                -- max(last log index, last snapshot index)
  snapIdx : Nat
  applied : Nat
  latestCfgIdx : Nat
  committedCfgIdx : Nat
  transfer : Bool              -- leadership transfer in progress
  inflight : List Nat
  resolved : List (Nat × Out)
deriving Repr

/-- the index burned for the restored snapshot: one past both the snapshot's own index and
    everything this leader has -/
def burned (metaIdx lastIdx : Nat) : Nat := max metaIdx lastIdx + 1

/-- `Restore` as the leader loop serves it: refused while a configuration change is uncommitted or
    a leadership transfer is in progress -/
def restore (s : Leader) (metaIdx : Nat) : Option Leader :=
  if s.transfer then none
  else if s.committedCfgIdx ≠ s.latestCfgIdx then none
  else
    let b := burned metaIdx s.lastIdx
    some { s with lastIdx := b, snapIdx := b, applied := b, inflight := [],
                  resolved := s.resolved ++ s.inflight.map (fun f => (f, .aborted)) }

/-- `dispatchLogs` for one new entry -/
def dispatch (s : Leader) (f : Nat) : Leader × Nat :=
  ({ s with lastIdx := s.lastIdx + 1, inflight := s.inflight ++ [f] }, s.lastIdx + 1)

theorem restore_burns_index (metaIdx lastIdx : Nat) : metaIdx < burned metaIdx lastIdx ∧ lastIdx < burned metaIdx lastIdx := by
  unfold burned; omega

/-- **C20 (leader side).**  A restore that is accepted: the snapshot gets an index above both its own
    index and every earlier index; every call in flight is answered ErrAbortedByRestore and nothing
    stays in flight; and every later entry gets a still larger index. -/
theorem restore_effects (s s' : Leader) (metaIdx : Nat) (h : restore s metaIdx = some s') :
    metaIdx < s'.snapIdx ∧ s.lastIdx < s'.snapIdx ∧ s'.applied = s'.snapIdx ∧ s'.inflight = [] ∧
    (∀ f ∈ s.inflight, (f, Out.aborted) ∈ s'.resolved) ∧
    (∀ f, s'.snapIdx < (dispatch s' f).2) := by
  unfold restore at h
  split at h; · cases h
  split at h; · cases h
  cases h
  have hb := restore_burns_index metaIdx s.lastIdx
  refine ⟨hb.1, hb.2, rfl, rfl, ?_, ?_⟩
  · intro f hf
    simp only [List.mem_append, List.mem_map]
    right; exact ⟨f, hf, rfl⟩
  · intro f; simp [dispatch]

/-- refused while a membership change is uncommitted or a transfer is in progress — without effect -/
theorem restore_refused_when_unstable (s : Leader) (metaIdx : Nat)
    (h : s.transfer = true ∨ s.committedCfgIdx ≠ s.latestCfgIdx) : restore s metaIdx = none := by
  unfold restore
  rcases h with h | h
  · simp [h]
  · by_cases ht : s.transfer <;> simp [ht, h]

/-- non-vacuity -/
example : (restore ⟨7, 3, 7, 1, 1, false, [41, 42], []⟩ 5).map (fun s => (s.snapIdx, s.resolved)) =
    some (8, [(41, .aborted), (42, .aborted)]) := by decide

end UR
