/-! Probe for C13: the leader-lease check as a timed state machine (raft.go:935-948, 1037-1082).
Integer time (any unit); `minCheck` is `minCheckInterval` (10 ms).  Core only. -/
namespace LS

structure St where
  now : Nat
  lastContact : List (Nat × Nat)   -- other voters: (id, time of last successful response)
  timerAt : Nat                    -- deadline of the pending lease timer
  leader : Bool
deriving Repr

structure Cfg where
  lease : Nat
  minCheck : Nat
  quorum : Nat                     -- quorumSize() of the current voters (self included)

/-- voters (other than self) whose last contact is within the lease -/
def contacted (c : Cfg) (s : St) : List (Nat × Nat) := s.lastContact.filter (fun p => s.now - p.2 ≤ c.lease)

def maxDiff (now : Nat) : List (Nat × Nat) → Nat
  | [] => 0
  | p :: ps => max (now - p.2) (maxDiff now ps)

/-- `checkLeaderLease` + re-arming the timer -/
def check (c : Cfg) (s : St) : St :=
  let ct := contacted c s
  let md := maxDiff s.now ct
  { s with leader := decide (c.quorum ≤ ct.length + 1),
           timerAt := s.now + max (c.lease - md) c.minCheck }

inductive Label
  | tick (d : Nat)              -- time passes, never beyond the pending timer (prompt main loop)
  | contact (id : Nat)          -- a response from `id` arrives now
  | fire                        -- the lease timer fires

def setContact (l : List (Nat × Nat)) (id t : Nat) : List (Nat × Nat) :=
  l.map (fun p => if p.1 = id then (id, t) else p)

def enabled (s : St) (responsive : Nat → Bool) : Label → Prop
  | .tick d => s.leader = true ∧ s.now + d ≤ s.timerAt
  | .contact id => s.leader = true ∧ responsive id = true
  | .fire => s.leader = true ∧ s.now = s.timerAt

def apply (c : Cfg) (s : St) : Label → St
  | .tick d => { s with now := s.now + d }
  | .contact id => { s with lastContact := setContact s.lastContact id s.now }
  | .fire => check c s

inductive Reach (c : Cfg) (resp : Nat → Bool) (s0 : St) : St → Prop
  | init : Reach c resp s0 s0
  | step {s} (l : Label) : Reach c resp s0 s → enabled s resp l → Reach c resp s0 (apply c s l)

theorem maxDiff_nonneg (now : Nat) (l : List (Nat × Nat)) : 0 ≤ maxDiff now l := Nat.zero_le _

/-- the unresponsive voters' contact times never move, the clock never goes back -/
structure Inv (c : Cfg) (resp : Nat → Bool) (t0 : Nat) (s : St) : Prop where
  old : ∀ p ∈ s.lastContact, resp p.1 = false → p.2 ≤ t0
  timer : s.leader = true → s.now ≤ s.timerAt ∧ s.timerAt ≤ t0 + 2 * c.lease
  clock : t0 ≤ s.now

theorem filter_responsive_bound (lease now t0 : Nat) (resp : Nat → Bool) (l : List (Nat × Nat))
    (hold : ∀ p ∈ l, resp p.1 = false → p.2 ≤ t0) (hlate : t0 + lease < now) :
    (l.filter (fun p => now - p.2 ≤ lease)).length ≤ (l.filter (fun p => resp p.1)).length := by
  induction l with
  | nil => simp
  | cons p ps ih =>
    have ihp := ih (fun q hq => hold q (List.mem_cons_of_mem _ hq))
    simp only [List.filter_cons]
    by_cases hr : resp p.1 = true
    · simp only [hr, if_true]
      split
      · simp only [List.length_cons]; omega
      · simp only [List.length_cons]; omega
    · have hr' : resp p.1 = false := by simpa using hr
      have := hold p List.mem_cons_self hr'
      have hno : ¬ (now - p.2 ≤ lease) := by omega
      simp only [hno, decide_false, hr', Bool.false_eq_true, if_false]
      exact ihp

theorem setContact_mem (l : List (Nat × Nat)) (id t : Nat) (p : Nat × Nat) (h : p ∈ setContact l id t) :
    p ∈ l ∨ p = (id, t) := by
  unfold setContact at h
  obtain ⟨q, hq, e⟩ := List.mem_map.mp h
  split at e
  · right; exact e.symm
  · left; rw [← e]; exact hq

theorem setContact_filter_len (l : List (Nat × Nat)) (id t : Nat) (f : Nat → Bool) :
    ((setContact l id t).filter (fun p => f p.1)).length = (l.filter (fun p => f p.1)).length := by
  unfold setContact
  induction l with
  | nil => rfl
  | cons p ps ih =>
    simp only [List.map_cons, List.filter_cons]
    by_cases e : p.1 = id
    · simp only [e, if_true]
      split <;> simp only [List.length_cons, ih]
    · simp only [e, if_false]
      split <;> simp only [List.length_cons, ih]

/-- **An isolated leader steps down within two lease periods.**  From instant `t0` on, only the
    voters in `resp` still answer, and they are too few: `|resp| + 1 < quorum`.  At `t0` the leader's
    pending lease timer is due within one lease (it was armed by a check no later than `t0`).  Then
    for `lease ≥ minCheck`, whatever the arrival pattern of the remaining answers, the server is no
    longer leader at any instant after `t0 + 2·lease`. -/
theorem isolated_leader_steps_down (c : Cfg) (resp : Nat → Bool) (s0 s : St)
    (hlease : c.minCheck ≤ c.lease)
    (hfew : (s0.lastContact.filter (fun p => resp p.1)).length + 1 < c.quorum)
    (hold0 : ∀ p ∈ s0.lastContact, resp p.1 = false → p.2 ≤ s0.now)
    (htimer0 : s0.now ≤ s0.timerAt ∧ s0.timerAt ≤ s0.now + c.lease)
    (h : Reach c resp s0 s) :
    s.leader = true → s.now ≤ s0.now + 2 * c.lease := by
  have key : Inv c resp s0.now s ∧
      (s.lastContact.filter (fun p => resp p.1)).length = (s0.lastContact.filter (fun p => resp p.1)).length := by
    induction h with
    | init => exact ⟨⟨hold0, fun _ => ⟨htimer0.1, by omega⟩, Nat.le_refl _⟩, rfl⟩
    | step l _ hen ih =>
      rename_i s' _
      obtain ⟨⟨i1, i2, i3⟩, ilen⟩ := ih
      cases l with
      | tick d =>
        simp only [enabled] at hen
        refine ⟨⟨i1, ?_, ?_⟩, ilen⟩
        · intro hl; simp only [apply] at hl ⊢; have := i2 hl; omega
        · simp only [apply]; omega
      | contact id =>
        simp only [enabled] at hen
        refine ⟨⟨?_, i2, i3⟩, ?_⟩
        · intro p hp hr
          simp only [apply] at hp
          rcases setContact_mem _ _ _ _ hp with hp | hp
          · exact i1 p hp hr
          · subst hp; simp only [] at hr; rw [hen.2] at hr; cases hr
        · simp only [apply]; rw [setContact_filter_len]; exact ilen
      | fire =>
        simp only [enabled] at hen
        obtain ⟨hl, hnow⟩ := hen
        obtain ⟨t1, t2⟩ := i2 hl
        refine ⟨⟨i1, ?_, i3⟩, ilen⟩
        intro hl'
        simp only [apply, check] at hl' ⊢
        -- had the check run later than t0 + lease it would have deposed the leader
        by_cases hlate : s0.now + c.lease < s'.now
        · have hb := filter_responsive_bound c.lease s'.now s0.now resp s'.lastContact i1 hlate
          unfold contacted at hl'
          have hq := of_decide_eq_true hl'
          rw [ilen] at hb
          omega
        · refine ⟨by omega, ?_⟩
          have : max (c.lease - maxDiff s'.now (contacted c s')) c.minCheck ≤ c.lease := by
            apply Nat.max_le.mpr; exact ⟨Nat.sub_le _ _, hlease⟩
          omega
  intro hl
  obtain ⟨a, b⟩ := key.1.timer hl
  omega

/-- **A responsive majority is never deposed by the lease check.** -/
theorem responsive_majority_keeps_leader (c : Cfg) (s : St)
    (h : c.quorum ≤ (contacted c s).length + 1) : (check c s).leader = true := by
  simp [check, h]

/-- the corner the validation allows: for `lease < minCheck` the interval is `minCheck`, not `lease` -/
example : (check ⟨5, 10, 2⟩ ⟨100, [(1, 100)], 100, true⟩).timerAt = 110 := by decide

end LS
#print axioms LS.isolated_leader_steps_down
