/-! Probe for C11 (arithmetic half): `compactLogsWithTrailing` (snapshot.go:217-249).  Core only. -/
namespace CP

/-- the `DeleteRange(minLog, maxLog)` the function issues, if any -/
def compactRange (snapIdx lastLogIdx trailing first : Nat) : Option (Nat × Nat) :=
  if lastLogIdx ≤ trailing then none
  else
    let maxLog := min snapIdx (lastLogIdx - trailing)
    if first > maxLog then none else some (first, maxLog)

/-- **Compaction never passes the snapshot and keeps the trailing entries.**  Whatever the four
    inputs: the deleted range starts at the store's first index, ends at or below the snapshot index,
    and leaves at least `trailing` entries below-or-at `lastLogIdx`. -/
theorem compactRange_spec (snap last trailing first lo hi : Nat)
    (h : compactRange snap last trailing first = some (lo, hi)) :
    lo = first ∧ lo ≤ hi ∧ hi ≤ snap ∧ trailing ≤ last - hi ∧ hi ≤ last := by
  unfold compactRange at h
  split at h
  · cases h
  · simp only [] at h
    split at h
    · cases h
    · cases h
      refine ⟨rfl, by omega, Nat.min_le_left _ _, ?_, ?_⟩ <;> omega

/-- and it is not lazy: it deletes everything those two bounds allow -/
theorem compactRange_maximal (snap last trailing first : Nat) (k : Nat)
    (hk : first ≤ k) (hs : k ≤ snap) (hl : trailing < last) (ht : k + trailing ≤ last) :
    ∃ hi, compactRange snap last trailing first = some (first, hi) ∧ k ≤ hi := by
  unfold compactRange
  have : ¬ last ≤ trailing := by omega
  simp only [this, if_false]
  have h2 : ¬ first > min snap (last - trailing) := by
    have : k ≤ min snap (last - trailing) := by
      apply Nat.le_min.mpr; exact ⟨hs, by omega⟩
    omega
  simp only [h2, if_false]
  exact ⟨_, rfl, by apply Nat.le_min.mpr; exact ⟨hs, by omega⟩⟩

/-- `removeOldLogs` = `compactLogsWithTrailing(last, last, 0)`: the whole store goes -/
theorem removeOldLogs_all (last first : Nat) (h1 : first ≤ last) (h0 : 0 < last) :
    compactRange last last 0 first = some (first, last) := by
  unfold compactRange
  have : ¬ last ≤ 0 := by omega
  simp [this]; omega

example : compactRange 100 120 10 1 = some (1, 100) := by decide     -- bounded by the snapshot
example : compactRange 100 105 10 1 = some (1, 95) := by decide      -- bounded by the trailing window
example : compactRange 100 8 10 1 = none := by decide                -- too few entries
example : compactRange 100 120 10 101 = none := by decide            -- already compacted

end CP
#print axioms CP.compactRange_spec
