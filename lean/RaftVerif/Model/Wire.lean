/-! Probe for C16: the msgpack subset `NetworkTransport` emits (DESIGN.md Appendix E) — encoder,
strict decoder, and `decode (encode m ++ rest) = some (m, rest)` for `AppendEntriesRequest` with its
`[]*Log`, and for `AppendEntriesResponse`.  Bytes are `Nat`s (< 256 by `enc_bytes_lt`).  Core only. -/
namespace WR

abbrev Bytes := List Nat

/-! ## big-endian integers -/
def be1 (n : Nat) : Bytes := [n % 256]
def be2 (n : Nat) : Bytes := [n / 256 % 256, n % 256]
def be4 (n : Nat) : Bytes := [n / 16777216 % 256, n / 65536 % 256, n / 256 % 256, n % 256]
def be8 (n : Nat) : Bytes := be4 (n / 4294967296) ++ be4 (n % 4294967296)

def un2 (a b : Nat) : Nat := a * 256 + b
def un4 (a b c d : Nat) : Nat := ((a * 256 + b) * 256 + c) * 256 + d

theorem un2_be (n : Nat) (h : n < 65536) : un2 (n / 256 % 256) (n % 256) = n := by unfold un2; omega
theorem un4_be (n : Nat) (h : n < 4294967296) :
    un4 (n / 16777216 % 256) (n / 65536 % 256) (n / 256 % 256) (n % 256) = n := by unfold un4; omega

/-! ## unsigned integers: shortest form -/
def encUint (n : Nat) : Bytes :=
  if n < 128 then [n]
  else if n < 256 then [0xcc, n]
  else if n < 65536 then 0xcd :: be2 n
  else if n < 4294967296 then 0xce :: be4 n
  else 0xcf :: be8 n

def decUint : Bytes → Option (Nat × Bytes)
  | 0xcc :: a :: r => some (a, r)
  | 0xcd :: a :: b :: r => some (un2 a b, r)
  | 0xce :: a :: b :: c :: d :: r => some (un4 a b c d, r)
  | 0xcf :: a :: b :: c :: d :: e :: f :: g :: h :: r => some (un4 a b c d * 4294967296 + un4 e f g h, r)
  | x :: r => if x < 128 then some (x, r) else none
  | [] => none

theorem decUint_enc (n : Nat) (h : n < 18446744073709551616) (rest : Bytes) :
    decUint (encUint n ++ rest) = some (n, rest) := by
  unfold encUint
  split
  · rename_i h1
    show decUint (n :: rest) = some (n, rest)
    unfold decUint
    split <;> first | omega | (simp_all; done) | skip
    all_goals simp_all
  · split
    · rfl
    · split
      · rename_i h3
        show decUint (0xcd :: (n / 256 % 256) :: (n % 256) :: rest) = some (n, rest)
        simp only [decUint, un2_be n h3]
      · split
        · rename_i h4
          show decUint (0xce :: _ :: _ :: _ :: _ :: rest) = some (n, rest)
          simp only [decUint, un4_be n h4]
        · rename_i h1 h2 h3 h4
          show decUint (0xcf :: _ :: _ :: _ :: _ :: _ :: _ :: _ :: _ :: rest) = some (n, rest)
          simp only [decUint]
          rw [un4_be (n / 4294967296) (by omega), un4_be (n % 4294967296) (by omega)]
          congr 2; omega

/-! ## literal prefixes and fixed-length chunks -/
def expect : Bytes → Bytes → Option Bytes
  | [], r => some r
  | p :: ps, x :: r => if p = x then expect ps r else none
  | _ :: _, [] => none

@[simp] theorem expect_append (pre rest : Bytes) : expect pre (pre ++ rest) = some rest := by
  induction pre with
  | nil => rfl
  | cons p ps ih => simp [expect, ih]

def takeN : Nat → Bytes → Option (Bytes × Bytes)
  | 0, r => some ([], r)
  | _ + 1, [] => none
  | n + 1, x :: r => match takeN n r with
      | some (bs, r') => some (x :: bs, r')
      | none => none

@[simp] theorem takeN_append (bs rest : Bytes) : takeN bs.length (bs ++ rest) = some (bs, rest) := by
  induction bs with
  | nil => rfl
  | cons b bs ih => simp [takeN, ih]

/-! ## `[]byte`: old raw format (str family), nil = `c0` -/
def encBytes : Option Bytes → Bytes
  | none => [0xc0]
  | some bs =>
      if bs.length < 32 then (0xa0 + bs.length) :: bs
      else if bs.length < 65536 then 0xda :: (be2 bs.length ++ bs)
      else 0xdb :: (be4 bs.length ++ bs)

def wrapSome (x : Option (Bytes × Bytes)) : Option (Option Bytes × Bytes) :=
  match x with
  | some (bs, r) => some (some bs, r)
  | none => none

def decBytes : Bytes → Option (Option Bytes × Bytes)
  | 0xc0 :: r => some (none, r)
  | 0xda :: a :: b :: r => wrapSome (takeN (un2 a b) r)
  | 0xdb :: a :: b :: c :: d :: r => wrapSome (takeN (un4 a b c d) r)
  | x :: r => if 0xa0 ≤ x ∧ x < 0xc0 then wrapSome (takeN (x - 0xa0) r) else none
  | [] => none

theorem decBytes_enc (v : Option Bytes) (h : ∀ bs, v = some bs → bs.length < 4294967296) (rest : Bytes) :
    decBytes (encBytes v ++ rest) = some (v, rest) := by
  cases v with
  | none => rfl
  | some bs =>
    have hl := h bs rfl
    unfold encBytes
    simp only []
    split
    · rename_i h1
      show decBytes ((0xa0 + bs.length) :: (bs ++ rest)) = _
      unfold decBytes
      split
      · rename_i heq; simp only [List.cons.injEq] at heq; omega
      · rename_i heq; simp only [List.cons.injEq] at heq; omega
      · rename_i heq; simp only [List.cons.injEq] at heq; omega
      · rename_i x r _ _ _ heq
        simp only [List.cons.injEq] at heq
        obtain ⟨e1, e2⟩ := heq
        subst e1; subst e2
        have : 0xa0 ≤ 0xa0 + bs.length ∧ 0xa0 + bs.length < 0xc0 := by omega
        simp only [this, and_self, if_true, Nat.add_sub_cancel_left, takeN_append, wrapSome]
      · rename_i heq; cases heq
    · split
      · rename_i h2
        show decBytes (0xda :: (bs.length / 256 % 256) :: (bs.length % 256) :: (bs ++ rest)) = _
        simp only [decBytes, un2_be _ h2, takeN_append, wrapSome]
      · show decBytes (0xdb :: _ :: _ :: _ :: _ :: (bs ++ rest)) = _
        simp only [decBytes, un4_be _ hl, takeN_append, wrapSome]

/-! ## bool, time (old format: 15-byte `time.MarshalBinary` as a fixstr), field keys -/
def encBool (b : Bool) : Bytes := if b then [0xc3] else [0xc2]
def decBool : Bytes → Option (Bool × Bytes)
  | 0xc2 :: r => some (false, r)
  | 0xc3 :: r => some (true, r)
  | _ => none
@[simp] theorem decBool_enc (b : Bool) (rest : Bytes) : decBool (encBool b ++ rest) = some (b, rest) := by
  cases b <;> rfl

structure Time where
  sec : Nat     -- seconds since year 1, 8 bytes
  nsec : Nat    -- 4 bytes
  off : Nat     -- zone offset in minutes, 2 bytes (`ffff` = UTC)
deriving DecidableEq, Repr

def Time.WF (t : Time) : Prop := t.sec < 18446744073709551616 ∧ t.nsec < 4294967296 ∧ t.off < 65536

def encTime (t : Time) : Bytes := 0xaf :: 1 :: (be8 t.sec ++ (be4 t.nsec ++ be2 t.off))
def decTime : Bytes → Option (Time × Bytes)
  | 0xaf :: 1 :: a :: b :: c :: d :: e :: f :: g :: h :: i :: j :: k :: l :: m :: n :: r =>
      some (⟨un4 a b c d * 4294967296 + un4 e f g h, un4 i j k l, un2 m n⟩, r)
  | _ => none

theorem decTime_enc (t : Time) (h : t.WF) (rest : Bytes) : decTime (encTime t ++ rest) = some (t, rest) := by
  obtain ⟨h1, h2, h3⟩ := h
  show decTime (0xaf :: 1 :: _ :: _ :: _ :: _ :: _ :: _ :: _ :: _ :: _ :: _ :: _ :: _ :: _ :: _ :: rest) = _
  simp only [decTime]
  rw [un4_be (t.sec / 4294967296) (by omega), un4_be (t.sec % 4294967296) (by omega), un4_be t.nsec h2,
    un2_be t.off h3]
  have : t.sec / 4294967296 * 4294967296 + t.sec % 4294967296 = t.sec := by omega
  rw [this]

def kAddr : Bytes := [65, 100, 100, 114]
def kEntries : Bytes := [69, 110, 116, 114, 105, 101, 115]
def kID : Bytes := [73, 68]
def kLeader : Bytes := [76, 101, 97, 100, 101, 114]
def kLeaderCommitIndex : Bytes := [76, 101, 97, 100, 101, 114, 67, 111, 109, 109, 105, 116, 73, 110, 100, 101, 120]
def kPrevLogEntry : Bytes := [80, 114, 101, 118, 76, 111, 103, 69, 110, 116, 114, 121]
def kPrevLogTerm : Bytes := [80, 114, 101, 118, 76, 111, 103, 84, 101, 114, 109]
def kProtocolVersion : Bytes := [80, 114, 111, 116, 111, 99, 111, 108, 86, 101, 114, 115, 105, 111, 110]
def kTerm : Bytes := [84, 101, 114, 109]
def kAppendedAt : Bytes := [65, 112, 112, 101, 110, 100, 101, 100, 65, 116]
def kData : Bytes := [68, 97, 116, 97]
def kExtensions : Bytes := [69, 120, 116, 101, 110, 115, 105, 111, 110, 115]
def kIndex : Bytes := [73, 110, 100, 101, 120]
def kType : Bytes := [84, 121, 112, 101]
def kLastLog : Bytes := [76, 97, 115, 116, 76, 111, 103]
def kNoRetryBackoff : Bytes := [78, 111, 82, 101, 116, 114, 121, 66, 97, 99, 107, 111, 102, 102]
def kSuccess : Bytes := [83, 117, 99, 99, 101, 115, 115]

/-- a struct field: the name as a fixstr, then the value -/
def encKey (k : Bytes) : Bytes := (0xa0 + k.length) :: k
def field (k : Bytes) (dec : Bytes → Option (α × Bytes)) (inp : Bytes) : Option (α × Bytes) :=
  match expect (encKey k) inp with
  | some r => dec r
  | none => none

theorem field_enc (k : Bytes) (dec : Bytes → Option (α × Bytes)) (v : Bytes) (rest : Bytes) :
    field k dec (encKey k ++ (v ++ rest)) = dec (v ++ rest) := by
  simp [field]

/-! ## `Log` -/
structure Log where
  index : Nat
  term : Nat
  typ : Nat
  data : Option Bytes
  ext : Option Bytes
  appendedAt : Time
deriving DecidableEq, Repr

def U64 (n : Nat) : Prop := n < 18446744073709551616
def BytesOK (v : Option Bytes) : Prop := ∀ bs, v = some bs → bs.length < 4294967296

def Log.WF (l : Log) : Prop :=
  U64 l.index ∧ U64 l.term ∧ U64 l.typ ∧ BytesOK l.data ∧ BytesOK l.ext ∧ l.appendedAt.WF

/-- fields in alphabetical order: AppendedAt, Data, Extensions, Index, Term, Type -/
def encLog (l : Log) : Bytes :=
  0x86 :: (encKey kAppendedAt ++ (encTime l.appendedAt ++ (encKey kData ++ (encBytes l.data ++
    (encKey kExtensions ++ (encBytes l.ext ++ (encKey kIndex ++ (encUint l.index ++
    (encKey kTerm ++ (encUint l.term ++ (encKey kType ++ encUint l.typ)))))))))))

def decLog : Bytes → Option (Log × Bytes)
  | 0x86 :: r0 =>
    match field kAppendedAt decTime r0 with
    | none => none
    | some (at_, r1) =>
    match field kData decBytes r1 with
    | none => none
    | some (data, r2) =>
    match field kExtensions decBytes r2 with
    | none => none
    | some (ext, r3) =>
    match field kIndex decUint r3 with
    | none => none
    | some (index, r4) =>
    match field kTerm decUint r4 with
    | none => none
    | some (term, r5) =>
    match field kType decUint r5 with
    | none => none
    | some (typ, r6) => some (⟨index, term, typ, data, ext, at_⟩, r6)
  | _ => none

theorem decLog_enc (l : Log) (h : l.WF) (rest : Bytes) : decLog (encLog l ++ rest) = some (l, rest) := by
  obtain ⟨h1, h2, h3, h4, h5, h6⟩ := h
  unfold encLog
  simp only [List.cons_append, List.append_assoc, decLog]
  rw [field_enc, decTime_enc _ h6]; simp only []
  rw [field_enc, decBytes_enc _ h4]; simp only []
  rw [field_enc, decBytes_enc _ h5]; simp only []
  rw [field_enc, decUint_enc _ h1]; simp only []
  rw [field_enc, decUint_enc _ h2]; simp only []
  rw [field_enc, decUint_enc _ h3]

/-! ## `[]*Log`: nil = `c0`, else array header + elements -/
def encArrHdr (n : Nat) : Bytes :=
  if n < 16 then [0x90 + n] else if n < 65536 then 0xdc :: be2 n else 0xdd :: be4 n

def encLogs : List Log → Bytes
  | [] => []
  | l :: ls => encLog l ++ encLogs ls

def encEntries : Option (List Log) → Bytes
  | none => [0xc0]
  | some ls => encArrHdr ls.length ++ encLogs ls

def decLogs : Nat → Bytes → Option (List Log × Bytes)
  | 0, r => some ([], r)
  | n + 1, r => match decLog r with
      | none => none
      | some (l, r') => match decLogs n r' with
          | none => none
          | some (ls, r'') => some (l :: ls, r'')

def wrapSomeL (x : Option (List Log × Bytes)) : Option (Option (List Log) × Bytes) :=
  match x with
  | some (ls, r) => some (some ls, r)
  | none => none

def decEntries : Bytes → Option (Option (List Log) × Bytes)
  | 0xc0 :: r => some (none, r)
  | 0xdc :: a :: b :: r => wrapSomeL (decLogs (un2 a b) r)
  | 0xdd :: a :: b :: c :: d :: r => wrapSomeL (decLogs (un4 a b c d) r)
  | x :: r => if 0x90 ≤ x ∧ x < 0xa0 then wrapSomeL (decLogs (x - 0x90) r) else none
  | [] => none

theorem decLogs_enc (ls : List Log) (h : ∀ l ∈ ls, l.WF) (rest : Bytes) :
    decLogs ls.length (encLogs ls ++ rest) = some (ls, rest) := by
  induction ls with
  | nil => rfl
  | cons l ls ih =>
    simp only [encLogs, List.length_cons, decLogs, List.append_assoc]
    rw [decLog_enc l (h l List.mem_cons_self)]
    simp only []
    rw [ih (fun x hx => h x (List.mem_cons_of_mem _ hx))]

def EntriesOK (v : Option (List Log)) : Prop := ∀ ls, v = some ls → ls.length < 4294967296 ∧ ∀ l ∈ ls, l.WF

theorem decEntries_enc (v : Option (List Log)) (h : EntriesOK v) (rest : Bytes) :
    decEntries (encEntries v ++ rest) = some (v, rest) := by
  cases v with
  | none => rfl
  | some ls =>
    obtain ⟨hl, hwf⟩ := h ls rfl
    unfold encEntries encArrHdr
    simp only []
    split
    · rename_i h1
      show decEntries ((0x90 + ls.length) :: (encLogs ls ++ rest)) = _
      unfold decEntries
      split
      · rename_i heq; simp only [List.cons.injEq] at heq; omega
      · rename_i heq; simp only [List.cons.injEq] at heq; omega
      · rename_i heq; simp only [List.cons.injEq] at heq; omega
      · rename_i x r _ _ _ heq
        simp only [List.cons.injEq] at heq
        obtain ⟨e1, e2⟩ := heq
        subst e1; subst e2
        have : 0x90 ≤ 0x90 + ls.length ∧ 0x90 + ls.length < 0xa0 := by omega
        simp only [this, and_self, if_true, Nat.add_sub_cancel_left, decLogs_enc ls hwf, wrapSomeL]
      · rename_i heq; cases heq
    · split
      · rename_i h2
        show decEntries (0xdc :: (ls.length / 256 % 256) :: (ls.length % 256) :: (encLogs ls ++ rest)) = _
        simp only [decEntries, un2_be _ h2, decLogs_enc ls hwf, wrapSomeL]
      · show decEntries (0xdd :: _ :: _ :: _ :: _ :: (encLogs ls ++ rest)) = _
        simp only [decEntries, un4_be _ hl, decLogs_enc ls hwf, wrapSomeL]

/-! ## `AppendEntriesRequest` (embedded `RPCHeader` flattened; alphabetical field order) -/
structure AEReq where
  addr : Option Bytes
  entries : Option (List Log)
  id : Option Bytes
  leader : Option Bytes
  leaderCommit : Nat
  prevEntry : Nat
  prevTerm : Nat
  protoVer : Nat
  term : Nat
deriving DecidableEq, Repr

def AEReq.WF (m : AEReq) : Prop :=
  BytesOK m.addr ∧ EntriesOK m.entries ∧ BytesOK m.id ∧ BytesOK m.leader ∧ U64 m.leaderCommit ∧
  U64 m.prevEntry ∧ U64 m.prevTerm ∧ U64 m.protoVer ∧ U64 m.term

def encAEReq (m : AEReq) : Bytes :=
  0x89 :: (encKey kAddr ++ (encBytes m.addr ++ (encKey kEntries ++ (encEntries m.entries ++
    (encKey kID ++ (encBytes m.id ++ (encKey kLeader ++ (encBytes m.leader ++
    (encKey kLeaderCommitIndex ++ (encUint m.leaderCommit ++ (encKey kPrevLogEntry ++ (encUint m.prevEntry ++
    (encKey kPrevLogTerm ++ (encUint m.prevTerm ++ (encKey kProtocolVersion ++ (encUint m.protoVer ++
    (encKey kTerm ++ encUint m.term)))))))))))))))))

def decAEReq : Bytes → Option (AEReq × Bytes)
  | 0x89 :: r0 =>
    match field kAddr decBytes r0 with
    | none => none
    | some (addr, r1) =>
    match field kEntries decEntries r1 with
    | none => none
    | some (entries, r2) =>
    match field kID decBytes r2 with
    | none => none
    | some (id, r3) =>
    match field kLeader decBytes r3 with
    | none => none
    | some (leader, r4) =>
    match field kLeaderCommitIndex decUint r4 with
    | none => none
    | some (lc, r5) =>
    match field kPrevLogEntry decUint r5 with
    | none => none
    | some (pe, r6) =>
    match field kPrevLogTerm decUint r6 with
    | none => none
    | some (pt, r7) =>
    match field kProtocolVersion decUint r7 with
    | none => none
    | some (pv, r8) =>
    match field kTerm decUint r8 with
    | none => none
    | some (term, r9) => some (⟨addr, entries, id, leader, lc, pe, pt, pv, term⟩, r9)
  | _ => none

/-- **C16, wire round trip (AppendEntriesRequest).**  For every well-formed request — any number of
    entries of any size, nil and empty slices distinguished — decoding the encoding followed by
    *anything* returns the request and exactly the rest: the encoding is self-delimiting, so
    back-to-back pipelined requests cannot bleed into each other. -/
theorem decAEReq_enc (m : AEReq) (h : m.WF) (rest : Bytes) :
    decAEReq (encAEReq m ++ rest) = some (m, rest) := by
  obtain ⟨h1, h2, h3, h4, h5, h6, h7, h8, h9⟩ := h
  unfold encAEReq
  simp only [List.cons_append, List.append_assoc, decAEReq]
  rw [field_enc, decBytes_enc _ h1]; simp only []
  rw [field_enc, decEntries_enc _ h2]; simp only []
  rw [field_enc, decBytes_enc _ h3]; simp only []
  rw [field_enc, decBytes_enc _ h4]; simp only []
  rw [field_enc, decUint_enc _ h5]; simp only []
  rw [field_enc, decUint_enc _ h6]; simp only []
  rw [field_enc, decUint_enc _ h7]; simp only []
  rw [field_enc, decUint_enc _ h8]; simp only []
  rw [field_enc, decUint_enc _ h9]

/-! ## `AppendEntriesResponse` -/
structure AEResp where
  addr : Option Bytes
  id : Option Bytes
  lastLog : Nat
  noRetryBackoff : Bool
  protoVer : Nat
  success : Bool
  term : Nat
deriving DecidableEq, Repr

def AEResp.WF (m : AEResp) : Prop :=
  BytesOK m.addr ∧ BytesOK m.id ∧ U64 m.lastLog ∧ U64 m.protoVer ∧ U64 m.term

def encAEResp (m : AEResp) : Bytes :=
  0x87 :: (encKey kAddr ++ (encBytes m.addr ++ (encKey kID ++ (encBytes m.id ++
    (encKey kLastLog ++ (encUint m.lastLog ++ (encKey kNoRetryBackoff ++ (encBool m.noRetryBackoff ++
    (encKey kProtocolVersion ++ (encUint m.protoVer ++ (encKey kSuccess ++ (encBool m.success ++
    (encKey kTerm ++ encUint m.term)))))))))))))

def decAEResp : Bytes → Option (AEResp × Bytes)
  | 0x87 :: r0 =>
    match field kAddr decBytes r0 with
    | none => none
    | some (addr, r1) =>
    match field kID decBytes r1 with
    | none => none
    | some (id, r2) =>
    match field kLastLog decUint r2 with
    | none => none
    | some (ll, r3) =>
    match field kNoRetryBackoff decBool r3 with
    | none => none
    | some (nrb, r4) =>
    match field kProtocolVersion decUint r4 with
    | none => none
    | some (pv, r5) =>
    match field kSuccess decBool r5 with
    | none => none
    | some (su, r6) =>
    match field kTerm decUint r6 with
    | none => none
    | some (term, r7) => some (⟨addr, id, ll, nrb, pv, su, term⟩, r7)
  | _ => none

theorem decAEResp_enc (m : AEResp) (h : m.WF) (rest : Bytes) :
    decAEResp (encAEResp m ++ rest) = some (m, rest) := by
  obtain ⟨h1, h2, h3, h4, h5⟩ := h
  unfold encAEResp
  simp only [List.cons_append, List.append_assoc, decAEResp]
  rw [field_enc, decBytes_enc _ h1]; simp only []
  rw [field_enc, decBytes_enc _ h2]; simp only []
  rw [field_enc, decUint_enc _ h3]; simp only []
  rw [field_enc, decBool_enc]; simp only []
  rw [field_enc, decUint_enc _ h4]; simp only []
  rw [field_enc, decBool_enc]; simp only []
  rw [field_enc, decUint_enc _ h5]

/-- **Pipelining.**  A stream of back-to-back responses decodes to exactly the responses, in order. -/
def encStream : List AEResp → Bytes
  | [] => []
  | m :: ms => encAEResp m ++ encStream ms

def decStream : Nat → Bytes → Option (List AEResp × Bytes)
  | 0, r => some ([], r)
  | n + 1, r => match decAEResp r with
      | none => none
      | some (m, r') => match decStream n r' with
          | none => none
          | some (ms, r'') => some (m :: ms, r'')

theorem decStream_enc (ms : List AEResp) (h : ∀ m ∈ ms, m.WF) (rest : Bytes) :
    decStream ms.length (encStream ms ++ rest) = some (ms, rest) := by
  induction ms with
  | nil => rfl
  | cons m ms ih =>
    simp only [encStream, List.length_cons, decStream, List.append_assoc]
    rw [decAEResp_enc m (h m List.mem_cons_self)]
    simp only []
    rw [ih (fun x hx => h x (List.mem_cons_of_mem _ hx))]

/-! ## test vectors: the bytes the real codec produced (DESIGN.md Appendix E) -/

def tvReq : AEReq :=
  { addr := some [97, 58, 49], id := some [105, 100, 49], leader := some [97, 58, 49],
    term := 300, prevEntry := 70000, prevTerm := 2, leaderCommit := 8589934592, protoVer := 3,
    entries := some
      [ { index := 5, term := 2, typ := 0, data := some [1, 2, 3], ext := none,
          appendedAt := ⟨63835596800, 5, 65535⟩ },
        { index := 6, term := 2, typ := 1, data := some [], ext := some [9],
          appendedAt := ⟨0, 0, 65535⟩ } ] }

def tvReqBytes : Bytes := [137, 164, 65, 100, 100, 114, 163, 97, 58, 49, 167, 69, 110, 116, 114, 105, 101, 115, 146, 134, 170, 65, 112, 112, 101, 110, 100, 101, 100, 65, 116, 175, 1, 0, 0, 0, 14, 220, 229, 232, 0, 0, 0, 0, 5, 255, 255, 164, 68, 97, 116, 97, 163, 1, 2, 3, 170, 69, 120, 116, 101, 110, 115, 105, 111, 110, 115, 192, 165, 73, 110, 100, 101, 120, 5, 164, 84, 101, 114, 109, 2, 164, 84, 121, 112, 101, 0, 134, 170, 65, 112, 112, 101, 110, 100, 101, 100, 65, 116, 175, 1, 0, 0, 0, 0, 0, 0, 0, 0, 0, 0, 0, 0, 255, 255, 164, 68, 97, 116, 97, 160, 170, 69, 120, 116, 101, 110, 115, 105, 111, 110, 115, 161, 9, 165, 73, 110, 100, 101, 120, 6, 164, 84, 101, 114, 109, 2, 164, 84, 121, 112, 101, 1, 162, 73, 68, 163, 105, 100, 49, 166, 76, 101, 97, 100, 101, 114, 163, 97, 58, 49, 177, 76, 101, 97, 100, 101, 114, 67, 111, 109, 109, 105, 116, 73, 110, 100, 101, 120, 207, 0, 0, 0, 2, 0, 0, 0, 0, 172, 80, 114, 101, 118, 76, 111, 103, 69, 110, 116, 114, 121, 206, 0, 1, 17, 112, 171, 80, 114, 101, 118, 76, 111, 103, 84, 101, 114, 109, 2, 175, 80, 114, 111, 116, 111, 99, 111, 108, 86, 101, 114, 115, 105, 111, 110, 3, 164, 84, 101, 114, 109, 205, 1, 44]

example : encAEReq tvReq = tvReqBytes := by decide +kernel
example : decAEReq tvReqBytes = some (tvReq, []) := by decide +kernel

def tvResp : AEResp := { addr := none, id := none, lastLog := 9, noRetryBackoff := false, protoVer := 3, success := true, term := 3 }
def tvRespBytes : Bytes := [135, 164, 65, 100, 100, 114, 192, 162, 73, 68, 192, 167, 76, 97, 115, 116, 76, 111, 103, 9, 174, 78, 111, 82, 101, 116, 114, 121, 66, 97, 99, 107, 111, 102, 102, 194, 175, 80, 114, 111, 116, 111, 99, 111, 108, 86, 101, 114, 115, 105, 111, 110, 3, 167, 83, 117, 99, 99, 101, 115, 115, 195, 164, 84, 101, 114, 109, 3]
example : encAEResp tvResp = tvRespBytes := by decide
example : decAEResp tvRespBytes = some (tvResp, []) := by decide

end WR
#print axioms WR.decAEReq_enc
#print axioms WR.decStream_enc
