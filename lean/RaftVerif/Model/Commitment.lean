/-! Probe for C05: `commitment.go` — the commit index moves only to a value held by a strict
majority of the current voters, only upward, never below `startIndex`; and it is the largest such
value.  Core Lean only; all definitions structurally recursive (so `decide` can run them). -/
namespace CM

/-! ## sorting (any sort gives the same list; insertion sort is the one `decide` can unfold) -/

def ins (x : Nat) : List Nat → List Nat
  | [] => [x]
  | y :: ys => if x ≤ y then x :: y :: ys else y :: ins x ys

def isort : List Nat → List Nat
  | [] => []
  | x :: xs => ins x (isort xs)

@[simp] theorem ins_length (x : Nat) (l : List Nat) : (ins x l).length = l.length + 1 := by
  induction l with
  | nil => rfl
  | cons y ys ih => simp only [ins]; split <;> simp [ih]

@[simp] theorem isort_length (l : List Nat) : (isort l).length = l.length := by
  induction l with
  | nil => rfl
  | cons x xs ih => simp [isort, ih]

theorem ins_countP (p : Nat → Bool) (x : Nat) (l : List Nat) :
    (ins x l).countP p = (x :: l).countP p := by
  induction l with
  | nil => rfl
  | cons y ys ih =>
    simp only [ins]; split
    · rfl
    · simp only [List.countP_cons, ih]; omega

theorem isort_countP (p : Nat → Bool) (l : List Nat) : (isort l).countP p = l.countP p := by
  induction l with
  | nil => rfl
  | cons x xs ih => simp only [isort, ins_countP, List.countP_cons, ih]

theorem mem_ins (a x : Nat) (l : List Nat) : a ∈ ins x l ↔ a = x ∨ a ∈ l := by
  induction l with
  | nil => simp [ins]
  | cons y ys ih =>
    simp only [ins]; split
    · simp
    · simp only [List.mem_cons, ih]
      constructor
      · rintro (h | h | h) <;> simp [h]
      · rintro (h | h | h) <;> simp [h]

theorem ins_sorted (x : Nat) (l : List Nat) (h : l.Pairwise (· ≤ ·)) : (ins x l).Pairwise (· ≤ ·) := by
  induction l with
  | nil => simp [ins]
  | cons y ys ih =>
    simp only [ins]; split
    · rename_i hxy
      rw [List.pairwise_cons] at h ⊢
      refine ⟨?_, List.pairwise_cons.mpr h⟩
      intro a ha
      rcases List.mem_cons.mp ha with rfl | ha
      · exact hxy
      · exact Nat.le_trans hxy (h.1 a ha)
    · rename_i hxy
      rw [List.pairwise_cons] at h ⊢
      refine ⟨?_, ih h.2⟩
      intro a ha
      rcases (mem_ins a x ys).mp ha with rfl | ha
      · omega
      · exact h.1 a ha

theorem isort_sorted (l : List Nat) : (isort l).Pairwise (· ≤ ·) := by
  induction l with
  | nil => simp [isort]
  | cons x xs ih => exact ins_sorted x _ ih

/-! ## the order statistic of a sorted list -/

/-- in an ascending list everything from position `k` on is at least the element at `k` -/
theorem sorted_count_ge (l : List Nat) (h : l.Pairwise (· ≤ ·)) (k : Nat) (hk : k < l.length) :
    l.length - k ≤ l.countP (fun x => decide (l[k] ≤ x)) := by
  induction l generalizing k with
  | nil => simp at hk
  | cons y ys ih =>
    rw [List.pairwise_cons] at h
    cases k with
    | zero =>
      simp only [List.getElem_cons_zero, Nat.sub_zero]
      have : (y :: ys).countP (fun x => decide (y ≤ x)) = (y :: ys).length := by
        rw [List.countP_eq_length]
        intro a ha
        rcases List.mem_cons.mp ha with rfl | ha
        · simp
        · simpa using h.1 a ha
      omega
    | succ k' =>
      simp only [List.getElem_cons_succ, List.length_cons]
      have hk' : k' < ys.length := by simpa using hk
      have := ih h.2 k' hk'
      rw [List.countP_cons]
      omega

/-- and everything strictly above the element at `k` sits after position `k` -/
theorem sorted_count_gt (l : List Nat) (h : l.Pairwise (· ≤ ·)) (k : Nat) (hk : k < l.length) (m : Nat)
    (hm : l[k] < m) : l.countP (fun x => decide (m ≤ x)) ≤ l.length - k - 1 := by
  induction l generalizing k with
  | nil => simp at hk
  | cons y ys ih =>
    rw [List.pairwise_cons] at h
    cases k with
    | zero =>
      simp only [List.getElem_cons_zero] at hm
      rw [List.countP_cons]
      have : ¬ m ≤ y := by omega
      simp only [this, decide_false, Bool.false_eq_true, if_false, List.length_cons]
      have := List.countP_le_length (p := fun x => decide (m ≤ x)) (l := ys)
      omega
    | succ k' =>
      simp only [List.getElem_cons_succ] at hm
      have hk' : k' < ys.length := by simpa using hk
      have := ih h.2 k' hk' hm
      -- y ≤ ys[k'] < m, so y is not counted
      have hy : ¬ m ≤ y := by
        have := h.1 ys[k'] (List.getElem_mem _)
        omega
      rw [List.countP_cons]
      simp only [hy, decide_false, Bool.false_eq_true, if_false, List.length_cons]
      omega

/-! ## commitment.go -/

structure Commitment where
  matchIndexes : List (Nat × Nat)     -- voter id ↦ match index; ids unique (`WF`)
  commitIndex : Nat
  startIndex : Nat
deriving Repr, DecidableEq

/-- `matched[(len(matched)-1)/2]` after `sort.Sort` -/
def quorumMatch (vals : List Nat) : Nat := (isort vals).getD ((vals.length - 1) / 2) 0

def recalculate (c : Commitment) : Commitment :=
  if c.matchIndexes.length = 0 then c else
  let q := quorumMatch (c.matchIndexes.map (·.2))
  if q > c.commitIndex ∧ q ≥ c.startIndex then { c with commitIndex := q } else c

def lookup (m : List (Nat × Nat)) (id : Nat) : Option Nat := (m.find? (·.1 = id)).map (·.2)

def setKey (m : List (Nat × Nat)) (id v : Nat) : List (Nat × Nat) :=
  m.map (fun p => if p.1 = id then (id, v) else p)

/-- `match(server, matchIndex)` -/
def matchOp (c : Commitment) (id idx : Nat) : Commitment :=
  match lookup c.matchIndexes id with
  | some prev => if idx > prev then recalculate { c with matchIndexes := setKey c.matchIndexes id idx } else c
  | none => c

/-- `setConfiguration`: `voters` = ids of the voters of the new configuration, in order -/
def setConfiguration (c : Commitment) (voters : List Nat) : Commitment :=
  recalculate { c with matchIndexes := voters.map (fun id => (id, (lookup c.matchIndexes id).getD 0)) }

inductive Op
  | match_ (id idx : Nat)
  | setConfig (voters : List Nat)

def step (c : Commitment) : Op → Commitment
  | .match_ id idx => matchOp c id idx
  | .setConfig vs => setConfiguration c vs

/-- number of voters whose match index is at least `k` -/
def support (c : Commitment) (k : Nat) : Nat := (c.matchIndexes.map (·.2)).countP (fun x => decide (k ≤ x))

theorem quorumMatch_majority (vals : List Nat) (h : vals ≠ []) :
    vals.length < 2 * vals.countP (fun x => decide (quorumMatch vals ≤ x)) := by
  have hlen : 0 < vals.length := List.length_pos_iff.mpr h
  have hk : (vals.length - 1) / 2 < (isort vals).length := by rw [isort_length]; omega
  have hq : quorumMatch vals = (isort vals)[(vals.length - 1) / 2] := by
    unfold quorumMatch; rw [List.getD_eq_getElem?_getD, List.getElem?_eq_getElem hk]; rfl
  have := sorted_count_ge (isort vals) (isort_sorted vals) _ hk
  rw [isort_countP, isort_length, ← hq] at this
  omega

theorem quorumMatch_maximal (vals : List Nat) (h : vals ≠ []) (m : Nat) (hm : quorumMatch vals < m) :
    2 * vals.countP (fun x => decide (m ≤ x)) ≤ vals.length := by
  have hlen : 0 < vals.length := List.length_pos_iff.mpr h
  have hk : (vals.length - 1) / 2 < (isort vals).length := by rw [isort_length]; omega
  have hq : quorumMatch vals = (isort vals)[(vals.length - 1) / 2] := by
    unfold quorumMatch; rw [List.getD_eq_getElem?_getD, List.getElem?_eq_getElem hk]; rfl
  have := sorted_count_gt (isort vals) (isort_sorted vals) _ hk m (by rw [← hq]; exact hm)
  rw [isort_countP, isort_length] at this
  omega

/-- what `recalculate` guarantees -/
theorem recalculate_spec (c : Commitment) :
    (recalculate c).matchIndexes = c.matchIndexes ∧ (recalculate c).startIndex = c.startIndex ∧
    c.commitIndex ≤ (recalculate c).commitIndex ∧
    ((recalculate c).commitIndex ≠ c.commitIndex →
      c.matchIndexes.length < 2 * support (recalculate c) (recalculate c).commitIndex ∧
      c.startIndex ≤ (recalculate c).commitIndex ∧
      ∀ m, (recalculate c).commitIndex < m → 2 * support (recalculate c) m ≤ c.matchIndexes.length) := by
  unfold recalculate
  split
  · exact ⟨rfl, rfl, Nat.le_refl _, fun h => absurd rfl h⟩
  · rename_i hne
    simp only []
    split
    · rename_i hq
      refine ⟨rfl, rfl, by simp only []; omega, fun _ => ?_⟩
      have hne' : c.matchIndexes.map (·.2) ≠ [] := by
        intro h; apply hne; simpa using congrArg List.length h
      have h1 := quorumMatch_majority _ hne'
      have h2 := quorumMatch_maximal _ hne'
      simp only [List.length_map] at h1 h2
      exact ⟨h1, hq.2, h2⟩
    · exact ⟨rfl, rfl, Nat.le_refl _, fun h => absurd rfl h⟩

/-- **C05, the bookkeeping half.**  For every operation: the commit index never decreases; if it
    changes, then at that moment a strict majority of the *current* voter set has a match index at
    least the new value, the new value is at least `startIndex` (the leader's own first index — the
    current-term rule), and no larger value has a strict majority. -/
theorem step_spec (c : Commitment) (op : Op) :
    c.commitIndex ≤ (step c op).commitIndex ∧ (step c op).startIndex = c.startIndex ∧
    ((step c op).commitIndex ≠ c.commitIndex →
      (step c op).matchIndexes.length < 2 * support (step c op) (step c op).commitIndex ∧
      c.startIndex ≤ (step c op).commitIndex ∧
      ∀ m, (step c op).commitIndex < m → 2 * support (step c op) m ≤ (step c op).matchIndexes.length) := by
  cases op with
  | match_ id idx =>
    simp only [step, matchOp]
    split
    · split
      · obtain ⟨a, b, d, e⟩ := recalculate_spec { c with matchIndexes := setKey c.matchIndexes id idx }
        exact ⟨d, b, fun h => by rw [a]; exact e h⟩
      · exact ⟨Nat.le_refl _, rfl, fun h => absurd rfl h⟩
    · exact ⟨Nat.le_refl _, rfl, fun h => absurd rfl h⟩
  | setConfig vs =>
    simp only [step, setConfiguration]
    obtain ⟨a, b, d, e⟩ := recalculate_spec
      { c with matchIndexes := vs.map (fun id => (id, (lookup c.matchIndexes id).getD 0)) }
    exact ⟨d, b, fun h => by rw [a]; exact e h⟩

/-- over any operation sequence the commit index is monotone -/
theorem run_monotone (c : Commitment) (ops : List Op) : c.commitIndex ≤ (ops.foldl step c).commitIndex := by
  induction ops generalizing c with
  | nil => exact Nat.le_refl _
  | cons op ops ih => exact Nat.le_trans (step_spec c op).1 (ih _)

/-- non-vacuity and the even-size case: 4 voters, matches 7 7 5 0 → index 5 (three of four), not 7 -/
example : (step ⟨[(1, 7), (2, 7), (3, 0), (4, 0)], 0, 1⟩ (.match_ 3 5)).commitIndex = 5 := by decide
example : (step ⟨[(1, 7), (2, 7), (3, 0), (4, 0)], 0, 6⟩ (.match_ 3 5)).commitIndex = 0 := by decide  -- below startIndex
example : (step ⟨[(1, 7), (2, 7), (3, 5)], 7, 1⟩ (.setConfig [1, 2, 3, 4, 5])).commitIndex = 7 := by decide  -- keeps, never lowers

end CM
#print axioms CM.step_spec
#print axioms CM.run_monotone
