import RaftVerif.Spec.ClusterSpec
/-! The role loop of `run()` reduced to what C17 and C18 speak about: leadership transitions, the
`NotifyCh` emissions they cause (`runLeader`: `true` on entry, `false` in the deferred exit block),
the in-flight futures of the leader and how every accepted `Apply` future ends (committed, failed
with ErrLeadershipLost in the exit block, ErrNotLeader on a non-leader, ErrRaftShutdown after
shutdown).  raft.go:136-250 (run, runFollower), 469-581 (runLeader and its deferred block),
668-962 (leaderLoop: applyCh, commitCh). -/
namespace RL

inductive Role | follower | candidate | leader | down
deriving DecidableEq, Repr

inductive Out | ok | notLeader | leadershipLost | shutdown
deriving DecidableEq, Repr

structure St where
  role : Role
  notified : List Bool          -- everything delivered on NotifyCh, oldest first
  inflight : List Nat           -- futures accepted by the leader, in index order
  resolved : List (Nat × Out)   -- how each future ended
deriving Repr

def init : St := ⟨.follower, [], [], []⟩

inductive Op
  | timeout                 -- follower → candidate
  | win                     -- candidate → leader
  | lose                    -- candidate → follower
  | stepDown                -- leader → follower (higher term seen, lease lost, removed, transfer done)
  | shutdown
  | apply (f : Nat)         -- an Apply future reaches the main loop
  | commit (k : Nat)        -- the first k in-flight entries are committed and handed to the FSM
deriving Repr

/-- the deferred block of `runLeader` -/
def leave (s : St) (r : Role) : St :=
  { s with role := r, notified := s.notified ++ [false],
           resolved := s.resolved ++ s.inflight.map (fun f => (f, .leadershipLost)), inflight := [] }

def step (s : St) : Op → St
  | .timeout => if s.role = .follower then { s with role := .candidate } else s
  | .win => if s.role = .candidate then { s with role := .leader, notified := s.notified ++ [true] } else s
  | .lose => if s.role = .candidate then { s with role := .follower } else s
  | .stepDown => if s.role = .leader then leave s .follower else s
  | .shutdown => if s.role = .leader then leave s .down else { s with role := .down }
  | .apply f =>
      match s.role with
      | .leader => { s with inflight := s.inflight ++ [f] }
      | .down => { s with resolved := s.resolved ++ [(f, .shutdown)] }
      | _ => { s with resolved := s.resolved ++ [(f, .notLeader)] }
  | .commit k =>
      if s.role = .leader then
        { s with resolved := s.resolved ++ (s.inflight.take k).map (fun f => (f, .ok)), inflight := s.inflight.drop k }
      else s

def run (ops : List Op) : St := ops.foldl step init

/-! ## C18 -/

theorem alternates_append (l : List Bool) (v e : Bool) :
    CL.alternates (l ++ [v]) e = (CL.alternates l e && (v == (if l.length % 2 = 0 then e else !e))) := by
  induction l generalizing e with
  | nil => simp [CL.alternates]
  | cons x xs ih =>
    simp only [List.cons_append, CL.alternates, ih, List.length_cons]
    by_cases h : xs.length % 2 = 0
    · have : ¬ (xs.length + 1) % 2 = 0 := by omega
      simp [h, this, Bool.and_assoc]
    · have : (xs.length + 1) % 2 = 0 := by omega
      simp [h, this, Bool.and_assoc]

/-- what the notifications look like in every reachable state -/
structure NInv (s : St) : Prop where
  alt : CL.alternates s.notified true = true
  parity : s.notified.length % 2 = (if s.role = .leader then 1 else 0)

theorem ninv_step (s : St) (op : Op) (h : NInv s) : NInv (step s op) := by
  obtain ⟨ha, hp⟩ := h
  cases op <;> simp only [step]
  case timeout => split <;> (constructor <;> simp_all)
  case win =>
    split
    · rename_i hc
      constructor
      · simp only [alternates_append, ha, Bool.true_and]
        have : s.notified.length % 2 = 0 := by simpa [hc] using hp
        simp [this]
      · simp only [List.length_append, List.length_cons, List.length_nil]
        have : s.notified.length % 2 = 0 := by simpa [hc] using hp
        simp; omega
    · exact ⟨ha, hp⟩
  case lose => split <;> (constructor <;> simp_all)
  case stepDown =>
    split
    · rename_i hc
      have h1 : s.notified.length % 2 = 1 := by simpa [hc] using hp
      constructor
      · simp only [leave, alternates_append, ha, Bool.true_and]
        have : ¬ s.notified.length % 2 = 0 := by omega
        simp [this]
      · simp only [leave, List.length_append, List.length_cons, List.length_nil]
        simp; omega
    · exact ⟨ha, hp⟩
  case shutdown =>
    split
    · rename_i hc
      have h1 : s.notified.length % 2 = 1 := by simpa [hc] using hp
      constructor
      · simp only [leave, alternates_append, ha, Bool.true_and]
        have : ¬ s.notified.length % 2 = 0 := by omega
        simp [this]
      · simp only [leave, List.length_append, List.length_cons, List.length_nil]
        simp; omega
    · rename_i hc
      constructor
      · exact ha
      · simp only []
        have : ¬ s.role = .leader := hc
        simp [this] at hp
        simp [hp]
  case apply f =>
    split <;> (constructor <;> simp_all)
  case commit k =>
    split <;> (constructor <;> simp_all)

theorem ninv_run (ops : List Op) : NInv (run ops) := by
  unfold run
  suffices H : ∀ s, NInv s → NInv (ops.foldl step s) from H init ⟨rfl, by simp [init]⟩
  induction ops with
  | nil => intro s h; exact h
  | cons op ops ih => intro s h; exact ih _ (ninv_step s op h)

/-- **C18.** For every sequence of elections, step-downs and shutdown: NotifyCh carries a strictly
    alternating sequence starting with `true`, with exactly one message per gain or loss of
    leadership, and the last value delivered says whether the server is leader now. -/
theorem notify_alternates (ops : List Op) :
    CL.alternates (run ops).notified true = true ∧
    ((run ops).role = .leader ↔ (run ops).notified.getLast? = some true) := by
  have h := ninv_run ops
  refine ⟨h.alt, ?_⟩
  generalize run ops = s at h
  obtain ⟨ha, hp⟩ := h
  -- the last element of an alternating list starting with `true` is `true` iff the length is odd
  have key : ∀ (l : List Bool) (e : Bool), CL.alternates l e = true → l ≠ [] →
      l.getLast? = some (if l.length % 2 = 1 then e else !e) := by
    intro l
    induction l with
    | nil => intro e _ h; exact absurd rfl h
    | cons x xs ih =>
      intro e hal _
      simp only [CL.alternates, Bool.and_eq_true, beq_iff_eq] at hal
      by_cases hx : xs = []
      · subst hx; simp [hal.1]
      · have := ih (!e) hal.2 hx
        have hl : (x :: xs).getLast? = xs.getLast? := by
          cases xs with
          | nil => exact absurd rfl hx
          | cons y ys => simp [List.getLast?_cons_cons]
        rw [hl, this]
        simp only [List.length_cons]
        by_cases hpar : xs.length % 2 = 1
        · have : ¬ (xs.length + 1) % 2 = 1 := by omega
          simp [hpar, this]
        · have : (xs.length + 1) % 2 = 1 := by omega
          simp [hpar, this]
  by_cases hl : s.role = .leader
  · simp only [hl, if_true] at hp
    have hne : s.notified ≠ [] := by intro h; simp [h] at hp
    rw [key _ _ ha hne]; simp [hl, hp]
  · simp only [hl, if_false] at hp
    by_cases hne : s.notified = []
    · simp [hl, hne]
    · rw [key _ _ ha hne]
      have : ¬ s.notified.length % 2 = 1 := by omega
      simp [hl, this]

end RL

namespace RL
/-! ## C17 -/

def issued : List Op → List Nat
  | [] => []
  | .apply f :: rest => f :: issued rest
  | _ :: rest => issued rest

theorem issued_append (a b : List Op) : issued (a ++ b) = issued a ++ issued b := by
  induction a with
  | nil => rfl
  | cons x xs ih => cases x <;> simp [issued, ih]

/-- accounting of futures in a state reached by `ops` from `s0` -/
def accounted (s : St) (fs : List Nat) : Prop :=
  (∀ f, s.inflight.count f + (s.resolved.map (·.1)).count f = fs.count f) ∧
  (s.role ≠ .leader → s.inflight = [])

theorem accounted_step (s : St) (op : Op) (fs : List Nat) (h : accounted s fs) :
    accounted (step s op) (fs ++ issued [op]) := by
  obtain ⟨hc, hl⟩ := h
  cases op <;> simp only [step, issued, List.append_nil]
  case timeout => split <;> (refine ⟨hc, ?_⟩ <;> simp_all)
  case win => split <;> (refine ⟨hc, ?_⟩ <;> simp_all)
  case lose => split <;> (refine ⟨hc, ?_⟩ <;> simp_all)
  case stepDown =>
    split
    · refine ⟨fun f => ?_, fun _ => rfl⟩
      have := hc f
      simp only [leave, List.count_nil, List.map_append, List.map_map, List.count_append]
      have e : (List.map ((fun x => x.1) ∘ fun f => (f, Out.leadershipLost)) s.inflight) = s.inflight := by
        simp [Function.comp_def]
      rw [e]; omega
    · exact ⟨hc, hl⟩
  case shutdown =>
    split
    · refine ⟨fun f => ?_, fun _ => rfl⟩
      have := hc f
      simp only [leave, List.count_nil, List.map_append, List.map_map, List.count_append]
      have e : (List.map ((fun x => x.1) ∘ fun f => (f, Out.leadershipLost)) s.inflight) = s.inflight := by
        simp [Function.comp_def]
      rw [e]; omega
    · rename_i hn
      exact ⟨hc, fun _ => hl hn⟩
  case apply g =>
    split
    · rename_i hr
      refine ⟨fun f => ?_, fun hne => absurd hr hne⟩
      have := hc f
      simp only [List.count_append, List.count_cons, List.count_nil]
      omega
    · rename_i hr
      refine ⟨fun f => ?_, fun _ => hl (by simp [hr])⟩
      have := hc f
      simp only [List.map_append, List.map_cons, List.map_nil, List.count_append, List.count_cons, List.count_nil]
      omega
    · rename_i hr1 hr2
      refine ⟨fun f => ?_, fun hne => hl hne⟩
      have := hc f
      simp only [List.map_append, List.map_cons, List.map_nil, List.count_append, List.count_cons, List.count_nil]
      omega
  case commit k =>
    split
    · rename_i hr
      refine ⟨fun f => ?_, fun hne => absurd hr hne⟩
      have := hc f
      simp only [List.map_append, List.map_map, List.count_append]
      have e : (List.map ((fun x => x.1) ∘ fun f => (f, Out.ok)) (List.take k s.inflight)) = List.take k s.inflight := by
        simp [Function.comp_def]
      rw [e]
      have h2 : (List.take k s.inflight).count f + (List.drop k s.inflight).count f = s.inflight.count f := by
        rw [← List.count_append, List.take_append_drop]
      omega
    · exact ⟨hc, hl⟩

theorem accounted_run (ops : List Op) : accounted (run ops) (issued ops) := by
  unfold run
  suffices H : ∀ s fs, accounted s fs → accounted (ops.foldl step s) (fs ++ issued ops) by
    have := H init [] ⟨fun f => by simp [init], fun _ => rfl⟩
    simpa using this
  induction ops with
  | nil => intro s fs h; simpa [issued] using h
  | cons op ops ih =>
    intro s fs h
    have := ih _ _ (accounted_step s op fs h)
    simp only [List.foldl_cons]
    have e : fs ++ issued (op :: ops) = fs ++ issued [op] ++ issued ops := by
      rw [List.append_assoc, ← issued_append]; rfl
    rw [e]; exact this

/-- **C17 (role loop).** For every sequence of role changes, client calls, commits and shutdown:
    every Apply future that reached the main loop is either still in flight or has been resolved,
    exactly once; and whenever the server is not leader (it stepped down, lost an election, or was
    shut down) nothing is in flight — every future issued so far has resolved. -/
theorem every_future_resolves (ops : List Op) :
    (∀ f, (run ops).inflight.count f + ((run ops).resolved.map (·.1)).count f = (issued ops).count f) ∧
    ((run ops).role ≠ .leader → ∀ f, ((run ops).resolved.map (·.1)).count f = (issued ops).count f) := by
  obtain ⟨h1, h2⟩ := accounted_run ops
  refine ⟨h1, fun hne f => ?_⟩
  have := h1 f
  rw [h2 hne] at this
  simpa using this

/-- a call that arrives after shutdown gets ErrRaftShutdown, one that arrives at a non-leader gets
    ErrNotLeader: neither is ever queued -/
theorem refused_call_not_queued (s : St) (f : Nat) (h : s.role ≠ .leader) :
    (step s (.apply f)).inflight = s.inflight ∧
    (step s (.apply f)).resolved = s.resolved ++ [(f, if s.role = .down then .shutdown else .notLeader)] := by
  cases hr : s.role <;> simp_all [step]

/-- non-vacuity: a leader with two futures in flight steps down -/
example : (run [.timeout, .win, .apply 1, .apply 2, .commit 1, .stepDown, .apply 3]).resolved
    = [(1, .ok), (2, .leadershipLost), (3, .notLeader)] := by decide
example : (run [.timeout, .win, .stepDown, .timeout, .win, .shutdown]).notified = [true, false, true, false] := by decide

end RL
