import RaftVerif.Model.Server
/-! One server driven by a sequence of events (RPCs with an optional failing / crashing write,
restarts, role changes): the executable composition the H2 correspondence run steps alongside the
real `*raft.Raft`, and over which the single-server theorems (C04, C06, C10, C14) quantify. -/
namespace SV

inductive Event
  | vote (q : VoteReq) (failAt crashAt : Option Nat)
  | prevote (q : VoteReq)
  | append (a : AEReq) (failAt crashAt : Option Nat)
  | install (q : ISReq) (failAt crashAt : Option Nat)
  | timeoutNow
  | snapshot (failAt crashAt : Option Nat)   -- takeSnapshot on the snapshot goroutine
  | campaign (rs : List PeerResp)            -- one pass of the candidate loop (the server is a candidate)
  | restart
  | damagedRestart          -- the newest readable snapshot is damaged, then the process restarts
  | setRole (r : Role) (leader leaderId : Nat)
deriving Repr

structure World where
  cf : Cfg
  d : Durable
  v : Vol
  dead : Bool
  fpos : Nat × Nat       -- the FSM goroutine's own (lastIndex, lastTerm)
  fdata : List Nat       -- the FSM's content
deriving Repr

/-- FSM position and content of a process just started on `d` (the start-up restore bypasses the
    FSM goroutine, whose position starts at 0 and moves only with what it is handed afterwards) -/
def fsmFresh (d : Durable) (v : Vol) (calls : List FsmCall) : (Nat × Nat) × List Nat :=
  (fsmAdvance d.log (v.applied - v.snapIdx) (v.snapIdx + 1) (0, 0), fsmDataAfter [] calls)

/-- FSM position and content after a handler's result -/
def fsmNext (w : World) (d' : Durable) (vol : Vol) (calls : List FsmCall) : (Nat × Nat) × List Nat :=
  let data := fsmDataAfter w.fdata calls
  if calls.any (fun c => match c with | .restore _ => true | _ => false) then ((vol.snapIdx, vol.snapTerm), data)
  else (fsmAdvance d'.log (vol.applied - w.v.applied) (w.v.applied + 1) w.fpos, data)

/-- what is observable after one event -/
structure Obs where
  dead : Bool
  panic : Bool
  resp : Resp
  writes : List Write
  vol : Vol
  dur : Durable
  fsm : List FsmCall
deriving Repr

def deadObs (d : Durable) : Obs := ⟨true, false, .none, [], emptyVol, d, []⟩

/-- start a process on a durable image (`NewRaft`; it re-persists the term it read) -/
def boot (cf : Cfg) (d : Durable) : World × Obs :=
  match restart cf d with
  | none => (⟨cf, d, emptyVol, true, (0, 0), []⟩, deadObs d)
  | some (v, calls) =>
    (⟨cf, d, v, false, (fsmFresh d v calls).1, (fsmFresh d v calls).2⟩,
     ⟨false, false, .none, [.setTerm d.curTerm], v, d, calls⟩)

def planOf (w : World) : Event → Option (Plan × Option Nat × Option Nat)
  | .vote q f c => some (votePlan w.d w.v q, f, c)
  | .prevote q => some (preVotePlan w.v q, none, none)
  | .append a f c => some (aePlan w.cf w.d w.v a, f, c)
  | .install q f c => some (isPlan w.cf w.d w.v q, f, c)
  | .timeoutNow => some (timeoutNowPlan w.v, none, none)
  | .snapshot f c => some (snapPlan w.cf w.d w.v w.fpos w.fdata, f, c)
  | .campaign rs => some (campaign w.cf w.v rs, none, none)
  | .restart => none
  | .damagedRestart => none
  | .setRole _ _ _ => none

/-- run a handler's plan under its armed failure / crash ordinals; a process that died is replaced
    by a new one started on what was written -/
def stepPlan (w : World) (p : Plan) (f c : Option Nat) : World × Obs :=
  let r := exec p f c
  let d' := applyAll w.d r.2
  if r.1.panic then
    match restart w.cf d' with
    | none => (⟨w.cf, d', emptyVol, true, (0, 0), []⟩, deadObs d')
    | some (v, calls) =>
      (⟨w.cf, d', v, false, (fsmFresh d' v calls).1, (fsmFresh d' v calls).2⟩, ⟨false, true, .none, r.2, v, d', calls⟩)
  else (⟨w.cf, d', r.1.vol, false, (fsmNext w d' r.1.vol r.1.fsm).1, (fsmNext w d' r.1.vol r.1.fsm).2⟩,
        ⟨false, false, r.1.resp, r.2, r.1.vol, d', r.1.fsm⟩)

def stepEvent (w : World) (e : Event) : World × Obs :=
  if w.dead then (w, deadObs w.d) else
  match e with
  | .restart => boot w.cf w.d
  | .damagedRestart => boot w.cf { w.d with snaps := damageNewest w.d.snaps }
  | .setRole r l lid =>
      let v : Vol := { w.v with role := r, leader := l, leaderId := if l = 0 then 0 else lid }
      ({ w with v := v }, ⟨false, false, .none, [], v, w.d, []⟩)
  | _ =>
    match planOf w e with
    | none => (w, deadObs w.d)
    | some (p, f, c) => stepPlan w p f c

/-- all observations of a run: the boot, then one per event -/
def runObs (w : World) : List Event → List Obs
  | [] => []
  | e :: es => let r := stepEvent w e; r.2 :: runObs r.1 es

def runAll (cf : Cfg) (d : Durable) (es : List Event) : List Obs :=
  let b := boot cf d
  b.2 :: runObs b.1 es

end SV
