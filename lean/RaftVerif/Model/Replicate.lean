import RaftVerif.Model.World
/-! The leader's side of log replication (replication.go: `replicateTo`, `setupAppendEntries`,
`setPreviousLog`, `setNewLogs`, `updateLastAppended`, `sendLatestSnapshot`) and its composition
with a follower stepped by the handler model: the loop that brings a follower from any lag or
divergence up to the leader's log.  The pipelined mode (`pipelineReplicate`) is not modelled. -/
namespace SV

/-- the leader's per-follower replication state (`followerReplication`) -/
structure Repl where
  next : Nat          -- nextIndex
  matched : Nat       -- what the leader's commitment holds for this follower
  failures : Nat
  pipeline : Bool     -- allowPipeline
deriving DecidableEq, Repr

/-- `setPreviousLog`: the entry before `next` as the leader knows it (`none`: the log does not hold it) -/
def replPrev (d : Durable) (v : Vol) (next : Nat) : Option (Nat × Nat) :=
  if next = 1 then some (0, 0)
  else if next - 1 = v.snapIdx then some (v.snapIdx, v.snapTerm)
  else (getLog d.log (next - 1)).map (fun e => (e.index, e.term))

/-- the entries `lo, lo+1, …` (`n` of them) read from the log; `none` if one is missing -/
def readRange (log : List Entry) : (n : Nat) → (lo : Nat) → Option (List Entry)
  | 0, _ => some []
  | n + 1, lo =>
    match getLog log lo with
    | none => none
    | some e => (readRange log n (lo + 1)).map (e :: ·)

/-- `setNewLogs`: entries `next … min (next + MaxAppendEntries - 1) last` -/
def replEntries (cf : Cfg) (d : Durable) (next last : Nat) : Option (List Entry) :=
  readRange d.log (min (next + cf.maxAE - 1) last + 1 - next) next

/-- `setupAppendEntries` (`none` = ErrLogNotFound: a snapshot has to be sent instead) -/
def replSetup (cf : Cfg) (d : Durable) (v : Vol) (next last : Nat) : Option AEReq :=
  match replPrev d v next with
  | none => none
  | some p =>
    match replEntries cf d next last with
    | none => none
    | some es => some ⟨selfAddr, selfId, v.term, p.1, p.2, v.commit, es⟩

/-- the request `sendLatestSnapshot` makes: the newest snapshot of the store, if it can be opened -/
def replSnapReq (d : Durable) (v : Vol) : Option ISReq :=
  match d.snaps with
  | [] => none
  | s :: _ => if s.ok then some ⟨selfAddr, selfId, v.term, s.idx, s.term, s.cfgIdx, s.cfg, s.data, true⟩ else none

/-- one message of the exchange, as the follower receives it -/
inductive Msg
  | ae (a : AEReq)
  | snap (q : ISReq)
deriving DecidableEq, Repr

/-- a failing / crashing write armed on the follower for one exchange -/
abbrev Fault := Option Nat × Option Nat

/-- (a failing write of InstallSnapshot is followed only at ordinal 0, the term: later write errors
    of that handler are logged and the handler carries on, which a write plan does not express) -/
def Msg.event (m : Msg) (ft : Fault) : Event :=
  match m with
  | .ae a => .append a ft.1 ft.2
  | .snap q => .install q (if ft.1 = some 0 then some 0 else none) ft.2

/-- how one pass of the loop ends -/
inductive Next
  | again         -- CHECK_MORE
  | done          -- return (transport error, unreadable snapshot, nothing to send)
  | stale         -- the follower answered with a newer term: handleStaleTerm, stop
deriving DecidableEq, Repr

/-- the bookkeeping after an AppendEntries answer (`none`: transport error) -/
def afterAE (s : Repl) (a : AEReq) : Option Resp → Repl × Next
  | some (.append term lastLog success noRetry) =>
    if term > a.term then (s, .stale)
    else if success then
      match a.entries.getLast? with
      | some e => ({ s with next := e.index + 1, matched := max s.matched e.index, failures := 0, pipeline := true }, .again)
      | none => ({ s with failures := 0, pipeline := true }, .again)
    else
      ({ s with next := max (min (s.next - 1) (lastLog + 1)) 1,
                failures := if noRetry then 0 else s.failures + 1 }, .again)
  | _ => ({ s with failures := s.failures + 1 }, .done)

/-- the bookkeeping after an InstallSnapshot answer -/
def afterSnap (s : Repl) (q : ISReq) : Option Resp → Repl × Next
  | some (.install term success false) =>
    if term > q.term then (s, .stale)
    else if success then ({ s with next := q.lastIdx + 1, matched := max s.matched q.lastIdx, failures := 0 }, .again)
    else ({ s with failures := s.failures + 1 }, .again)
  | _ => ({ s with failures := s.failures + 1 }, .done)

/-- what the follower's answer looks like to the leader: a handler that died, or a snapshot
    transfer that failed on the follower, is a transport error -/
def answerOf (o : Obs) : Option Resp :=
  if o.dead ∨ o.panic then none else
  match o.resp with
  | .append t l s n => some (.append t l s n)
  | .install t s false => some (.install t s false)
  | _ => none

/-- what the leader sends next (`none`: it has a snapshot to send but cannot open one) -/
def replMsg (cf : Cfg) (d : Durable) (v : Vol) (s : Repl) (last : Nat) : Option Msg :=
  match replSetup cf d v s.next last with
  | some a => some (.ae a)
  | none => (replSnapReq d v).map .snap

/-- the result of a whole `replicateTo` -/
structure ReplRun where
  follower : World
  trace : List (Msg × Obs)     -- every request with what the follower did with it
  s : Repl
  stale : Bool                 -- stepped down
deriving Repr

/-- `replicateTo` against a follower stepped by the handler model.  `fuel` bounds the number of
    requests the transport lets through (the harness's transport refuses the rest); `faults` arms a
    failing or crashing write on the follower for the first exchanges. -/
def replicateTo (cf : Cfg) (d : Durable) (v : Vol) (last : Nat) : (fuel : Nat) → List Fault → World → Repl → ReplRun
  | fuel, faults, f, s =>
    match replMsg cf d v s last with
    | none => ⟨f, [], s, false⟩
    | some m =>
      match fuel with
      | 0 => ⟨f, [], { s with failures := s.failures + 1 }, false⟩     -- the transport refuses
      | fuel + 1 =>
        let r := stepEvent f (m.event (faults.headD (none, none)))
        let out := match m with
          | .ae a => afterAE s a (answerOf r.2)
          | .snap q => afterSnap s q (answerOf r.2)
        match out.2 with
        | .stale => ⟨r.1, [(m, r.2)], out.1, true⟩
        | .done => ⟨r.1, [(m, r.2)], out.1, false⟩
        | .again =>
          if out.1.next ≤ last then
            let rest := replicateTo cf d v last fuel faults.tail r.1 out.1
            { rest with trace := (m, r.2) :: rest.trace }
          else ⟨r.1, [(m, r.2)], out.1, false⟩

/-! ### pipelined replication

`pipelineReplicate` runs a sender (every trigger: `pipelineSend` builds the next request from its
own optimistic copy of `nextIndex` and queues it on the connection) and a decoder
(`pipelineDecode`: every answer, in order, either credits the follower with the request's last
entry, or — refusal, newer term — ends the whole pipeline, leaving `nextIndex` and the commitment
as they are).  The steps below are the two things the harness does: let the sender send once, and
deliver the oldest queued request to the follower. -/

structure Pipe where
  s : Repl
  loc : Nat                  -- the sender's own nextIndex
  flight : List AEReq        -- sent, not yet delivered (oldest first)
  alive : Bool               -- sender and decoder are running
  closed : Bool              -- the connection is gone: a send fails, queued requests are lost
  stale : Bool               -- the follower reported a newer term: stepDown was notified
  sent : Nat
  f : World
  trace : List (Msg × Obs)   -- every delivered request with what the follower did with it
  faults : List Fault
deriving Repr

inductive POp
  | send
  | deliver
deriving DecidableEq, Repr

/-- one trigger of the sender (`pipelineSend`; a request that cannot be built, or a send the
    connection refuses, ends the pipeline) -/
def pipeSend (cf : Cfg) (d : Durable) (v : Vol) (fuel : Nat) (p : Pipe) : Pipe :=
  if !p.alive then p else
  match replSetup cf d v p.loc v.lastLogIdx with
  | none => { p with alive := false, closed := true }
  | some a =>
    if p.closed ∨ p.sent ≥ fuel then { p with alive := false, closed := true }
    else { p with flight := p.flight ++ [a], sent := p.sent + 1,
                  loc := match a.entries.getLast? with | some e => e.index + 1 | none => p.loc }

/-- `pipelineDecode` on one answer -/
def pipeDecode (p : Pipe) (a : AEReq) : Option Resp → Pipe
  | some (.append term _ success _) =>
    if !p.alive then p
    else if term > a.term then { p with alive := false, closed := true, stale := true }
    else if !success then { p with alive := false, closed := true }
    else match a.entries.getLast? with
      | some e => { p with s := { p.s with next := e.index + 1, matched := max p.s.matched e.index } }
      | none => p
  | _ => { p with closed := true }       -- no answer: the connection is broken

/-- the oldest queued request reaches the follower (or is lost with the connection) -/
def pipeDeliver (p : Pipe) : Pipe :=
  match p.flight with
  | [] => p
  | a :: rest =>
    if p.closed then { p with flight := rest } else
    let r := stepEvent p.f (.append a (p.faults.headD (none, none)).1 (p.faults.headD (none, none)).2)
    pipeDecode { p with flight := rest, f := r.1, trace := p.trace ++ [(.ae a, r.2)], faults := p.faults.tail } a (answerOf r.2)

def pipeStep (cf : Cfg) (d : Durable) (v : Vol) (fuel : Nat) (p : Pipe) : POp → Pipe
  | .send => pipeSend cf d v fuel p
  | .deliver => pipeDeliver p

/-- whatever is still queued is delivered (fuel: the queue's length) -/
def pipeDrain : Nat → Pipe → Pipe
  | 0, p => p
  | n + 1, p => if p.flight.isEmpty then p else pipeDrain n (pipeDeliver p)

/-- a whole run: the operations in order, then the queue drained, then `stopCh` -/
def pipelineRun (cf : Cfg) (d : Durable) (v : Vol) (fuel : Nat) (faults : List Fault) (f : World)
    (next : Nat) (ops : List POp) : Pipe :=
  let p0 : Pipe := ⟨⟨next, 0, 0, false⟩, next, [], true, false, false, 0, f, [], faults⟩
  let p1 := ops.foldl (pipeStep cf d v fuel) p0
  pipeDrain p1.flight.length p1

end SV
