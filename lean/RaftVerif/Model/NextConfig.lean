/-! Probe for C07: `nextConfiguration` / `checkConfiguration` (configuration.go).  Ids and addresses
are `Nat` (0 = the empty string).  Core Lean only. -/
namespace CF

inductive Suffrage | voter | nonvoter | staging
deriving DecidableEq, Repr

structure Server where
  suffrage : Suffrage
  id : Nat
  addr : Nat
deriving DecidableEq, Repr

abbrev Config := List Server

inductive Cmd | addVoter | addNonvoter | demoteVoter | removeServer | promote
deriving DecidableEq, Repr

structure Change where
  cmd : Cmd
  serverID : Nat
  serverAddr : Nat
  prevIndex : Nat
deriving Repr

/-- `for i, server := range servers { if server.ID == id { servers[i] = g server; break } }` -/
def modifyFirst (id : Nat) (g : Server → Option Server) : Config → Config
  | [] => []
  | s :: rest => if s.id = id then (match g s with | some s' => s' :: rest | none => rest)
                 else s :: modifyFirst id g rest

def hasId (c : Config) (id : Nat) : Bool := c.any (·.id = id)

/-- `checkConfiguration` -/
def check : Config → List Nat → List Nat → Nat → Bool
  | [], _, _, voters => voters ≠ 0
  | s :: rest, ids, addrs, voters =>
      if s.id = 0 then false
      else if s.addr = 0 then false
      else if ids.contains s.id then false
      else if addrs.contains s.addr then false
      else check rest (s.id :: ids) (s.addr :: addrs) (if s.suffrage = .voter then voters + 1 else voters)

def checkConfiguration (c : Config) : Bool := check c [] [] 0

/-- the `switch` of `nextConfiguration`, before the final check -/
def applyChange (c : Config) (ch : Change) : Config :=
  match ch.cmd with
  | .addVoter =>
      if hasId c ch.serverID then
        modifyFirst ch.serverID (fun s =>
          if s.suffrage = .voter then some { s with addr := ch.serverAddr }
          else some ⟨.voter, ch.serverID, ch.serverAddr⟩) c
      else c ++ [⟨.voter, ch.serverID, ch.serverAddr⟩]
  | .addNonvoter =>
      if hasId c ch.serverID then
        modifyFirst ch.serverID (fun s =>
          if s.suffrage ≠ .nonvoter then some { s with addr := ch.serverAddr }
          else some ⟨.nonvoter, ch.serverID, ch.serverAddr⟩) c
      else c ++ [⟨.nonvoter, ch.serverID, ch.serverAddr⟩]
  | .demoteVoter => modifyFirst ch.serverID (fun s => some { s with suffrage := .nonvoter }) c
  | .removeServer => modifyFirst ch.serverID (fun _ => none) c
  | .promote =>
      -- the Go loop breaks only at a *staging* server with this id
      let rec go : Config → Config
        | [] => []
        | s :: rest => if s.id = ch.serverID ∧ s.suffrage = .staging then { s with suffrage := .voter } :: rest
                       else s :: go rest
      go c

def nextConfiguration (current : Config) (currentIndex : Nat) (ch : Change) : Option Config :=
  if ch.prevIndex > 0 ∧ ch.prevIndex ≠ currentIndex then none
  else
    let c := applyChange current ch
    if checkConfiguration c then some c else none

/-! ## only the named server is touched -/

/-- servers whose id is not `id` are exactly preserved by a first-match edit that keeps the id -/
theorem modifyFirst_other (id : Nat) (g : Server → Option Server) (hg : ∀ s s', g s = some s' → s.id = id → s'.id = id)
    (c : Config) (x : Server) (hx : x.id ≠ id) : x ∈ modifyFirst id g c ↔ x ∈ c := by
  induction c with
  | nil => simp [modifyFirst]
  | cons s rest ih =>
    simp only [modifyFirst]
    split
    · rename_i hs
      cases hgs : g s with
      | some s' =>
        have := hg s s' hgs hs
        simp only [List.mem_cons]
        constructor
        · rintro (h | h)
          · subst h; exact absurd this hx
          · right; exact h
        · rintro (h | h)
          · subst h; exact absurd hs hx
          · right; exact h
      | none =>
        simp only [List.mem_cons]
        constructor
        · intro h; right; exact h
        · rintro (h | h)
          · subst h; exact absurd hs hx
          · exact h
    · simp only [List.mem_cons, ih]

theorem promote_other (id : Nat) (c : Config) (x : Server) (hx : x.id ≠ id) :
    x ∈ applyChange.go ⟨.promote, id, 0, 0⟩ c ↔ x ∈ c := by
  induction c with
  | nil => simp [applyChange.go]
  | cons s rest ih =>
    simp only [applyChange.go]
    split
    · rename_i hs
      simp only [List.mem_cons]
      constructor
      · rintro (h | h)
        · subst h; exact absurd hs.1 hx
        · right; exact h
      · rintro (h | h)
        · subst h; exact absurd hs.1 hx
        · right; exact h
    · simp only [List.mem_cons, ih]

theorem promote_go_congr (ch : Change) (c : Config) :
    applyChange.go ch c = applyChange.go ⟨.promote, ch.serverID, 0, 0⟩ c := by
  induction c with
  | nil => rfl
  | cons s rest ih => simp only [applyChange.go, ih]

/-- **One server at a time.**  Whatever the command, every server entry whose id is not the one the
    request names is in the new configuration iff it was in the old one, unchanged. -/
theorem applyChange_touches_only_target (c : Config) (ch : Change) (x : Server) (hx : x.id ≠ ch.serverID) :
    x ∈ applyChange c ch ↔ x ∈ c := by
  unfold applyChange
  cases hcmd : ch.cmd with
  | addVoter =>
    simp only []
    split
    · apply modifyFirst_other _ _ _ c x hx
      intro s s' h hs
      split at h <;> cases h <;> simp [hs]
    · simp only [List.mem_append, List.mem_singleton]
      constructor
      · rintro (h | h)
        · exact h
        · subst h; exact absurd rfl hx
      · intro h; left; exact h
  | addNonvoter =>
    simp only []
    split
    · apply modifyFirst_other _ _ _ c x hx
      intro s s' h hs
      split at h <;> cases h <;> simp [hs]
    · simp only [List.mem_append, List.mem_singleton]
      constructor
      · rintro (h | h)
        · exact h
        · subst h; exact absurd rfl hx
      · intro h; left; exact h
  | demoteVoter =>
    simp only []
    apply modifyFirst_other _ _ _ c x hx
    intro s s' h hs; cases h; exact hs
  | removeServer =>
    simp only []
    apply modifyFirst_other _ _ _ c x hx
    intro s s' h; cases h
  | promote =>
    simp only []
    rw [promote_go_congr]
    exact promote_other _ c x hx

def isVoter (c : Config) (id : Nat) : Prop := ∃ s ∈ c, s.id = id ∧ s.suffrage = .voter

/-- **C07, delta.**  The voter sets of a configuration and its successor differ at most on the
    server the request names: every other id is a voter after iff it was before. -/
theorem next_config_delta_le_one_voter (c : Config) (idx : Nat) (ch : Change) (c' : Config)
    (h : nextConfiguration c idx ch = some c') (x : Nat) (hx : x ≠ ch.serverID) :
    isVoter c' x ↔ isVoter c x := by
  unfold nextConfiguration at h
  split at h
  · cases h
  · simp only [] at h
    split at h
    · cases h
      constructor
      · rintro ⟨s, hs, h1, h2⟩
        exact ⟨s, (applyChange_touches_only_target c ch s (by rw [h1]; exact hx)).mp hs, h1, h2⟩
      · rintro ⟨s, hs, h1, h2⟩
        exact ⟨s, (applyChange_touches_only_target c ch s (by rw [h1]; exact hx)).mpr hs, h1, h2⟩
    · cases h

/-- a stale `prevIndex` is refused -/
theorem stale_prev_index_rejected (c : Config) (idx : Nat) (ch : Change)
    (h : ch.prevIndex > 0 ∧ ch.prevIndex ≠ idx) : nextConfiguration c idx ch = none := by
  simp [nextConfiguration, h]

/-! ## what `checkConfiguration` means -/

theorem check_spec (c : Config) (ids addrs : List Nat) (v : Nat) (h : check c ids addrs v = true) :
    (∀ s ∈ c, s.id ≠ 0 ∧ s.addr ≠ 0 ∧ s.id ∉ ids ∧ s.addr ∉ addrs) ∧
    (c.map (·.id)).Nodup ∧ (c.map (·.addr)).Nodup ∧
    (v ≠ 0 ∨ ∃ s ∈ c, s.suffrage = .voter) := by
  induction c generalizing ids addrs v with
  | nil => simp [check] at h; simp [h]
  | cons s rest ih =>
    simp only [check] at h
    split at h; · cases h
    split at h; · cases h
    split at h; · cases h
    split at h; · cases h
    rename_i h1 h2 h3 h4
    obtain ⟨a, b, c', d⟩ := ih _ _ _ h
    have h3' : s.id ∉ ids := by simpa using h3
    have h4' : s.addr ∉ addrs := by simpa using h4
    refine ⟨?_, ?_, ?_, ?_⟩
    · intro t ht
      rcases List.mem_cons.mp ht with rfl | ht
      · exact ⟨h1, h2, h3', h4'⟩
      · obtain ⟨p, q, r, w⟩ := a t ht
        exact ⟨p, q, fun x => r (List.mem_cons_of_mem _ x), fun x => w (List.mem_cons_of_mem _ x)⟩
    · simp only [List.map_cons, List.nodup_cons]
      refine ⟨?_, b⟩
      intro hm
      obtain ⟨t, ht, e⟩ := List.mem_map.mp hm
      exact (a t ht).2.2.1 (by rw [e]; exact List.mem_cons_self)
    · simp only [List.map_cons, List.nodup_cons]
      refine ⟨?_, c'⟩
      intro hm
      obtain ⟨t, ht, e⟩ := List.mem_map.mp hm
      exact (a t ht).2.2.2 (by rw [e]; exact List.mem_cons_self)
    · by_cases hv : s.suffrage = .voter
      · right; exact ⟨s, List.mem_cons_self, hv⟩
      · simp only [hv, if_false] at d
        rcases d with d | ⟨t, ht, e⟩
        · left; exact d
        · right; exact ⟨t, List.mem_cons_of_mem _ ht, e⟩

/-- **C07, well-formedness.**  Every configuration `nextConfiguration` returns has non-empty, unique
    ids and addresses and at least one voter. -/
theorem next_config_wellformed (c : Config) (idx : Nat) (ch : Change) (c' : Config)
    (h : nextConfiguration c idx ch = some c') :
    (∀ s ∈ c', s.id ≠ 0 ∧ s.addr ≠ 0) ∧ (c'.map (·.id)).Nodup ∧ (c'.map (·.addr)).Nodup ∧
    ∃ s ∈ c', s.suffrage = .voter := by
  unfold nextConfiguration at h
  split at h
  · cases h
  · simp only [] at h
    split at h
    · rename_i hc
      cases h
      obtain ⟨a, b, c2, d⟩ := check_spec _ _ _ _ hc
      refine ⟨fun s hs => ⟨(a s hs).1, (a s hs).2.1⟩, b, c2, ?_⟩
      rcases d with d | d
      · exact absurd rfl d
      · exact d
    · cases h

/-! ## non-vacuity and the corner cases the code has -/

def c3 : Config := [⟨.voter, 1, 11⟩, ⟨.voter, 2, 12⟩, ⟨.staging, 3, 13⟩, ⟨.nonvoter, 4, 14⟩]

example : nextConfiguration c3 7 ⟨.promote, 3, 0, 7⟩ =
    some [⟨.voter, 1, 11⟩, ⟨.voter, 2, 12⟩, ⟨.voter, 3, 13⟩, ⟨.nonvoter, 4, 14⟩] := by decide
example : nextConfiguration c3 7 ⟨.promote, 4, 0, 0⟩ = some c3 := by decide          -- not staging: no-op
example : nextConfiguration c3 7 ⟨.addNonvoter, 1, 99, 0⟩ =
    some [⟨.voter, 1, 99⟩, ⟨.voter, 2, 12⟩, ⟨.staging, 3, 13⟩, ⟨.nonvoter, 4, 14⟩] := by decide  -- a voter stays a voter
example : nextConfiguration c3 7 ⟨.addVoter, 5, 12, 0⟩ = none := by decide            -- duplicate address
example : nextConfiguration [⟨.voter, 1, 11⟩] 7 ⟨.removeServer, 1, 0, 0⟩ = none := by decide  -- last voter
example : nextConfiguration c3 7 ⟨.removeServer, 2, 0, 6⟩ = none := by decide          -- stale prevIndex

end CF
#print axioms CF.next_config_delta_le_one_voter
#print axioms CF.next_config_wellformed
