import RaftVerif.Model.NextConfig
import RaftVerif.Model.Compaction
/-! # One server: durable state, volatile state, and the RPC handlers as *write plans*

Transcription of `raft.go` (`appendEntries`, `requestVote`, `requestPreVote`, `installSnapshot`,
`timeoutNow`, `processLogs`, `processConfigurationLogEntry`), `api.go` (`NewRaft`: term, last log,
`restoreSnapshot`, `restoreFromCommittedLogs`, configuration scan), `inmem_store.go`,
`inmem_snapshot.go` (one snapshot kept), `snapshot.go` (`compactLogs`, `removeOldLogs`).

A handler is a pure function from the pre-state to a `Plan`: the ordered durable writes, each
tagged with the complete result (response, volatile state, FSM calls so far) the handler ends with
if *that* write fails, plus the final result.  `exec` runs a plan under a failure ordinal and a
crash ordinal; a crash keeps a prefix of the writes.  Core Lean only; everything structurally
recursive. -/
namespace SV
open CF (Config)

/-- log entry; `kind`: 0 command, 1 noop, 2 add-peer (deprecated), 3 remove-peer (deprecated),
    4 barrier, 5 configuration.  `cfg` is the decoded payload of a configuration entry. -/
structure Entry where
  index : Nat
  term : Nat
  kind : Nat
  data : Nat
  cfg : Config
deriving DecidableEq, Repr

structure Snap where
  idx : Nat
  term : Nat
  cfgIdx : Nat
  cfg : Config
  data : List Nat          -- the FSM content (list of applied payloads)
  ok : Bool := true        -- can it still be opened and read back (false: damaged on disk)
deriving DecidableEq, Repr

/-- the durable state: StableStore keys, the InmemStore log (entries ascending by index, possibly
    with gaps, plus its low/high bookkeeping), the staged commit index of a commit-tracking store,
    and the snapshot store (closed snapshots only, newest first as `List` returns them) -/
structure Durable where
  curTerm : Nat
  voteTerm : Nat
  voteCand : Option Nat
  log : List Entry
  low : Nat
  high : Nat
  staged : Nat
  snaps : List Snap        -- newest first by (term, index)
deriving DecidableEq, Repr

inductive Role | follower | candidate | leader
deriving DecidableEq, Repr

structure Vol where
  term : Nat
  role : Role
  lastLogIdx : Nat
  lastLogTerm : Nat
  snapIdx : Nat
  snapTerm : Nat
  commit : Nat
  applied : Nat
  latest : Config
  latestIdx : Nat
  committed : Config
  committedIdx : Nat
  leader : Nat          -- address, 0 = none
  leaderId : Nat
  transfer : Bool       -- candidateFromLeadershipTransfer
deriving DecidableEq, Repr

/-- static configuration of the instance -/
structure Cfg where
  monotonic : Bool        -- log store is a MonotonicLogStore
  restoreCommitted : Bool -- RestoreCommittedLogs with a commit-tracking store
  trailing : Nat          -- TrailingLogs
  maxAE : Nat             -- MaxAppendEntries (batch size of processLogs)
  noPreVote : Bool := false   -- PreVoteDisabled
deriving DecidableEq, Repr

inductive FsmCall
  | apply (idx term data : Nat)
  | restore (data : List Nat)
deriving DecidableEq, Repr

inductive Write
  | setTerm (t : Nat)
  | setVoteTerm (t : Nat)
  | setVoteCand (c : Nat)
  | deleteRange (lo hi : Nat)
  | storeLogs (es : List Entry)
  | stage (i : Nat)
  | snapSave (s : Snap)
deriving DecidableEq, Repr

/-! ## the log store (inmem_store.go) -/

def getLog (l : List Entry) (i : Nat) : Option Entry := l.find? (·.index = i)

/-- insert or replace, keeping the list ascending by index -/
def putEntry (e : Entry) : List Entry → List Entry
  | [] => [e]
  | x :: xs => if e.index < x.index then e :: x :: xs
               else if e.index = x.index then e :: xs
               else x :: putEntry e xs

def storeOne (d : Durable) (e : Entry) : Durable :=
  { d with log := putEntry e d.log
           low := if d.low = 0 then e.index else d.low
           high := if e.index > d.high then e.index else d.high }

def deleteRangeD (d : Durable) (lo hi : Nat) : Durable :=
  let low' := if lo ≤ d.low then hi + 1 else d.low
  -- (`lo - 1` is 0 when `lo = 0`: the repaired InmemStore no longer wraps there)
  let high' := if hi ≥ d.high then lo - 1 else d.high
  { d with log := d.log.filter (fun e => ¬ (lo ≤ e.index ∧ e.index ≤ hi))
           low := if low' > high' then 0 else low'
           high := if low' > high' then 0 else high' }

/-- insert a closed snapshot, keeping the list newest-first by (term, index); an equal key is replaced -/
def insertSnap (s : Snap) : List Snap → List Snap
  | [] => [s]
  | x :: xs =>
    if s.term > x.term ∨ (s.term = x.term ∧ s.idx > x.idx) then s :: x :: xs
    else if s.term = x.term ∧ s.idx = x.idx then s :: xs
    else x :: insertSnap s xs

def Write.apply (d : Durable) : Write → Durable
  | .setTerm t => { d with curTerm := t }
  | .setVoteTerm t => { d with voteTerm := t }
  | .setVoteCand c => { d with voteCand := some c }
  | .deleteRange lo hi => deleteRangeD d lo hi
  | .storeLogs es => es.foldl storeOne d
  | .stage i => { d with staged := i }
  | .snapSave s => { d with snaps := insertSnap s d.snaps }

def applyAll (d : Durable) (ws : List Write) : Durable := ws.foldl Write.apply d

/-! ## plans -/

inductive Resp
  | vote (term : Nat) (granted : Bool)
  | prevote (term : Nat) (granted : Bool)
  | append (term lastLog : Nat) (success noRetry : Bool)
  | install (term : Nat) (success : Bool) (err : Bool)
  | timeoutNow
  | snap (ok : Bool)       -- takeSnapshot: nil / an error
  -- one pass of the candidate loop: the peers asked for a pre-vote / a vote, and what every request carried
  | campaigned (preAsked voteAsked : List Nat) (term lastIdx lastTerm : Nat) (transfer : Bool)
  | none
deriving DecidableEq, Repr

structure Res where
  resp : Resp
  vol : Vol
  fsm : List FsmCall
  panic : Bool
deriving DecidableEq, Repr

structure Plan where
  steps : List (Write × Res)     -- the write, and the whole result if it fails
  final : Res

def Plan.writes (p : Plan) : List Write := p.steps.map (·.1)

/-- writes whose failure the harness can inject (a failed `StageCommitIndex` is only logged by the
    real code and the snapshot sink is not failed) -/
def Write.failable : Write → Bool
  | .stage _ => false
  | .snapSave _ => false
  | _ => true

/-- run a plan: the write with (0-based) ordinal `failAt` returns an error (if it is a failable
    one); a crash at ordinal `crashAt` kills the process before that write.  Result: outcome,
    performed writes. -/
def exec (p : Plan) (failAt crashAt : Option Nat) : Res × List Write :=
  let crashCut : Option Nat := match crashAt with
    | some c => if c < p.steps.length then some c else none
    | none => none
  let failCut : Option Nat := match failAt with
    | some f => (match p.steps[f]? with
                 | some (w, _) => if w.failable then some f else none
                 | none => none)
    | none => none
  let cut : Option (Nat × Bool) :=
    match failCut, crashCut with
    | some f, some c => if c ≤ f then some (c, true) else some (f, false)
    | some f, none => some (f, false)
    | none, some c => some (c, true)
    | none, none => none
  match cut with
  | none => (p.final, p.writes)
  | some (k, isCrash) =>
    match p.steps[k]? with
    | some (_, r) => (if isCrash then { r with panic := true } else r, p.writes.take k)
    | none => (p.final, p.writes)

/-! ## helpers read off the code -/

def inConfiguration (c : Config) (id : Nat) : Bool := c.any (·.id = id)

/-- `hasVote`: the first server with this id decides -/
def hasVote : Config → Nat → Bool
  | [], _ => false
  | s :: rest, id => if s.id = id then s.suffrage = .voter else hasVote rest id

/-- `getLastIndex` = max(lastLogIndex, lastSnapshotIndex) -/
def lastIndex (v : Vol) : Nat := max v.lastLogIdx v.snapIdx

/-- `getLastEntry` -/
def lastEntry (v : Vol) : Nat × Nat :=
  if v.lastLogIdx ≥ v.snapIdx then (v.lastLogIdx, v.lastLogTerm) else (v.snapIdx, v.snapTerm)

/-- is an entry handed to the FSM goroutine by `prepareLog` (protocol version 3) -/
def fsmVisible (e : Entry) : Bool := e.kind = 0 || e.kind = 4 || e.kind = 5

/-- the FSM calls `processLogs(index)` causes (plain FSM: `Apply` for commands only), or `none` if
    an index in `(applied, index]` is missing from the store (the real code panics) -/
def processLogsFrom (log : List Entry) : (n : Nat) → (start : Nat) → Option (List FsmCall)
  | 0, _ => some []
  | n + 1, start =>
    match getLog log start with
    | none => none
    | some e =>
      match processLogsFrom log n (start + 1) with
      | none => none
      | some rest => some (if e.kind = 0 then .apply e.index e.term e.data :: rest else rest)

def processLogs (log : List Entry) (applied index : Nat) : Option (List FsmCall) :=
  if index ≤ applied then some [] else processLogsFrom log (index - applied) (applied + 1)

/-- `processConfigurationLogEntry` for each new entry, in order -/
def processConfigEntries (v : Vol) : List Entry → Vol
  | [] => v
  | e :: rest =>
    if e.kind = 5 then
      processConfigEntries { v with committed := v.latest, committedIdx := v.latestIdx, latest := e.cfg, latestIdx := e.index } rest
    else processConfigEntries v rest

def stepDown (v : Vol) (t : Nat) : Vol := { v with role := .follower, leader := 0, leaderId := 0, term := t }

/-! ## RequestVote (raft.go:1626) -/

structure VoteReq where
  cand : Nat        -- candidate address (the bytes stored as the vote)
  candId : Nat      -- candidate id; 0 = request without an ID (old protocol)
  term : Nat
  lastIdx : Nat
  lastTerm : Nat
  transfer : Bool
deriving DecidableEq, Repr

def mkRes (r : Resp) (v : Vol) : Res := ⟨r, v, [], false⟩

/-- the term write of RequestVote, if the request carries a newer term -/
def votePre (v : Vol) (q : VoteReq) : List (Write × Res) :=
  if q.term > v.term then
    [(.setTerm q.term, { mkRes (.vote v.term false) { v with role := .follower, leader := 0, leaderId := 0 } with panic := true })]
  else []

def voteVol1 (v : Vol) (q : VoteReq) : Vol := if q.term > v.term then stepDown v q.term else v

def votePlan (d : Durable) (v : Vol) (q : VoteReq) : Plan :=
  let no (t : Nat) (v' : Vol) : Res := mkRes (.vote t false) v'
  if q.candId ≠ 0 ∧ v.latest ≠ [] ∧ ¬ inConfiguration v.latest q.candId then ⟨[], no v.term v⟩
  else if v.leader ≠ 0 ∧ v.leader ≠ q.cand ∧ ¬ q.transfer then ⟨[], no v.term v⟩
  else if q.term < v.term then ⟨[], no v.term v⟩
  else
    let pre := votePre v q
    let v1 := voteVol1 v q
    let t1 := v1.term
    if q.candId ≠ 0 ∧ v.latest ≠ [] ∧ ¬ hasVote v.latest q.candId then ⟨pre, no t1 v1⟩
    else
      -- the log comparison comes first: a recorded vote never stands in for it
      let le := lastEntry v1
      if le.2 > q.lastTerm then ⟨pre, no t1 v1⟩
      else if le.2 = q.lastTerm ∧ le.1 > q.lastIdx then ⟨pre, no t1 v1⟩
      else if d.voteTerm = q.term ∧ d.voteCand.isSome then
        ⟨pre, mkRes (.vote t1 (d.voteCand = some q.cand)) v1⟩
      else ⟨pre ++ [(.setVoteTerm q.term, no t1 v1), (.setVoteCand q.cand, no t1 v1)], mkRes (.vote t1 true) v1⟩

/-! ## RequestPreVote (raft.go:1759): no write, no state change -/

def preVoteResp (v : Vol) (q : VoteReq) : Resp :=
  if v.latest ≠ [] ∧ ¬ inConfiguration v.latest q.candId then .prevote v.term false
  else if v.leader ≠ 0 ∧ v.leader ≠ q.cand then .prevote v.term false
  else if q.term < v.term then .prevote v.term false
  else
    let t1 := if q.term > v.term then q.term else v.term
    if v.latest ≠ [] ∧ ¬ hasVote v.latest q.candId then .prevote t1 false
    else
      let le := lastEntry v
      if le.2 > q.lastTerm then .prevote t1 false
      else if le.2 = q.lastTerm ∧ le.1 > q.lastIdx then .prevote t1 false
      else .prevote t1 true

def preVotePlan (v : Vol) (q : VoteReq) : Plan := ⟨[], mkRes (preVoteResp v q) v⟩

/-- `reloadLastLog`: the cached last-log position re-read from the store (reset if the read fails) -/
def reloadLast (d : Durable) (v : Vol) : Vol :=
  if d.high = 0 then { v with lastLogIdx := 0, lastLogTerm := 0 }
  else match getLog d.log d.high with
    | some e => { v with lastLogIdx := e.index, lastLogTerm := e.term }
    | none => { v with lastLogIdx := 0, lastLogTerm := 0 }     -- unreadable: nothing assumed

/-- does the server hold `(idx, term)`: as its snapshot's last entry, or in the log (`holdsEntry`) -/
def holdsEntry (d : Durable) (v : Vol) (idx term : Nat) : Bool :=
  if idx = v.snapIdx ∧ idx > 0 then term = v.snapTerm
  else if idx = 0 ∨ idx > v.lastLogIdx then false
  else match getLog d.log idx with
    | some e => e.term = term
    | none => false

/-- can `reloadLastLog` read the store's last entry -/
def reloadable (_d : Durable) : Bool := true

/-! ## AppendEntries (raft.go:1458) -/

structure AEReq where
  leader : Nat      -- address
  leaderId : Nat
  term : Nat
  prevIdx : Nat
  prevTerm : Nat
  commit : Nat
  entries : List Entry
deriving DecidableEq, Repr

/-- the scan over the sent entries: `none` = a stored entry could not be read (return, no success);
    otherwise the optional conflict index to truncate from and the entries to append -/
def scanEntries (log : List Entry) (lastLogIdx snapIdx : Nat) : List Entry → Option (Option Nat × List Entry)
  | [] => some (none, [])
  | e :: rest =>
    if e.index ≤ snapIdx then scanEntries log lastLogIdx snapIdx rest      -- covered by the snapshot
    else if e.index > lastLogIdx then some (none, e :: rest)
    else match getLog log e.index with
      | none => none
      | some se => if e.term ≠ se.term then some (some e.index, e :: rest) else scanEntries log lastLogIdx snapIdx rest

def lastOf (es : List Entry) (dflt : Entry) : Entry := es.getLastD dflt

/-- does this request make the server step down (and persist the term) -/
def aeDown (v : Vol) (a : AEReq) : Prop := a.term > v.term ∨ (v.role ≠ .follower ∧ ¬ v.transfer)

instance (v : Vol) (a : AEReq) : Decidable (aeDown v a) := by unfold aeDown; infer_instance

def aeFail (v0 : Vol) (v' : Vol) (noRetry : Bool) (t : Nat) : Res := mkRes (.append t (lastIndex v0) false noRetry) v'

/-- the term write, if any -/
def aePre (v : Vol) (a : AEReq) : List (Write × Res) :=
  if aeDown v a then [(.setTerm a.term, { aeFail v { v with role := .follower, leader := 0, leaderId := 0 } false v.term with panic := true })] else []

/-- volatile state after the term / role / leader updates -/
def aeVol2 (v : Vol) (a : AEReq) : Vol :=
  let v1 : Vol := if aeDown v a then stepDown v a.term else v
  { v1 with leader := a.leader, leaderId := a.leaderId }

/-- the previous-entry check: `none` = the entry could not be read -/
def aePrevOk (d : Durable) (v2 : Vol) (a : AEReq) : Option Bool :=
  if a.prevIdx = 0 then some true
  else
    let le := lastEntry v2
    if a.prevIdx = le.1 then some (a.prevTerm = le.2)
    else if a.prevIdx = v2.snapIdx then some (a.prevTerm = v2.snapTerm)   -- the snapshot boundary
    else if a.prevIdx < v2.snapIdx then some true                         -- covered by the snapshot
    else match getLog d.log a.prevIdx with
      | none => none
      | some pe => some (a.prevTerm = pe.term)

/-- only entries this request covers are known to match the leader's log -/
def aeLastCovered (a : AEReq) : Nat :=
  match a.entries.getLast? with
  | some e => e.index
  | none => a.prevIdx

/-- the new commit index, and the latest configuration becoming the committed one -/
def aeCommitVol (v3 : Vol) (idx : Nat) : Vol :=
  let v4 : Vol := { v3 with commit := idx }
  if v4.latestIdx ≤ idx then { v4 with committed := v4.latest, committedIdx := v4.latestIdx } else v4

def aeApplied (v5 : Vol) (idx : Nat) : Vol := if idx ≤ v5.applied then v5 else { v5 with applied := idx }

/-- the commit-index update and `processLogs`, after everything has been stored -/
def aeFinish (v0 : Vol) (t1 : Nat) (a : AEReq) (steps : List (Write × Res)) (dlog : List Entry) (v3 : Vol) : Plan :=
  let idx := min a.commit (aeLastCovered a)
  if a.commit > 0 ∧ a.commit > v3.commit ∧ idx > v3.commit then
    let v5 := aeCommitVol v3 idx
    match processLogs dlog v5.applied idx with
    | none => ⟨steps, { mkRes .none v5 with panic := true }⟩
    | some calls => ⟨steps, ⟨.append t1 (lastIndex v0) true false, aeApplied v5 idx, calls, false⟩⟩
  else ⟨steps, mkRes (.append t1 (lastIndex v0) true false) v3⟩

/-- the entries part: scan, truncate from the first conflict, stage, store, configurations -/
def aeBody (cf : Cfg) (d : Durable) (v : Vol) (a : AEReq) (pre : List (Write × Res)) (v2 : Vol) (t1 : Nat) : Plan :=
  if a.entries = [] then aeFinish v t1 a pre d.log v2
  else
    match scanEntries d.log v2.lastLogIdx v2.snapIdx a.entries with
    | none => ⟨pre, aeFail v v2 false t1⟩
    | some (conflict, newEntries) =>
      let (steps1, dlog1, v3, reloadOk) : List (Write × Res) × List Entry × Vol × Bool :=
        match conflict with
        | none => (pre, d.log, v2, true)
        | some ci =>
          let d1 := deleteRangeD d ci v2.lastLogIdx
          -- the cached last log entry is reloaded from the truncated store
          let v3 : Vol := reloadLast d1 v2
          let v3' : Vol := if ci ≤ v2.latestIdx then { v3 with latest := v2.committed, latestIdx := v2.committedIdx } else v3
          (pre ++ [(.deleteRange ci v2.lastLogIdx, aeFail v v2 false t1)], d1.log, (if reloadable d1 then v3' else v2), reloadable d1)
      if !reloadOk then ⟨steps1, aeFail v v3 false t1⟩
      else if newEntries = [] then aeFinish v t1 a steps1 dlog1 v3
      else
        let dflt : Entry := ⟨0, 0, 0, 0, []⟩
        let lastNew := lastOf newEntries dflt
        let stageSteps : List (Write × Res) :=
          if cf.restoreCommitted then [(.stage (min a.commit lastNew.index), aeFail v v3 false t1)] else []
        let steps2 := steps1 ++ stageSteps ++ [(.storeLogs newEntries, aeFail v v3 false t1)]
        let dlog2 := (newEntries.foldl storeOne { d with log := dlog1 }).log
        let v4 := processConfigEntries v3 newEntries
        let v5 : Vol := { v4 with lastLogIdx := lastNew.index, lastLogTerm := lastNew.term }
        aeFinish v t1 a steps2 dlog2 v5

def aePlan (cf : Cfg) (d : Durable) (v : Vol) (a : AEReq) : Plan :=
  if a.term < v.term then ⟨[], aeFail v v false v.term⟩
  else
    let pre := aePre v a
    let v2 := aeVol2 v a
    let t1 := v2.term
    match aePrevOk d v2 a with
    | none => ⟨pre, aeFail v v2 true t1⟩
    | some false => ⟨pre, aeFail v v2 true t1⟩
    | some true => aeBody cf d v a pre v2 t1

/-! ## InstallSnapshot (raft.go:1837) -/

structure ISReq where
  leader : Nat
  leaderId : Nat
  term : Nat
  lastIdx : Nat
  lastTerm : Nat
  cfgIdx : Nat
  cfg : Config
  data : List Nat
  sizeOk : Bool      -- the streamed body has the announced size
deriving DecidableEq, Repr

/-- does this InstallSnapshot make the server step down and persist the term (as `aeDown`: a newer
    term, or a same-term request reaching a server that is not a follower) -/
def isDown (v : Vol) (q : ISReq) : Prop := q.term > v.term ∨ (v.role ≠ .follower ∧ ¬ v.transfer)

instance (v : Vol) (q : ISReq) : Decidable (isDown v q) := by unfold isDown; infer_instance

/-- the term write of InstallSnapshot, if any -/
def isPre (v : Vol) (q : ISReq) : List (Write × Res) :=
  if isDown v q then
    [(.setTerm q.term, { mkRes (.install v.term false false) { v with role := .follower, leader := 0, leaderId := 0 } with panic := true })]
  else []

/-- volatile state after the term / role / leader updates -/
def isVol2 (v : Vol) (q : ISReq) : Vol :=
  let v1 : Vol := if isDown v q then stepDown v q.term else v
  { v1 with leader := q.leader, leaderId := q.leaderId }

/-- everything after the term part: the writes (snapshot, truncation, compaction) and the answer -/
def isTail (cf : Cfg) (d : Durable) (v2 : Vol) (q : ISReq) : List (Write × Res) × Res :=
  let t1 := v2.term
  -- a snapshot the state machine is already past: acknowledged, nothing touched
  if q.lastIdx ≤ v2.applied ∨ holdsEntry d v2 q.lastIdx q.lastTerm then ([], mkRes (.install t1 true false) v2)
  else if ¬ q.sizeOk then ([], mkRes (.install t1 false true) v2)       -- sink cancelled, "short read"
  else
    let s : Snap := ⟨q.lastIdx, q.lastTerm, q.cfgIdx, q.cfg, q.data, true⟩
    let v3 : Vol := { v2 with applied := q.lastIdx, snapIdx := q.lastIdx, snapTerm := q.lastTerm,
                              latest := q.cfg, latestIdx := q.cfgIdx, committed := q.cfg, committedIdx := q.cfgIdx }
    if cf.monotonic then
      -- removeOldLogs: the whole store goes; then the cached position is reloaded
      let del := CP.compactRange d.high d.high 0 d.low
      let d1 := match del with | some (lo, hi) => deleteRangeD d lo hi | none => d
      let v4 := reloadLast d1 v3
      let res : Res := ⟨.install t1 true false, v4, [.restore q.data], false⟩
      ([(.snapSave s, res)] ++ (match del with | some (lo, hi) => [(.deleteRange lo hi, res)] | none => []), res)
    else
      -- drop the unverified suffix from the snapshot index on, reload, compact below the snapshot
      let delA : Option (Nat × Nat) := if v3.lastLogIdx ≥ q.lastIdx then some (q.lastIdx, v3.lastLogIdx) else none
      let dA := match delA with | some (lo, hi) => deleteRangeD d lo hi | none => d
      let vA := reloadLast dA v3
      let delB := CP.compactRange q.lastIdx vA.lastLogIdx cf.trailing dA.low
      let dB := match delB with | some (lo, hi) => deleteRangeD dA lo hi | none => dA
      let vB := reloadLast dB vA
      let res : Res := ⟨.install t1 true false, vB, [.restore q.data], false⟩
      ([(.snapSave s, res)]
           ++ (match delA with | some (lo, hi) => [(.deleteRange lo hi, res)] | none => [])
           ++ (match delB with | some (lo, hi) => [(.deleteRange lo hi, res)] | none => []), res)

def isPlan (cf : Cfg) (d : Durable) (v : Vol) (q : ISReq) : Plan :=
  if q.term < v.term then ⟨[], mkRes (.install v.term false false) v⟩
  else ⟨isPre v q ++ (isTail cf d (isVol2 v q) q).1, (isTail cf d (isVol2 v q) q).2⟩

/-! ## TimeoutNow (raft.go:2232) -/

def timeoutNowPlan (v : Vol) : Plan :=
  ⟨[], mkRes .timeoutNow { v with leader := 0, leaderId := 0, role := .candidate, transfer := true }⟩

/-! ## takeSnapshot (snapshot.go:126) and the FSM goroutine's own position (fsm.go) -/

/-- the FSM goroutine's `lastIndex, lastTerm` after it has been handed the entries of
    `start .. start+n-1` -/
def fsmAdvance (log : List Entry) : (n : Nat) → (start : Nat) → Nat × Nat → Nat × Nat
  | 0, _, p => p
  | n + 1, start, p =>
    match getLog log start with
    -- plain FSM (no ConfigurationStore, no batching): commands and barriers move the position; a
    -- configuration entry returns early from `applySingle` without touching it
    | some e => fsmAdvance log n (start + 1) (if e.kind = 0 ∨ e.kind = 4 then (e.index, e.term) else p)
    | none => fsmAdvance log n (start + 1) p

/-- the FSM's content after a list of calls -/
def fsmDataAfter (data : List Nat) : List FsmCall → List Nat
  | [] => data
  | .apply _ _ d :: rest => fsmDataAfter (data ++ [d]) rest
  | .restore d :: rest => fsmDataAfter d rest

/-- `takeSnapshot`: the FSM goroutine's position and content, the *committed* configuration (refused
    while that configuration's entry is above the FSM's position), the snapshot made durable, the
    cached snapshot position advanced (never moved back), then `compactLogs` -/
def snapPlan (cf : Cfg) (d : Durable) (v : Vol) (fpos : Nat × Nat) (fdata : List Nat) : Plan :=
  if fpos.1 = 0 then ⟨[], mkRes (.snap false) v⟩                     -- ErrNothingNewToSnapshot
  else if fpos.1 < v.committedIdx then ⟨[], mkRes (.snap false) v⟩
  else
    let s : Snap := ⟨fpos.1, fpos.2, v.committedIdx, v.committed, fdata, true⟩
    let v1 : Vol := if fpos.1 > v.snapIdx then { v with snapIdx := fpos.1, snapTerm := fpos.2 } else v
    match CP.compactRange fpos.1 v.lastLogIdx cf.trailing d.low with
    | none => ⟨[(.snapSave s, mkRes (.snap false) v)], mkRes (.snap true) v1⟩
    | some (lo, hi) =>
      ⟨[(.snapSave s, mkRes (.snap false) v), (.deleteRange lo hi, mkRes (.snap false) v1)], mkRes (.snap true) v1⟩

/-! ## one pass of the candidate loop (raft.go: runCandidate, preElectSelf, electSelf) -/

/-- what one peer answers (the harness delivers the answers in ascending order of peer id, the
    candidate's own vote first, as the real channel does) -/
structure PeerResp where
  id : Nat
  pvErr : Nat          -- pre-vote: 0 = an answer, 1 = transport error, 2 = "unexpected command" (no pre-vote support)
  pvTerm : Nat
  pvGranted : Bool
  vErr : Bool          -- vote: transport error
  vTerm : Nat
  vGranted : Bool
deriving DecidableEq, Repr

/-- the server's own identity in the harness -/
def selfId : Nat := 1
def selfAddr : Nat := 11

/-- the voters a candidate turns to: every voter of its latest configuration but itself -/
def votersToAsk (c : Config) : List Nat := (c.filter (fun s => s.suffrage = .voter ∧ s.id ≠ selfId)).map (·.id)

def quorumOf (c : Config) : Nat := (c.filter (fun s => s.suffrage = .voter)).length / 2 + 1

inductive Tally
  | won                   -- the quorum was reached
  | higher (t : Nat)      -- an answer carried a newer term
  | open                  -- neither, when the answers ran out (the election times out)
deriving DecidableEq, Repr

/-- count answers `(term, granted)` in arrival order until the quorum, or a newer term, is seen -/
def tally (needed limit : Nat) : Nat → List (Nat × Bool) → Tally
  | _, [] => .open
  | g, (t, ok) :: rest =>
    if t > limit then .higher t
    else
      let g' := if ok then g + 1 else g
      if g' ≥ needed then .won else tally needed limit g' rest

/-- the answers to the pre-vote round as the candidate sees them -/
def preVoteAnswers (term' : Nat) (asked : List Nat) (rs : List PeerResp) : List (Nat × Bool) :=
  asked.filterMap (fun id => (rs.find? (·.id = id)).map (fun r =>
    if r.pvErr = 1 then (term', false) else if r.pvErr = 2 then (term', true) else (r.pvTerm, r.pvGranted)))

def voteAnswers (term' : Nat) (asked : List Nat) (rs : List PeerResp) : List (Nat × Bool) :=
  asked.filterMap (fun id => (rs.find? (·.id = id)).map (fun r =>
    if r.vErr then (term', false) else (r.vTerm, r.vGranted)))

/-- all failure results of a campaign's writes are "the process dies" (setCurrentTerm panics; the
    harness injects no fault here) -/
def campDead (v : Vol) : Res := { mkRes .none v with panic := true }

def campAsked (v : Vol) : List Nat := (votersToAsk v.latest).mergeSort (· ≤ ·)

/-- the candidate's own (pre-)vote, if it is a voter of its latest configuration -/
def campSelf (v : Vol) : List (Nat × Bool) := if hasVote v.latest selfId then [(v.term + 1, true)] else []

def campDone (v' : Vol) : Vol := { v' with transfer := false }

/-- what was asked of whom (what the requests carried is observable only if some were sent; the
    transfer flag only on vote requests) -/
def campSaid (v : Vol) (pre vote : List Nat) : Resp :=
  if pre = [] ∧ vote = [] then .campaigned [] [] 0 0 0 false
  else .campaigned pre vote (v.term + 1) (lastEntry v).1 (lastEntry v).2 (vote ≠ [] ∧ v.transfer)

/-- the term write and the candidate's own vote -/
def campBase (v : Vol) : List (Write × Res) :=
  (.setTerm (v.term + 1), campDead v) ::
    (if hasVote v.latest selfId then
      [(.setVoteTerm (v.term + 1), campDead { v with term := v.term + 1 }),
       (.setVoteCand selfAddr, campDead { v with term := v.term + 1 })]
     else [])

/-- the real election: term incremented and persisted, own vote persisted, voters asked, votes counted -/
def campElect (v : Vol) (rs : List PeerResp) (preAsked : List Nat) : Plan :=
  let t1 := v.term + 1
  let v1 : Vol := { v with term := t1 }
  match tally (quorumOf v.latest) t1 0 (campSelf v ++ voteAnswers t1 (campAsked v) rs) with
  | .won => ⟨campBase v, mkRes (campSaid v preAsked (campAsked v))
              (campDone { v1 with role := .leader, leader := selfAddr, leaderId := selfId })⟩
  | .higher t => ⟨campBase v ++ [(.setTerm t, campDead v1)], mkRes (campSaid v preAsked (campAsked v)) (campDone (stepDown v1 t))⟩
  | .open => ⟨campBase v, mkRes (campSaid v preAsked (campAsked v)) (campDone v1)⟩

/-- one pass of `runCandidate` for a server whose role is candidate -/
def campaign (cf : Cfg) (v : Vol) (rs : List PeerResp) : Plan :=
  if cf.noPreVote ∨ v.transfer then campElect v rs []
  else
    match tally (quorumOf v.latest) (v.term + 1) 0 (campSelf v ++ preVoteAnswers (v.term + 1) (campAsked v) rs) with
    | .won => campElect v rs (campAsked v)
    | .higher t => ⟨[(.setTerm t, campDead v)], mkRes (campSaid v (campAsked v) []) (campDone (stepDown v t))⟩
    | .open => ⟨[], mkRes (campSaid v (campAsked v) []) (campDone v)⟩

/-! ## restart (`NewRaft`) -/

def emptyVol : Vol := ⟨0, .follower, 0, 0, 0, 0, 0, 0, [], 0, [], 0, 0, 0, false⟩

/-- the configuration scan of `NewRaft` from `start` for `n` indexes; `none` = missing entry (panic) -/
def scanConfigs (log : List Entry) : (n : Nat) → (start : Nat) → Vol → Option Vol
  | 0, _, v => some v
  | n + 1, start, v =>
    match getLog log start with
    | none => none
    | some e => scanConfigs log n (start + 1) (processConfigEntries v [e])

/-- `NewRaft` on a durable image: volatile state and FSM calls, or `none` if it does not return a
    server (error or panic) -/
def usableSnap (d : Durable) : Option Snap := d.snaps.find? (·.ok)

/-- the newest snapshot that can still be read is damaged (a disk fault; only felt at the next start) -/
def damageNewest : List Snap → List Snap
  | [] => []
  | s :: rest => if s.ok then { s with ok := false } :: rest else s :: damageNewest rest

/-- the cached last entry `NewRaft` reads back (`none`: the store cannot produce its own last index) -/
def restartLast (d : Durable) : Option (Nat × Nat) :=
  if d.high = 0 then some (0, 0)
  else match getLog d.log d.high with
    | none => none
    | some e => some (e.index, e.term)

/-- `restoreSnapshot`: the newest usable snapshot, if any, becomes the FSM state, the snapshot
    position, `lastApplied` and both configurations -/
def restartSnap (d : Durable) (v0 : Vol) : Vol × List FsmCall :=
  match usableSnap d with
  | none => (v0, [])
  | some s => ({ v0 with applied := s.idx, snapIdx := s.idx, snapTerm := s.term,
                         committed := s.cfg, committedIdx := s.cfgIdx, latest := s.cfg, latestIdx := s.cfgIdx },
                [.restore s.data])

/-- RestoreCommittedLogs: replay up to the staged commit index (never past the last entry) -/
def restartCommitted (cf : Cfg) (d : Durable) (v1 : Vol) (calls1 : List FsmCall) : Option (Vol × List FsmCall) :=
  if cf.restoreCommitted then
    let ci := min d.staged d.high
    match processLogs d.log v1.applied ci with
    | none => none
    | some calls => some ({ v1 with commit := ci, applied := if ci ≤ v1.applied then v1.applied else ci }, calls1 ++ calls)
  else some (v1, calls1)

/-- with a restored commit index, a latest configuration at or below it is the committed one -/
def restartCommitCfg (v : Vol) : Vol :=
  if v.commit > 0 ∧ v.latestIdx ≤ v.commit then { v with committed := v.latest, committedIdx := v.latestIdx } else v

def restart (cf : Cfg) (d : Durable) : Option (Vol × List FsmCall) :=
  -- `restoreSnapshot`: newest to oldest, the first that opens and restores; snapshots listed but
  -- none usable is an error
  if !d.snaps.isEmpty && (usableSnap d).isNone then none else
  match restartLast d with
  | none => none
  | some (li, lt) =>
    let v0 : Vol := { emptyVol with term := d.curTerm, lastLogIdx := li, lastLogTerm := lt }
    match restartCommitted cf d (restartSnap d v0).1 (restartSnap d v0).2 with
    | none => none
    | some (v2, calls2) =>
      let from_ := v2.snapIdx + 1
      match scanConfigs d.log (li + 1 - from_) from_ v2 with
      | none => none
      | some v3 => some (restartCommitCfg v3, calls2)

end SV
