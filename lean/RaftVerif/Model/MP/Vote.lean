import RaftVerif.Model.MP.Basic
namespace MP

structure Inv (sv : Server) : Prop where
  vt_le : sv.dur.voteTerm ≤ sv.dur.term
  grec : ∀ t c, (t, c) ∈ sv.grants → t ≤ sv.dur.voteTerm ∧ (sv.dur.voteTerm = t → sv.dur.voteCand = some c)
  uniq : ∀ t c c', (t, c) ∈ sv.grants → (t, c') ∈ sv.grants → c = c'

/-- generic: whatever the failure plan and the crash point, the durable effect is a prefix of the plan -/
theorem exec_prefix (p : Plan) (fa : Option Nat) (k : Nat) :
    ∃ m, ((exec p fa).2).take k = p.writes.take m := by
  cases fa with
  | none => exact ⟨k, rfl⟩
  | some j =>
    simp only [exec]
    split
    · exact ⟨min k j, by rw [List.take_take]⟩
    · exact ⟨k, rfl⟩

/-- generic: a granted final outcome means every planned write was performed -/
theorem exec_final (p : Plan) (fa : Option Nat) (h : ∀ s ∈ p.steps, ∀ t, s.2 ≠ .resp t true)
    (t : Nat) (hg : (exec p fa).1 = .resp t true) : (exec p fa).2 = p.writes ∧ p.final = .resp t true := by
  cases fa with
  | none => exact ⟨rfl, hg⟩
  | some j =>
    simp only [exec] at hg ⊢
    split at hg
    · rename_i w o hs
      have hmem : (w, o) ∈ p.steps := List.mem_of_getElem? hs
      exact absurd hg (h _ hmem t)
    · exact ⟨rfl, hg⟩

/-- the plan of requestVote has one of four shapes -/
theorem votePlan_shape (q : VoteReq) (d : Durable) :
    let p := votePlan q d d.term
    (p.writes = [] ∧ ∀ t, p.final = .resp t true → d.voteTerm = q.term ∧ d.voteCand = some q.cand ∧ d.term = q.term) ∨
    (d.term < q.term ∧ p.writes = [.setTerm q.term] ∧
      ∀ t, p.final = .resp t true → d.voteTerm = q.term ∧ d.voteCand = some q.cand) ∨
    (d.term < q.term ∧ ¬ (d.voteTerm = q.term ∧ d.voteCand.isSome) ∧
      p.writes = [.setTerm q.term, .setVoteTerm q.term, .setVoteCand q.cand]) ∨
    (d.term = q.term ∧ ¬ (d.voteTerm = q.term ∧ d.voteCand.isSome) ∧
      p.writes = [.setVoteTerm q.term, .setVoteCand q.cand]) := by
  simp only [votePlan, Plan.writes]
  by_cases h1 : q.term < d.term
  · simp [h1]
  · by_cases h2 : d.term < q.term
    · simp only [h1, h2, if_false, if_true]
      repeat' split
      all_goals simp_all
    · have : d.term = q.term := by omega
      simp only [h1, h2, if_false]
      repeat' split
      all_goals simp_all

theorem votePlan_steps_not_granted (q : VoteReq) (d : Durable) :
    ∀ s ∈ (votePlan q d d.term).steps, ∀ t, s.2 ≠ .resp t true := by
  simp only [votePlan]
  by_cases h1 : q.term < d.term
  · simp [h1]
  · by_cases h2 : d.term < q.term
    · simp only [h1, h2, if_false, if_true]
      repeat' split
      all_goals simp
    · simp only [h1, h2, if_false]
      repeat' split
      all_goals simp


/-- durable facts after any prefix of the plan -/
theorem prefix_facts (q : VoteReq) (d : Durable) (hvt : d.voteTerm ≤ d.term) (m : Nat) :
    let d' := applyAll d ((votePlan q d d.term).writes.take m)
    d'.voteTerm ≤ d'.term ∧ d.voteTerm ≤ d'.voteTerm ∧
    (d'.voteTerm = d.voteTerm → d.voteCand.isSome → d'.voteCand = d.voteCand) := by
  have hs := votePlan_shape q d
  simp only at hs
  rcases hs with ⟨h, _⟩ | ⟨h1, h, _⟩ | ⟨h1, h2, h⟩ | ⟨h1, h2, h⟩
  · simp [h, applyAll, hvt]
  · rcases m with _ | m <;> simp [h, applyAll, Write.apply, hvt] <;> omega
  · rcases m with _ | _ | _ | m <;> simp [h, applyAll, Write.apply, hvt] <;>
      first
      | omega
      | (refine ⟨by omega, fun heq hsome => absurd ⟨heq.symm, hsome⟩ h2⟩)
      | (refine ⟨by omega, by omega, fun heq hsome => absurd ⟨heq.symm, hsome⟩ h2⟩)
  · rcases m with _ | _ | m <;> simp [h, applyAll, Write.apply, hvt] <;>
      first
      | omega
      | (refine ⟨by omega, fun heq hsome => absurd ⟨heq.symm, hsome⟩ h2⟩)
      | (refine ⟨by omega, by omega, fun heq hsome => absurd ⟨heq.symm, hsome⟩ h2⟩)


/-- what a granted outcome tells about the durable state after the handler -/
theorem granted_facts (q : VoteReq) (d : Durable) (fa : Option Nat) (t : Nat)
    (hg : (exec (votePlan q d d.term) fa).1 = .resp t true) :
    let d' := applyAll d (exec (votePlan q d d.term) fa).2
    d'.voteTerm = q.term ∧ d'.voteCand = some q.cand := by
  obtain ⟨hw, hf⟩ := exec_final _ fa (votePlan_steps_not_granted q d) t hg
  rw [hw]
  have hs := votePlan_shape q d
  simp only at hs
  rcases hs with ⟨h, hd⟩ | ⟨h1, h, hd⟩ | ⟨h1, h2, h⟩ | ⟨h1, h2, h⟩
  · obtain ⟨a, b, _⟩ := hd t hf
    simp [h, applyAll, a, b]
  · obtain ⟨a, b⟩ := hd t hf
    simp [h, applyAll, Write.apply, a, b]
  · simp [h, applyAll, Write.apply]
  · simp [h, applyAll, Write.apply]

theorem inv_step (sv : Server) (e : Event) (h : Inv sv) : Inv (step sv e) := by
  obtain ⟨h1, h2, h3⟩ := h
  -- the durable state after the event is a prefix application of the plan, crash or not
  have hpre : ∀ ws, (∃ m, ws = (votePlan e.req sv.dur sv.dur.term).writes.take m) →
      (applyAll sv.dur ws).voteTerm ≤ (applyAll sv.dur ws).term ∧
      ∀ t c, (t, c) ∈ sv.grants → t ≤ (applyAll sv.dur ws).voteTerm ∧
        ((applyAll sv.dur ws).voteTerm = t → (applyAll sv.dur ws).voteCand = some c) := by
    rintro ws ⟨m, rfl⟩
    obtain ⟨f1, f2, f3⟩ := prefix_facts e.req sv.dur h1 m
    refine ⟨f1, ?_⟩
    intro t c hg
    obtain ⟨g1, g2⟩ := h2 t c hg
    refine ⟨by omega, ?_⟩
    intro heq
    have hvt : sv.dur.voteTerm = t := by omega
    have hc := g2 hvt
    rw [f3 (by omega) (by rw [hc]; rfl)]; exact hc
  have hfull : ∃ m, (exec (votePlan e.req sv.dur sv.dur.term) e.failAt).2
      = (votePlan e.req sv.dur sv.dur.term).writes.take m := by
    obtain ⟨m, hm⟩ := exec_prefix (votePlan e.req sv.dur sv.dur.term) e.failAt
      (exec (votePlan e.req sv.dur sv.dur.term) e.failAt).2.length
    rw [List.take_length] at hm
    exact ⟨m, hm⟩
  simp only [step]
  split
  · -- crash inside or right after the handler: nothing was answered
    rename_i k _
    obtain ⟨p1, p2⟩ := hpre _ (exec_prefix _ e.failAt k)
    exact ⟨p1, p2, h3⟩
  · obtain ⟨p1, p2⟩ := hpre _ hfull
    split
    · -- granted
      rename_i t hg
      obtain ⟨g1, g2⟩ := granted_facts e.req sv.dur e.failAt t hg
      refine ⟨p1, ?_, ?_⟩
      · intro t' c' hm
        rcases List.mem_cons.mp hm with heq | hm
        · simp only [Prod.mk.injEq] at heq
          obtain ⟨e1, e2⟩ := heq
          subst e1 e2
          exact ⟨Nat.le_of_eq g1.symm, fun _ => g2⟩
        · exact p2 t' c' hm
      · intro t' c1 c2 hm1 hm2
        rcases List.mem_cons.mp hm1 with heq1 | hm1 <;> rcases List.mem_cons.mp hm2 with heq2 | hm2
        · simp only [Prod.mk.injEq] at heq1 heq2
          rw [heq1.2, heq2.2]
        · simp only [Prod.mk.injEq] at heq1
          obtain ⟨e1, e2⟩ := heq1
          obtain ⟨q1, q2⟩ := p2 t' c2 hm2
          have := q2 (by omega)
          rw [g2] at this
          rw [e2]; exact Option.some.inj this
        · simp only [Prod.mk.injEq] at heq2
          obtain ⟨e1, e2⟩ := heq2
          obtain ⟨q1, q2⟩ := p2 t' c1 hm1
          have := q2 (by omega)
          rw [g2] at this
          rw [e2]; exact (Option.some.inj this).symm
        · exact h3 t' c1 c2 hm1 hm2
    · exact ⟨p1, p2, h3⟩

/-- **One vote per term**, for every sequence of vote requests, every failure plan of the stable
    store and every crash point between two durable writes. -/
theorem vote_once_per_term (es : List Event) (t c c' : Nat)
    (h1 : (t, c) ∈ (run { dur := {}, grants := [] } es).grants)
    (h2 : (t, c') ∈ (run { dur := {}, grants := [] } es).grants) : c = c' := by
  have key : ∀ (es : List Event) (sv : Server), Inv sv → Inv (run sv es) := by
    intro es
    induction es with
    | nil => intro sv h; exact h
    | cons e es ih => intro sv h; exact ih _ (inv_step sv e h)
  have hinit : Inv { dur := {}, grants := [] } := ⟨by simp, by simp, by simp⟩
  exact (key es _ hinit).uniq t c c' h1 h2

end MP

namespace MP

/-- F1 witness in the model (pinned order): after a half-written vote record the previous candidate
    is granted the new term although its log (1,1) is behind the server's (5,2). -/
def d0 : Durable := { term := 2, lastIdx := 5, lastTerm := 2 }
def f1trace : List Event :=
  [ { req := ⟨7, 3, 5, 2⟩, failAt := none, crashAt := none },      -- candidate 7, term 3, up-to-date: granted
    { req := ⟨8, 4, 5, 2⟩, failAt := some 2, crashAt := none },    -- candidate 8, term 4: SetVoteCand fails
    { req := ⟨7, 4, 1, 1⟩, failAt := none, crashAt := none } ]     -- candidate 7 again, term 4, STALE log

example : (run { dur := d0, grants := [] } f1trace).grants = [(4, 7), (3, 7)] := by decide
example : (run { dur := d0, grants := [] } f1trace).dur.lastTerm = 2 ∧
          (run { dur := d0, grants := [] } f1trace).dur.lastIdx = 5 := by decide

end MP
