/-! probe: handlers as *write plans*.  A handler is a pure function from the pre-state to an ordered
    list of durable writes, each tagged with the outcome if that write fails, and a final outcome.
    A generic interpreter applies the plan under a failure plan and a crash point.  Crash = prefix
    of the plan.  Local theorem: one vote per term for any event sequence. -/
namespace MP

structure Durable where
  term : Nat := 0
  voteTerm : Nat := 0
  voteCand : Option Nat := none
  lastIdx : Nat := 0
  lastTerm : Nat := 0
deriving Repr, DecidableEq

inductive Write
  | setTerm (t : Nat)
  | setVoteTerm (t : Nat)
  | setVoteCand (c : Nat)
deriving Repr, DecidableEq

def Write.apply (d : Durable) : Write → Durable
  | .setTerm t => { d with term := t }
  | .setVoteTerm t => { d with voteTerm := t }
  | .setVoteCand c => { d with voteCand := some c }

def applyAll (d : Durable) (ws : List Write) : Durable := ws.foldl Write.apply d

inductive Outcome
  | resp (term : Nat) (granted : Bool)
  | panic
deriving Repr, DecidableEq

structure Plan where
  steps : List (Write × Outcome)   -- write, and the outcome if it fails
  final : Outcome

def Plan.writes (p : Plan) : List Write := p.steps.map (·.1)

structure VoteReq where
  cand : Nat
  term : Nat
  lastIdx : Nat
  lastTerm : Nat

/-- requestVote as a write plan (pinned order: duplicate-vote branch before the log comparison).
    `ct` is the cached current term. -/
def votePlan (q : VoteReq) (d : Durable) (ct : Nat) : Plan :=
  if q.term < ct then { steps := [], final := .resp ct false }
  else
    let pre : List (Write × Outcome) := if ct < q.term then [(.setTerm q.term, .panic)] else []
    if d.voteTerm = q.term ∧ d.voteCand.isSome then
      { steps := pre, final := .resp q.term (d.voteCand = some q.cand) }
    else if q.lastTerm < d.lastTerm then { steps := pre, final := .resp q.term false }
    else if d.lastTerm = q.lastTerm ∧ q.lastIdx < d.lastIdx then { steps := pre, final := .resp q.term false }
    else
      { steps := pre ++ [(.setVoteTerm q.term, .resp q.term false), (.setVoteCand q.cand, .resp q.term false)],
        final := .resp q.term true }

/-- generic interpreter: run the plan; the write with ordinal `failAt` fails (its tagged outcome is
    returned and the rest is skipped); returns the outcome and the writes actually performed -/
def exec (p : Plan) (failAt : Option Nat) : Outcome × List Write :=
  match failAt with
  | none => (p.final, p.writes)
  | some k =>
    match p.steps[k]? with
    | some (_, o) => (o, p.writes.take k)
    | none => (p.final, p.writes)

structure Event where
  req : VoteReq
  failAt : Option Nat
  crashAt : Option Nat     -- crash after this many performed writes (nothing is answered)

structure Server where
  dur : Durable
  grants : List (Nat × Nat)     -- observed (term, candidate) grants, ghost

/-- a server between handlers: the cached term equals the durable term (it is reloaded on restart and
    written through on change), so only the durable state and the ghost grants are carried -/
def step (sv : Server) (e : Event) : Server :=
  let r := exec (votePlan e.req sv.dur sv.dur.term) e.failAt
  match e.crashAt with
  | some k => { dur := applyAll sv.dur (r.2.take k), grants := sv.grants }
  | none =>
    match r.1 with
    | .resp _ true => { dur := applyAll sv.dur r.2, grants := (e.req.term, e.req.cand) :: sv.grants }
    | _ => { dur := applyAll sv.dur r.2, grants := sv.grants }

def run (sv : Server) (es : List Event) : Server := es.foldl step sv

end MP
