import Mathlib.Data.Finset.Card

/-! Probe for C07: the quorum-overlap fact single-server membership changes rest on.
`quorumSize n = n / 2 + 1` is `quorumSize()` of raft.go.  Voter sets are `Finset`s of server ids. -/
namespace OV

def quorumSize (n : Nat) : Nat := n / 2 + 1

/-- a quorum of configuration `C`: voters of `C`, at least `quorumSize |C|` of them -/
def IsQuorum (C Q : Finset Nat) : Prop := Q ⊆ C ∧ quorumSize C.card ≤ Q.card

/-- two quorums of one configuration intersect -/
theorem same_config_quorums_intersect (C Q Q' : Finset Nat) (h : IsQuorum C Q) (h' : IsQuorum C Q') :
    ∃ x, x ∈ Q ∧ x ∈ Q' := by
  by_contra hne
  have hdisj : Disjoint Q Q' := by
    rw [Finset.disjoint_left]; intro x hx hx'; exact hne ⟨x, hx, hx'⟩
  have hcard := Finset.card_union_of_disjoint hdisj
  have hsub : Q ∪ Q' ⊆ C := Finset.union_subset h.1 h'.1
  have := Finset.card_le_card hsub
  have a := h.2; have b := h'.2
  unfold quorumSize at a b
  omega

/-- adding one voter: every quorum of the old configuration meets every quorum of the new one -/
theorem add_voter_quorums_intersect (C Q Q' : Finset Nat) (a : Nat)
    (h : IsQuorum C Q) (h' : IsQuorum (insert a C) Q') : ∃ x, x ∈ Q ∧ x ∈ Q' := by
  by_contra hne
  have hdisj : Disjoint Q Q' := by
    rw [Finset.disjoint_left]; intro x hx hx'; exact hne ⟨x, hx, hx'⟩
  have hcard := Finset.card_union_of_disjoint hdisj
  have hsub : Q ∪ Q' ⊆ insert a C :=
    Finset.union_subset (h.1.trans (Finset.subset_insert a C)) h'.1
  have h1 := Finset.card_le_card hsub
  have h2 := Finset.card_insert_le a C
  have h3 : C.card ≤ (insert a C).card := Finset.card_le_card (Finset.subset_insert a C)
  have a1 := h.2; have b1 := h'.2
  unfold quorumSize at a1 b1
  omega

/-- the adjacency relation `nextConfiguration` guarantees between the voter sets of consecutive
    configurations (C07: at most one voter added or removed; demotion/removal = erase,
    AddVoter/promotion = insert, everything else = equal) -/
inductive Adjacent : Finset Nat → Finset Nat → Prop
  | same (C) : Adjacent C C
  | add (C a) : Adjacent C (insert a C)
  | remove (C a) : Adjacent C (C.erase a)

theorem adjacent_config_majorities_intersect (C C' Q Q' : Finset Nat) (hadj : Adjacent C C')
    (h : IsQuorum C Q) (h' : IsQuorum C' Q') : ∃ x, x ∈ Q ∧ x ∈ Q' := by
  cases hadj with
  | same => exact same_config_quorums_intersect C Q Q' h h'
  | add a => exact add_voter_quorums_intersect C Q Q' a h h'
  | remove a =>
    by_cases ha : a ∈ C
    · have hC : insert a (C.erase a) = C := Finset.insert_erase ha
      obtain ⟨x, hx', hx⟩ := add_voter_quorums_intersect (C.erase a) Q' Q a h' (by rw [hC]; exact h)
      exact ⟨x, hx, hx'⟩
    · rw [Finset.erase_eq_of_notMem ha] at h'
      exact same_config_quorums_intersect C Q Q' h h'

/-- and it is tight: with two voters added at once the overlap is lost —
    C = {0,1,2}, C' = {0,1,2,3,4}, Q = {0,1}, Q' = {2,3,4} -/
example : IsQuorum {0,1,2} {0,1} ∧ IsQuorum {0,1,2,3,4} {2,3,4} ∧ ¬ ∃ x, x ∈ ({0,1} : Finset Nat) ∧ x ∈ ({2,3,4} : Finset Nat) := by
  refine ⟨⟨by decide, by decide⟩, ⟨by decide, by decide⟩, by decide⟩

end OV
#print axioms OV.adjacent_config_majorities_intersect
