/-! Probe for C09 (and for the *variant* mechanism of DESIGN.md 3.1): `verifyLeader` + the heartbeat
goroutines' vote bookkeeping (raft.go:966-988, replication.go:100-111, 388-440, future.go:272-293).
`repaired = true` is the candidate repair of F7 (votes only for requests registered before the
heartbeat was sent); `repaired = false` is the pinned code (`notifyAll` at response time).
A ghost clock stamps registrations and sends.  Core only. -/
namespace VL

structure Foll where
  notify : List Nat                     -- ids of verify requests registered with this follower
  inflight : Option (Nat × List Nat)    -- heartbeat in flight: (ghost send time, requests taken at send)
deriving Repr, DecidableEq

structure Fut where
  regAt : Nat        -- ghost: when VerifyLeader registered it
  votes : Nat        -- starts at 1 (self)
deriving Repr, DecidableEq

structure St where
  clock : Nat := 0
  folls : List Foll := []
  futs : List Fut := []                        -- id = position
  counted : List (Nat × Nat × Nat) := []       -- ghost: (future id, follower, send time of the acknowledged request)
deriving Repr, DecidableEq

inductive Label
  | register                 -- verifyLeader: new future, registered with every follower
  | send (i : Nat)           -- follower i's heartbeat goroutine sends a request
  | recvOk (i : Nat)         -- its response arrives, Success = true
  | recvErr (i : Nat)        -- the RPC fails
deriving Repr, DecidableEq

def modNth (l : List α) (i : Nat) (g : α → α) : List α :=
  match l, i with
  | [], _ => []
  | x :: xs, 0 => g x :: xs
  | x :: xs, i + 1 => x :: modNth xs i g

def vote (futs : List Fut) (ids : List Nat) : List Fut :=
  ids.foldl (fun fs id => modNth fs id (fun f => { f with votes := f.votes + 1 })) futs

def step (repaired : Bool) (s : St) : Label → St
  | .register =>
      let id := s.futs.length
      { s with clock := s.clock + 1,
               futs := s.futs ++ [⟨s.clock, 1⟩],
               folls := s.folls.map (fun f => { f with notify := id :: f.notify }) }
  | .send i =>
      match s.folls[i]? with
      | some f =>
        if f.inflight.isSome then s else
        let taken := if repaired then f.notify else []
        { s with clock := s.clock + 1,
                 folls := modNth s.folls i (fun f => { notify := if repaired then [] else f.notify,
                                                        inflight := some (s.clock, taken) }) }
      | none => s
  | .recvOk i =>
      match s.folls[i]? with
      | some f =>
        match f.inflight with
        | some (sentAt, taken) =>
          let ids := if repaired then taken else f.notify
          { s with clock := s.clock + 1,
                   futs := vote s.futs ids,
                   counted := ids.map (fun id => (id, i, sentAt)) ++ s.counted,
                   folls := modNth s.folls i (fun f => { notify := if repaired then f.notify else [],
                                                          inflight := none }) }
        | none => s
      | none => s
  | .recvErr i =>
      match s.folls[i]? with
      | some f =>
        match f.inflight with
        | some (_, taken) =>
          { s with clock := s.clock + 1,
                   folls := modNth s.folls i (fun f => { notify := taken ++ f.notify, inflight := none }) }
        | none => s
      | none => s

def run (repaired : Bool) (s : St) (ls : List Label) : St := ls.foldl (step repaired) s

/-! ## repaired variant: every counted acknowledgement answers a request sent after the call -/

/-- everything a follower currently holds for a future, registered or taken, was registered before
    now; what is taken was registered before the send -/
structure Inv (s : St) : Prop where
  reg : ∀ (id : Nat) (f : Fut), s.futs[id]? = some f → f.regAt < s.clock
  notif : ∀ fo ∈ s.folls, ∀ id ∈ fo.notify, id < s.futs.length
  taken : ∀ fo ∈ s.folls, ∀ sentAt tk, fo.inflight = some (sentAt, tk) →
      sentAt < s.clock ∧ ∀ id ∈ tk, ∃ f, s.futs[id]? = some f ∧ f.regAt < sentAt
  cnt : ∀ id i sentAt, (id, i, sentAt) ∈ s.counted → ∃ f, s.futs[id]? = some f ∧ f.regAt < sentAt

theorem mem_modNth {α} (l : List α) (i : Nat) (g : α → α) (x : α) (h : x ∈ modNth l i g) :
    x ∈ l ∨ ∃ y ∈ l, l[i]? = some y ∧ x = g y := by
  induction l generalizing i with
  | nil => simp [modNth] at h
  | cons a as ih =>
    cases i with
    | zero =>
      simp only [modNth, List.mem_cons] at h
      rcases h with h | h
      · right; exact ⟨a, List.mem_cons_self, by simp, h⟩
      · left; exact List.mem_cons_of_mem _ h
    | succ i' =>
      simp only [modNth, List.mem_cons] at h
      rcases h with h | h
      · left; rw [h]; exact List.mem_cons_self
      · rcases ih i' h with h' | ⟨y, hy, e1, e2⟩
        · left; exact List.mem_cons_of_mem _ h'
        · right; exact ⟨y, List.mem_cons_of_mem _ hy, by simpa using e1, e2⟩

theorem modNth_length {α} (l : List α) (i : Nat) (g : α → α) : (modNth l i g).length = l.length := by
  induction l generalizing i with
  | nil => rfl
  | cons a as ih => cases i <;> simp [modNth, ih]

theorem modNth_get_regAt (fs : List Fut) (j id : Nat) :
    ((modNth fs j (fun f => { f with votes := f.votes + 1 }))[id]?).map (·.regAt) = (fs[id]?).map (·.regAt) := by
  induction fs generalizing j id with
  | nil => simp [modNth]
  | cons a as ih =>
    cases j with
    | zero => cases id <;> simp [modNth]
    | succ j' => cases id <;> simp [modNth, ih]

theorem vote_regAt (fs : List Fut) (ids : List Nat) (id : Nat) :
    ((vote fs ids)[id]?).map (·.regAt) = (fs[id]?).map (·.regAt) := by
  unfold vote
  induction ids generalizing fs with
  | nil => rfl
  | cons x xs ih => simp only [List.foldl_cons]; rw [ih, modNth_get_regAt]

theorem vote_length (fs : List Fut) (ids : List Nat) : (vote fs ids).length = fs.length := by
  unfold vote
  induction ids generalizing fs with
  | nil => rfl
  | cons x xs ih => simp only [List.foldl_cons]; rw [ih, modNth_length]

theorem regAt_of_map {fs gs : List Fut} {id : Nat} (h : (gs[id]?).map (·.regAt) = (fs[id]?).map (·.regAt))
    {f : Fut} (hf : fs[id]? = some f) : ∃ g, gs[id]? = some g ∧ g.regAt = f.regAt := by
  rw [hf] at h
  cases hg : gs[id]? with
  | none => rw [hg] at h; cases h
  | some g => rw [hg] at h; exact ⟨g, rfl, by simpa using h⟩

theorem inv_step (s : St) (l : Label) (h : Inv s) : Inv (step true s l) := by
  obtain ⟨h1, h2, h3, h4⟩ := h
  cases l with
  | register =>
    simp only [step]
    refine ⟨?_, ?_, ?_, ?_⟩
    · intro id f hf
      rw [List.getElem?_append] at hf
      split at hf
      · have := h1 id f hf; (try dsimp only at *); omega
      · rename_i hlt
        have : id - s.futs.length = 0 ∨ 0 < id - s.futs.length := by (try dsimp only at *); (try dsimp only at *); omega
        rcases this with e | e
        · rw [e] at hf; cases hf; simp
        · rw [List.getElem?_eq_none (by simp; (try dsimp only at *); omega)] at hf; cases hf
    · intro fo hfo id hid
      obtain ⟨fo', hfo', e⟩ := List.mem_map.mp hfo
      subst e
      simp only [List.mem_cons] at hid
      simp only [List.length_append, List.length_singleton]
      rcases hid with e | e
      · ((try dsimp only at *); omega)
      · have := h2 fo' hfo' id e; (try dsimp only at *); omega
    · intro fo hfo sentAt tk hin
      obtain ⟨fo', hfo', e⟩ := List.mem_map.mp hfo
      subst e
      obtain ⟨a, b⟩ := h3 fo' hfo' sentAt tk hin
      refine ⟨by (try dsimp only at *); (try dsimp only at *); omega, ?_⟩
      intro id hid
      obtain ⟨f, f1, f2⟩ := b id hid
      refine ⟨f, ?_, f2⟩
      rw [List.getElem?_append_left]; exact f1
      exact (List.getElem?_eq_some_iff.mp f1).1
    · intro id i sentAt hc
      obtain ⟨f, f1, f2⟩ := h4 id i sentAt hc
      refine ⟨f, ?_, f2⟩
      rw [List.getElem?_append_left]; exact f1
      exact (List.getElem?_eq_some_iff.mp f1).1
  | send i =>
    simp only [step]
    split
    · rename_i fo hfo
      split
      · exact ⟨h1, h2, h3, h4⟩
      · simp only [if_true]
        have hfom : fo ∈ s.folls := List.mem_of_getElem? hfo
        refine ⟨fun id f hf => by have := h1 id f hf; (try dsimp only at *); omega, ?_, ?_, h4⟩
        · intro x hx id hid
          rcases mem_modNth _ _ _ _ hx with hx | ⟨y, hy, _, e⟩
          · exact h2 x hx id hid
          · subst e; simp at hid
        · intro x hx sentAt tk hin
          rcases mem_modNth _ _ _ _ hx with hx | ⟨y, hy, e1, e⟩
          · obtain ⟨a, b⟩ := h3 x hx sentAt tk hin
            exact ⟨by (try dsimp only at *); (try dsimp only at *); omega, b⟩
          · subst e
            simp only [Option.some.injEq, Prod.mk.injEq] at hin
            obtain ⟨e2, e3⟩ := hin
            subst e2; subst e3
            refine ⟨by (try dsimp only at *); (try dsimp only at *); omega, ?_⟩
            intro id hid
            rw [hfo] at e1; cases e1
            have hlt := h2 _ hfom id hid
            have hf : s.futs[id]? = some s.futs[id] := List.getElem?_eq_getElem hlt
            exact ⟨_, hf, h1 id _ hf⟩
    · exact ⟨h1, h2, h3, h4⟩
  | recvOk i =>
    simp only [step]
    split
    · rename_i fo hfo
      split
      · rename_i sentAt taken hin
        simp only [if_true]
        have hfom : fo ∈ s.folls := List.mem_of_getElem? hfo
        obtain ⟨a, b⟩ := h3 fo hfom sentAt taken hin
        refine ⟨?_, ?_, ?_, ?_⟩
        · intro id f hf
          have hm := vote_regAt s.futs taken id
          rw [hf] at hm
          cases hg : s.futs[id]? with
          | none => rw [hg] at hm; cases hm
          | some g =>
            rw [hg] at hm
            have : f.regAt = g.regAt := by simpa using hm
            have := h1 id g hg; (try dsimp only at *); omega
        · intro x hx id hid
          rw [vote_length]
          rcases mem_modNth _ _ _ _ hx with hx | ⟨y, hy, _, e⟩
          · exact h2 x hx id hid
          · subst e; exact h2 y hy id hid
        · intro x hx sentAt' tk hin'
          rcases mem_modNth _ _ _ _ hx with hx | ⟨y, hy, _, e⟩
          · obtain ⟨a', b'⟩ := h3 x hx sentAt' tk hin'
            refine ⟨by (try dsimp only at *); (try dsimp only at *); omega, ?_⟩
            intro id hid
            obtain ⟨f, f1, f2⟩ := b' id hid
            obtain ⟨g, g1, g2⟩ := regAt_of_map (vote_regAt s.futs taken id) f1
            exact ⟨g, g1, by (try dsimp only at *); (try dsimp only at *); omega⟩
          · subst e; cases hin'
        · intro id j sentAt' hc
          rcases List.mem_append.mp hc with hc | hc
          · obtain ⟨id', hid', e⟩ := List.mem_map.mp hc
            simp only [Prod.mk.injEq] at e
            obtain ⟨e1, e2, e3⟩ := e
            subst e1; subst e3
            obtain ⟨f, f1, f2⟩ := b id' hid'
            obtain ⟨g, g1, g2⟩ := regAt_of_map (vote_regAt s.futs taken id') f1
            exact ⟨g, g1, by (try dsimp only at *); (try dsimp only at *); omega⟩
          · obtain ⟨f, f1, f2⟩ := h4 id j sentAt' hc
            obtain ⟨g, g1, g2⟩ := regAt_of_map (vote_regAt s.futs taken id) f1
            exact ⟨g, g1, by (try dsimp only at *); (try dsimp only at *); omega⟩
      · exact ⟨h1, h2, h3, h4⟩
    · exact ⟨h1, h2, h3, h4⟩
  | recvErr i =>
    simp only [step]
    split
    · rename_i fo hfo
      split
      · rename_i sentAt taken hin
        have hfom : fo ∈ s.folls := List.mem_of_getElem? hfo
        obtain ⟨a, b⟩ := h3 fo hfom sentAt taken hin
        refine ⟨fun id f hf => by have := h1 id f hf; (try dsimp only at *); omega, ?_, ?_, h4⟩
        · intro x hx id hid
          rcases mem_modNth _ _ _ _ hx with hx | ⟨y, hy, e1, e⟩
          · exact h2 x hx id hid
          · subst e
            simp only [List.mem_append] at hid
            rcases hid with hid | hid
            · obtain ⟨f, f1, _⟩ := b id hid
              exact (List.getElem?_eq_some_iff.mp f1).1
            · exact h2 y hy id hid
        · intro x hx sentAt' tk hin'
          rcases mem_modNth _ _ _ _ hx with hx | ⟨y, hy, _, e⟩
          · obtain ⟨a', b'⟩ := h3 x hx sentAt' tk hin'
            exact ⟨by (try dsimp only at *); (try dsimp only at *); omega, b'⟩
          · subst e; cases hin'
      · exact ⟨h1, h2, h3, h4⟩
    · exact ⟨h1, h2, h3, h4⟩

theorem inv_init (n : Nat) : Inv { folls := List.replicate n ⟨[], none⟩ } := by
  refine ⟨?_, ?_, ?_, ?_⟩
  · intro id f h; simp at h
  · intro fo hfo id hid; rw [List.mem_replicate] at hfo; rw [hfo.2] at hid; simp at hid
  · intro fo hfo sentAt tk hin; rw [List.mem_replicate] at hfo; rw [hfo.2] at hin; cases hin
  · intro id i sentAt h; simp at h

/-- **C09, "after the call was made" (repaired variant).**  For any number of followers and every
    schedule of registrations, sends, responses and RPC failures: every acknowledgement credited to
    a VerifyLeader request answers a heartbeat that was *sent* after the request was registered. -/
theorem verify_acks_produced_after_call (n : Nat) (ls : List Label) (id i sentAt : Nat)
    (h : (id, i, sentAt) ∈ (run true { folls := List.replicate n ⟨[], none⟩ } ls).counted) :
    ∃ f, (run true { folls := List.replicate n ⟨[], none⟩ } ls).futs[id]? = some f ∧ f.regAt < sentAt := by
  have hinv : ∀ (ls : List Label) (s : St), Inv s → Inv (run true s ls) := by
    intro ls
    induction ls with
    | nil => intro s hs; exact hs
    | cons l ls ih => intro s hs; exact ih _ (inv_step s l hs)
  exact (hinv ls _ (inv_init n)).cnt id i sentAt h

/-! ## pinned variant: the witness (F7) -/

/-- one follower; its heartbeat is sent, *then* VerifyLeader is called, then the response arrives:
    the pinned code credits the request with an acknowledgement of a heartbeat sent before the call -/
def f7 : List Label := [.send 0, .register, .recvOk 0]

theorem C09_straddling_ack_witness :
    let s := run false { folls := [⟨[], none⟩] } f7
    (0, 0, 0) ∈ s.counted ∧ s.futs[0]? = some ⟨1, 2⟩ := by decide

/-- the same schedule on the repaired variant credits nothing -/
example : (run true { folls := [⟨[], none⟩] } f7).counted = [] := by decide
/-- and the next heartbeat does -/
example : (run true { folls := [⟨[], none⟩] } (f7 ++ [.send 0, .recvOk 0])).counted = [(0, 0, 3)] := by decide

end VL
#print axioms VL.verify_acks_produced_after_call
#print axioms VL.C09_straddling_ack_witness
