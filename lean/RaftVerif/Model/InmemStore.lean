import RaftVerif.Model.LogCache
/-! `InmemStore` (inmem_store.go) as a `LC.Backend`: the map plus the `lowIndex`/`highIndex`
bookkeeping with its quirks, failing atomically when the fault token is odd (the harness's wrapper
does the same around the real store). -/
namespace LC

structure Inmem where
  logs : Nat → Option Entry
  low : Nat
  high : Nat

def Inmem.empty : Inmem := ⟨fun _ => none, 0, 0⟩

def Inmem.put (s : Inmem) (l : Entry) : Inmem :=
  { logs := fun i => if i = l.index then some l else s.logs i
    low := if s.low = 0 then l.index else s.low
    high := if l.index > s.high then l.index else s.high }

def Inmem.storeLogs (s : Inmem) (ls : List Entry) : Inmem := ls.foldl Inmem.put s

def Inmem.deleteRange (s : Inmem) (lo hi : Nat) : Inmem :=
  let low' := if lo ≤ s.low then hi + 1 else s.low
  let high' := if hi ≥ s.high then lo - 1 else s.high
  { logs := fun i => if lo ≤ i ∧ i ≤ hi then none else s.logs i
    low := if low' > high' then 0 else low'
    high := if low' > high' then 0 else high' }

theorem Inmem.storeLogs_get (s : Inmem) (ls : List Entry) (i : Nat) :
    (s.storeLogs ls).logs i = match ls.reverse.find? (·.index = i) with
                              | some e => some e
                              | none => s.logs i := by
  induction ls generalizing s with
  | nil => simp [Inmem.storeLogs]
  | cons l rest ih =>
    simp only [Inmem.storeLogs, List.foldl_cons] at ih ⊢
    rw [ih]
    simp only [List.reverse_cons, List.find?_append]
    cases h : List.find? (fun x => decide (x.index = i)) rest.reverse with
    | some e => simp
    | none =>
      simp only [Option.none_or, List.find?_cons, List.find?_nil]
      by_cases hl : l.index = i
      · simp [hl, Inmem.put]
      · have : ¬ i = l.index := fun h => hl h.symm
        simp [hl, Inmem.put, this]

def inmemBackend : Backend Inmem where
  get s i := s.logs i
  store s ls f := if f % 2 = 1 then (s, false) else (s.storeLogs ls, true)
  delete s lo hi f := if f % 2 = 1 then (s, false) else (s.deleteRange lo hi, true)
  first s := some s.low
  last s := some s.high
  store_ok := by
    intro s ls f h i
    by_cases hf : f % 2 = 1
    · simp [hf] at h
    · simp only [hf, if_false]; exact Inmem.storeLogs_get s ls i
  store_fail := by
    intro s ls f h i
    by_cases hf : f % 2 = 1
    · simp [hf]
    · simp [hf] at h

end LC
