import RaftVerif.Model.UserRestore
/-! # C20 — user Restore.  Registered: `UR.restore_effects`, `UR.restore_refused_when_unstable`,
`UR.restore_burns_index`.  Follower convergence is C12's catch-up plus InstallSnapshot. -/
