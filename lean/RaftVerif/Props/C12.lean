import RaftVerif.Core.Catchup
import RaftVerif.Proofs.Replicate
/-! # C12 — convergence (catch-up half).  Registered: `RP.catchup_terminates`. -/
