import RaftVerif.Core.Catchup
/-! # C12 — convergence (catch-up half).  Registered: `RP.catchup_terminates`. -/
