import RaftVerif.Core.Catchup
import RaftVerif.Proofs.Replicate
import RaftVerif.Proofs.Leader
/-! # C12 — convergence (catch-up half).  Registered: `RP.catchup_terminates`. -/
