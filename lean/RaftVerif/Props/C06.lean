import RaftVerif.Proofs.ServerLocal
import RaftVerif.Model.MP.Vote
import RaftVerif.Proofs.VoteTrace
import RaftVerif.Proofs.RefineVote
import RaftVerif.Model.CampaignFault
/-! # C06 — vote and term integrity across crashes and store failures.
Registered: `MP.vote_once_per_term` (write-plan model of requestVote's three stable writes: every
request sequence, every failure plan, every crash point), `SV.exec_prefix` (crash = prefix of the
plan), plus the `SV` local theorems in `Proofs/ServerLocal`. -/
