import RaftVerif.Proofs.ServerLocal
import RaftVerif.Proofs.Candidate
import RaftVerif.Proofs.Leader
/-! # C14 — pre-vote: the request handler is inert and grants only what a real vote could grant.
Registered theorems: `SV.prevote_inert`, `SV.prevote_event_inert`, `SV.prevote_grant_sound`.
`FullStatement` (not yet proved): an isolated server with pre-vote on never increases its term —
needs the candidate loop (`runCandidate`/`preElectSelf`) in the model. -/
namespace C14
open SV
/-- non-vacuity: a granted pre-vote exists -/
example : preVoteResp { emptyVol with term := 3 } ⟨12, 2, 4, 0, 0, false⟩ = .prevote 4 true := by decide
end C14
