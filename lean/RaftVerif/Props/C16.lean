import RaftVerif.Model.Wire
/-! # C16 — NetworkTransport delivers RPCs faithfully and pipelines in order.
Registered: `WR.decAEReq_enc`, `WR.decAEResp_enc` (prefix-form round trips for every well-formed
AppendEntries request / response, any number of entries), `WR.decStream_enc` (a back-to-back stream
of pipelined responses decodes to exactly those responses, in order: the encoding is
self-delimiting, so a response can never be read as part of another).
`FullStatement` (not proved): the same round trips for RequestVote, RequestPreVote, InstallSnapshot,
TimeoutNow and the connection-pool discipline; those are covered by the H5 observations only. -/
