import RaftVerif.Model.RunLoop
import RaftVerif.Proofs.Leader
/-! # C17 — every future resolves.  Registered: `RL.every_future_resolves`, `RL.refused_call_not_queued`
(role-loop model: Apply futures only).  `FullStatement` (not proved): the same for every future kind
(VerifyLeader through `verifyCh`, LeadershipTransfer, configuration changes, snapshots, restores) and
for calls racing `Shutdown` through the buffered queues — where the pinned code strands callers (F5). -/
