import RaftVerif.Proofs.ServerLocal
/-! # C10 — crash recovery. -/
