import RaftVerif.Proofs.ServerLocal
import RaftVerif.Proofs.Restart
/-! # C10 — crash recovery.

`SV.exec_prefix` (a crash leaves a prefix of the handler's writes), `SV.restart_resumes`,
`SV.restart_fsm`, `SV.restart_returns`, `SV.damaged_falls_back`. -/
