import RaftVerif.Model.Lease
import RaftVerif.Proofs.Leader
/-! # C13 — leader lease.  Registered: `LS.isolated_leader_steps_down` (timed model of
`checkLeaderLease` and its re-arming: once fewer than a quorum of voters answer, the server is
leader only at instants ≤ t0 + 2·lease, for every arrival pattern of the remaining answers),
`LS.responsive_majority_keeps_leader`. -/
