import RaftVerif.Core.Fsm
import RaftVerif.Proofs.Leader
/-! # C08 — the client-visible outcome of Apply / Barrier is exact.

Registered: `SV.dispatch_ok`, `SV.dispatch_failed`, `SV.commitBranch_acks_committed`,
`SV.commitBranch_rest`, `SV.commitBranch_commit` (the leader loop as stepped against the code: indexes
are handed out consecutively in call order and stored before anything else, a call is answered nil
only when the commit index has reached its index, with that index and its own response, nothing is
dropped unanswered), `SV.cleanup_answers_everyone` (losing leadership answers every call still in
flight), and the global `RP.ack_exact_forever`, `RP.fsm_safety` (cluster model). -/
