import RaftVerif.Spec.ConfigSpec
import RaftVerif.Model.Overlap
import RaftVerif.Proofs.Candidate
import RaftVerif.Proofs.Leader
import RaftVerif.Proofs.LeaderConfig
/-! # C07 — membership changes: one voter at a time, well-formed, stale prevIndex refused;
adjacent configurations have intersecting majorities.  (Pure half: `configuration.go`.) -/
namespace C07
open CF

/-- only the named server's entry can change: every other id is a voter afterwards iff before -/
theorem next_config_delta_le_one_voter (c : Config) (idx : Nat) (ch : Change) (c' : Config)
    (h : nextConfiguration c idx ch = some c') (x : Nat) (hx : x ≠ ch.serverID) :
    isVoter c' x ↔ isVoter c x := CF.next_config_delta_le_one_voter c idx ch c' h x hx

/-- every other server entry is carried over unchanged (all five commands) -/
theorem touches_only_target (c : Config) (ch : Change) (x : Server) (hx : x.id ≠ ch.serverID) :
    x ∈ applyChange c ch ↔ x ∈ c := CF.applyChange_touches_only_target c ch x hx

/-- results are well-formed: non-empty unique ids and addresses, at least one voter -/
theorem next_config_wellformed (c : Config) (idx : Nat) (ch : Change) (c' : Config)
    (h : nextConfiguration c idx ch = some c') :
    (∀ s ∈ c', s.id ≠ 0 ∧ s.addr ≠ 0) ∧ (c'.map (·.id)).Nodup ∧ (c'.map (·.addr)).Nodup ∧
    ∃ s ∈ c', s.suffrage = .voter := CF.next_config_wellformed c idx ch c' h

/-- a change naming a stale prevIndex is rejected (and, being a pure function, without effect) -/
theorem stale_prev_index_rejected (c : Config) (idx : Nat) (ch : Change)
    (h : ch.prevIndex > 0 ∧ ch.prevIndex ≠ idx) : nextConfiguration c idx ch = none :=
  CF.stale_prev_index_rejected c idx ch h

/-- majorities of two configurations whose voter sets are equal or differ by one server intersect -/
theorem adjacent_config_majorities_intersect (C C' Q Q' : Finset Nat) (hadj : OV.Adjacent C C')
    (h : OV.IsQuorum C Q) (h' : OV.IsQuorum C' Q') : ∃ x, x ∈ Q ∧ x ∈ Q' :=
  OV.adjacent_config_majorities_intersect C C' Q Q' hadj h h'

/-- non-vacuity: an accepted change that really moves a voter -/
example : nextConfiguration [⟨.voter, 1, 11⟩, ⟨.staging, 3, 13⟩] 7 ⟨.promote, 3, 0, 7⟩ =
    some [⟨.voter, 1, 11⟩, ⟨.voter, 3, 13⟩] := by decide
end C07
