import RaftVerif.Model.RunLoop
import RaftVerif.Proofs.Snapshot
/-! # C18 — leadership notifications.  Registered: `RL.notify_alternates`. -/
