import RaftVerif.Model.RunLoop
/-! # C18 — leadership notifications.  Registered: `RL.notify_alternates`. -/
