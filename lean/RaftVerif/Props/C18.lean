import RaftVerif.Model.RunLoop
import RaftVerif.Proofs.Snapshot
import RaftVerif.Proofs.Leader
/-! # C18 — leadership notifications.  Registered: `RL.notify_alternates`. -/
