import RaftVerif.Model.FileSnap
import RaftVerif.Spec.FileSnapSpec
/-! # C15 — FileSnapshotStore is crash-atomic, verified and retains the newest.
Registered (all about the transition system `FSS`: one label per syscall of `file_snapshot.go`, an
ordered-journal crash model, any number of interleaved sinks and reaps, a stop after any syscall,
every writeback schedule, a crash at every instant): `FSS.list_implies_complete`,
`FSS.list_sorted_and_bounded`, `FSS.unfinished_never_listed`, `FSS.closed_is_durable`,
`FSS.reap_keeps_newest`.  The executable program `FSP.program` (Spec/FileSnapSpec.lean) uses the
same label alphabet; H4 compares it with the real store's syscalls under strace. -/
namespace C15
/-- non-vacuity of the executable side: a close that reaps the older snapshot -/
example : FSP.canon (FSP.program 1 [.create 1 5 1, .close 1, .create 2 9 1, .write 2 10, .close 2]) =
  [("mk", 1), ("cm", 1), ("wm", 1), ("fm", 1), ("cs", 1), ("fs", 1), ("cm", 1), ("wm", 1), ("fm", 1), ("rn", 1), ("fp", 0),
   ("mk", 2), ("cm", 2), ("wm", 2), ("fm", 2), ("cs", 2), ("ws", 2), ("fs", 2), ("cm", 2), ("wm", 2), ("fm", 2), ("rn", 2), ("fp", 0),
   ("us", 1), ("um", 1), ("rd", 1)] := by decide
end C15
