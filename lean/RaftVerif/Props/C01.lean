import RaftVerif.Core.Election
import RaftVerif.Model.MP.Vote
import RaftVerif.Model.Overlap
import RaftVerif.Proofs.ElectionSV
import RaftVerif.Proofs.Candidate
import RaftVerif.Proofs.RefineVote
import RaftVerif.Model.CampaignFault
/-! # C01 — election safety.  Registered: `RP.election_safety` (cluster model, fixed membership, any
size, all schedules / faults / crashes between vote writes), `MP.vote_once_per_term`,
`OV.same_config_quorums_intersect`, `OV.adjacent_config_majorities_intersect`. -/
