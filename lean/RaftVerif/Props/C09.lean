import RaftVerif.Model.Verify
/-! # C09 — VerifyLeader succeeds only with a fresh majority of voters.
Registered: `VL.verify_acks_produced_after_call` (the heartbeat routine as the code now has it —
requests are taken when the heartbeat is sent and put back if the exchange fails: every credited
acknowledgement answers a heartbeat sent strictly after the request was registered, for any number
of followers and every schedule), and `VL.C09_straddling_ack_witness` (the behaviour before the
repair, kept as a witness: *send, register, response* credits a stale acknowledgement). -/
