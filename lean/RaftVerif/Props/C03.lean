import RaftVerif.Core.Fsm
/-! # C03 — committed entries are permanent.  Registered: `RP.leader_completeness`, `RP.ack_exact`,
`RP.ack_exact_forever`. -/
