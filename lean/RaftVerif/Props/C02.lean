import RaftVerif.Core.Fsm
import RaftVerif.Proofs.ServerLocal
import RaftVerif.Proofs.AECommit
/-! # C02 — state-machine safety.  Registered: `RP.state_machine_safety`, `RP.state_machine_safety_snap`,
`RP.fsm_safety` (streams handed to the FSMs, all lifetimes). -/
