import RaftVerif.Core.LogsStep
import RaftVerif.Proofs.ServerLocal
import RaftVerif.Proofs.AELog
import RaftVerif.Proofs.RunInv
import RaftVerif.Proofs.RefineAE
import RaftVerif.Proofs.Replicate
/-! # C04 — log matching and AppendEntries consistency.

Registered: `RP.log_matching` (cluster model), `SV.ae_stale_term_inert`, `SV.ae_success_sound`,
`SV.aePrevOk_true`, `SV.ae_success_log`, `SV.applyAll_sorted` (stepped model of the real handler). -/
