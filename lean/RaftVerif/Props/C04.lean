import RaftVerif.Core.LogsStep
import RaftVerif.Proofs.ServerLocal
/-! # C04 — log matching and AppendEntries consistency.  Registered: `RP.log_matching`. -/
