import RaftVerif.Spec.CommitSpec
import RaftVerif.Proofs.AECommit
import RaftVerif.Proofs.Leader
import RaftVerif.Proofs.Replicate
import RaftVerif.Proofs.PipelineHeld
/-! # C05 — commit only on a majority of voters, current-term rule, monotone

Property theorems (bookkeeping half: `commitment.go`; the follower side and the global side are in
`Props/C02`, `Props/C03`).  Helper lemmas live in `Model/Commitment`, `Spec/CommitSpec`. -/
namespace C05
open CM

/-- every operation: commit index never decreases; when it changes a strict majority of the voters
    in force has a match index ≥ the new value, the new value is ≥ `startIndex` (current-term
    rule), and no larger value has such a majority -/
theorem commit_is_majority (c : Commitment) (op : Op) :
    c.commitIndex ≤ (step c op).commitIndex ∧ (step c op).startIndex = c.startIndex ∧
    ((step c op).commitIndex ≠ c.commitIndex →
      (step c op).matchIndexes.length < 2 * support (step c op) (step c op).commitIndex ∧
      c.startIndex ≤ (step c op).commitIndex ∧
      ∀ m, (step c op).commitIndex < m → 2 * support (step c op) m ≤ (step c op).matchIndexes.length) :=
  step_spec c op

/-- over every operation sequence the commit index is monotone -/
theorem commit_monotone (c : Commitment) (ops : List Op) : c.commitIndex ≤ (ops.foldl step c).commitIndex :=
  run_monotone c ops

/-- the executable Spec the monitors evaluate on the implementation is met by the model -/
theorem model_meets_spec (c : Commitment) (op : Op) : stepOK c (step c op) = true := model_stepOK c op

/-- only voters are tracked: after a reconfiguration the table's keys are the new voters … -/
theorem only_voters_tracked_setConfig (c : Commitment) (vs : List Nat) : keysOK (step c (.setConfig vs)) vs = true :=
  model_keysOK_setConfig c vs

/-- … and a report from anybody (voter or not) never changes who is tracked -/
theorem only_voters_tracked_match (c : Commitment) (id idx : Nat) :
    (step c (.match_ id idx)).matchIndexes.map (·.1) = c.matchIndexes.map (·.1) := model_keys_match c id idx

/-- non-vacuity: a state and an operation for which the commit index really moves -/
example : (step ⟨[(1, 7), (2, 7), (3, 0), (4, 0)], 0, 1⟩ (.match_ 3 5)).commitIndex = 5 := by decide
end C05
