import RaftVerif.Core.Snap2
import RaftVerif.Model.Compaction
import RaftVerif.Proofs.ServerLocal
import RaftVerif.Proofs.Snapshot
/-! # C11 — snapshots and compaction never lose history.  Registered: `CP.compactRange_spec`,
`CP.compactRange_maximal`, `CP.removeOldLogs_all`, `RP.snapshot_coverage`. -/
