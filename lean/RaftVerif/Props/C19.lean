import RaftVerif.Model.InmemStore
/-! # C19 — LogCache is transparent to the wrapped LogStore -/
namespace C19
open LC

/-- any backend meeting the two `StoreLogs` laws, any capacity, any operation list with failures
    injected anywhere: the cache's answers are the backend's answers -/
theorem logcache_refines_store {σ : Type} (B : Backend σ) (s : σ) (cap : Nat) (ops : List Op) :
    runCache B { st := s, slots := List.replicate cap none } ops = runStore B s ops :=
  LC.logcache_refines_store B s cap ops

/-- instance used by the correspondence run: the `InmemStore` model (which satisfies the laws) -/
theorem logcache_refines_inmem (cap : Nat) (ops : List Op) :
    runCache inmemBackend { st := Inmem.empty, slots := List.replicate cap none } ops
      = runStore inmemBackend Inmem.empty ops :=
  LC.logcache_refines_store inmemBackend Inmem.empty cap ops

/-- the invariant behind it is inductive on its own (kept separate on purpose) -/
theorem cache_inv_step {σ : Type} (B : Backend σ) (c : Cache σ) (op : Op) (h : Inv B c) :
    Inv B (stepCache B c op).1 := inv_step B c op h

/-- non-vacuity: hit, miss, eviction by slot collision, rewrite after truncation, failed write -/
example :
    runCache inmemBackend { st := Inmem.empty, slots := List.replicate 2 none }
      [.storeLogs [⟨1, 1, 10⟩, ⟨2, 1, 20⟩] 0, .getLog 1, .storeLogs [⟨3, 1, 30⟩] 0, .getLog 1, .getLog 3,
       .deleteRange 2 3 0, .storeLogs [⟨2, 2, 21⟩] 1, .getLog 2, .storeLogs [⟨2, 2, 22⟩] 0, .getLog 2, .lastIndex]
    = [.ok true, .entry (some ⟨1, 1, 10⟩), .ok true, .entry (some ⟨1, 1, 10⟩), .entry (some ⟨3, 1, 30⟩),
       .ok true, .ok false, .entry none, .ok true, .entry (some ⟨2, 2, 22⟩), .idx (some 2)] := by decide
end C19
