import RaftVerif.Core.Commit

namespace RP

/-- frame lemma: nothing that Inv3 talks about changes except that terms may grow, voteResp/ae
    messages may be added, and a node may stop being candidate -/
theorem inv3_frame (n : Nat) (s s' : Sys) (h : Inv3 n s)
    (hlog : ∀ j, (s'.nodes j).log = (s.nodes j).log)
    (hterm : ∀ j, (s.nodes j).term ≤ (s'.nodes j).term)
    (htl : s'.ghost.tl = s.ghost.tl) (hel : s'.ghost.elected = s.ghost.elected)
    (hacks : s'.ghost.acks = s.ghost.acks) (hglogs : s'.ghost.glogs = s.ghost.glogs)
    (hgrants : s'.ghost.grants = s.ghost.grants)
    (hreq : ∀ c u li lt, Msg.voteReq c u li lt ∈ s'.net ↔ Msg.voteReq c u li lt ∈ s.net)
    (hresp : ∀ v l t k, Msg.aeResp v l t k ∈ s'.net → Msg.aeResp v l t k ∈ s.net)
    (hcand : ∀ c, (s'.nodes c).role = .candidate →
        (s'.nodes c).term = (s.nodes c).term ∧ (s.nodes c).role = .candidate) :
    Inv3 n s' := by
  obtain ⟨b1, b2, b3, b4, b5, b6, b7, b8, b9, b10, b11, b12, b13, b14, b15⟩ := h
  have hE : ∀ w, Elected s' w ↔ Elected s w := by
    intro w; simp only [Elected, hel]
  refine ⟨?_, ?_, ?_, ?_, ?_, ?_, ?_, ?_, ?_, ?_, ?_, ?_, ?_, ?_, ?_⟩
  · intro v e he; rw [hlog] at he; have := b1 v e he; have := hterm v; omega
  · intro t e he; rw [htl] at he; exact b2 t e he
  · intro v; rw [hlog]; exact b3 v
  · intro t; rw [htl]; exact b4 t
  · intro v t k hk; rw [hacks] at hk; rw [htl]
    have hb := b5 v t k hk; have := hterm v; exact ⟨by omega, hb.2⟩
  · intro v t k hk k' hk'
    rw [hacks] at hk; rw [hlog, htl]
    rcases b6 v t k hk k' hk' with hl | ⟨w, w1, w2, w3, w4⟩
    · exact Or.inl hl
    · exact Or.inr ⟨w, w1, by have := hterm v; omega, (hE w).mpr w3, w4⟩
  · intro v l t k hm; rw [hacks]; exact b7 v l t k (hresp v l t k hm)
  · intro v u c Lg f hg; rw [hglogs] at hg; have := b8 v u c Lg f hg; have := hterm v; omega
  · intro v u c hg; rw [hgrants] at hg; rw [hglogs]; exact b9 v u c hg
  · intro v u c Lg hg; rw [hglogs] at hg; exact (hE u).mpr (b10 v u c Lg hg)
  · intro v u c Lg f hg; rw [hglogs] at hg
    obtain ⟨g1, li, lt, g2, g3, g4⟩ := b11 v u c Lg f hg
    exact ⟨g1, li, lt, (hreq c u li lt).mpr g2, g3, g4⟩
  · intro v u c Lg f hg t k hk htu k' hk'
    rw [hglogs] at hg; rw [hacks] at hk; rw [htl]
    rcases b12 v u c Lg f hg t k hk htu k' hk' with hl | ⟨w, w1, w2, w3, w4, w5⟩
    · exact Or.inl hl
    · exact Or.inr ⟨w, w1, w2, w3, (hE w).mpr w4, w5⟩
  · intro c u li lt hm; have := b13 c u li lt ((hreq c u li lt).mp hm); have := hterm c; omega
  · intro c u li lt li' lt' hm hm'
    exact b14 c u li lt li' lt' ((hreq _ _ _ _).mp hm) ((hreq _ _ _ _).mp hm')
  · intro c u li lt hm hr ht
    obtain ⟨c1, c2⟩ := hcand c hr
    rw [hlog]
    exact b15 c u li lt ((hreq _ _ _ _).mp hm) c2 (by omega)


theorem handleVote_more (nd : Node) (c t li lt stage : Nat) :
    let r := handleVote nd c t li lt stage
    (r.2 = true → r.1.term = t ∧ nd.term ≤ t ∧ ¬ (lt < lastTerm nd.log) ∧
        ¬ (lastTerm nd.log = lt ∧ li < nd.log.length)) ∧
    (r.1.role = .candidate → r.1.term = nd.term ∧ nd.role = .candidate) := by
  simp only [handleVote]
  by_cases h1 : t < nd.term
  · simp [h1]
  · simp only [h1, if_false]
    by_cases h2 : nd.term < t
    · simp only [h2, if_true]
      split
      · simp
      · split
        · simp
        · rename_i hA hB
          split
          · simp; intro _; exact ⟨by omega, by omega, by simpa using hB⟩
          · split <;> simp
            exact ⟨by omega, by omega, by simpa using hB⟩
    · simp only [h2, if_false]
      have : nd.term = t := by omega
      split
      · simp
      · split
        · simp
        · rename_i hA hB
          split
          · simp; intro _; exact ⟨this, by omega, by omega, by simpa using hB⟩
          · split <;> simp
            exact ⟨this, by omega, by omega, by simpa using hB⟩

/-- the AppendEntries step, abstracted: node `j` moves to term `tm`, becomes follower, its log
    becomes `L'` of the given shape relative to the term log of `tm`; optionally an
    acknowledgement `(j, tm, m)` is recorded -/
theorem inv3_recv (n : Nat) (s s' : Sys) (h : Inv3 n s) (hinv2 : Inv2 n s) (j tm m : Nat) (L' : List Entry)
    (acked : Bool)
    (hnodes : ∀ k, k ≠ j → s'.nodes k = s.nodes k)
    (hlogj : (s'.nodes j).log = L') (htermj : (s'.nodes j).term = tm)
    (hrolej : (s'.nodes j).role = .follower) (hle : (s.nodes j).term ≤ tm)
    (htl : s'.ghost.tl = s.ghost.tl) (hel : s'.ghost.elected = s.ghost.elected)
    (hglogs : s'.ghost.glogs = s.ghost.glogs) (hgrants : s'.ghost.grants = s.ghost.grants)
    (hreq : ∀ c u li lt, Msg.voteReq c u li lt ∈ s'.net ↔ Msg.voteReq c u li lt ∈ s.net)
    (hTne : s.ghost.tl tm ≠ []) (hm : m ≤ (s.ghost.tl tm).length)
    (hshape : L' = (s.nodes j).log ∨
      (∃ q, L' = (s.nodes j).log.take q ∧ (s.nodes j).log.take q = (s.ghost.tl tm).take q ∧
        ∃ (h1 : q < (s.nodes j).log.length) (h2 : q < (s.ghost.tl tm).length),
          (s.nodes j).log[q].term ≠ (s.ghost.tl tm)[q].term) ∨
      (L' = (s.ghost.tl tm).take m ∧ ∃ q, q < m ∧ (s.nodes j).log.take q = (s.ghost.tl tm).take q ∧
        ((s.nodes j).log.length ≤ q ∨ ∃ (h1 : q < (s.nodes j).log.length) (h2 : q < (s.ghost.tl tm).length),
          (s.nodes j).log[q].term ≠ (s.ghost.tl tm)[q].term)))
    (hacks : s'.ghost.acks = if acked = true then (j, tm, m) :: s.ghost.acks else s.ghost.acks)
    (hresp : ∀ v l t k, Msg.aeResp v l t k ∈ s'.net →
        Msg.aeResp v l t k ∈ s.net ∨ (acked = true ∧ v = j ∧ t = tm ∧ k = m))
    (hackfact : acked = true → L'.take m = (s.ghost.tl tm).take m) :
    Inv3 n s' := by
  obtain ⟨b1, b2, b3, b4, b5, b6, b7, b8, b9, b10, b11, b12, b13, b14, b15⟩ := h
  have hE : ∀ w, Elected s' w ↔ Elected s w := by
    intro w; simp only [Elected, hel]
  have hterm : ∀ k, (s.nodes k).term ≤ (s'.nodes k).term := by
    intro k; by_cases hk : k = j
    · subst hk; rw [htermj]; exact hle
    · rw [hnodes k hk]
  have hElTm : Elected s tm := hinv2.tl_elected tm hTne
  have hmem : ∀ x, x ∈ s.ghost.acks → x ∈ s'.ghost.acks := by
    intro x hx; rw [hacks]; split
    · exact List.mem_cons_of_mem _ hx
    · exact hx
  have hnew : ∀ x, x ∈ s'.ghost.acks → x ∈ s.ghost.acks ∨ (acked = true ∧ x = (j, tm, m)) := by
    intro x hx; rw [hacks] at hx; split at hx
    · rename_i ha
      rcases List.mem_cons.mp hx with hx | hx
      · exact Or.inr ⟨ha, hx⟩
      · exact Or.inl hx
    · exact Or.inl hx
  -- entries of the new log come from the old log or from the term log of tm
  have hLsub : ∀ x ∈ L', x ∈ (s.nodes j).log ∨ x ∈ s.ghost.tl tm := by
    intro x hx
    rcases hshape with h | ⟨q, h, _⟩ | ⟨h, _⟩
    · left; rw [h] at hx; exact hx
    · left; rw [h] at hx; exact List.mem_of_mem_take hx
    · right; rw [h] at hx; exact List.mem_of_mem_take hx
  refine ⟨?_, ?_, ?_, ?_, ?_, ?_, ?_, ?_, ?_, ?_, ?_, ?_, ?_, ?_, ?_⟩
  · intro v x hx
    by_cases hv : v = j
    · subst hv
      rw [hlogj] at hx; rw [htermj]
      rcases hLsub x hx with hx | hx
      · have := b1 v x hx; omega
      · exact b2 tm x hx
    · rw [hnodes v hv] at hx ⊢; exact b1 v x hx
  · intro t x hx; rw [htl] at hx; exact b2 t x hx
  · intro v
    by_cases hv : v = j
    · subst hv
      rw [hlogj]
      rcases hshape with h | ⟨q, h, _⟩ | ⟨h, _⟩
      · rw [h]; exact b3 v
      · rw [h]; exact termsMono_take _ _ (b3 v)
      · rw [h]; exact termsMono_take _ _ (b4 tm)
    · rw [hnodes v hv]; exact b3 v
  · intro t; rw [htl]; exact b4 t
  · intro v t k hk
    rw [htl]
    rcases hnew _ hk with hk | ⟨_, hk⟩
    · have hb := b5 v t k hk; have := hterm v; exact ⟨by omega, hb.2⟩
    · simp only [Prod.mk.injEq] at hk
      obtain ⟨e1, e2, e3⟩ := hk
      rw [e1, e2, e3, htermj]; exact ⟨Nat.le_refl _, hm⟩
  · intro v t k hk k' hk'
    rw [htl]
    rcases hnew _ hk with hk | ⟨ha, hk⟩
    · by_cases hv : v = j
      · subst hv
        rw [hlogj, htermj]
        have hb := b5 v t k hk
        rcases b6 v t k hk k' hk' with hl | ⟨w, w1, w2, w3, w4⟩
        · rcases retain_shape (s.nodes v).log L' (s.ghost.tl tm) (s.ghost.tl t) k' m (by omega) hl hshape
            with hres | ⟨q, hq, h1, h2, hne⟩
          · exact Or.inl hres
          · right
            have htne : tm ≠ t := by
              intro heq; subst heq; exact hne rfl
            exact ⟨tm, by omega, Nat.le_refl _, (hE tm).mpr hElTm, q, hq, h1, h2, hne⟩
        · exact Or.inr ⟨w, w1, by omega, (hE w).mpr w3, w4⟩
      · rw [hnodes v hv]
        rcases b6 v t k hk k' hk' with hl | ⟨w, w1, w2, w3, w4⟩
        · exact Or.inl hl
        · exact Or.inr ⟨w, w1, w2, (hE w).mpr w3, w4⟩
    · simp only [Prod.mk.injEq] at hk
      obtain ⟨e1, e2, e3⟩ := hk
      left
      rw [e1, e2, hlogj]
      have := hackfact ha
      have e4 : L'.take k' = (L'.take m).take k' := by
        rw [List.take_take, Nat.min_eq_left (by omega)]
      have e5 : (s.ghost.tl tm).take k' = ((s.ghost.tl tm).take m).take k' := by
        rw [List.take_take, Nat.min_eq_left (by omega)]
      rw [e4, e5, this]
  · intro v l t k hmm
    rcases hresp v l t k hmm with hmm | ⟨ha, e1, e2, e3⟩
    · exact hmem _ (b7 v l t k hmm)
    · rw [hacks, e1, e2, e3]; simp only [ha, if_true]; exact List.mem_cons_self ..
  · intro v u c Lg f hg; rw [hglogs] at hg; have := b8 v u c Lg f hg; have := hterm v; omega
  · intro v u c hg; rw [hgrants] at hg; rw [hglogs]; exact b9 v u c hg
  · intro v u c Lg hg; rw [hglogs] at hg; exact (hE u).mpr (b10 v u c Lg hg)
  · intro v u c Lg f hg; rw [hglogs] at hg
    obtain ⟨g1, li, lt, g2, g3, g4⟩ := b11 v u c Lg f hg
    exact ⟨g1, li, lt, (hreq c u li lt).mpr g2, g3, g4⟩
  · intro v u c Lg f hg t k hk htu k' hk'
    rw [hglogs] at hg; rw [htl]
    rcases hnew _ hk with hk | ⟨_, hk⟩
    · rcases b12 v u c Lg f hg t k hk htu k' hk' with hl | ⟨w, w1, w2, w3, w4, w5⟩
      · exact Or.inl hl
      · exact Or.inr ⟨w, w1, w2, w3, (hE w).mpr w4, w5⟩
    · simp only [Prod.mk.injEq] at hk
      obtain ⟨e1, e2, e3⟩ := hk
      have := b8 v u c Lg f hg
      rw [e1] at this; omega
  · intro c u li lt hmm; have := b13 c u li lt ((hreq c u li lt).mp hmm); have := hterm c; omega
  · intro c u li lt li' lt' hm1 hm2
    exact b14 c u li lt li' lt' ((hreq _ _ _ _).mp hm1) ((hreq _ _ _ _).mp hm2)
  · intro c u li lt hmm hr ht
    by_cases hc : c = j
    · subst hc; rw [hrolej] at hr; cases hr
    · rw [hnodes c hc] at hr ht ⊢
      exact b15 c u li lt ((hreq _ _ _ _).mp hmm) hr ht

theorem ghost_ifa_glogs (b : Bool) (g : Ghost) (x : Nat × Nat × Nat) :
    (if b = true then ({ g with acks := x :: g.acks } : Ghost) else g).glogs = g.glogs := by
  split <;> rfl
theorem ghost_ifa_grants (b : Bool) (g : Ghost) (x : Nat × Nat × Nat) :
    (if b = true then ({ g with acks := x :: g.acks } : Ghost) else g).grants = g.grants := by
  split <;> rfl
theorem ghost_ifa_acks (b : Bool) (g : Ghost) (x : Nat × Nat × Nat) :
    (if b = true then ({ g with acks := x :: g.acks } : Ghost) else g).acks
      = if b = true then x :: g.acks else g.acks := by
  split <;> rfl

theorem handleAE_full (nd : Node) (t p pt : Nat) (es : List Entry) (lc stage : Nat) :
    let r := handleAE nd t p pt es lc stage
    (r.1 = nd ∧ r.2 = false) ∨
    (r.1.role = .follower ∧ r.1.term = t ∧ nd.term ≤ t ∧
      ((r.2 = false ∧ r.1.log = nd.log) ∨
       ((p = 0 ∨ (p ≤ nd.log.length ∧ termAt nd.log p = pt)) ∧
         ((r.2 = false ∧ r.1.log = nd.log.take p ++ truncSuffix (nd.log.drop p) es) ∨
          (r.2 = true ∧ r.1.log = nd.log.take p ++ mergeSuffix (nd.log.drop p) es))))) := by
  simp only [handleAE]
  by_cases h1 : t < nd.term
  · simp [h1]
  · simp only [h1, if_false]
    right
    by_cases h2 : nd.term < t ∨ nd.role ≠ .follower
    · simp only [h2, if_true]
      split
      · exact ⟨rfl, rfl, by omega, Or.inl ⟨rfl, rfl⟩⟩
      · split
        · exact ⟨rfl, rfl, by omega, Or.inl ⟨rfl, rfl⟩⟩
        · rename_i _ hchk
          have hc : p = 0 ∨ (p ≤ nd.log.length ∧ termAt nd.log p = pt) := by
            by_cases hp : p = 0
            · exact Or.inl hp
            · right
              simp only [not_and, not_or, ne_eq] at hchk
              have := hchk hp
              simp only [Nat.not_lt, Decidable.not_not] at this
              exact this
          split
          · exact ⟨rfl, rfl, by omega, Or.inr ⟨hc, Or.inl ⟨rfl, rfl⟩⟩⟩
          · exact ⟨rfl, rfl, by omega, Or.inr ⟨hc, Or.inr ⟨rfl, rfl⟩⟩⟩
    · simp only [h2, if_false]
      have hrole : nd.role = .follower := by
        by_contra hne; exact h2 (Or.inr hne)
      have hterm : nd.term = t := by
        have : ¬ nd.term < t := fun hlt => h2 (Or.inl hlt)
        omega
      split
      · exact ⟨hrole, hterm, by omega, Or.inl ⟨rfl, rfl⟩⟩
      · split
        · exact ⟨hrole, hterm, by omega, Or.inl ⟨rfl, rfl⟩⟩
        · rename_i _ hchk
          have hc : p = 0 ∨ (p ≤ nd.log.length ∧ termAt nd.log p = pt) := by
            by_cases hp : p = 0
            · exact Or.inl hp
            · right
              simp only [not_and, not_or, ne_eq] at hchk
              have := hchk hp
              simp only [Nat.not_lt, Decidable.not_not] at this
              exact this
          split
          · exact ⟨hrole, hterm, by omega, Or.inr ⟨hc, Or.inl ⟨rfl, rfl⟩⟩⟩
          · exact ⟨hrole, hterm, by omega, Or.inr ⟨hc, Or.inr ⟨rfl, rfl⟩⟩⟩

/-- if the follower does not hold the entry (idx, term of T at idx) there is a first divergence
    point below idx -/
theorem first_divergence (L T : List Entry) (idx : Nat) (hT : idx ≤ T.length)
    (hagree : ∀ i (h1 : i < L.length) (h2 : i < T.length),
        L[i].term = T[i].term → L.take (i + 1) = T.take (i + 1)) :
    ∀ m, m ≤ idx → L.take m = T.take m ∨
      ∃ q, q < m ∧ L.take q = T.take q ∧
        (L.length ≤ q ∨ ∃ (h1 : q < L.length) (h2 : q < T.length), L[q].term ≠ T[q].term) := by
  intro m
  induction m with
  | zero => intro _; left; simp
  | succ m ih =>
    intro hm
    rcases ih (by omega) with hl | ⟨q, hq, h1, h2⟩
    · by_cases hLm : L.length ≤ m
      · right; exact ⟨m, by omega, hl, Or.inl hLm⟩
      · have h1 : m < L.length := by omega
        have h2 : m < T.length := by omega
        by_cases hterm : L[m].term = T[m].term
        · left; exact hagree m h1 h2 hterm
        · right; exact ⟨m, by omega, hl, Or.inr ⟨h1, h2, hterm⟩⟩
    · right; exact ⟨q, by omega, h1, h2⟩

theorem inv3_step (n : Nat) (s s' : Sys) (hreach : Reachable n s) (h : Inv3 n s)
    (hstep : Step n s s') : Inv3 n s' := by
  have hinv1 : Inv n s := inv_reachable n s hreach
  have hinv2 : Inv2 n s := inv2_reachable n s hreach
  have hreach' : Reachable n s' := Reachable.step hreach hstep
  have hinv1' : Inv n s' := inv_reachable n s' hreach'
  have hinv2' : Inv2 n s' := inv2_reachable n s' hreach'
  obtain ⟨l, hen, rfl⟩ := hstep
  cases l with
  | timeout i =>
    obtain ⟨b1, b2, b3, b4, b5, b6, b7, b8, b9, b10, b11, b12, b13, b14, b15⟩ := h
    -- shape of the post-state
    have hlog : ∀ k, ((apply n s (Label.timeout i)).nodes k).log = (s.nodes k).log := by
      intro k; simp only [apply, setNode_nodes]; split
      · rename_i hk; subst hk; rfl
      · rfl
    have hterm : ∀ k, (s.nodes k).term ≤ ((apply n s (Label.timeout i)).nodes k).term := by
      intro k; simp only [apply, setNode_nodes]; split
      · rename_i hk; subst hk; simp
      · exact Nat.le_refl _
    have htermi : ((apply n s (Label.timeout i)).nodes i).term = (s.nodes i).term + 1 := by
      simp only [apply, setNode_nodes, if_true]
    have htl : (apply n s (Label.timeout i)).ghost.tl = s.ghost.tl := rfl
    have hel : (apply n s (Label.timeout i)).ghost.elected = s.ghost.elected := rfl
    have hacks : (apply n s (Label.timeout i)).ghost.acks = s.ghost.acks := rfl
    have hglogs : (apply n s (Label.timeout i)).ghost.glogs
        = (i, (s.nodes i).term + 1, i, (s.nodes i).log,
            decide (∀ x ∈ s.ghost.elected, x.1 ≠ (s.nodes i).term + 1)) :: s.ghost.glogs := rfl
    have hgrants : (apply n s (Label.timeout i)).ghost.grants
        = (i, (s.nodes i).term + 1, i) :: s.ghost.grants := rfl
    have hnet : (apply n s (Label.timeout i)).net
        = Msg.voteReq i ((s.nodes i).term + 1) (s.nodes i).log.length (lastTerm (s.nodes i).log) :: s.net := rfl
    have hE : ∀ w, Elected (apply n s (Label.timeout i)) w ↔ Elected s w := by
      intro w; simp only [Elected, hel]
    refine ⟨?_, ?_, ?_, ?_, ?_, ?_, ?_, ?_, ?_, ?_, ?_, ?_, ?_, ?_, ?_⟩
    · intro v e he; rw [hlog] at he; have := b1 v e he; have := hterm v; omega
    · intro t e he; rw [htl] at he; exact b2 t e he
    · intro v; rw [hlog]; exact b3 v
    · intro t; rw [htl]; exact b4 t
    · intro v t k hk; rw [hacks] at hk; rw [htl]
      have hb := b5 v t k hk; have := hterm v; exact ⟨by omega, hb.2⟩
    · intro v t k hk k' hk'
      rw [hacks] at hk; rw [hlog, htl]
      rcases b6 v t k hk k' hk' with hl | ⟨w, w1, w2, w3, w4⟩
      · exact Or.inl hl
      · exact Or.inr ⟨w, w1, by have := hterm v; omega, (hE w).mpr w3, w4⟩
    · intro v l t k hm; rw [hacks]; rw [hnet] at hm
      rcases List.mem_cons.mp hm with hm | hm
      · cases hm
      · exact b7 v l t k hm
    · intro v u c Lg f hg; rw [hglogs] at hg
      rcases List.mem_cons.mp hg with hg | hg
      · simp only [Prod.mk.injEq] at hg
        obtain ⟨e1, e2, _⟩ := hg
        rw [e1, e2, htermi]
      · have := b8 v u c Lg f hg; have := hterm v; omega
    · intro v u c hg; rw [hgrants] at hg; rw [hglogs]
      rcases List.mem_cons.mp hg with hg | hg
      · simp only [Prod.mk.injEq] at hg
        obtain ⟨e1, e2, e3⟩ := hg
        exact ⟨_, _, by rw [e1, e2, e3]; exact List.mem_cons_self ..⟩
      · obtain ⟨Lg, f, hgl⟩ := b9 v u c hg
        exact ⟨Lg, f, List.mem_cons_of_mem _ hgl⟩
    · intro v u c Lg hg; rw [hglogs] at hg
      rcases List.mem_cons.mp hg with hg | hg
      · simp only [Prod.mk.injEq] at hg
        obtain ⟨e1, e2, e3, e4, e5⟩ := hg
        rw [hE, e2]
        have : ¬ (∀ x ∈ s.ghost.elected, x.1 ≠ (s.nodes i).term + 1) := by
          intro hall; have := decide_eq_true hall; rw [← e5] at this; cases this
        simp only [not_forall, Decidable.not_not] at this
        obtain ⟨x, hx, hxe⟩ := this
        exact ⟨x.2.1, x.2.2, by rw [← hxe]; exact hx⟩
      · exact (hE u).mpr (b10 v u c Lg hg)
    · intro v u c Lg f hg; rw [hglogs] at hg; rw [hnet]
      rcases List.mem_cons.mp hg with hg | hg
      · simp only [Prod.mk.injEq] at hg
        obtain ⟨e1, e2, e3, e4, e5⟩ := hg
        rw [e2, e3, e4]
        exact ⟨b3 i, _, _, List.mem_cons_self .., by omega, by omega⟩
      · obtain ⟨g1, li, lt, g2, g3, g4⟩ := b11 v u c Lg f hg
        exact ⟨g1, li, lt, List.mem_cons_of_mem _ g2, g3, g4⟩
    · intro v u c Lg f hg t k hk htu k' hk'
      rw [hglogs] at hg; rw [hacks] at hk; rw [htl]
      rcases List.mem_cons.mp hg with hg | hg
      · simp only [Prod.mk.injEq] at hg
        obtain ⟨e1, e2, e3, e4, e5⟩ := hg
        subst e1
        rw [e4]
        rcases b6 v t k hk k' hk' with hl | ⟨w, w1, w2, w3, w4⟩
        · exact Or.inl hl
        · exact Or.inr ⟨w, w1, by omega, by intro hwu; omega, (hE w).mpr w3, w4⟩
      · rcases b12 v u c Lg f hg t k hk htu k' hk' with hl | ⟨w, w1, w2, w3, w4, w5⟩
        · exact Or.inl hl
        · exact Or.inr ⟨w, w1, w2, w3, (hE w).mpr w4, w5⟩
    · intro c u li lt hm; rw [hnet] at hm
      rcases List.mem_cons.mp hm with hm | hm
      · injection hm with e1 e2 e3 e4
        rw [e1, e2, htermi]
      · have := b13 c u li lt hm; have := hterm c; omega
    · intro c u li lt li' lt' hm hm'
      rw [hnet] at hm hm'
      rcases List.mem_cons.mp hm with hm | hm <;> rcases List.mem_cons.mp hm' with hm' | hm'
      · injection hm with e1 e2 e3 e4
        injection hm' with f1 f2 f3 f4
        exact ⟨by rw [e3, f3], by rw [e4, f4]⟩
      · injection hm with e1 e2 e3 e4
        have := b13 c u li' lt' hm'
        rw [e1, e2] at this; omega
      · injection hm' with e1 e2 e3 e4
        have := b13 c u li lt hm
        rw [e1, e2] at this; omega
      · exact b14 c u li lt li' lt' hm hm'
    · intro c u li lt hm hr ht
      rw [hlog]
      rw [hnet] at hm
      by_cases hci : c = i
      · subst hci
        rw [htermi] at ht
        rcases List.mem_cons.mp hm with hm | hm
        · injection hm with e1 e2 e3 e4
          exact ⟨e3, e4⟩
        · have := b13 c u li lt hm; omega
      · rcases List.mem_cons.mp hm with hm | hm
        · injection hm with e1 e2 e3 e4
          exact absurd e1 hci
        · have hn : (apply n s (Label.timeout i)).nodes c = s.nodes c := by
            simp only [apply, setNode_nodes, hci, if_false]
          rw [hn] at hr ht
          exact b15 c u li lt hm hr ht
  | timeoutCrash i k =>
    apply inv3_frame n s _ h
    · intro j; simp only [apply, setNode_nodes]; split
      · rename_i hj; subst hj; rfl
      · rfl
    · intro j; simp only [apply, setNode_nodes]; split
      · rename_i hj; subst hj; simp
      · exact Nat.le_refl _
    · rfl
    · rfl
    · rfl
    · rfl
    · rfl
    · intro c u li lt; rfl
    · intro v l t k' hm; exact hm
    · intro c; simp only [apply, setNode_nodes]; split
      · intro hc; cases hc
      · intro hc; exact ⟨rfl, hc⟩
  | voteReq j c t li lt stage =>
    simp only [enabled] at hen
    obtain ⟨hj, hm⟩ := hen
    have hf := handleVote_log (s.nodes j) c t li lt stage
    simp only at hf
    obtain ⟨f1, f2, f3⟩ := hf
    have hf' := handleVote_more (s.nodes j) c t li lt stage
    simp only at hf'
    obtain ⟨g1, g2⟩ := hf'
    have hlog : ∀ k, ((apply n s (Label.voteReq j c t li lt stage)).nodes k).log = (s.nodes k).log := by
      intro k; simp only [apply, setNode_nodes]; split
      · rename_i hk; subst hk; exact f1
      · rfl
    have hterm : ∀ k, (s.nodes k).term ≤ ((apply n s (Label.voteReq j c t li lt stage)).nodes k).term := by
      intro k; simp only [apply, setNode_nodes]; split
      · rename_i hk; subst hk; exact f2
      · exact Nat.le_refl _
    have hnet : (apply n s (Label.voteReq j c t li lt stage)).net
        = Msg.voteResp j c t (handleVote (s.nodes j) c t li lt stage).2 :: s.net := rfl
    have hreq : ∀ c' u li' lt', Msg.voteReq c' u li' lt' ∈ (apply n s (Label.voteReq j c t li lt stage)).net ↔
        Msg.voteReq c' u li' lt' ∈ s.net := by
      intro c' u li' lt'; rw [hnet]; simp only [List.mem_cons]
      constructor
      · rintro (h | h)
        · cases h
        · exact h
      · intro h; exact Or.inr h
    have hresp : ∀ v l t' k, Msg.aeResp v l t' k ∈ (apply n s (Label.voteReq j c t li lt stage)).net →
        Msg.aeResp v l t' k ∈ s.net := by
      intro v l t' k h; rw [hnet] at h
      rcases List.mem_cons.mp h with h | h
      · cases h
      · exact h
    have hcand : ∀ c', ((apply n s (Label.voteReq j c t li lt stage)).nodes c').role = .candidate →
        ((apply n s (Label.voteReq j c t li lt stage)).nodes c').term = (s.nodes c').term ∧
        (s.nodes c').role = .candidate := by
      intro c'; simp only [apply, setNode_nodes]; split
      · rename_i hk; subst hk; exact g2
      · intro hc; exact ⟨rfl, hc⟩
    by_cases hr : (handleVote (s.nodes j) c t li lt stage).2 = true
    · -- vote granted: a new grant-time log record
      obtain ⟨b1, b2, b3, b4, b5, b6, b7, b8, b9, b10, b11, b12, b13, b14, b15⟩ := h
      obtain ⟨gt1, gt2, gt3, gt4⟩ := g1 hr
      have htl : (apply n s (Label.voteReq j c t li lt stage)).ghost.tl = s.ghost.tl := by
        simp only [apply, hr, if_true]
      have hel : (apply n s (Label.voteReq j c t li lt stage)).ghost.elected = s.ghost.elected := by
        simp only [apply, hr, if_true]
      have hacks : (apply n s (Label.voteReq j c t li lt stage)).ghost.acks = s.ghost.acks := by
        simp only [apply, hr, if_true]
      have hglogs : (apply n s (Label.voteReq j c t li lt stage)).ghost.glogs
          = (j, t, c, (s.nodes j).log, decide (∀ x ∈ s.ghost.elected, x.1 ≠ t)) :: s.ghost.glogs := by
        simp only [apply, hr, if_true, f1]
      have hgrants : (apply n s (Label.voteReq j c t li lt stage)).ghost.grants
          = (j, t, c) :: s.ghost.grants := by
        simp only [apply, hr, if_true]
      have htermj : ((apply n s (Label.voteReq j c t li lt stage)).nodes j).term = t := by
        simp only [apply, setNode_nodes, if_true]; exact gt1
      have hE : ∀ w, Elected (apply n s (Label.voteReq j c t li lt stage)) w ↔ Elected s w := by
        intro w; simp only [Elected, hel]
      refine ⟨?_, ?_, ?_, ?_, ?_, ?_, ?_, ?_, ?_, ?_, ?_, ?_, ?_, ?_, ?_⟩
      · intro v e he; rw [hlog] at he; have := b1 v e he; have := hterm v; omega
      · intro u e he; rw [htl] at he; exact b2 u e he
      · intro v; rw [hlog]; exact b3 v
      · intro u; rw [htl]; exact b4 u
      · intro v u k hk; rw [hacks] at hk; rw [htl]
        have hb := b5 v u k hk; have := hterm v; exact ⟨by omega, hb.2⟩
      · intro v u k hk k' hk'
        rw [hacks] at hk; rw [hlog, htl]
        rcases b6 v u k hk k' hk' with hl | ⟨w, w1, w2, w3, w4⟩
        · exact Or.inl hl
        · exact Or.inr ⟨w, w1, by have := hterm v; omega, (hE w).mpr w3, w4⟩
      · intro v l u k hm'; rw [hacks]; exact b7 v l u k (hresp v l u k hm')
      · intro v u c' Lg f hg; rw [hglogs] at hg
        rcases List.mem_cons.mp hg with hg | hg
        · simp only [Prod.mk.injEq] at hg
          obtain ⟨e1, e2, _⟩ := hg
          rw [e1, e2, htermj]
        · have := b8 v u c' Lg f hg; have := hterm v; omega
      · intro v u c' hg; rw [hgrants] at hg; rw [hglogs]
        rcases List.mem_cons.mp hg with hg | hg
        · simp only [Prod.mk.injEq] at hg
          obtain ⟨e1, e2, e3⟩ := hg
          exact ⟨_, _, by rw [e1, e2, e3]; exact List.mem_cons_self ..⟩
        · obtain ⟨Lg, f, hgl⟩ := b9 v u c' hg
          exact ⟨Lg, f, List.mem_cons_of_mem _ hgl⟩
      · intro v u c' Lg hg; rw [hglogs] at hg
        rcases List.mem_cons.mp hg with hg | hg
        · simp only [Prod.mk.injEq] at hg
          obtain ⟨e1, e2, e3, e4, e5⟩ := hg
          rw [hE, e2]
          have : ¬ (∀ x ∈ s.ghost.elected, x.1 ≠ t) := by
            intro hall; have := decide_eq_true hall; rw [← e5] at this; cases this
          simp only [not_forall, Decidable.not_not] at this
          obtain ⟨x, hx, hxe⟩ := this
          exact ⟨x.2.1, x.2.2, by rw [← hxe]; exact hx⟩
        · exact (hE u).mpr (b10 v u c' Lg hg)
      · intro v u c' Lg f hg; rw [hglogs] at hg
        rcases List.mem_cons.mp hg with hg | hg
        · simp only [Prod.mk.injEq] at hg
          obtain ⟨e1, e2, e3, e4, e5⟩ := hg
          rw [e2, e3, e4]
          exact ⟨b3 j, li, lt, (hreq _ _ _ _).mpr hm, gt3, gt4⟩
        · obtain ⟨q1, li', lt', q2, q3, q4⟩ := b11 v u c' Lg f hg
          exact ⟨q1, li', lt', (hreq _ _ _ _).mpr q2, q3, q4⟩
      · intro v u c' Lg f hg t0 k hk htu k' hk'
        rw [hglogs] at hg; rw [hacks] at hk; rw [htl]
        rcases List.mem_cons.mp hg with hg | hg
        · simp only [Prod.mk.injEq] at hg
          obtain ⟨e1, e2, e3, e4, e5⟩ := hg
          subst e1
          rw [e4]
          rcases b6 v t0 k hk k' hk' with hl | ⟨w, w1, w2, w3, w4⟩
          · exact Or.inl hl
          · refine Or.inr ⟨w, w1, by omega, ?_, (hE w).mpr w3, w4⟩
            intro hwu
            rw [e5]
            apply decide_eq_false
            intro hall
            obtain ⟨l', Q', hq⟩ := w3
            exact hall _ hq (by simp; omega)
        · rcases b12 v u c' Lg f hg t0 k hk htu k' hk' with hl | ⟨w, w1, w2, w3, w4, w5⟩
          · exact Or.inl hl
          · exact Or.inr ⟨w, w1, w2, w3, (hE w).mpr w4, w5⟩
      · intro c' u li' lt' hm'; have := b13 c' u li' lt' ((hreq _ _ _ _).mp hm'); have := hterm c'; omega
      · intro c' u li1 lt1 li2 lt2 hm1 hm2
        exact b14 c' u li1 lt1 li2 lt2 ((hreq _ _ _ _).mp hm1) ((hreq _ _ _ _).mp hm2)
      · intro c' u li' lt' hm' hrole ht'
        obtain ⟨c1, c2⟩ := hcand c' hrole
        rw [hlog]
        exact b15 c' u li' lt' ((hreq _ _ _ _).mp hm') c2 (by omega)
    · -- vote refused: nothing recorded
      apply inv3_frame n s _ h hlog hterm
      · simp only [apply, hr, if_false, Bool.false_eq_true]
      · simp only [apply, hr, if_false, Bool.false_eq_true]
      · simp only [apply, hr, if_false, Bool.false_eq_true]
      · simp only [apply, hr, if_false, Bool.false_eq_true]
      · simp only [apply, hr, if_false, Bool.false_eq_true]
      · exact hreq
      · exact hresp
      · exact hcand
  | voteResp i v t =>
    have hen0 := hen
    simp only [enabled] at hen
    obtain ⟨hi, hv, hm, hc, ht⟩ := hen
    by_cases hwon : quorum n ≤
        (if v ∈ (s.nodes i).tally then (s.nodes i).tally else v :: (s.nodes i).tally).length
    · obtain ⟨hnone, htlnil⟩ := win_fresh n s hreach i v t hen0 hwon
      obtain ⟨b1, b2, b3, b4, b5, b6, b7, b8, b9, b10, b11, b12, b13, b14, b15⟩ := h
      have htl : (apply n s (Label.voteResp i v t)).ghost.tl
          = upd s.ghost.tl t ((s.nodes i).log ++ [(⟨t, 0⟩ : Entry)]) := by
        simp only [apply, hwon, decide_true, if_true]; rfl
      have hel : (apply n s (Label.voteResp i v t)).ghost.elected
          = (t, i, (if v ∈ (s.nodes i).tally then (s.nodes i).tally else v :: (s.nodes i).tally)) :: s.ghost.elected := by
        simp only [apply, hwon, decide_true, if_true]
      have hacks : (apply n s (Label.voteResp i v t)).ghost.acks
          = (i, t, ((s.nodes i).log ++ [(⟨t, 0⟩ : Entry)]).length) :: s.ghost.acks := by
        simp only [apply, hwon, decide_true, if_true]
      have hglogs : (apply n s (Label.voteResp i v t)).ghost.glogs = s.ghost.glogs := by
        simp only [apply, hwon, decide_true, if_true]
      have hgrants : (apply n s (Label.voteResp i v t)).ghost.grants = s.ghost.grants := by
        simp only [apply, hwon, decide_true, if_true]
      have hnet : (apply n s (Label.voteResp i v t)).net = s.net := rfl
      have hnodes : ∀ k, k ≠ i → (apply n s (Label.voteResp i v t)).nodes k = s.nodes k := by
        intro k hk; simp only [apply, setNode_nodes, hk, if_false]
      have hlogi : ((apply n s (Label.voteResp i v t)).nodes i).log
          = (s.nodes i).log ++ [(⟨t, 0⟩ : Entry)] := by
        simp only [apply, hwon, decide_true, if_true, setNode_nodes]
      have hrolei : ((apply n s (Label.voteResp i v t)).nodes i).role = .leader := by
        simp only [apply, hwon, decide_true, if_true, setNode_nodes]
      have hterm : ∀ k, ((apply n s (Label.voteResp i v t)).nodes k).term = (s.nodes k).term := by
        intro k; by_cases hk : k = i
        · subst hk; simp only [apply, setNode_nodes, if_true]
        · rw [hnodes k hk]
      have hE : ∀ w, Elected s w → Elected (apply n s (Label.voteResp i v t)) w := by
        intro w ⟨l, Q, hq⟩; exact ⟨l, Q, by rw [hel]; exact List.mem_cons_of_mem _ hq⟩
      have htl_t : upd s.ghost.tl t ((s.nodes i).log ++ [(⟨t, 0⟩ : Entry)]) t
          = (s.nodes i).log ++ [(⟨t, 0⟩ : Entry)] := by simp [upd]
      have htl_o : ∀ u, u ≠ t → upd s.ghost.tl t ((s.nodes i).log ++ [(⟨t, 0⟩ : Entry)]) u = s.ghost.tl u := by
        intro u hu; simp [upd, hu]
      have hconf : ∀ w u k', Conflict s.ghost.tl w u k' → u ≠ t →
          Conflict (upd s.ghost.tl t ((s.nodes i).log ++ [(⟨t, 0⟩ : Entry)])) w u k' := by
        intro w u k' hcf hu
        have hw : w ≠ t := by
          intro hwt; subst hwt
          obtain ⟨q, _, h1, _, _⟩ := hcf
          rw [htlnil] at h1; simp at h1
        exact conflict_upd_other _ _ _ _ _ _ hw hu hcf
      have hlogtake : ∀ k' (L : List Entry), (s.nodes i).log.take k' = L.take k' → k' ≤ L.length →
          ((s.nodes i).log ++ [(⟨t, 0⟩ : Entry)]).take k' = L.take k' := by
        intro k' L hl hk
        have hlen : k' ≤ (s.nodes i).log.length := by
          have := congrArg List.length hl
          simp only [List.length_take] at this
          omega
        rw [List.take_append_of_le_length hlen]; exact hl
      refine ⟨?_, ?_, ?_, ?_, ?_, ?_, ?_, ?_, ?_, ?_, ?_, ?_, ?_, ?_, ?_⟩
      · intro k x hx
        rw [hterm]
        by_cases hk : k = i
        · subst hk
          rw [hlogi] at hx
          rcases List.mem_append.mp hx with hx | hx
          · exact b1 k x hx
          · simp at hx; rw [hx]; simp; omega
        · rw [hnodes k hk] at hx; exact b1 k x hx
      · intro u x hx
        rw [htl] at hx
        by_cases hu : u = t
        · subst hu
          rw [htl_t] at hx
          rcases List.mem_append.mp hx with hx | hx
          · have := b1 i x hx; omega
          · simp at hx; rw [hx]
        · rw [htl_o u hu] at hx; exact b2 u x hx
      · intro k
        by_cases hk : k = i
        · subst hk
          rw [hlogi]
          exact termsMono_append_one _ _ (b3 k) (fun x hx => by have := b1 k x hx; simp; omega)
        · rw [hnodes k hk]; exact b3 k
      · intro u
        rw [htl]
        by_cases hu : u = t
        · subst hu
          rw [htl_t]
          exact termsMono_append_one _ _ (b3 i) (fun x hx => by have := b1 i x hx; simp; omega)
        · rw [htl_o u hu]; exact b4 u
      · intro k u k0 hk
        rw [hacks] at hk; rw [htl, hterm]
        rcases List.mem_cons.mp hk with hk | hk
        · simp only [Prod.mk.injEq] at hk
          obtain ⟨e1, e2, e3⟩ := hk
          rw [e1, e2, e3, htl_t]
          exact ⟨by omega, Nat.le_refl _⟩
        · have hb := b5 k u k0 hk
          refine ⟨hb.1, ?_⟩
          by_cases hu : u = t
          · subst hu; rw [htlnil] at hb; simp at hb; omega
          · rw [htl_o u hu]; exact hb.2
      · intro k u k0 hk k' hk'
        rw [hacks] at hk; rw [htl]
        rcases List.mem_cons.mp hk with hk | hk
        · simp only [Prod.mk.injEq] at hk
          obtain ⟨e1, e2, e3⟩ := hk
          left
          rw [e1, e2, htl_t, hlogi]
        · have hb := b5 k u k0 hk
          by_cases hu : u = t
          · subst hu
            rw [htlnil] at hb
            have : k' = 0 := by simp at hb; omega
            subst this
            left; simp
          · rw [htl_o u hu]
            rcases b6 k u k0 hk k' hk' with hl | ⟨w, w1, w2, w3, w4⟩
            · left
              by_cases hki : k = i
              · subst hki; rw [hlogi]; exact hlogtake k' _ hl (by omega)
              · rw [hnodes k hki]; exact hl
            · right
              exact ⟨w, w1, by rw [hterm]; exact w2, hE w w3, hconf w u k' w4 hu⟩
      · intro k l u k0 hm'; rw [hnet] at hm'; rw [hacks]; exact List.mem_cons_of_mem _ (b7 k l u k0 hm')
      · intro k u c Lg f hg; rw [hglogs] at hg; rw [hterm]; exact b8 k u c Lg f hg
      · intro k u c hg; rw [hgrants] at hg; rw [hglogs]; exact b9 k u c hg
      · intro k u c Lg hg; rw [hglogs] at hg; exact hE u (b10 k u c Lg hg)
      · intro k u c Lg f hg; rw [hglogs] at hg; rw [hnet]; exact b11 k u c Lg f hg
      · intro k u c Lg f hg t0 k0 hk htu k' hk'
        rw [hglogs] at hg; rw [hacks] at hk; rw [htl]
        rcases List.mem_cons.mp hk with hk | hk
        · simp only [Prod.mk.injEq] at hk
          obtain ⟨e1, e2, e3⟩ := hk
          have := b8 k u c Lg f hg
          rw [e1, ht] at this; omega
        · have hb := b5 k t0 k0 hk
          by_cases hu : t0 = t
          · subst hu
            rw [htlnil] at hb
            have : k' = 0 := by simp at hb; omega
            subst this
            left; simp
          · rw [htl_o t0 hu]
            rcases b12 k u c Lg f hg t0 k0 hk htu k' hk' with hl | ⟨w, w1, w2, w3, w4, w5⟩
            · exact Or.inl hl
            · right
              exact ⟨w, w1, w2, w3, hE w w4, hconf w t0 k' w5 hu⟩
      · intro c u li lt hm'; rw [hnet] at hm'; rw [hterm]; exact b13 c u li lt hm'
      · intro c u li lt li' lt' hm1 hm2; rw [hnet] at hm1 hm2; exact b14 c u li lt li' lt' hm1 hm2
      · intro c u li lt hm' hr ht'
        rw [hnet] at hm'; rw [hterm] at ht'
        by_cases hci : c = i
        · subst hci; rw [hrolei] at hr; cases hr
        · rw [hnodes c hci] at hr ⊢; exact b15 c u li lt hm' hr ht'
    · apply inv3_frame n s _ h
      · intro j; simp only [apply, hwon, decide_false, if_false, Bool.false_eq_true, setNode_nodes]; split
        · rename_i hj; subst hj; rfl
        · rfl
      · intro j; simp only [apply, setNode_nodes]; split
        · rename_i hj; subst hj; exact Nat.le_refl _
        · exact Nat.le_refl _
      · simp only [apply, hwon, decide_false, if_false, Bool.false_eq_true]
      · simp only [apply, hwon, decide_false, if_false, Bool.false_eq_true]
      · simp only [apply, hwon, decide_false, if_false, Bool.false_eq_true]
      · simp only [apply, hwon, decide_false, if_false, Bool.false_eq_true]
      · simp only [apply, hwon, decide_false, if_false, Bool.false_eq_true]
      · intro c u li lt; rfl
      · intro k l u k0 hm'; exact hm'
      · intro c; simp only [apply, setNode_nodes]; split
        · rename_i hj; subst hj; intro _; exact ⟨rfl, hc⟩
        · intro hcc; exact ⟨rfl, hcc⟩
  | crash i =>
    apply inv3_frame n s _ h
    · intro j; simp only [apply, setNode_nodes]; split
      · rename_i hj; subst hj; rfl
      · rfl
    · intro j; simp only [apply, setNode_nodes]; split
      · rename_i hj; subst hj; exact Nat.le_refl _
      · exact Nat.le_refl _
    · rfl
    · rfl
    · rfl
    · rfl
    · rfl
    · intro c u li lt; rfl
    · intro v l t k' hm; exact hm
    · intro c; simp only [apply, setNode_nodes]; split
      · intro hc; cases hc
      · intro hc; exact ⟨rfl, hc⟩
  | dup m =>
    simp only [enabled] at hen
    apply inv3_frame n s _ h
    · intro j; rfl
    · intro j; exact Nat.le_refl _
    · rfl
    · rfl
    · rfl
    · rfl
    · rfl
    · intro c u li lt
      simp only [apply, List.mem_cons]
      constructor
      · rintro (hm | hm)
        · rw [hm]; exact hen
        · exact hm
      · intro hm; exact Or.inr hm
    · intro v l t k' hm
      simp only [apply, List.mem_cons] at hm
      rcases hm with hm | hm
      · rw [hm]; exact hen
      · exact hm
    · intro c hc; exact ⟨rfl, hc⟩
  | append i p =>
    simp only [enabled] at hen
    obtain ⟨hi, hrole⟩ := hen
    obtain ⟨hlogi, hne, Q0, hQ0⟩ := hinv2.leader_log i hrole
    obtain ⟨b1, b2, b3, b4, b5, b6, b7, b8, b9, b10, b11, b12, b13, b14, b15⟩ := h
    have htl : (apply n s (Label.append i p)).ghost.tl
        = upd s.ghost.tl (s.nodes i).term (s.ghost.tl (s.nodes i).term ++ [(⟨(s.nodes i).term, p⟩ : Entry)]) := by
      simp only [apply, hlogi]; rfl
    have hel : (apply n s (Label.append i p)).ghost.elected = s.ghost.elected := rfl
    have hacks : (apply n s (Label.append i p)).ghost.acks
        = (i, (s.nodes i).term, (s.ghost.tl (s.nodes i).term ++ [(⟨(s.nodes i).term, p⟩ : Entry)]).length) :: s.ghost.acks := by
      simp only [apply, hlogi]
    have hglogs : (apply n s (Label.append i p)).ghost.glogs = s.ghost.glogs := rfl
    have hgrants : (apply n s (Label.append i p)).ghost.grants = s.ghost.grants := rfl
    have hnet : (apply n s (Label.append i p)).net = s.net := rfl
    have hnodes : ∀ k, k ≠ i → (apply n s (Label.append i p)).nodes k = s.nodes k := by
      intro k hk; simp only [apply, setNode_nodes, hk, if_false]
    have hnodei : (apply n s (Label.append i p)).nodes i
        = { (s.nodes i) with log := s.ghost.tl (s.nodes i).term ++ [(⟨(s.nodes i).term, p⟩ : Entry)] } := by
      simp only [apply, setNode_nodes, if_true, hlogi]
    have hterm : ∀ k, ((apply n s (Label.append i p)).nodes k).term = (s.nodes k).term := by
      intro k; by_cases hk : k = i
      · subst hk; rw [hnodei]
      · rw [hnodes k hk]
    have hrolek : ∀ k, ((apply n s (Label.append i p)).nodes k).role = (s.nodes k).role := by
      intro k; by_cases hk : k = i
      · subst hk; rw [hnodei]
      · rw [hnodes k hk]
    have hE : ∀ w, Elected (apply n s (Label.append i p)) w ↔ Elected s w := by
      intro w; simp only [Elected, hel]
    have htl_t : upd s.ghost.tl (s.nodes i).term (s.ghost.tl (s.nodes i).term ++ [(⟨(s.nodes i).term, p⟩ : Entry)]) (s.nodes i).term
        = s.ghost.tl (s.nodes i).term ++ [(⟨(s.nodes i).term, p⟩ : Entry)] := by simp [upd]
    -- old acks keep their facts under the extension
    have hold : ∀ v t k, (v, t, k) ∈ s.ghost.acks → ∀ k', k' ≤ k →
        ((apply n s (Label.append i p)).nodes v).log.take k'
          = (upd s.ghost.tl (s.nodes i).term (s.ghost.tl (s.nodes i).term ++ [(⟨(s.nodes i).term, p⟩ : Entry)]) t).take k' ∨
        ∃ w, t < w ∧ w ≤ ((apply n s (Label.append i p)).nodes v).term ∧
          Elected (apply n s (Label.append i p)) w ∧
          Conflict (upd s.ghost.tl (s.nodes i).term (s.ghost.tl (s.nodes i).term ++ [(⟨(s.nodes i).term, p⟩ : Entry)])) w t k' := by
      intro v t k hk k' hk'
      have hkl := (b5 v t k hk).2
      rcases b6 v t k hk k' hk' with hl | ⟨w, w1, w2, w3, w4⟩
      · left
        rw [take_upd_extend _ _ _ _ _ (by omega)]
        by_cases hv : v = i
        · subst hv
          rw [hnodei]
          simp only
          rw [← hlogi]
          have hlen : k' ≤ (s.nodes v).log.length := by
            have := congrArg List.length hl
            simp only [List.length_take] at this
            omega
          rw [List.take_append_of_le_length hlen]; exact hl
        · rw [hnodes v hv]; exact hl
      · right
        exact ⟨w, w1, by rw [hterm]; exact w2, (hE w).mpr w3, conflict_upd_extend _ _ _ _ _ _ w4⟩
    refine ⟨?_, ?_, ?_, ?_, ?_, ?_, ?_, ?_, ?_, ?_, ?_, ?_, ?_, ?_, ?_⟩
    · intro v x hx
      by_cases hv : v = i
      · subst hv
        rw [hnodei] at hx ⊢
        simp only at hx ⊢
        rcases List.mem_append.mp hx with hx | hx
        · exact b2 _ x hx
        · simp at hx; rw [hx]
      · rw [hnodes v hv] at hx ⊢; exact b1 v x hx
    · intro t x hx
      rw [htl] at hx
      by_cases ht : t = (s.nodes i).term
      · subst ht
        rw [htl_t] at hx
        rcases List.mem_append.mp hx with hx | hx
        · exact b2 _ x hx
        · simp at hx; rw [hx]
      · simp only [upd, ht, if_false] at hx; exact b2 t x hx
    · intro v
      by_cases hv : v = i
      · subst hv
        rw [hnodei]
        simp only
        exact termsMono_append_one _ _ (b4 _) (fun x hx => b2 _ x hx)
      · rw [hnodes v hv]; exact b3 v
    · intro t
      rw [htl]
      by_cases ht : t = (s.nodes i).term
      · subst ht
        rw [htl_t]
        exact termsMono_append_one _ _ (b4 _) (fun x hx => b2 _ x hx)
      · simp only [upd, ht, if_false]; exact b4 t
    · intro v t k hk
      rw [hacks] at hk; rw [htl, hterm]
      rcases List.mem_cons.mp hk with hk | hk
      · simp only [Prod.mk.injEq] at hk
        obtain ⟨e1, e2, e3⟩ := hk
        rw [e1, e2, e3, htl_t]
        exact ⟨Nat.le_refl _, Nat.le_refl _⟩
      · have hb := b5 v t k hk
        refine ⟨hb.1, ?_⟩
        by_cases ht : t = (s.nodes i).term
        · subst ht; rw [htl_t]; simp; omega
        · simp only [upd, ht, if_false]; exact hb.2
    · intro v t k hk k' hk'
      rw [hacks] at hk; rw [htl]
      rcases List.mem_cons.mp hk with hk | hk
      · simp only [Prod.mk.injEq] at hk
        obtain ⟨e1, e2, e3⟩ := hk
        left
        rw [e1, e2, htl_t, hnodei]
      · exact hold v t k hk k' hk'
    · intro v l t k hm; rw [hnet] at hm; rw [hacks]; exact List.mem_cons_of_mem _ (b7 v l t k hm)
    · intro v u c Lg f hg; rw [hglogs] at hg; rw [hterm]; exact b8 v u c Lg f hg
    · intro v u c hg; rw [hgrants] at hg; rw [hglogs]; exact b9 v u c hg
    · intro v u c Lg hg; rw [hglogs] at hg; exact (hE u).mpr (b10 v u c Lg hg)
    · intro v u c Lg f hg; rw [hglogs] at hg; rw [hnet]; exact b11 v u c Lg f hg
    · intro v u c Lg f hg t k hk htu k' hk'
      rw [hglogs] at hg; rw [hacks] at hk; rw [htl]
      rcases List.mem_cons.mp hk with hk | hk
      · simp only [Prod.mk.injEq] at hk
        obtain ⟨e1, e2, e3⟩ := hk
        have := b8 v u c Lg f hg
        rw [e1] at this; omega
      · have hkl := (b5 v t k hk).2
        rcases b12 v u c Lg f hg t k hk htu k' hk' with hl | ⟨w, w1, w2, w3, w4, w5⟩
        · left; rw [take_upd_extend _ _ _ _ _ (by omega)]; exact hl
        · right; exact ⟨w, w1, w2, w3, (hE w).mpr w4, conflict_upd_extend _ _ _ _ _ _ w5⟩
    · intro c u li lt hm; rw [hnet] at hm; rw [hterm]; exact b13 c u li lt hm
    · intro c u li lt li' lt' hm hm'; rw [hnet] at hm hm'; exact b14 c u li lt li' lt' hm hm'
    · intro c u li lt hm hr ht
      rw [hnet] at hm; rw [hrolek] at hr; rw [hterm] at ht
      by_cases hc : c = i
      · subst hc; rw [hrole] at hr; cases hr
      · rw [hnodes c hc]; exact b15 c u li lt hm hr ht
  | sendAE i prevIdx len lc =>
    apply inv3_frame n s _ h
    · intro j; rfl
    · intro j; exact Nat.le_refl _
    · rfl
    · rfl
    · rfl
    · rfl
    · rfl
    · intro c u li lt
      simp only [apply, List.mem_cons]
      constructor
      · rintro (hm | hm)
        · cases hm
        · exact hm
      · intro hm; exact Or.inr hm
    · intro v l t k' hm
      simp only [apply, List.mem_cons] at hm
      rcases hm with hm | hm
      · cases hm
      · exact hm
    · intro c hc; exact ⟨rfl, hc⟩
  | recvAE j ldr t prevIdx prevTerm es lc stage =>
    simp only [enabled] at hen
    obtain ⟨hj, hm⟩ := hen
    have hmsg := hinv2.msg_ok ldr t prevIdx prevTerm es lc hm
    have hfull := handleAE_full (s.nodes j) t prevIdx prevTerm es lc stage
    simp only at hfull
    have htl : (apply n s (Label.recvAE j ldr t prevIdx prevTerm es lc stage)).ghost.tl = s.ghost.tl := by
      simp only [apply]; exact ghost_ifa_tl _ _ _
    have hel : (apply n s (Label.recvAE j ldr t prevIdx prevTerm es lc stage)).ghost.elected
        = s.ghost.elected := by
      simp only [apply]; exact ghost_ifa_elected _ _ _
    have hglogs : (apply n s (Label.recvAE j ldr t prevIdx prevTerm es lc stage)).ghost.glogs
        = s.ghost.glogs := by
      simp only [apply]; exact ghost_ifa_glogs _ _ _
    have hgrants : (apply n s (Label.recvAE j ldr t prevIdx prevTerm es lc stage)).ghost.grants
        = s.ghost.grants := by
      simp only [apply]; exact ghost_ifa_grants _ _ _
    have hacks : (apply n s (Label.recvAE j ldr t prevIdx prevTerm es lc stage)).ghost.acks
        = if (handleAE (s.nodes j) t prevIdx prevTerm es lc stage).2 = true
          then (j, t, prevIdx + es.length) :: s.ghost.acks else s.ghost.acks := by
      simp only [apply]; exact ghost_ifa_acks _ _ _
    have hnodes : ∀ k, k ≠ j →
        (apply n s (Label.recvAE j ldr t prevIdx prevTerm es lc stage)).nodes k = s.nodes k := by
      intro k hk; simp only [apply, setNode_nodes, hk, if_false]
    have hnodej : (apply n s (Label.recvAE j ldr t prevIdx prevTerm es lc stage)).nodes j
        = (handleAE (s.nodes j) t prevIdx prevTerm es lc stage).1 := by
      simp only [apply, setNode_nodes, if_true]
    have hreq : ∀ c u li lt,
        Msg.voteReq c u li lt ∈ (apply n s (Label.recvAE j ldr t prevIdx prevTerm es lc stage)).net ↔
        Msg.voteReq c u li lt ∈ s.net := by
      intro c u li lt; simp only [apply]; split
      · simp only [List.mem_cons]
        constructor
        · rintro (h | h)
          · cases h
          · exact h
        · intro h; exact Or.inr h
      · rfl
    have hresp : ∀ v l t' k,
        Msg.aeResp v l t' k ∈ (apply n s (Label.recvAE j ldr t prevIdx prevTerm es lc stage)).net →
        Msg.aeResp v l t' k ∈ s.net ∨
        ((handleAE (s.nodes j) t prevIdx prevTerm es lc stage).2 = true ∧ v = j ∧ t' = t ∧
          k = prevIdx + es.length) := by
      intro v l t' k h; simp only [apply] at h; split at h
      · rename_i hr
        rcases List.mem_cons.mp h with h | h
        · injection h with e1 e2 e3 e4
          exact Or.inr ⟨hr, e1, e3, e4⟩
        · exact Or.inl h
      · exact Or.inl h
    rcases hfull with ⟨hsame, hr2⟩ | ⟨frole, fterm, fle, hrest⟩
    · -- ignored
      apply inv3_frame n s _ h
      · intro k; by_cases hk : k = j
        · subst hk; rw [hnodej, hsame]
        · rw [hnodes k hk]
      · intro k; by_cases hk : k = j
        · subst hk; rw [hnodej, hsame]
        · rw [hnodes k hk]
      · exact htl
      · exact hel
      · rw [hacks]; simp only [hr2, if_false, Bool.false_eq_true]
      · exact hglogs
      · exact hgrants
      · exact hreq
      · intro v l t' k hh
        rcases hresp v l t' k hh with hh | ⟨hr, _⟩
        · exact hh
        · rw [hr2] at hr; cases hr
      · intro c; by_cases hc : c = j
        · subst hc; rw [hnodej, hsame]; intro hcc; exact ⟨rfl, hcc⟩
        · rw [hnodes c hc]; intro hcc; exact ⟨rfl, hcc⟩
    · rcases hrest with ⟨hr2, hlogsame⟩ | ⟨hchk, hcase⟩
      · -- previous-entry check failed: only term and role change
        apply inv3_frame n s _ h
        · intro k; by_cases hk : k = j
          · subst hk; rw [hnodej, hlogsame]
          · rw [hnodes k hk]
        · intro k; by_cases hk : k = j
          · subst hk; rw [hnodej, fterm]; exact fle
          · rw [hnodes k hk]
        · exact htl
        · exact hel
        · rw [hacks]; simp only [hr2, if_false, Bool.false_eq_true]
        · exact hglogs
        · exact hgrants
        · exact hreq
        · intro v l t' k hh
          rcases hresp v l t' k hh with hh | ⟨hr, _⟩
          · exact hh
          · rw [hr2] at hr; cases hr
        · intro c; by_cases hc : c = j
          · subst hc; rw [hnodej, frole]; intro hcc; cases hcc
          · rw [hnodes c hc]; intro hcc; exact ⟨rfl, hcc⟩
      · -- the log is merged (or only truncated, if the server crashes in between)
        have hpL : prevIdx ≤ (s.nodes j).log.length := by
          rcases hchk with h0 | ⟨h1, _⟩
          · omega
          · exact h1
        have hpre : (s.nodes j).log.take prevIdx = (s.ghost.tl t).take prevIdx := by
          cases prevIdx with
          | zero => simp
          | succ k =>
            rcases hchk with h0 | ⟨h1, h2⟩
            · omega
            · have hkL : k < (s.nodes j).log.length := by omega
              have hkT : k < (s.ghost.tl t).length := by have := hmsg.len; omega
              have e1 := termAt_succ (s.nodes j).log k hkL
              have e2 := termAt_succ (s.ghost.tl t) k hkT
              have e3 := hmsg.pterm
              exact prefixOK_agree _ _ _ (hinv2.log_ok j) (hinv2.tl_ok t) k hkL hkT (by rw [← e1, h2, e3, e2])
        have hagree : ∀ idx (h1 : idx < (s.nodes j).log.length) (h2 : idx < (s.ghost.tl t).length),
            (s.nodes j).log[idx].term = (s.ghost.tl t)[idx].term →
            (s.nodes j).log.take (idx + 1) = (s.ghost.tl t).take (idx + 1) :=
          fun idx h1 h2 ht => prefixOK_agree _ _ _ (hinv2.log_ok j) (hinv2.tl_ok t) idx h1 h2 ht
        rcases hcase with ⟨hr2, hlogt⟩ | ⟨hr2, hlogm⟩
        · -- crash after the truncation
          apply inv3_recv n s _ h hinv2 j t (prevIdx + es.length) _ false hnodes
            (by rw [hnodej]) (by rw [hnodej]; exact fterm) (by rw [hnodej]; exact frole) fle
            htl hel hglogs hgrants hreq hmsg.nonempty hmsg.len
          · rw [hlogt]
            rcases trunc_cases2 (s.ghost.tl t) es (s.nodes j).log prevIdx hmsg.seg hmsg.len hpre hpL hagree
              with hres | ⟨q, q1, q2, q3, q4, q5⟩
            · exact Or.inl hres
            · exact Or.inr (Or.inl ⟨q, q3, q4, q5⟩)
          · rw [hacks]; simp only [hr2, if_false, Bool.false_eq_true]
          · intro v l t' k hh
            rcases hresp v l t' k hh with hh | ⟨hr, _⟩
            · exact Or.inl hh
            · rw [hr2] at hr; cases hr
          · intro hf; cases hf
        · -- normal processing: merged and acknowledged
          have hmc := merge_cases2 (s.ghost.tl t) es (s.nodes j).log prevIdx hmsg.seg hmsg.len hpre hpL hagree
          apply inv3_recv n s _ h hinv2 j t (prevIdx + es.length) _ true hnodes
            (by rw [hnodej]) (by rw [hnodej]; exact fterm) (by rw [hnodej]; exact frole) fle
            htl hel hglogs hgrants hreq hmsg.nonempty hmsg.len
          · rw [hlogm]
            rcases hmc with ⟨hres, _⟩ | ⟨hres, q, q1, q2, q3, q4⟩
            · exact Or.inl hres
            · exact Or.inr (Or.inr ⟨hres, q, q2, q3, q4⟩)
          · rw [hacks]; simp only [hr2, if_true]
          · intro v l t' k hh
            rcases hresp v l t' k hh with hh | ⟨hr, e1, e2, e3⟩
            · exact Or.inl hh
            · exact Or.inr ⟨rfl, e1, e2, e3⟩
          · intro _
            rw [hlogm]
            rcases hmc with ⟨hres, htk⟩ | ⟨hres, _⟩
            · rw [hres]; exact htk
            · rw [hres, List.take_take, Nat.min_self]
  | compact i b =>
    apply inv3_frame n s _ h
    · intro j; simp only [apply, setNode_nodes]; split
      · rename_i hj; subst hj; rfl
      · rfl
    · intro j; simp only [apply, setNode_nodes]; split
      · rename_i hj; subst hj; exact Nat.le_refl _
      · exact Nat.le_refl _
    · rfl
    · rfl
    · rfl
    · rfl
    · rfl
    · intro c u li lt; rfl
    · intro v l t k' hm; exact hm
    · intro c; simp only [apply, setNode_nodes]; split
      · rename_i hj; subst hj; intro hc; exact ⟨rfl, hc⟩
      · intro hc; exact ⟨rfl, hc⟩
  | takeSnap i k =>
    apply inv3_frame n s _ h
    · intro j; simp only [apply, setNode_nodes]; split
      · rename_i hj; subst hj; rfl
      · rfl
    · intro j; simp only [apply, setNode_nodes]; split
      · rename_i hj; subst hj; exact Nat.le_refl _
      · exact Nat.le_refl _
    · rfl
    · rfl
    · rfl
    · rfl
    · rfl
    · intro c u li lt; rfl
    · intro v l t k' hm; exact hm
    · intro c; simp only [apply, setNode_nodes]; split
      · rename_i hj; subst hj; intro hc; exact ⟨rfl, hc⟩
      · intro hc; exact ⟨rfl, hc⟩
  | sendIS i =>
    apply inv3_frame n s _ h
    · intro j; rfl
    · intro j; exact Nat.le_refl _
    · rfl
    · rfl
    · rfl
    · rfl
    · rfl
    · intro c u li lt
      simp only [apply, List.mem_cons]
      constructor
      · rintro (hm | hm)
        · cases hm
        · exact hm
      · intro hm; exact Or.inr hm
    · intro v l t k' hm
      simp only [apply, List.mem_cons] at hm
      rcases hm with hm | hm
      · cases hm
      · exact hm
    · intro c hc; exact ⟨rfl, hc⟩
  | recvIS j ldr t idx iterm =>
    simp only [enabled] at hen
    obtain ⟨hj, hm⟩ := hen
    obtain ⟨hidx1, hmsg⟩ := (inv2b_reachable n s hreach).is_ok ldr t idx iterm hm
    have hf := handleIS_log (s.nodes j) (s.ghost.tl t) t idx iterm
    simp only at hf
    have htl : (apply n s (Label.recvIS j ldr t idx iterm)).ghost.tl = s.ghost.tl := by
      simp only [apply]; exact ghost_ifa_tl _ _ _
    have hel : (apply n s (Label.recvIS j ldr t idx iterm)).ghost.elected = s.ghost.elected := by
      simp only [apply]; exact ghost_ifa_elected _ _ _
    have hglogs : (apply n s (Label.recvIS j ldr t idx iterm)).ghost.glogs = s.ghost.glogs := by
      simp only [apply]; exact ghost_ifa_glogs _ _ _
    have hgrants : (apply n s (Label.recvIS j ldr t idx iterm)).ghost.grants = s.ghost.grants := by
      simp only [apply]; exact ghost_ifa_grants _ _ _
    have hacks : (apply n s (Label.recvIS j ldr t idx iterm)).ghost.acks
        = if (handleIS (s.nodes j) (s.ghost.tl t) t idx iterm).2 = true
          then (j, t, idx) :: s.ghost.acks else s.ghost.acks := by
      simp only [apply]; exact ghost_ifa_acks _ _ _
    have hnodes : ∀ k, k ≠ j → (apply n s (Label.recvIS j ldr t idx iterm)).nodes k = s.nodes k := by
      intro k hk; simp only [apply, setNode_nodes, hk, if_false]
    have hnodej : (apply n s (Label.recvIS j ldr t idx iterm)).nodes j
        = (handleIS (s.nodes j) (s.ghost.tl t) t idx iterm).1 := by
      simp only [apply, setNode_nodes, if_true]
    have hreq : ∀ c u li lt,
        Msg.voteReq c u li lt ∈ (apply n s (Label.recvIS j ldr t idx iterm)).net ↔
        Msg.voteReq c u li lt ∈ s.net := by
      intro c u li lt; simp only [apply]; split
      · simp only [List.mem_cons]
        constructor
        · rintro (h | h)
          · cases h
          · exact h
        · intro h; exact Or.inr h
      · rfl
    have hresp : ∀ v l t' k,
        Msg.aeResp v l t' k ∈ (apply n s (Label.recvIS j ldr t idx iterm)).net →
        Msg.aeResp v l t' k ∈ s.net := by
      intro v l t' k h; simp only [apply] at h; split at h
      · rcases List.mem_cons.mp h with h | h
        · cases h
        · exact h
      · exact h
    have hlen : idx ≤ (s.ghost.tl t).length := by have := hmsg.len; simpa using this
    have hagree : ∀ i (h1 : i < (s.nodes j).log.length) (h2 : i < (s.ghost.tl t).length),
        (s.nodes j).log[i].term = (s.ghost.tl t)[i].term →
        (s.nodes j).log.take (i + 1) = (s.ghost.tl t).take (i + 1) :=
      fun i h1 h2 ht => prefixOK_agree _ _ _ (hinv2.log_ok j) (hinv2.tl_ok t) i h1 h2 ht
    rcases hf with ⟨hsame, hr2⟩ | ⟨hr2, frole, fterm, fle, _, hl⟩
    · apply inv3_frame n s _ h
      · intro k; by_cases hk : k = j
        · subst hk; rw [hnodej, hsame]
        · rw [hnodes k hk]
      · intro k; by_cases hk : k = j
        · subst hk; rw [hnodej, hsame]
        · rw [hnodes k hk]
      · exact htl
      · exact hel
      · rw [hacks]; simp only [hr2, if_false, Bool.false_eq_true]
      · exact hglogs
      · exact hgrants
      · exact hreq
      · exact hresp
      · intro c; by_cases hc : c = j
        · subst hc; rw [hnodej, hsame]; intro hcc; exact ⟨rfl, hcc⟩
        · rw [hnodes c hc]; intro hcc; exact ⟨rfl, hcc⟩
    · -- processed: either the log is kept (it holds the snapshot's last entry) or replaced
      apply inv3_recv n s _ h hinv2 j t idx _ true hnodes
        (by rw [hnodej]) (by rw [hnodej]; exact fterm) (by rw [hnodej]; exact frole) fle
        htl hel hglogs hgrants hreq hmsg.nonempty hlen
      · rcases hl with ⟨_, _, hl⟩ | ⟨hnot, hl⟩
        · exact Or.inl hl
        · right; right
          refine ⟨hl, ?_⟩
          rcases first_divergence (s.nodes j).log (s.ghost.tl t) idx hlen hagree idx (Nat.le_refl _)
            with heq | ⟨q, hq, h1, h2⟩
          · exfalso
            apply hnot
            have hL : idx ≤ (s.nodes j).log.length := by
              have := congrArg List.length heq
              simp only [List.length_take] at this
              omega
            refine ⟨hL, ?_⟩
            obtain ⟨k', rfl⟩ : ∃ k', idx = k' + 1 := ⟨idx - 1, by omega⟩
            rw [termAt_succ _ k' (by omega), hmsg.pterm, termAt_succ _ k' (by omega)]
            rw [getElem_of_take_eq _ _ (k' + 1) k' heq (by omega) (by omega) (by omega)]
          · exact ⟨q, hq, h1, h2⟩
      · rw [hacks]; simp only [hr2, if_true]
      · intro v l t' k hh; exact Or.inl (hresp v l t' k hh)
      · intro _
        rcases hl with ⟨hL, hterm, hl⟩ | ⟨_, hl⟩
        · rw [hl]
          obtain ⟨k', rfl⟩ : ∃ k', idx = k' + 1 := ⟨idx - 1, by omega⟩
          apply hagree k' (by omega) (by omega)
          rw [← termAt_succ _ k' (by omega), hterm, hmsg.pterm, termAt_succ _ k' (by omega)]
        · rw [hl, List.take_take, Nat.min_self]
  | fsmApply i =>
    rcases fsmApply_cases n s i with heq | ⟨e, _, heq⟩
    · rw [heq]; exact h
    · rw [heq]
      apply inv3_frame n s _ h
      · intro j; simp only [setNode_nodes]; split
        · rename_i hj; subst hj; rfl
        · rfl
      · intro j; simp only [setNode_nodes]; split
        · rename_i hj; subst hj; exact Nat.le_refl _
        · exact Nat.le_refl _
      · rfl
      · rfl
      · rfl
      · rfl
      · rfl
      · intro c u li lt; rfl
      · intro v l t k' hm; exact hm
      · intro c; simp only [setNode_nodes]; split
        · rename_i hj; subst hj; intro hc; exact ⟨rfl, hc⟩
        · intro hc; exact ⟨rfl, hc⟩
  | fsmRestore i =>
    apply inv3_frame n s _ h
    · intro j; simp only [apply, setNode_nodes]; split
      · rename_i hj; subst hj; rfl
      · rfl
    · intro j; simp only [apply, setNode_nodes]; split
      · rename_i hj; subst hj; exact Nat.le_refl _
      · exact Nat.le_refl _
    · rfl
    · rfl
    · rfl
    · rfl
    · rfl
    · intro c u li lt; rfl
    · intro v l t k' hm; exact hm
    · intro c; simp only [apply, setNode_nodes]; split
      · rename_i hj; subst hj; intro hc; exact ⟨rfl, hc⟩
      · intro hc; exact ⟨rfl, hc⟩
  | advanceCommit i k Q =>
    apply inv3_frame n s _ h
    · intro j; simp only [apply, setNode_nodes]; split
      · rename_i hj; subst hj; rfl
      · rfl
    · intro j; simp only [apply, setNode_nodes]; split
      · rename_i hj; subst hj; exact Nat.le_refl _
      · exact Nat.le_refl _
    · rfl
    · rfl
    · rfl
    · rfl
    · rfl
    · intro c u li lt; rfl
    · intro v l t k' hm; exact hm
    · intro c; simp only [apply, setNode_nodes]; split
      · rename_i hj; subst hj; intro hc; exact ⟨rfl, hc⟩
      · intro hc; exact ⟨rfl, hc⟩

end RP
