import RaftVerif.Core.Election
import RaftVerif.Core.Lists

/-! probe: log matching via term logs -/
namespace RP

/-- every prefix of `L` ending in an entry of term `u` is the corresponding prefix of the term log of `u` -/
def PrefixOK (tl : Nat → List Entry) (L : List Entry) : Prop :=
  ∀ k (h : k < L.length), L.take (k + 1) = (tl (L[k].term)).take (k + 1)

structure MsgOK (tl : Nat → List Entry) (t p pt : Nat) (es : List Entry) : Prop where
  nonempty : tl t ≠ []
  len : p + es.length ≤ (tl t).length
  seg : es = ((tl t).drop p).take es.length
  pterm : pt = termAt (tl t) p

structure Inv2 (n : Nat) (s : Sys) : Prop where
  log_ok : ∀ j, PrefixOK s.ghost.tl (s.nodes j).log
  tl_ok : ∀ t, PrefixOK s.ghost.tl (s.ghost.tl t)
  tl_elected : ∀ t, s.ghost.tl t ≠ [] → ∃ l Q, (t, l, Q) ∈ s.ghost.elected
  leader_log : ∀ i, (s.nodes i).role = .leader →
      (s.nodes i).log = s.ghost.tl (s.nodes i).term ∧ s.ghost.tl (s.nodes i).term ≠ [] ∧
      ∃ Q, ((s.nodes i).term, i, Q) ∈ s.ghost.elected
  msg_ok : ∀ ldr t p pt es lc, Msg.ae ldr t p pt es lc ∈ s.net → MsgOK s.ghost.tl t p pt es
  elected_term : ∀ t l Q, (t, l, Q) ∈ s.ghost.elected → t ≤ (s.nodes l).term
  elected_role : ∀ i Q, ((s.nodes i).term, i, Q) ∈ s.ghost.elected → (s.nodes i).role ≠ .candidate

theorem prefixOK_nil (tl : Nat → List Entry) : PrefixOK tl [] := by
  intro k h; simp at h

theorem prefixOK_take (tl : Nat → List Entry) (L : List Entry) (m : Nat) (h : PrefixOK tl L) :
    PrefixOK tl (L.take m) := by
  intro k hk
  have hk' : k < L.length := by simp at hk; omega
  have hkm : k < m := by simp at hk; omega
  have := h k hk'
  have e1 : (L.take m)[k] = L[k] := by simp
  rw [e1, ← this, List.take_take]
  congr 1; omega

/-- PrefixOK only looks at the term logs of terms that occur in the list -/
theorem prefixOK_congr (tl tl' : Nat → List Entry) (L : List Entry)
    (hsame : ∀ k (h : k < L.length), (tl' (L[k].term)).take (k + 1) = (tl (L[k].term)).take (k + 1))
    (h : PrefixOK tl L) : PrefixOK tl' L := by
  intro k hk
  rw [hsame k hk]; exact h k hk

/-- a non-empty prefix equal to a prefix of `T` forces `T` to be long enough -/
theorem take_eq_take_length (L T : List Entry) (k : Nat) (hk : k < L.length)
    (h : L.take (k + 1) = T.take (k + 1)) : k < T.length := by
  have := congrArg List.length h
  simp at this; omega

theorem take_append_of_lt (T : List Entry) (x : List Entry) (k : Nat) (hk : k < T.length) :
    (T ++ x).take (k + 1) = T.take (k + 1) := by
  rw [List.take_append_of_le_length]; omega

theorem getElem_append_lt (T x : List Entry) (k : Nat) (hk : k < T.length)
    (hk' : k < (T ++ x).length) : (T ++ x)[k] = T[k] := by
  rw [List.getElem_append_left hk]

/-- two lists that are both PrefixOK agree up to any position where their terms agree -/
theorem prefixOK_agree (tl : Nat → List Entry) (L T : List Entry) (hL : PrefixOK tl L) (hT : PrefixOK tl T)
    (idx : Nat) (h1 : idx < L.length) (h2 : idx < T.length) (ht : L[idx].term = T[idx].term) :
    L.take (idx + 1) = T.take (idx + 1) := by
  rw [hL idx h1, hT idx h2, ht]


def upd (tl : Nat → List Entry) (t : Nat) (v : List Entry) : Nat → List Entry :=
  fun u => if u = t then v else tl u

/-- replacing the term log of `t` by something that agrees with it on all its existing positions
    keeps every PrefixOK list PrefixOK -/
theorem prefixOK_update (tl : Nat → List Entry) (t : Nat) (newT L : List Entry)
    (hext : ∀ k, k < (tl t).length → newT.take (k + 1) = (tl t).take (k + 1))
    (h : PrefixOK tl L) : PrefixOK (upd tl t newT) L := by
  apply prefixOK_congr tl _ L _ h
  intro k hk
  simp only [upd]
  split
  · rename_i ht
    have hk' := h k hk
    rw [ht] at hk'
    have := take_eq_take_length L (tl t) k hk hk'
    rw [ht]; exact hext k this
  · rfl

/-- the new log of a leader (old log plus one entry of its term) is PrefixOK for the updated term logs -/
theorem prefixOK_self_update (tl : Nat → List Entry) (t : Nat) (L0 : List Entry) (e : Entry)
    (he : e.term = t) (h : PrefixOK tl L0) : PrefixOK (upd tl t (L0 ++ [e])) (L0 ++ [e]) := by
  intro k hk
  simp only [upd]
  split
  · rfl
  · rename_i hne
    have hk0 : k < L0.length := by
      by_contra hge
      have hkeq : k = L0.length := by simp at hk; omega
      subst hkeq
      simp [he] at hne
    have e1 : (L0 ++ [e])[k] = L0[k] := List.getElem_append_left hk0
    rw [e1, take_append_of_lt L0 [e] k hk0]
    exact h k hk0

theorem termAt_append (T x : List Entry) (p : Nat) (hp : p ≤ T.length) :
    termAt (T ++ x) p = termAt T p := by
  cases p with
  | zero => rfl
  | succ k =>
    simp only [termAt]
    have hk : k < T.length := by omega
    rw [List.getElem?_append_left hk]

theorem drop_take_append (T x : List Entry) (p k : Nat) (h : p + k ≤ T.length) :
    ((T ++ x).drop p).take k = (T.drop p).take k := by
  rw [List.drop_append_of_le_length (by omega)]
  rw [List.take_append_of_le_length]
  simp; omega

theorem msgOK_extend (tl : Nat → List Entry) (t : Nat) (x : List Entry) (t' p pt : Nat) (es : List Entry)
    (h : MsgOK tl t' p pt es) : MsgOK (upd tl t (tl t ++ x)) t' p pt es := by
  obtain ⟨m1, m2, m3, m4⟩ := h
  by_cases ht : t' = t
  · subst ht
    refine ⟨?_, ?_, ?_, ?_⟩
    · simp only [upd, if_true]; intro hc; apply m1; simp at hc; exact hc.1
    · simp only [upd, if_true, List.length_append]; omega
    · simp only [upd, if_true]; rw [drop_take_append _ _ _ _ m2]; exact m3
    · simp only [upd, if_true]; rw [termAt_append _ _ _ (by omega)]; exact m4
  · refine ⟨?_, ?_, ?_, ?_⟩ <;> simp only [upd, ht, if_false]
    · exact m1
    · exact m2
    · exact m3
    · exact m4

theorem take_take_length (X : List Entry) (k : Nat) : X.take (X.take k).length = X.take k := by
  rw [List.length_take]
  by_cases h : k ≤ X.length
  · rw [Nat.min_eq_left h]
  · have : X.length ≤ k := by omega
    rw [Nat.min_eq_right this, List.take_of_length_le this, List.take_length]

theorem termAt_succ (L : List Entry) (k : Nat) (h : k < L.length) : termAt L (k + 1) = L[k].term := by
  simp only [termAt, List.getElem?_eq_getElem h]

end RP
