import RaftVerif.Core.LogsStep

/-! probe: InstallSnapshot requests describe a prefix of the sender's term log -/
namespace RP

structure Inv2b (n : Nat) (s : Sys) : Prop where
  is_ok : ∀ l t idx iterm, Msg.is l t idx iterm ∈ s.net → 1 ≤ idx ∧ MsgOK s.ghost.tl t idx iterm []

theorem inv2b_init (n : Nat) : Inv2b n init := ⟨by simp [init]⟩

theorem inv2b_step (n : Nat) (s s' : Sys) (hreach : Reachable n s) (h : Inv2b n s)
    (hstep : Step n s s') : Inv2b n s' := by
  have hinv2 : Inv2 n s := inv2_reachable n s hreach
  obtain ⟨l, hen, rfl⟩ := hstep
  obtain ⟨b⟩ := h
  -- steps that neither add an InstallSnapshot request nor change a term log
  have hframe : ∀ s' : Sys, s'.ghost.tl = s.ghost.tl →
      (∀ l t idx iterm, Msg.is l t idx iterm ∈ s'.net → Msg.is l t idx iterm ∈ s.net) → Inv2b n s' := by
    intro s' htl hnet
    exact ⟨fun l t idx iterm hm => by rw [htl]; exact b l t idx iterm (hnet l t idx iterm hm)⟩
  cases l with
  | timeout i =>
    refine hframe _ ?_ ?_
    · rfl
    intro l t idx iterm hm
    simp only [apply, List.mem_cons] at hm
    rcases hm with hm | hm
    · cases hm
    · exact hm
  | timeoutCrash i k => exact hframe _ (by rfl) (by intro l t idx iterm hm; exact hm)
  | voteReq j c t li lt stage =>
    apply hframe _ (by simp only [apply]; exact ghost_if_tl _ _ _ _)
    intro l t' idx iterm hm
    simp only [apply, List.mem_cons] at hm
    rcases hm with hm | hm
    · cases hm
    · exact hm
  | voteResp i v t =>
    have hen0 := hen
    by_cases hwon : quorum n ≤
        (if v ∈ (s.nodes i).tally then (s.nodes i).tally else v :: (s.nodes i).tally).length
    · -- term log of t is created; no request of term t exists yet
      have hfresh : s.ghost.tl t = [] := by
        have hinv1 := inv_reachable n s hreach
        have hreach' : Reachable n (apply n s (Label.voteResp i v t)) := Reachable.step hreach ⟨_, hen0, rfl⟩
        simp only [enabled] at hen
        obtain ⟨hi, hv, hm, hc, ht⟩ := hen
        by_contra hne
        obtain ⟨l, Q, hq⟩ := hinv2.tl_elected t hne
        have hpost : ∃ Q', (t, i, Q') ∈ (apply n s (Label.voteResp i v t)).ghost.elected := by
          simp only [apply, hwon, decide_true, if_true]
          exact ⟨_, List.mem_cons_self ..⟩
        obtain ⟨Q', hq'⟩ := hpost
        have hq2 : (t, l, Q) ∈ (apply n s (Label.voteResp i v t)).ghost.elected := by
          simp only [apply, hwon, decide_true, if_true]
          exact List.mem_cons_of_mem _ hq
        have hli : l = i := election_safety n _ hreach' t l i Q Q' hq2 hq'
        subst hli
        rw [← ht] at hq
        exact hinv2.elected_role l Q hq hc
      refine ⟨?_⟩
      intro l t' idx iterm hm
      have hm' : Msg.is l t' idx iterm ∈ s.net := hm
      obtain ⟨b1, m1, m2, m3, m4⟩ := b l t' idx iterm hm'
      have hne : t' ≠ t := by
        intro heq; rw [heq, hfresh] at m1; exact m1 rfl
      have htl : (apply n s (Label.voteResp i v t)).ghost.tl t' = s.ghost.tl t' := by
        simp only [apply, hwon, decide_true, if_true, hne, if_false]
      refine ⟨b1, ?_, ?_, ?_, ?_⟩
      · rw [htl]; exact m1
      · rw [htl]; exact m2
      · rw [htl]; exact m3
      · rw [htl]; exact m4
    · apply hframe _ (by simp only [apply, hwon, decide_false, if_false, Bool.false_eq_true])
      intro l t' idx iterm hm; exact hm
  | crash i => exact hframe _ (by rfl) (by intro l t idx iterm hm; exact hm)
  | dup m =>
    simp only [enabled] at hen
    refine hframe _ ?_ ?_
    · rfl
    intro l t idx iterm hm
    simp only [apply, List.mem_cons] at hm
    rcases hm with hm | hm
    · rw [hm]; exact hen
    · exact hm
  | append i p =>
    simp only [enabled] at hen
    obtain ⟨hi, hrole⟩ := hen
    obtain ⟨hlogi, _, _, _⟩ := hinv2.leader_log i hrole
    have htl : (apply n s (Label.append i p)).ghost.tl
        = upd s.ghost.tl (s.nodes i).term (s.ghost.tl (s.nodes i).term ++ [(⟨(s.nodes i).term, p⟩ : Entry)]) := by
      simp only [apply, hlogi]; rfl
    refine ⟨?_⟩
    intro l t idx iterm hm
    have hm' : Msg.is l t idx iterm ∈ s.net := hm
    obtain ⟨b1, b2⟩ := b l t idx iterm hm'
    rw [htl]
    exact ⟨b1, msgOK_extend _ _ _ _ _ _ _ b2⟩
  | sendAE i prevIdx len lc =>
    refine hframe _ ?_ ?_
    · rfl
    intro l t idx iterm hm
    simp only [apply, List.mem_cons] at hm
    rcases hm with hm | hm
    · cases hm
    · exact hm
  | recvAE j ldr t prevIdx prevTerm es lc stage =>
    apply hframe _ (by simp only [apply]; exact ghost_ifa_tl _ _ _)
    intro l t' idx iterm hm
    simp only [apply] at hm
    split at hm
    · rcases List.mem_cons.mp hm with h | h
      · cases h
      · exact h
    · exact hm
  | advanceCommit i k Q => exact hframe _ (by rfl) (by intro l t idx iterm hm; exact hm)
  | compact i b' => exact hframe _ (by rfl) (by intro l t idx iterm hm; exact hm)
  | takeSnap i k => exact hframe _ (by rfl) (by intro l t idx iterm hm; exact hm)
  | fsmApply i =>
    rcases fsmApply_cases n s i with heq | ⟨e, _, heq⟩
    · rw [heq]; exact ⟨b⟩
    · rw [heq]; exact hframe _ (by rfl) (by intro l t idx iterm hm; exact hm)
  | fsmRestore i => exact hframe _ (by rfl) (by intro l t idx iterm hm; exact hm)
  | sendIS i =>
    simp only [enabled] at hen
    obtain ⟨hi, hrole, hs1, hs2⟩ := hen
    obtain ⟨hlogi, hne, _, _⟩ := hinv2.leader_log i hrole
    refine ⟨?_⟩
    intro l t idx iterm hm
    simp only [apply, List.mem_cons] at hm
    rcases hm with hm | hm
    · injection hm with e1 e2 e3 e4
      subst e1 e2 e3 e4
      have htl : (apply n s (Label.sendIS l)).ghost.tl = s.ghost.tl := rfl
      rw [htl]
      refine ⟨hs1, hne, ?_, by simp, by rw [hlogi]⟩
      rw [← hlogi]; simpa using hs2
    · exact b l t idx iterm hm
  | recvIS j ldr t idx iterm =>
    apply hframe _ (by simp only [apply]; exact ghost_ifa_tl _ _ _)
    intro l t' idx' iterm' hm
    simp only [apply] at hm
    split at hm
    · rcases List.mem_cons.mp hm with h | h
      · cases h
      · exact h
    · exact hm

theorem inv2b_reachable (n : Nat) (s : Sys) (h : Reachable n s) : Inv2b n s := by
  induction h with
  | init => exact inv2b_init n
  | step hr hs ih => exact inv2b_step n _ _ hr ih hs

end RP
