import RaftVerif.Core.Model
open RP

def run (n : Nat) (ls : List Label) : Sys := ls.foldl (apply n) init

/-- leader 0 commits two entries with follower 1, snapshots and compacts; follower 2, which has
    nothing, is caught up by InstallSnapshot and then by AppendEntries from the snapshot boundary -/
def tr : List Label :=
  [ .timeout 0, .voteReq 1 0 1 0 0 2, .voteResp 0 1 1, .append 0 7,
    .sendAE 0 0 2 0, .recvAE 1 0 1 0 0 [⟨1, 0⟩, ⟨1, 7⟩] 0 2,
    .advanceCommit 0 2 [0, 1],
    .takeSnap 0 2, .compact 0 2,
    .append 0 8,
    .sendIS 0, .recvIS 2 0 1 2 1,
    .sendAE 0 2 1 2, .recvAE 2 0 1 2 1 [⟨1, 8⟩] 2 2 ]

#eval let s := run 3 tr
      ((s.nodes 0).log, (s.nodes 0).commit, (s.nodes 0).snapIdx, (s.nodes 0).base,
       (s.nodes 2).log, (s.nodes 2).commit, (s.nodes 2).snapIdx, (s.nodes 2).base, (s.nodes 2).term)

/-- the same history with the state machines running: server 0 applies both committed entries one
    by one, server 2 restores the installed snapshot; the streams are non-empty, so `fsm_safety`
    speaks about something -/
def trFsm : List Label :=
  [ .timeout 0, .voteReq 1 0 1 0 0 2, .voteResp 0 1 1, .append 0 7,
    .sendAE 0 0 2 0, .recvAE 1 0 1 0 0 [⟨1, 0⟩, ⟨1, 7⟩] 0 2,
    .advanceCommit 0 2 [0, 1],
    .fsmApply 0, .fsmApply 0,
    .takeSnap 0 2, .compact 0 2,
    .sendIS 0, .recvIS 2 0 1 2 1, .fsmRestore 2 ]

#eval let s := run 3 trFsm
      (s.ghost.fsmApplied, s.ghost.fsmRestored, (s.nodes 0).applied, (s.nodes 2).applied)
