import RaftVerif.Core.Logs

namespace RP

theorem handleVote_log (nd : Node) (c t li lt stage : Nat) :
    let r := handleVote nd c t li lt stage
    r.1.log = nd.log ∧ nd.term ≤ r.1.term ∧
    ((r.1.role = nd.role ∧ r.1.term = nd.term) ∨ r.1.role = .follower) := by
  simp only [handleVote]
  by_cases h1 : t < nd.term
  · simp [h1]
  · simp only [h1, if_false]
    by_cases h2 : nd.term < t
    · simp only [h2, if_true]
      split
      · simp; omega
      · split
        · simp; omega
        · split
          · simp; omega
          · split <;> (simp; omega)
    · simp only [h2, if_false]
      split
      · simp
      · split
        · simp
        · split
          · simp
          · split <;> simp

/-- easy steps: the log, the term logs, the elected list and the AE messages are untouched,
    terms only grow, and a node is leader afterwards only if it was leader at the same term before -/
theorem inv2_frame (n : Nat) (s s' : Sys) (h : Inv2 n s)
    (hlog : ∀ j, (s'.nodes j).log = (s.nodes j).log)
    (htl : s'.ghost.tl = s.ghost.tl) (hel : s'.ghost.elected = s.ghost.elected)
    (hnet : ∀ ldr t p pt es lc, Msg.ae ldr t p pt es lc ∈ s'.net → Msg.ae ldr t p pt es lc ∈ s.net)
    (hterm : ∀ j, (s.nodes j).term ≤ (s'.nodes j).term)
    (hrole : ∀ j, ((s'.nodes j).role = (s.nodes j).role ∧ (s'.nodes j).term = (s.nodes j).term) ∨
        (s'.nodes j).role = .follower ∨
        ((s'.nodes j).role = .candidate ∧ (s.nodes j).term < (s'.nodes j).term)) :
    Inv2 n s' := by
  obtain ⟨a1, a2, a3, a4, a5, a6, a7⟩ := h
  refine ⟨?_, ?_, ?_, ?_, ?_, ?_, ?_⟩
  · intro j; rw [hlog, htl]; exact a1 j
  · intro t; rw [htl]; exact a2 t
  · intro t ht; rw [htl] at ht; rw [hel]; exact a3 t ht
  · intro i hi
    rcases hrole i with ⟨r1, r2⟩ | r1 | ⟨r1, _⟩
    · rw [hlog, htl, hel, r2]; exact a4 i (by rw [← r1]; exact hi)
    · rw [r1] at hi; cases hi
    · rw [r1] at hi; cases hi
  · intro ldr t p pt es lc hm; rw [htl]; exact a5 ldr t p pt es lc (hnet ldr t p pt es lc hm)
  · intro t l Q hq; rw [hel] at hq; have := a6 t l Q hq; have := hterm l; omega
  · intro i Q hq
    rw [hel] at hq
    rcases hrole i with ⟨r1, r2⟩ | r1 | ⟨r1, r2⟩
    · rw [r1]; rw [r2] at hq; exact a7 i Q hq
    · rw [r1]; intro hc; cases hc
    · have := a6 _ _ _ hq; omega


theorem handleAE_log (nd : Node) (t p pt : Nat) (es : List Entry) (lc stage : Nat) :
    let r := handleAE nd t p pt es lc stage
    r.1 = nd ∨
    (r.1.role = .follower ∧ nd.term ≤ r.1.term ∧
      (r.1.log = nd.log ∨
       ((p = 0 ∨ (p ≤ nd.log.length ∧ termAt nd.log p = pt)) ∧
         (r.1.log = nd.log.take p ++ mergeSuffix (nd.log.drop p) es ∨
          r.1.log = nd.log.take p ++ truncSuffix (nd.log.drop p) es)))) := by
  simp only [handleAE]
  by_cases h1 : t < nd.term
  · simp [h1]
  · simp only [h1, if_false]
    right
    by_cases h2 : nd.term < t ∨ nd.role ≠ .follower
    · simp only [h2, if_true]
      split
      · refine ⟨rfl, by simp; omega, Or.inl rfl⟩
      · split
        · refine ⟨rfl, by simp; omega, Or.inl rfl⟩
        · rename_i _ hchk
          have hc : p = 0 ∨ (p ≤ nd.log.length ∧ termAt nd.log p = pt) := by
            by_cases hp : p = 0
            · exact Or.inl hp
            · right
              simp only [not_and, not_or, ne_eq] at hchk
              have := hchk hp
              simp only [Nat.not_lt, Decidable.not_not] at this
              exact this
          split
          · exact ⟨rfl, by simp; omega, Or.inr ⟨hc, Or.inr rfl⟩⟩
          · exact ⟨rfl, by simp; omega, Or.inr ⟨hc, Or.inl rfl⟩⟩
    · simp only [h2, if_false]
      have hrole : nd.role = .follower := by
        by_contra hne; exact h2 (Or.inr hne)
      split
      · exact ⟨hrole, Nat.le_refl _, Or.inl rfl⟩
      · split
        · exact ⟨hrole, Nat.le_refl _, Or.inl rfl⟩
        · rename_i _ hchk
          have hc : p = 0 ∨ (p ≤ nd.log.length ∧ termAt nd.log p = pt) := by
            by_cases hp : p = 0
            · exact Or.inl hp
            · right
              simp only [not_and, not_or, ne_eq] at hchk
              have := hchk hp
              simp only [Nat.not_lt, Decidable.not_not] at this
              exact this
          split
          · exact ⟨hrole, Nat.le_refl _, Or.inr ⟨hc, Or.inr rfl⟩⟩
          · exact ⟨hrole, Nat.le_refl _, Or.inr ⟨hc, Or.inl rfl⟩⟩

theorem handleIS_log (nd : Node) (T : List Entry) (t idx iterm : Nat) :
    let r := handleIS nd T t idx iterm
    (r.1 = nd ∧ r.2 = false) ∨
    (r.2 = true ∧ r.1.role = .follower ∧ r.1.term = t ∧ nd.term ≤ t ∧ r.1.commit = nd.commit ∧
      ((idx ≤ nd.log.length ∧ termAt nd.log idx = iterm ∧ r.1.log = nd.log) ∨
       (¬ (idx ≤ nd.log.length ∧ termAt nd.log idx = iterm) ∧ r.1.log = T.take idx))) := by
  simp only [handleIS]
  by_cases h1 : t < nd.term
  · simp [h1]
  · simp only [h1, if_false]
    right
    by_cases h2 : nd.term < t ∨ nd.role ≠ .follower
    · simp only [h2, if_true]
      split
      · rename_i hh; exact ⟨rfl, rfl, rfl, by omega, rfl, Or.inl ⟨hh.1, hh.2, rfl⟩⟩
      · rename_i hh; exact ⟨rfl, rfl, rfl, by omega, rfl, Or.inr ⟨hh, rfl⟩⟩
    · simp only [h2, if_false]
      have hrole : nd.role = .follower := by
        by_contra hne; exact h2 (Or.inr hne)
      have hterm : nd.term = t := by
        have : ¬ nd.term < t := fun hlt => h2 (Or.inl hlt)
        omega
      split
      · rename_i hh; exact ⟨rfl, hrole, hterm, by omega, rfl, Or.inl ⟨hh.1, hh.2, rfl⟩⟩
      · rename_i hh; exact ⟨rfl, hrole, hterm, by omega, rfl, Or.inr ⟨hh, rfl⟩⟩

theorem ghost_if_tl (b : Bool) (g : Ghost) (x : Nat × Nat × Nat) (y : Nat × Nat × Nat × List Entry × Bool) :
    (if b = true then ({ g with grants := x :: g.grants, glogs := y :: g.glogs } : Ghost) else g).tl = g.tl := by
  split <;> rfl
theorem ghost_if_elected (b : Bool) (g : Ghost) (x : Nat × Nat × Nat) (y : Nat × Nat × Nat × List Entry × Bool) :
    (if b = true then ({ g with grants := x :: g.grants, glogs := y :: g.glogs } : Ghost) else g).elected = g.elected := by
  split <;> rfl
theorem ghost_ifa_tl (b : Bool) (g : Ghost) (x : Nat × Nat × Nat) :
    (if b = true then ({ g with acks := x :: g.acks } : Ghost) else g).tl = g.tl := by
  split <;> rfl
theorem ghost_ifa_elected (b : Bool) (g : Ghost) (x : Nat × Nat × Nat) :
    (if b = true then ({ g with acks := x :: g.acks } : Ghost) else g).elected = g.elected := by
  split <;> rfl

theorem inv2_step (n : Nat) (s s' : Sys) (hreach : Reachable n s) (h : Inv2 n s)
    (hstep : Step n s s') : Inv2 n s' := by
  have hinv1 : Inv n s := inv_reachable n s hreach
  have hreach' : Reachable n s' := Reachable.step hreach hstep
  have hinv1' : Inv n s' := inv_reachable n s' hreach'
  obtain ⟨l, hen, rfl⟩ := hstep
  cases l with
  | timeout i =>
    apply inv2_frame n s _ h
    · intro j; simp only [apply, setNode_nodes]; split
      · rename_i hj; subst hj; rfl
      · rfl
    · rfl
    · rfl
    · intro ldr t p pt es lc hm
      simp only [apply, List.mem_cons] at hm
      rcases hm with hm | hm
      · cases hm
      · exact hm
    · intro j; simp only [apply, setNode_nodes]; split
      · rename_i hj; subst hj; simp
      · exact Nat.le_refl _
    · intro j; simp only [apply, setNode_nodes]; split
      · rename_i hj; subst hj; right; right; simp
      · left; exact ⟨rfl, rfl⟩
  | timeoutCrash i k =>
    apply inv2_frame n s _ h
    · intro j; simp only [apply, setNode_nodes]; split
      · rename_i hj; subst hj; rfl
      · rfl
    · rfl
    · rfl
    · intro ldr t p pt es lc hm; exact hm
    · intro j; simp only [apply, setNode_nodes]; split
      · rename_i hj; subst hj; simp
      · exact Nat.le_refl _
    · intro j; simp only [apply, setNode_nodes]; split
      · right; left; rfl
      · left; exact ⟨rfl, rfl⟩
  | voteReq j c t li lt stage =>
    have hf := handleVote_log (s.nodes j) c t li lt stage
    simp only at hf
    obtain ⟨f1, f2, f3⟩ := hf
    apply inv2_frame n s _ h
    · intro k; simp only [apply, setNode_nodes]; split
      · rename_i hk; subst hk; exact f1
      · rfl
    · simp only [apply]; exact ghost_if_tl _ _ _ _
    · simp only [apply]; exact ghost_if_elected _ _ _ _
    · intro ldr t' p pt es lc hm
      simp only [apply, List.mem_cons] at hm
      rcases hm with hm | hm
      · cases hm
      · exact hm
    · intro k; simp only [apply, setNode_nodes]; split
      · rename_i hk; subst hk; exact f2
      · exact Nat.le_refl _
    · intro k; simp only [apply, setNode_nodes]; split
      · rename_i hk; subst hk
        rcases f3 with g | g
        · left; exact g
        · right; left; exact g
      · left; exact ⟨rfl, rfl⟩
  | voteResp i v t =>
    simp only [enabled] at hen
    obtain ⟨hi, hv, hm, hc, ht⟩ := hen
    by_cases hwon : quorum n ≤
        (if v ∈ (s.nodes i).tally then (s.nodes i).tally else v :: (s.nodes i).tally).length
    · -- the candidate wins term t: no-op appended, term log of t created
      obtain ⟨a1, a2, a3, a4, a5, a6, a7⟩ := h
      -- nobody was elected in t before
      have hnone : ∀ l Q, (t, l, Q) ∉ s.ghost.elected := by
        intro l Q hq
        have hpost : ∃ Q', (t, i, Q') ∈ (apply n s (Label.voteResp i v t)).ghost.elected := by
          simp only [apply, hwon, decide_true, if_true]
          exact ⟨_, List.mem_cons_self ..⟩
        obtain ⟨Q', hq'⟩ := hpost
        have hq2 : (t, l, Q) ∈ (apply n s (Label.voteResp i v t)).ghost.elected := by
          simp only [apply, hwon, decide_true, if_true]
          exact List.mem_cons_of_mem _ hq
        have hli : l = i := election_safety n _ hreach' t l i Q Q' hq2 hq'
        subst hli
        rw [← ht] at hq
        exact a7 l Q hq hc
      have htlnil : s.ghost.tl t = [] := by
        by_contra hne
        obtain ⟨l, Q, hq⟩ := a3 t hne
        exact hnone l Q hq
      have htl' : (apply n s (Label.voteResp i v t)).ghost.tl
          = upd s.ghost.tl t ((s.nodes i).log ++ [(⟨t, 0⟩ : Entry)]) := by
        simp only [apply, hwon, decide_true, if_true]; rfl
      have hext : ∀ k, k < (s.ghost.tl t).length →
          ((s.nodes i).log ++ [(⟨t, 0⟩ : Entry)]).take (k + 1) = (s.ghost.tl t).take (k + 1) := by
        intro k hk; rw [htlnil] at hk; simp at hk
      refine ⟨?_, ?_, ?_, ?_, ?_, ?_, ?_⟩
      · intro j
        rw [htl']
        simp only [apply, hwon, decide_true, if_true, setNode_nodes]
        split
        · exact prefixOK_self_update _ _ _ _ rfl (a1 i)
        · exact prefixOK_update _ _ _ _ hext (a1 j)
      · intro u
        rw [htl']
        by_cases hu : u = t
        · have : upd s.ghost.tl t ((s.nodes i).log ++ [(⟨t, 0⟩ : Entry)]) u
              = (s.nodes i).log ++ [(⟨t, 0⟩ : Entry)] := by simp [upd, hu]
          rw [this]
          exact prefixOK_self_update _ _ _ _ rfl (a1 i)
        · have : upd s.ghost.tl t ((s.nodes i).log ++ [(⟨t, 0⟩ : Entry)]) u = s.ghost.tl u := by
            simp [upd, hu]
          rw [this]
          exact prefixOK_update _ _ _ _ hext (a2 u)
      · intro u hu
        rw [htl'] at hu
        simp only [apply, hwon, decide_true, if_true]
        by_cases hut : u = t
        · subst hut; exact ⟨i, _, List.mem_cons_self ..⟩
        · simp only [upd, hut, if_false] at hu
          obtain ⟨l, Q, hq⟩ := a3 u hu
          exact ⟨l, Q, List.mem_cons_of_mem _ hq⟩
      · intro k hk
        rw [htl']
        simp only [apply, hwon, decide_true, if_true, setNode_nodes] at hk ⊢
        split
        · rename_i hki; subst hki
          simp only [ht, upd, if_true]
          exact ⟨trivial, by simp, _, List.mem_cons_self ..⟩
        · rename_i hki
          simp only [hki, if_false] at hk
          obtain ⟨b1, b2, Q, b3⟩ := a4 k hk
          have hne_term : (s.nodes k).term ≠ t := by
            intro heq; rw [heq] at b3; exact hnone k Q b3
          simp only [upd, hne_term, if_false]
          exact ⟨b1, b2, Q, List.mem_cons_of_mem _ b3⟩
      · intro ldr t' p pt es lc hm'
        rw [htl']
        simp only [apply, hwon, decide_true, if_true] at hm'
        have hmo := a5 ldr t' p pt es lc hm'
        have hne_term : t' ≠ t := by
          intro heq; rw [heq] at hmo; exact hmo.nonempty htlnil
        obtain ⟨m1, m2, m3, m4⟩ := hmo
        refine ⟨?_, ?_, ?_, ?_⟩ <;> simp only [upd, hne_term, if_false]
        · exact m1
        · exact m2
        · exact m3
        · exact m4
      · intro t' l Q hq
        simp only [apply, hwon, decide_true, if_true, setNode_nodes] at hq ⊢
        rcases List.mem_cons.mp hq with heq | hq
        · simp only [Prod.mk.injEq] at heq
          obtain ⟨e1, e2, _⟩ := heq
          subst e1 e2
          simp only [if_true]; omega
        · have := a6 t' l Q hq
          split
          · rename_i hl; subst hl; exact this
          · exact this
      · intro k Q hq
        simp only [apply, hwon, decide_true, if_true, setNode_nodes] at hq ⊢
        split
        · intro hcc; cases hcc
        · rename_i hki
          simp only [hki, if_false] at hq
          rcases List.mem_cons.mp hq with heq | hq
          · simp only [Prod.mk.injEq] at heq
            exact absurd heq.2.1 hki
          · exact a7 k Q hq
    · -- not yet a quorum: only the tally changes
      apply inv2_frame n s _ h
      · intro j; simp only [apply, hwon, decide_false, if_false, Bool.false_eq_true, setNode_nodes]; split
        · rename_i hj; subst hj; rfl
        · rfl
      · simp only [apply, hwon, decide_false, if_false, Bool.false_eq_true]
      · simp only [apply, hwon, decide_false, if_false, Bool.false_eq_true]
      · intro ldr t' p pt es lc hm'
        simp only [apply, hwon, decide_false, if_false, Bool.false_eq_true] at hm'
        exact hm'
      · intro j; simp only [apply, setNode_nodes]; split
        · rename_i hj; subst hj; exact Nat.le_refl _
        · exact Nat.le_refl _
      · intro j; simp only [apply, hwon, decide_false, if_false, Bool.false_eq_true, setNode_nodes]; split
        · rename_i hj; subst hj; left; exact ⟨hc.symm, rfl⟩
        · left; exact ⟨rfl, rfl⟩
  | crash i =>
    apply inv2_frame n s _ h
    · intro j; simp only [apply, setNode_nodes]; split
      · rename_i hj; subst hj; rfl
      · rfl
    · rfl
    · rfl
    · intro ldr t p pt es lc hm; exact hm
    · intro j; simp only [apply, setNode_nodes]; split
      · rename_i hj; subst hj; exact Nat.le_refl _
      · exact Nat.le_refl _
    · intro j; simp only [apply, setNode_nodes]; split
      · right; left; rfl
      · left; exact ⟨rfl, rfl⟩
  | dup m =>
    simp only [enabled] at hen
    apply inv2_frame n s _ h
    · intro j; rfl
    · rfl
    · rfl
    · intro ldr t p pt es lc hm
      simp only [apply, List.mem_cons] at hm
      rcases hm with hm | hm
      · rw [hm]; exact hen
      · exact hm
    · intro j; exact Nat.le_refl _
    · intro j; left; exact ⟨rfl, rfl⟩
  | append i p =>
    simp only [enabled] at hen
    obtain ⟨hi, hrole⟩ := hen
    obtain ⟨a1, a2, a3, a4, a5, a6, a7⟩ := h
    obtain ⟨hlog, hne, Q0, hQ0⟩ := a4 i hrole
    -- abbreviations
    have htl' : (apply n s (Label.append i p)).ghost.tl
        = upd s.ghost.tl (s.nodes i).term (s.ghost.tl (s.nodes i).term ++ [(⟨(s.nodes i).term, p⟩ : Entry)]) := by
      simp only [apply, hlog]; rfl
    have hext : ∀ k, k < (s.ghost.tl (s.nodes i).term).length →
        (s.ghost.tl (s.nodes i).term ++ [(⟨(s.nodes i).term, p⟩ : Entry)]).take (k + 1)
          = (s.ghost.tl (s.nodes i).term).take (k + 1) := by
      intro k hk; exact take_append_of_lt _ _ k hk
    refine ⟨?_, ?_, ?_, ?_, ?_, ?_, ?_⟩
    · intro j
      rw [htl']
      simp only [apply, setNode_nodes]
      split
      · rw [hlog]
        exact prefixOK_self_update _ _ _ _ rfl (a2 _)
      · exact prefixOK_update _ _ _ _ hext (a1 j)
    · intro t
      rw [htl']
      by_cases ht : t = (s.nodes i).term
      · have : upd s.ghost.tl (s.nodes i).term (s.ghost.tl (s.nodes i).term ++ [(⟨(s.nodes i).term, p⟩ : Entry)]) t
            = s.ghost.tl (s.nodes i).term ++ [(⟨(s.nodes i).term, p⟩ : Entry)] := by simp [upd, ht]
        rw [this]
        exact prefixOK_self_update _ _ _ _ rfl (a2 _)
      · have : upd s.ghost.tl (s.nodes i).term (s.ghost.tl (s.nodes i).term ++ [(⟨(s.nodes i).term, p⟩ : Entry)]) t
            = s.ghost.tl t := by simp [upd, ht]
        rw [this]
        exact prefixOK_update _ _ _ _ hext (a2 t)
    · intro t ht
      rw [htl'] at ht
      simp only [apply]
      by_cases htt : t = (s.nodes i).term
      · subst htt; exact ⟨i, Q0, hQ0⟩
      · simp only [upd, htt, if_false] at ht; exact a3 t ht
    · intro k hk
      rw [htl']
      simp only [apply, setNode_nodes] at hk ⊢
      split
      · rename_i hki; subst hki
        simp only [upd, if_true]
        refine ⟨by rw [hlog], by simp, Q0, hQ0⟩
      · rename_i hki
        simp only [hki, if_false] at hk
        obtain ⟨b1, b2, Q, b3⟩ := a4 k hk
        have hne_term : (s.nodes k).term ≠ (s.nodes i).term := by
          intro heq
          rw [heq] at b3
          exact hki (election_safety n s hreach _ _ _ _ _ b3 hQ0)
        simp only [upd, hne_term, if_false]
        exact ⟨b1, b2, Q, b3⟩
    · intro ldr t p' pt es lc hm
      rw [htl']
      exact msgOK_extend _ _ _ _ _ _ _ (a5 ldr t p' pt es lc hm)
    · intro t l Q hq
      simp only [apply, setNode_nodes] at hq ⊢
      have := a6 t l Q hq
      split
      · rename_i hl; subst hl; exact this
      · exact this
    · intro k Q hq
      simp only [apply, setNode_nodes] at hq ⊢
      split
      · rename_i hki; subst hki
        simp only [if_true] at hq
        rw [hrole]; intro hc; cases hc
      · rename_i hki
        simp only [hki, if_false] at hq
        exact a7 k Q hq
  | sendAE i prevIdx len lc =>
    simp only [enabled] at hen
    obtain ⟨hi, hrole, hp, _⟩ := hen
    obtain ⟨a1, a2, a3, a4, a5, a6, a7⟩ := h
    obtain ⟨hlog, hne, Q0, hQ0⟩ := a4 i hrole
    refine ⟨a1, a2, a3, a4, ?_, a6, a7⟩
    intro ldr t p pt es lc' hm
    simp only [apply, List.mem_cons] at hm
    rcases hm with hm | hm
    · injection hm with e1 e2 e3 e4 e5 e6
      subst e1 e2 e3 e4 e5 e6
      simp only [apply]
      rw [hlog] at hp ⊢
      refine ⟨hne, ?_, ?_, rfl⟩
      · simp only [List.length_take, List.length_drop]; omega
      · exact (take_take_length _ _).symm
    · exact a5 ldr t p pt es lc' hm
  | recvAE j ldr t prevIdx prevTerm es lc stage =>
    simp only [enabled] at hen
    obtain ⟨hj, hm⟩ := hen
    obtain ⟨a1, a2, a3, a4, a5, a6, a7⟩ := h
    have hmsg := a5 ldr t prevIdx prevTerm es lc hm
    have hf := handleAE_log (s.nodes j) t prevIdx prevTerm es lc stage
    simp only at hf
    have htl : (apply n s (Label.recvAE j ldr t prevIdx prevTerm es lc stage)).ghost.tl = s.ghost.tl := by
      simp only [apply]; exact ghost_ifa_tl _ _ _
    have hel : (apply n s (Label.recvAE j ldr t prevIdx prevTerm es lc stage)).ghost.elected
        = s.ghost.elected := by
      simp only [apply]; exact ghost_ifa_elected _ _ _
    have hnet : ∀ l' t' p' pt' es' lc', Msg.ae l' t' p' pt' es' lc' ∈
        (apply n s (Label.recvAE j ldr t prevIdx prevTerm es lc stage)).net →
        Msg.ae l' t' p' pt' es' lc' ∈ s.net := by
      intro l' t' p' pt' es' lc' hm'
      simp only [apply] at hm'
      split at hm'
      · rcases List.mem_cons.mp hm' with h | h
        · cases h
        · exact h
      · exact hm'
    have hnodes : ∀ k, (apply n s (Label.recvAE j ldr t prevIdx prevTerm es lc stage)).nodes k
        = if k = j then (handleAE (s.nodes j) t prevIdx prevTerm es lc stage).1 else s.nodes k := by
      intro k; simp only [apply, setNode_nodes]
    rcases hf with hsame | ⟨frole, fterm, flog⟩
    · -- request ignored
      have hnodes' : ∀ k, (apply n s (Label.recvAE j ldr t prevIdx prevTerm es lc stage)).nodes k = s.nodes k := by
        intro k; rw [hnodes]; split
        · rename_i hk; rw [hsame, hk]
        · rfl
      refine ⟨?_, ?_, ?_, ?_, ?_, ?_, ?_⟩
      · intro k; rw [hnodes', htl]; exact a1 k
      · intro u; rw [htl]; exact a2 u
      · intro u hu; rw [htl] at hu; rw [hel]; exact a3 u hu
      · intro k hk; rw [hnodes'] at hk ⊢; rw [htl, hel]; exact a4 k hk
      · intro l' t' p' pt' es' lc' hm'; rw [htl]; exact a5 _ _ _ _ _ _ (hnet _ _ _ _ _ _ hm')
      · intro t' l Q hq; rw [hel] at hq; rw [hnodes']; exact a6 t' l Q hq
      · intro k Q hq; rw [hel] at hq; rw [hnodes'] at hq ⊢; exact a7 k Q hq
    · -- request processed
      have hnewlog : PrefixOK s.ghost.tl (handleAE (s.nodes j) t prevIdx prevTerm es lc stage).1.log := by
        rcases flog with hl | ⟨hchk, hl | hl⟩
        · rw [hl]; exact a1 j
        · rw [hl]
          have hpL : prevIdx ≤ (s.nodes j).log.length := by
            rcases hchk with h0 | ⟨h1, _⟩
            · omega
            · exact h1
          have hpre : (s.nodes j).log.take prevIdx = (s.ghost.tl t).take prevIdx := by
            cases prevIdx with
            | zero => simp
            | succ k =>
              rcases hchk with h0 | ⟨h1, h2⟩
              · omega
              · have hkL : k < (s.nodes j).log.length := by omega
                have hkT : k < (s.ghost.tl t).length := by have := hmsg.len; omega
                have e1 := termAt_succ (s.nodes j).log k hkL
                have e2 := termAt_succ (s.ghost.tl t) k hkT
                have e3 := hmsg.pterm
                exact prefixOK_agree _ _ _ (a1 j) (a2 t) k hkL hkT (by rw [← e1, h2, e3, e2])
          rcases merge_cases (s.ghost.tl t) es (s.nodes j).log prevIdx hmsg.seg hmsg.len hpre hpL
              (fun idx h1 h2 ht => prefixOK_agree _ _ _ (a1 j) (a2 t) idx h1 h2 ht) with hres | hres
          · rw [hres]; exact a1 j
          · rw [hres]; exact prefixOK_take _ _ _ (a2 t)
        · rw [hl]
          have hpL : prevIdx ≤ (s.nodes j).log.length := by
            rcases hchk with h0 | ⟨h1, _⟩
            · omega
            · exact h1
          obtain ⟨m, hm'⟩ := trunc_prefix es (s.nodes j).log prevIdx hpL
          rw [hm']; exact prefixOK_take _ _ _ (a1 j)
      refine ⟨?_, ?_, ?_, ?_, ?_, ?_, ?_⟩
      · intro k; rw [hnodes, htl]; split
        · exact hnewlog
        · exact a1 k
      · intro u; rw [htl]; exact a2 u
      · intro u hu; rw [htl] at hu; rw [hel]; exact a3 u hu
      · intro k hk
        rw [hnodes] at hk ⊢
        rw [htl, hel]
        split
        · rename_i hkj
          simp only [hkj, if_true] at hk
          rw [frole] at hk; cases hk
        · rename_i hkj
          simp only [hkj, if_false] at hk
          exact a4 k hk
      · intro l' t' p' pt' es' lc' hm'; rw [htl]; exact a5 _ _ _ _ _ _ (hnet _ _ _ _ _ _ hm')
      · intro t' l Q hq
        rw [hel] at hq
        rw [hnodes]
        have := a6 t' l Q hq
        split
        · rename_i hl; subst hl; omega
        · exact this
      · intro k Q hq
        rw [hel] at hq
        rw [hnodes] at hq ⊢
        split
        · rw [frole]; intro hc; cases hc
        · rename_i hkj
          simp only [hkj, if_false] at hq
          exact a7 k Q hq
  | compact i b =>
    apply inv2_frame n s _ h
    · intro j; simp only [apply, setNode_nodes]; split
      · rename_i hj; subst hj; rfl
      · rfl
    · rfl
    · rfl
    · intro ldr t p pt es lc hm; exact hm
    · intro j; simp only [apply, setNode_nodes]; split
      · rename_i hj; subst hj; exact Nat.le_refl _
      · exact Nat.le_refl _
    · intro j; simp only [apply, setNode_nodes]; split
      · rename_i hj; subst hj; left; exact ⟨rfl, rfl⟩
      · left; exact ⟨rfl, rfl⟩
  | takeSnap i k =>
    apply inv2_frame n s _ h
    · intro j; simp only [apply, setNode_nodes]; split
      · rename_i hj; subst hj; rfl
      · rfl
    · rfl
    · rfl
    · intro ldr t p pt es lc hm; exact hm
    · intro j; simp only [apply, setNode_nodes]; split
      · rename_i hj; subst hj; exact Nat.le_refl _
      · exact Nat.le_refl _
    · intro j; simp only [apply, setNode_nodes]; split
      · rename_i hj; subst hj; left; exact ⟨rfl, rfl⟩
      · left; exact ⟨rfl, rfl⟩
  | sendIS i =>
    apply inv2_frame n s _ h
    · intro j; rfl
    · rfl
    · rfl
    · intro ldr t p pt es lc hm
      simp only [apply, List.mem_cons] at hm
      rcases hm with hm | hm
      · cases hm
      · exact hm
    · intro j; exact Nat.le_refl _
    · intro j; left; exact ⟨rfl, rfl⟩
  | recvIS j ldr t idx iterm =>
    obtain ⟨a1, a2, a3, a4, a5, a6, a7⟩ := h
    have hf := handleIS_log (s.nodes j) (s.ghost.tl t) t idx iterm
    simp only at hf
    have htl : (apply n s (Label.recvIS j ldr t idx iterm)).ghost.tl = s.ghost.tl := by
      simp only [apply]; exact ghost_ifa_tl _ _ _
    have hel : (apply n s (Label.recvIS j ldr t idx iterm)).ghost.elected = s.ghost.elected := by
      simp only [apply]; exact ghost_ifa_elected _ _ _
    have hnet : ∀ l' t' p' pt' es' lc', Msg.ae l' t' p' pt' es' lc' ∈
        (apply n s (Label.recvIS j ldr t idx iterm)).net → Msg.ae l' t' p' pt' es' lc' ∈ s.net := by
      intro l' t' p' pt' es' lc' hm'
      simp only [apply] at hm'
      split at hm'
      · rcases List.mem_cons.mp hm' with h | h
        · cases h
        · exact h
      · exact hm'
    have hnodes : ∀ k, (apply n s (Label.recvIS j ldr t idx iterm)).nodes k
        = if k = j then (handleIS (s.nodes j) (s.ghost.tl t) t idx iterm).1 else s.nodes k := by
      intro k; simp only [apply, setNode_nodes]
    have hnewlog : PrefixOK s.ghost.tl (handleIS (s.nodes j) (s.ghost.tl t) t idx iterm).1.log := by
      rcases hf with ⟨hsame, _⟩ | ⟨_, _, _, _, _, hl⟩
      · rw [hsame]; exact a1 j
      · rcases hl with ⟨_, _, hl⟩ | ⟨_, hl⟩
        · rw [hl]; exact a1 j
        · rw [hl]; exact prefixOK_take _ _ _ (a2 t)
    refine ⟨?_, ?_, ?_, ?_, ?_, ?_, ?_⟩
    · intro k; rw [hnodes, htl]; split
      · exact hnewlog
      · exact a1 k
    · intro u; rw [htl]; exact a2 u
    · intro u hu; rw [htl] at hu; rw [hel]; exact a3 u hu
    · intro k hk
      rw [hnodes] at hk ⊢
      rw [htl, hel]
      split
      · rename_i hkj
        simp only [hkj, if_true] at hk
        rcases hf with ⟨hsame, _⟩ | ⟨_, frole, _⟩
        · rw [hsame] at hk ⊢; rw [hkj]; exact a4 j hk
        · rw [frole] at hk; cases hk
      · rename_i hkj
        simp only [hkj, if_false] at hk
        exact a4 k hk
    · intro l' t' p' pt' es' lc' hm'; rw [htl]; exact a5 _ _ _ _ _ _ (hnet _ _ _ _ _ _ hm')
    · intro t' l Q hq
      rw [hel] at hq
      rw [hnodes]
      have := a6 t' l Q hq
      split
      · rename_i hl; subst hl
        rcases hf with ⟨hsame, _⟩ | ⟨_, _, fterm, fle, _⟩
        · rw [hsame]; exact this
        · rw [fterm]; omega
      · exact this
    · intro k Q hq
      rw [hel] at hq
      rw [hnodes] at hq ⊢
      split
      · rename_i hkj
        simp only [hkj, if_true] at hq
        rcases hf with ⟨hsame, _⟩ | ⟨_, frole, _⟩
        · rw [hsame] at hq ⊢; exact a7 j Q hq
        · rw [frole]; intro hc; cases hc
      · rename_i hkj
        simp only [hkj, if_false] at hq
        exact a7 k Q hq
  | fsmApply i =>
    rcases fsmApply_cases n s i with heq | ⟨e, _, heq⟩
    · rw [heq]; exact h
    · rw [heq]
      apply inv2_frame n s _ h
      · intro j; simp only [setNode_nodes]; split
        · rename_i hj; subst hj; rfl
        · rfl
      · rfl
      · rfl
      · intro ldr t p pt es lc hm; exact hm
      · intro j; simp only [setNode_nodes]; split
        · rename_i hj; subst hj; exact Nat.le_refl _
        · exact Nat.le_refl _
      · intro j; simp only [setNode_nodes]; split
        · rename_i hj; subst hj; left; exact ⟨rfl, rfl⟩
        · left; exact ⟨rfl, rfl⟩
  | fsmRestore i =>
    apply inv2_frame n s _ h
    · intro j; simp only [apply, setNode_nodes]; split
      · rename_i hj; subst hj; rfl
      · rfl
    · rfl
    · rfl
    · intro ldr t p pt es lc hm; exact hm
    · intro j; simp only [apply, setNode_nodes]; split
      · rename_i hj; subst hj; exact Nat.le_refl _
      · exact Nat.le_refl _
    · intro j; simp only [apply, setNode_nodes]; split
      · rename_i hj; subst hj; left; exact ⟨rfl, rfl⟩
      · left; exact ⟨rfl, rfl⟩
  | advanceCommit i k Q =>
    apply inv2_frame n s _ h
    · intro j; simp only [apply, setNode_nodes]; split
      · rename_i hj; subst hj; rfl
      · rfl
    · rfl
    · rfl
    · intro ldr t p pt es lc hm; exact hm
    · intro j; simp only [apply, setNode_nodes]; split
      · rename_i hj; subst hj; exact Nat.le_refl _
      · exact Nat.le_refl _
    · intro j; simp only [apply, setNode_nodes]; split
      · rename_i hj; subst hj; left; exact ⟨rfl, rfl⟩
      · left; exact ⟨rfl, rfl⟩

theorem inv2_init (n : Nat) : Inv2 n init := by
  refine ⟨?_, ?_, ?_, ?_, ?_, ?_, ?_⟩ <;> simp [init, PrefixOK]

theorem inv2_reachable (n : Nat) (s : Sys) (h : Reachable n s) : Inv2 n s := by
  induction h with
  | init => exact inv2_init n
  | step hr hs ih => exact inv2_step n _ _ hr ih hs

/-- Log matching: if two servers' logs hold entries with the same index and term, the logs are
    identical up to and including that index — for every cluster size and every execution
    (any interleaving, duplication, reordering and loss of messages, crashes between any two
    durable writes, any `nextIndex` the leader may choose). -/
theorem log_matching (n : Nat) (s : Sys) (h : Reachable n s) (i j k : Nat)
    (hi : k < (s.nodes i).log.length) (hj : k < (s.nodes j).log.length)
    (ht : (s.nodes i).log[k].term = (s.nodes j).log[k].term) :
    (s.nodes i).log.take (k + 1) = (s.nodes j).log.take (k + 1) := by
  have inv := inv2_reachable n s h
  exact prefixOK_agree _ _ _ (inv.log_ok i) (inv.log_ok j) k hi hj ht

end RP
