import RaftVerif.Core.Safety

/-! probe: commit indexes and state-machine safety -/
namespace RP

structure Inv5 (n : Nat) (s : Sys) : Prop where
  commit_ok : ∀ v, (s.nodes v).commit ≤ (s.nodes v).log.length ∧
      ((s.nodes v).commit ≠ 0 → ∃ t k, Committed n s t k ∧ (s.nodes v).commit ≤ k ∧
        t ≤ (s.nodes v).term ∧
        (s.nodes v).log.take (s.nodes v).commit = (s.ghost.tl t).take (s.nodes v).commit)
  msg_commit : ∀ l t p pt es lc, Msg.ae l t p pt es lc ∈ s.net → lc ≠ 0 →
      ∃ t' k, Committed n s t' k ∧ lc ≤ k ∧ t' ≤ t ∧ (s.ghost.tl t).take lc = (s.ghost.tl t').take lc
  leader_ack : ∀ i, (s.nodes i).role = .leader →
      (i, (s.nodes i).term, (s.nodes i).log.length) ∈ s.ghost.acks

theorem termAt_of_take_eq (A B : List Entry) (k : Nat) (hk1 : 1 ≤ k) (hA : k ≤ A.length) (hB : k ≤ B.length)
    (h : A.take k = B.take k) : termAt A k = termAt B k := by
  obtain ⟨h1, e1⟩ := termAt_pos A k hk1 hA
  obtain ⟨h2, e2⟩ := termAt_pos B k hk1 hB
  rw [e1, e2, getElem_of_take_eq A B k (k - 1) h (by omega) h1 h2]

/-- commitment is stable under growth of term logs and acknowledgements -/
theorem committed_mono (n : Nat) (s s' : Sys)
    (htl : ∀ t k, k ≤ (s.ghost.tl t).length →
        (s'.ghost.tl t).take k = (s.ghost.tl t).take k ∧ k ≤ (s'.ghost.tl t).length)
    (hacks : ∀ x, x ∈ s.ghost.acks → x ∈ s'.ghost.acks)
    (t k : Nat) (h : Committed n s t k) : Committed n s' t k := by
  obtain ⟨h1, h2, h3, Q, q1, q2, q3⟩ := h
  obtain ⟨e1, e2⟩ := htl t k h2
  refine ⟨h1, e2, ?_, Q, q1, q2, ?_⟩
  · rw [termAt_of_take_eq _ _ k h1 e2 h2 e1]; exact h3
  · intro v hv
    obtain ⟨a, k', b, c⟩ := q3 v hv
    exact ⟨a, k', b, hacks _ c⟩

theorem inv5_init (n : Nat) : Inv5 n init := by
  refine ⟨?_, ?_, ?_⟩ <;> simp [init]

/-- frame lemma for Inv5 -/
theorem inv5_frame (n : Nat) (s s' : Sys) (h : Inv5 n s)
    (hlog : ∀ j, (s'.nodes j).log = (s.nodes j).log)
    (hcommit : ∀ j, (s'.nodes j).commit = (s.nodes j).commit ∨ (s'.nodes j).commit = 0)
    (hterm : ∀ j, (s.nodes j).term ≤ (s'.nodes j).term)
    (htl : s'.ghost.tl = s.ghost.tl)
    (hacks : ∀ x, x ∈ s.ghost.acks → x ∈ s'.ghost.acks)
    (hnet : ∀ l t p pt es lc, Msg.ae l t p pt es lc ∈ s'.net → Msg.ae l t p pt es lc ∈ s.net)
    (hlead : ∀ i, (s'.nodes i).role = .leader →
        (s.nodes i).role = .leader ∧ (s'.nodes i).term = (s.nodes i).term) :
    Inv5 n s' := by
  obtain ⟨d1, d2, d3⟩ := h
  have hmono : ∀ t k, Committed n s t k → Committed n s' t k := by
    intro t k hc
    apply committed_mono n s s' _ hacks t k hc
    intro t k hk; rw [htl]; exact ⟨rfl, hk⟩
  refine ⟨?_, ?_, ?_⟩
  · intro v
    rw [hlog]
    rcases hcommit v with hc | hc
    · rw [hc]
      refine ⟨(d1 v).1, ?_⟩
      intro hne
      obtain ⟨t, k, c1, c2, c3, c4⟩ := (d1 v).2 hne
      exact ⟨t, k, hmono t k c1, c2, by have := hterm v; omega, by rw [htl]; exact c4⟩
    · rw [hc]; exact ⟨Nat.zero_le _, fun hne => absurd rfl hne⟩
  · intro l t p pt es lc hm hne
    obtain ⟨t', k, c1, c2, c3, c4⟩ := d2 l t p pt es lc (hnet _ _ _ _ _ _ hm) hne
    exact ⟨t', k, hmono t' k c1, c2, c3, by rw [htl]; exact c4⟩
  · intro i hi
    obtain ⟨e1, e2⟩ := hlead i hi
    rw [hlog, e2]; exact hacks _ (d3 i e1)


theorem handleVote_commit (nd : Node) (c t li lt stage : Nat) :
    (handleVote nd c t li lt stage).1.commit = nd.commit := by
  simp only [handleVote]
  by_cases h1 : t < nd.term
  · simp [h1]
  · simp only [h1, if_false]
    by_cases h2 : nd.term < t
    · simp only [h2, if_true]
      split
      · rfl
      · split
        · rfl
        · split
          · rfl
          · split <;> rfl
    · simp only [h2, if_false]
      split
      · rfl
      · split
        · rfl
        · split
          · rfl
          · split <;> rfl

theorem handleAE_commit (nd : Node) (t p pt : Nat) (es : List Entry) (lc stage : Nat) :
    let r := handleAE nd t p pt es lc stage
    (r.2 = false → ((r.1.commit = nd.commit ∧ r.1.log = nd.log) ∨ r.1.commit = 0)) ∧
    (r.2 = true → r.1.commit = max nd.commit (min lc (p + es.length))) := by
  simp only [handleAE]
  by_cases h1 : t < nd.term
  · simp [h1]
  · simp only [h1, if_false]
    by_cases h2 : nd.term < t ∨ nd.role ≠ .follower
    · simp only [h2, if_true]
      split
      · simp
      · split
        · simp
        · split <;> simp
    · simp only [h2, if_false]
      split
      · simp
      · split
        · simp
        · split <;> simp

theorem inv5_step (n : Nat) (s s' : Sys) (hreach : Reachable n s) (h : Inv5 n s)
    (hstep : Step n s s') : Inv5 n s' := by
  have hinv1 : Inv n s := inv_reachable n s hreach
  have hinv2 : Inv2 n s := inv2_reachable n s hreach
  have hinv3 : Inv3 n s := inv3_reachable n s hreach
  obtain ⟨l, hen, rfl⟩ := hstep
  cases l with
  | timeout i =>
    apply inv5_frame n s _ h
    · intro j; simp only [apply, setNode_nodes]; split
      · rename_i hj; subst hj; rfl
      · rfl
    · intro j; left; simp only [apply, setNode_nodes]; split
      · rename_i hj; subst hj; rfl
      · rfl
    · intro j; simp only [apply, setNode_nodes]; split
      · rename_i hj; subst hj; simp
      · exact Nat.le_refl _
    · rfl
    · intro x hx; exact hx
    · intro l t p pt es lc hm
      simp only [apply, List.mem_cons] at hm
      rcases hm with hm | hm
      · cases hm
      · exact hm
    · intro k; simp only [apply, setNode_nodes]; split
      · intro hc; cases hc
      · intro hc; exact ⟨hc, rfl⟩
  | timeoutCrash i k =>
    apply inv5_frame n s _ h
    · intro j; simp only [apply, setNode_nodes]; split
      · rename_i hj; subst hj; rfl
      · rfl
    · intro j; simp only [apply, setNode_nodes]; split
      · right; rfl
      · left; rfl
    · intro j; simp only [apply, setNode_nodes]; split
      · rename_i hj; subst hj; simp
      · exact Nat.le_refl _
    · rfl
    · intro x hx; exact hx
    · intro l t p pt es lc hm; exact hm
    · intro k'; simp only [apply, setNode_nodes]; split
      · intro hc; cases hc
      · intro hc; exact ⟨hc, rfl⟩
  | voteReq j c t li lt stage =>
    have hf := handleVote_log (s.nodes j) c t li lt stage
    simp only at hf
    obtain ⟨f1, f2, f3⟩ := hf
    apply inv5_frame n s _ h
    · intro k; simp only [apply, setNode_nodes]; split
      · rename_i hk; subst hk; exact f1
      · rfl
    · intro k; left; simp only [apply, setNode_nodes]; split
      · rename_i hk; subst hk; exact handleVote_commit _ _ _ _ _ _
      · rfl
    · intro k; simp only [apply, setNode_nodes]; split
      · rename_i hk; subst hk; exact f2
      · exact Nat.le_refl _
    · simp only [apply]; exact ghost_if_tl _ _ _ _
    · intro x hx; simp only [apply]; split
      · exact hx
      · exact hx
    · intro l t' p pt es lc hm
      simp only [apply, List.mem_cons] at hm
      rcases hm with hm | hm
      · cases hm
      · exact hm
    · intro k; simp only [apply, setNode_nodes]; split
      · rename_i hk; subst hk
        intro hc
        rcases f3 with ⟨g1, g2⟩ | g1
        · exact ⟨by rw [← g1]; exact hc, g2⟩
        · rw [g1] at hc; cases hc
      · intro hc; exact ⟨hc, rfl⟩
  | voteResp i v t =>
    have hen0 := hen
    simp only [enabled] at hen
    obtain ⟨hi, hv, hm, hc, ht⟩ := hen
    by_cases hwon : quorum n ≤
        (if v ∈ (s.nodes i).tally then (s.nodes i).tally else v :: (s.nodes i).tally).length
    · obtain ⟨hnone, htlnil⟩ := win_fresh n s hreach i v t hen0 hwon
      obtain ⟨d1, d2, d3⟩ := h
      have htl : (apply n s (Label.voteResp i v t)).ghost.tl
          = upd s.ghost.tl t ((s.nodes i).log ++ [(⟨t, 0⟩ : Entry)]) := by
        simp only [apply, hwon, decide_true, if_true]; rfl
      have hacks : (apply n s (Label.voteResp i v t)).ghost.acks
          = (i, t, ((s.nodes i).log ++ [(⟨t, 0⟩ : Entry)]).length) :: s.ghost.acks := by
        simp only [apply, hwon, decide_true, if_true]
      have hnet : (apply n s (Label.voteResp i v t)).net = s.net := rfl
      have hnodes : ∀ k, k ≠ i → (apply n s (Label.voteResp i v t)).nodes k = s.nodes k := by
        intro k hk; simp only [apply, setNode_nodes, hk, if_false]
      have hlogi : ((apply n s (Label.voteResp i v t)).nodes i).log
          = (s.nodes i).log ++ [(⟨t, 0⟩ : Entry)] := by
        simp only [apply, hwon, decide_true, if_true, setNode_nodes]
      have hcommiti : ((apply n s (Label.voteResp i v t)).nodes i).commit = (s.nodes i).commit := by
        simp only [apply, setNode_nodes, if_true]
      have htermi : ((apply n s (Label.voteResp i v t)).nodes i).term = (s.nodes i).term := by
        simp only [apply, setNode_nodes, if_true]
      have htl_o : ∀ u, u ≠ t → upd s.ghost.tl t ((s.nodes i).log ++ [(⟨t, 0⟩ : Entry)]) u = s.ghost.tl u := by
        intro u hu; simp [upd, hu]
      have hcne : ∀ u k, Committed n s u k → u ≠ t := by
        intro u k hcm heq
        subst heq
        have := hcm.2.1; rw [htlnil] at this
        have := hcm.1; simp at *; omega
      have hmono : ∀ u k, Committed n s u k → Committed n (apply n s (Label.voteResp i v t)) u k := by
        intro u k hcm
        apply committed_mono n s _ _ _ u k hcm
        · intro u' k' hk'
          rw [htl]
          by_cases hu : u' = t
          · subst hu; rw [htlnil] at hk'
            have : k' = 0 := by simpa using hk'
            subst this; simp
          · rw [htl_o u' hu]; exact ⟨rfl, hk'⟩
        · intro x hx; rw [hacks]; exact List.mem_cons_of_mem _ hx
      refine ⟨?_, ?_, ?_⟩
      · intro k
        by_cases hk : k = i
        · subst hk
          rw [hlogi, hcommiti, htermi]
          have hd := d1 k
          refine ⟨by simp; omega, ?_⟩
          intro hne'
          obtain ⟨u, k0, c1, c2, c3, c4⟩ := hd.2 hne'
          refine ⟨u, k0, hmono u k0 c1, c2, c3, ?_⟩
          rw [htl, htl_o u (hcne u k0 c1), List.take_append_of_le_length hd.1]; exact c4
        · rw [hnodes k hk]
          refine ⟨(d1 k).1, ?_⟩
          intro hne'
          obtain ⟨u, k0, c1, c2, c3, c4⟩ := (d1 k).2 hne'
          refine ⟨u, k0, hmono u k0 c1, c2, c3, ?_⟩
          rw [htl, htl_o u (hcne u k0 c1)]; exact c4
      · intro l t' p pt es lc hm' hne'
        rw [hnet] at hm'
        obtain ⟨u, k0, c1, c2, c3, c4⟩ := d2 l t' p pt es lc hm' hne'
        have ht' : t' ≠ t := by
          intro heq
          have := (hinv2.msg_ok l t' p pt es lc hm').nonempty
          rw [heq, htlnil] at this; exact this rfl
        refine ⟨u, k0, hmono u k0 c1, c2, c3, ?_⟩
        rw [htl, htl_o t' ht', htl_o u (hcne u k0 c1)]; exact c4
      · intro k hk
        by_cases hki : k = i
        · subst hki
          rw [htermi, hlogi, hacks, ht]; exact List.mem_cons_self ..
        · rw [hnodes k hki] at hk ⊢
          rw [hacks]; exact List.mem_cons_of_mem _ (d3 k hk)
    · apply inv5_frame n s _ h
      · intro j; simp only [apply, hwon, decide_false, if_false, Bool.false_eq_true, setNode_nodes]; split
        · rename_i hj; subst hj; rfl
        · rfl
      · intro j; left; simp only [apply, setNode_nodes]; split
        · rename_i hj; subst hj; rfl
        · rfl
      · intro j; simp only [apply, setNode_nodes]; split
        · rename_i hj; subst hj; exact Nat.le_refl _
        · exact Nat.le_refl _
      · simp only [apply, hwon, decide_false, if_false, Bool.false_eq_true]
      · intro x hx; simp only [apply, hwon, decide_false, if_false, Bool.false_eq_true]; exact hx
      · intro l t' p pt es lc hm'; exact hm'
      · intro k; simp only [apply, hwon, decide_false, if_false, Bool.false_eq_true, setNode_nodes]; split
        · intro hcc; cases hcc
        · intro hcc; exact ⟨hcc, rfl⟩
  | crash i =>
    apply inv5_frame n s _ h
    · intro j; simp only [apply, setNode_nodes]; split
      · rename_i hj; subst hj; rfl
      · rfl
    · intro j; simp only [apply, setNode_nodes]; split
      · right; rfl
      · left; rfl
    · intro j; simp only [apply, setNode_nodes]; split
      · rename_i hj; subst hj; exact Nat.le_refl _
      · exact Nat.le_refl _
    · rfl
    · intro x hx; exact hx
    · intro l t p pt es lc hm; exact hm
    · intro k'; simp only [apply, setNode_nodes]; split
      · intro hc; cases hc
      · intro hc; exact ⟨hc, rfl⟩
  | dup m =>
    simp only [enabled] at hen
    apply inv5_frame n s _ h
    · intro j; rfl
    · intro j; left; rfl
    · intro j; exact Nat.le_refl _
    · rfl
    · intro x hx; exact hx
    · intro l t p pt es lc hm
      simp only [apply, List.mem_cons] at hm
      rcases hm with hm | hm
      · rw [hm]; exact hen
      · exact hm
    · intro k hc; exact ⟨hc, rfl⟩
  | append i p =>
    simp only [enabled] at hen
    obtain ⟨hi, hrole⟩ := hen
    obtain ⟨hlogi, hne, Q0, hQ0⟩ := hinv2.leader_log i hrole
    obtain ⟨d1, d2, d3⟩ := h
    have htl : (apply n s (Label.append i p)).ghost.tl
        = upd s.ghost.tl (s.nodes i).term (s.ghost.tl (s.nodes i).term ++ [(⟨(s.nodes i).term, p⟩ : Entry)]) := by
      simp only [apply, hlogi]; rfl
    have hacks : (apply n s (Label.append i p)).ghost.acks
        = (i, (s.nodes i).term, (s.ghost.tl (s.nodes i).term ++ [(⟨(s.nodes i).term, p⟩ : Entry)]).length) :: s.ghost.acks := by
      simp only [apply, hlogi]
    have hnodes : ∀ k, k ≠ i → (apply n s (Label.append i p)).nodes k = s.nodes k := by
      intro k hk; simp only [apply, setNode_nodes, hk, if_false]
    have hnodei : (apply n s (Label.append i p)).nodes i
        = { (s.nodes i) with log := s.ghost.tl (s.nodes i).term ++ [(⟨(s.nodes i).term, p⟩ : Entry)] } := by
      simp only [apply, setNode_nodes, if_true, hlogi]
    have hmono : ∀ t k, Committed n s t k → Committed n (apply n s (Label.append i p)) t k := by
      intro t k hc
      apply committed_mono n s _ _ _ t k hc
      · intro t k hk
        rw [htl]
        refine ⟨take_upd_extend _ _ _ _ _ hk, ?_⟩
        by_cases ht : t = (s.nodes i).term
        · subst ht; simp [upd]; omega
        · simp only [upd, ht, if_false]; exact hk
      · intro x hx; rw [hacks]; exact List.mem_cons_of_mem _ hx
    refine ⟨?_, ?_, ?_⟩
    · intro v
      by_cases hv : v = i
      · subst hv
        rw [hnodei]
        simp only
        have hd := d1 v
        rw [hlogi] at hd
        refine ⟨by simp; omega, ?_⟩
        intro hne'
        obtain ⟨t, k, c1, c2, c3, c4⟩ := hd.2 hne'
        refine ⟨t, k, hmono t k c1, c2, c3, ?_⟩
        rw [htl, take_upd_extend _ _ _ _ _ (by have := c1.2.1; omega)]
        rw [List.take_append_of_le_length hd.1]; exact c4
      · rw [hnodes v hv]
        refine ⟨(d1 v).1, ?_⟩
        intro hne'
        obtain ⟨t, k, c1, c2, c3, c4⟩ := (d1 v).2 hne'
        refine ⟨t, k, hmono t k c1, c2, c3, ?_⟩
        rw [htl, take_upd_extend _ _ _ _ _ (by have := c1.2.1; omega)]; exact c4
    · intro l t p' pt es lc hm hne'
      obtain ⟨t', k, c1, c2, c3, c4⟩ := d2 l t p' pt es lc hm hne'
      refine ⟨t', k, hmono t' k c1, c2, c3, ?_⟩
      have hlen : lc ≤ (s.ghost.tl t).length := by
        have := congrArg List.length c4
        have hk2 := c1.2.1
        simp only [List.length_take] at this
        omega
      rw [htl, take_upd_extend _ _ _ _ _ hlen, take_upd_extend _ _ _ _ _ (by have := c1.2.1; omega)]
      exact c4
    · intro j hj
      by_cases hji : j = i
      · subst hji
        rw [hnodei, hacks]
        exact List.mem_cons_self ..
      · rw [hnodes j hji] at hj ⊢
        rw [hacks]; exact List.mem_cons_of_mem _ (d3 j hj)
  | sendAE i prevIdx len lc =>
    simp only [enabled] at hen
    obtain ⟨hi, hrole, hp, hlc⟩ := hen
    obtain ⟨hlogi, hne, Q0, hQ0⟩ := hinv2.leader_log i hrole
    obtain ⟨d1, d2, d3⟩ := h
    refine ⟨d1, ?_, d3⟩
    intro l t p pt es lc' hm hne'
    simp only [apply, List.mem_cons] at hm
    rcases hm with hm | hm
    · injection hm with e1 e2 e3 e4 e5 e6
      subst e1 e2 e3 e4 e5 e6
      have hci : (s.nodes l).commit ≠ 0 := by omega
      obtain ⟨t', k, c1, c2, c3, c4⟩ := (d1 l).2 hci
      refine ⟨t', k, c1, by omega, c3, ?_⟩
      show (s.ghost.tl (s.nodes l).term).take lc' = (s.ghost.tl t').take lc'
      rw [← hlogi]
      have e1 : (s.nodes l).log.take lc' = ((s.nodes l).log.take (s.nodes l).commit).take lc' := by
        rw [List.take_take, Nat.min_eq_left hlc]
      have e2 : (s.ghost.tl t').take lc' = ((s.ghost.tl t').take (s.nodes l).commit).take lc' := by
        rw [List.take_take, Nat.min_eq_left hlc]
      rw [e1, e2, c4]
    · exact d2 l t p pt es lc' hm hne'
  | recvAE j ldr t prevIdx prevTerm es lc stage =>
    simp only [enabled] at hen
    obtain ⟨hj, hm⟩ := hen
    have hmsg := hinv2.msg_ok ldr t prevIdx prevTerm es lc hm
    have hfull := handleAE_full (s.nodes j) t prevIdx prevTerm es lc stage
    simp only at hfull
    have hcm := handleAE_commit (s.nodes j) t prevIdx prevTerm es lc stage
    simp only at hcm
    obtain ⟨hcmF, hcmT⟩ := hcm
    have htl : (apply n s (Label.recvAE j ldr t prevIdx prevTerm es lc stage)).ghost.tl = s.ghost.tl := by
      simp only [apply]; exact ghost_ifa_tl _ _ _
    have hacksub : ∀ x, x ∈ s.ghost.acks →
        x ∈ (apply n s (Label.recvAE j ldr t prevIdx prevTerm es lc stage)).ghost.acks := by
      intro x hx; simp only [apply]; rw [ghost_ifa_acks]; split
      · exact List.mem_cons_of_mem _ hx
      · exact hx
    have hnodes : ∀ k, k ≠ j →
        (apply n s (Label.recvAE j ldr t prevIdx prevTerm es lc stage)).nodes k = s.nodes k := by
      intro k hk; simp only [apply, setNode_nodes, hk, if_false]
    have hnodej : (apply n s (Label.recvAE j ldr t prevIdx prevTerm es lc stage)).nodes j
        = (handleAE (s.nodes j) t prevIdx prevTerm es lc stage).1 := by
      simp only [apply, setNode_nodes, if_true]
    have hnet : ∀ l' t' p' pt' es' lc', Msg.ae l' t' p' pt' es' lc' ∈
        (apply n s (Label.recvAE j ldr t prevIdx prevTerm es lc stage)).net →
        Msg.ae l' t' p' pt' es' lc' ∈ s.net := by
      intro l' t' p' pt' es' lc' hm'
      simp only [apply] at hm'
      split at hm'
      · rcases List.mem_cons.mp hm' with h | h
        · cases h
        · exact h
      · exact hm'
    have hmono : ∀ u k, Committed n s u k →
        Committed n (apply n s (Label.recvAE j ldr t prevIdx prevTerm es lc stage)) u k := by
      intro u k hc
      apply committed_mono n s _ _ hacksub u k hc
      intro u' k' hk'; rw [htl]; exact ⟨rfl, hk'⟩
    -- everything except node j's commit bookkeeping
    have hrest : ∀ (hj_ok : ((handleAE (s.nodes j) t prevIdx prevTerm es lc stage).1.commit
          ≤ (handleAE (s.nodes j) t prevIdx prevTerm es lc stage).1.log.length ∧
        ((handleAE (s.nodes j) t prevIdx prevTerm es lc stage).1.commit ≠ 0 → ∃ u k,
          Committed n s u k ∧ (handleAE (s.nodes j) t prevIdx prevTerm es lc stage).1.commit ≤ k ∧
          u ≤ (handleAE (s.nodes j) t prevIdx prevTerm es lc stage).1.term ∧
          (handleAE (s.nodes j) t prevIdx prevTerm es lc stage).1.log.take
              (handleAE (s.nodes j) t prevIdx prevTerm es lc stage).1.commit
            = (s.ghost.tl u).take (handleAE (s.nodes j) t prevIdx prevTerm es lc stage).1.commit)))
        (hrole_ok : (handleAE (s.nodes j) t prevIdx prevTerm es lc stage).1.role = .leader →
          (handleAE (s.nodes j) t prevIdx prevTerm es lc stage).1 = s.nodes j),
        Inv5 n (apply n s (Label.recvAE j ldr t prevIdx prevTerm es lc stage)) := by
      intro hj_ok hrole_ok
      obtain ⟨d1, d2, d3⟩ := h
      refine ⟨?_, ?_, ?_⟩
      · intro v
        by_cases hv : v = j
        · subst hv
          rw [hnodej]
          refine ⟨hj_ok.1, ?_⟩
          intro hne'
          obtain ⟨u, k, c1, c2, c3, c4⟩ := hj_ok.2 hne'
          exact ⟨u, k, hmono u k c1, c2, c3, by rw [htl]; exact c4⟩
        · rw [hnodes v hv]
          refine ⟨(d1 v).1, ?_⟩
          intro hne'
          obtain ⟨u, k, c1, c2, c3, c4⟩ := (d1 v).2 hne'
          exact ⟨u, k, hmono u k c1, c2, c3, by rw [htl]; exact c4⟩
      · intro l' t' p' pt' es' lc' hm' hne'
        obtain ⟨u, k, c1, c2, c3, c4⟩ := d2 l' t' p' pt' es' lc' (hnet _ _ _ _ _ _ hm') hne'
        exact ⟨u, k, hmono u k c1, c2, c3, by rw [htl]; exact c4⟩
      · intro i hi
        by_cases hij : i = j
        · subst hij
          rw [hnodej] at hi ⊢
          have := hrole_ok hi
          rw [this] at hi ⊢
          exact hacksub _ (d3 i hi)
        · rw [hnodes i hij] at hi ⊢
          exact hacksub _ (d3 i hi)
    have hd1 := h.commit_ok j
    rcases hfull with ⟨hsame, hr2⟩ | ⟨frole, fterm, fle, hcases⟩
    · apply hrest
      · rw [hsame]
        refine ⟨hd1.1, ?_⟩
        intro hne'
        obtain ⟨u, k, c1, c2, c3, c4⟩ := hd1.2 hne'
        exact ⟨u, k, c1, c2, c3, c4⟩
      · intro _; exact hsame
    · have hrole_ok : (handleAE (s.nodes j) t prevIdx prevTerm es lc stage).1.role = .leader →
          (handleAE (s.nodes j) t prevIdx prevTerm es lc stage).1 = s.nodes j := by
        intro hl; rw [frole] at hl; cases hl
      rcases hcases with ⟨hr2, hlogsame⟩ | ⟨hchk, hcase⟩
      · -- check failed: log unchanged, commit unchanged or reset
        apply hrest _ hrole_ok
        rcases hcmF hr2 with ⟨hc1, _⟩ | hc0
        · rw [hc1, hlogsame, fterm]
          refine ⟨hd1.1, ?_⟩
          intro hne'
          obtain ⟨u, k, c1, c2, c3, c4⟩ := hd1.2 hne'
          exact ⟨u, k, c1, c2, by omega, c4⟩
        · rw [hc0]; exact ⟨Nat.zero_le _, fun hne' => absurd rfl hne'⟩
      · have hpL : prevIdx ≤ (s.nodes j).log.length := by
          rcases hchk with h0 | ⟨h1, _⟩
          · omega
          · exact h1
        have hpre : (s.nodes j).log.take prevIdx = (s.ghost.tl t).take prevIdx := by
          cases prevIdx with
          | zero => simp
          | succ k =>
            rcases hchk with h0 | ⟨h1, h2⟩
            · omega
            · have hkL : k < (s.nodes j).log.length := by omega
              have hkT : k < (s.ghost.tl t).length := by have := hmsg.len; omega
              have e1 := termAt_succ (s.nodes j).log k hkL
              have e2 := termAt_succ (s.ghost.tl t) k hkT
              have e3 := hmsg.pterm
              exact prefixOK_agree _ _ _ (hinv2.log_ok j) (hinv2.tl_ok t) k hkL hkT (by rw [← e1, h2, e3, e2])
        have hagree : ∀ idx (h1 : idx < (s.nodes j).log.length) (h2 : idx < (s.ghost.tl t).length),
            (s.nodes j).log[idx].term = (s.ghost.tl t)[idx].term →
            (s.nodes j).log.take (idx + 1) = (s.ghost.tl t).take (idx + 1) :=
          fun idx h1 h2 ht => prefixOK_agree _ _ _ (hinv2.log_ok j) (hinv2.tl_ok t) idx h1 h2 ht
        rcases hcase with ⟨hr2, hlogt⟩ | ⟨hr2, hlogm⟩
        · -- crash after truncation: commit index is volatile and gone, or nothing changed
          apply hrest _ hrole_ok
          rcases hcmF hr2 with ⟨hc1, hl1⟩ | hc0
          · rw [hc1, hl1, fterm]
            refine ⟨hd1.1, ?_⟩
            intro hne'
            obtain ⟨u, k, c1, c2, c3, c4⟩ := hd1.2 hne'
            exact ⟨u, k, c1, c2, by omega, c4⟩
          · rw [hc0]; exact ⟨Nat.zero_le _, fun hne' => absurd rfl hne'⟩
        · -- merged: the interesting case
          apply hrest _ hrole_ok
          have hmc := merge_cases2 (s.ghost.tl t) es (s.nodes j).log prevIdx hmsg.seg hmsg.len hpre hpL hagree
          have hcommit := hcmT hr2
          rw [hcommit, hlogm, fterm]
          -- facts about the merged log
          have hLm : ((s.nodes j).log.take prevIdx ++ mergeSuffix ((s.nodes j).log.drop prevIdx) es).take
              (prevIdx + es.length) = (s.ghost.tl t).take (prevIdx + es.length) := by
            rcases hmc with ⟨hres, htk⟩ | ⟨hres, _⟩
            · rw [hres]; exact htk
            · rw [hres, List.take_take, Nat.min_self]
          have hLlen : prevIdx + es.length ≤
              ((s.nodes j).log.take prevIdx ++ mergeSuffix ((s.nodes j).log.drop prevIdx) es).length := by
            have := congrArg List.length hLm
            have hl := hmsg.len
            simp only [List.length_take] at this
            omega
          -- the old commit index survives the merge
          have hold : (s.nodes j).commit ≤
              ((s.nodes j).log.take prevIdx ++ mergeSuffix ((s.nodes j).log.drop prevIdx) es).length ∧
              ∀ u k, Committed n s u k → (s.nodes j).commit ≤ k → u ≤ (s.nodes j).term →
                (s.nodes j).log.take (s.nodes j).commit = (s.ghost.tl u).take (s.nodes j).commit →
                ((s.nodes j).log.take prevIdx ++ mergeSuffix ((s.nodes j).log.drop prevIdx) es).take
                  (s.nodes j).commit = (s.ghost.tl u).take (s.nodes j).commit := by
            rcases hmc with ⟨hres, _⟩ | ⟨hres, q, q1, q2, q3, q4⟩
            · rw [hres]; exact ⟨hd1.1, fun u k _ _ _ h4 => h4⟩
            · rw [hres]
              by_cases hc0 : (s.nodes j).commit = 0
              · rw [hc0]; exact ⟨Nat.zero_le _, fun _ _ _ _ _ _ => by simp⟩
              · obtain ⟨u0, k0, c1, c2, c3, c4⟩ := hd1.2 hc0
                -- the first divergence cannot lie below the commit index
                have hcq : (s.nodes j).commit ≤ q := by
                  by_contra hnot
                  have hqc : q < (s.nodes j).commit := by omega
                  rcases q4 with hlen | ⟨h1, h2, hne'⟩
                  · have := hd1.1; omega
                  · have hk0 := c1.2.1
                    have h3 : q < (s.ghost.tl u0).length := by omega
                    have hLq := getElem_of_take_eq _ _ _ q c4 hqc h1 h3
                    have hTq : (s.ghost.tl t)[q] = (s.ghost.tl u0)[q] := by
                      rcases Nat.lt_or_ge u0 t with hlt | hge
                      · obtain ⟨l', Q', hq'⟩ := hinv2.tl_elected t hmsg.nonempty
                        have hlc := leader_completeness n s hreach t u0 k0 l' Q' c1 hq' hlt
                        exact getElem_of_take_eq _ _ k0 q hlc (by omega) h2 h3
                      · have : u0 = t := by omega
                        subst this; rfl
                    apply hne'
                    rw [hLq, hTq]
                have hlen : (s.nodes j).commit ≤ ((s.ghost.tl t).take (prevIdx + es.length)).length := by
                  have := hmsg.len
                  simp only [List.length_take]; omega
                refine ⟨hlen, ?_⟩
                intro u k _ _ _ h4
                rw [List.take_take, Nat.min_eq_left (by omega)]
                have e1 : (s.ghost.tl t).take (s.nodes j).commit
                    = ((s.ghost.tl t).take q).take (s.nodes j).commit := by
                  rw [List.take_take, Nat.min_eq_left hcq]
                have e2 : (s.nodes j).log.take (s.nodes j).commit
                    = ((s.nodes j).log.take q).take (s.nodes j).commit := by
                  rw [List.take_take, Nat.min_eq_left hcq]
                rw [e1, ← q3, ← e2]; exact h4
          by_cases hle : min lc (prevIdx + es.length) ≤ (s.nodes j).commit
          · rw [Nat.max_eq_left hle]
            refine ⟨hold.1, ?_⟩
            intro hne'
            obtain ⟨u, k, c1, c2, c3, c4⟩ := hd1.2 hne'
            exact ⟨u, k, c1, c2, by omega, hold.2 u k c1 c2 c3 c4⟩
          · have hgt : (s.nodes j).commit < min lc (prevIdx + es.length) := by omega
            rw [Nat.max_eq_right (by omega)]
            have hlc0 : lc ≠ 0 := by
              intro hz; rw [hz] at hgt; simp at hgt
            obtain ⟨u, k, c1, c2, c3, c4⟩ := h.msg_commit ldr t prevIdx prevTerm es lc hm hlc0
            refine ⟨by have := Nat.min_le_right lc (prevIdx + es.length); omega, ?_⟩
            intro _
            refine ⟨u, k, c1, by have := Nat.min_le_left lc (prevIdx + es.length); omega, c3, ?_⟩
            have hm1 : min lc (prevIdx + es.length) ≤ prevIdx + es.length := Nat.min_le_right _ _
            have hm2 : min lc (prevIdx + es.length) ≤ lc := Nat.min_le_left _ _
            have e1 : ((s.nodes j).log.take prevIdx ++ mergeSuffix ((s.nodes j).log.drop prevIdx) es).take
                (min lc (prevIdx + es.length))
                = (((s.nodes j).log.take prevIdx ++ mergeSuffix ((s.nodes j).log.drop prevIdx) es).take
                    (prevIdx + es.length)).take (min lc (prevIdx + es.length)) := by
              rw [List.take_take, Nat.min_eq_left hm1]
            rw [e1, hLm, List.take_take, Nat.min_eq_left hm1]
            have e2 : (s.ghost.tl t).take (min lc (prevIdx + es.length))
                = ((s.ghost.tl t).take lc).take (min lc (prevIdx + es.length)) := by
              rw [List.take_take, Nat.min_eq_left hm2]
            have e3 : (s.ghost.tl u).take (min lc (prevIdx + es.length))
                = ((s.ghost.tl u).take lc).take (min lc (prevIdx + es.length)) := by
              rw [List.take_take, Nat.min_eq_left hm2]
            rw [e2, e3, c4]
  | compact i b =>
    apply inv5_frame n s _ h
    · intro j; simp only [apply, setNode_nodes]; split
      · rename_i hj; subst hj; rfl
      · rfl
    · intro j; left; simp only [apply, setNode_nodes]; split
      · rename_i hj; subst hj; rfl
      · rfl
    · intro j; simp only [apply, setNode_nodes]; split
      · rename_i hj; subst hj; exact Nat.le_refl _
      · exact Nat.le_refl _
    · rfl
    · intro x hx; exact hx
    · intro l t p pt es lc hm; exact hm
    · intro k'; simp only [apply, setNode_nodes]; split
      · rename_i hj; subst hj; intro hc; exact ⟨hc, rfl⟩
      · intro hc; exact ⟨hc, rfl⟩
  | takeSnap i k =>
    apply inv5_frame n s _ h
    · intro j; simp only [apply, setNode_nodes]; split
      · rename_i hj; subst hj; rfl
      · rfl
    · intro j; left; simp only [apply, setNode_nodes]; split
      · rename_i hj; subst hj; rfl
      · rfl
    · intro j; simp only [apply, setNode_nodes]; split
      · rename_i hj; subst hj; exact Nat.le_refl _
      · exact Nat.le_refl _
    · rfl
    · intro x hx; exact hx
    · intro l t p pt es lc hm; exact hm
    · intro k'; simp only [apply, setNode_nodes]; split
      · rename_i hj; subst hj; intro hc; exact ⟨hc, rfl⟩
      · intro hc; exact ⟨hc, rfl⟩
  | sendIS i =>
    apply inv5_frame n s _ h
    · intro j; rfl
    · intro j; left; rfl
    · intro j; exact Nat.le_refl _
    · rfl
    · intro x hx; exact hx
    · intro l t p pt es lc hm
      simp only [apply, List.mem_cons] at hm
      rcases hm with hm | hm
      · cases hm
      · exact hm
    · intro k hc; exact ⟨hc, rfl⟩
  | recvIS j ldr t idx iterm =>
    simp only [enabled] at hen
    obtain ⟨hj, hm⟩ := hen
    obtain ⟨hidx1, hmsg⟩ := (inv2b_reachable n s hreach).is_ok ldr t idx iterm hm
    have hf := handleIS_log (s.nodes j) (s.ghost.tl t) t idx iterm
    simp only at hf
    have hlen : idx ≤ (s.ghost.tl t).length := by have := hmsg.len; simpa using this
    have htl : (apply n s (Label.recvIS j ldr t idx iterm)).ghost.tl = s.ghost.tl := by
      simp only [apply]; exact ghost_ifa_tl _ _ _
    have hacksub : ∀ x, x ∈ s.ghost.acks →
        x ∈ (apply n s (Label.recvIS j ldr t idx iterm)).ghost.acks := by
      intro x hx; simp only [apply]; rw [ghost_ifa_acks]; split
      · exact List.mem_cons_of_mem _ hx
      · exact hx
    have hnodes : ∀ k, k ≠ j → (apply n s (Label.recvIS j ldr t idx iterm)).nodes k = s.nodes k := by
      intro k hk; simp only [apply, setNode_nodes, hk, if_false]
    have hnodej : (apply n s (Label.recvIS j ldr t idx iterm)).nodes j
        = (handleIS (s.nodes j) (s.ghost.tl t) t idx iterm).1 := by
      simp only [apply, setNode_nodes, if_true]
    have hnet : ∀ l' t' p' pt' es' lc', Msg.ae l' t' p' pt' es' lc' ∈
        (apply n s (Label.recvIS j ldr t idx iterm)).net → Msg.ae l' t' p' pt' es' lc' ∈ s.net := by
      intro l' t' p' pt' es' lc' hm'
      simp only [apply] at hm'
      split at hm'
      · rcases List.mem_cons.mp hm' with h | h
        · cases h
        · exact h
      · exact hm'
    have hmono : ∀ u k, Committed n s u k →
        Committed n (apply n s (Label.recvIS j ldr t idx iterm)) u k := by
      intro u k hc
      apply committed_mono n s _ _ hacksub u k hc
      intro u' k' hk'; rw [htl]; exact ⟨rfl, hk'⟩
    obtain ⟨d1, d2, d3⟩ := h
    -- node j's commit bookkeeping after the step
    have hj_ok : (handleIS (s.nodes j) (s.ghost.tl t) t idx iterm).1.commit
          ≤ (handleIS (s.nodes j) (s.ghost.tl t) t idx iterm).1.log.length ∧
        ((handleIS (s.nodes j) (s.ghost.tl t) t idx iterm).1.commit ≠ 0 → ∃ u k,
          Committed n s u k ∧ (handleIS (s.nodes j) (s.ghost.tl t) t idx iterm).1.commit ≤ k ∧
          u ≤ (handleIS (s.nodes j) (s.ghost.tl t) t idx iterm).1.term ∧
          (handleIS (s.nodes j) (s.ghost.tl t) t idx iterm).1.log.take
              (handleIS (s.nodes j) (s.ghost.tl t) t idx iterm).1.commit
            = (s.ghost.tl u).take (handleIS (s.nodes j) (s.ghost.tl t) t idx iterm).1.commit) := by
      rcases hf with ⟨hsame, _⟩ | ⟨_, frole, fterm, fle, fcommit, hl⟩
      · rw [hsame]; exact d1 j
      · rw [fcommit, fterm]
        rcases hl with ⟨_, _, hl⟩ | ⟨hnot, hl⟩
        · rw [hl]
          refine ⟨(d1 j).1, ?_⟩
          intro hne'
          obtain ⟨u, k, c1, c2, c3, c4⟩ := (d1 j).2 hne'
          exact ⟨u, k, c1, c2, by omega, c4⟩
        · rw [hl]
          by_cases hc0 : (s.nodes j).commit = 0
          · rw [hc0]; exact ⟨Nat.zero_le _, fun hne' => absurd rfl hne'⟩
          · obtain ⟨u0, k0, c1, c2, c3, c4⟩ := (d1 j).2 hc0
            -- the sender's log agrees with the committed prefix
            have hTk : (s.ghost.tl t).take k0 = (s.ghost.tl u0).take k0 := by
              rcases Nat.lt_or_ge u0 t with hlt | hge
              · obtain ⟨l', Q', hq'⟩ := hinv2.tl_elected t hmsg.nonempty
                exact leader_completeness n s hreach t u0 k0 l' Q' c1 hq' hlt
              · have : u0 = t := by omega
                subst this; rfl
            have hTc : (s.ghost.tl t).take (s.nodes j).commit = (s.nodes j).log.take (s.nodes j).commit := by
              have := congrArg (List.take (s.nodes j).commit) hTk
              rw [List.take_take, List.take_take, Nat.min_eq_left c2] at this
              rw [this, c4]
            -- the commit index lies below the snapshot index, else the entry would be held
            have hlt : (s.nodes j).commit < idx := by
              by_contra hge
              apply hnot
              have hle : idx ≤ (s.nodes j).commit := by omega
              have heq : (s.nodes j).log.take idx = (s.ghost.tl t).take idx := by
                have := congrArg (List.take idx) hTc
                rw [List.take_take, List.take_take, Nat.min_eq_left hle] at this
                exact this.symm
              have hL : idx ≤ (s.nodes j).log.length := by have := (d1 j).1; omega
              refine ⟨hL, ?_⟩
              obtain ⟨k', rfl⟩ : ∃ k', idx = k' + 1 := ⟨idx - 1, by omega⟩
              rw [termAt_succ _ k' (by omega), hmsg.pterm, termAt_succ _ k' (by omega)]
              rw [getElem_of_take_eq _ _ (k' + 1) k' heq (by omega) (by omega) (by omega)]
            refine ⟨by simp only [List.length_take]; omega, ?_⟩
            intro _
            refine ⟨u0, k0, c1, c2, by omega, ?_⟩
            rw [List.take_take, Nat.min_eq_left (by omega), hTc]; exact c4
    have hrole_ok : (handleIS (s.nodes j) (s.ghost.tl t) t idx iterm).1.role = .leader →
        (handleIS (s.nodes j) (s.ghost.tl t) t idx iterm).1 = s.nodes j := by
      intro hl
      rcases hf with ⟨hsame, _⟩ | ⟨_, frole, _⟩
      · exact hsame
      · rw [frole] at hl; cases hl
    refine ⟨?_, ?_, ?_⟩
    · intro v
      by_cases hv : v = j
      · subst hv
        rw [hnodej]
        refine ⟨hj_ok.1, ?_⟩
        intro hne'
        obtain ⟨u, k, c1, c2, c3, c4⟩ := hj_ok.2 hne'
        exact ⟨u, k, hmono u k c1, c2, c3, by rw [htl]; exact c4⟩
      · rw [hnodes v hv]
        refine ⟨(d1 v).1, ?_⟩
        intro hne'
        obtain ⟨u, k, c1, c2, c3, c4⟩ := (d1 v).2 hne'
        exact ⟨u, k, hmono u k c1, c2, c3, by rw [htl]; exact c4⟩
    · intro l' t' p' pt' es' lc' hm' hne'
      obtain ⟨u, k, c1, c2, c3, c4⟩ := d2 l' t' p' pt' es' lc' (hnet _ _ _ _ _ _ hm') hne'
      exact ⟨u, k, hmono u k c1, c2, c3, by rw [htl]; exact c4⟩
    · intro i hi
      by_cases hij : i = j
      · subst hij
        rw [hnodej] at hi ⊢
        have := hrole_ok hi
        rw [this] at hi ⊢
        exact hacksub _ (d3 i hi)
      · rw [hnodes i hij] at hi ⊢
        exact hacksub _ (d3 i hi)
  | fsmApply i =>
    rcases fsmApply_cases n s i with heq | ⟨e, _, heq⟩
    · rw [heq]; exact h
    · rw [heq]
      apply inv5_frame n s _ h
      · intro j; simp only [setNode_nodes]; split
        · rename_i hj; subst hj; rfl
        · rfl
      · intro j; left; simp only [setNode_nodes]; split
        · rename_i hj; subst hj; rfl
        · rfl
      · intro j; simp only [setNode_nodes]; split
        · rename_i hj; subst hj; exact Nat.le_refl _
        · exact Nat.le_refl _
      · rfl
      · intro x hx; exact hx
      · intro l t p pt es lc hm; exact hm
      · intro k'; simp only [setNode_nodes]; split
        · rename_i hj; subst hj; intro hc; exact ⟨hc, rfl⟩
        · intro hc; exact ⟨hc, rfl⟩
  | fsmRestore i =>
    apply inv5_frame n s _ h
    · intro j; simp only [apply, setNode_nodes]; split
      · rename_i hj; subst hj; rfl
      · rfl
    · intro j; left; simp only [apply, setNode_nodes]; split
      · rename_i hj; subst hj; rfl
      · rfl
    · intro j; simp only [apply, setNode_nodes]; split
      · rename_i hj; subst hj; exact Nat.le_refl _
      · exact Nat.le_refl _
    · rfl
    · intro x hx; exact hx
    · intro l t p pt es lc hm; exact hm
    · intro k'; simp only [apply, setNode_nodes]; split
      · rename_i hj; subst hj; intro hc; exact ⟨hc, rfl⟩
      · intro hc; exact ⟨hc, rfl⟩
  | advanceCommit i k Q =>
    simp only [enabled] at hen
    obtain ⟨hi, hrole, hQ1, hQ2, hQ3, hk1, hk2, hk3, hk4⟩ := hen
    obtain ⟨hlogi, hne, Q0, hQ0⟩ := hinv2.leader_log i hrole
    obtain ⟨d1, d2, d3⟩ := h
    have hcom : Committed n s (s.nodes i).term k := by
      refine ⟨hk1, by rw [← hlogi]; exact hk2, by rw [← hlogi]; exact hk3, Q, hQ1, hQ2, ?_⟩
      intro v hv
      obtain ⟨hvn, hv'⟩ := hQ3 v hv
      refine ⟨hvn, ?_⟩
      rcases hv' with rfl | ⟨k', hk', hm⟩
      · exact ⟨(s.nodes v).log.length, hk2, d3 v hrole⟩
      · exact ⟨k', hk', hinv3.resp_ack v i _ k' hm⟩
    have hnodes : ∀ j, j ≠ i → (apply n s (Label.advanceCommit i k Q)).nodes j = s.nodes j := by
      intro j hj; simp only [apply, setNode_nodes, hj, if_false]
    have hnodei : (apply n s (Label.advanceCommit i k Q)).nodes i = { (s.nodes i) with commit := k } := by
      simp only [apply, setNode_nodes, if_true]
    refine ⟨?_, d2, ?_⟩
    · intro v
      by_cases hv : v = i
      · subst hv
        rw [hnodei]
        simp only
        refine ⟨hk2, fun _ => ⟨(s.nodes v).term, k, hcom, Nat.le_refl _, Nat.le_refl _, by rw [hlogi]; rfl⟩⟩
      · rw [hnodes v hv]; exact d1 v
    · intro j hj
      by_cases hji : j = i
      · subst hji
        rw [hnodei] at hj ⊢
        exact d3 j hj
      · rw [hnodes j hji] at hj ⊢; exact d3 j hj


theorem inv5_reachable (n : Nat) (s : Sys) (h : Reachable n s) : Inv5 n s := by
  induction h with
  | init => exact inv5_init n
  | step hr hs ih => exact inv5_step n _ _ hr ih hs

/-- **State-machine safety.**  Whatever two servers regard as committed is the same: for every index
    `c` up to both commit indexes the two logs agree through `c` — for every cluster size and every
    execution (any interleaving, duplication, reordering and unbounded delay of messages, crashes
    between any two durable writes, any `nextIndex` and any stale commit index a leader may send). -/
theorem state_machine_safety (n : Nat) (s : Sys) (h : Reachable n s) (v v' c : Nat)
    (hv : c ≤ (s.nodes v).commit) (hv' : c ≤ (s.nodes v').commit) :
    (s.nodes v).log.take c = (s.nodes v').log.take c := by
  by_cases hc0 : c = 0
  · subst hc0; simp
  have i2 := inv2_reachable n s h
  have i5 := inv5_reachable n s h
  obtain ⟨t1, k1, a1, a2, a3, a4⟩ := (i5.commit_ok v).2 (by omega)
  obtain ⟨t2, k2, b1, b2, b3, b4⟩ := (i5.commit_ok v').2 (by omega)
  have e1 : (s.nodes v).log.take c = (s.ghost.tl t1).take c := by
    have := congrArg (List.take c) a4
    rwa [List.take_take, List.take_take, Nat.min_eq_left hv] at this
  have e2 : (s.nodes v').log.take c = (s.ghost.tl t2).take c := by
    have := congrArg (List.take c) b4
    rwa [List.take_take, List.take_take, Nat.min_eq_left hv'] at this
  rw [e1, e2]
  have key : ∀ ta ka tb kb, Committed n s ta ka → Committed n s tb kb → c ≤ ka → ta < tb →
      (s.ghost.tl ta).take c = (s.ghost.tl tb).take c := by
    intro ta ka tb kb ca cb hca hlt
    have hne : s.ghost.tl tb ≠ [] := by
      intro hnil; have := cb.2.1; have := cb.1; rw [hnil] at *; simp at *; omega
    obtain ⟨l', Q', hq'⟩ := i2.tl_elected tb hne
    have hlc := leader_completeness n s h tb ta ka l' Q' ca hq' hlt
    have := congrArg (List.take c) hlc
    rw [List.take_take, List.take_take, Nat.min_eq_left hca] at this
    exact this.symm
  rcases Nat.lt_trichotomy t1 t2 with hlt | heq | hgt
  · exact key t1 k1 t2 k2 a1 b1 (by omega) hlt
  · rw [heq]
  · exact (key t2 k2 t1 k1 b1 a1 (by omega) hgt).symm

end RP
