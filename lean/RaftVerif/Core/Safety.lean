import RaftVerif.Core.Shape

/-! probe: leader completeness and state-machine safety -/
namespace RP

/-- in a take-equal pair, positions below k hold equal entries -/
theorem no_conflict_of_take_eq (tl : Nat → List Entry) (w t k : Nat)
    (h : (tl w).take k = (tl t).take k) : ¬ Conflict tl w t k := by
  rintro ⟨q, hq, h1, h2, hne⟩
  exact hne (getElem_of_take_eq (tl w) (tl t) k q h hq h1 h2)

theorem termAt_pos (L : List Entry) (k : Nat) (hk1 : 1 ≤ k) (hk : k ≤ L.length) :
    ∃ (h : k - 1 < L.length), termAt L k = L[k - 1].term := by
  cases k with
  | zero => omega
  | succ k' =>
    refine ⟨by omega, ?_⟩
    simp only [Nat.add_sub_cancel]
    exact termAt_succ L k' (by omega)

/-- **Leader completeness.**  If an entry of term `t` at index `k` has been acknowledged by a strict
    majority in term `t`, then every server that wins a later term holds the same log through `k`. -/
theorem leader_completeness (n : Nat) (s : Sys) (hreach : Reachable n s) :
    ∀ u t k l Q, Committed n s t k → (u, l, Q) ∈ s.ghost.elected → t < u →
      (s.ghost.tl u).take k = (s.ghost.tl t).take k := by
  have i1 := inv_reachable n s hreach
  have i2 := inv2_reachable n s hreach
  have i3 := inv3_reachable n s hreach
  have i4 := inv4_reachable n s hreach
  intro u
  induction u using Nat.strong_induction_on with
  | _ u ih =>
    intro t k l Q hcom hel htu
    obtain ⟨hk1, hk2, hkt, Qc, hQc1, hQc2, hQc3⟩ := hcom
    obtain ⟨hQ1, hQ2, hQ3⟩ := i1.elected_ok u l Q hel
    -- a voter in both quorums
    obtain ⟨v, hvc, hvq⟩ := quorums_intersect n Qc Q hQc1 hQ1 (fun x hx => (hQc3 x hx).1)
      (fun x hx => (hQ2 x hx).1) hQc2 hQ3
    obtain ⟨_, kv, hkv, hack⟩ := hQc3 v hvc
    obtain ⟨Lg, hgl⟩ := i4.elected_glog u l Q hel v hvq
    -- what the voter's log looked like when it granted its vote
    have hLg : Lg.take k = (s.ghost.tl t).take k := by
      rcases i3.glog_retain v u l Lg true hgl t kv hack htu k hkv with hl | ⟨w, w1, w2, w3, w4, w5⟩
      · exact hl
      · exfalso
        have hwu : w < u := by
          rcases Nat.lt_or_ge w u with h | h
          · exact h
          · have : w = u := by omega
            have := w3 this; cases this
        obtain ⟨l', Q', hq'⟩ := w4
        have := ih w hwu t k l' Q' ⟨hk1, hk2, hkt, Qc, hQc1, hQc2, hQc3⟩ hq' w1
        exact no_conflict_of_take_eq _ _ _ _ this w5
    have hLglen : k ≤ Lg.length := by
      have := congrArg List.length hLg
      simp only [List.length_take] at this
      omega
    obtain ⟨hk1', hTt⟩ := termAt_pos (s.ghost.tl t) k hk1 hk2
    have hLgk : Lg[k - 1].term = t := by
      have := getElem_of_take_eq Lg (s.ghost.tl t) k (k - 1) hLg (by omega) (by omega) hk1'
      rw [this, ← hTt, hkt]
    obtain ⟨hmono, li, lt, hreq, hchk1, hchk2⟩ := i3.glog_check v u l Lg true hgl
    have hlastLg : t ≤ lastTerm Lg := by
      have := lastTerm_ge Lg hmono (k - 1) (by omega)
      omega
    -- the winner's log when it asked for votes
    obtain ⟨C, hC1, hC2, hC3⟩ := i4.tl_shape u l Q hel
    obtain ⟨e1, e2⟩ := i3.req_unique l u li lt C.length (lastTerm C) hreq hC2
    subst e1 e2
    have hClen : C.length + 1 ≤ (s.ghost.tl u).length := by
      have := congrArg List.length hC1
      simp only [List.length_take, List.length_append, List.length_cons, List.length_nil] at this
      omega
    have hCpre : (s.ghost.tl u).take C.length = C := by
      have : ((s.ghost.tl u).take (C.length + 1)).take C.length = (C ++ [(⟨u, 0⟩ : Entry)]).take C.length := by
        rw [hC1]
      rw [List.take_take, Nat.min_eq_left (by omega)] at this
      rw [this]; simp
    -- C is non-empty
    have hCne : 0 < C.length := by
      by_contra hz
      have hz' : C = [] := by
        cases C with
        | nil => rfl
        | cons _ _ => simp at hz
      subst hz'
      simp only [lastTerm, List.getLast?_nil, List.length_nil] at hchk1 hchk2
      have : lastTerm Lg = 0 := by omega
      apply hchk2
      exact ⟨this, by omega⟩
    -- the last entry of C and its term x
    have hCl : C.length - 1 < C.length := by omega
    have hx : lastTerm C = C[C.length - 1].term := lastTerm_eq_getElem C hCne
    have hCu : C.length - 1 < (s.ghost.tl u).length := by omega
    have hCget : (s.ghost.tl u)[C.length - 1] = C[C.length - 1] := by
      have h1 : ((s.ghost.tl u).take C.length)[C.length - 1]'(by simp; omega) = (s.ghost.tl u)[C.length - 1] := by
        simp
      rw [← h1]
      congr 1
    -- C is a prefix of the term log of x
    have hCx : C = (s.ghost.tl (lastTerm C)).take C.length := by
      have := i2.tl_ok u (C.length - 1) hCu
      rw [hCget, ← hx] at this
      have e : C.length - 1 + 1 = C.length := by omega
      rw [e] at this
      rw [← this]; exact hCpre.symm
    have hxlen : C.length ≤ (s.ghost.tl (lastTerm C)).length := by
      have := congrArg List.length hCx
      simp only [List.length_take] at this
      omega
    have hxu : lastTerm C < u := by
      rw [hx]; exact hC3 _ (List.getElem_mem hCl)
    -- the key fact: C agrees with tl t through k, and is at least that long
    have hgoal : k ≤ C.length ∧ C.take k = (s.ghost.tl t).take k := by
      rcases Nat.lt_or_ge t (lastTerm C) with hlt | hge
      · -- the winner's last term x lies strictly between t and u: induction hypothesis for x
        have hxne : s.ghost.tl (lastTerm C) ≠ [] := by
          intro hnil; rw [hnil] at hxlen; simp only [List.length_nil] at hxlen; omega
        obtain ⟨l', Q', hq'⟩ := i2.tl_elected _ hxne
        have hih := ih (lastTerm C) hxu t k l' Q' ⟨hk1, hk2, hkt, Qc, hQc1, hQc2, hQc3⟩ hq' hlt
        have hkx : k ≤ (s.ghost.tl (lastTerm C)).length := by
          have := congrArg List.length hih
          simp only [List.length_take] at this
          omega
        have hkC : k ≤ C.length := by
          by_contra hnot
          have hpos : C.length - 1 < k := by omega
          have h1 : C.length - 1 < (s.ghost.tl (lastTerm C)).length := by omega
          have h2 : C.length - 1 < (s.ghost.tl t).length := by omega
          have hEq := getElem_of_take_eq _ _ k (C.length - 1) hih hpos h1 h2
          have hCe : C[C.length - 1] = (s.ghost.tl (lastTerm C))[C.length - 1] := by
            have h3 : ((s.ghost.tl (lastTerm C)).take C.length)[C.length - 1]'(by simp; omega)
                = (s.ghost.tl (lastTerm C))[C.length - 1] := by simp
            rw [← h3]
            congr 1
          have hle := i3.et_tl t _ (List.getElem_mem h2)
          have hterm_eq : C[C.length - 1].term = (s.ghost.tl t)[C.length - 1].term := by
            rw [hCe, hEq]
          omega
        refine ⟨hkC, ?_⟩
        rw [hCx, List.take_take, Nat.min_eq_left hkC]; exact hih
      · -- the winner's last term is t itself: it must be at least as long as the voter's log
        have hxt : lastTerm C = t := by omega
        have hLt : lastTerm Lg = lastTerm C := by omega
        have hlen : Lg.length ≤ C.length := by
          by_contra hnot
          exact hchk2 ⟨hLt, by omega⟩
        have hkC : k ≤ C.length := by omega
        refine ⟨hkC, ?_⟩
        rw [hCx, List.take_take, Nat.min_eq_left hkC, hxt]
    obtain ⟨hkC, hCk⟩ := hgoal
    have : (s.ghost.tl u).take k = ((s.ghost.tl u).take C.length).take k := by
      rw [List.take_take, Nat.min_eq_left hkC]
    rw [this, hCpre]; exact hCk

end RP
