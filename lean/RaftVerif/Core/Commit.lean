import RaftVerif.Core.Snap1
import RaftVerif.Core.Lists2

/-! probe: acknowledgements, grant-time logs, retention invariants -/
namespace RP

def Elected (s : Sys) (w : Nat) : Prop := ∃ l Q, (w, l, Q) ∈ s.ghost.elected

/-- `tl w` contradicts `tl t` at some position below `k` that both contain -/
def Conflict (tl : Nat → List Entry) (w t k : Nat) : Prop :=
  ∃ q, q < k ∧ ∃ (_ : q < (tl w).length) (_ : q < (tl t).length), (tl w)[q] ≠ (tl t)[q]

def TermsMono (L : List Entry) : Prop :=
  ∀ a b (_ : a < L.length) (hb : b < L.length), a ≤ b → L[a].term ≤ L[b].term

/-- acknowledged by a strict majority in term `t`, and the entry at `k` is of term `t` -/
def Committed (n : Nat) (s : Sys) (t k : Nat) : Prop :=
  1 ≤ k ∧ k ≤ (s.ghost.tl t).length ∧ termAt (s.ghost.tl t) k = t ∧
  ∃ Q : List Nat, Q.Nodup ∧ quorum n ≤ Q.length ∧
    ∀ v ∈ Q, v < n ∧ ∃ k', k ≤ k' ∧ (v, t, k') ∈ s.ghost.acks

structure Inv3 (n : Nat) (s : Sys) : Prop where
  et_log : ∀ v, ∀ e ∈ (s.nodes v).log, e.term ≤ (s.nodes v).term
  et_tl : ∀ t, ∀ e ∈ s.ghost.tl t, e.term ≤ t
  tn_log : ∀ v, TermsMono (s.nodes v).log
  tn_tl : ∀ t, TermsMono (s.ghost.tl t)
  ack_ok : ∀ v t k, (v, t, k) ∈ s.ghost.acks → t ≤ (s.nodes v).term ∧ k ≤ (s.ghost.tl t).length
  retain : ∀ v t k, (v, t, k) ∈ s.ghost.acks → ∀ k', k' ≤ k →
      (s.nodes v).log.take k' = (s.ghost.tl t).take k' ∨
      ∃ w, t < w ∧ w ≤ (s.nodes v).term ∧ Elected s w ∧ Conflict s.ghost.tl w t k'
  resp_ack : ∀ v l t k, Msg.aeResp v l t k ∈ s.net → (v, t, k) ∈ s.ghost.acks
  glog_term : ∀ v u c Lg f, (v, u, c, Lg, f) ∈ s.ghost.glogs → u ≤ (s.nodes v).term
  glog_of_grant : ∀ v u c, (v, u, c) ∈ s.ghost.grants → ∃ Lg f, (v, u, c, Lg, f) ∈ s.ghost.glogs
  glog_flag : ∀ v u c Lg, (v, u, c, Lg, false) ∈ s.ghost.glogs → Elected s u
  glog_check : ∀ v u c Lg f, (v, u, c, Lg, f) ∈ s.ghost.glogs → TermsMono Lg ∧
      ∃ li lt, Msg.voteReq c u li lt ∈ s.net ∧ ¬ (lt < lastTerm Lg) ∧ ¬ (lastTerm Lg = lt ∧ li < Lg.length)
  glog_retain : ∀ v u c Lg f, (v, u, c, Lg, f) ∈ s.ghost.glogs →
      ∀ t k, (v, t, k) ∈ s.ghost.acks → t < u → ∀ k', k' ≤ k →
      Lg.take k' = (s.ghost.tl t).take k' ∨
      ∃ w, t < w ∧ w ≤ u ∧ (w = u → f = false) ∧ Elected s w ∧ Conflict s.ghost.tl w t k'
  req_term : ∀ c u li lt, Msg.voteReq c u li lt ∈ s.net → u ≤ (s.nodes c).term
  req_unique : ∀ c u li lt li' lt', Msg.voteReq c u li lt ∈ s.net → Msg.voteReq c u li' lt' ∈ s.net →
      li = li' ∧ lt = lt'
  req_cand : ∀ c u li lt, Msg.voteReq c u li lt ∈ s.net → (s.nodes c).role = .candidate →
      (s.nodes c).term = u → li = (s.nodes c).log.length ∧ lt = lastTerm (s.nodes c).log

/-! generic lemmas -/

theorem termsMono_take (L : List Entry) (m : Nat) (h : TermsMono L) : TermsMono (L.take m) := by
  intro a b ha hb hab
  have ha' : a < L.length := by simp at ha; omega
  have hb' : b < L.length := by simp at hb; omega
  have := h a b ha' hb' hab
  simpa using this

theorem termsMono_append_one (L : List Entry) (e : Entry) (h : TermsMono L)
    (hle : ∀ x ∈ L, x.term ≤ e.term) : TermsMono (L ++ [e]) := by
  intro a b ha hb hab
  by_cases hbL : b < L.length
  · have haL : a < L.length := by omega
    rw [List.getElem_append_left haL, List.getElem_append_left hbL]
    exact h a b haL hbL hab
  · have hbeq : b = L.length := by simp at hb; omega
    have e2 : (L ++ [e])[b] = e := by
      subst hbeq; simp
    rw [e2]
    by_cases haL : a < L.length
    · rw [List.getElem_append_left haL]
      exact hle _ (List.getElem_mem haL)
    · have haeq : a = L.length := by omega
      have e1 : (L ++ [e])[a] = e := by subst haeq; simp
      rw [e1]

/-- extending a term log at its end does not create or remove conflicts -/
theorem conflict_upd_extend (tl : Nat → List Entry) (t0 : Nat) (x : List Entry) (w t k : Nat)
    (h : Conflict tl w t k) : Conflict (upd tl t0 (tl t0 ++ x)) w t k := by
  obtain ⟨q, hq, h1, h2, hne⟩ := h
  have key : ∀ u (hu : q < (tl u).length),
      ∃ (hu' : q < (upd tl t0 (tl t0 ++ x) u).length), (upd tl t0 (tl t0 ++ x) u)[q] = (tl u)[q] := by
    intro u hu
    by_cases hut : u = t0
    · subst hut
      have e : upd tl u (tl u ++ x) u = tl u ++ x := by simp [upd]
      refine ⟨by rw [e]; simp; omega, ?_⟩
      simp only [e]
      exact List.getElem_append_left hu
    · have e : upd tl t0 (tl t0 ++ x) u = tl u := by simp [upd, hut]
      refine ⟨by rw [e]; exact hu, ?_⟩
      simp only [e]
  obtain ⟨h1', e1⟩ := key w h1
  obtain ⟨h2', e2⟩ := key t h2
  exact ⟨q, hq, h1', h2', by rw [e1, e2]; exact hne⟩

theorem take_upd_extend (tl : Nat → List Entry) (t0 : Nat) (x : List Entry) (t k : Nat)
    (hk : k ≤ (tl t).length) : (upd tl t0 (tl t0 ++ x) t).take k = (tl t).take k := by
  by_cases hut : t = t0
  · subst hut
    have e : upd tl t (tl t ++ x) t = tl t ++ x := by simp [upd]
    rw [e, List.take_append_of_le_length hk]
  · have e : upd tl t0 (tl t0 ++ x) t = tl t := by simp [upd, hut]
    rw [e]

theorem lastTerm_eq_getElem (L : List Entry) (h : 0 < L.length) :
    lastTerm L = L[L.length - 1].term := by
  simp only [lastTerm]
  rw [List.getLast?_eq_getElem?]
  have : L.length - 1 < L.length := by omega
  simp [List.getElem?_eq_getElem this]

theorem lastTerm_ge (L : List Entry) (h : TermsMono L) (k : Nat) (hk : k < L.length) :
    L[k].term ≤ lastTerm L := by
  rw [lastTerm_eq_getElem L (by omega)]
  exact h k (L.length - 1) hk (by omega) (by omega)


/-- replacing the term log of a term that is neither `w` nor `t` does not affect conflicts between them -/
theorem conflict_upd_other (tl : Nat → List Entry) (t0 : Nat) (x : List Entry) (w t k : Nat)
    (hw : w ≠ t0) (ht : t ≠ t0) (h : Conflict tl w t k) : Conflict (upd tl t0 x) w t k := by
  obtain ⟨q, hq, h1, h2, hne⟩ := h
  have e1 : upd tl t0 x w = tl w := by simp [upd, hw]
  have e2 : upd tl t0 x t = tl t := by simp [upd, ht]
  refine ⟨q, hq, by rw [e1]; exact h1, by rw [e2]; exact h2, ?_⟩
  simp only [e1, e2]; exact hne

/-- when a candidate wins term `t`, nobody had won `t` before and the term log of `t` is still empty -/
theorem win_fresh (n : Nat) (s : Sys) (hreach : Reachable n s) (i v t : Nat)
    (hen : enabled n s (Label.voteResp i v t))
    (hwon : quorum n ≤ (if v ∈ (s.nodes i).tally then (s.nodes i).tally else v :: (s.nodes i).tally).length) :
    (∀ l Q, (t, l, Q) ∉ s.ghost.elected) ∧ s.ghost.tl t = [] := by
  have hinv2 := inv2_reachable n s hreach
  have hreach' : Reachable n (apply n s (Label.voteResp i v t)) :=
    Reachable.step hreach ⟨_, hen, rfl⟩
  simp only [enabled] at hen
  obtain ⟨hi, hv, hm, hc, ht⟩ := hen
  have hnone : ∀ l Q, (t, l, Q) ∉ s.ghost.elected := by
    intro l Q hq
    have hpost : ∃ Q', (t, i, Q') ∈ (apply n s (Label.voteResp i v t)).ghost.elected := by
      simp only [apply, hwon, decide_true, if_true]
      exact ⟨_, List.mem_cons_self ..⟩
    obtain ⟨Q', hq'⟩ := hpost
    have hq2 : (t, l, Q) ∈ (apply n s (Label.voteResp i v t)).ghost.elected := by
      simp only [apply, hwon, decide_true, if_true]
      exact List.mem_cons_of_mem _ hq
    have hli : l = i := election_safety n _ hreach' t l i Q Q' hq2 hq'
    subst hli
    rw [← ht] at hq
    exact hinv2.elected_role l Q hq hc
  refine ⟨hnone, ?_⟩
  by_contra hne
  obtain ⟨l, Q, hq⟩ := hinv2.tl_elected t hne
  exact hnone l Q hq


theorem getElem_of_take_eq (L T0 : List Entry) (k' q : Nat) (hl : L.take k' = T0.take k')
    (hq : q < k') (h1 : q < L.length) (h2 : q < T0.length) : L[q] = T0[q] := by
  have e1 : (L.take k')[q]'(by simp; omega) = L[q] := by simp
  have e2 : (T0.take k')[q]'(by simp; omega) = T0[q] := by simp
  rw [← e1, ← e2]
  congr 1

/-- what an acknowledged prefix looks like after the follower's log went through a merge or a
    truncation against the leader log `T` -/
theorem retain_shape (L L' T T0 : List Entry) (k' m : Nat) (hk : k' ≤ T0.length)
    (hl : L.take k' = T0.take k')
    (hshape : L' = L ∨
      (∃ q, L' = L.take q ∧ L.take q = T.take q ∧
        ∃ (h1 : q < L.length) (h2 : q < T.length), L[q].term ≠ T[q].term) ∨
      (L' = T.take m ∧ ∃ q, q < m ∧ L.take q = T.take q ∧
        (L.length ≤ q ∨ ∃ (h1 : q < L.length) (h2 : q < T.length), L[q].term ≠ T[q].term))) :
    L'.take k' = T0.take k' ∨
    ∃ q, q < k' ∧ ∃ (h1 : q < T.length) (h2 : q < T0.length), T[q] ≠ T0[q] := by
  have hLlen : k' ≤ L.length := by
    have := congrArg List.length hl
    simp only [List.length_take] at this
    omega
  -- a conflict position below k' yields the right disjunct
  have hconf : ∀ q, q < k' → ∀ (h1 : q < L.length) (h2 : q < T.length), L[q].term ≠ T[q].term →
      ∃ q, q < k' ∧ ∃ (h1 : q < T.length) (h2 : q < T0.length), T[q] ≠ T0[q] := by
    intro q hq h1 h2 hne
    have h3 : q < T0.length := by omega
    refine ⟨q, hq, h2, h3, ?_⟩
    have := getElem_of_take_eq L T0 k' q hl hq h1 h3
    intro heq
    apply hne
    rw [this, heq]
  rcases hshape with h | ⟨q, h, hq1, h1, h2, hne⟩ | ⟨h, q, hqm, hq1, hq2⟩
  · left; rw [h]; exact hl
  · by_cases hkq : k' ≤ q
    · left
      rw [h, List.take_take, Nat.min_eq_left hkq]; exact hl
    · right; exact hconf q (by omega) h1 h2 hne
  · by_cases hkq : k' ≤ q
    · left
      rw [h, List.take_take, Nat.min_eq_left (by omega)]
      have e1 : T.take k' = (T.take q).take k' := by rw [List.take_take, Nat.min_eq_left hkq]
      have e2 : L.take k' = (L.take q).take k' := by rw [List.take_take, Nat.min_eq_left hkq]
      rw [e1, ← hq1, ← e2]; exact hl
    · right
      rcases hq2 with hq2 | ⟨h1, h2, hne⟩
      · omega
      · exact hconf q (by omega) h1 h2 hne

end RP
