import RaftVerif.Core.Model
import RaftVerif.Core.Quorum

/-! probe: election safety for the votes-only cluster model -/
namespace RP

structure Inv (n : Nat) (s : Sys) : Prop where
  voteTerm_le : ∀ j, (s.nodes j).voteTerm ≤ (s.nodes j).term
  grant_rec : ∀ v t c, (v, t, c) ∈ s.ghost.grants →
      t ≤ (s.nodes v).voteTerm ∧ ((s.nodes v).voteTerm = t → (s.nodes v).voteCand = some c)
  grant_unique : ∀ v t c c', (v, t, c) ∈ s.ghost.grants → (v, t, c') ∈ s.ghost.grants → c = c'
  resp_grant : ∀ v c t, Msg.voteResp v c t true ∈ s.net → (v, t, c) ∈ s.ghost.grants
  tally_ok : ∀ i, (∀ v ∈ (s.nodes i).tally, (v, (s.nodes i).term, i) ∈ s.ghost.grants ∧ v < n)
      ∧ (s.nodes i).tally.Nodup
  elected_ok : ∀ t l Q, (t, l, Q) ∈ s.ghost.elected →
      Q.Nodup ∧ (∀ v ∈ Q, v < n ∧ (v, t, l) ∈ s.ghost.grants) ∧ quorum n ≤ Q.length

theorem inv_init (n : Nat) : Inv n init := by
  constructor <;> simp [init]

/-- facts about the vote handler used below -/
theorem handleVote_facts (nd : Node) (c t li lt stage : Nat) (h : nd.voteTerm ≤ nd.term) :
    let r := handleVote nd c t li lt stage
    r.1.voteTerm ≤ r.1.term ∧ nd.voteTerm ≤ r.1.voteTerm ∧ nd.term ≤ r.1.term ∧
    (r.1.voteTerm = nd.voteTerm → r.2 = false → r.1.voteCand = nd.voteCand) ∧
    (r.2 = true → r.1.voteTerm = t ∧ r.1.voteCand = some c) ∧
    (r.1.voteTerm ≠ nd.voteTerm → r.1.voteTerm = t ∧ nd.voteTerm < t) ∧
    (r.1.voteTerm = nd.voteTerm → r.1.voteCand ≠ nd.voteCand → nd.voteCand = none) ∧
    (r.2 = true → nd.voteTerm = t → nd.voteCand.isSome → nd.voteCand = some c) ∧
    (r.2 = true → nd.term ≤ t) ∧
    ((r.1.tally = nd.tally ∧ r.1.term = nd.term) ∨ r.1.tally = []) := by
  simp only [handleVote]
  by_cases h1 : t < nd.term
  · simp [h1, h]
  · simp only [h1, if_false]
    have ht : nd.term ≤ t := Nat.le_of_not_lt h1
    by_cases h2 : nd.term < t
    · simp only [h2, if_true]
      split
      · simp_all <;> omega
      · split
        · simp_all <;> omega
        · split
          · rename_i hd; simp_all <;> omega
          · split <;> simp_all <;> omega
    · simp only [h2, if_false]
      have : nd.term = t := by omega
      split
      · simp_all
      · split
        · simp_all
        · split
          · rename_i hd; simp_all
          · split <;> simp_all <;> omega

@[simp] theorem setNode_nodes (s : Sys) (i : Nat) (nd : Node) (j : Nat) :
    (setNode s i nd).nodes j = if j = i then nd else s.nodes j := rfl
@[simp] theorem setNode_net (s : Sys) (i : Nat) (nd : Node) : (setNode s i nd).net = s.net := rfl
@[simp] theorem setNode_ghost (s : Sys) (i : Nat) (nd : Node) : (setNode s i nd).ghost = s.ghost := rfl

/-- an FSM apply step either does nothing (no entry to read) or bumps `applied` and records the entry -/
theorem fsmApply_cases (n : Nat) (s : Sys) (i : Nat) :
    apply n s (Label.fsmApply i) = s ∨
    ∃ e, (s.nodes i).log[(s.nodes i).applied]? = some e ∧ apply n s (Label.fsmApply i) =
      { (setNode s i { (s.nodes i) with applied := (s.nodes i).applied + 1 }) with
        ghost := { s.ghost with fsmApplied := (i, (s.nodes i).applied + 1, e) :: s.ghost.fsmApplied } } := by
  simp only [apply]
  split
  · rename_i e he; right; exact ⟨e, he, rfl⟩
  · left; rfl

theorem handleAE_facts (nd : Node) (t prevIdx prevTerm : Nat) (es : List Entry) (lc stage : Nat) :
    let r := handleAE nd t prevIdx prevTerm es lc stage
    r.1.voteTerm = nd.voteTerm ∧ r.1.voteCand = nd.voteCand ∧ nd.term ≤ r.1.term ∧
    ((r.1.tally = nd.tally ∧ r.1.term = nd.term) ∨ r.1.tally = []) := by
  simp only [handleAE]
  by_cases h1 : t < nd.term
  · simp [h1]
  · simp only [h1, if_false]
    by_cases h2 : nd.term < t ∨ nd.role ≠ .follower
    · simp only [h2, if_true]
      split
      · simp; omega
      · split
        · simp; omega
        · split <;> (simp; omega)
    · simp only [h2, if_false]
      split
      · simp
      · split
        · simp
        · split <;> simp

theorem handleIS_facts (nd : Node) (T : List Entry) (t idx iterm : Nat) :
    let r := handleIS nd T t idx iterm
    r.1.voteTerm = nd.voteTerm ∧ r.1.voteCand = nd.voteCand ∧ nd.term ≤ r.1.term ∧
    ((r.1.tally = nd.tally ∧ r.1.term = nd.term) ∨ r.1.tally = []) := by
  simp only [handleIS]
  by_cases h1 : t < nd.term
  · simp [h1]
  · simp only [h1, if_false]
    by_cases h2 : nd.term < t ∨ nd.role ≠ .follower
    · simp only [h2, if_true]
      split <;> (simp; omega)
    · simp only [h2, if_false]
      split <;> simp

theorem inv_step (n : Nat) (s s' : Sys) (hinv : Inv n s) (hstep : Step n s s') : Inv n s' := by
  obtain ⟨l, hen, rfl⟩ := hstep
  obtain ⟨h1, h2, h3, h4, h5, h6⟩ := hinv
  cases l with
  | timeout i =>
    simp only [enabled] at hen
    simp only [apply]
    refine ⟨?_, ?_, ?_, ?_, ?_, ?_⟩
    · intro j; simp only [setNode_nodes]; split
      · simp
      · exact h1 j
    · intro v t c hg
      simp only [List.mem_cons, Prod.mk.injEq] at hg
      simp only [setNode_nodes]
      rcases hg with ⟨rfl, rfl, rfl⟩ | hg
      · simp
      · have := h2 v t c hg
        split
        · rename_i hvi; subst hvi
          have := h1 v
          constructor
          · simp; omega
          · intro heq; simp at heq; omega
        · exact this
    · intro v t c c' hg hg'
      simp only [List.mem_cons, Prod.mk.injEq] at hg hg'
      rcases hg with ⟨hv, ht, hc⟩ | hg <;> rcases hg' with ⟨hv', ht', hc'⟩ | hg'
      · rw [hc, hc']
      · subst hv ht; have := (h2 _ _ _ hg').1; have := h1 v; omega
      · subst hv' ht'; have := (h2 _ _ _ hg).1; have := h1 v; omega
      · exact h3 v t c c' hg hg'
    · intro v c t hm
      simp only [List.mem_cons] at hm
      rcases hm with hm | hm
      · cases hm
      · exact List.mem_cons_of_mem _ (h4 v c t hm)
    · intro j
      simp only [setNode_nodes]
      split
      · rename_i hji; subst hji
        simp only [List.mem_singleton, List.nodup_cons, List.not_mem_nil, not_false_eq_true,
          List.nodup_nil, and_self, and_true]
        intro v hv; subst hv
        exact ⟨List.mem_cons_self .., hen⟩
      · have := h5 j
        exact ⟨fun v hv => ⟨List.mem_cons_of_mem _ (this.1 v hv).1, (this.1 v hv).2⟩, this.2⟩
    · intro t l Q hq
      have := h6 t l Q hq
      exact ⟨this.1, fun v hv => ⟨(this.2.1 v hv).1, List.mem_cons_of_mem _ (this.2.1 v hv).2⟩, this.2.2⟩
  | timeoutCrash i k =>
    simp only [enabled] at hen
    simp only [apply]
    refine ⟨?_, ?_, h3, h4, ?_, h6⟩
    · intro j; simp only [setNode_nodes]; split
      · have := h1 i; split <;> simp <;> omega
      · exact h1 j
    · intro v t c hg
      have := h2 v t c hg
      simp only [setNode_nodes]
      split
      · rename_i hvi; subst hvi
        have h1v := h1 v
        split
        · exact this
        · constructor
          · simp; omega
          · intro heq; simp at heq; omega
      · exact this
    · intro j
      simp only [setNode_nodes]
      split
      · simp
      · exact h5 j
  | voteReq j c t li lt stage =>
    simp only [enabled] at hen
    simp only [apply]
    have hf := handleVote_facts (s.nodes j) c t li lt stage (h1 j)
    simp only at hf
    obtain ⟨f1, f2, f3, f4, f5, f6, f7, f8, f9, f10⟩ := hf
    obtain ⟨hj, hm⟩ := hen
    -- grants only grow
    have hsub : ∀ x, x ∈ s.ghost.grants → x ∈
        (if (handleVote (s.nodes j) c t li lt stage).2 = true then
          ({ s.ghost with grants := (j, t, c) :: s.ghost.grants, glogs := (j, t, c, (handleVote (s.nodes j) c t li lt stage).1.log, decide (∀ x ∈ s.ghost.elected, x.1 ≠ t)) :: s.ghost.glogs } : Ghost) else s.ghost).grants := by
      intro x hx; split
      · exact List.mem_cons_of_mem _ hx
      · exact hx
    have hnew : ∀ x, x ∈
        (if (handleVote (s.nodes j) c t li lt stage).2 = true then
          ({ s.ghost with grants := (j, t, c) :: s.ghost.grants, glogs := (j, t, c, (handleVote (s.nodes j) c t li lt stage).1.log, decide (∀ x ∈ s.ghost.elected, x.1 ≠ t)) :: s.ghost.glogs } : Ghost) else s.ghost).grants →
        x ∈ s.ghost.grants ∨ ((handleVote (s.nodes j) c t li lt stage).2 = true ∧ x = (j, t, c)) := by
      intro x hx; split at hx
      · rename_i hr
        rcases List.mem_cons.mp hx with h | h
        · exact Or.inr ⟨hr, h⟩
        · exact Or.inl h
      · exact Or.inl hx
    have hel : (if (handleVote (s.nodes j) c t li lt stage).2 = true then
          ({ s.ghost with grants := (j, t, c) :: s.ghost.grants, glogs := (j, t, c, (handleVote (s.nodes j) c t li lt stage).1.log, decide (∀ x ∈ s.ghost.elected, x.1 ≠ t)) :: s.ghost.glogs } : Ghost) else s.ghost).elected
          = s.ghost.elected := by split <;> rfl
    refine ⟨?_, ?_, ?_, ?_, ?_, ?_⟩
    · intro k; simp only [setNode_nodes]; split
      · exact f1
      · exact h1 k
    · intro v t' c' hg
      simp only [setNode_nodes]
      rcases hnew _ hg with ha | ⟨hr, hx⟩
      · have pre := h2 v t' c' ha
        split
        · rename_i hvj; subst hvj
          refine ⟨by omega, ?_⟩
          intro heq
          have hsame : (handleVote (s.nodes v) c t li lt stage).1.voteTerm = (s.nodes v).voteTerm := by omega
          have hc := pre.2 (by omega)
          by_contra hne
          have := f7 hsame (by rw [hc]; exact hne)
          rw [hc] at this; cases this
        · exact pre
      · simp only [Prod.mk.injEq] at hx
        obtain ⟨rfl, rfl, rfl⟩ := hx
        simp only [if_true]
        have := f5 hr
        exact ⟨by omega, fun _ => this.2⟩
    · intro v t' c1 c2 hg1 hg2
      rcases hnew _ hg1 with ha | ⟨hr, hx1⟩ <;> rcases hnew _ hg2 with hb | ⟨hr', hx2⟩
      · exact h3 v t' c1 c2 ha hb
      · simp only [Prod.mk.injEq] at hx2
        obtain ⟨e1, e2, e3⟩ := hx2
        subst e1 e2 e3
        have pre := h2 _ _ _ ha
        have hle := f9 hr'
        have h1v := h1 v
        have hvt : (s.nodes v).voteTerm = t' := by omega
        have hc := pre.2 hvt
        have := f8 hr' hvt (by rw [hc]; rfl)
        rw [hc] at this; exact Option.some.inj this
      · simp only [Prod.mk.injEq] at hx1
        obtain ⟨e1, e2, e3⟩ := hx1
        subst e1 e2 e3
        have pre := h2 _ _ _ hb
        have hle := f9 hr
        have h1v := h1 v
        have hvt : (s.nodes v).voteTerm = t' := by omega
        have hc := pre.2 hvt
        have := f8 hr hvt (by rw [hc]; rfl)
        rw [hc] at this; exact (Option.some.inj this).symm
      · simp only [Prod.mk.injEq] at hx1 hx2
        rw [hx1.2.2, hx2.2.2]
    · intro v c' t' hm'
      simp only [List.mem_cons] at hm'
      rcases hm' with hm' | hm'
      · injection hm' with e1 e2 e3 e4
        subst e1 e2 e3
        have : (handleVote (s.nodes v) c' t' li lt stage).2 = true := e4.symm
        simp only [this, if_true]
        exact List.mem_cons_self ..
      · exact hsub _ (h4 v c' t' hm')
    · intro k
      simp only [setNode_nodes]
      split
      · rename_i hkj; subst hkj
        have pre := h5 k
        rcases f10 with ⟨ht1, ht2⟩ | ht1
        · rw [ht1, ht2]
          exact ⟨fun v hv => ⟨hsub _ (pre.1 v hv).1, (pre.1 v hv).2⟩, pre.2⟩
        · rw [ht1]; simp
      · have pre := h5 k
        exact ⟨fun v hv => ⟨hsub _ (pre.1 v hv).1, (pre.1 v hv).2⟩, pre.2⟩
    · intro t' l Q hq
      rw [hel] at hq
      have := h6 t' l Q hq
      exact ⟨this.1, fun v hv => ⟨(this.2.1 v hv).1, hsub _ (this.2.1 v hv).2⟩, this.2.2⟩
  | voteResp i v t =>
    simp only [enabled] at hen
    obtain ⟨hi, hv, hm, hc, ht⟩ := hen
    have hg := h4 v i t hm
    have pre := h5 i
    have htl : (∀ x ∈ (if v ∈ (s.nodes i).tally then (s.nodes i).tally else v :: (s.nodes i).tally),
        (x, t, i) ∈ s.ghost.grants ∧ x < n) ∧
        (if v ∈ (s.nodes i).tally then (s.nodes i).tally else v :: (s.nodes i).tally).Nodup := by
      split
      · rw [← ht]; exact pre
      · rename_i hnm
        refine ⟨?_, List.nodup_cons.mpr ⟨hnm, pre.2⟩⟩
        intro x hx
        rcases List.mem_cons.mp hx with rfl | hx
        · exact ⟨hg, hv⟩
        · rw [← ht]; exact pre.1 x hx
    simp only [apply]
    generalize (if v ∈ (s.nodes i).tally then (s.nodes i).tally else v :: (s.nodes i).tally) = tl at htl ⊢
    by_cases hwon : quorum n ≤ tl.length
    · simp only [hwon, decide_true, if_true]
      refine ⟨?_, ?_, h3, h4, ?_, ?_⟩
      · intro k; simp only [setNode_nodes]; split
        · exact h1 i
        · exact h1 k
      · intro v' t' c' hg'
        have := h2 v' t' c' hg'
        simp only [setNode_nodes]; split
        · rename_i h; subst h; exact this
        · exact this
      · intro k
        simp only [setNode_nodes]; split
        · rename_i hk; subst hk; simp only; rw [ht]; exact htl
        · exact h5 k
      · intro t' l Q hq
        rcases List.mem_cons.mp hq with heq | hq
        · simp only [Prod.mk.injEq] at heq
          obtain ⟨e1, e2, e3⟩ := heq
          subst e1 e2 e3
          exact ⟨htl.2, fun x hx => ⟨(htl.1 x hx).2, (htl.1 x hx).1⟩, hwon⟩
        · exact h6 t' l Q hq
    · simp only [hwon, decide_false, if_false, Bool.false_eq_true]
      refine ⟨?_, ?_, h3, h4, ?_, h6⟩
      · intro k; simp only [setNode_nodes]; split
        · exact h1 i
        · exact h1 k
      · intro v' t' c' hg'
        have := h2 v' t' c' hg'
        simp only [setNode_nodes]; split
        · rename_i h; subst h; exact this
        · exact this
      · intro k
        simp only [setNode_nodes]; split
        · rename_i hk; subst hk; simp only; rw [ht]; exact htl
        · exact h5 k
  | append i p =>
    simp only [apply]
    refine ⟨?_, ?_, h3, h4, ?_, h6⟩
    · intro k; simp only [setNode_nodes]; split
      · exact h1 i
      · exact h1 k
    · intro v t c hg
      have := h2 v t c hg
      simp only [setNode_nodes]; split
      · rename_i h; subst h; exact this
      · exact this
    · intro k
      simp only [setNode_nodes]; split
      · rename_i h; subst h; exact h5 k
      · exact h5 k
  | sendAE i prevIdx len lc =>
    simp only [apply]
    refine ⟨h1, h2, h3, ?_, h5, h6⟩
    intro v c t hm
    simp only [List.mem_cons] at hm
    rcases hm with hm | hm
    · cases hm
    · exact h4 v c t hm
  | recvAE j ldr t prevIdx prevTerm es lc stage =>
    simp only [apply]
    have hf := handleAE_facts (s.nodes j) t prevIdx prevTerm es lc stage
    simp only at hf
    obtain ⟨f1, f2, f3, f4⟩ := hf
    have hgr : (if (handleAE (s.nodes j) t prevIdx prevTerm es lc stage).2 = true then
        ({ s.ghost with acks := (j, t, prevIdx + es.length) :: s.ghost.acks } : Ghost) else s.ghost).grants
        = s.ghost.grants := by split <;> rfl
    have hel : (if (handleAE (s.nodes j) t prevIdx prevTerm es lc stage).2 = true then
        ({ s.ghost with acks := (j, t, prevIdx + es.length) :: s.ghost.acks } : Ghost) else s.ghost).elected
        = s.ghost.elected := by split <;> rfl
    refine ⟨?_, ?_, ?_, ?_, ?_, ?_⟩
    · intro k; simp only [setNode_nodes]; split
      · rw [f1]; have := h1 j; omega
      · exact h1 k
    · intro v t' c hg
      rw [hgr] at hg
      have := h2 v t' c hg
      simp only [setNode_nodes]; split
      · rename_i h; subst h; rw [f1, f2]; exact this
      · exact this
    · intro v t' c c' hg hg'; rw [hgr] at hg hg'; exact h3 v t' c c' hg hg'
    · intro v c t' hm
      rw [hgr]
      apply h4 v c t'
      split at hm
      · rcases List.mem_cons.mp hm with hm | hm
        · cases hm
        · exact hm
      · exact hm
    · intro k
      rw [hgr]
      simp only [setNode_nodes]; split
      · rename_i h; subst h
        have pre := h5 k
        rcases f4 with ⟨g1, g2⟩ | g1
        · rw [g1, g2]; exact pre
        · rw [g1]; simp
      · exact h5 k
    · intro t' l Q hq
      rw [hel] at hq; rw [hgr]
      exact h6 t' l Q hq
  | advanceCommit i k Q =>
    simp only [apply]
    refine ⟨?_, ?_, h3, h4, ?_, h6⟩
    · intro j; simp only [setNode_nodes]; split
      · exact h1 i
      · exact h1 j
    · intro v t c hg
      have := h2 v t c hg
      simp only [setNode_nodes]; split
      · rename_i h; subst h; exact this
      · exact this
    · intro j
      simp only [setNode_nodes]; split
      · rename_i h; subst h; exact h5 j
      · exact h5 j
  | compact i b =>
    simp only [apply]
    refine ⟨?_, ?_, h3, h4, ?_, h6⟩
    · intro j; simp only [setNode_nodes]; split
      · exact h1 i
      · exact h1 j
    · intro v t c hg
      have := h2 v t c hg
      simp only [setNode_nodes]; split
      · rename_i h; subst h; exact this
      · exact this
    · intro j
      simp only [setNode_nodes]; split
      · rename_i h; subst h; exact h5 j
      · exact h5 j
  | takeSnap i k =>
    simp only [apply]
    refine ⟨?_, ?_, h3, h4, ?_, h6⟩
    · intro j; simp only [setNode_nodes]; split
      · exact h1 i
      · exact h1 j
    · intro v t c hg
      have := h2 v t c hg
      simp only [setNode_nodes]; split
      · rename_i h; subst h; exact this
      · exact this
    · intro j
      simp only [setNode_nodes]; split
      · rename_i h; subst h; exact h5 j
      · exact h5 j
  | sendIS i =>
    simp only [apply]
    refine ⟨h1, h2, h3, ?_, h5, h6⟩
    intro v c t hm
    simp only [List.mem_cons] at hm
    rcases hm with hm | hm
    · cases hm
    · exact h4 v c t hm
  | recvIS j ldr t idx iterm =>
    simp only [apply]
    have hf := handleIS_facts (s.nodes j) (s.ghost.tl t) t idx iterm
    simp only at hf
    obtain ⟨f1, f2, f3, f4⟩ := hf
    have hgr : (if (handleIS (s.nodes j) (s.ghost.tl t) t idx iterm).2 = true then
        ({ s.ghost with acks := (j, t, idx) :: s.ghost.acks } : Ghost) else s.ghost).grants
        = s.ghost.grants := by split <;> rfl
    have hel : (if (handleIS (s.nodes j) (s.ghost.tl t) t idx iterm).2 = true then
        ({ s.ghost with acks := (j, t, idx) :: s.ghost.acks } : Ghost) else s.ghost).elected
        = s.ghost.elected := by split <;> rfl
    refine ⟨?_, ?_, ?_, ?_, ?_, ?_⟩
    · intro k; simp only [setNode_nodes]; split
      · rw [f1]; have := h1 j; omega
      · exact h1 k
    · intro v t' c hg
      rw [hgr] at hg
      have := h2 v t' c hg
      simp only [setNode_nodes]; split
      · rename_i h; subst h; rw [f1, f2]; exact this
      · exact this
    · intro v t' c c' hg hg'; rw [hgr] at hg hg'; exact h3 v t' c c' hg hg'
    · intro v c t' hm
      rw [hgr]
      apply h4 v c t'
      split at hm
      · rcases List.mem_cons.mp hm with hm | hm
        · cases hm
        · exact hm
      · exact hm
    · intro k
      rw [hgr]
      simp only [setNode_nodes]; split
      · rename_i h; subst h
        have pre := h5 k
        rcases f4 with ⟨g1, g2⟩ | g1
        · rw [g1, g2]; exact pre
        · rw [g1]; simp
      · exact h5 k
    · intro t' l Q hq
      rw [hel] at hq; rw [hgr]
      exact h6 t' l Q hq
  | fsmApply i =>
    rcases fsmApply_cases n s i with heq | ⟨e, _, heq⟩
    · rw [heq]; exact ⟨h1, h2, h3, h4, h5, h6⟩
    · rw [heq]
      refine ⟨?_, ?_, h3, h4, ?_, h6⟩
      · intro j; simp only [setNode_nodes]; split
        · exact h1 i
        · exact h1 j
      · intro v t c hg
        have := h2 v t c hg
        simp only [setNode_nodes]; split
        · rename_i h; subst h; exact this
        · exact this
      · intro j
        simp only [setNode_nodes]; split
        · rename_i h; subst h; exact h5 j
        · exact h5 j
  | fsmRestore i =>
    simp only [apply]
    refine ⟨?_, ?_, h3, h4, ?_, h6⟩
    · intro j; simp only [setNode_nodes]; split
      · exact h1 i
      · exact h1 j
    · intro v t c hg
      have := h2 v t c hg
      simp only [setNode_nodes]; split
      · rename_i h; subst h; exact this
      · exact this
    · intro j
      simp only [setNode_nodes]; split
      · rename_i h; subst h; exact h5 j
      · exact h5 j
  | crash i =>
    simp only [apply]
    refine ⟨?_, ?_, h3, h4, ?_, h6⟩
    · intro j; simp only [setNode_nodes]; split
      · exact h1 i
      · exact h1 j
    · intro v t c hg
      have := h2 v t c hg
      simp only [setNode_nodes]
      split
      · rename_i hvi; subst hvi; exact this
      · exact this
    · intro j
      simp only [setNode_nodes]
      split
      · simp
      · exact h5 j
  | dup m =>
    simp only [enabled] at hen
    simp only [apply]
    refine ⟨h1, h2, h3, ?_, h5, h6⟩
    intro v c t hm
    simp only [List.mem_cons] at hm
    rcases hm with hm | hm
    · subst hm; exact h4 v c t hen
    · exact h4 v c t hm


theorem inv_reachable (n : Nat) (s : Sys) (h : Reachable n s) : Inv n s := by
  induction h with
  | init => exact inv_init n
  | step _ hs ih => exact inv_step n _ _ ih hs

/-- Election safety: at most one winner per term, for every cluster size, every schedule,
    every duplication/reordering/loss of messages, every crash (including between the
    individual durable writes of a vote). -/
theorem election_safety (n : Nat) (s : Sys) (h : Reachable n s)
    (t l l' : Nat) (Q Q' : List Nat)
    (h1 : (t, l, Q) ∈ s.ghost.elected) (h2 : (t, l', Q') ∈ s.ghost.elected) : l = l' := by
  have inv := inv_reachable n s h
  obtain ⟨q1, q2, q3⟩ := inv.elected_ok t l Q h1
  obtain ⟨p1, p2, p3⟩ := inv.elected_ok t l' Q' h2
  obtain ⟨v, hv, hv'⟩ := quorums_intersect n Q Q' q1 p1 (fun x hx => (q2 x hx).1)
    (fun x hx => (p2 x hx).1) q3 p3
  exact inv.grant_unique v t l l' (q2 v hv).2 (p2 v hv').2

end RP
