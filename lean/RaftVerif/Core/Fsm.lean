import RaftVerif.Core.Snap2

/-! # The state-machine streams

`fsmApply` / `fsmRestore` are the FSM goroutine's two operations: apply the next entry below the
commit index, or replace the state by the snapshot.  Ghost lists record every operation of every
lifetime of every server.  `fsm_safety` is C02 over those streams: every entry ever handed to any
state machine is *the* committed entry of its index, every restored state is a committed prefix, so
no two state machines (or two lifetimes of one) ever disagree on an index. -/

namespace RP

/-- term logs only grow and acknowledgements only accumulate -/
theorem step_mono (n : Nat) (s s' : Sys) (hreach : Reachable n s) (hs : Step n s s') :
    (∀ t k, k ≤ (s.ghost.tl t).length →
        (s'.ghost.tl t).take k = (s.ghost.tl t).take k ∧ k ≤ (s'.ghost.tl t).length) ∧
    (∀ x, x ∈ s.ghost.acks → x ∈ s'.ghost.acks) := by
  obtain ⟨l, hen, rfl⟩ := hs
  have hinv2 := inv2_reachable n s hreach
  have triv : ∀ s' : Sys, s'.ghost.tl = s.ghost.tl → (∀ x, x ∈ s.ghost.acks → x ∈ s'.ghost.acks) →
      (∀ t k, k ≤ (s.ghost.tl t).length →
        (s'.ghost.tl t).take k = (s.ghost.tl t).take k ∧ k ≤ (s'.ghost.tl t).length) ∧
      (∀ x, x ∈ s.ghost.acks → x ∈ s'.ghost.acks) := by
    intro s' h1 h2
    exact ⟨fun t k hk => by rw [h1]; exact ⟨rfl, hk⟩, h2⟩
  cases l with
  | timeout i => exact triv _ rfl (fun x hx => hx)
  | timeoutCrash i k => exact triv _ rfl (fun x hx => hx)
  | voteReq j c t li lt stage =>
    apply triv
    · simp only [apply]; split <;> rfl
    · intro x hx; simp only [apply]; split <;> exact hx
  | voteResp i v t =>
    have hen0 := hen
    by_cases hwon : quorum n ≤
        (if v ∈ (s.nodes i).tally then (s.nodes i).tally else v :: (s.nodes i).tally).length
    · obtain ⟨_, htlnil⟩ := win_fresh n s hreach i v t hen0 hwon
      have htl : (apply n s (Label.voteResp i v t)).ghost.tl
          = upd s.ghost.tl t ((s.nodes i).log ++ [(⟨t, 0⟩ : Entry)]) := by
        simp only [apply, hwon, decide_true, if_true]; rfl
      have hacks : (apply n s (Label.voteResp i v t)).ghost.acks
          = (i, t, ((s.nodes i).log ++ [(⟨t, 0⟩ : Entry)]).length) :: s.ghost.acks := by
        simp only [apply, hwon, decide_true, if_true]
      refine ⟨?_, ?_⟩
      · intro u' k' hk'
        rw [htl]
        by_cases hu : u' = t
        · subst hu; rw [htlnil] at hk'
          have : k' = 0 := by simpa using hk'
          subst this; simp
        · have : upd s.ghost.tl t ((s.nodes i).log ++ [(⟨t, 0⟩ : Entry)]) u' = s.ghost.tl u' := by
            simp [upd, hu]
          rw [this]; exact ⟨rfl, hk'⟩
      · intro x hx; rw [hacks]; exact List.mem_cons_of_mem _ hx
    · apply triv
      · simp only [apply, hwon, decide_false]; rfl
      · intro x hx; simp only [apply, hwon, decide_false]; exact hx
  | crash i => exact triv _ rfl (fun x hx => hx)
  | dup m => exact triv _ rfl (fun x hx => hx)
  | append i p =>
    simp only [enabled] at hen
    obtain ⟨hi, hrole⟩ := hen
    obtain ⟨hlogi, _, _⟩ := hinv2.leader_log i hrole
    have htl : (apply n s (Label.append i p)).ghost.tl
        = upd s.ghost.tl (s.nodes i).term (s.ghost.tl (s.nodes i).term ++ [(⟨(s.nodes i).term, p⟩ : Entry)]) := by
      simp only [apply, hlogi]; rfl
    refine ⟨?_, ?_⟩
    · intro t k hk
      rw [htl]
      refine ⟨take_upd_extend _ _ _ _ _ hk, ?_⟩
      by_cases ht : t = (s.nodes i).term
      · subst ht; simp [upd]; omega
      · simp only [upd, ht, if_false]; exact hk
    · intro x hx; simp only [apply]; exact List.mem_cons_of_mem _ hx
  | sendAE i prevIdx len lc => exact triv _ rfl (fun x hx => hx)
  | recvAE j ldr t prevIdx prevTerm es lc stage =>
    apply triv
    · simp only [apply]; split <;> rfl
    · intro x hx; simp only [apply]; split
      · exact List.mem_cons_of_mem _ hx
      · exact hx
  | advanceCommit i k Q => exact triv _ rfl (fun x hx => hx)
  | compact i b => exact triv _ rfl (fun x hx => hx)
  | takeSnap i k => exact triv _ rfl (fun x hx => hx)
  | sendIS i => exact triv _ rfl (fun x hx => hx)
  | recvIS j ldr t idx iterm =>
    apply triv
    · simp only [apply]; split <;> rfl
    · intro x hx; simp only [apply]; split
      · exact List.mem_cons_of_mem _ hx
      · exact hx
  | fsmApply i =>
    rcases fsmApply_cases n s i with heq | ⟨e, _, heq⟩
    · rw [heq]; exact triv _ rfl (fun x hx => hx)
    · rw [heq]; exact triv _ rfl (fun x hx => hx)
  | fsmRestore i => exact triv _ rfl (fun x hx => hx)

structure Inv7 (n : Nat) (s : Sys) : Prop where
  app_ok : ∀ v i e, (v, i, e) ∈ s.ghost.fsmApplied →
      ∃ t k, Committed n s t k ∧ 1 ≤ i ∧ i ≤ k ∧ (s.ghost.tl t)[i - 1]? = some e
  rst_ok : ∀ v i L, (v, i, L) ∈ s.ghost.fsmRestored →
      ∃ t k, Committed n s t k ∧ 1 ≤ i ∧ i ≤ k ∧ L = (s.ghost.tl t).take i

theorem inv7_init (n : Nat) : Inv7 n init := by
  refine ⟨?_, ?_⟩ <;> simp [init]

/-- the prefix a server may hand to its state machine lies on a committed term log -/
theorem reached_committed (n : Nat) (s : Sys) (h : Reachable n s) (w c : Nat) (hc0 : c ≠ 0)
    (hw : c ≤ max (s.nodes w).commit (s.nodes w).snapIdx) :
    ∃ t k, Committed n s t k ∧ c ≤ k ∧ (s.nodes w).log.take c = (s.ghost.tl t).take c := by
  have i5 := inv5_reachable n s h
  have i6 := inv6_reachable n s h
  by_cases hcm : c ≤ (s.nodes w).commit
  · obtain ⟨t, k, a1, a2, _, a4⟩ := (i5.commit_ok w).2 (by omega)
    refine ⟨t, k, a1, by omega, ?_⟩
    have := congrArg (List.take c) a4
    rwa [List.take_take, List.take_take, Nat.min_eq_left hcm] at this
  · have hsn : c ≤ (s.nodes w).snapIdx := by omega
    obtain ⟨_, _, g3⟩ := i6.snap_ok w
    obtain ⟨_, t, k, a1, a2, _, a4⟩ := g3 (by omega)
    refine ⟨t, k, a1, by omega, ?_⟩
    have := congrArg (List.take c) a4
    rwa [List.take_take, List.take_take, Nat.min_eq_left hsn] at this

theorem getElem?_of_take_eq (A B : List Entry) (c i : Nat) (hi : i < c) (h : A.take c = B.take c) :
    A[i]? = B[i]? := by
  have := congrArg (fun l => l[i]?) h
  simpa [List.getElem?_take_of_lt hi] using this

theorem inv7_step (n : Nat) (s s' : Sys) (hreach : Reachable n s) (h : Inv7 n s) (hs : Step n s s') :
    Inv7 n s' := by
  obtain ⟨hmtl, hmacks⟩ := step_mono n s s' hreach hs
  have hmono : ∀ t k, Committed n s t k → Committed n s' t k :=
    fun t k hc => committed_mono n s s' hmtl hmacks t k hc
  -- old records stay justified
  have hold_app : ∀ v i e, (v, i, e) ∈ s.ghost.fsmApplied →
      ∃ t k, Committed n s' t k ∧ 1 ≤ i ∧ i ≤ k ∧ (s'.ghost.tl t)[i - 1]? = some e := by
    intro v i e hm
    obtain ⟨t, k, c1, c2, c3, c4⟩ := h.app_ok v i e hm
    refine ⟨t, k, hmono t k c1, c2, c3, ?_⟩
    have hk := c1.2.1
    have := (hmtl t k hk).1
    rw [getElem?_of_take_eq _ _ k (i - 1) (by omega) this]; exact c4
  have hold_rst : ∀ v i L, (v, i, L) ∈ s.ghost.fsmRestored →
      ∃ t k, Committed n s' t k ∧ 1 ≤ i ∧ i ≤ k ∧ L = (s'.ghost.tl t).take i := by
    intro v i L hm
    obtain ⟨t, k, c1, c2, c3, c4⟩ := h.rst_ok v i L hm
    refine ⟨t, k, hmono t k c1, c2, c3, ?_⟩
    have hk := c1.2.1
    have := congrArg (List.take i) (hmtl t k hk).1
    rw [List.take_take, List.take_take, Nat.min_eq_left c3] at this
    rw [this]; exact c4
  obtain ⟨l, hen, rfl⟩ := hs
  have same : ∀ s' : Sys, s'.ghost.fsmApplied = s.ghost.fsmApplied → s'.ghost.fsmRestored = s.ghost.fsmRestored →
      (∀ v i e, (v, i, e) ∈ s.ghost.fsmApplied →
        ∃ t k, Committed n s' t k ∧ 1 ≤ i ∧ i ≤ k ∧ (s'.ghost.tl t)[i - 1]? = some e) →
      (∀ v i L, (v, i, L) ∈ s.ghost.fsmRestored →
        ∃ t k, Committed n s' t k ∧ 1 ≤ i ∧ i ≤ k ∧ L = (s'.ghost.tl t).take i) → Inv7 n s' := by
    intro s' e1 e2 a b
    exact ⟨fun v i e hm => a v i e (e1 ▸ hm), fun v i L hm => b v i L (e2 ▸ hm)⟩
  cases l with
  | timeout i => exact same _ rfl rfl hold_app hold_rst
  | timeoutCrash i k => exact same _ rfl rfl hold_app hold_rst
  | voteReq j c t li lt stage =>
    apply same _ _ _ hold_app hold_rst
    · simp only [apply]; split <;> rfl
    · simp only [apply]; split <;> rfl
  | voteResp i v t =>
    by_cases hwon : quorum n ≤
        (if v ∈ (s.nodes i).tally then (s.nodes i).tally else v :: (s.nodes i).tally).length
    · apply same _ _ _ hold_app hold_rst
      · simp only [apply, hwon, decide_true, if_true]
      · simp only [apply, hwon, decide_true, if_true]
    · apply same _ _ _ hold_app hold_rst
      · simp only [apply, hwon, decide_false]; rfl
      · simp only [apply, hwon, decide_false]; rfl
  | crash i => exact same _ rfl rfl hold_app hold_rst
  | dup m => exact same _ rfl rfl hold_app hold_rst
  | append i p => exact same _ rfl rfl hold_app hold_rst
  | sendAE i prevIdx len lc => exact same _ rfl rfl hold_app hold_rst
  | recvAE j ldr t prevIdx prevTerm es lc stage =>
    apply same _ _ _ hold_app hold_rst
    · simp only [apply]; split <;> rfl
    · simp only [apply]; split <;> rfl
  | advanceCommit i k Q => exact same _ rfl rfl hold_app hold_rst
  | compact i b => exact same _ rfl rfl hold_app hold_rst
  | takeSnap i k => exact same _ rfl rfl hold_app hold_rst
  | sendIS i => exact same _ rfl rfl hold_app hold_rst
  | recvIS j ldr t idx iterm =>
    apply same _ _ _ hold_app hold_rst
    · simp only [apply]; split <;> rfl
    · simp only [apply]; split <;> rfl
  | fsmApply i =>
    simp only [enabled] at hen
    obtain ⟨hi, happ, _⟩ := hen
    rcases fsmApply_cases n s i with heq | ⟨e, he, heq⟩
    · rw [heq]; exact h
    · rw [heq] at hold_app hold_rst ⊢
      refine ⟨?_, fun v i' L hm => hold_rst v i' L hm⟩
      intro v i' e' hm
      have hm' : (v, i', e') = (i, (s.nodes i).applied + 1, e) ∨ (v, i', e') ∈ s.ghost.fsmApplied := by
        simpa using hm
      rcases hm' with hm' | hm'
      · cases hm'
        obtain ⟨t, k, c1, c2, c3⟩ := reached_committed n s hreach i ((s.nodes i).applied + 1) (by omega) (by omega)
        refine ⟨t, k, c1, by omega, c2, ?_⟩
        have := getElem?_of_take_eq _ _ _ (s.nodes i).applied (by omega) c3
        show (s.ghost.tl t)[(s.nodes i).applied + 1 - 1]? = some e
        rw [Nat.add_sub_cancel, ← this]; exact he
      · exact hold_app v i' e' hm'
  | fsmRestore i =>
    simp only [enabled] at hen
    obtain ⟨hi, h1, _⟩ := hen
    refine ⟨fun v i' e hm => hold_app v i' e hm, ?_⟩
    intro v i' L hm
    have hm' : (v, i', L) = (i, (s.nodes i).snapIdx, (s.nodes i).log.take (s.nodes i).snapIdx) ∨
        (v, i', L) ∈ s.ghost.fsmRestored := by
      simpa [apply] using hm
    rcases hm' with hm' | hm'
    · cases hm'
      obtain ⟨t, k, c1, c2, c3⟩ := reached_committed n s hreach i (s.nodes i).snapIdx (by omega) (by omega)
      exact ⟨t, k, c1, h1, c2, c3⟩
    · exact hold_rst v i' L hm'

theorem inv7_reachable (n : Nat) (s : Sys) (h : Reachable n s) : Inv7 n s := by
  induction h with
  | init => exact inv7_init n
  | step hr hs ih => exact inv7_step n _ _ hr ih hs

/-- two committed term logs agree up to the smaller commit point -/
theorem committed_agree (n : Nat) (s : Sys) (h : Reachable n s) (ta ka tb kb c : Nat)
    (ca : Committed n s ta ka) (cb : Committed n s tb kb) (ha : c ≤ ka) (hb : c ≤ kb) :
    (s.ghost.tl ta).take c = (s.ghost.tl tb).take c := by
  have i2 := inv2_reachable n s h
  have key : ∀ ta ka tb kb, Committed n s ta ka → Committed n s tb kb → c ≤ ka → ta < tb →
      (s.ghost.tl ta).take c = (s.ghost.tl tb).take c := by
    intro ta ka tb kb ca cb hca hlt
    have hne : s.ghost.tl tb ≠ [] := by
      intro hnil; have := cb.2.1; have := cb.1; rw [hnil] at *; simp at *; omega
    obtain ⟨l', Q', hq'⟩ := i2.tl_elected tb hne
    have hlc := leader_completeness n s h tb ta ka l' Q' ca hq' hlt
    have := congrArg (List.take c) hlc
    rw [List.take_take, List.take_take, Nat.min_eq_left hca] at this
    exact this.symm
  rcases Nat.lt_trichotomy ta tb with hlt | heq | hgt
  · exact key ta ka tb kb ca cb ha hlt
  · rw [heq]
  · exact (key tb kb ta ka cb ca hb hgt).symm

/-- **State-machine safety over the FSM streams (C02).**  Over the whole history — every server,
    every lifetime, crashes, truncations, snapshots and restores included:
    * two entries ever applied at the same index are the same entry;
    * an entry applied at index `i` equals position `i` of every state ever restored at `j ≥ i`;
    * two restored states agree on their common prefix. -/
theorem fsm_safety (n : Nat) (s : Sys) (h : Reachable n s) :
    (∀ v v' i e e', (v, i, e) ∈ s.ghost.fsmApplied → (v', i, e') ∈ s.ghost.fsmApplied → e = e') ∧
    (∀ v v' i j e L, (v, i, e) ∈ s.ghost.fsmApplied → (v', j, L) ∈ s.ghost.fsmRestored → i ≤ j →
        L[i - 1]? = some e) ∧
    (∀ v v' i j L L', (v, i, L) ∈ s.ghost.fsmRestored → (v', j, L') ∈ s.ghost.fsmRestored → i ≤ j →
        L = L'.take i) := by
  have i7 := inv7_reachable n s h
  refine ⟨?_, ?_, ?_⟩
  · intro v v' i e e' h1 h2
    obtain ⟨t1, k1, a1, a2, a3, a4⟩ := i7.app_ok v i e h1
    obtain ⟨t2, k2, b1, b2, b3, b4⟩ := i7.app_ok v' i e' h2
    have := committed_agree n s h t1 k1 t2 k2 i a1 b1 a3 b3
    have := getElem?_of_take_eq _ _ i (i - 1) (by omega) this
    rw [a4, b4] at this
    exact Option.some.inj this
  · intro v v' i j e L h1 h2 hij
    obtain ⟨t1, k1, a1, a2, a3, a4⟩ := i7.app_ok v i e h1
    obtain ⟨t2, k2, b1, b2, b3, b4⟩ := i7.rst_ok v' j L h2
    have := committed_agree n s h t1 k1 t2 k2 i a1 b1 a3 (by omega)
    have := getElem?_of_take_eq _ _ i (i - 1) (by omega) this
    rw [b4, List.getElem?_take_of_lt (by omega), ← this]; exact a4
  · intro v v' i j L L' h1 h2 hij
    obtain ⟨t1, k1, a1, a2, a3, a4⟩ := i7.rst_ok v i L h1
    obtain ⟨t2, k2, b1, b2, b3, b4⟩ := i7.rst_ok v' j L' h2
    have := committed_agree n s h t1 k1 t2 k2 i a1 b1 a3 (by omega)
    rw [a4, b4, List.take_take, Nat.min_eq_left hij]; exact this

end RP

namespace RP

/-- **The acknowledged index is exact (C08 / C03, model level).**  When a server's commit index has
    reached `k` — the moment a leader resolves the `Apply` future of index `k` with a nil error —
    the entry `e` it holds at `k` is the entry every state machine, on every server and in every
    lifetime, past or future in this history, is handed at index `k`; and every state ever restored
    at an index `≥ k` has `e` at position `k`. -/
theorem ack_exact (n : Nat) (s : Sys) (h : Reachable n s) (i k : Nat) (e : Entry)
    (hk1 : 1 ≤ k) (hk : k ≤ (s.nodes i).commit) (he : (s.nodes i).log[k - 1]? = some e) :
    (∀ v e', (v, k, e') ∈ s.ghost.fsmApplied → e' = e) ∧
    (∀ v j L, (v, j, L) ∈ s.ghost.fsmRestored → k ≤ j → L[k - 1]? = some e) := by
  have i7 := inv7_reachable n s h
  obtain ⟨t, kk, c1, c2, c3⟩ := reached_committed n s h i k (by omega) (by omega)
  have he' : (s.ghost.tl t)[k - 1]? = some e := by
    rw [← getElem?_of_take_eq _ _ k (k - 1) (by omega) c3]; exact he
  refine ⟨?_, ?_⟩
  · intro v e' hm
    obtain ⟨t2, k2, b1, b2, b3, b4⟩ := i7.app_ok v k e' hm
    have := committed_agree n s h t kk t2 k2 k c1 b1 c2 b3
    have := getElem?_of_take_eq _ _ k (k - 1) (by omega) this
    rw [he', b4] at this
    exact (Option.some.inj this).symm
  · intro v j L hm hkj
    obtain ⟨t2, k2, b1, b2, b3, b4⟩ := i7.rst_ok v j L hm
    have := committed_agree n s h t kk t2 k2 k c1 b1 c2 (by omega)
    have := getElem?_of_take_eq _ _ k (k - 1) (by omega) this
    rw [b4, List.getElem?_take_of_lt (by omega), ← this]; exact he'

end RP

namespace RP

/-- `s'` is reachable from `s` -/
inductive Steps (n : Nat) : Sys → Sys → Prop
  | refl (s) : Steps n s s
  | step {s s' s''} : Steps n s s' → Step n s' s'' → Steps n s s''

theorem steps_reachable (n : Nat) (s s' : Sys) (h : Reachable n s) (hs : Steps n s s') : Reachable n s' := by
  induction hs with
  | refl => exact h
  | step _ st ih => exact Reachable.step ih st

/-- a committed pair, and the entries below it, stay for ever -/
theorem committed_forever (n : Nat) (s s' : Sys) (h : Reachable n s) (hs : Steps n s s') (t k : Nat)
    (hc : Committed n s t k) :
    Committed n s' t k ∧ (s'.ghost.tl t).take k = (s.ghost.tl t).take k := by
  induction hs with
  | refl => exact ⟨hc, rfl⟩
  | step hs' st ih =>
    obtain ⟨c1, c2⟩ := ih
    have hr := steps_reachable n _ _ h hs'
    obtain ⟨m1, m2⟩ := step_mono n _ _ hr st
    refine ⟨committed_mono n _ _ m1 m2 t k c1, ?_⟩
    rw [(m1 t k c1.2.1).1]; exact c2

/-- **Committed entries are permanent (C03) and the acknowledgement stays exact (C08).**  If at some
    moment a server's commit index has reached `k` with entry `e` at `k`, then in *every later
    state of every continuation* — crashes, elections, truncations, snapshots, restores — every
    entry handed to any state machine at index `k` is `e`, every state restored at `j ≥ k` has `e`
    at `k`, and every server whose commit index or snapshot reaches `k` holds `e` at `k`. -/
theorem ack_exact_forever (n : Nat) (s s' : Sys) (h : Reachable n s) (hs : Steps n s s') (i k : Nat) (e : Entry)
    (hk1 : 1 ≤ k) (hk : k ≤ (s.nodes i).commit) (he : (s.nodes i).log[k - 1]? = some e) :
    (∀ v e', (v, k, e') ∈ s'.ghost.fsmApplied → e' = e) ∧
    (∀ v j L, (v, j, L) ∈ s'.ghost.fsmRestored → k ≤ j → L[k - 1]? = some e) ∧
    (∀ w, k ≤ max (s'.nodes w).commit (s'.nodes w).snapIdx → (s'.nodes w).log[k - 1]? = some e) := by
  have h' := steps_reachable n s s' h hs
  have i7 := inv7_reachable n s' h'
  obtain ⟨t, kk, c1, c2, c3⟩ := reached_committed n s h i k (by omega) (by omega)
  have he0 : (s.ghost.tl t)[k - 1]? = some e := by
    rw [← getElem?_of_take_eq _ _ k (k - 1) (by omega) c3]; exact he
  obtain ⟨c1', hpre⟩ := committed_forever n s s' h hs t kk c1
  have he' : (s'.ghost.tl t)[k - 1]? = some e := by
    rw [getElem?_of_take_eq _ _ kk (k - 1) (by omega) hpre]; exact he0
  refine ⟨?_, ?_, ?_⟩
  · intro v e' hm
    obtain ⟨t2, k2, b1, b2, b3, b4⟩ := i7.app_ok v k e' hm
    have := committed_agree n s' h' t kk t2 k2 k c1' b1 c2 b3
    have := getElem?_of_take_eq _ _ k (k - 1) (by omega) this
    rw [he', b4] at this
    exact (Option.some.inj this).symm
  · intro v j L hm hkj
    obtain ⟨t2, k2, b1, b2, b3, b4⟩ := i7.rst_ok v j L hm
    have := committed_agree n s' h' t kk t2 k2 k c1' b1 c2 (by omega)
    have := getElem?_of_take_eq _ _ k (k - 1) (by omega) this
    rw [b4, List.getElem?_take_of_lt (by omega), ← this]; exact he'
  · intro w hw
    obtain ⟨t2, k2, b1, b2, b3⟩ := reached_committed n s' h' w k (by omega) hw
    have := committed_agree n s' h' t kk t2 k2 k c1' b1 c2 b2
    have e1 := getElem?_of_take_eq _ _ k (k - 1) (by omega) this
    have e2 := getElem?_of_take_eq _ _ k (k - 1) (by omega) b3
    rw [e2, ← e1]; exact he'

end RP
