/-! probe: cluster model (votes only), hashicorp-style vote handler with separately persisted
    term / vote-term / vote-candidate, message soup, crash. Core Lean only. -/
namespace RP

inductive Role | follower | candidate | leader
deriving DecidableEq, Repr

structure Entry where
  term : Nat
  payload : Nat
deriving DecidableEq, Repr

structure Node where
  term     : Nat := 0
  voteTerm : Nat := 0
  voteCand : Option Nat := none
  log      : List Entry := []
  role     : Role := .follower
  tally    : List Nat := []
  commit   : Nat := 0
  base     : Nat := 0      -- entries with index ≤ base have been compacted out of the stored log
  snapIdx  : Nat := 0      -- newest durable snapshot (0 = none)
  snapTerm : Nat := 0
  applied  : Nat := 0      -- how far the FSM of this (incarnation of the) server has got
deriving Repr

inductive Msg
  | voteReq (cand term lastIdx lastTerm : Nat)
  | voteResp (voter cand term : Nat) (granted : Bool)
  | ae (ldr term prevIdx prevTerm : Nat) (es : List Entry) (lc : Nat)
  | aeResp (flw ldr term lastCovered : Nat)
  | is (ldr term idx iterm : Nat)          -- InstallSnapshot: the sender's log through idx, last term iterm
  | isResp (flw ldr term idx : Nat)
deriving DecidableEq, Repr

structure Ghost where
  grants  : List (Nat × Nat × Nat) := []          -- (voter, term, cand)
  elected : List (Nat × Nat × List Nat) := []     -- (term, leader, tallied voters)
  tl      : Nat → List Entry := fun _ => []       -- term log: the log of the leader of that term
  acks    : List (Nat × Nat × Nat) := []          -- (server, term, index): acknowledged through index
  fsmApplied  : List (Nat × Nat × Entry) := []        -- (server, index, entry) handed to an FSM
  fsmRestored : List (Nat × Nat × List Entry) := []   -- (server, index, content) restored into an FSM
  glogs   : List (Nat × Nat × Nat × List Entry × Bool) := []
      -- (voter, term, cand, voter's log when granting, nobody had yet won that term)

structure Sys where
  nodes : Nat → Node
  net   : List Msg
  ghost : Ghost

def quorum (n : Nat) : Nat := n / 2 + 1

def lastTerm (l : List Entry) : Nat := match l.getLast? with | some e => e.term | none => 0

def setNode (s : Sys) (i : Nat) (nd : Node) : Sys :=
  { s with nodes := fun j => if j = i then nd else s.nodes j }

/-- outcome of the vote handler on node `nd` (repaired order: the log comparison comes before the
    duplicate-vote branch, see F1).  `stage` models a crash/failed write inside persistVote:
    0 = nothing of the vote persisted, 1 = only LastVoteTerm written, 2 = both written (normal). -/
def handleVote (nd : Node) (c t li lt : Nat) (stage : Nat) : Node × Bool :=
  if t < nd.term then (nd, false) else
  let nd1 : Node := if nd.term < t then { nd with term := t, role := .follower, tally := [] } else nd
  if lt < lastTerm nd1.log then (nd1, false)
  else if lastTerm nd1.log = lt ∧ li < nd1.log.length then (nd1, false)
  else if nd1.voteTerm = t ∧ nd1.voteCand.isSome then
    (nd1, nd1.voteCand = some c)
  else match stage with
    | 0 => (nd1, false)
    | 1 => ({ nd1 with voteTerm := t }, false)
    | _ => ({ nd1 with voteTerm := t, voteCand := some c }, true)

/-- term of the entry at 1-based index `i` (0 for index 0 or out of range) -/
def termAt (l : List Entry) (i : Nat) : Nat :=
  match i with
  | 0 => 0
  | k + 1 => match l[k]? with | some e => e.term | none => 0

/-- hashicorp follower merge on the suffix after the previous entry: skip entries whose stored
    term equals the sent term, on the first term conflict drop the rest of the stored suffix and
    append the rest of the sent entries, keep the stored suffix if the sent entries run out. -/
def mergeSuffix : List Entry → List Entry → List Entry
  | suf, [] => suf
  | [], es => es
  | x :: suf, e :: es => if x.term = e.term then x :: mergeSuffix suf es else e :: es

/-- the suffix surviving only the truncation half of the merge (crash before StoreLogs) -/
def truncSuffix : List Entry → List Entry → List Entry
  | suf, [] => suf
  | [], _ => []
  | x :: suf, e :: es => if x.term = e.term then x :: truncSuffix suf es else []

/-- AppendEntries handler. `stage = 0`: crash after DeleteRange, before StoreLogs (volatile state lost).
    Commit rule: the repaired one (F8) — only over entries this request covers, only upward. -/
def handleAE (nd : Node) (t prevIdx prevTerm : Nat) (es : List Entry) (lc : Nat) (stage : Nat) : Node × Bool :=
  if t < nd.term then (nd, false) else
  let nd1 : Node := if nd.term < t ∨ nd.role ≠ .follower
                    then { nd with term := t, role := .follower, tally := [] } else nd
  if prevIdx < nd1.base then (nd1, false)
  else if prevIdx ≠ 0 ∧ (nd1.log.length < prevIdx ∨ termAt nd1.log prevIdx ≠ prevTerm) then (nd1, false)
  else
    let pre := nd1.log.take prevIdx
    let suf := nd1.log.drop prevIdx
    match stage with
    | 0 => ({ nd1 with log := pre ++ truncSuffix suf es, commit := 0, applied := 0 }, false)
    | _ => ({ nd1 with log := pre ++ mergeSuffix suf es,
                       commit := max nd1.commit (min lc (prevIdx + es.length)) }, true)

/-- InstallSnapshot handler (repaired F3/F11 rule).  `T` is what the snapshot stands for: the
    sender's log.  `nd.log` is the *full* log (ghost): the stored window is `log.drop base`. -/
def handleIS (nd : Node) (T : List Entry) (t idx iterm : Nat) : Node × Bool :=
  if t < nd.term then (nd, false) else
  let nd1 : Node := if nd.term < t ∨ nd.role ≠ .follower
                    then { nd with term := t, role := .follower, tally := [] } else nd
  if idx ≤ nd1.log.length ∧ termAt nd1.log idx = iterm then
    -- the server already holds the snapshot's last entry: keep log and state machine
    ({ nd1 with snapIdx := max nd1.snapIdx idx,
                snapTerm := if nd1.snapIdx < idx then iterm else nd1.snapTerm }, true)
  else
    ({ nd1 with log := T.take idx, base := idx, snapIdx := idx, snapTerm := iterm }, true)

inductive Label
  | timeout (i : Nat)
  | timeoutCrash (i k : Nat)
  | voteReq (j c t li lt stage : Nat)
  | voteResp (i v t : Nat)
  | crash (i : Nat)
  | dup (m : Msg)
  | append (i p : Nat)
  | sendAE (i prevIdx len lc : Nat)
  | recvAE (j ldr t prevIdx prevTerm : Nat) (es : List Entry) (lc stage : Nat)
  | advanceCommit (i k : Nat) (Q : List Nat)
  | compact (i b : Nat)
  | takeSnap (i k : Nat)
  | sendIS (i : Nat)
  | recvIS (j ldr t idx iterm : Nat)
  | fsmApply (i : Nat)
  | fsmRestore (i : Nat)

def enabled (n : Nat) (s : Sys) : Label → Prop
  | .timeout i => i < n
  | .timeoutCrash i _ => i < n
  | .voteReq j c t li lt _ => j < n ∧ Msg.voteReq c t li lt ∈ s.net
  | .voteResp i v t => i < n ∧ v < n ∧ Msg.voteResp v i t true ∈ s.net ∧
      (s.nodes i).role = .candidate ∧ (s.nodes i).term = t
  | .crash i => i < n
  | .dup m => m ∈ s.net
  | .append i _ => i < n ∧ (s.nodes i).role = .leader
  | .sendAE i prevIdx _ lc => i < n ∧ (s.nodes i).role = .leader ∧ prevIdx ≤ (s.nodes i).log.length ∧
      lc ≤ (s.nodes i).commit
  | .recvAE j ldr t prevIdx prevTerm es lc _ => j < n ∧ Msg.ae ldr t prevIdx prevTerm es lc ∈ s.net
  | .advanceCommit i k Q => i < n ∧ (s.nodes i).role = .leader ∧ Q.Nodup ∧ quorum n ≤ Q.length ∧
      (∀ v ∈ Q, v < n ∧ (v = i ∨ ∃ k', k ≤ k' ∧ Msg.aeResp v i (s.nodes i).term k' ∈ s.net)) ∧
      1 ≤ k ∧ k ≤ (s.nodes i).log.length ∧ termAt (s.nodes i).log k = (s.nodes i).term ∧
      (s.nodes i).commit ≤ k
  | .compact i b => i < n ∧ b ≤ (s.nodes i).snapIdx
  | .takeSnap i k => i < n ∧ 1 ≤ k ∧ k ≤ (s.nodes i).commit ∧ (s.nodes i).snapIdx ≤ k
  | .sendIS i => i < n ∧ (s.nodes i).role = .leader ∧ 1 ≤ (s.nodes i).snapIdx ∧
      (s.nodes i).snapIdx ≤ (s.nodes i).log.length
  | .recvIS j ldr t idx iterm => j < n ∧ Msg.is ldr t idx iterm ∈ s.net
  | .fsmApply i => i < n ∧ (s.nodes i).applied < (s.nodes i).commit ∧ (s.nodes i).snapIdx ≤ (s.nodes i).applied
  | .fsmRestore i => i < n ∧ 1 ≤ (s.nodes i).snapIdx ∧ (s.nodes i).applied < (s.nodes i).snapIdx

def apply (n : Nat) (s : Sys) : Label → Sys
  | .timeout i =>
      let nd := s.nodes i
      let t := nd.term + 1
      { (setNode s i { nd with term := t, voteTerm := t, voteCand := some i,
                                role := .candidate, tally := [i] }) with
        net := Msg.voteReq i t nd.log.length (lastTerm nd.log) :: s.net,
        ghost := { s.ghost with grants := (i, t, i) :: s.ghost.grants,
                                glogs := (i, t, i, nd.log, decide (∀ x ∈ s.ghost.elected, x.1 ≠ t)) :: s.ghost.glogs } }
  | .timeoutCrash i k =>
      let nd := s.nodes i
      let t := nd.term + 1
      setNode s i { nd with term := t, voteTerm := if k = 0 then nd.voteTerm else t,
                            role := .follower, tally := [], commit := 0, applied := 0 }
  | .voteReq j c t li lt stage =>
      let r := handleVote (s.nodes j) c t li lt stage
      { (setNode s j r.1) with
        net := Msg.voteResp j c t r.2 :: s.net,
        ghost := if r.2 then { s.ghost with grants := (j, t, c) :: s.ghost.grants,
                                            glogs := (j, t, c, r.1.log, decide (∀ x ∈ s.ghost.elected, x.1 ≠ t)) :: s.ghost.glogs }
                 else s.ghost }
  | .voteResp i v t =>
      let nd := s.nodes i
      let tl := if v ∈ nd.tally then nd.tally else v :: nd.tally
      let won := decide (quorum n ≤ tl.length)
      let lg := if won then nd.log ++ [⟨t, 0⟩] else nd.log          -- the new leader's no-op
      { (setNode s i { nd with tally := tl, role := if won then .leader else .candidate, log := lg }) with
        ghost := if won then { s.ghost with elected := (t, i, tl) :: s.ghost.elected,
                                            tl := fun u => if u = t then lg else s.ghost.tl u,
                                            acks := (i, t, lg.length) :: s.ghost.acks }
                 else s.ghost }
  | .crash i => setNode s i { (s.nodes i) with role := .follower, tally := [], commit := 0, applied := 0 }
  | .dup m => { s with net := m :: s.net }
  | .append i p =>
      let nd := s.nodes i
      let lg := nd.log ++ [⟨nd.term, p⟩]
      { (setNode s i { nd with log := lg }) with
        ghost := { s.ghost with tl := fun u => if u = nd.term then lg else s.ghost.tl u,
                                acks := (i, nd.term, lg.length) :: s.ghost.acks } }
  | .sendAE i prevIdx len lc =>
      let nd := s.nodes i
      { s with net := Msg.ae i nd.term prevIdx (termAt nd.log prevIdx) ((nd.log.drop prevIdx).take len) lc :: s.net }
  | .recvAE j ldr t prevIdx prevTerm es lc stage =>
      let r := handleAE (s.nodes j) t prevIdx prevTerm es lc stage
      { (setNode s j r.1) with
        net := if r.2 then Msg.aeResp j ldr t (prevIdx + es.length) :: s.net else s.net,
        ghost := if r.2 then { s.ghost with acks := (j, t, prevIdx + es.length) :: s.ghost.acks } else s.ghost }
  | .advanceCommit i k _ => setNode s i { (s.nodes i) with commit := k }
  | .compact i b => setNode s i { (s.nodes i) with base := max (s.nodes i).base b }
  | .takeSnap i k => setNode s i { (s.nodes i) with snapIdx := k, snapTerm := termAt (s.nodes i).log k }
  | .sendIS i =>
      let nd := s.nodes i
      -- the term is read off the (ghost) full log; equal to the stored snapTerm by the coherence invariant
      { s with net := Msg.is i nd.term nd.snapIdx (termAt nd.log nd.snapIdx) :: s.net }
  | .recvIS j ldr t idx iterm =>
      let r := handleIS (s.nodes j) (s.ghost.tl t) t idx iterm
      { (setNode s j r.1) with
        net := if r.2 then Msg.isResp j ldr t idx :: s.net else s.net,
        ghost := if r.2 then { s.ghost with acks := (j, t, idx) :: s.ghost.acks } else s.ghost }
  | .fsmApply i =>
      let nd := s.nodes i
      match nd.log[nd.applied]? with
      | some e =>
        { (setNode s i { nd with applied := nd.applied + 1 }) with
          ghost := { s.ghost with fsmApplied := (i, nd.applied + 1, e) :: s.ghost.fsmApplied } }
      | none => s
  | .fsmRestore i =>
      let nd := s.nodes i
      { (setNode s i { nd with applied := nd.snapIdx }) with
        ghost := { s.ghost with fsmRestored := (i, nd.snapIdx, nd.log.take nd.snapIdx) :: s.ghost.fsmRestored } }

def Step (n : Nat) (s s' : Sys) : Prop := ∃ l, enabled n s l ∧ s' = apply n s l

def init : Sys := { nodes := fun _ => {}, net := [], ghost := {} }

inductive Reachable (n : Nat) : Sys → Prop
  | init : Reachable n init
  | step {s s'} : Reachable n s → Step n s s' → Reachable n s'

end RP
