import Mathlib.Data.Finset.Card
import Mathlib.Data.List.Nodup
import RaftVerif.Core.Model

/-! probe: quorum intersection over lists of node ids, via Finset cardinalities -/
namespace RP



theorem nodup_bounded_length (l : List Nat) (n : Nat) (hn : l.Nodup) (hb : ∀ x ∈ l, x < n) :
    l.length ≤ n := by
  have h1 : l.toFinset ⊆ Finset.range n := by
    intro x hx
    simp only [List.mem_toFinset] at hx
    simpa using hb x hx
  have h2 := Finset.card_le_card h1
  rw [List.toFinset_card_of_nodup hn, Finset.card_range] at h2
  exact h2

theorem quorums_intersect (n : Nat) (a b : List Nat)
    (ha : a.Nodup) (hb : b.Nodup) (hab : ∀ x ∈ a, x < n) (hbb : ∀ x ∈ b, x < n)
    (qa : quorum n ≤ a.length) (qb : quorum n ≤ b.length) : ∃ x, x ∈ a ∧ x ∈ b := by
  by_contra hne
  have hdisj : ∀ x ∈ a, x ∉ b := by
    intro x hx hxb; exact hne ⟨x, hx, hxb⟩
  have hnd : (a ++ b).Nodup := by
    rw [List.nodup_append]
    exact ⟨ha, hb, by intro x hx y hy hxy; subst hxy; exact hdisj x hx hy⟩
  have hbd : ∀ x ∈ a ++ b, x < n := by
    intro x hx
    rcases List.mem_append.mp hx with h | h
    · exact hab x h
    · exact hbb x h
  have := nodup_bounded_length (a ++ b) n hnd hbd
  simp only [List.length_append, quorum] at *
  omega

end RP
