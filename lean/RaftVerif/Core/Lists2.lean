import RaftVerif.Core.Lists

/-! probe: refined merge lemmas (first divergence point) -/
namespace RP

/-- Refined result of the follower merge.  Either nothing was replaced (then the follower already
    agrees with the leader through the last sent entry), or the log becomes the leader's log through
    the last sent entry and there is a first divergence point `q` inside the sent range: the
    follower agrees with the leader below `q` and at `q` it either has no entry or an entry of a
    different term. -/
theorem merge_cases2 (T : List Entry) (es : List Entry) :
    ∀ (L : List Entry) (p : Nat),
    es = (T.drop p).take es.length → p + es.length ≤ T.length →
    L.take p = T.take p → p ≤ L.length →
    (∀ idx (h1 : idx < L.length) (h2 : idx < T.length),
        L[idx].term = T[idx].term → L.take (idx + 1) = T.take (idx + 1)) →
    ((L.take p ++ mergeSuffix (L.drop p) es = L ∧ L.take (p + es.length) = T.take (p + es.length)) ∨
     (L.take p ++ mergeSuffix (L.drop p) es = T.take (p + es.length) ∧
       ∃ q, p ≤ q ∧ q < p + es.length ∧ L.take q = T.take q ∧
         (L.length ≤ q ∨ ∃ (h1 : q < L.length) (h2 : q < T.length), L[q].term ≠ T[q].term))) := by
  induction es with
  | nil =>
    intro L p _ _ hpre _ _
    left
    refine ⟨?_, by simpa using hpre⟩
    cases hd : L.drop p <;> simp [mergeSuffix, ← hd]
  | cons e es ih =>
    intro L p hes hlen hpre hpL hagree
    have hpT : p < T.length := by simp at hlen; omega
    have hTd : T.drop p = T[p] :: T.drop (p + 1) := drop_eq_cons_getElem T p hpT
    rw [hTd] at hes
    simp only [List.length_cons, List.take_succ_cons, List.cons.injEq] at hes
    obtain ⟨he, hes'⟩ := hes
    by_cases hL : p < L.length
    · have hLd : L.drop p = L[p] :: L.drop (p + 1) := drop_eq_cons_getElem L p hL
      rw [hLd]
      simp only [mergeSuffix]
      by_cases hterm : L[p].term = e.term
      · simp only [hterm, if_true]
        have hag := hagree p hL hpT (by rw [hterm, he])
        have hstep := ih L (p + 1) hes' (by simp at hlen ⊢; omega) hag (by omega) hagree
        have hre : L.take p ++ L[p] :: mergeSuffix (L.drop (p + 1)) es
            = L.take (p + 1) ++ mergeSuffix (L.drop (p + 1)) es := by
          rw [take_succ_eq L p hL]; simp only [List.append_assoc, List.singleton_append]
        rw [hre]
        have harith : p + (e :: es).length = p + 1 + es.length := by simp only [List.length_cons]; omega
        rw [harith]
        rcases hstep with ⟨h1, h2⟩ | ⟨h1, q, hq1, hq2, hq3, hq4⟩
        · left; exact ⟨h1, h2⟩
        · right; exact ⟨h1, q, by omega, hq2, hq3, hq4⟩
      · simp only [hterm, if_false]
        right
        refine ⟨?_, p, Nat.le_refl _, by simp, hpre, Or.inr ⟨hL, hpT, by rw [← he]; exact hterm⟩⟩
        rw [hpre, he]
        exact take_cons_segment T p es hpT hes'
    · have hnil : L.drop p = [] := by
        apply List.drop_eq_nil_of_le; omega
      rw [hnil]
      right
      have hm : mergeSuffix [] (e :: es) = e :: es := by simp [mergeSuffix]
      refine ⟨?_, p, Nat.le_refl _, by simp, hpre, Or.inl (by omega)⟩
      rw [hm, hpre, he]
      exact take_cons_segment T p es hpT hes'

/-- Refined result of the truncation half alone (crash before the append). -/
theorem trunc_cases2 (T : List Entry) (es : List Entry) :
    ∀ (L : List Entry) (p : Nat),
    es = (T.drop p).take es.length → p + es.length ≤ T.length →
    L.take p = T.take p → p ≤ L.length →
    (∀ idx (h1 : idx < L.length) (h2 : idx < T.length),
        L[idx].term = T[idx].term → L.take (idx + 1) = T.take (idx + 1)) →
    (L.take p ++ truncSuffix (L.drop p) es = L ∨
     ∃ q, p ≤ q ∧ q < p + es.length ∧ L.take p ++ truncSuffix (L.drop p) es = L.take q ∧
       L.take q = T.take q ∧ ∃ (h1 : q < L.length) (h2 : q < T.length), L[q].term ≠ T[q].term) := by
  induction es with
  | nil =>
    intro L p _ _ _ _ _
    left
    cases hd : L.drop p <;> simp [truncSuffix, ← hd]
  | cons e es ih =>
    intro L p hes hlen hpre hpL hagree
    have hpT : p < T.length := by simp at hlen; omega
    have hTd : T.drop p = T[p] :: T.drop (p + 1) := drop_eq_cons_getElem T p hpT
    rw [hTd] at hes
    simp only [List.length_cons, List.take_succ_cons, List.cons.injEq] at hes
    obtain ⟨he, hes'⟩ := hes
    by_cases hL : p < L.length
    · have hLd : L.drop p = L[p] :: L.drop (p + 1) := drop_eq_cons_getElem L p hL
      rw [hLd]
      simp only [truncSuffix]
      by_cases hterm : L[p].term = e.term
      · simp only [hterm, if_true]
        have hag := hagree p hL hpT (by rw [hterm, he])
        have hstep := ih L (p + 1) hes' (by simp at hlen ⊢; omega) hag (by omega) hagree
        have hre : L.take p ++ L[p] :: truncSuffix (L.drop (p + 1)) es
            = L.take (p + 1) ++ truncSuffix (L.drop (p + 1)) es := by
          rw [take_succ_eq L p hL]; simp only [List.append_assoc, List.singleton_append]
        rw [hre]
        have harith : p + (e :: es).length = p + 1 + es.length := by simp only [List.length_cons]; omega
        rw [harith]
        rcases hstep with h1 | ⟨q, hq1, hq2, hq3, hq4, hq5⟩
        · left; exact h1
        · right; exact ⟨q, by omega, hq2, hq3, hq4, hq5⟩
      · simp only [hterm, if_false]
        right
        exact ⟨p, Nat.le_refl _, by simp, by simp, hpre, hL, hpT, by rw [← he]; exact hterm⟩
    · have hnil : L.drop p = [] := by
        apply List.drop_eq_nil_of_le; omega
      rw [hnil]
      left
      simp only [truncSuffix, List.append_nil]
      apply List.take_of_length_le; omega

end RP
