import RaftVerif.Core.CommitStep

/-! probe: shape of term logs, grant records of tallied voters -/
namespace RP

structure Inv4 (n : Nat) (s : Sys) : Prop where
  cand_req : ∀ c, (s.nodes c).role = .candidate →
      ∃ li lt, Msg.voteReq c (s.nodes c).term li lt ∈ s.net
  tl_shape : ∀ u l Q, (u, l, Q) ∈ s.ghost.elected →
      ∃ C : List Entry, (s.ghost.tl u).take (C.length + 1) = C ++ [(⟨u, 0⟩ : Entry)] ∧
        Msg.voteReq l u C.length (lastTerm C) ∈ s.net ∧ ∀ e ∈ C, e.term < u
  elected_glog : ∀ u l Q, (u, l, Q) ∈ s.ghost.elected → ∀ v ∈ Q, ∃ Lg, (v, u, l, Lg, true) ∈ s.ghost.glogs

theorem inv3_init (n : Nat) : Inv3 n init := by
  refine ⟨?_, ?_, ?_, ?_, ?_, ?_, ?_, ?_, ?_, ?_, ?_, ?_, ?_, ?_, ?_⟩ <;> simp [init, TermsMono]

theorem inv3_reachable (n : Nat) (s : Sys) (h : Reachable n s) : Inv3 n s := by
  induction h with
  | init => exact inv3_init n
  | step hr hs ih => exact inv3_step n _ _ hr ih hs

theorem inv4_init (n : Nat) : Inv4 n init := by
  refine ⟨?_, ?_, ?_⟩ <;> simp [init]

/-- frame lemma for Inv4 -/
theorem inv4_frame (n : Nat) (s s' : Sys) (h : Inv4 n s)
    (htl : s'.ghost.tl = s.ghost.tl) (hel : s'.ghost.elected = s.ghost.elected)
    (hglogs : ∀ x, x ∈ s.ghost.glogs → x ∈ s'.ghost.glogs)
    (hreq : ∀ c u li lt, Msg.voteReq c u li lt ∈ s.net → Msg.voteReq c u li lt ∈ s'.net)
    (hcand : ∀ c, (s'.nodes c).role = .candidate →
        (s'.nodes c).term = (s.nodes c).term ∧ (s.nodes c).role = .candidate) :
    Inv4 n s' := by
  obtain ⟨c1, c2, c3⟩ := h
  refine ⟨?_, ?_, ?_⟩
  · intro c hc
    obtain ⟨d1, d2⟩ := hcand c hc
    obtain ⟨li, lt, hm⟩ := c1 c d2
    exact ⟨li, lt, by rw [d1]; exact hreq _ _ _ _ hm⟩
  · intro u l Q hq
    rw [hel] at hq
    obtain ⟨C, e1, e2, e3⟩ := c2 u l Q hq
    exact ⟨C, by rw [htl]; exact e1, hreq _ _ _ _ e2, e3⟩
  · intro u l Q hq v hv
    rw [hel] at hq
    obtain ⟨Lg, hg⟩ := c3 u l Q hq v hv
    exact ⟨Lg, hglogs _ hg⟩


theorem inv4_step (n : Nat) (s s' : Sys) (hreach : Reachable n s) (h : Inv4 n s)
    (hstep : Step n s s') : Inv4 n s' := by
  have hinv1 : Inv n s := inv_reachable n s hreach
  have hinv2 : Inv2 n s := inv2_reachable n s hreach
  have hinv3 : Inv3 n s := inv3_reachable n s hreach
  obtain ⟨l, hen, rfl⟩ := hstep
  cases l with
  | timeout i =>
    obtain ⟨c1, c2, c3⟩ := h
    have hnet : (apply n s (Label.timeout i)).net
        = Msg.voteReq i ((s.nodes i).term + 1) (s.nodes i).log.length (lastTerm (s.nodes i).log) :: s.net := rfl
    refine ⟨?_, ?_, ?_⟩
    · intro c hc
      by_cases hci : c = i
      · subst hci
        refine ⟨(s.nodes c).log.length, lastTerm (s.nodes c).log, ?_⟩
        rw [hnet]
        have : ((apply n s (Label.timeout c)).nodes c).term = (s.nodes c).term + 1 := by
          simp only [apply, setNode_nodes, if_true]
        rw [this]; exact List.mem_cons_self ..
      · have hn : (apply n s (Label.timeout i)).nodes c = s.nodes c := by
          simp only [apply, setNode_nodes, hci, if_false]
        rw [hn] at hc ⊢
        obtain ⟨li, lt, hm⟩ := c1 c hc
        exact ⟨li, lt, by rw [hnet]; exact List.mem_cons_of_mem _ hm⟩
    · intro u l Q hq
      obtain ⟨C, e1, e2, e3⟩ := c2 u l Q hq
      exact ⟨C, e1, by rw [hnet]; exact List.mem_cons_of_mem _ e2, e3⟩
    · intro u l Q hq v hv
      obtain ⟨Lg, hg⟩ := c3 u l Q hq v hv
      exact ⟨Lg, List.mem_cons_of_mem _ hg⟩
  | timeoutCrash i k =>
    refine inv4_frame n s _ h rfl rfl (fun x hx => hx) (fun c u li lt hm => hm) ?_
    intro c; simp only [apply, setNode_nodes]; split
    · intro hc; cases hc
    · intro hc; exact ⟨rfl, hc⟩
  | voteReq j c t li lt stage =>
    have hf' := handleVote_more (s.nodes j) c t li lt stage
    simp only at hf'
    obtain ⟨g1, g2⟩ := hf'
    apply inv4_frame n s _ h
    · simp only [apply]; exact ghost_if_tl _ _ _ _
    · simp only [apply]; exact ghost_if_elected _ _ _ _
    · intro x hx; simp only [apply]; split
      · exact List.mem_cons_of_mem _ hx
      · exact hx
    · intro c' u li' lt' hm; simp only [apply]; exact List.mem_cons_of_mem _ hm
    · intro c'; simp only [apply, setNode_nodes]; split
      · rename_i hk; subst hk; exact g2
      · intro hc; exact ⟨rfl, hc⟩
  | voteResp i v t =>
    have hen0 := hen
    simp only [enabled] at hen
    obtain ⟨hi, hv, hm, hc, ht⟩ := hen
    by_cases hwon : quorum n ≤
        (if v ∈ (s.nodes i).tally then (s.nodes i).tally else v :: (s.nodes i).tally).length
    · obtain ⟨hnone, htlnil⟩ := win_fresh n s hreach i v t hen0 hwon
      obtain ⟨c1, c2, c3⟩ := h
      have htl : (apply n s (Label.voteResp i v t)).ghost.tl
          = upd s.ghost.tl t ((s.nodes i).log ++ [(⟨t, 0⟩ : Entry)]) := by
        simp only [apply, hwon, decide_true, if_true]; rfl
      have hel : (apply n s (Label.voteResp i v t)).ghost.elected
          = (t, i, (if v ∈ (s.nodes i).tally then (s.nodes i).tally else v :: (s.nodes i).tally)) :: s.ghost.elected := by
        simp only [apply, hwon, decide_true, if_true]
      have hglogs : (apply n s (Label.voteResp i v t)).ghost.glogs = s.ghost.glogs := by
        simp only [apply, hwon, decide_true, if_true]
      have hnet : (apply n s (Label.voteResp i v t)).net = s.net := rfl
      have hnodes : ∀ k, k ≠ i → (apply n s (Label.voteResp i v t)).nodes k = s.nodes k := by
        intro k hk; simp only [apply, setNode_nodes, hk, if_false]
      have hrolei : ((apply n s (Label.voteResp i v t)).nodes i).role = .leader := by
        simp only [apply, hwon, decide_true, if_true, setNode_nodes]
      refine ⟨?_, ?_, ?_⟩
      · intro c hcc
        by_cases hci : c = i
        · subst hci; rw [hrolei] at hcc; cases hcc
        · rw [hnodes c hci] at hcc ⊢; rw [hnet]; exact c1 c hcc
      · intro u l Q hq
        rw [hel] at hq; rw [htl, hnet]
        rcases List.mem_cons.mp hq with heq | hq
        · simp only [Prod.mk.injEq] at heq
          obtain ⟨e1, e2, _⟩ := heq
          subst e1 e2
          obtain ⟨li, lt, hmr⟩ := c1 l hc
          rw [ht] at hmr
          obtain ⟨r1, r2⟩ := hinv3.req_cand l u li lt hmr hc ht
          subst r1 r2
          refine ⟨(s.nodes l).log, ?_, hmr, ?_⟩
          · have : upd s.ghost.tl u ((s.nodes l).log ++ [(⟨u, 0⟩ : Entry)]) u
                = (s.nodes l).log ++ [(⟨u, 0⟩ : Entry)] := by simp [upd]
            rw [this]
            apply List.take_of_length_le; simp
          · intro e he
            have hle := hinv3.et_log l e he
            rw [ht] at hle
            by_contra hnlt
            have heq : e.term = u := by omega
            -- an entry of term u in the log would force tl u to be non-empty
            obtain ⟨idx, hidx, hget⟩ := List.getElem_of_mem he
            have hp := hinv2.log_ok l idx hidx
            rw [hget, heq, htlnil] at hp
            have := congrArg List.length hp
            simp only [List.length_take, List.take_nil, List.length_nil] at this
            omega
        · have hut : u ≠ t := by
            intro heq; rw [heq] at hq; exact hnone l Q hq
          obtain ⟨C, e1, e2, e3⟩ := c2 u l Q hq
          refine ⟨C, ?_, e2, e3⟩
          have : upd s.ghost.tl t ((s.nodes i).log ++ [(⟨t, 0⟩ : Entry)]) u = s.ghost.tl u := by
            simp [upd, hut]
          rw [this]; exact e1
      · intro u l Q hq w hw
        rw [hel] at hq; rw [hglogs]
        rcases List.mem_cons.mp hq with heq | hq
        · simp only [Prod.mk.injEq] at heq
          obtain ⟨e1, e2, e3⟩ := heq
          subst e1 e2 e3
          -- tallied voters granted before anybody had won this term
          have hgrant : (w, u, l) ∈ s.ghost.grants := by
            have pre := hinv1.tally_ok l
            have hg0 := hinv1.resp_grant v l u hm
            rw [ht] at pre
            split at hw
            · exact (pre.1 w hw).1
            · rcases List.mem_cons.mp hw with rfl | hw
              · exact hg0
              · exact (pre.1 w hw).1
          obtain ⟨Lg, f, hgl⟩ := hinv3.glog_of_grant w u l hgrant
          cases f with
          | true => exact ⟨Lg, hgl⟩
          | false =>
            obtain ⟨l', Q', hq'⟩ := hinv3.glog_flag w u l Lg hgl
            exact absurd hq' (hnone l' Q')
        · exact c3 u l Q hq w hw
    · apply inv4_frame n s _ h
      · simp only [apply, hwon, decide_false, if_false, Bool.false_eq_true]
      · simp only [apply, hwon, decide_false, if_false, Bool.false_eq_true]
      · intro x hx; simp only [apply, hwon, decide_false, if_false, Bool.false_eq_true]; exact hx
      · intro c u li lt hmm; exact hmm
      · intro c; simp only [apply, setNode_nodes]; split
        · rename_i hj; subst hj; intro _; exact ⟨rfl, hc⟩
        · intro hcc; exact ⟨rfl, hcc⟩
  | crash i =>
    refine inv4_frame n s _ h rfl rfl (fun x hx => hx) (fun c u li lt hm => hm) ?_
    intro c; simp only [apply, setNode_nodes]; split
    · intro hc; cases hc
    · intro hc; exact ⟨rfl, hc⟩
  | dup m =>
    refine inv4_frame n s _ h rfl rfl (fun x hx => hx) ?_ ?_
    · intro c u li lt hm; simp only [apply]; exact List.mem_cons_of_mem _ hm
    · intro c hc; exact ⟨rfl, hc⟩
  | append i p =>
    simp only [enabled] at hen
    obtain ⟨hi, hrole⟩ := hen
    obtain ⟨hlogi, hne, Q0, hQ0⟩ := hinv2.leader_log i hrole
    obtain ⟨c1, c2, c3⟩ := h
    have htl : (apply n s (Label.append i p)).ghost.tl
        = upd s.ghost.tl (s.nodes i).term (s.ghost.tl (s.nodes i).term ++ [(⟨(s.nodes i).term, p⟩ : Entry)]) := by
      simp only [apply, hlogi]; rfl
    refine ⟨?_, ?_, ?_⟩
    · intro c hc
      by_cases hci : c = i
      · subst hci
        have : ((apply n s (Label.append c p)).nodes c).role = (s.nodes c).role := by
          simp only [apply, setNode_nodes, if_true]
        rw [this, hrole] at hc; cases hc
      · have hn : (apply n s (Label.append i p)).nodes c = s.nodes c := by
          simp only [apply, setNode_nodes, hci, if_false]
        rw [hn] at hc ⊢; exact c1 c hc
    · intro u l Q hq
      obtain ⟨C, e1, e2, e3⟩ := c2 u l Q hq
      refine ⟨C, ?_, e2, e3⟩
      rw [htl]
      have hlen : C.length + 1 ≤ (s.ghost.tl u).length := by
        have := congrArg List.length e1
        simp only [List.length_take, List.length_append, List.length_cons, List.length_nil] at this
        omega
      rw [take_upd_extend _ _ _ _ _ hlen]; exact e1
    · intro u l Q hq v hv; exact c3 u l Q hq v hv
  | sendAE i prevIdx len lc =>
    refine inv4_frame n s _ h rfl rfl (fun x hx => hx) ?_ ?_
    · intro c u li lt hm; simp only [apply]; exact List.mem_cons_of_mem _ hm
    · intro c hc; exact ⟨rfl, hc⟩
  | recvAE j ldr t prevIdx prevTerm es lc stage =>
    have hf := handleAE_log (s.nodes j) t prevIdx prevTerm es lc stage
    simp only at hf
    apply inv4_frame n s _ h
    · simp only [apply]; exact ghost_ifa_tl _ _ _
    · simp only [apply]; exact ghost_ifa_elected _ _ _
    · intro x hx; simp only [apply]; rw [ghost_ifa_glogs]; exact hx
    · intro c u li lt hm; simp only [apply]; split
      · exact List.mem_cons_of_mem _ hm
      · exact hm
    · intro c; simp only [apply, setNode_nodes]; split
      · rename_i hk; subst hk
        rcases hf with hsame | ⟨frole, _, _⟩
        · rw [hsame]; intro hc; exact ⟨rfl, hc⟩
        · rw [frole]; intro hc; cases hc
      · intro hc; exact ⟨rfl, hc⟩
  | compact i b =>
    refine inv4_frame n s _ h rfl rfl (fun x hx => hx) (fun c u li lt hm => hm) ?_
    intro c; simp only [apply, setNode_nodes]; split
    · rename_i hj; subst hj; intro hc; exact ⟨rfl, hc⟩
    · intro hc; exact ⟨rfl, hc⟩
  | takeSnap i k =>
    refine inv4_frame n s _ h rfl rfl (fun x hx => hx) (fun c u li lt hm => hm) ?_
    intro c; simp only [apply, setNode_nodes]; split
    · rename_i hj; subst hj; intro hc; exact ⟨rfl, hc⟩
    · intro hc; exact ⟨rfl, hc⟩
  | sendIS i =>
    refine inv4_frame n s _ h rfl rfl (fun x hx => hx) ?_ ?_
    · intro c u li lt hm; simp only [apply]; exact List.mem_cons_of_mem _ hm
    · intro c hc; exact ⟨rfl, hc⟩
  | recvIS j ldr t idx iterm =>
    have hf := handleIS_log (s.nodes j) (s.ghost.tl t) t idx iterm
    simp only at hf
    apply inv4_frame n s _ h
    · simp only [apply]; exact ghost_ifa_tl _ _ _
    · simp only [apply]; exact ghost_ifa_elected _ _ _
    · intro x hx; simp only [apply]; rw [ghost_ifa_glogs]; exact hx
    · intro c u li lt hm; simp only [apply]; split
      · exact List.mem_cons_of_mem _ hm
      · exact hm
    · intro c; simp only [apply, setNode_nodes]; split
      · rename_i hk; subst hk
        rcases hf with ⟨hsame, _⟩ | ⟨_, frole, _⟩
        · rw [hsame]; intro hc; exact ⟨rfl, hc⟩
        · rw [frole]; intro hc; cases hc
      · intro hc; exact ⟨rfl, hc⟩
  | fsmApply i =>
    rcases fsmApply_cases n s i with heq | ⟨e, _, heq⟩
    · rw [heq]; exact h
    · rw [heq]
      refine inv4_frame n s _ h rfl rfl (fun x hx => hx) (fun c u li lt hm => hm) ?_
      intro c; simp only [setNode_nodes]; split
      · rename_i hj; subst hj; intro hc; exact ⟨rfl, hc⟩
      · intro hc; exact ⟨rfl, hc⟩
  | fsmRestore i =>
    refine inv4_frame n s _ h rfl rfl (fun x hx => hx) (fun c u li lt hm => hm) ?_
    intro c; simp only [apply, setNode_nodes]; split
    · rename_i hj; subst hj; intro hc; exact ⟨rfl, hc⟩
    · intro hc; exact ⟨rfl, hc⟩
  | advanceCommit i k Q =>
    refine inv4_frame n s _ h rfl rfl (fun x hx => hx) (fun c u li lt hm => hm) ?_
    intro c; simp only [apply, setNode_nodes]; split
    · rename_i hj; subst hj; intro hc; exact ⟨rfl, hc⟩
    · intro hc; exact ⟨rfl, hc⟩

theorem inv4_reachable (n : Nat) (s : Sys) (h : Reachable n s) : Inv4 n s := by
  induction h with
  | init => exact inv4_init n
  | step hr hs ih => exact inv4_step n _ _ hr ih hs

end RP
