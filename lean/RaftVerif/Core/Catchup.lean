import RaftVerif.Core.Model

/-! # Catch-up terminates (C12, replication half; core fragment: no compaction on either side)

One `replicateTo` round against one follower, as a function: the leader (log `L`, fixed — no new
appends while we count) sends `AppendEntries(prev = next-1, entries = L[next .. next+maxA))`; the
follower runs the same previous-entry check and merge as `handleAE`; on rejection the leader applies
hashicorp's back-off rule `next := max(min(next-1, LastLog+1), 1)`.  Whatever the follower's log —
shorter, longer, divergent, empty — and wherever `next` starts, after at most `next + |L|` rounds
the follower holds an entry of the leader's term at the leader's last index and `next = |L|+1`. -/

namespace RP

structure Rep where
  next : Nat
  flog : List Entry
deriving Repr

def exchange (L : List Entry) (maxA : Nat) (r : Rep) : Rep :=
  let prev := r.next - 1
  let es := (L.drop prev).take maxA
  if prev ≠ 0 ∧ (r.flog.length < prev ∨ termAt r.flog prev ≠ termAt L prev) then
    { r with next := max (min (r.next - 1) (r.flog.length + 1)) 1 }
  else
    { next := prev + es.length + 1,
      flog := r.flog.take prev ++ mergeSuffix (r.flog.drop prev) es }

def iter (L : List Entry) (maxA : Nat) : Nat → Rep → Rep
  | 0, r => r
  | n + 1, r => iter L maxA n (exchange L maxA r)

theorem mergeSuffix_length (suf es : List Entry) : es.length ≤ (mergeSuffix suf es).length := by
  induction es generalizing suf with
  | nil => cases suf <;> simp [mergeSuffix]
  | cons e es ih =>
    cases suf with
    | nil => simp [mergeSuffix]
    | cons x suf =>
      simp only [mergeSuffix]; split
      · simp only [List.length_cons]; have := ih suf; omega
      · simp

theorem mergeSuffix_term (suf es : List Entry) (j : Nat) (hj : j < es.length) :
    ((mergeSuffix suf es)[j]?).map (·.term) = some (es[j].term) := by
  induction es generalizing suf j with
  | nil => simp at hj
  | cons e es ih =>
    cases suf with
    | nil => simp [mergeSuffix, List.getElem?_eq_getElem hj]
    | cons x suf =>
      simp only [mergeSuffix]; split
      · rename_i hx
        cases j with
        | zero => simp [hx]
        | succ j' =>
          simp only [List.getElem?_cons_succ, List.getElem_cons_succ]
          exact ih suf j' (by simpa using hj)
      · simp [List.getElem?_eq_getElem hj]

/-- the position from which every further round succeeds -/
def Good (L : List Entry) (r : Rep) : Prop :=
  1 ≤ r.next ∧ r.next ≤ L.length + 1 ∧
  (r.next = 1 ∨ (r.next - 1 ≤ r.flog.length ∧ termAt r.flog (r.next - 1) = termAt L (r.next - 1)))

theorem termAt_eq (l : List Entry) (k : Nat) (hk : 1 ≤ k) : termAt l k = ((l[k - 1]?).map (·.term)).getD 0 := by
  cases k with
  | zero => omega
  | succ k' =>
    simp only [termAt, Nat.add_sub_cancel]
    cases l[k']? <;> rfl

/-- from a good position a round succeeds, advances by `min maxA (remaining)`, and lands on a good position -/
theorem exchange_good (L : List Entry) (maxA : Nat) (r : Rep) (h : Good L r) :
    Good L (exchange L maxA r) ∧
    (exchange L maxA r).next = min (r.next - 1 + maxA) L.length + 1 := by
  obtain ⟨h1, h2, h3⟩ := h
  have hsucc : ¬ (r.next - 1 ≠ 0 ∧ (r.flog.length < r.next - 1 ∨ termAt r.flog (r.next - 1) ≠ termAt L (r.next - 1))) := by
    rcases h3 with h3 | ⟨a, b⟩
    · intro ⟨x, _⟩; omega
    · intro ⟨_, y⟩; rcases y with y | y
      · omega
      · exact y b
  have hes : ((L.drop (r.next - 1)).take maxA).length = min maxA (L.length - (r.next - 1)) := by simp
  have hnext : (exchange L maxA r).next = min (r.next - 1 + maxA) L.length + 1 := by
    simp only [exchange, hsucc, if_false, hes]; omega
  refine ⟨⟨by rw [hnext]; omega, by rw [hnext]; omega, ?_⟩, hnext⟩
  by_cases hz : ((L.drop (r.next - 1)).take maxA).length = 0
  · -- nothing sent: position unchanged, log unchanged at and below prev
    have hes0 : (L.drop (r.next - 1)).take maxA = [] := List.eq_nil_of_length_eq_zero hz
    have hflog : (exchange L maxA r).flog = r.flog := by
      simp only [exchange, hsucc, if_false, hes0]
      cases hd : r.flog.drop (r.next - 1) <;> simp [mergeSuffix, ← hd]
    have hn' : (exchange L maxA r).next = r.next := by
      simp only [exchange, hsucc, if_false, hz]; omega
    rw [hn', hflog]; exact h3
  · right
    -- the last entry sent sits at the new prev, with the leader's term
    have hpos : 0 < ((L.drop (r.next - 1)).take maxA).length := Nat.pos_of_ne_zero hz
    have hprevle : r.next - 1 ≤ r.flog.length := by
      rcases h3 with h3 | ⟨a, _⟩
      · omega
      · exact a
    simp only [exchange, hsucc, if_false, Nat.add_sub_cancel]
    generalize hesdef : (L.drop (r.next - 1)).take maxA = es at hpos hz hes
    have hml := mergeSuffix_length (r.flog.drop (r.next - 1)) es
    have htl : (r.flog.take (r.next - 1)).length = r.next - 1 := by simp [Nat.min_eq_left hprevle]
    refine ⟨by simp only [List.length_append, htl]; omega, ?_⟩
    rw [termAt_eq _ _ (by omega), termAt_eq _ _ (by omega)]
    have hidx : r.next - 1 + es.length - 1 = (r.next - 1) + (es.length - 1) := by omega
    rw [hidx, List.getElem?_append_right (by rw [htl]; omega), htl, Nat.add_sub_cancel_left,
      mergeSuffix_term _ _ (es.length - 1) (by omega)]
    -- es[j] = L[prev + j]
    have hL : L[(r.next - 1) + (es.length - 1)]? = some es[es.length - 1] := by
      have : es[es.length - 1]? = some es[es.length - 1] := List.getElem?_eq_getElem (by omega)
      rw [← this, ← hesdef, List.getElem?_take_of_lt (by rw [hesdef] at *; omega), List.getElem?_drop]
    rw [hL]; rfl

/-- a rejected round strictly lowers `next` and keeps it ≥ 1; a round from `next = 1` is never rejected -/
theorem exchange_bad (L : List Entry) (maxA : Nat) (r : Rep) (h1 : 1 ≤ r.next) (h2 : r.next ≤ L.length + 1)
    (hbad : ¬ Good L r) :
    1 ≤ (exchange L maxA r).next ∧ (exchange L maxA r).next < r.next ∧
    (exchange L maxA r).next ≤ L.length + 1 := by
  have hrej : r.next - 1 ≠ 0 ∧ (r.flog.length < r.next - 1 ∨ termAt r.flog (r.next - 1) ≠ termAt L (r.next - 1)) := by
    refine ⟨?_, ?_⟩
    · intro hz; exact hbad ⟨h1, h2, Or.inl (by omega)⟩
    · by_cases a : r.flog.length < r.next - 1
      · left; exact a
      · right; intro b; exact hbad ⟨h1, h2, Or.inr ⟨by omega, b⟩⟩
  have he : exchange L maxA r = { r with next := max (min (r.next - 1) (r.flog.length + 1)) 1 } := by
    unfold exchange; exact if_pos hrej
  rw [he]
  show 1 ≤ max (min (r.next - 1) (r.flog.length + 1)) 1 ∧ max (min (r.next - 1) (r.flog.length + 1)) 1 < r.next ∧
    max (min (r.next - 1) (r.flog.length + 1)) 1 ≤ L.length + 1
  omega

/-- **Catch-up terminates.**  For every leader log, every follower log, every starting `next` in
    range and every batch size ≥ 1: within `next + |L|` rounds the leader's `next` is `|L| + 1` and the
    follower holds, at the leader's last index, an entry of the leader's term there. -/
theorem catchup_terminates (L : List Entry) (maxA : Nat) (hm : 1 ≤ maxA) (r : Rep)
    (h1 : 1 ≤ r.next) (h2 : r.next ≤ L.length + 1) :
    ∃ n, n ≤ r.next + L.length ∧
      (iter L maxA n r).next = L.length + 1 ∧ L.length ≤ (iter L maxA n r).flog.length ∧
      termAt (iter L maxA n r).flog L.length = termAt L L.length := by
  -- phase 2: from a good position, `L.length + 1 - next` rounds suffice
  have phase2 : ∀ (k : Nat) (r : Rep), Good L r → L.length + 1 - r.next ≤ k →
      ∃ n, n ≤ k ∧ (iter L maxA n r).next = L.length + 1 ∧ Good L (iter L maxA n r) := by
    intro k
    induction k with
    | zero =>
      intro r hg hk
      exact ⟨0, Nat.le_refl _, by simp only [iter]; have := hg.2.1; omega, hg⟩
    | succ k ih =>
      intro r hg hk
      by_cases hdone : r.next = L.length + 1
      · exact ⟨0, by omega, hdone, hg⟩
      · obtain ⟨hg', hn'⟩ := exchange_good L maxA r hg
        have := hg.2.1
        obtain ⟨n, a, b, c⟩ := ih (exchange L maxA r) hg' (by rw [hn']; omega)
        exact ⟨n + 1, by omega, b, c⟩
  -- phase 1: at most `next - 1` rejected rounds before a good position
  have phase1 : ∀ (k : Nat) (r : Rep), 1 ≤ r.next → r.next ≤ L.length + 1 → r.next ≤ k + 1 →
      ∃ n, n ≤ k ∧ Good L (iter L maxA n r) := by
    intro k
    induction k with
    | zero =>
      intro r a b c
      exact ⟨0, Nat.le_refl _, by simp only [iter]; exact ⟨a, b, Or.inl (by omega)⟩⟩
    | succ k ih =>
      intro r a b c
      by_cases hg : Good L r
      · exact ⟨0, by omega, hg⟩
      · obtain ⟨x, y, z⟩ := exchange_bad L maxA r a b hg
        obtain ⟨n, p, q⟩ := ih (exchange L maxA r) x z (by omega)
        exact ⟨n + 1, by omega, q⟩
  have iter_add : ∀ (a b : Nat) (r : Rep), iter L maxA (a + b) r = iter L maxA b (iter L maxA a r) := by
    intro a
    induction a with
    | zero => intro b r; simp [iter]
    | succ a ih => intro b r; rw [Nat.add_right_comm]; simp only [iter]; exact ih b _
  obtain ⟨n1, a1, g1⟩ := phase1 (r.next - 1) r h1 h2 (by omega)
  obtain ⟨n2, a2, b2, g2⟩ := phase2 (L.length + 1 - (iter L maxA n1 r).next) _ g1 (Nat.le_refl _)
  refine ⟨n1 + n2, ?_, ?_, ?_, ?_⟩
  · have := g1.1; omega
  · rw [iter_add]; exact b2
  · rw [iter_add]
    rcases g2.2.2 with g | ⟨g, _⟩
    · rw [b2] at g; have : L.length = 0 := by omega
      omega
    · rw [b2] at g; simpa using g
  · rw [iter_add]
    rcases g2.2.2 with g | ⟨_, g⟩
    · rw [b2] at g; have : L.length = 0 := by omega
      rw [this]; rfl
    · rw [b2] at g; simpa using g

end RP
