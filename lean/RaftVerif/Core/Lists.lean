import RaftVerif.Core.Model

/-! probe: pure list lemmas about the follower merge -/
namespace RP

theorem take_append_drop_take (T : List Entry) (p k : Nat) :
    T.take p ++ (T.drop p).take k = T.take (p + k) := by
  induction p generalizing T with
  | zero => simp
  | succ p ih =>
    cases T with
    | nil => simp
    | cons x xs =>
      simp only [List.take_succ_cons, List.drop_succ_cons, List.cons_append]
      rw [ih xs]
      have : p + 1 + k = (p + k) + 1 := by omega
      rw [this, List.take_succ_cons]

theorem drop_eq_cons_getElem (L : List Entry) (p : Nat) (h : p < L.length) :
    L.drop p = L[p] :: L.drop (p + 1) := by
  exact List.drop_eq_getElem_cons h

theorem take_succ_eq (L : List Entry) (p : Nat) (h : p < L.length) :
    L.take (p + 1) = L.take p ++ [L[p]] := by
  rw [List.take_succ]
  simp [List.getElem?_eq_getElem h]

theorem take_cons_segment (T : List Entry) (p : Nat) (es : List Entry) (hpT : p < T.length)
    (hes' : es = (T.drop (p + 1)).take es.length) :
    T.take p ++ T[p] :: es = T.take (p + (es.length + 1)) := by
  have h1 : T.take (p + 1) ++ (T.drop (p + 1)).take es.length = T.take (p + 1 + es.length) :=
    take_append_drop_take T (p + 1) es.length
  rw [take_succ_eq T p hpT, ← hes'] at h1
  have : p + (es.length + 1) = p + 1 + es.length := by omega
  rw [this, ← h1]
  simp only [List.append_assoc, List.singleton_append]

/-- The result of the follower merge is either the follower's own log (everything sent was already
    there) or exactly the leader's log through the last sent entry. -/
theorem merge_cases (T : List Entry) (es : List Entry) :
    ∀ (L : List Entry) (p : Nat),
    es = (T.drop p).take es.length → p + es.length ≤ T.length →
    L.take p = T.take p → p ≤ L.length →
    (∀ idx (h1 : idx < L.length) (h2 : idx < T.length),
        L[idx].term = T[idx].term → L.take (idx + 1) = T.take (idx + 1)) →
    (L.take p ++ mergeSuffix (L.drop p) es = L ∨
     L.take p ++ mergeSuffix (L.drop p) es = T.take (p + es.length)) := by
  induction es with
  | nil =>
    intro L p _ _ _ _ _
    left
    cases hd : L.drop p <;> simp [mergeSuffix, ← hd]
  | cons e es ih =>
    intro L p hes hlen hpre hpL hagree
    have hpT : p < T.length := by simp at hlen; omega
    -- e is T[p], es is the following segment
    have hTd : T.drop p = T[p] :: T.drop (p + 1) := drop_eq_cons_getElem T p hpT
    rw [hTd] at hes
    simp only [List.length_cons, List.take_succ_cons, List.cons.injEq] at hes
    obtain ⟨he, hes'⟩ := hes
    by_cases hL : p < L.length
    · -- follower has an entry at this position
      have hLd : L.drop p = L[p] :: L.drop (p + 1) := drop_eq_cons_getElem L p hL
      rw [hLd]
      simp only [mergeSuffix]
      by_cases hterm : L[p].term = e.term
      · simp only [hterm, if_true]
        have hag := hagree p hL hpT (by rw [hterm, he])
        have hstep := ih L (p + 1) hes' (by simp at hlen ⊢; omega) hag (by omega) hagree
        have hre : L.take p ++ L[p] :: mergeSuffix (L.drop (p + 1)) es
            = L.take (p + 1) ++ mergeSuffix (L.drop (p + 1)) es := by
          rw [take_succ_eq L p hL]; simp only [List.append_assoc, List.singleton_append]
        rw [hre]
        rcases hstep with h | h
        · left; exact h
        · right; rw [h]; congr 1; simp only [List.length_cons]; omega
      · simp only [hterm, if_false]
        right
        rw [hpre, he]
        exact take_cons_segment T p es hpT hes'
    · -- follower's log ends here: append everything
      have hnil : L.drop p = [] := by
        apply List.drop_eq_nil_of_le; omega
      rw [hnil]
      right
      have hm : mergeSuffix [] (e :: es) = e :: es := by simp [mergeSuffix]
      rw [hm, hpre, he]
      exact take_cons_segment T p es hpT hes'

/-- The truncation half alone always leaves a prefix of the follower's own log. -/
theorem trunc_prefix (es : List Entry) :
    ∀ (L : List Entry) (p : Nat), p ≤ L.length →
    ∃ m, L.take p ++ truncSuffix (L.drop p) es = L.take m := by
  induction es with
  | nil =>
    intro L p _
    refine ⟨L.length, ?_⟩
    cases hd : L.drop p <;> simp [truncSuffix, ← hd]
  | cons e es ih =>
    intro L p hp
    by_cases hL : p < L.length
    · have hLd : L.drop p = L[p] :: L.drop (p + 1) := drop_eq_cons_getElem L p hL
      rw [hLd]
      simp only [truncSuffix]
      by_cases hterm : L[p].term = e.term
      · simp only [hterm, if_true]
        obtain ⟨m, hm⟩ := ih L (p + 1) (by omega)
        refine ⟨m, ?_⟩
        rw [← hm, take_succ_eq L p hL]; simp only [List.append_assoc, List.singleton_append]
      · simp only [hterm, if_false]
        exact ⟨p, by simp⟩
    · have hnil : L.drop p = [] := by
        apply List.drop_eq_nil_of_le; omega
      rw [hnil]
      exact ⟨p, by simp [truncSuffix]⟩

end RP
