import RaftVerif.Core.SMSafety

/-! probe: snapshot coherence — the snapshot boundary lies on the (ghost) full log, covers only
    committed entries, and compaction never passes it -/
namespace RP

structure Inv6 (n : Nat) (s : Sys) : Prop where
  snap_ok : ∀ v, (s.nodes v).base ≤ (s.nodes v).snapIdx ∧ (s.nodes v).snapIdx ≤ (s.nodes v).log.length ∧
      ((s.nodes v).snapIdx ≠ 0 →
        (s.nodes v).snapTerm = termAt (s.nodes v).log (s.nodes v).snapIdx ∧
        ∃ t k, Committed n s t k ∧ (s.nodes v).snapIdx ≤ k ∧ t ≤ (s.nodes v).term ∧
          (s.nodes v).log.take (s.nodes v).snapIdx = (s.ghost.tl t).take (s.nodes v).snapIdx)
  is_commit : ∀ l t idx iterm, Msg.is l t idx iterm ∈ s.net →
      ∃ t' k, Committed n s t' k ∧ idx ≤ k ∧ t' ≤ t ∧ (s.ghost.tl t).take idx = (s.ghost.tl t').take idx

theorem inv6_init (n : Nat) : Inv6 n init := by
  refine ⟨?_, ?_⟩ <;> simp [init]

theorem termAt_take (L : List Entry) (m k : Nat) (hk : k ≤ m) : termAt (L.take m) k = termAt L k := by
  cases k with
  | zero => rfl
  | succ k' =>
    simp only [termAt]
    rw [List.getElem?_take_of_lt (by omega)]

theorem termAt_of_take_eq' (A B : List Entry) (c k : Nat) (hk : k ≤ c) (h : A.take c = B.take c) :
    termAt A k = termAt B k := by
  rw [← termAt_take A c k hk, ← termAt_take B c k hk, h]

/-- frame lemma for Inv6: logs, snapshot fields and term logs untouched -/
theorem inv6_frame (n : Nat) (s s' : Sys) (h : Inv6 n s)
    (hlog : ∀ j, (s'.nodes j).log = (s.nodes j).log)
    (hsnap : ∀ j, (s'.nodes j).snapIdx = (s.nodes j).snapIdx ∧ (s'.nodes j).snapTerm = (s.nodes j).snapTerm ∧
        (s'.nodes j).base = (s.nodes j).base)
    (hterm : ∀ j, (s.nodes j).term ≤ (s'.nodes j).term)
    (htl : s'.ghost.tl = s.ghost.tl)
    (hacks : ∀ x, x ∈ s.ghost.acks → x ∈ s'.ghost.acks)
    (hnet : ∀ l t idx iterm, Msg.is l t idx iterm ∈ s'.net → Msg.is l t idx iterm ∈ s.net) :
    Inv6 n s' := by
  obtain ⟨e1, e2⟩ := h
  have hmono : ∀ t k, Committed n s t k → Committed n s' t k := by
    intro t k hc
    apply committed_mono n s s' _ hacks t k hc
    intro t k hk; rw [htl]; exact ⟨rfl, hk⟩
  refine ⟨?_, ?_⟩
  · intro v
    obtain ⟨f1, f2, f3⟩ := hsnap v
    rw [hlog, f1, f2, f3]
    obtain ⟨g1, g2, g3⟩ := e1 v
    refine ⟨g1, g2, ?_⟩
    intro hne
    obtain ⟨g4, t, k, c1, c2, c3, c4⟩ := g3 hne
    exact ⟨g4, t, k, hmono t k c1, c2, by have := hterm v; omega, by rw [htl]; exact c4⟩
  · intro l t idx iterm hm
    obtain ⟨t', k, c1, c2, c3, c4⟩ := e2 l t idx iterm (hnet l t idx iterm hm)
    exact ⟨t', k, hmono t' k c1, c2, c3, by rw [htl]; exact c4⟩


theorem handleVote_snap (nd : Node) (c t li lt stage : Nat) :
    let r := handleVote nd c t li lt stage
    r.1.snapIdx = nd.snapIdx ∧ r.1.snapTerm = nd.snapTerm ∧ r.1.base = nd.base := by
  simp only [handleVote]
  by_cases h1 : t < nd.term
  · simp [h1]
  · simp only [h1, if_false]
    by_cases h2 : nd.term < t
    · simp only [h2, if_true]
      split
      · simp
      · split
        · simp
        · split
          · simp
          · split <;> simp
    · simp only [h2, if_false]
      split
      · simp
      · split
        · simp
        · split
          · simp
          · split <;> simp

theorem handleAE_snap (nd : Node) (t p pt : Nat) (es : List Entry) (lc stage : Nat) :
    let r := handleAE nd t p pt es lc stage
    r.1.snapIdx = nd.snapIdx ∧ r.1.snapTerm = nd.snapTerm ∧ r.1.base = nd.base := by
  simp only [handleAE]
  by_cases h1 : t < nd.term
  · simp [h1]
  · simp only [h1, if_false]
    by_cases h2 : nd.term < t ∨ nd.role ≠ .follower
    · simp only [h2, if_true]
      split
      · simp
      · split
        · simp
        · split <;> simp
    · simp only [h2, if_false]
      split
      · simp
      · split
        · simp
        · split <;> simp

/-- a committed prefix of the follower's log survives any merge or truncation against the log of
    a leader whose term is at least the follower's -/
theorem committed_prefix_survives (n : Nat) (s : Sys) (hreach : Reachable n s) (j tm m : Nat) (L' : List Entry)
    (hTne : s.ghost.tl tm ≠ []) (hm : m ≤ (s.ghost.tl tm).length)
    (hshape : L' = (s.nodes j).log ∨
      (∃ q, L' = (s.nodes j).log.take q ∧ (s.nodes j).log.take q = (s.ghost.tl tm).take q ∧
        ∃ (h1 : q < (s.nodes j).log.length) (h2 : q < (s.ghost.tl tm).length),
          (s.nodes j).log[q].term ≠ (s.ghost.tl tm)[q].term) ∨
      (L' = (s.ghost.tl tm).take m ∧ ∃ q, q < m ∧ (s.nodes j).log.take q = (s.ghost.tl tm).take q ∧
        ((s.nodes j).log.length ≤ q ∨ ∃ (h1 : q < (s.nodes j).log.length) (h2 : q < (s.ghost.tl tm).length),
          (s.nodes j).log[q].term ≠ (s.ghost.tl tm)[q].term)))
    (c u k : Nat) (hcom : Committed n s u k) (hck : c ≤ k) (hut : u ≤ tm) (hcL : c ≤ (s.nodes j).log.length)
    (hpre : (s.nodes j).log.take c = (s.ghost.tl u).take c) :
    c ≤ L'.length ∧ L'.take c = (s.nodes j).log.take c := by
  have hinv2 := inv2_reachable n s hreach
  -- the leader's log agrees with the committed prefix
  have hTk : (s.ghost.tl tm).take k = (s.ghost.tl u).take k := by
    rcases Nat.lt_or_ge u tm with hlt | hge
    · obtain ⟨l', Q', hq'⟩ := hinv2.tl_elected tm hTne
      exact leader_completeness n s hreach tm u k l' Q' hcom hq' hlt
    · have : u = tm := by omega
      subst this; rfl
  have hk2 := hcom.2.1
  -- no divergence below c
  have hnodiv : ∀ q, q < c → ∀ (h1 : q < (s.nodes j).log.length) (h2 : q < (s.ghost.tl tm).length),
      (s.nodes j).log[q].term = (s.ghost.tl tm)[q].term := by
    intro q hq h1 h2
    have h3 : q < (s.ghost.tl u).length := by omega
    have e1 := getElem_of_take_eq _ _ c q hpre hq h1 h3
    have e2 := getElem_of_take_eq _ _ k q hTk (by omega) h2 h3
    rw [e1, e2]
  rcases hshape with h | ⟨q, h, hq1, h1, h2, hne⟩ | ⟨h, q, hqm, hq1, hq2⟩
  · rw [h]; exact ⟨hcL, rfl⟩
  · have hcq : c ≤ q := by
      by_contra hnot
      exact hne (hnodiv q (by omega) h1 h2)
    rw [h]
    refine ⟨by simp only [List.length_take]; omega, ?_⟩
    rw [List.take_take, Nat.min_eq_left hcq]
  · have hcq : c ≤ q := by
      by_contra hnot
      rcases hq2 with hlen | ⟨h1, h2, hne⟩
      · omega
      · exact hne (hnodiv q (by omega) h1 h2)
    rw [h]
    refine ⟨by simp only [List.length_take]; omega, ?_⟩
    rw [List.take_take, Nat.min_eq_left (by omega)]
    have e1 : (s.ghost.tl tm).take c = ((s.ghost.tl tm).take q).take c := by
      rw [List.take_take, Nat.min_eq_left hcq]
    have e2 : (s.nodes j).log.take c = ((s.nodes j).log.take q).take c := by
      rw [List.take_take, Nat.min_eq_left hcq]
    rw [e1, ← hq1, ← e2]


theorem inv6_step (n : Nat) (s s' : Sys) (hreach : Reachable n s) (h : Inv6 n s)
    (hstep : Step n s s') : Inv6 n s' := by
  have hinv2 : Inv2 n s := inv2_reachable n s hreach
  have hinv5 : Inv5 n s := inv5_reachable n s hreach
  obtain ⟨l, hen, rfl⟩ := hstep
  cases l with
  | timeout i =>
    apply inv6_frame n s _ h
    · intro j; simp only [apply, setNode_nodes]; split
      · rename_i hj; subst hj; rfl
      · rfl
    · intro j; simp only [apply, setNode_nodes]; split
      · rename_i hj; subst hj; exact ⟨rfl, rfl, rfl⟩
      · exact ⟨rfl, rfl, rfl⟩
    · intro j; simp only [apply, setNode_nodes]; split
      · rename_i hj; subst hj; simp
      · exact Nat.le_refl _
    · rfl
    · intro x hx; exact hx
    · intro l t idx iterm hm
      simp only [apply, List.mem_cons] at hm
      rcases hm with hm | hm
      · cases hm
      · exact hm
  | timeoutCrash i k =>
    apply inv6_frame n s _ h
    · intro j; simp only [apply, setNode_nodes]; split
      · rename_i hj; subst hj; rfl
      · rfl
    · intro j; simp only [apply, setNode_nodes]; split
      · rename_i hj; subst hj; exact ⟨rfl, rfl, rfl⟩
      · exact ⟨rfl, rfl, rfl⟩
    · intro j; simp only [apply, setNode_nodes]; split
      · rename_i hj; subst hj; simp
      · exact Nat.le_refl _
    · rfl
    · intro x hx; exact hx
    · intro l t idx iterm hm; exact hm
  | voteReq j c t li lt stage =>
    have hf := handleVote_log (s.nodes j) c t li lt stage
    simp only at hf
    obtain ⟨f1, f2, f3⟩ := hf
    have hs := handleVote_snap (s.nodes j) c t li lt stage
    simp only at hs
    apply inv6_frame n s _ h
    · intro k; simp only [apply, setNode_nodes]; split
      · rename_i hk; subst hk; exact f1
      · rfl
    · intro k; simp only [apply, setNode_nodes]; split
      · rename_i hk; subst hk; exact hs
      · exact ⟨rfl, rfl, rfl⟩
    · intro k; simp only [apply, setNode_nodes]; split
      · rename_i hk; subst hk; exact f2
      · exact Nat.le_refl _
    · simp only [apply]; exact ghost_if_tl _ _ _ _
    · intro x hx; simp only [apply]; split
      · exact hx
      · exact hx
    · intro l t' idx iterm hm
      simp only [apply, List.mem_cons] at hm
      rcases hm with hm | hm
      · cases hm
      · exact hm
  | voteResp i v t =>
    have hen0 := hen
    simp only [enabled] at hen
    obtain ⟨hi, hv, hm, hc, ht⟩ := hen
    by_cases hwon : quorum n ≤
        (if v ∈ (s.nodes i).tally then (s.nodes i).tally else v :: (s.nodes i).tally).length
    · obtain ⟨hnone, htlnil⟩ := win_fresh n s hreach i v t hen0 hwon
      obtain ⟨e1, e2⟩ := h
      have htl : (apply n s (Label.voteResp i v t)).ghost.tl
          = upd s.ghost.tl t ((s.nodes i).log ++ [(⟨t, 0⟩ : Entry)]) := by
        simp only [apply, hwon, decide_true, if_true]; rfl
      have hacks : (apply n s (Label.voteResp i v t)).ghost.acks
          = (i, t, ((s.nodes i).log ++ [(⟨t, 0⟩ : Entry)]).length) :: s.ghost.acks := by
        simp only [apply, hwon, decide_true, if_true]
      have hnodes : ∀ k, k ≠ i → (apply n s (Label.voteResp i v t)).nodes k = s.nodes k := by
        intro k hk; simp only [apply, setNode_nodes, hk, if_false]
      have hlogi : ((apply n s (Label.voteResp i v t)).nodes i).log
          = (s.nodes i).log ++ [(⟨t, 0⟩ : Entry)] := by
        simp only [apply, hwon, decide_true, if_true, setNode_nodes]
      have hsnapi : ((apply n s (Label.voteResp i v t)).nodes i).snapIdx = (s.nodes i).snapIdx ∧
          ((apply n s (Label.voteResp i v t)).nodes i).snapTerm = (s.nodes i).snapTerm ∧
          ((apply n s (Label.voteResp i v t)).nodes i).base = (s.nodes i).base ∧
          ((apply n s (Label.voteResp i v t)).nodes i).term = (s.nodes i).term := by
        simp only [apply, setNode_nodes, if_true, and_self]
      have htl_o : ∀ u, u ≠ t → upd s.ghost.tl t ((s.nodes i).log ++ [(⟨t, 0⟩ : Entry)]) u = s.ghost.tl u := by
        intro u hu; simp [upd, hu]
      have hcne : ∀ u k, Committed n s u k → u ≠ t := by
        intro u k hcm heq
        subst heq
        have := hcm.2.1; rw [htlnil] at this
        have := hcm.1; simp at *; omega
      have hmono : ∀ u k, Committed n s u k → Committed n (apply n s (Label.voteResp i v t)) u k := by
        intro u k hcm
        apply committed_mono n s _ _ _ u k hcm
        · intro u' k' hk'
          rw [htl]
          by_cases hu : u' = t
          · subst hu; rw [htlnil] at hk'
            have : k' = 0 := by simpa using hk'
            subst this; simp
          · rw [htl_o u' hu]; exact ⟨rfl, hk'⟩
        · intro x hx; rw [hacks]; exact List.mem_cons_of_mem _ hx
      refine ⟨?_, ?_⟩
      · intro k
        by_cases hk : k = i
        · subst hk
          obtain ⟨s1, s2, s3, s4⟩ := hsnapi
          rw [hlogi, s1, s2, s3, s4]
          obtain ⟨g1, g2, g3⟩ := e1 k
          refine ⟨g1, by simp; omega, ?_⟩
          intro hne
          obtain ⟨g4, u, k0, c1, c2, c3, c4⟩ := g3 hne
          refine ⟨?_, u, k0, hmono u k0 c1, c2, c3, ?_⟩
          · rw [g4]
            exact (termAt_of_take_eq' _ _ (s.nodes k).snapIdx (s.nodes k).snapIdx (Nat.le_refl _)
              (List.take_append_of_le_length g2)).symm
          · rw [htl, htl_o u (hcne u k0 c1), List.take_append_of_le_length g2]; exact c4
        · rw [hnodes k hk]
          obtain ⟨g1, g2, g3⟩ := e1 k
          refine ⟨g1, g2, ?_⟩
          intro hne
          obtain ⟨g4, u, k0, c1, c2, c3, c4⟩ := g3 hne
          exact ⟨g4, u, k0, hmono u k0 c1, c2, c3, by rw [htl, htl_o u (hcne u k0 c1)]; exact c4⟩
      · intro l t' idx iterm hm'
        have hm2 : Msg.is l t' idx iterm ∈ s.net := hm'
        obtain ⟨u, k0, c1, c2, c3, c4⟩ := e2 l t' idx iterm hm2
        have ht' : t' ≠ t := by
          intro heq
          have := ((inv2b_reachable n s hreach).is_ok l t' idx iterm hm2).2.nonempty
          rw [heq, htlnil] at this; exact this rfl
        refine ⟨u, k0, hmono u k0 c1, c2, c3, ?_⟩
        rw [htl, htl_o t' ht', htl_o u (hcne u k0 c1)]; exact c4
    · apply inv6_frame n s _ h
      · intro j; simp only [apply, hwon, decide_false, if_false, Bool.false_eq_true, setNode_nodes]; split
        · rename_i hj; subst hj; rfl
        · rfl
      · intro j; simp only [apply, setNode_nodes]; split
        · rename_i hj; subst hj; exact ⟨rfl, rfl, rfl⟩
        · exact ⟨rfl, rfl, rfl⟩
      · intro j; simp only [apply, setNode_nodes]; split
        · rename_i hj; subst hj; exact Nat.le_refl _
        · exact Nat.le_refl _
      · simp only [apply, hwon, decide_false, if_false, Bool.false_eq_true]
      · intro x hx; simp only [apply, hwon, decide_false, if_false, Bool.false_eq_true]; exact hx
      · intro l t' idx iterm hm'; exact hm'
  | crash i =>
    apply inv6_frame n s _ h
    · intro j; simp only [apply, setNode_nodes]; split
      · rename_i hj; subst hj; rfl
      · rfl
    · intro j; simp only [apply, setNode_nodes]; split
      · rename_i hj; subst hj; exact ⟨rfl, rfl, rfl⟩
      · exact ⟨rfl, rfl, rfl⟩
    · intro j; simp only [apply, setNode_nodes]; split
      · rename_i hj; subst hj; exact Nat.le_refl _
      · exact Nat.le_refl _
    · rfl
    · intro x hx; exact hx
    · intro l t idx iterm hm; exact hm
  | dup m =>
    simp only [enabled] at hen
    apply inv6_frame n s _ h
    · intro j; rfl
    · intro j; exact ⟨rfl, rfl, rfl⟩
    · intro j; exact Nat.le_refl _
    · rfl
    · intro x hx; exact hx
    · intro l t idx iterm hm
      simp only [apply, List.mem_cons] at hm
      rcases hm with hm | hm
      · rw [hm]; exact hen
      · exact hm
  | append i p =>
    simp only [enabled] at hen
    obtain ⟨hi, hrole⟩ := hen
    obtain ⟨hlogi, hne, Q0, hQ0⟩ := hinv2.leader_log i hrole
    obtain ⟨e1, e2⟩ := h
    have htl : (apply n s (Label.append i p)).ghost.tl
        = upd s.ghost.tl (s.nodes i).term (s.ghost.tl (s.nodes i).term ++ [(⟨(s.nodes i).term, p⟩ : Entry)]) := by
      simp only [apply, hlogi]; rfl
    have hacks : (apply n s (Label.append i p)).ghost.acks
        = (i, (s.nodes i).term, (s.ghost.tl (s.nodes i).term ++ [(⟨(s.nodes i).term, p⟩ : Entry)]).length) :: s.ghost.acks := by
      simp only [apply, hlogi]
    have hnodes : ∀ k, k ≠ i → (apply n s (Label.append i p)).nodes k = s.nodes k := by
      intro k hk; simp only [apply, setNode_nodes, hk, if_false]
    have hnodei : (apply n s (Label.append i p)).nodes i
        = { (s.nodes i) with log := s.ghost.tl (s.nodes i).term ++ [(⟨(s.nodes i).term, p⟩ : Entry)] } := by
      simp only [apply, setNode_nodes, if_true, hlogi]
    have hmono : ∀ t k, Committed n s t k → Committed n (apply n s (Label.append i p)) t k := by
      intro t k hc
      apply committed_mono n s _ _ _ t k hc
      · intro t k hk
        rw [htl]
        refine ⟨take_upd_extend _ _ _ _ _ hk, ?_⟩
        by_cases ht : t = (s.nodes i).term
        · subst ht; simp [upd]; omega
        · simp only [upd, ht, if_false]; exact hk
      · intro x hx; rw [hacks]; exact List.mem_cons_of_mem _ hx
    refine ⟨?_, ?_⟩
    · intro v
      by_cases hv : v = i
      · subst hv
        rw [hnodei]
        simp only
        obtain ⟨g1, g2, g3⟩ := e1 v
        rw [hlogi] at g2 g3
        refine ⟨g1, by simp; omega, ?_⟩
        intro hne'
        obtain ⟨g4, t, k, c1, c2, c3, c4⟩ := g3 hne'
        refine ⟨?_, t, k, hmono t k c1, c2, c3, ?_⟩
        · rw [g4]
          exact (termAt_of_take_eq' _ _ (s.nodes v).snapIdx (s.nodes v).snapIdx (Nat.le_refl _)
            (List.take_append_of_le_length g2)).symm
        · rw [htl, take_upd_extend _ _ _ _ _ (by have := c1.2.1; omega)]
          rw [List.take_append_of_le_length g2]; exact c4
      · rw [hnodes v hv]
        obtain ⟨g1, g2, g3⟩ := e1 v
        refine ⟨g1, g2, ?_⟩
        intro hne'
        obtain ⟨g4, t, k, c1, c2, c3, c4⟩ := g3 hne'
        refine ⟨g4, t, k, hmono t k c1, c2, c3, ?_⟩
        rw [htl, take_upd_extend _ _ _ _ _ (by have := c1.2.1; omega)]; exact c4
    · intro l t idx iterm hm
      have hm2 : Msg.is l t idx iterm ∈ s.net := hm
      obtain ⟨t', k, c1, c2, c3, c4⟩ := e2 l t idx iterm hm2
      refine ⟨t', k, hmono t' k c1, c2, c3, ?_⟩
      have hlen : idx ≤ (s.ghost.tl t).length := by
        have := ((inv2b_reachable n s hreach).is_ok l t idx iterm hm2).2.len
        simpa using this
      rw [htl, take_upd_extend _ _ _ _ _ hlen, take_upd_extend _ _ _ _ _ (by have := c1.2.1; omega)]
      exact c4
  | sendAE i prevIdx len lc =>
    apply inv6_frame n s _ h
    · intro j; rfl
    · intro j; exact ⟨rfl, rfl, rfl⟩
    · intro j; exact Nat.le_refl _
    · rfl
    · intro x hx; exact hx
    · intro l t idx iterm hm
      simp only [apply, List.mem_cons] at hm
      rcases hm with hm | hm
      · cases hm
      · exact hm
  | recvAE j ldr t prevIdx prevTerm es lc stage =>
    simp only [enabled] at hen
    obtain ⟨hj, hm⟩ := hen
    have hmsg := hinv2.msg_ok ldr t prevIdx prevTerm es lc hm
    have hfull := handleAE_full (s.nodes j) t prevIdx prevTerm es lc stage
    simp only at hfull
    have hsn := handleAE_snap (s.nodes j) t prevIdx prevTerm es lc stage
    simp only at hsn
    obtain ⟨sn1, sn2, sn3⟩ := hsn
    have htl : (apply n s (Label.recvAE j ldr t prevIdx prevTerm es lc stage)).ghost.tl = s.ghost.tl := by
      simp only [apply]; exact ghost_ifa_tl _ _ _
    have hacksub : ∀ x, x ∈ s.ghost.acks →
        x ∈ (apply n s (Label.recvAE j ldr t prevIdx prevTerm es lc stage)).ghost.acks := by
      intro x hx; simp only [apply]; rw [ghost_ifa_acks]; split
      · exact List.mem_cons_of_mem _ hx
      · exact hx
    have hnodes : ∀ k, k ≠ j →
        (apply n s (Label.recvAE j ldr t prevIdx prevTerm es lc stage)).nodes k = s.nodes k := by
      intro k hk; simp only [apply, setNode_nodes, hk, if_false]
    have hnodej : (apply n s (Label.recvAE j ldr t prevIdx prevTerm es lc stage)).nodes j
        = (handleAE (s.nodes j) t prevIdx prevTerm es lc stage).1 := by
      simp only [apply, setNode_nodes, if_true]
    have hnet : ∀ l' t' idx' iterm', Msg.is l' t' idx' iterm' ∈
        (apply n s (Label.recvAE j ldr t prevIdx prevTerm es lc stage)).net →
        Msg.is l' t' idx' iterm' ∈ s.net := by
      intro l' t' idx' iterm' hm'
      simp only [apply] at hm'
      split at hm'
      · rcases List.mem_cons.mp hm' with h | h
        · cases h
        · exact h
      · exact hm'
    have hmono : ∀ u k, Committed n s u k →
        Committed n (apply n s (Label.recvAE j ldr t prevIdx prevTerm es lc stage)) u k := by
      intro u k hc
      apply committed_mono n s _ _ hacksub u k hc
      intro u' k' hk'; rw [htl]; exact ⟨rfl, hk'⟩
    obtain ⟨e1, e2⟩ := h
    -- what happens to node j's log
    have hjlog : (handleAE (s.nodes j) t prevIdx prevTerm es lc stage).1.log = (s.nodes j).log ∨
        ((s.nodes j).term ≤ t ∧ (handleAE (s.nodes j) t prevIdx prevTerm es lc stage).1.term = t ∧
          ((handleAE (s.nodes j) t prevIdx prevTerm es lc stage).1.log = (s.nodes j).log ∨
           (∃ q, (handleAE (s.nodes j) t prevIdx prevTerm es lc stage).1.log = (s.nodes j).log.take q ∧
              (s.nodes j).log.take q = (s.ghost.tl t).take q ∧
              ∃ (h1 : q < (s.nodes j).log.length) (h2 : q < (s.ghost.tl t).length),
                (s.nodes j).log[q].term ≠ (s.ghost.tl t)[q].term) ∨
           ((handleAE (s.nodes j) t prevIdx prevTerm es lc stage).1.log
                = (s.ghost.tl t).take (prevIdx + es.length) ∧
              ∃ q, q < prevIdx + es.length ∧ (s.nodes j).log.take q = (s.ghost.tl t).take q ∧
                ((s.nodes j).log.length ≤ q ∨ ∃ (h1 : q < (s.nodes j).log.length)
                  (h2 : q < (s.ghost.tl t).length), (s.nodes j).log[q].term ≠ (s.ghost.tl t)[q].term)))) := by
      rcases hfull with ⟨hsame, _⟩ | ⟨frole, fterm, fle, hrest⟩
      · left; rw [hsame]
      · rcases hrest with ⟨_, hlogsame⟩ | ⟨hchk, hcase⟩
        · left; exact hlogsame
        · right
          refine ⟨fle, fterm, ?_⟩
          have hpL : prevIdx ≤ (s.nodes j).log.length := by
            rcases hchk with h0 | ⟨h1, _⟩
            · omega
            · exact h1
          have hpre : (s.nodes j).log.take prevIdx = (s.ghost.tl t).take prevIdx := by
            cases prevIdx with
            | zero => simp
            | succ k =>
              rcases hchk with h0 | ⟨h1, h2⟩
              · omega
              · have hkL : k < (s.nodes j).log.length := by omega
                have hkT : k < (s.ghost.tl t).length := by have := hmsg.len; omega
                have q1 := termAt_succ (s.nodes j).log k hkL
                have q2 := termAt_succ (s.ghost.tl t) k hkT
                have q3 := hmsg.pterm
                exact prefixOK_agree _ _ _ (hinv2.log_ok j) (hinv2.tl_ok t) k hkL hkT (by rw [← q1, h2, q3, q2])
          have hagree : ∀ idx (h1 : idx < (s.nodes j).log.length) (h2 : idx < (s.ghost.tl t).length),
              (s.nodes j).log[idx].term = (s.ghost.tl t)[idx].term →
              (s.nodes j).log.take (idx + 1) = (s.ghost.tl t).take (idx + 1) :=
            fun idx h1 h2 ht => prefixOK_agree _ _ _ (hinv2.log_ok j) (hinv2.tl_ok t) idx h1 h2 ht
          rcases hcase with ⟨_, hlogt⟩ | ⟨_, hlogm⟩
          · rw [hlogt]
            rcases trunc_cases2 (s.ghost.tl t) es (s.nodes j).log prevIdx hmsg.seg hmsg.len hpre hpL hagree
              with hres | ⟨q, q1, q2, q3, q4, q5⟩
            · exact Or.inl hres
            · exact Or.inr (Or.inl ⟨q, q3, q4, q5⟩)
          · rw [hlogm]
            rcases merge_cases2 (s.ghost.tl t) es (s.nodes j).log prevIdx hmsg.seg hmsg.len hpre hpL hagree
              with ⟨hres, _⟩ | ⟨hres, q, q1, q2, q3, q4⟩
            · exact Or.inl hres
            · exact Or.inr (Or.inr ⟨hres, q, q2, q3, q4⟩)
    have hjterm : (s.nodes j).term ≤ (handleAE (s.nodes j) t prevIdx prevTerm es lc stage).1.term := by
      rcases hfull with ⟨hsame, _⟩ | ⟨_, fterm, fle, _⟩
      · rw [hsame]
      · rw [fterm]; exact fle
    refine ⟨?_, ?_⟩
    · intro v
      by_cases hv : v = j
      · subst hv
        rw [hnodej, sn1, sn2, sn3]
        obtain ⟨g1, g2, g3⟩ := e1 v
        rcases hjlog with hl | ⟨fle, fterm, hshape⟩
        · rw [hl]
          refine ⟨g1, g2, ?_⟩
          intro hne
          obtain ⟨g4, u, k, c1, c2, c3, c4⟩ := g3 hne
          exact ⟨g4, u, k, hmono u k c1, c2, by omega, by rw [htl]; exact c4⟩
        · by_cases hs0 : (s.nodes v).snapIdx = 0
          · rw [hs0]; exact ⟨by omega, Nat.zero_le _, fun hne => absurd rfl hne⟩
          · obtain ⟨g4, u, k, c1, c2, c3, c4⟩ := g3 hs0
            obtain ⟨p1, p2⟩ := committed_prefix_survives n s hreach v t (prevIdx + es.length) _
              hmsg.nonempty hmsg.len hshape (s.nodes v).snapIdx u k c1 c2 (by omega) g2 c4
            refine ⟨g1, p1, ?_⟩
            intro _
            refine ⟨?_, u, k, hmono u k c1, c2, by rw [fterm]; omega, by rw [htl, p2]; exact c4⟩
            rw [g4]
            exact (termAt_of_take_eq' _ _ (s.nodes v).snapIdx (s.nodes v).snapIdx (Nat.le_refl _) p2).symm
      · rw [hnodes v hv]
        obtain ⟨g1, g2, g3⟩ := e1 v
        refine ⟨g1, g2, ?_⟩
        intro hne
        obtain ⟨g4, u, k, c1, c2, c3, c4⟩ := g3 hne
        exact ⟨g4, u, k, hmono u k c1, c2, c3, by rw [htl]; exact c4⟩
    · intro l' t' idx' iterm' hm'
      obtain ⟨u, k, c1, c2, c3, c4⟩ := e2 l' t' idx' iterm' (hnet _ _ _ _ hm')
      exact ⟨u, k, hmono u k c1, c2, c3, by rw [htl]; exact c4⟩
  | advanceCommit i k Q =>
    apply inv6_frame n s _ h
    · intro j; simp only [apply, setNode_nodes]; split
      · rename_i hj; subst hj; rfl
      · rfl
    · intro j; simp only [apply, setNode_nodes]; split
      · rename_i hj; subst hj; exact ⟨rfl, rfl, rfl⟩
      · exact ⟨rfl, rfl, rfl⟩
    · intro j; simp only [apply, setNode_nodes]; split
      · rename_i hj; subst hj; exact Nat.le_refl _
      · exact Nat.le_refl _
    · rfl
    · intro x hx; exact hx
    · intro l t idx iterm hm; exact hm
  | fsmApply i =>
    rcases fsmApply_cases n s i with heq | ⟨e, _, heq⟩
    · rw [heq]; exact h
    · rw [heq]
      apply inv6_frame n s _ h
      · intro j; simp only [setNode_nodes]; split
        · rename_i hj; subst hj; rfl
        · rfl
      · intro j; simp only [setNode_nodes]; split
        · rename_i hj; subst hj; exact ⟨rfl, rfl, rfl⟩
        · exact ⟨rfl, rfl, rfl⟩
      · intro j; simp only [setNode_nodes]; split
        · rename_i hj; subst hj; exact Nat.le_refl _
        · exact Nat.le_refl _
      · rfl
      · intro x hx; exact hx
      · intro l t idx iterm hm; exact hm
  | fsmRestore i =>
    apply inv6_frame n s _ h
    · intro j; simp only [apply, setNode_nodes]; split
      · rename_i hj; subst hj; rfl
      · rfl
    · intro j; simp only [apply, setNode_nodes]; split
      · rename_i hj; subst hj; exact ⟨rfl, rfl, rfl⟩
      · exact ⟨rfl, rfl, rfl⟩
    · intro j; simp only [apply, setNode_nodes]; split
      · rename_i hj; subst hj; exact Nat.le_refl _
      · exact Nat.le_refl _
    · rfl
    · intro x hx; exact hx
    · intro l t idx iterm hm; exact hm
  | compact i b =>
    simp only [enabled] at hen
    obtain ⟨hi, hb⟩ := hen
    obtain ⟨e1, e2⟩ := h
    refine ⟨?_, e2⟩
    intro v
    simp only [apply, setNode_nodes]
    split
    · rename_i hv; subst hv
      obtain ⟨g1, g2, g3⟩ := e1 v
      exact ⟨by simp only; omega, g2, g3⟩
    · exact e1 v
  | takeSnap i k =>
    simp only [enabled] at hen
    obtain ⟨hi, hk1, hk2, hk3⟩ := hen
    obtain ⟨e1, e2⟩ := h
    refine ⟨?_, e2⟩
    intro v
    simp only [apply, setNode_nodes]
    split
    · rename_i hv; subst hv
      obtain ⟨g1, g2, g3⟩ := e1 v
      obtain ⟨c1, c2⟩ := hinv5.commit_ok v
      refine ⟨by simp only; omega, by simp only; omega, ?_⟩
      intro _
      obtain ⟨t, k0, d1, d2, d3, d4⟩ := c2 (by omega)
      refine ⟨rfl, t, k0, d1, by simp only; omega, d3, ?_⟩
      simp only
      have := congrArg (List.take k) d4
      rwa [List.take_take, List.take_take, Nat.min_eq_left hk2] at this
    · exact e1 v
  | sendIS i =>
    simp only [enabled] at hen
    obtain ⟨hi, hrole, hs1, hs2⟩ := hen
    obtain ⟨hlogi, hne, _, _⟩ := hinv2.leader_log i hrole
    obtain ⟨e1, e2⟩ := h
    refine ⟨e1, ?_⟩
    intro l t idx iterm hm
    simp only [apply, List.mem_cons] at hm
    rcases hm with hm | hm
    · injection hm with q1 q2 q3 q4
      subst q1 q2 q3 q4
      obtain ⟨g1, g2, g3⟩ := e1 l
      obtain ⟨_, t', k, c1, c2, c3, c4⟩ := g3 (by omega)
      exact ⟨t', k, c1, c2, c3, by show (s.ghost.tl (s.nodes l).term).take _ = (s.ghost.tl t').take _; rw [← hlogi]; exact c4⟩
    · exact e2 l t idx iterm hm
  | recvIS j ldr t idx iterm =>
    simp only [enabled] at hen
    obtain ⟨hj, hm⟩ := hen
    obtain ⟨hidx1, hmsg⟩ := (inv2b_reachable n s hreach).is_ok ldr t idx iterm hm
    have hlen : idx ≤ (s.ghost.tl t).length := by have := hmsg.len; simpa using this
    obtain ⟨e1, e2⟩ := h
    obtain ⟨ut, kt, w1, w2, w3, w4⟩ := e2 ldr t idx iterm hm
    have htl : (apply n s (Label.recvIS j ldr t idx iterm)).ghost.tl = s.ghost.tl := by
      simp only [apply]; exact ghost_ifa_tl _ _ _
    have hacksub : ∀ x, x ∈ s.ghost.acks →
        x ∈ (apply n s (Label.recvIS j ldr t idx iterm)).ghost.acks := by
      intro x hx; simp only [apply]; rw [ghost_ifa_acks]; split
      · exact List.mem_cons_of_mem _ hx
      · exact hx
    have hnodes : ∀ k, k ≠ j → (apply n s (Label.recvIS j ldr t idx iterm)).nodes k = s.nodes k := by
      intro k hk; simp only [apply, setNode_nodes, hk, if_false]
    have hnodej : (apply n s (Label.recvIS j ldr t idx iterm)).nodes j
        = (handleIS (s.nodes j) (s.ghost.tl t) t idx iterm).1 := by
      simp only [apply, setNode_nodes, if_true]
    have hnet : ∀ l' t' idx' iterm', Msg.is l' t' idx' iterm' ∈
        (apply n s (Label.recvIS j ldr t idx iterm)).net → Msg.is l' t' idx' iterm' ∈ s.net := by
      intro l' t' idx' iterm' hm'
      simp only [apply] at hm'
      split at hm'
      · rcases List.mem_cons.mp hm' with h | h
        · cases h
        · exact h
      · exact hm'
    have hmono : ∀ u k, Committed n s u k →
        Committed n (apply n s (Label.recvIS j ldr t idx iterm)) u k := by
      intro u k hc
      apply committed_mono n s _ _ hacksub u k hc
      intro u' k' hk'; rw [htl]; exact ⟨rfl, hk'⟩
    have hagree : ∀ i (h1 : i < (s.nodes j).log.length) (h2 : i < (s.ghost.tl t).length),
        (s.nodes j).log[i].term = (s.ghost.tl t)[i].term →
        (s.nodes j).log.take (i + 1) = (s.ghost.tl t).take (i + 1) :=
      fun i h1 h2 ht => prefixOK_agree _ _ _ (hinv2.log_ok j) (hinv2.tl_ok t) i h1 h2 ht
    refine ⟨?_, ?_⟩
    · intro v
      by_cases hv : v = j
      · subst hv
        rw [hnodej]
        obtain ⟨g1, g2, g3⟩ := e1 v
        simp only [handleIS]
        by_cases h1 : t < (s.nodes v).term
        · simp only [h1, if_true]
          refine ⟨g1, g2, ?_⟩
          intro hne
          obtain ⟨g4, u, k, c1, c2, c3, c4⟩ := g3 hne
          exact ⟨g4, u, k, hmono u k c1, c2, c3, by rw [htl]; exact c4⟩
        · simp only [h1, if_false]
          -- nd1 differs from the node only in term/role/tally
          have hnd1 : ∀ (nd1 : Node), nd1.log = (s.nodes v).log → nd1.snapIdx = (s.nodes v).snapIdx →
              nd1.snapTerm = (s.nodes v).snapTerm → nd1.base = (s.nodes v).base → (s.nodes v).term ≤ nd1.term →
              nd1.term = t →
              let r := (if idx ≤ nd1.log.length ∧ termAt nd1.log idx = iterm then
                  ({ nd1 with snapIdx := max nd1.snapIdx idx,
                              snapTerm := if nd1.snapIdx < idx then iterm else nd1.snapTerm }, true)
                else ({ nd1 with log := (s.ghost.tl t).take idx, base := idx, snapIdx := idx,
                                 snapTerm := iterm }, true) : Node × Bool)
              r.1.base ≤ r.1.snapIdx ∧ r.1.snapIdx ≤ r.1.log.length ∧
              (r.1.snapIdx ≠ 0 → r.1.snapTerm = termAt r.1.log r.1.snapIdx ∧
                ∃ u k, Committed n (apply n s (Label.recvIS v ldr t idx iterm)) u k ∧ r.1.snapIdx ≤ k ∧
                  u ≤ r.1.term ∧
                  r.1.log.take r.1.snapIdx
                    = ((apply n s (Label.recvIS v ldr t idx iterm)).ghost.tl u).take r.1.snapIdx) := by
            intro nd1 hl hsi hst hb hterm hterm2
            simp only
            split
            · rename_i hh
              obtain ⟨hh1, hh2⟩ := hh
              simp only
              rw [hl] at hh1 hh2 ⊢
              rw [hsi, hst, hb]
              by_cases hlt : (s.nodes v).snapIdx < idx
              · rw [Nat.max_eq_right (by omega)]
                simp only [hlt, if_true]
                refine ⟨by omega, hh1, ?_⟩
                intro _
                refine ⟨hh2.symm, ut, kt, hmono ut kt w1, w2, by omega, ?_⟩
                rw [htl, ← w4]
                obtain ⟨k', rfl⟩ : ∃ k', idx = k' + 1 := ⟨idx - 1, by omega⟩
                apply hagree k' (by omega) (by omega)
                rw [← termAt_succ _ k' (by omega), hh2, hmsg.pterm, termAt_succ _ k' (by omega)]
              · rw [Nat.max_eq_left (by omega)]
                simp only [hlt, if_false]
                refine ⟨g1, g2, ?_⟩
                intro hne
                obtain ⟨g4, u, k, c1, c2, c3, c4⟩ := g3 hne
                exact ⟨g4, u, k, hmono u k c1, c2, by omega, by rw [htl]; exact c4⟩
            · simp only
              refine ⟨Nat.le_refl _, by simp only [List.length_take]; omega, ?_⟩
              intro _
              refine ⟨?_, ut, kt, hmono ut kt w1, w2, by omega, ?_⟩
              · rw [termAt_take _ _ _ (Nat.le_refl _)]; exact hmsg.pterm
              · rw [htl, List.take_take, Nat.min_self]; exact w4
          by_cases h2 : (s.nodes v).term < t ∨ (s.nodes v).role ≠ .follower
          · simp only [h2, if_true]
            have hle : (s.nodes v).term ≤ t := by omega
            exact hnd1 { (s.nodes v) with term := t, role := .follower, tally := [] } rfl rfl rfl rfl hle rfl
          · simp only [h2, if_false]
            have hterm : (s.nodes v).term = t := by
              have : ¬ (s.nodes v).term < t := fun hlt => h2 (Or.inl hlt)
              omega
            exact hnd1 (s.nodes v) rfl rfl rfl rfl (Nat.le_refl _) hterm
      · rw [hnodes v hv]
        obtain ⟨g1, g2, g3⟩ := e1 v
        refine ⟨g1, g2, ?_⟩
        intro hne
        obtain ⟨g4, u, k, c1, c2, c3, c4⟩ := g3 hne
        exact ⟨g4, u, k, hmono u k c1, c2, c3, by rw [htl]; exact c4⟩
    · intro l' t' idx' iterm' hm'
      obtain ⟨u, k, c1, c2, c3, c4⟩ := e2 l' t' idx' iterm' (hnet _ _ _ _ hm')
      exact ⟨u, k, hmono u k c1, c2, c3, by rw [htl]; exact c4⟩

end RP

namespace RP

theorem inv6_reachable (n : Nat) (s : Sys) (h : Reachable n s) : Inv6 n s := by
  induction h with
  | init => exact inv6_init n
  | step hr hs ih => exact inv6_step n _ _ hr ih hs

/-- **Coverage.**  Every index up to a server's last index is covered by its snapshot or still in its
    stored log (the stored log is the window `(base, last]` of the full log, and compaction never
    passes the snapshot), and the snapshot's (index, term) is the entry of the full log at that index. -/
theorem snapshot_coverage (n : Nat) (s : Sys) (h : Reachable n s) (v i : Nat)
    (hi1 : 1 ≤ i) (hi2 : i ≤ (s.nodes v).log.length) :
    (i ≤ (s.nodes v).snapIdx ∨ (s.nodes v).base < i) ∧
    ((s.nodes v).snapIdx ≠ 0 → (s.nodes v).snapTerm = termAt (s.nodes v).log (s.nodes v).snapIdx) := by
  obtain ⟨g1, g2, g3⟩ := (inv6_reachable n s h).snap_ok v
  refine ⟨by omega, fun hne => (g3 hne).1⟩

/-- **State-machine safety with snapshots.**  What a server has applied is bounded by
    `max commit snapIdx` (a restored snapshot may run ahead of the commit index it knows); any two
    servers agree on every index both have reached. -/
theorem state_machine_safety_snap (n : Nat) (s : Sys) (h : Reachable n s) (v v' c : Nat)
    (hv : c ≤ max (s.nodes v).commit (s.nodes v).snapIdx)
    (hv' : c ≤ max (s.nodes v').commit (s.nodes v').snapIdx) :
    (s.nodes v).log.take c = (s.nodes v').log.take c := by
  by_cases hc0 : c = 0
  · subst hc0; simp
  have i2 := inv2_reachable n s h
  have i5 := inv5_reachable n s h
  have i6 := inv6_reachable n s h
  -- each server's reached prefix lies on some committed term log
  have hw : ∀ w, c ≤ max (s.nodes w).commit (s.nodes w).snapIdx →
      ∃ t k, Committed n s t k ∧ c ≤ k ∧ (s.nodes w).log.take c = (s.ghost.tl t).take c := by
    intro w hw
    by_cases hcm : c ≤ (s.nodes w).commit
    · obtain ⟨t, k, a1, a2, _, a4⟩ := (i5.commit_ok w).2 (by omega)
      refine ⟨t, k, a1, by omega, ?_⟩
      have := congrArg (List.take c) a4
      rwa [List.take_take, List.take_take, Nat.min_eq_left hcm] at this
    · have hsn : c ≤ (s.nodes w).snapIdx := by omega
      obtain ⟨_, _, g3⟩ := i6.snap_ok w
      obtain ⟨_, t, k, a1, a2, _, a4⟩ := g3 (by omega)
      refine ⟨t, k, a1, by omega, ?_⟩
      have := congrArg (List.take c) a4
      rwa [List.take_take, List.take_take, Nat.min_eq_left hsn] at this
  obtain ⟨t1, k1, a1, a2, a3⟩ := hw v hv
  obtain ⟨t2, k2, b1, b2, b3⟩ := hw v' hv'
  rw [a3, b3]
  have key : ∀ ta ka tb kb, Committed n s ta ka → Committed n s tb kb → c ≤ ka → ta < tb →
      (s.ghost.tl ta).take c = (s.ghost.tl tb).take c := by
    intro ta ka tb kb ca cb hca hlt
    have hne : s.ghost.tl tb ≠ [] := by
      intro hnil; have := cb.2.1; have := cb.1; rw [hnil] at *; simp at *; omega
    obtain ⟨l', Q', hq'⟩ := i2.tl_elected tb hne
    have hlc := leader_completeness n s h tb ta ka l' Q' ca hq' hlt
    have := congrArg (List.take c) hlc
    rw [List.take_take, List.take_take, Nat.min_eq_left hca] at this
    exact this.symm
  rcases Nat.lt_trichotomy t1 t2 with hlt | heq | hgt
  · exact key t1 k1 t2 k2 a1 b1 a2 hlt
  · rw [heq]
  · exact (key t2 k2 t1 k1 b1 a1 b2 hgt).symm

end RP
