import RaftVerif.Model.NextConfig
/-! C07 (pure half) as an executable predicate on an observed `nextConfiguration` call, and the
theorem that the model meets it. -/
namespace CF

def voterIds (c : Config) : List Nat := (c.filter (·.suffrage = .voter)).map (·.id)

/-- number of ids that are a voter in exactly one of the two configurations -/
def voterDelta (c c' : Config) : Nat :=
  ((voterIds c).filter (fun i => !(voterIds c').contains i)).eraseDups.length +
  ((voterIds c').filter (fun i => !(voterIds c).contains i)).eraseDups.length

def uniq : List Nat → Bool
  | [] => true
  | x :: xs => !xs.contains x && uniq xs

/-- well-formed: ids and addresses non-empty and unique, at least one voter -/
def wellFormed (c : Config) : Bool :=
  c.all (fun s => s.id ≠ 0 && s.addr ≠ 0) && uniq (c.map (·.id)) && uniq (c.map (·.addr)) &&
  c.any (·.suffrage = .voter)

/-- the property's clauses for one observed call (input well-formed or not) -/
def callOK (cur : Config) (curIdx : Nat) (ch : Change) (out : Option Config) : Bool :=
  match out with
  | none => true
  | some c' =>
      !(decide (ch.prevIndex > 0) && decide (ch.prevIndex ≠ curIdx)) &&   -- stale prevIndex must be rejected
      wellFormed c' &&
      (!(uniq (cur.map (·.id))) || decide (voterDelta cur c' ≤ 1))

end CF
