import RaftVerif.Model.Commitment
/-! C05 (bookkeeping half) as an executable predicate on an *observed* step of a commitment
tracker — what the property states and nothing more — and the theorem that the model meets it. -/
namespace CM

/-- The property's clauses for one observed step `pre → post` (any implementation's):
    * the commit index never decreases;
    * the current-term floor never changes;
    * if the commit index changed, a strict majority of the voters now in force have a match index
      at least the new value, and the new value is at least `startIndex`. -/
def stepOK (pre post : Commitment) : Bool :=
  decide (pre.commitIndex ≤ post.commitIndex) &&
  decide (post.startIndex = pre.startIndex) &&
  (decide (post.commitIndex = pre.commitIndex) ||
    (decide (post.matchIndexes.length < 2 * support post post.commitIndex) &&
     decide (pre.startIndex ≤ post.commitIndex)))

/-- only voters of the configuration in force are tracked, each once: the table's keys are exactly
    the given voter ids -/
def keysOK (post : Commitment) (voters : List Nat) : Bool :=
  decide (post.matchIndexes.map (·.1) = voters)

theorem model_stepOK (c : Commitment) (op : Op) : stepOK c (step c op) = true := by
  obtain ⟨h1, h2, h3⟩ := step_spec c op
  unfold stepOK
  by_cases hc : (step c op).commitIndex = c.commitIndex
  · simp [h1, h2, hc]
  · obtain ⟨a, b, _⟩ := h3 hc
    simp [h1, h2, a, b]

theorem model_keysOK_setConfig (c : Commitment) (vs : List Nat) :
    keysOK (step c (.setConfig vs)) vs = true := by
  have : (recalculate { c with matchIndexes := vs.map (fun id => (id, (lookup c.matchIndexes id).getD 0)) }).matchIndexes
      = vs.map (fun id => (id, (lookup c.matchIndexes id).getD 0)) := (recalculate_spec _).1
  simp [keysOK, step, setConfiguration, this, Function.comp_def]

theorem setKey_keys (m : List (Nat × Nat)) (id v : Nat) : (setKey m id v).map (·.1) = m.map (·.1) := by
  induction m with
  | nil => rfl
  | cons p ps ih =>
    simp only [setKey, List.map_cons] at ih ⊢
    rw [ih]
    by_cases h : p.1 = id <;> simp [h]

/-- `match` never changes the set of tracked servers (a non-voter's report is a no-op) -/
theorem model_keys_match (c : Commitment) (id idx : Nat) :
    (step c (.match_ id idx)).matchIndexes.map (·.1) = c.matchIndexes.map (·.1) := by
  simp only [step, matchOp]
  split
  · split
    · rw [(recalculate_spec _).1]; exact setKey_keys _ _ _
    · rfl
  · rfl

end CM
