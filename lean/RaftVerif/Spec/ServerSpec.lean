import RaftVerif.Model.World
/-! Executable Spec predicates over an *observed* single-server run (any implementation's): what
properties C04, C06, C10, C11, C14 and the local halves of C02/C05 demand of the observable
effects of each event.  They speak only about requests, responses, durable images, reported
volatile state and FSM calls — never about how a handler is written. -/
namespace SV

/-- what a monitor sees of one observation -/
structure View where
  dead : Bool
  panic : Bool
  resp : Resp
  writes : List (String × Nat × Nat)    -- performed durable writes, projected (`writeKey`)
  vol : Vol
  dur : Durable
  fsm : List FsmCall

/-- performed writes are compared and monitored through a projection (the harness sees
    `StoreLogs(n, first)`) -/
def writeKey : Write → String × Nat × Nat
  | .setTerm t => ("T", t, 0)
  | .setVoteTerm t => ("VT", t, 0)
  | .setVoteCand c => ("VC", c, 0)
  | .deleteRange lo hi => ("DR", lo, hi)
  | .storeLogs es => ("SL", es.length, (es.head?.map (·.index)).getD 0)
  | .stage i => ("SG", i, 0)
  | .snapSave s => ("SC", s.idx, s.term)

def Obs.view (o : Obs) : View := ⟨o.dead, o.panic, o.resp, o.writes.map writeKey, o.vol, o.dur, o.fsm⟩

/-- one step of an observed run -/
structure Step where
  ev : Event
  pre : View
  post : View

/-! ## generic helpers -/

/-- the newest snapshot that can be read back -/
def newestSnap (d : Durable) : Option Snap := usableSnap d

def maxIndex (l : List Entry) : Nat := l.foldl (fun m e => max m e.index) 0

/-- the server's durable tail: the last stored entry, or the newest snapshot if that is further -/
def durableTail (d : Durable) : Nat × Nat :=
  let li := maxIndex d.log
  let lt := ((getLog d.log li).map (·.term)).getD 0
  match newestSnap d with
  | some s => if li ≥ s.idx ∧ li ≠ 0 then (li, lt) else (s.idx, s.term)
  | none => (li, lt)

/-- candidate's last (index, term) at least as up-to-date as `(i, t)` -/
def upToDate (qIdx qTerm i t : Nat) : Bool := qTerm > t || (qTerm == t && qIdx ≥ i)

/-! ## C06 — vote and term integrity -/

/-- a pass of the candidate loop that ends in leadership leaves the server's own vote for itself, in
    that term, on disk (if it has a vote): otherwise it could still grant that term's vote to a rival -/
def leaderHasOwnVote : List Step → Nat → Option Nat
  | [], _ => none
  | s :: rest, k =>
    match s.ev with
    | .campaign _ =>
      if !s.post.dead && !s.post.panic && decide (s.post.vol.role = .leader) && decide (s.pre.vol.role ≠ .leader) &&
         hasVote s.post.vol.latest selfId &&
         !(s.post.dur.voteTerm == s.post.vol.term && s.post.dur.voteCand == some selfAddr && s.post.dur.curTerm == s.post.vol.term)
      then some k else leaderHasOwnVote rest (k + 1)
    | _ => leaderHasOwnVote rest (k + 1)


/-- grants `(term, candidate)` of a run, in order -/
def grantsOf : List Step → List (Nat × Nat)
  | [] => []
  | s :: rest =>
    match s.ev, s.post.resp with
    | .vote q _ _, .vote _ true => (q.term, q.cand) :: grantsOf rest
    | _, _ => grantsOf rest

def oneVotePerTerm (g : List (Nat × Nat)) : Bool :=
  g.all (fun a => g.all (fun b => a.1 ≠ b.1 || a.2 == b.2))

/-- terms reported along a run (responses and the term each observation shows), in order -/
def respTerm : Resp → Option Nat
  | .vote t _ => some t
  | .prevote _ _ => none          -- a pre-vote response echoes the *candidate's* prospective term
  | .append t _ _ _ => some t
  | .install t _ _ => some t
  | _ => none

def reportedTerms : List Step → List Nat
  | [] => []
  | s :: rest =>
    (match respTerm s.post.resp with | some t => [t] | none => []) ++
    (if s.post.dead then [] else [s.post.vol.term]) ++ reportedTerms rest

def nondecreasing : List Nat → Bool
  | a :: b :: rest => a ≤ b && nondecreasing (b :: rest)
  | _ => true

/-- a grant must be to a candidate at least as up-to-date as the voter's durable tail, unless the
    very same grant `(term, candidate)` is on record as a *completed* vote: both vote writes performed
    by one earlier event of this run, or the record of the initial image (given the benefit of the
    doubt).  An event that writes the vote term without the candidate leaves no completed record.
    `known` = the completed record, if any. -/
def votesUpToDate : Option (Nat × Nat) → List Step → Nat → Option Nat
  | _, [], _ => none
  | known, s :: rest, k =>
    let bad : Bool :=
      match s.ev, s.post.resp with
      | .vote q _ _, .vote _ true =>
          let tl := durableTail s.pre.dur
          !(upToDate q.lastIdx q.lastTerm tl.1 tl.2) && known != some (q.term, q.cand)
      | _, _ => false
    if bad then some k
    else
      let vt := s.post.writes.find? (·.1 = "VT")
      let vc := s.post.writes.find? (·.1 = "VC")
      let known' := match vt, vc with
        | some a, some b => some (a.2.1, b.2.1)
        | some _, none => none
        | none, _ => known
      votesUpToDate known' rest (k + 1)

/-- C14: a pre-vote, too, is granted only to a candidate whose log is at least as up to date as the
    server's durable tail (a lagging server must not be encouraged to run elections it cannot win) -/
def preVotesUpToDate : List Step → Nat → Option Nat
  | [], _ => none
  | s :: rest, k =>
    let bad : Bool :=
      match s.ev, s.post.resp with
      | .prevote q, .prevote _ true =>
          let tl := durableTail s.pre.dur
          !(upToDate q.lastIdx q.lastTerm tl.1 tl.2)
      | _, _ => false
    if bad then some k else preVotesUpToDate rest (k + 1)

/-- a grant goes only to a voting member of the configuration the server has (when it has one and
    the request names its sender) -/
def votesToVotersOnly : List Step → Nat → Option Nat
  | [], _ => none
  | s :: rest, k =>
    let bad : Bool :=
      match s.ev, s.post.resp with
      | .vote q _ _, .vote _ true => q.candId ≠ 0 && s.pre.vol.latest ≠ [] && !(hasVote s.pre.vol.latest q.candId)
      | _, _ => false
    if bad then some k else votesToVotersOnly rest (k + 1)

/-! ## C14 — a pre-vote request changes nothing -/

def preVoteInert : List Step → Nat → Option Nat
  | [], _ => none
  | s :: rest, k =>
    let bad : Bool :=
      match s.ev with
      | .prevote _ => decide (s.post.vol ≠ s.pre.vol) || decide (s.post.dur ≠ s.pre.dur) || s.post.fsm ≠ [] || s.post.panic
      | _ => false
    if bad then some k else preVoteInert rest (k + 1)

/-! ## C04 — AppendEntries consistency -/

/-- first sent index whose stored entry has a different term -/
def firstConflict (log : List Entry) : List Entry → Option Nat
  | [] => none
  | e :: rest => match getLog log e.index with
    | some se => if se.term ≠ e.term then some e.index else firstConflict log rest
    | none => firstConflict log rest

/-- does the durable state hold `(idx, term)` (as a log entry, or as the newest snapshot's end) -/
def holds (d : Durable) (idx term : Nat) : Bool :=
  match newestSnap d with
  | some s =>
      if idx < s.idx then true                    -- covered by the snapshot (committed history)
      else if idx = s.idx then s.term == term
      else (match getLog d.log idx with | some e => e.term == term | none => false)
  | none => match getLog d.log idx with
    | some e => e.term == term
    | none => false

def aeConsistent : List Step → Nat → Option (Nat × String)
  | [], _ => none
  | s :: rest, k =>
    let r : Option String :=
      match s.ev with
      | .append a _ _ =>
          let removed := s.pre.dur.log.filter (fun e => match getLog s.post.dur.log e.index with
                                                         | some e' => e' ≠ e
                                                         | none => true)
          let fc := firstConflict s.pre.dur.log a.entries
          let delOK := removed.all (fun e => match fc with | some c => e.index ≥ c | none => false)
          if !delOK then some "deleted-or-replaced-entries-before-first-conflict"
          else match s.post.resp with
            | .append _ _ true _ =>
                if !(a.prevIdx == 0 || holds s.pre.dur a.prevIdx a.prevTerm) then some "success-without-matching-previous-entry"
                else if !(a.entries.all (fun e => e.index ≤ ((newestSnap s.post.dur).map (·.idx)).getD 0 || getLog s.post.dur.log e.index == some e)) then some "success-but-log-differs-from-sent"
                else none
            | _ => none
      | _ => none
    match r with
    | some m => some (k, m)
    | none => aeConsistent rest (k + 1)

/-- the clauses of `aeConsistent` that hold for every input whatsoever (no realism assumed about
    snapshots): deletions only from the first conflict; on success every sent entry is stored with
    its term (a stored entry with the same index and term counts as the same entry — log matching) -/
def aeConsistentAny : List Step → Nat → Option (Nat × String)
  | [], _ => none
  | s :: rest, k =>
    let r : Option String :=
      match s.ev with
      | .append a _ _ =>
          let removed := s.pre.dur.log.filter (fun e => match getLog s.post.dur.log e.index with
                                                         | some e' => e' ≠ e
                                                         | none => true)
          let fc := firstConflict s.pre.dur.log a.entries
          let delOK := removed.all (fun e => match fc with | some c => e.index ≥ c | none => false)
          if !delOK then some "deleted-or-replaced-entries-before-first-conflict"
          else match s.post.resp with
            | .append _ _ true _ =>
                if !(a.entries.all (fun e => e.index ≤ s.post.vol.snapIdx || ((getLog s.post.dur.log e.index).map (·.term)) == some e.term)) then some "success-but-log-differs-from-sent"
                else none
            | _ => none
      | _ => none
    match r with
    | some m => some (k, m)
    | none => aeConsistentAny rest (k + 1)

/-! ## C02 / C05, local half — what one server reports and hands to its FSM -/

def applyIdx : FsmCall → Option Nat
  | .apply i _ _ => some i
  | .restore _ => none

/-- within one process lifetime: FSM apply indexes strictly increase, every applied command is the
    stored entry, nothing at or below a restored snapshot is applied afterwards; the commit index
    never decreases and never exceeds the last index. `hi` = highest index given to the FSM so far. -/
def fsmLocal : List Step → Nat → Nat → Option (Nat × String)
  | [], _, _ => none
  | s :: rest, hi, k =>
    if s.post.dead then none else
    let fresh := s.post.panic || (match s.ev with | .restart => true | .damagedRestart => true | _ => false)
    let hi0 := if fresh then 0 else hi
    -- walk the calls
    let walk := s.post.fsm.foldl (fun (acc : Nat × Bool) c =>
      match c with
      | .apply i t d =>
          let stored := match getLog s.post.dur.log i with
            | some e => e.term == t && e.data == d && e.kind == 0
            | none => false
          (i, acc.2 && decide (i > acc.1) && stored)
      | .restore _ => (max acc.1 s.post.vol.snapIdx, acc.2)) (hi0, true)
    if !walk.2 then some (k, "fsm-apply-out-of-order-or-not-the-stored-entry")
    else if !fresh && s.post.vol.commit < s.pre.vol.commit then some (k, "commit-index-decreased")
    else if s.post.vol.commit > max (lastIndex s.post.vol) (maxIndex s.post.dur.log) then some (k, "commit-index-above-last-index")
    else fsmLocal rest walk.1 (k + 1)

/-- a follower advances its commit index only over entries this request has shown to match the
    leader's: at most `PrevLogEntry + len(Entries)` -/
def commitVerified : List Step → Nat → Option Nat
  | [], _ => none
  | s :: rest, k =>
    let bad : Bool :=
      match s.ev, s.post.resp with
      | .append a _ _, .append _ _ true _ =>
          s.post.vol.commit > s.pre.vol.commit && s.post.vol.commit > a.prevIdx + a.entries.length
      | _, _ => false
    if bad then some k else commitVerified rest (k + 1)

/-! ## C11 — coverage: nothing up to the last index is lost -/

def contiguousFrom (log : List Entry) : (n : Nat) → (start : Nat) → Bool
  | 0, _ => true
  | n + 1, start => (getLog log start).isSome && contiguousFrom log n (start + 1)

/-- every index up to the last index the server reports is under the newest durable snapshot or in
    the log, and the log is contiguous above that snapshot -/
def covered (v : View) : Bool :=
  let s := ((newestSnap v.dur).map (·.idx)).getD 0
  let top := max (maxIndex v.dur.log) (if v.dead then 0 else lastIndex v.vol)
  contiguousFrom v.dur.log (top - s) (s + 1)

def coverage : List Step → Nat → Option Nat
  | [], _ => none
  | s :: rest, k => if covered s.pre && !covered s.post then some k else coverage rest (k + 1)

/-- the newest-snapshot position a running server reports never moves backwards -/
def snapMonotone : List Step → Nat → Option Nat
  | [], _ => none
  | s :: rest, k =>
    let fresh := s.post.panic || s.post.dead || (match s.ev with | .restart => true | .damagedRestart => true | _ => false)
    if !fresh && s.post.vol.snapIdx < s.pre.vol.snapIdx then some k else snapMonotone rest (k + 1)

/-! ## C10 — restart reproduces what is durable -/

/-- the configuration a restarted server must report: the last configuration entry above the newest
    snapshot, else the snapshot's -/
def durableConfig (d : Durable) : CF.Config × Nat :=
  let s := newestSnap d
  let base : CF.Config × Nat := match s with | some x => (x.cfg, x.cfgIdx) | none => ([], 0)
  let si := (s.map (·.idx)).getD 0
  d.log.foldl (fun (acc : CF.Config × Nat) (e : Entry) => if e.kind = 5 ∧ e.index > si then (e.cfg, e.index) else acc) base

def restartFaithful : List Step → Nat → Option (Nat × String)
  | [], _ => none
  | s :: rest, k =>
    let fresh := (s.post.panic || (match s.ev with | .restart => true | .damagedRestart => true | _ => false)) && !s.post.dead
    let r : Option String :=
      if !fresh then none else
      let d := s.post.dur
      let li := maxIndex d.log
      let tl : Nat × Nat := (li, ((getLog d.log li).map (·.term)).getD 0)
      if s.post.vol.term ≠ d.curTerm then some "term-not-the-durable-term"
      else if (s.post.vol.lastLogIdx, s.post.vol.lastLogTerm) ≠ tl then some "last-log-not-the-durable-last-entry"
      else if (s.post.vol.latest, s.post.vol.latestIdx) ≠ durableConfig d then some "latest-configuration-not-the-durable-one"
      else match newestSnap d, s.post.fsm.head? with
        | some sn, some (.restore data) => if data = sn.data then none else some "fsm-not-restored-from-newest-snapshot"
        | some _, _ => some "fsm-not-restored-from-newest-snapshot"
        | none, some (.restore _) => some "restore-without-snapshot"
        | none, _ => none
    match r with
    | some m => some (k, m)
    | none => restartFaithful rest (k + 1)

end SV

namespace SV
/-! ## monitors against the ghost truth of a Raft-consistent universe

`H` is the committed history of the universe the requests were drawn from (final value; it only
ever grows by extension) and `hl` its length at the moment an event was delivered. -/

def cmdsUpTo (H : List Entry) (idx : Nat) : List Nat :=
  (H.filter (fun e => e.index ≤ idx ∧ e.kind = 0)).map (·.data)

/-- no command entry of `H` strictly between `a` and `b` -/
def noCmdBetween (H : List Entry) (a b : Nat) : Bool :=
  H.all (fun e => !(a < e.index && e.index < b && e.kind == 0))

/-- C02: what one FSM is handed, in order, is exactly the committed history: every applied entry is
    the committed entry at that index (and was committed by then), indexes increase and skip only
    entries an FSM never sees, a restore installs the fold of the history up to the snapshot index,
    and a restore never takes a running FSM backwards. `pos` = last index the FSM has consumed. -/
def fsmTruth (H : List Entry) : List Step → List Nat → Nat → Nat → Option (Nat × String)
  | [], _, _, _ => none
  | _, [], _, _ => none
  | s :: rest, hl :: hls, pos, k =>
    if s.post.dead then none else
    let fresh := s.post.panic || (match s.ev with | .restart => true | .damagedRestart => true | _ => false)
    let pos0 := if fresh then 0 else pos
    let r := s.post.fsm.foldl (fun (acc : Nat × Option String) c =>
      match acc.2 with
      | some _ => acc
      | none =>
        match c with
        | .apply i t d =>
            if i > hl then (i, some "applied-an-entry-that-was-not-committed")
            else match getLog H i with
              | none => (i, some "applied-an-entry-that-was-not-committed")
              | some e =>
                if !(e.term == t && e.data == d && e.kind == 0) then (i, some "applied-entry-differs-from-committed-entry")
                else if i ≤ acc.1 then (i, some "entry-applied-twice-or-out-of-order")
                else if !(noCmdBetween H acc.1 i) then (i, some "committed-command-skipped")
                else (i, none)
        | .restore data =>
            let si := s.post.vol.snapIdx
            if si > hl then (si, some "restored-a-snapshot-beyond-the-committed-history")
            else if data ≠ cmdsUpTo H si then (si, some "restored-state-is-not-the-committed-history-up-to-the-snapshot")
            else if si < acc.1 then (si, some "restore-took-the-fsm-backwards")
            else (si, none)) (pos0, none)
    match r.2 with
    | some m => some (k, m)
    | none => fsmTruth H rest hls r.1 (k + 1)

def agreesUpTo (H log : List Entry) : (n : Nat) → Bool
  | 0 => true
  | n + 1 => (match getLog log (n + 1) with
              | none => true
              | some e => getLog H (n + 1) == some e) && agreesUpTo H log n

/-- the stored entries at indexes `lo+1 .. lo+n` are the committed ones -/
def agreesAbove (H log : List Entry) (lo : Nat) : (n : Nat) → Bool
  | 0 => true
  | n + 1 => (match getLog log (lo + n + 1) with
              | none => true
              | some e => getLog H (lo + n + 1) == some e) && agreesAbove H log lo n

/-- C05/C03: the commit index a server reports is within the committed history, its log agrees with
    that history up to there, never decreases while it runs, never exceeds its last index; and what
    it has once reported committed it keeps holding (log or snapshot) for ever, crashes included.
    `known` = highest commit / applied index reported so far. -/
def commitTruth (H : List Entry) : List Step → List Nat → Nat → Nat → Option (Nat × String)
  | [], _, _, _ => none
  | _, [], _, _ => none
  | s :: rest, hl :: hls, known, k =>
    -- (an image whose store *announces* a last index it does not hold is an artefact of InmemStore's
    -- low / high bookkeeping after a DeleteRange above a hole - a crash image of a store that cannot
    -- survive a crash; a durable store reports the last key it holds - and is not judged)
    if s.post.dead ∧ s.post.dur.high ≠ 0 ∧ (getLog s.post.dur.log s.post.dur.high).isNone then none else
    if s.post.dead then some (k, "server-cannot-restart-from-its-durable-state") else
    let fresh := s.post.panic || (match s.ev with | .restart => true | .damagedRestart => true | _ => false)
    let c := s.post.vol.commit
    let si := ((newestSnap s.post.dur).map (·.idx)).getD 0
    let known' := max known c
    if c > hl then some (k, "commit-index-beyond-committed-history")
    else if !fresh && c < s.pre.vol.commit then some (k, "commit-index-decreased")
    else if c > max (lastIndex s.post.vol) (maxIndex s.post.dur.log) then some (k, "commit-index-above-last-index")
    else if !(agreesAbove H s.post.dur.log si (known' - si)) then some (k, "log-disagrees-with-committed-history")
    else if !(contiguousFrom s.post.dur.log (known' - si) (si + 1)) then some (k, "committed-entry-no-longer-held")
    else commitTruth H rest hls known' (k + 1)

/-- C04 (log matching against the committed history): every entry a server retains at or below its
    newest snapshot — all of it committed — is the committed entry of that index -/
def retainedMatchesHistory (H : List Entry) : List Step → Nat → Option Nat
  | [], _ => none
  | s :: rest, k =>
    let si := ((newestSnap s.post.dur).map (·.idx)).getD 0
    if !s.post.dead && agreesUpTo H s.pre.dur.log (((newestSnap s.pre.dur).map (·.idx)).getD 0)
        && !(agreesUpTo H s.post.dur.log si) then some k
    else retainedMatchesHistory H rest (k + 1)

/-- C07: the configuration a server reports as its latest is the one a configuration entry of its
    log carries at the reported index, or the one of its newest snapshot — never one whose entry is
    gone (an uncommitted configuration entry that is truncated must be rolled back) -/
def latestConfigBacked : List Step → Nat → Option Nat
  | [], _ => none
  | s :: rest, k =>
    let ok (v : View) : Bool :=
      v.dead || v.vol.latestIdx == 0 ||
      -- (a configuration at or below the newest snapshot comes from that snapshot; what the log still
      -- holds down there may be a stale leftover, F3a, and says nothing)
      (match newestSnap v.dur with
       | some sn => v.vol.latestIdx ≤ sn.idx
       | none => false) ||
      (match getLog v.dur.log v.vol.latestIdx with
       | some e => e.kind == 5 && e.cfg == v.vol.latest
       | none => false)
    if ok s.pre && !ok s.post then some k else latestConfigBacked rest (k + 1)

/-- C18: the leader a follower names changes only through requests of a term at least its own —
    a request of an older term (refused in any case) must not rename the leader -/
def staleRequestKeepsLeader : List Step → Nat → Option Nat
  | [], _ => none
  | s :: rest, k =>
    let reqTerm : Option Nat := match s.ev with
      | .append a _ _ => some a.term
      | .install q _ _ => some q.term
      | .vote q _ _ => some q.term
      | .prevote q => some q.term
      | _ => none
    let bad : Bool := match reqTerm with
      | some t => !s.post.dead && !s.post.panic && t < s.pre.vol.term &&
                  (s.post.vol.leader != s.pre.vol.leader || s.post.vol.leaderId != s.pre.vol.leaderId)
      | none => false
    if bad then some k else staleRequestKeepsLeader rest (k + 1)

/-- C18: a follower that names a leader names a leader of its *current* term: whenever its term has
    grown in a step and it is a follower naming a leader afterwards, that step was an AppendEntries / InstallSnapshot
    of the new term from exactly that server (or it made itself leader by winning) -/
def leaderIsOfCurrentTerm : List Step → Nat → Option Nat
  | [], _ => none
  | s :: rest, k =>
    let named : Bool := !s.post.dead && !s.post.panic && !s.pre.dead && s.post.vol.leader != 0 &&
                        decide (s.post.vol.role = .follower) && decide (s.post.vol.term > s.pre.vol.term)
    let justified : Bool := match s.ev with
      | .append a _ _ => a.term == s.post.vol.term && a.leader == s.post.vol.leader
      | .install q _ _ => q.term == s.post.vol.term && q.leader == s.post.vol.leader
      | .campaign _ => decide (s.post.vol.role = .leader) && s.post.vol.leader == selfAddr
      | .setRole _ _ _ => true
      | .restart => true
      | .damagedRestart => true
      | _ => false
    if named && !justified then some k else leaderIsOfCurrentTerm rest (k + 1)

/-- the configuration in force at index `idx` of the committed history: the last configuration entry
    at or below it -/
def cfgAtHist (H : List Entry) (idx : Nat) : Option (Nat × CF.Config) :=
  ((H.filter (fun e => e.kind == 5 && e.index ≤ idx)).getLast?).map (fun e => (e.index, e.cfg))

/-- C11/C10/C02: a snapshot the server writes itself (`takeSnapshot`) is a snapshot of the committed
    history: it ends inside it, holds exactly the commands up to its index, and carries the
    configuration in force there -/
def snapshotTruth (H : List Entry) : List Step → List Nat → Nat → Option (Nat × String)
  | [], _, _ => none
  | _, [], _ => none
  | s :: rest, hl :: hls, k =>
    let isSnap := match s.ev with | .snapshot _ _ => true | _ => false
    let fresh := s.post.dur.snaps.filter (fun x => !(s.pre.dur.snaps.any (fun y => y.idx == x.idx && y.term == x.term)))
    -- a snapshot received from a leader (InstallSnapshot) that ends up in the store holds the committed
    -- history of its index too - in particular a transfer that ended early must leave nothing behind
    let isInstall := match s.ev with | .install _ _ _ => true | _ => false
    let bad : Option String :=
      if isInstall && !s.post.dead then
        fresh.findSome? (fun x =>
          if x.idx ≤ hl ∧ (getLog H x.idx).map (·.term) == some x.term ∧ x.data != cmdsUpTo H x.idx then
            some "installed-snapshot-content-is-not-the-committed-history" else none)
      else
      if !isSnap || s.post.dead then none else
      fresh.findSome? (fun x =>
        if x.idx > hl then some "snapshot-beyond-the-committed-history"
        else if (getLog H x.idx).map (·.term) != some x.term then some "snapshot-term-is-not-the-committed-entry's"
        else if x.data != cmdsUpTo H x.idx then some "snapshot-content-is-not-the-committed-history"
        else match cfgAtHist H x.idx with
          | some (ci, c) => if x.cfg != c || x.cfgIdx != ci then some "snapshot-configuration-is-not-the-one-in-force-at-its-index" else none
          | none => none)
    match bad with
    | some m => some (k, m)
    | none => snapshotTruth H rest hls (k + 1)

end SV
