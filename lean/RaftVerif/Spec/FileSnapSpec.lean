/-! C15, executable side (core Lean only, so that the driver links):

* `program`: the ordered file-system syscalls `file_snapshot.go` issues for a sequence of API calls
  — the label alphabet is that of the proved transition system `FSS` (Model/FileSnap.lean):
  mk = mkdir(dir.tmp), cm = create/truncate meta.json, wm = write meta, fm = fsync meta,
  cs = create state.bin, ws = write state, fs = fsync state, rn = rename to the final name,
  fp = fsync parent, us/um = unlink state/meta, rd = rmdir;
* `obsOK`: what the property demands of `List`/`Open` on one crash image. -/
namespace FSP

inductive Api
  | create (sid idx term : Nat)
  | write (sid n : Nat)
  | close (sid : Nat)
  | cancel (sid : Nat)
deriving Repr, DecidableEq

abbrev Lbl := String × Nat

structure Sink where
  sid : Nat
  idx : Nat
  term : Nat
  buffered : Nat      -- bytes sitting in the 4096-byte bufio.Writer
  closed : Bool       -- Close returned nil: the snapshot carries its final name
  done : Bool         -- closed or cancelled
deriving Repr

/-- newer snapshots first: by term, then index (names break ties; scenarios use distinct pairs) -/
def newer (a b : Sink) : Bool := a.term > b.term || (a.term == b.term && a.idx > b.idx)

def insDesc (x : Sink) : List Sink → List Sink
  | [] => [x]
  | y :: ys => if newer x y then x :: y :: ys else y :: insDesc x ys

def sortDesc : List Sink → List Sink
  | [] => []
  | x :: xs => insDesc x (sortDesc xs)

/-- `bufio.Writer.Write` with a 4096-byte buffer: does it reach the file, and what stays buffered -/
def bufWrite (buffered n : Nat) : Bool × Nat :=
  if n ≤ 4096 - buffered then (false, buffered + n)
  else if buffered = 0 then (true, 0)
  else
    let rest := n - (4096 - buffered)
    if rest > 4096 then (true, 0) else (true, rest)

def upd (ss : List Sink) (sid : Nat) (g : Sink → Sink) : List Sink :=
  ss.map (fun s => if s.sid = sid then g s else s)

/-- one API call: labels issued, new sink table; `doomedGone` = snapshots already reaped -/
def stepApi (retain : Nat) (ss : List Sink) : Api → List Lbl × List Sink
  | .create sid idx term =>
      ([("mk", sid), ("cm", sid), ("wm", sid), ("fm", sid), ("cs", sid)], ss ++ [⟨sid, idx, term, 0, false, false⟩])
  | .write sid n =>
      match ss.find? (·.sid = sid) with
      | none => ([], ss)
      | some s =>
        if s.done then ([], ss) else
        let r := bufWrite s.buffered n
        ((if r.1 then [("ws", sid)] else []), upd ss sid (fun s => { s with buffered := r.2 }))
  | .close sid =>
      match ss.find? (·.sid = sid) with
      | none => ([], ss)
      | some s =>
        if s.done then ([], ss) else
        let flush : List Lbl := if s.buffered > 0 then [("ws", sid)] else []
        let ss1 := upd ss sid (fun s => { s with buffered := 0, closed := true, done := true })
        let live := sortDesc (ss1.filter (·.closed))
        let doomed := live.drop retain
        let reap : List Lbl := doomed.flatMap (fun d => [("us", d.sid), ("um", d.sid), ("rd", d.sid)])
        (flush ++ [("fs", sid), ("cm", sid), ("wm", sid), ("fm", sid), ("rn", sid), ("fp", 0)] ++ reap,
         ss1.filter (fun x => !(doomed.any (·.sid = x.sid))))
  | .cancel sid =>
      match ss.find? (·.sid = sid) with
      | none => ([], ss)
      | some s =>
        if s.done then ([], ss) else
        let flush : List Lbl := if s.buffered > 0 then [("ws", sid)] else []
        (flush ++ [("fs", sid), ("us", sid), ("um", sid), ("rd", sid)],
         upd ss sid (fun s => { s with buffered := 0, done := true }))

def programFrom (retain : Nat) : List Sink → List Api → List Lbl
  | _, [] => []
  | ss, a :: rest => let r := stepApi retain ss a; r.1 ++ programFrom retain r.2 rest

def program (retain : Nat) (ops : List Api) : List Lbl := programFrom retain [] ops

/-- canonical form for comparison: runs of `ws` of one sink collapse (bufio may split a write), and
    an unlink pair is ordered state-then-meta (`RemoveAll` follows the directory order) -/
def canon : List Lbl → List Lbl
  | ("ws", a) :: ("ws", b) :: rest => if a = b then canon (("ws", b) :: rest) else ("ws", a) :: canon (("ws", b) :: rest)
  | ("um", a) :: ("us", b) :: rest => if a = b then ("us", a) :: ("um", a) :: canon rest else ("um", a) :: canon (("us", b) :: rest)
  | x :: rest => x :: canon rest
  | [] => []

/-! ## the property on one crash image -/

/-- one listed snapshot: scenario id, index, term, result of Open (1 = opened with exactly the bytes
    written and the recorded size, 0 = Open failed, 2 = opened with other bytes) -/
structure Listed where
  sid : Nat
  idx : Nat
  term : Nat
  okc : Nat
deriving Repr

structure Obs where
  crashAt : Nat
  nsCut : Nat
  keep : Bool
  err : Bool
  listed : List Listed
deriving Repr

def sortedNewestFirst : List Listed → Bool
  | a :: b :: rest => (a.term > b.term || (a.term == b.term && a.idx > b.idx)) && sortedNewestFirst (b :: rest)
  | _ => true

/-- `closed` = (sid, position in the syscall list at which Close had returned nil);
    `neverFinal` = sinks that were cancelled or abandoned -/
def obsOK (retain : Nat) (info : List (Nat × Nat × Nat)) (closed : List (Nat × Nat)) (neverFinal : List Nat) (o : Obs) : Option String :=
  if o.err then some "list-failed-on-a-crash-image"
  else if o.listed.any (fun l => l.okc == 2) then some "open-returned-wrong-bytes"
  else if o.listed.any (fun l => l.okc != 1) then some "listed-snapshot-does-not-open"
  else if o.listed.any (fun l => neverFinal.contains l.sid) then some "cancelled-or-unfinished-snapshot-listed"
  else if o.listed.length > retain then some "more-than-retain-listed"
  else if !(sortedNewestFirst o.listed) then some "list-not-newest-first"
  else
    -- durable: a snapshot whose Close had returned is listed unless `retain` newer ones are
    let durableBad := closed.find? (fun c =>
      c.2 ≤ o.crashAt &&
      !(o.listed.any (fun l => l.sid == c.1)) &&
      (match info.find? (fun i => i.1 == c.1) with
       | some i => (o.listed.filter (fun l => l.term > i.2.2 || (l.term == i.2.2 && l.idx > i.2.1))).length < retain
       | none => false))
    match durableBad with
    | some c => some s!"closed-snapshot-{c.1}-lost"
    | none => none

end FSP
