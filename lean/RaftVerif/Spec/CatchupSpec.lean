import RaftVerif.Spec.ServerSpec
import RaftVerif.Model.Replicate
/-! Executable Spec clauses over an *observed* run of the leader's replication loop against one
follower (any implementation's): what C04 demands of the requests a leader builds, and what C12
demands of catch-up (it ends with the follower holding the leader's log, and it makes progress
rather than repeating the same transfer).  They speak about the leader's and follower's observable
state and the messages between them only. -/
namespace CU
open SV

structure Run where
  leader : View               -- the leader when replication starts (its state does not change)
  follower0 : View
  next0 : Nat
  last : Nat
  fuel : Nat
  faultFree : Bool
  trace : List (Msg × View)   -- each request and the follower's observation after handling it
  nextEnd : Nat
  matchedEnd : Nat
  steppedDown : Bool
  pipelined : Bool := false   -- the run was one of pipelineReplicate: it ends when the caller stops it

/-- the leader's (index, term) at `i`: a stored entry, the snapshot boundary, or the origin -/
def termAtLeader (l : View) (i : Nat) : Option Nat :=
  if i = 0 then some 0
  else match getLog l.dur.log i with
    | some e => some e.term
    | none => if i = l.vol.snapIdx then some l.vol.snapTerm else none

def contiguousFrom : Nat → List Entry → Bool
  | _, [] => true
  | i, e :: es => e.index == i && contiguousFrom (i + 1) es

/-- C04: a request is built from the leader's own log: previous entry = what the leader holds
    there, entries contiguous after it and equal to the stored ones, in the leader's term -/
def requestFromLog (l : View) (a : AEReq) : Bool :=
  a.term == l.vol.term && termAtLeader l a.prevIdx == some a.prevTerm &&
  contiguousFrom (a.prevIdx + 1) a.entries &&
  a.entries.all (fun e => getLog l.dur.log e.index == some e) &&
  a.commit == l.vol.commit

def badRequest (l : View) : List (Msg × View) → Nat → Option Nat
  | [], _ => none
  | (.ae a, _) :: rest, k => if requestFromLog l a then badRequest l rest (k + 1) else some k
  | (.snap q, _) :: rest, k =>
      if q.term == l.vol.term && (newestSnap l.dur).any (fun s => s.idx == q.lastIdx && s.term == q.lastTerm && s.data == q.data && s.cfg == q.cfg)
      then badRequest l rest (k + 1) else some k

def answerTerm (v : View) : Option Nat :=
  if v.dead ∨ v.panic then none else
  match v.resp with
  | .append t _ _ _ => some t
  | .install t _ _ => some t
  | _ => none

/-- a newer term in an answer ends replication at once and makes the leader step down; nothing
    else does -/
def staleRule (r : Run) : Option String :=
  let newer := r.trace.map (fun p => (answerTerm p.2).any (· > r.leader.vol.term))
  if newer.dropLast.any id then some "leader-kept-replicating-after-a-newer-term-was-reported"
  else if newer.getLast?.getD false ≠ r.steppedDown then some "step-down-does-not-match-the-reported-terms"
  else none

def clean (r : Run) : Bool :=
  !r.pipelined && r.faultFree && !r.steppedDown && r.trace.length < r.fuel && !r.leader.dead && !r.follower0.dead &&
  r.trace.all (fun p => !p.2.dead && !p.2.panic) && 1 ≤ r.next0 && r.next0 ≤ r.last + 1 &&
  r.last ≤ lastIndex r.leader.vol

/-- C12: with nothing going wrong, replication is over well within the budget of requests (every
    refusal moves `nextIndex` down, every success moves it up: at most `next0 + last + 2` requests) -/
def progress (r : Run) : Option String :=
  if !r.pipelined && r.faultFree && !r.steppedDown && !r.leader.dead && !r.follower0.dead &&
     r.trace.all (fun p => !p.2.dead && !p.2.panic) && 1 ≤ r.next0 && r.next0 ≤ r.last + 1 &&
     r.last ≤ lastIndex r.leader.vol && r.next0 + r.last + 2 ≤ r.fuel && r.trace.length ≥ r.fuel
  then some s!"no-end-of-replication-after-{r.trace.length}-requests" else none

def followerEnd (r : Run) : View := (r.trace.getLast?.map (·.2)).getD r.follower0

/-- C12: a clean run ends with nothing left to send, the follower holding the leader's entries at
    every index up to `last` that lies above the follower's snapshot, and at most one snapshot sent -/
def catchUp (r : Run) : Option String :=
  if !clean r then none else
  let f := followerEnd r
  if r.nextEnd ≤ r.last then some "replication-stopped-with-entries-left-to-send"
  else if (r.trace.filter (fun p => match p.1 with | .snap _ => true | _ => false)).length > 1 then
    some "the-same-snapshot-was-sent-again"
  else if lastIndex f.vol < r.last then some "follower-ends-short-of-the-leader"
  else
    match (List.range' (f.vol.snapIdx + 1) (r.last - f.vol.snapIdx)).find? (fun i =>
        match getLog r.leader.dur.log i with
        | some e => getLog f.dur.log i != some e
        | none => false) with
    | some i => some s!"follower-differs-from-the-leader-at-{i}"
    | none => none

/-- C05: what the leader records as stored by the follower (the index it enters into its commitment
    table) the follower really holds, in agreement with the leader: its log has the leader's entry
    there, or its snapshot covers the index -/
def matchSound (r : Run) : Option String :=
  if r.leader.dead then none else
  let f := followerEnd r
  if f.dead ∨ f.panic then none
  else if r.matchedEnd = 0 then none
  else if r.matchedEnd ≤ f.vol.snapIdx then none
  else match getLog r.leader.dur.log r.matchedEnd, getLog f.dur.log r.matchedEnd with
    | some le, some fe => if le.term = fe.term then none else some "follower-credited-with-an-entry-it-holds-differently"
    | none, some _ => none      -- (compacted on the leader: nothing to compare)
    | _, none => some "follower-credited-with-an-entry-it-does-not-hold"

def check (r : Run) : Option String :=
  match badRequest r.leader r.trace 0 with
  | some k => some s!"request-{k}-not-built-from-the-leaders-log"
  | none =>
    match staleRule r with
    | some b => some b
    | none =>
      match progress r with
      | some b => some b
      | none =>
        match matchSound r with
        | some b => some b
        | none => catchUp r

end CU
