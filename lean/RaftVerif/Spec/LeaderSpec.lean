import RaftVerif.Spec.ServerSpec
import RaftVerif.Model.Leader
/-! Executable Spec clauses over an *observed* run of a leader's main loop (any implementation's):
what C05, C07, C08, C09, C17, C18 and the request half of C04 demand of what the loop lets the
outside see — stored entries, commit index and the acknowledgement table behind it, resolved
futures, FSM calls, NotifyCh, the requests handed to the followers.  They never look at how the
loop is written. -/
namespace LS
open SV
open CF (Config)

/-- the leader's bookkeeping as dumped (`none`: no leader loop is running) -/
structure Dump where
  start : Nat
  cmCommit : Nat
  matched : List (Nat × Nat)      -- ascending by id
  inflight : List Nat
  peers : List Nat                -- ascending
  verifyPending : Nat
deriving DecidableEq, Repr

structure LView where
  view : View
  outcomes : List (Nat × Outcome)          -- ascending by call id
  dump : Option Dump
  notify : List Bool
  pending : List (Nat × AEReq)             -- requests of the replication routines now in the network
  hbPending : List Nat                     -- followers with a heartbeat now in the network
  lc : List Nat := []                      -- with a slow NotifyCh reader: what LeaderCh held (0 / 1, 2 = nothing)
                                           -- at the moment each notification of `notify` was taken

/-- one step of an observed leader run -/
structure LStep where
  ev : LEvent
  pre : LView
  post : LView

def isLeading (v : LView) : Bool := v.dump.isSome

/-! ## C05 -/

def supportOf (d : Dump) (k : Nat) : Nat := (d.matched.filter (fun p => k ≤ p.2)).length

/-- while the loop runs: the commit index never decreases, never exceeds the last index, and an
    advance lands on an index a strict majority of the tracked voters acknowledged, not below the
    first index of the leader's own term; the tracked servers are exactly the voters of the latest
    configuration -/
def bump (m : List (Nat × Nat)) (p i : Nat) : List (Nat × Nat) := m.map (fun x => if x.1 = p ∧ i > x.2 then (p, i) else x)

def commitRule : List LStep → Nat → Option (Nat × String)
  | [], _ => none
  | s :: rest, k =>
    let bad : Option String :=
      if s.post.view.dead ∨ ¬ isLeading s.post then none
      else if isLeading s.pre ∧ s.post.view.vol.commit < s.pre.view.vol.commit then some "commit-index-decreased"
      else if s.post.view.vol.commit > lastIndex s.post.view.vol then some "commit-index-beyond-last-index"
      else if s.post.view.writes.any (fun w => w.1 == "SG" && decide (w.2.1 > s.post.view.vol.commit)) then
        some "staged-commit-index-beyond-the-commit-index"
      else match s.post.dump with
        | none => none
        | some d =>
          if d.matched.map (·.1) ≠ (voterIds s.post.view.vol.latest).mergeSort (· ≤ ·) then some "commitment-tracks-other-than-the-voters"
          else if isLeading s.pre ∧ s.post.view.vol.commit > s.pre.view.vol.commit then
            -- the table the advance was decided on: the one before the step with this step's
            -- acknowledgement entered; a step in which a waiting membership call was served as well
            -- holds two advances on two tables and is not judged
            let table : Option (List (Nat × Nat)) :=
              if s.pre.view.vol.latestIdx ≠ s.post.view.vol.latestIdx then none else
              match s.ev, s.pre.dump with
              | .ack p i, some d0 => some (bump d0.matched p i)
              | _, _ => some d.matched
            match table with
            | none => none
            | some t =>
              if 2 * (t.filter (fun p => s.post.view.vol.commit ≤ p.2)).length ≤ t.length then some "commit-without-a-voter-majority"
              else if s.post.view.vol.commit < d.start then some "commit-below-the-leaders-own-term"
              else none
          else none
    match bad with
    | some b => some (k, b)
    | none => commitRule rest (k + 1)

/-! ## C07 -/

def uncommittedConfigs (v : View) : Nat :=
  (v.dur.log.filter (fun e => e.kind = 5 ∧ e.index > v.vol.commit)).length

def voterDelta (a b : Config) : Nat :=
  ((voterIds a).filter (fun i => !(voterIds b).contains i)).length + ((voterIds b).filter (fun i => !(voterIds a).contains i)).length

/-- a leader that was stable when it started (its latest configuration committed) never holds two
    uncommitted configuration entries, and its latest and committed configurations are at most one
    voter apart -/
def oneChangeAtATime : List LStep → Bool → Nat → Option (Nat × String)
  | [], _, _ => none
  | s :: rest, armed, k =>
    let armed' : Bool := match s.ev with
      | .start => decide (s.pre.view.vol.latestIdx = s.pre.view.vol.committedIdx)
      | _ => armed && isLeading s.pre
    if armed' ∧ isLeading s.post ∧ ¬ s.post.view.dead then
      if uncommittedConfigs s.post.view > 1 then some (k, "two-uncommitted-configurations")
      else if voterDelta s.post.view.vol.latest s.post.view.vol.committed > 1 then some (k, "configurations-more-than-one-voter-apart")
      else oneChangeAtATime rest armed' (k + 1)
    else oneChangeAtATime rest armed' (k + 1)

/-- the configuration the server holds as its latest is carried by a configuration entry of its own
    log at the index it names (or lies within its newest snapshot): a leader never adopts a
    configuration it could not store -/
def latestConfigInLog : List LStep → Nat → Option (Nat × String)
  | [], _ => none
  | s :: rest, k =>
    let ok (v : View) : Bool :=
      v.dead || v.vol.latestIdx == 0 ||
      (match newestSnap v.dur with
       | some sn => v.vol.latestIdx ≤ sn.idx
       | none => false) ||
      (match getLog v.dur.log v.vol.latestIdx with
       | some e => e.kind == 5 && e.cfg == v.vol.latest
       | none => false)
    -- (requests of other servers are generated without regard to what is committed, and may cut
    -- committed entries away: that is judged in the universe engine, where requests are realistic)
    let own : Bool := match s.ev with | .rpc _ => false | _ => true
    if own && ok s.pre.view && !ok s.post.view then some (k, "latest-configuration-is-not-in-the-log")
    else latestConfigInLog rest (k + 1)

/-- a membership call that names a stale prevIndex and is served at once (the gate is open) is
    refused and leaves the configuration alone -/
def stalePrevRefused : List LStep → Nat → Option (Nat × String)
  | [], _ => none
  | s :: rest, k =>
    let bad : Bool := match s.ev, s.pre.dump with
      | .calls [(id, .change ch)] _, some d =>
        let v := s.pre.view.vol
        decide (v.latestIdx = v.committedIdx ∧ v.commit ≥ d.start ∧ ch.prevIndex > 0 ∧ ch.prevIndex ≠ v.latestIdx) &&
          !s.post.view.dead &&
          (decide (s.post.view.vol.latestIdx ≠ v.latestIdx) || !(s.post.outcomes.any (fun o => o.1 = id ∧ o.2 = .refused)))
      | _, _ => false
    if bad then some (k, "membership-change-with-a-stale-previndex-took-effect") else stalePrevRefused rest (k + 1)

/-! ## C08 -/

/-- the steps of the (first) leadership: up to and including the step that ends it -/
def leaderPart : List LStep → Bool → List LStep
  | [], _ => []
  | s :: rest, was =>
    if was ∧ ¬ isLeading s.post then [s]
    else s :: leaderPart rest (was || isLeading s.post)

/-- the calls of a run with their kind -/
def callsOf : List LStep → List (Nat × Call)
  | [] => []
  | s :: rest => (match s.ev with | .calls cs _ => cs | _ => []) ++ callsOf rest

def fsmApplies (steps : List LStep) : List (Nat × Nat × Nat) :=
  steps.flatMap (fun s => s.post.view.fsm.filterMap (fun c => match c with | .apply i t d => some (i, t, d) | _ => none))

/-- an Apply acknowledged nil: the command is stored at the returned index in the leader's term,
    the commit index has reached it, the FSM was handed exactly that entry, once, and `Response()`
    is what the FSM returned for it -/
def ackExact (steps : List LStep) : Nat → List LStep → Option (Nat × String)
  | _, [] => none
  | k, s :: rest =>
    let cs := callsOf steps
    let bad := s.post.outcomes.findSome? (fun o =>
      match o.2, cs.lookup o.1 with
      | .ok idx resp, some (.apply d) =>
        if getLog s.post.view.dur.log idx |>.all (fun e => e.kind = 0 ∧ e.data = d) |> not then some "acknowledged-command-not-at-the-returned-index"
        else if (getLog s.post.view.dur.log idx).isNone ∧ idx > s.post.view.vol.snapIdx then some "acknowledged-command-not-stored"
        else if s.post.view.vol.commit < idx then some "acknowledged-before-committed"
        else if resp ≠ d then some "response-of-another-entry"
        else if ((fsmApplies steps).filter (fun a => a.2.2 = d)).length ≠ 1 then some "acknowledged-command-not-applied-exactly-once"
        else if ((fsmApplies steps).filter (fun a => a.1 = idx ∧ a.2.2 = d)).length ≠ 1 then some "acknowledged-command-applied-at-another-index"
        else none
      | .ok idx _, some .barrier =>
        if s.post.view.vol.applied < idx then some "barrier-returned-before-its-index-was-applied" else none
      | .notLeader, some (.apply d) =>
        if s.post.view.dur.log.any (fun e => e.kind = 0 ∧ e.data = d) then some "refused-command-was-stored" else none
      | _, _ => none)
    match bad with
    | some b => some (k, b)
    | none => ackExact steps (k + 1) rest

/-- acknowledged indexes grow with the order in which the calls were made -/
def ackOrder (steps : List LStep) : Option String :=
  let cs := callsOf steps
  let acks := steps.flatMap (fun s => s.post.outcomes.filterMap (fun o =>
    match o.2, cs.lookup o.1 with
    | .ok idx _, some (.apply _) => some (o.1, idx)
    | .ok idx _, some .barrier => some (o.1, idx)
    | _, _ => none))
  if acks.all (fun a => acks.all (fun b => !(a.1 < b.1) || a.2 < b.2)) then none
  else some "acknowledged-indexes-out-of-call-order"

/-- FSM calls of the run come in strictly increasing index order -/
def fsmInOrder (steps : List LStep) : Option String :=
  let is := (fsmApplies steps).map (·.1)
  if is.zip is.tail |>.all (fun p => p.1 < p.2) then none else some "fsm-calls-out-of-order"

/-! ## C17 / C18 -/

/-- once the leader loop has ended, every log or verify call it accepted has an outcome -/
def nothingStranded (steps : List LStep) : Option String :=
  match steps.getLast? with
  | none => none
  | some last =>
    if isLeading last.post ∨ last.post.view.dead then none
    else
      let resolved := steps.flatMap (fun s => s.post.outcomes.map (·.1))
      let owed := (callsOf steps).filter (fun c => match c.2 with | .change _ => false | _ => true)
      if owed.all (fun c => resolved.contains c.1) then none else some "call-never-resolved-after-leadership-ended"

def alternating : Bool → List Bool → Bool
  | _, [] => true
  | want, b :: rest => b == want && alternating (!want) rest

/-- NotifyCh: true, false, true, … and the last value says whether the loop is running -/
def notifyFaithful (steps : List LStep) : Option String :=
  let vals := steps.flatMap (fun s => s.post.notify)
  if !alternating true vals then some "notifych-not-alternating"
  else match steps.getLast? with
    | none => none
    | some last =>
      if last.post.view.dead then none
      else if (vals.getLast?.getD false) ≠ isLeading last.post then some "last-notification-does-not-match-the-role"
      else none

/-- LeaderCh is never behind NotifyCh: when a notification is waiting to be taken from NotifyCh
    (however slow its reader), LeaderCh already holds that same transition -/
def leaderChFirst (steps : List LStep) : Option String :=
  let bad := steps.any (fun s =>
    s.post.lc.length == s.post.notify.length &&
    (s.post.notify.zip s.post.lc).any (fun p => (if p.1 then 1 else 0) != p.2))
  if bad then some "leaderch-behind-notifych" else none

/-! ## C04 (the requests a leader builds) -/

def termAt (v : View) (i : Nat) : Option Nat :=
  if i = 0 then some 0
  else match getLog v.dur.log i with
    | some e => some e.term
    | none => if i = v.vol.snapIdx then some v.vol.snapTerm else none

def contiguousFrom : Nat → List Entry → Bool
  | _, [] => true
  | i, e :: es => e.index == i && contiguousFrom (i + 1) es

def requestOK (v : View) (a : AEReq) : Bool :=
  a.term == v.vol.term && termAt v a.prevIdx == some a.prevTerm && contiguousFrom (a.prevIdx + 1) a.entries &&
  a.entries.all (fun e => getLog v.dur.log e.index == some e) && a.commit ≤ v.vol.commit

def requestsFromLog : List LStep → Nat → Option (Nat × String)
  | [], _ => none
  | s :: rest, k =>
    if isLeading s.post ∧ ¬ s.post.view.dead ∧ s.post.pending.any (fun p => !requestOK s.post.view p.2) then
      some (k, "replication-request-not-built-from-the-leaders-log")
    else requestsFromLog rest (k + 1)

/-- C01: a server sends AppendEntries for a term only as the leader of that term: every request of
    its replication routines, also one built after the leadership has ended but before the routine
    has noticed, carries the term the server led — never the term it has moved on to -/
def requestsSpeakForLedTerm : List LStep → Option Nat → Nat → Option (Nat × String)
  | [], _, _ => none
  | s :: rest, led, k =>
    let led' : Option Nat := match s.ev with
      | .start => if isLeading s.post then some s.post.view.vol.term else led
      | _ => led
    match led' with
    | some t =>
      if s.post.pending.any (fun p => p.2.term ≠ t) then some (k, "replication-request-for-a-term-this-server-does-not-lead")
      else requestsSpeakForLedTerm rest led' (k + 1)
    | none => requestsSpeakForLedTerm rest led' (k + 1)

/-- C12: replication reaches a member at the address the latest configuration gives it: a request
    that appears in the network in a step (it was not travelling before) and whose follower is listed
    in the leader's latest configuration is sent to the address listed there (`leader` holds the
    address the request was sent to) -/
def requestsToCurrentAddress : List LStep → Nat → Option (Nat × String)
  | [], _ => none
  | s :: rest, k =>
    let fresh := s.post.pending.filter (fun p => !s.pre.pending.contains p)
    -- (in the very step that changes the configuration a routine woken by the dispatch may still
    -- read the old address before the main loop has updated it: that step is not judged)
    if isLeading s.post ∧ ¬ s.post.view.dead ∧ s.pre.view.vol.latestIdx = s.post.view.vol.latestIdx ∧
       fresh.any (fun p => match s.post.view.vol.latest.find? (·.id = p.1) with
                           | some sv => sv.addr != p.2.leader
                           | none => false) then
      some (k, "replication-request-sent-to-an-address-the-member-no-longer-has")
    else requestsToCurrentAddress rest (k + 1)

/-- the follower loop: a heartbeat timeout makes only a voter of the known configuration a
    candidate (C07), forgets the leader (C18), and changes neither term nor log (C14); a call that
    needs a leader is refused at once by a server whose leader loop is not running, without a
    write (C17, C08) -/
def followerRules : List LStep → Nat → Option (Nat × String)
  | [], _ => none
  | s :: rest, k =>
    let bad : Option String :=
      if s.post.view.dead ∨ s.pre.view.dead then none else
      match s.ev with
      | .heartbeatTimeout =>
        if s.pre.view.vol.role ≠ .follower ∨ isLeading s.pre then none
        else if ¬ hasVote s.pre.view.vol.latest selfId ∧ s.post.view.vol.role ≠ .follower then some "non-voter-left-the-follower-state"
        else if s.post.view.vol.role = .leader then some "heartbeat-timeout-made-a-leader"
        else if s.post.view.vol.leader ≠ 0 then some "leader-still-named-after-a-heartbeat-timeout"
        else if s.post.view.vol.term ≠ s.pre.view.vol.term then some "heartbeat-timeout-changed-the-term"
        else if s.post.view.writes ≠ [] then some "heartbeat-timeout-wrote-to-the-stores"
        else none
      | .calls cs _ =>
        if isLeading s.pre then none
        else if cs.any (fun c => !(s.post.outcomes.any (fun o => o.1 = c.1 ∧ o.2 = .notLeader))) then some "call-not-refused-by-a-server-that-is-not-leader"
        else if s.post.view.writes ≠ [] then some "refused-call-wrote-to-the-stores"
        else none
      | _ => none
    match bad with
    | some b => some (k, b)
    | none => followerRules rest (k + 1)

/-- C13, on the observed run: time is counted in ticks of 250 ms (lease 250 ms); a follower's last
    answer is the latest step in which the harness let it answer an AppendEntries or a heartbeat
    (or the step its replication routine appeared).  (i) a tick that ends two leases or more after
    the last answer of every other voter leaves no leader (checks are at most one lease apart);
    (ii) a tick never deposes a leader that has, together with itself, a quorum of voters whose
    last answer is at most one lease old at the end of the tick. -/
def leaseRule : List LStep → Nat → List (Nat × Nat) → Nat → Option (Nat × String)
  | [], _, _, _ => none
  | s :: rest, now, contacts, k =>
    let now' := match s.ev with | .tick => now + 250 | _ => now
    -- answers given in this step, and routines that appeared
    let contacts1 : List (Nat × Nat) := match s.ev with
      | .ack p _ => if isLeading s.pre then (p, now) :: contacts.filter (·.1 ≠ p) else contacts
      | .hb p a => if a ≠ .fail then (p, now) :: contacts.filter (·.1 ≠ p) else contacts
      | .start => []
      | _ => contacts
    let peersNow : List Nat := (s.post.dump.map (·.peers)).getD []
    let contacts2 := contacts1 ++ (peersNow.filter (fun p => !(contacts1.any (·.1 = p)))).map (fun p => (p, now))
    let bad : Option String :=
      match s.ev with
      | .tick =>
        if ¬ isLeading s.pre ∨ s.post.view.dead then none else
        let c := s.pre.view.vol.latest
        let others := (voterIds c).filter (· ≠ selfId)
        let age (p : Nat) : Nat := now' - ((contacts2.find? (·.1 = p)).map (·.2)).getD 0
        let self := if hasVote c selfId then 1 else 0
        if isLeading s.post ∧ quorumOf c > self ∧ others.all (fun p => age p ≥ 500) then
          some "leader-kept-its-lease-for-two-leases-without-a-quorum"
        else if ¬ isLeading s.post ∧ self + (others.filter (fun p => age p ≤ 250)).length ≥ quorumOf c then
          some "leader-deposed-by-the-lease-although-a-quorum-answered-within-it"
        else none
      | _ => none
    match bad with
    | some b => some (k, b)
    | none => leaseRule rest now' contacts2 (k + 1)

/-! ## C09 -/

/-- a VerifyLeader answered nil: between the call and the answer a quorum of the voters (the
    leader itself included, if it is one) acknowledged a heartbeat -/
def verifyFresh (steps : List LStep) : Option String :=
  let idx := steps.zipIdx
  let bad := idx.any (fun (s, k) =>
    s.post.outcomes.any (fun o =>
      match o.2, (callsOf steps).lookup o.1 with
      | .ok _ _, some .verify =>
        -- the step in which the call was made
        let j := (idx.find? (fun (t, _) => match t.ev with | .calls cs _ => cs.any (·.1 = o.1) | _ => false)).map (·.2) |>.getD 0
        let c := ((idx.find? (fun (_, m) => m = j)).map (fun (t, _) => t.pre.view.vol.latest)).getD s.post.view.vol.latest
        -- answers to `p`'s heartbeats after the call; the first one belongs to a heartbeat sent
        -- before the call if one was in the network when the call was made
        let stale (p : Nat) : Bool := (idx.find? (fun (_, m) => m = j)).any (fun (t, _) => t.pre.hbPending.contains p)
        let answers (p : Nat) : List HbAnswer := idx.filterMap (fun (t, i) => match t.ev with
          | .hb q a => if q = p ∧ j < i ∧ i ≤ k then some a else none
          | _ => none)
        let fresh (p : Nat) : Bool := ((if stale p then (answers p).drop 1 else answers p).any (· == .ok))
        let yes := ((voterIds c).filter (fun p => p ≠ selfId ∧ fresh p))
        decide ((if hasVote c selfId then 1 else 0) + yes.length < quorumOf c)
      | _, _ => false))
  if bad then some "verifyleader-succeeded-without-a-fresh-voter-quorum" else none

end LS
