/-! Executable Spec predicates over the recorded global history of a real cluster run (H3): what
C01, C02, C03, C04, C05, C08, C12, C17, C18 demand of the *observable* events — who sent
AppendEntries in which term, which votes were granted, what every FSM was handed in every lifetime,
how every client call ended, what the notification channels delivered, and the final dumps after
the quiet period.  Core Lean only. -/
namespace CL

inductive Ev
  | cfg (n : Nat) (mono : Bool)
  | sender (srv term t : Nat)
  | grant (voter term cand : Nat)
  | fapply (srv life idx term payload : Nat)
  | frestore (srv life : Nat) (data : List Nat)
  | notify (srv life : Nat) (v : Bool) (t : Nat)
  | sample (srv life t term role commit last own ncfg ncfgOwn start : Nat) (isLeader : Bool) (lo : Nat)
  | isol (srv t : Nat)
  | unisol (srv t : Nat)
  | healAll (t : Nat)
  | calm (t : Nat)
  | calmEnd (t : Nat)
  | isolate (srv life t lease : Nat)
  | endObs (t : Nat)
  | restoreInvoke (srv life t : Nat)
  | restore (srv life t0 t1 : Nat) (ok : Bool) (metaIdx last : Nat) (data : List Nat)
  | restoreDuringTransfer (srv life : Nat)   -- a Restore returned nil while a leadership transfer of that leader was still pending
  | restoreRefused (srv life code : Nat) (data : List Nat)   -- the Restore was answered with a refusal (1 not leader, 5 transfer in progress)
  | dead (srv life : Nat)
  | crash (srv life t : Nat)
  | invoke (cid : Nat)
  | call (cid srv life kind payload t0 t1 code idx : Nat) (resp : Option Nat)   -- kind 0 apply 1 barrier 2 verify
  | quiet (t : Nat)
  | dumpDown (srv life : Nat)
  | dumpUp (srv life term role commit applied last leader snapIdx : Nat) (log : List (Nat × Nat × Nat × Nat)) (state : List Nat)
  | leaderCh (srv life : Nat) (last : Option Bool) (isLeader : Bool)
  | noPreVote (srv : Nat)
  | electedAs (srv life : Nat) (voter : Bool) (cfgIdx start : Nat) (startKnown : Bool)
  | majority (t stopped : Nat) (ok : Bool)
  | majorityStale (t stopped : Nat) (ok : Bool)
  | rejoin (srv t0 leader0 term0 t1 leader1 term1 : Nat)
  | shutdownHung (srv life : Nat)
deriving Repr

/-! ## C01 -/

/-- AppendEntries / InstallSnapshot of one term come from one server -/
def oneSenderPerTerm (h : List Ev) : Option String :=
  let ss := h.filterMap (fun e => match e with | .sender s t _ => some (s, t) | _ => none)
  match ss.find? (fun a => ss.any (fun b => a.2 == b.2 && a.1 != b.1)) with
  | some a => some s!"two-servers-acted-as-leader-in-term-{a.2}"
  | none => none

/-- a voter grants one candidate per term -/
def oneGrantPerTerm (h : List Ev) : Option String :=
  let gs := h.filterMap (fun e => match e with | .grant v t c => some (v, t, c) | _ => none)
  match gs.find? (fun a => gs.any (fun b => a.1 == b.1 && a.2.1 == b.2.1 && a.2.2 != b.2.2)) with
  | some a => some s!"voter-{a.1}-granted-two-candidates-in-term-{a.2.1}"
  | none => none

/-! ## C02 -/

def insTriple (x : Nat × Nat × Nat) : List (Nat × Nat × Nat) → List (Nat × Nat × Nat)
  | [] => [x]
  | y :: ys => if x.1 < y.1 then x :: y :: ys else if x.1 = y.1 then y :: ys else y :: insTriple x ys

/-- all `(index, term, payload)` any FSM was ever handed, ascending by index (first record wins) -/
def applied (h : List Ev) : List (Nat × Nat × Nat) :=
  h.foldl (fun acc e => match e with | .fapply _ _ i t p => insTriple (i, t, p) acc | _ => acc) []

/-- equal index ⇒ identical entry, across all servers and lifetimes -/
def streamsAgree (h : List Ev) : Option String :=
  let T := applied h
  match h.find? (fun e => match e with
      | .fapply _ _ i t p => T.any (fun x => x.1 == i && (x.2.1 != t || x.2.2 != p))
      | _ => false) with
  | some (.fapply s _ i _ _) => some s!"fsm-of-{s}-got-a-different-entry-at-index-{i}"
  | _ => none

/-- one FSM lifetime: restores install a prefix of the agreed command sequence, applies continue it
    with no command skipped or repeated.  `k` = number of agreed commands consumed so far. -/
def lifeOK (T : List (Nat × Nat × Nat)) : List Ev → Nat → Option String
  | [], _ => none
  | .frestore s _ data :: rest, k =>
      if data ≠ (T.take data.length).map (·.2.2) then some s!"restore-on-{s}-is-not-a-prefix-of-the-agreed-history"
      else if data.length < k then some s!"restore-on-{s}-took-the-fsm-backwards"
      else lifeOK T rest data.length
  | .fapply s _ i _ p :: rest, k =>
      match T[k]? with
      | some x => if x.1 = i ∧ x.2.2 = p then lifeOK T rest (k + 1)
                  else some s!"fsm-of-{s}-skipped-or-repeated-an-entry-at-index-{i}"
      | none => some s!"fsm-of-{s}-skipped-or-repeated-an-entry-at-index-{i}"
  | _ :: rest, k => lifeOK T rest k

def lives (h : List Ev) : List (Nat × Nat) :=
  (h.filterMap (fun e => match e with
    | .fapply s l _ _ _ => some (s, l)
    | .frestore s l _ => some (s, l)
    | _ => none)).eraseDups

def streamsInOrder (h : List Ev) : Option String :=
  let T := applied h
  (lives h).findSome? (fun sl =>
    lifeOK T (h.filter (fun e => match e with
      | .fapply s l _ _ _ => s == sl.1 && l == sl.2
      | .frestore s l _ => s == sl.1 && l == sl.2
      | _ => false)) 0)

/-! ## C08 / C03 -/

def calls (h : List Ev) : List (Nat × Nat × Nat × Nat × Nat × Nat × Nat × Nat × Nat × Option Nat) :=
  h.filterMap (fun e => match e with
    | .call cid s l k p t0 t1 code idx r => some (cid, s, l, k, p, t0, t1, code, idx, r)
    | _ => none)

def finalLogs (h : List Ev) : List (Nat × Nat × List (Nat × Nat × Nat × Nat)) :=
  h.filterMap (fun e => match e with | .dumpUp s _ _ _ _ _ _ _ snap log _ => some (s, snap, log) | _ => none)

def finalStates (h : List Ev) : List (Nat × Nat × List Nat) :=
  h.filterMap (fun e => match e with | .dumpUp s _ _ _ _ applied _ _ _ _ st => some (s, applied, st) | _ => none)

/-- position in the history at which a call was invoked / answered (order of events, not clock
    readings: under virtual time many events share one instant) -/
def invokePos (h : List Ev) (cid : Nat) : Nat :=
  (h.findIdx? (fun x => match x with | .invoke c => c == cid | _ => false)).getD 0
def answerPos (h : List Ev) (cid : Nat) : Nat :=
  (h.findIdx? (fun x => match x with | .call c _ _ _ _ _ _ _ _ _ => c == cid | _ => false)).getD h.length

/-- every acknowledged Apply is the agreed entry at exactly the returned index, once, with the FSM's
    own response; every definitely-refused Apply is nowhere; acknowledged indexes respect real time -/
def clientOutcomes (h : List Ev) : Option String :=
  let T := applied h
  let cs := (calls h).filter (fun c => c.2.2.2.1 == 0)
  let bad1 := cs.find? (fun c =>
    let p := c.2.2.2.2.1; let code := c.2.2.2.2.2.2.2.1; let idx := c.2.2.2.2.2.2.2.2.1; let r := c.2.2.2.2.2.2.2.2.2
    code == 0 && !(T.any (fun x => x.1 == idx && x.2.2 == p) && (T.filter (fun x => x.2.2 == p)).length == 1 && r == some p))
  match bad1 with
  | some c => some s!"acknowledged-apply-{c.1}-not-applied-exactly-once-at-its-index-with-its-response"
  | none =>
    let refused := cs.filter (fun c => let code := c.2.2.2.2.2.2.2.1; code == 1 || code == 3 || code == 5)
    let inLogs (p : Nat) : Bool := (finalLogs h).any (fun sl => sl.2.2.any (fun e => e.2.2.1 == 0 && e.2.2.2 == p))
    match refused.find? (fun c => let p := c.2.2.2.2.1; T.any (fun x => x.2.2 == p) || inLogs p) with
    | some c => some s!"refused-apply-{c.1}-was-stored-or-applied"
    | none =>
      let acked := cs.filter (fun c => c.2.2.2.2.2.2.2.1 == 0)
      match acked.find? (fun a => acked.any (fun b =>
          -- b issued after a returned, yet not at a higher index
          b.2.2.2.2.2.1 > a.2.2.2.2.2.2.1 && b.2.2.2.2.2.2.2.2.1 ≤ a.2.2.2.2.2.2.2.2.1)) with
      | some a => some s!"index-of-a-later-call-not-above-acknowledged-apply-{a.1}"
      | none => none

/-- position of the first event satisfying `p` -/
def posOf (h : List Ev) (p : Ev → Bool) : Option Nat := h.findIdx? p

/-- a Barrier that succeeds returns only after the local FSM has applied every entry acknowledged
    before the barrier was issued -/
def barrierOK (h : List Ev) : Option String :=
  let idxd := h.zipIdx
  let barriers := idxd.filterMap (fun (e, i) => match e with
    | .call cid s l 1 _ _ _ 0 bidx _ => some (cid, s, l, i, bidx)
    | _ => none)
  let T := applied h
  barriers.findSome? (fun (cid, s, l, retPos, bidx) =>
    match posOf h (fun e => match e with | .invoke c => c == cid | _ => false) with
    | none => none
    | some invPos =>
      -- every agreed command below the barrier's own index has reached the local FSM by the time
      -- the barrier returns
      let below := (T.filter (fun x => x.1 < bidx)).map (·.1)
      let appliedLocallyB (idx : Nat) : Bool :=
        (idxd.filter (fun (_, i) => i < retPos)).any (fun (e, _) => match e with
          | .fapply s' l' i' _ _ => s' == s && l' == l && i' == idx
          | .frestore s' l' _ => s' == s && l' == l
          | _ => false)
      match (if bidx == 0 then none else below.find? (fun idx => !appliedLocallyB idx)) with
      | some idx => some s!"barrier-{cid}-at-index-{bidx}-returned-before-local-fsm-applied-index-{idx}"
      | none =>
      -- applies acknowledged (K record) before the barrier's invoke
      let ackedBefore := (idxd.filter (fun (_, i) => i < invPos)).filterMap (fun (e, _) => match e with
        | .call _ _ _ 0 _ _ _ 0 idx _ => some idx
        | _ => none)
      let appliedLocally (idx : Nat) : Bool :=
        (idxd.filter (fun (_, i) => i < retPos)).any (fun (e, _) => match e with
          | .fapply s' l' i' _ _ => s' == s && l' == l && i' == idx
          | .frestore s' l' _ => s' == s && l' == l    -- a restore covers what came before it
          | _ => false)
      match ackedBefore.find? (fun idx => !appliedLocally idx) with
      | some idx => some s!"barrier-{cid}-returned-before-local-fsm-applied-index-{idx}"
      | none => none)

/-- C17: every call resolved.  (A `Shutdown()` future that does not complete within 20 virtual seconds is
    recorded as `shutdownHung` and reported as an observation only: the goroutine it waits for is parked
    inside the in-memory test transport's pipeline, outside the property's scope.) -/
def allResolved (h : List Ev) : Option String :=
  match (calls h).find? (fun c => c.2.2.2.2.2.2.2.1 == 10) with
  | some c => some (s!"call-never-resolved kind={c.2.2.2.1} call={c.1}")
  | none => none

/-! ## C12 / C03 / C04 / C05 — after the quiet period -/

def dumpsUp (h : List Ev) : List (Nat × Nat × Nat × Nat × Nat × Nat) :=
  h.filterMap (fun e => match e with | .dumpUp s _ term role commit applied last _ _ _ _ => some (s, term, role, commit, applied, last) | _ => none)

def converged (h : List Ev) : Option String :=
  let ds := dumpsUp h
  let nsrv := (h.findSome? (fun e => match e with | .cfg n _ => some n | _ => none)).getD 0
  let leaders := ds.filter (fun d => d.2.2.1 == 2)
  let sts := finalStates h
  let T := applied h
  if ds.length ≠ nsrv then some "a-server-did-not-come-back-after-the-faults-stopped"
  else if leaders.length ≠ 1 then some s!"{leaders.length}-leaders-after-the-quiet-period"
  else if !(ds.all (fun d => d.2.1 == (leaders.headD (0, 0, 0, 0, 0, 0)).2.1)) then some "terms-differ-after-the-quiet-period"
  else match sts.find? (fun s => s.2.2 ≠ T.map (·.2.2)) with
    | some s => some s!"fsm-of-{s.1}-does-not-hold-the-agreed-history-after-the-quiet-period"
    | none =>
      let lateOK := ((calls h).filter (fun c => c.2.2.2.1 == 0)).reverse.take 3
      if lateOK.any (fun c => c.2.2.2.2.2.2.2.1 != 0) then some "write-after-the-quiet-period-not-accepted" else none

/-- C03: every acknowledged command is in the final FSM of every server that has applied up to its
    index (a server still catching up is C12's business, not a loss) -/
def ackedSurvive (h : List Ev) : Option String :=
  -- a user Restore is an epoch boundary: what was acknowledged before it is replaced by design
  -- (also when Restore reported an error after the leader's FSM had taken the state: the outcome is
  -- then undetermined, like an Apply answered ErrLeadershipLost)
  let riPos := (h.findIdx? (fun e => match e with | .restoreInvoke _ _ _ => true | _ => false)).getD 0
  let epoch := (h.findIdx? (fun e => match e with
    | .restore srv life _ _ ok _ _ data => ok || (h.zipIdx.any (fun (x, i) => i > riPos && (match x with
        | .frestore s l d => s == srv && l == life && d == data
        | _ => false)))
    | _ => false)).getD 0
  let acked := ((calls h).filter (fun c => c.2.2.2.1 == 0 && c.2.2.2.2.2.2.2.1 == 0 && (epoch == 0 || invokePos h c.1 > epoch))).map (fun c => (c.2.2.2.2.1, c.2.2.2.2.2.2.2.2.1))
  (finalStates h).findSome? (fun s =>
    match acked.find? (fun pi => pi.2 ≤ s.2.1 && !(s.2.2.contains pi.1)) with
    | some pi => some s!"acknowledged-command-{pi.1}-missing-from-fsm-of-{s.1}"
    | none => none)

/-- C04: final logs agree wherever two servers hold the same index above both their snapshots -/
def logsAgree (h : List Ev) : Option String :=
  let ls := finalLogs h
  ls.findSome? (fun a => ls.findSome? (fun b =>
    match a.2.2.find? (fun e => e.1 > a.2.1 && e.1 > b.2.1 && b.2.2.any (fun f => e.1 == f.1 && e != f)) with
    | some e => some s!"logs-of-{a.1}-and-{b.1}-differ-at-index-{e.1}"
    | none => none))

/-- C04 (F3a): an entry retained at or below a server's snapshot index is the agreed entry there:
    it equals what every server that holds that index above its own snapshot has -/
def retainedAgree (h : List Ev) : Option String :=
  let ls := finalLogs h
  ls.findSome? (fun a => ls.findSome? (fun b =>
    match a.2.2.find? (fun e => e.1 ≤ a.2.1 && b.2.2.any (fun f => e.1 == f.1 && f.1 > b.2.1 && e != f)) with
    | some _ => some "stale-entry-kept-below-installed-snapshot"
    | none => none))

/-- C04: terms never decrease along a log -/
def termsMonotone (h : List Ev) : Option String :=
  let rec mono : List (Nat × Nat × Nat × Nat) → Bool
    | a :: b :: rest => a.2.1 ≤ b.2.1 && mono (b :: rest)
    | _ => true
  match (finalLogs h).find? (fun l => !(mono (l.2.2.filter (fun e => e.1 > l.2.1)))) with
  | some l => some s!"terms-decrease-in-log-of-{l.1}"
  | none => none

/-- C05: reported commit index never above the last index -/
def commitLeLast (h : List Ev) : Option String :=
  match (dumpsUp h).find? (fun d => d.2.2.2.1 > d.2.2.2.2.2) with
  | some d => some s!"commit-index-above-last-index-on-{d.1}"
  | none => none

/-! ## C18 -/

def alternates : List Bool → Bool → Bool
  | [], _ => true
  | v :: rest, expect => v == expect && alternates rest (!expect)

def notifyAlternates (h : List Ev) : Option String :=
  let ls := (h.filterMap (fun e => match e with | .notify s l _ _ => some (s, l) | _ => none)).eraseDups
  ls.findSome? (fun sl =>
    let vs := h.filterMap (fun e => match e with | .notify s l v _ => if s == sl.1 && l == sl.2 then some v else none | _ => none)
    if alternates vs true then none else some s!"notifications-of-{sl.1}-do-not-alternate")

/-! ## C09 -/

/-- VerifyLeader never succeeds on a server that had already been superseded when the call began:
    no other server may have acted as leader of a higher term before the call was made.  (For a
    verify call the `idx` field of the record carries the caller's term at the moment of the call.) -/
def verifyFresh (h : List Ev) : Option String :=
  let ss := h.filterMap (fun e => match e with | .sender s t tm => some (s, t, tm) | _ => none)
  (calls h).findSome? (fun c =>
    let kind := c.2.2.2.1; let code := c.2.2.2.2.2.2.2.1; let srv := c.2.1
    let t0 := c.2.2.2.2.2.1; let term := c.2.2.2.2.2.2.2.2.1
    if kind == 2 && code == 0 then
      match ss.find? (fun x => x.1 != srv && x.2.1 > term && x.2.2 < t0) with
      | some x => some s!"verify-leader-succeeded-on-{srv}-in-term-{term}-although-{x.1}-led-term-{x.2.1}-before-the-call"
      | none => none
    else none)

/-! ## C13 -/

/-- a leader cut off from every other voter at instant `T` gives up leadership within twice the lease
    (10 ms of slack for answers that were already travelling), and refuses writes afterwards -/
def leaseStepDown (h : List Ev) : Option String :=
  h.findSome? (fun e => match e with
    | .isolate srv life T lease =>
        let downs := h.filterMap (fun x => match x with
          | .notify s l false t => if s == srv && l == life && t ≥ T then some t else none
          | _ => none)
        match downs.head? with
        | none => some s!"isolated-leader-{srv}-never-stepped-down"
        | some t =>
          if t > T + 2 * lease + 10 then some s!"isolated-leader-{srv}-stepped-down-after-{t - T}-ms"
          else
            match (calls h).find? (fun c => c.2.1 == srv && c.2.2.1 == life && c.2.2.2.1 == 0 && c.2.2.2.2.2.1 > t && c.2.2.2.2.2.1 < T + 450 && c.2.2.2.2.2.2.2.1 == 0) with
            | some c => some s!"write-{c.1}-accepted-after-the-lease-expired"
            | none => none
    | _ => none)

/-- while nothing is wrong nothing changes: no leadership gained or lost, no new term -/
def calmStable (h : List Ev) : Option String :=
  match h.findSome? (fun e => match e with | .calm t => some t | _ => none),
        h.findSome? (fun e => match e with | .calmEnd t => some t | _ => none) with
  | some t1, some t2 =>
      if h.any (fun e => match e with | .notify _ _ _ t => t > t1 && t < t2 | _ => false) then some "leadership-changed-in-a-fault-free-stretch"
      else if h.any (fun e => match e with | .sender _ _ t => t > t1 && t < t2 | _ => false) then some "new-term-in-a-fault-free-stretch"
      else none
  | _, _ => none

/-! ## C20 -/

/-- after a user Restore that returned nil: the leader's FSM was handed exactly the supplied state;
    every write acknowledged afterwards has an index above the snapshot's index and above every
    earlier index; writes that were answered ErrAbortedByRestore left no trace; and in the end every
    server holds the restored state followed by the later entries -/
def restoreOK (h : List Ev) : Option String :=
  h.findSome? (fun e => match e with
    | .restore srv life t0 t1 true metaIdx last data =>
        let idxd := h.zipIdx
        let invPos := (h.findIdx? (fun x => match x with | .restoreInvoke s l _ => s == srv && l == life | _ => false)).getD 0
        let retPos := (h.findIdx? (fun x => match x with | .restore s l _ _ _ _ _ _ => s == srv && l == life | _ => false)).getD 0
        let restoredLocally := idxd.any (fun (x, i) => i > invPos && i < retPos && (match x with
          | .frestore s l d => s == srv && l == life && d == data
          | _ => false))
        if !restoredLocally then some "leader-fsm-was-not-handed-the-supplied-snapshot"
        else
          let cs := (calls h).filter (fun c => c.2.2.2.1 == 0)
          match cs.find? (fun c => c.2.2.2.2.2.2.2.1 == 0 && invokePos h c.1 > retPos && c.2.2.2.2.2.2.2.2.1 ≤ max metaIdx last) with
          | some c => some s!"write-{c.1}-after-the-restore-got-an-index-not-above-the-restored-one"
          | none =>
            let aborted := (cs.filter (fun c => c.2.2.2.2.2.2.2.1 == 6)).map (fun c => c.2.2.2.2.1)
            let after := (cs.filter (fun c => c.2.2.2.2.2.2.2.1 == 0 && invokePos h c.1 > retPos)).map (fun c => c.2.2.2.2.1)
            let before := (cs.filter (fun c => answerPos h c.1 < invPos)).map (fun c => c.2.2.2.2.1)
            (finalStates h).findSome? (fun st =>
              if st.2.2.take data.length ≠ data then some s!"final-state-of-{st.1}-does-not-start-with-the-restored-state"
              else if aborted.any (fun p => st.2.2.contains p) then some s!"aborted-write-left-a-trace-on-{st.1}"
              else if before.any (fun p => (st.2.2.drop data.length).contains p) then some s!"write-from-before-the-restore-survives-on-{st.1}"
              else if after.any (fun p => !(st.2.2.contains p)) then some s!"write-after-the-restore-missing-on-{st.1}"
              else none)
    | _ => none)

/-- all final states equal (restore runs cannot use the agreed-history monitors) -/
def finalStatesEqual (h : List Ev) : Option String :=
  match finalStates h with
  | [] => some "no-final-dump"
  | s0 :: rest => match rest.find? (fun s => s.2.2 ≠ s0.2.2) with
    | some s => some s!"final-states-of-{s0.1}-and-{s.1}-differ"
    | none => none

/-! ## C07 / C01 — membership changes are serialised behind commitment -/

/-- a leader never holds two uncommitted configuration entries, and holds an uncommitted
    configuration entry of its own term only once an entry of its own term is committed -/
def configGated (h : List Ev) : Option String :=
  h.findSome? (fun e => match e with
    | .sample srv _ _ term 2 commit _ own ncfg ncfgOwn _ _ lo =>
        -- `own` is the leader's first own-term entry only while the log still reaches below it
        if !(lo > 0 && lo < own) && own != 0 then none else
        -- (a restarted server does not know what is committed: only configurations of the leader's
        -- own term are certainly its own doing, and once its no-op is committed they are all there is)
        if ncfgOwn > 1 || (ncfgOwn ≥ 1 && commit ≥ own && ncfg > ncfgOwn) then some s!"leader-{srv}-of-term-{term}-holds-{ncfg}-uncommitted-configurations"
        else if ncfgOwn ≥ 1 && (own == 0 || commit < own) then some s!"leader-{srv}-of-term-{term}-appended-a-configuration-before-committing-an-entry-of-its-term"
        else none
    | _ => none)

/-! ## C05 / C03 — the current-term rule -/

def samplesOf (h : List Ev) (srv life : Nat) : List (Nat × Nat × Nat × Nat × Nat) :=   -- (t, term, role, commit, own)
  h.filterMap (fun e => match e with
    -- `own` (first entry of the current term still in the log) is the leader's first own-term entry
    -- only while the log reaches below it; after compaction it is reported as 0 = unknown
    | .sample s l t term role commit _ own _ _ _ _ lo =>
        if s == srv && l == life then some (t, term, role, commit, if lo > 0 && lo < own then own else 0) else none
    | _ => none)

/-- while a server leads term T its commit index never advances onto an index below the first entry
    of term T in its log (nothing is reported committed before an own-term entry is) -/
def currentTermRule (h : List Ev) : Option String :=
  let ls := (h.filterMap (fun e => match e with | .sample s l _ _ _ _ _ _ _ _ _ _ _ => some (s, l) | _ => none)).eraseDups
  ls.findSome? (fun sl =>
    let rec walk : List (Nat × Nat × Nat × Nat × Nat) → Option String
      | a :: b :: rest =>
          if a.2.1 == b.2.1 && a.2.2.1 == 2 && b.2.2.1 == 2 && b.2.2.2.1 > a.2.2.2.1 && b.2.2.2.2 > 0 && b.2.2.2.1 < b.2.2.2.2
          then some s!"leader-{sl.1}-of-term-{b.2.1}-advanced-its-commit-index-to-{b.2.2.2.1}-before-its-own-entry-{b.2.2.2.2}"
          else walk (b :: rest)
      | _ => none
    walk (samplesOf h sl.1 sl.2))

/-- correspondence (not a property clause by itself): the leader's commitment tracker starts at the
    index of its first own-term entry, whenever that entry is still in its log -/
def leaderStartIndex (h : List Ev) : Option String :=
  h.findSome? (fun e => match e with
    | .sample srv _ _ term 2 _ _ own _ _ start true lo =>
        if own > 0 && lo > 0 && lo < own && start != own then some s!"leader-{srv}-term-{term}-start-index-{start}-first-own-entry-{own}" else none
    | _ => none)

/-! ## C14 — isolation does not inflate terms -/

/-- while a server is cut off from everybody its term moves by at most one (an election that was
    already under way, or the one a TimeoutNow request triggers) -/
def isolatedTermConstant (h : List Ev) : Option String :=
  let idxd := h.zipIdx
  let exempt (s : Nat) : Bool := h.any (fun e => match e with | .noPreVote x => x == s | _ => false)
  idxd.findSome? (fun (e, i) => match e with
    | .isol srv t1 =>
        if exempt srv then none else      -- the property speaks about servers with pre-vote enabled
        -- the window ends at the next un-isolation of any server or global heal
        let after := (idxd.filter (fun (_, j) => j > i)).map (·.1)
        let t2 := (after.findSome? (fun x => match x with
          | .unisol _ t => some t      -- un-isolating any server reconnects it to this one
          | .healAll t => some t
          | .quiet t => some t
          | _ => none)).getD 1000000000
        let ss := after.filterMap (fun x => match x with
          -- (requests that had passed the cut when it was made are still delivered: up to 40 ms of
          -- network delay plus up to 45 ms for a duplicate)
          | .sample s l t term _ _ _ _ _ _ _ _ _ => if s == srv && t > t1 + 120 && t < t2 then some (l, term) else none
          | _ => none)
        match ss with
        | [] => none
        | (l0, tm0) :: rest =>
          let same := rest.filter (fun x => x.1 == l0)
          let mx := same.foldl (fun m x => max m x.2) tm0
          if mx > tm0 + 1 then some s!"isolated-server-{srv}-raised-its-term-from-{tm0}-to-{mx}" else none
    | _ => none)

/-! ## C10 / C11 — a server always restarts from what it durably holds -/

def restartable (h : List Ev) : Option String :=
  h.findSome? (fun e => match e with
    | .dead srv life => some s!"server-{srv}-could-not-restart-from-its-durable-state-(life-{life})"
    | _ => none)

/-! ## C17 / C18 additions -/

/-- C17: `Shutdown()` itself completes -/
def shutdownCompletes (h : List Ev) : Option String :=
  h.findSome? (fun e => match e with
    | .shutdownHung srv life => some s!"shutdown-of-{srv}-(life-{life})-did-not-complete"
    | _ => none)

/-- C18: at rest, whatever LeaderCh holds is the most recent transition: if anything can be read
    from it, the last value read says whether the server is leader now -/
def leaderChLatest (h : List Ev) : Option String :=
  h.findSome? (fun e => match e with
    | .leaderCh srv _ (some v) isL => if v != isL then some s!"LeaderCh-of-{srv}-holds-{v}-while-leader={isL}" else none
    | _ => none)

/-- C20: a Restore that is *refused* (the server is not leader, or a leadership transfer is in
    progress) does nothing at all: the state it carried is never handed to any FSM -/
def refusedRestoreInert (h : List Ev) : Option String :=
  h.findSome? (fun e => match e with
    | .restoreRefused srv _ code data =>
        if data.isEmpty then none else
        h.findSome? (fun x => match x with
          | .frestore s _ d => if d == data then some s!"refused-restore-(code-{code})-of-{srv}-took-effect-on-{s}" else none
          | _ => none)
    | _ => none)

/-- C20: no Restore is accepted while a leadership transfer is in progress -/
def noRestoreDuringTransfer (h : List Ev) : Option String :=
  h.findSome? (fun e => match e with
    | .restoreDuringTransfer srv _ => some s!"restore-accepted-on-{srv}-while-a-leadership-transfer-was-in-progress"
    | _ => none)

/-- F16: a user Restore that did not complete (the leader was stopped while it ran) leaves its
    snapshot in the leader's own snapshot store; at restart the leader's FSM is rebuilt from it although
    the rest of the cluster never took that state.  Reported under its own name so that the known
    finding covers exactly this history and nothing else. -/
def failedRestoreResidue (h : List Ev) : Option String :=
  h.findSome? (fun e => match e with
    | .restore srv life _ _ false _ _ data =>
        if data.isEmpty then none else
        let again := h.any (fun x => match x with
          | .frestore s l d => s == srv && l > life && d == data
          | _ => false)
        -- (or the server was never restarted and simply kept the state its FSM had already taken)
        let kept := h.any (fun x => match x with
          | .frestore s l d => s == srv && l == life && d == data
          | _ => false)
        let elsewhere := (finalStates h).any (fun st => st.1 != srv && st.2.2.take data.length ≠ data)
        let here := (finalStates h).any (fun st => st.1 == srv && st.2.2.take data.length == data)
        if again && elsewhere && here then some s!"unfinished-restore-on-{srv}-came-back-at-its-restart-only-there"
        else if kept && elsewhere && here then some s!"unfinished-restore-on-{srv}-stayed-only-there"
        else none
    | _ => none)

/-! ## candidate / follower loop: who gets elected, availability, quiet rejoin -/

/-- C07/C01: a server is never elected while the configuration it was elected under (one that
    predates its leadership) lists it as a non-voter -/
def nonVoterNeverElected (h : List Ev) : Option String :=
  h.findSome? (fun e => match e with
    | .electedAs srv _ false cfgIdx start true =>
        if cfgIdx < start then some s!"server-{srv}-was-elected-although-its-configuration-(index-{cfgIdx})-lists-it-as-a-non-voter" else none
    | _ => none)

/-- C12: with a majority of the voters up, the network calm and three virtual seconds gone by, there
    is a leader and it accepts a write -/
def majorityElects (h : List Ev) : Option String :=
  h.findSome? (fun e => match e with
    | .majority t stopped false => some s!"no-leader-accepting-writes-with-{stopped}-stopped-at-{t}"
    -- F20: the same while a running server had not yet learnt the committed configuration
    | .majorityStale _ stopped false => some s!"no-leader-with-{stopped}-stopped-while-a-running-server-has-not-learnt-the-committed-configuration"
    | _ => none)

/-- C14: a server that was cut off and reconnects on a calm network does not unseat the leader or
    move the cluster's term (servers running without pre-vote excepted) -/
def rejoinQuiet (h : List Ev) : Option String :=
  -- a member without pre-vote that was cut off earlier raises the term all by itself when it comes
  -- back: in a mixed cluster a change of term after a rejoin cannot be pinned on the rejoining server
  let mixed : Bool := h.any (fun e => match e with | .noPreVote _ => true | _ => false)
  h.findSome? (fun e => match e with
    | .rejoin srv _ l0 t0 _ l1 t1 =>
        if mixed then none
        else if l1 != l0 || t1 != t0 then some s!"reconnecting-server-{srv}-unseated-leader-{l0}-of-term-{t0}-(now-{l1}-term-{t1})" else none
    | _ => none)

end CL
