import RaftVerif.Spec.ServerSpec
/-! Local theorems about the single-server model `SV` (the model the H2 correspondence steps
alongside the real server): facts about one handler, for every state, request, failure ordinal and
crash ordinal. -/
namespace SV

/-! ## generic facts about `exec` -/

/-- whatever fails or crashes, the writes performed are a prefix of the plan -/
theorem exec_prefix (p : Plan) (f c : Option Nat) : ∃ m, (exec p f c).2 = p.writes.take m := by
  unfold exec
  simp only []
  split
  · exact ⟨p.writes.length, by simp⟩
  · split
    · exact ⟨_, rfl⟩
    · exact ⟨p.writes.length, by simp⟩

/-- with nothing armed the plan runs to its end -/
theorem exec_none (p : Plan) : exec p none none = (p.final, p.writes) := by
  simp [exec]

/-- the outcome is the final one or that of some step -/
theorem exec_outcome (p : Plan) (f c : Option Nat) :
    (exec p f c).1 = p.final ∨ ∃ s ∈ p.steps, (exec p f c).1 = s.2 ∨ (exec p f c).1 = { s.2 with panic := true } := by
  unfold exec
  simp only []
  split
  · left; rfl
  · rename_i k isCrash _
    split
    · rename_i w r hs
      right
      refine ⟨(w, r), List.mem_of_getElem? hs, ?_⟩
      by_cases hc : isCrash <;> simp [hc]
    · left; rfl

/-! ## C14 — the pre-vote handler is inert -/

/-- a RequestPreVote writes nothing and changes no volatile state, whatever is armed -/
theorem prevote_inert (v : Vol) (q : VoteReq) (f c : Option Nat) :
    (exec (preVotePlan v q) f c).2 = [] ∧ (exec (preVotePlan v q) f c).1.vol = v ∧
    (exec (preVotePlan v q) f c).1.fsm = [] := by
  have hs : (preVotePlan v q).steps = [] := rfl
  unfold exec
  simp [hs, preVotePlan, Plan.writes, mkRes]
  repeat' split
  all_goals simp_all [mkRes]

/-- in the world: a pre-vote event leaves durable and volatile state exactly as they were -/
theorem prevote_event_inert (w : World) (q : VoteReq) (hd : w.dead = false) :
    (stepEvent w (.prevote q)).1 = w := by
  have h := prevote_inert w.v q none none
  simp only [stepEvent, hd, planOf]
  simp only [exec_none, preVotePlan, mkRes, Plan.writes, List.map_nil, applyAll, List.foldl_nil]
  simp [hd.symm]
  cases w; simp_all

/-- a pre-vote is granted only to a candidate at least as up to date as the server's last entry and,
    when a configuration is known, only to a voter of it; never while another leader is known -/
theorem prevote_grant_sound (v : Vol) (q : VoteReq) (t : Nat) (h : preVoteResp v q = .prevote t true) :
    upToDate q.lastIdx q.lastTerm (lastEntry v).1 (lastEntry v).2 = true ∧
    (v.latest ≠ [] → hasVote v.latest q.candId = true) ∧ (v.leader = 0 ∨ v.leader = q.cand) ∧ v.term ≤ q.term := by
  unfold preVoteResp at h
  simp only [] at h
  repeat' (split at h)
  all_goals (try (simp at h))
  all_goals simp_all [upToDate]
  all_goals omega

end SV
