import RaftVerif.Spec.ServerSpec
/-! Local theorems about the single-server model `SV` (the model the H2 correspondence steps
alongside the real server): facts about one handler, for every state, request, failure ordinal and
crash ordinal. -/
namespace SV

/-! ## generic facts about `exec` -/

/-- whatever fails or crashes, the writes performed are a prefix of the plan -/
theorem exec_prefix (p : Plan) (f c : Option Nat) : ∃ m, (exec p f c).2 = p.writes.take m := by
  unfold exec
  simp only []
  split
  · exact ⟨p.writes.length, by simp⟩
  · split
    · exact ⟨_, rfl⟩
    · exact ⟨p.writes.length, by simp⟩

/-- with nothing armed the plan runs to its end -/
theorem exec_none (p : Plan) : exec p none none = (p.final, p.writes) := by
  simp [exec]

/-- the outcome is the final one or that of some step -/
theorem exec_outcome (p : Plan) (f c : Option Nat) :
    (exec p f c).1 = p.final ∨ ∃ s ∈ p.steps, (exec p f c).1 = s.2 ∨ (exec p f c).1 = { s.2 with panic := true } := by
  unfold exec
  simp only []
  split
  · left; rfl
  · rename_i k isCrash _
    split
    · rename_i w r hs
      right
      refine ⟨(w, r), List.mem_of_getElem? hs, ?_⟩
      by_cases hc : isCrash <;> simp [hc]
    · left; rfl

/-! ## C14 — the pre-vote handler is inert -/

/-- a RequestPreVote writes nothing and changes no volatile state, whatever is armed -/
theorem prevote_inert (v : Vol) (q : VoteReq) (f c : Option Nat) :
    (exec (preVotePlan v q) f c).2 = [] ∧ (exec (preVotePlan v q) f c).1.vol = v ∧
    (exec (preVotePlan v q) f c).1.fsm = [] := by
  have hs : (preVotePlan v q).steps = [] := rfl
  unfold exec
  simp [hs, preVotePlan, Plan.writes, mkRes]
  repeat' split
  all_goals simp_all [mkRes]

/-- in the world: a pre-vote event leaves durable and volatile state exactly as they were -/
theorem prevote_event_inert (w : World) (q : VoteReq) (hd : w.dead = false) :
    (stepEvent w (.prevote q)).1 = w := by
  have h := prevote_inert w.v q none none
  simp only [stepEvent, hd, planOf, stepPlan]
  simp only [exec_none, preVotePlan, mkRes, Plan.writes, List.map_nil, applyAll, List.foldl_nil]
  simp [hd.symm, fsmNext, fsmDataAfter, fsmAdvance]
  cases w; simp_all

/-- a pre-vote is granted only to a candidate at least as up to date as the server's last entry and,
    when a configuration is known, only to a voter of it; never while another leader is known -/
theorem prevote_grant_sound (v : Vol) (q : VoteReq) (t : Nat) (h : preVoteResp v q = .prevote t true) :
    upToDate q.lastIdx q.lastTerm (lastEntry v).1 (lastEntry v).2 = true ∧
    (v.latest ≠ [] → hasVote v.latest q.candId = true) ∧ (v.leader = 0 ∨ v.leader = q.cand) ∧ v.term ≤ q.term := by
  unfold preVoteResp at h
  simp only [] at h
  repeat' (split at h)
  all_goals (try (simp at h))
  all_goals simp_all [upToDate]
  all_goals omega



/-- a stale-term AppendEntries is refused without touching anything -/
theorem ae_stale_term_inert (cf : Cfg) (d : Durable) (v : Vol) (a : AEReq) (f c : Option Nat) (h : a.term < v.term) :
    (exec (aePlan cf d v a) f c).2 = [] ∧ (exec (aePlan cf d v a) f c).1.vol = v ∧
    (exec (aePlan cf d v a) f c).1.resp = .append v.term (lastIndex v) false false := by
  have hp : aePlan cf d v a = ⟨[], aeFail v v false v.term⟩ := by
    simp [aePlan, h]
  rw [hp]
  simp only [exec, Plan.writes, List.map_nil, List.length_nil, List.getElem?_nil]
  repeat' split
  all_goals simp_all [mkRes, aeFail]

/-- an InstallSnapshot the server is already past (by what it has applied, or because it holds the
    snapshot's last entry) is acknowledged without any durable write and without touching the FSM -/
theorem install_covered_inert (cf : Cfg) (d : Durable) (v : Vol) (q : ISReq)
    (ht : q.term = v.term) (hrole : v.role = .follower) (h : q.lastIdx ≤ v.applied ∨ holdsEntry d { v with leader := q.leader, leaderId := q.leaderId } q.lastIdx q.lastTerm = true) :
    (isPlan cf d v q).steps = [] ∧ (isPlan cf d v q).final.fsm = [] ∧
    (isPlan cf d v q).final.resp = .install v.term true false ∧
    (isPlan cf d v q).final.vol = { v with leader := q.leader, leaderId := q.leaderId } := by
  have h1 : ¬ q.term < v.term := by omega
  have h2 : ¬ q.term > v.term := by omega
  have hdn : ¬ isDown v q := by
    unfold isDown; rintro (hx | ⟨hx, _⟩)
    · exact h2 hx
    · exact hx hrole
  have hv2 : isVol2 v q = { v with leader := q.leader, leaderId := q.leaderId } := by
    simp [isVol2, hdn]
  simp only [isPlan, h1, if_false, isPre, hdn, hv2, isTail]
  rcases h with h | h
  · simp [h, mkRes]
  · simp [h, mkRes]


/-- `exec` either runs the whole plan or stops at a step, returning that step's response -/
theorem exec_cases (p : Plan) (f c : Option Nat) :
    exec p f c = (p.final, p.writes) ∨
    ∃ k w r, p.steps[k]? = some (w, r) ∧ (exec p f c).1.resp = r.resp ∧ (exec p f c).1.vol = r.vol ∧
      (exec p f c).2 = p.writes.take k := by
  unfold exec
  simp only []
  split
  · left; rfl
  · rename_i k isCrash _
    split
    · rename_i w r hs
      right
      refine ⟨k, w, r, hs, ?_, ?_, rfl⟩ <;> (by_cases hc : isCrash <;> simp [hc])
    · left; rfl

/-- every step of a vote plan answers "not granted" -/
theorem votePlan_steps_refuse (d : Durable) (v : Vol) (q : VoteReq) :
    ∀ s ∈ (votePlan d v q).steps, ∀ t, s.2.resp ≠ .vote t true := by
  intro s hs t
  unfold votePlan votePre voteVol1 at hs
  simp only [] at hs
  repeat' (split at hs)
  all_goals simp_all [mkRes]
  all_goals (rcases hs with hs | hs | hs <;> (try subst hs) <;> simp_all [mkRes])


/-- what a granting *final* result of a vote plan implies about the request and the pre-state -/
theorem votePlan_final_granted (d : Durable) (v : Vol) (q : VoteReq) (t : Nat)
    (h : (votePlan d v q).final.resp = .vote t true) :
    v.term ≤ q.term ∧ t = q.term ∧
    upToDate q.lastIdx q.lastTerm (lastEntry v).1 (lastEntry v).2 = true ∧
    (q.candId ≠ 0 → v.latest ≠ [] → hasVote v.latest q.candId = true) ∧
    (v.leader = 0 ∨ v.leader = q.cand ∨ q.transfer = true) ∧
    ((d.voteTerm = q.term ∧ d.voteCand = some q.cand) ∨
     (applyAll d (votePlan d v q).writes).voteTerm = q.term ∧ (applyAll d (votePlan d v q).writes).voteCand = some q.cand) := by
  have hle : lastEntry (stepDown v q.term) = lastEntry v := by simp [lastEntry, stepDown]
  have hv1t : (if q.term > v.term then stepDown v q.term else v).term = (if q.term > v.term then q.term else v.term) := by
    by_cases hg : q.term > v.term <;> simp [hg, stepDown]
  have hv1e : lastEntry (if q.term > v.term then stepDown v q.term else v) = lastEntry v := by
    by_cases hg : q.term > v.term <;> simp [hg, hle]
  unfold votePlan votePre voteVol1 at h
  simp only [] at h
  split at h
  · simp [mkRes] at h
  rename_i g1
  split at h
  · simp [mkRes] at h
  rename_i g2
  split at h
  · simp [mkRes] at h
  rename_i g3
  split at h
  · simp [mkRes] at h
  rename_i g4
  rw [hv1e] at h
  have hvoter : q.candId ≠ 0 → v.latest ≠ [] → hasVote v.latest q.candId = true := by
    intro a b
    by_cases hv : hasVote v.latest q.candId = true
    · exact hv
    · exact absurd ⟨a, b, hv⟩ g4
  have hleader : v.leader = 0 ∨ v.leader = q.cand ∨ q.transfer = true := by
    by_cases a : v.leader = 0
    · left; exact a
    · by_cases b : v.leader = q.cand
      · right; left; exact b
      · right; right
        by_cases c : q.transfer = true
        · exact c
        · exact absurd ⟨a, b, c⟩ g2
  split at h
  · simp [mkRes] at h
  rename_i g5
  split at h
  · simp [mkRes] at h
  rename_i g6
  have hup : upToDate q.lastIdx q.lastTerm (lastEntry v).1 (lastEntry v).2 = true := by
    simp only [upToDate, Bool.or_eq_true, decide_eq_true_eq, Bool.and_eq_true, beq_iff_eq]
    by_cases e : (lastEntry v).2 = q.lastTerm
    · right; refine ⟨e.symm, ?_⟩
      have : ¬ (lastEntry v).1 > q.lastIdx := fun x => g6 ⟨e, x⟩
      omega
    · left; omega
  have hterm : v.term ≤ q.term := by omega
  split at h
  · rename_i g7
    simp only [mkRes, Resp.vote.injEq, hv1t] at h
    have hc : d.voteCand = some q.cand := by simpa using h.2
    refine ⟨hterm, ?_, hup, hvoter, hleader, Or.inl ⟨g7.1, hc⟩⟩
    by_cases hg : q.term > v.term
    · simp [hg] at h; exact h.1.symm
    · simp [hg] at h; omega
  · rename_i g7
    simp only [mkRes, Resp.vote.injEq, hv1t, and_true] at h
    refine ⟨hterm, ?_, hup, hvoter, hleader, Or.inr ?_⟩
    · by_cases hg : q.term > v.term
      · simp [hg] at h; exact h.symm
      · simp [hg] at h; omega
    · unfold votePlan votePre voteVol1
      simp only []
      rw [if_neg g1, if_neg g2, if_neg g3, if_neg g4, hv1e, if_neg g5, if_neg g6, if_neg g7]
      by_cases hg : q.term > v.term <;> simp [hg, applyAll, Write.apply, Plan.writes]


/-- **C06, one handler, every failure ordinal and crash ordinal.**  If RequestVote answers
    "granted" then: the request's term is at least the server's and is the term answered; the
    candidate's log is at least as up to date as the server's last entry; when the request names its
    sender and a configuration is known, the sender is a voter of it; no other leader is known
    (unless the request is a leadership transfer); every planned write was performed, and the durable
    vote record names exactly this term and this candidate — the grant is on disk before it is
    answered. -/
theorem vote_grant_sound (d : Durable) (v : Vol) (q : VoteReq) (f c : Option Nat) (t : Nat)
    (h : (exec (votePlan d v q) f c).1.resp = .vote t true) :
    v.term ≤ q.term ∧ t = q.term ∧
    upToDate q.lastIdx q.lastTerm (lastEntry v).1 (lastEntry v).2 = true ∧
    (q.candId ≠ 0 → v.latest ≠ [] → hasVote v.latest q.candId = true) ∧
    (v.leader = 0 ∨ v.leader = q.cand ∨ q.transfer = true) ∧
    (applyAll d (exec (votePlan d v q) f c).2).voteTerm = q.term ∧
    (applyAll d (exec (votePlan d v q) f c).2).voteCand = some q.cand := by
  rcases exec_cases (votePlan d v q) f c with hfin | ⟨k, w, r, hs, hr, _, _⟩
  · rw [hfin] at h ⊢
    obtain ⟨a, b, c', d', e, g⟩ := votePlan_final_granted d v q t h
    refine ⟨a, b, c', d', e, ?_⟩
    rcases g with ⟨g1, g2⟩ | g
    · -- the record was already there: the plan writes at most the term
      -- (no vote write), so the record is unchanged
      have hnw : ∀ w ∈ (votePlan d v q).writes, (∃ x, w = .setTerm x) ∨ w = .setVoteTerm q.term ∨ w = .setVoteCand q.cand := by
        intro w hw
        unfold votePlan votePre voteVol1 at hw
        simp only [] at hw
        repeat' (split at hw)
        all_goals simp_all [Plan.writes]
        all_goals (rcases hw with hw | hw | hw <;> simp_all)
      -- applying such writes keeps (voteTerm, voteCand) = (q.term, some q.cand)
      have keep : ∀ (ws : List Write) (d0 : Durable), d0.voteTerm = q.term → d0.voteCand = some q.cand →
          (∀ w ∈ ws, (∃ x, w = .setTerm x) ∨ w = .setVoteTerm q.term ∨ w = .setVoteCand q.cand) →
          (applyAll d0 ws).voteTerm = q.term ∧ (applyAll d0 ws).voteCand = some q.cand := by
        intro ws
        induction ws with
        | nil => intro d0 h1 h2 _; exact ⟨h1, h2⟩
        | cons w ws ih =>
          intro d0 h1 h2 hall
          simp only [applyAll, List.foldl_cons]
          apply ih
          · rcases hall w List.mem_cons_self with ⟨x, rfl⟩ | rfl | rfl <;> simp [Write.apply, h1]
          · rcases hall w List.mem_cons_self with ⟨x, rfl⟩ | rfl | rfl <;> simp [Write.apply, h2]
          · intro w' hw'; exact hall w' (List.mem_cons_of_mem _ hw')
      exact keep _ d g1 g2 hnw
    · exact g
  · exfalso
    rw [hr] at h
    exact votePlan_steps_refuse d v q (w, r) (List.mem_of_getElem? hs) t h



def isSuccess (r : Resp) : Bool := match r with | .append _ _ true _ => true | _ => false

theorem aeFail_not_success (v0 v' : Vol) (nr : Bool) (t : Nat) : isSuccess (aeFail v0 v' nr t).resp = false := rfl

/-- the steps of the commit/processLogs tail are the steps handed in -/
theorem aeFinish_steps (v0 : Vol) (t1 : Nat) (a : AEReq) (steps : List (Write × Res)) (dlog : List Entry) (v3 : Vol) :
    (aeFinish v0 t1 a steps dlog v3).steps = steps := by
  unfold aeFinish
  simp only []
  repeat' split
  all_goals rfl

theorem aePre_refuse (v : Vol) (a : AEReq) : ∀ s ∈ aePre v a, isSuccess s.2.resp = false := by
  intro s hs
  unfold aePre at hs
  split at hs
  · simp at hs; subst hs; rfl
  · simp at hs

/-- every step of the entries part answers "no success" -/
theorem aeBody_steps_refuse (cf : Cfg) (d : Durable) (v : Vol) (a : AEReq) (pre : List (Write × Res)) (v2 : Vol) (t1 : Nat)
    (hpre : ∀ s ∈ pre, isSuccess s.2.resp = false) :
    ∀ s ∈ (aeBody cf d v a pre v2 t1).steps, isSuccess s.2.resp = false := by
  intro s hs
  unfold aeBody at hs
  split at hs
  · rw [aeFinish_steps] at hs; exact hpre s hs
  · split at hs
    · exact hpre s hs
    · rename_i conflict newEntries _
      cases conflict with
      | none =>
        simp only [] at hs
        split at hs
        · rename_i hr; simp at hr
        · split at hs
          · rw [aeFinish_steps] at hs; exact hpre s hs
          · rw [aeFinish_steps] at hs
            simp only [List.mem_append, List.mem_cons, List.mem_nil_iff, or_false] at hs
            rcases hs with (hs | hs) | hs
            · exact hpre s hs
            · split at hs
              · simp at hs; subst hs; rfl
              · simp at hs
            · subst hs; rfl
      | some ci =>
        simp only [] at hs
        split at hs
        · simp only [List.mem_append, List.mem_cons, List.mem_nil_iff, or_false] at hs
          rcases hs with hs | hs
          · exact hpre s hs
          · subst hs; rfl
        · split at hs
          · rw [aeFinish_steps] at hs
            simp only [List.mem_append, List.mem_cons, List.mem_nil_iff, or_false] at hs
            rcases hs with hs | hs
            · exact hpre s hs
            · subst hs; rfl
          · rw [aeFinish_steps] at hs
            simp only [List.mem_append, List.mem_cons, List.mem_nil_iff, or_false] at hs
            rcases hs with ((hs | hs) | hs) | hs
            · exact hpre s hs
            · subst hs; rfl
            · split at hs
              · simp at hs; subst hs; rfl
              · simp at hs
            · subst hs; rfl

theorem aePlan_steps_refuse (cf : Cfg) (d : Durable) (v : Vol) (a : AEReq) :
    ∀ s ∈ (aePlan cf d v a).steps, isSuccess s.2.resp = false := by
  intro s hs
  unfold aePlan at hs
  split at hs
  · simp at hs
  · simp only [] at hs
    split at hs
    · exact aePre_refuse v a s hs
    · exact aePre_refuse v a s hs
    · exact aeBody_steps_refuse cf d v a _ _ _ (aePre_refuse v a) s hs


/-- **C04, one handler, every failure ordinal and crash ordinal.**  If AppendEntries answers
    success then: the request's term is at least the server's; the previous-entry check passed (the
    entry at `PrevLogEntry` is the cached last entry or the snapshot boundary with the announced
    term, or lies inside the snapshot, or is in the store with that term, or `PrevLogEntry = 0`);
    and every planned write was performed — the answer is given only after truncation and storing. -/
theorem ae_success_sound (cf : Cfg) (d : Durable) (v : Vol) (a : AEReq) (f c : Option Nat)
    (h : isSuccess (exec (aePlan cf d v a) f c).1.resp = true) :
    (exec (aePlan cf d v a) f c).2 = (aePlan cf d v a).writes ∧ v.term ≤ a.term ∧
    aePrevOk d (aeVol2 v a) a = some true := by
  rcases exec_cases (aePlan cf d v a) f c with hfin | ⟨k, w, r, hs, hr, _, _⟩
  · rw [hfin] at h ⊢
    refine ⟨rfl, ?_⟩
    simp only [] at h
    unfold aePlan at h
    split at h
    · simp [aeFail, mkRes, isSuccess] at h
    · rename_i hge
      simp only [] at h
      refine ⟨by omega, ?_⟩
      split at h
      · simp [aeFail, mkRes, isSuccess] at h
      · simp [aeFail, mkRes, isSuccess] at h
      · assumption
  · exfalso
    have := aePlan_steps_refuse cf d v a (w, r) (List.mem_of_getElem? hs)
    rw [hr] at h
    simp [this] at h

/-- what an accepted previous-entry check means -/
theorem aePrevOk_true (d : Durable) (v2 : Vol) (a : AEReq) (h : aePrevOk d v2 a = some true) :
    a.prevIdx = 0 ∨
    (a.prevIdx = (lastEntry v2).1 ∧ a.prevTerm = (lastEntry v2).2) ∨
    (a.prevIdx = v2.snapIdx ∧ a.prevTerm = v2.snapTerm) ∨
    a.prevIdx < v2.snapIdx ∨
    ∃ e, getLog d.log a.prevIdx = some e ∧ a.prevTerm = e.term := by
  unfold aePrevOk at h
  split at h
  · left; assumption
  · simp only [] at h
    split at h
    · right; left
      rename_i h1
      exact ⟨h1, by simpa using h⟩
    · split at h
      · right; right; left
        rename_i h1
        exact ⟨h1, by simpa using h⟩
      · split at h
        · right; right; right; left; assumption
        · split at h
          · cases h
          · rename_i pe hg
            right; right; right; right
            exact ⟨pe, hg, by simpa using h⟩

end SV
