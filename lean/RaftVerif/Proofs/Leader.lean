import RaftVerif.Model.Leader
import RaftVerif.Proofs.LogStore
/-! # Theorems about the leader's main loop as stepped against the code (`SV.stepLeader`)

* `dispatch_ok` / `dispatch_failed` (C08, C03): `dispatchLogs` numbers the calls of a group
  consecutively from the last index in the leader's term, in call order, stores them with one write
  before anything else happens to them, and answers nobody; a failing store answers every call of
  the group with the store's error, and the server is a follower afterwards.
* `commitBranch_acks_committed` (C08, C05): the commit branch acknowledges only in-flight calls whose
  index the commit index has reached, with that index; what stays in flight lies above it.
* `cleanup_answers_everyone` (C17): on the way out every in-flight call and every pending
  VerifyLeader gets an answer.
* `step_lead_only_while_leader` (C17, C18): the leader's bookkeeping exists only while the server is
  leader — whatever ends the leadership goes through the clean-up.
* `OneCfg` is inductive (C07): as long as the loop runs, every configuration entry in the log above
  the committed configuration's index is the latest one — the log never holds two uncommitted
  configurations — because `appendConfigurationEntry` runs only when the gate is open. -/
namespace SV
open CF (Config)

/-! ## dispatchLogs -/

theorem numberGroup_length (t i : Nat) (g : List (Nat × Nat × Nat × Config)) : (numberGroup t i g).length = g.length := by
  induction g generalizing i with
  | nil => rfl
  | cons x xs ih => obtain ⟨id, k, d, c⟩ := x; simp [numberGroup, ih]

theorem numberGroup_get (t i : Nat) (g : List (Nat × Nat × Nat × Config)) (k : Nat) (hk : k < g.length) :
    ∃ p, (numberGroup t i g)[k]? = some p ∧ p.1 = g[k].1 ∧ p.2.index = i + k ∧ p.2.term = t ∧
      p.2.kind = g[k].2.1 ∧ p.2.data = g[k].2.2.1 := by
  induction g generalizing i k with
  | nil => simp at hk
  | cons x xs ih =>
    obtain ⟨id, kd, d, c⟩ := x
    cases k with
    | zero => exact ⟨(id, ⟨i, t, kd, d, c⟩), by simp [numberGroup], rfl, rfl, rfl, rfl, rfl⟩
    | succ k' =>
      have hk' : k' < xs.length := by simpa using hk
      obtain ⟨p, h1, h2, h3, h4, h5, h6⟩ := ih (i + 1) k' hk'
      refine ⟨p, by simpa [numberGroup] using h1, by simpa using h2, by simp only [h3]; omega, h4, by simpa using h5, by simpa using h6⟩

/-- a successful `dispatchLogs`: one `StoreLogs` with the group's entries (after the optional
    staging of the commit index), numbered consecutively from the last index, in the current term,
    in call order; the calls are in flight, nobody has been answered, the cached last entry moved -/
theorem dispatch_ok (cf : Cfg) (a : Acc) (g : List (Nat × Nat × Nat × Config)) :
    let r := dispatch cf a g false
    let ents := numberGroup a.v.term (lastIndex a.v + 1) g
    r.2 = false ∧
    r.1.writes = a.writes ++ (if cf.restoreCommitted then [Write.stage a.v.commit] else []) ++ [Write.storeLogs (ents.map (·.2))] ∧
    r.1.lead.inflight = a.lead.inflight ++ ents ∧
    r.1.outcomes = a.outcomes ∧
    r.1.v.lastLogIdx = lastIndex a.v + g.length ∧ r.1.v.lastLogTerm = a.v.term ∧ r.1.v.role = a.v.role ∧
    (∀ k (hk : k < g.length), ∃ p, ents[k]? = some p ∧ p.1 = g[k].1 ∧ p.2.index = lastIndex a.v + 1 + k ∧ p.2.term = a.v.term) := by
  intro r ents
  refine ⟨rfl, ?_, rfl, rfl, rfl, rfl, rfl, ?_⟩
  · simp only [r, dispatch]; rfl
  · intro k hk
    obtain ⟨p, h1, h2, h3, h4, _, _⟩ := numberGroup_get a.v.term (lastIndex a.v + 1) g k hk
    exact ⟨p, h1, h2, h3, h4⟩

/-- a failing `StoreLogs`: nothing of the group is stored, every call of the group is answered with
    the store's error, and the server is a follower -/
theorem dispatch_failed (cf : Cfg) (a : Acc) (g : List (Nat × Nat × Nat × Config)) :
    let r := dispatch cf a g true
    r.2 = true ∧ r.1.v.role = .follower ∧
    (∀ w ∈ r.1.writes, w ∈ a.writes ∨ w = Write.stage a.v.commit) ∧
    (∀ c ∈ g, (c.1, Outcome.storeFailed) ∈ r.1.outcomes) := by
  intro r
  refine ⟨rfl, rfl, ?_, ?_⟩
  · intro w hw
    simp only [r, dispatch, if_true] at hw
    rcases List.mem_append.mp hw with h | h
    · exact Or.inl h
    · split at h
      · exact Or.inr (by simpa using h)
      · simp at h
  · intro c hc
    simp only [r, dispatch, if_true]
    apply List.mem_append_right
    rw [List.mem_map]
    obtain ⟨k, hk, hgk⟩ := List.getElem_of_mem hc
    obtain ⟨p, h1, h2, _⟩ := numberGroup_get a.v.term (lastIndex a.v + 1) g k hk
    refine ⟨p, List.mem_of_getElem? h1, ?_⟩
    rw [h2, hgk]

/-! ## the commit branch -/

theorem cbApply_outcomes (a : Acc) :
    (cbApply a).outcomes = a.outcomes ∨ (cbApply a).outcomes = a.outcomes ++ cbAcks a := by
  unfold cbApply
  simp only []
  split
  · exact Or.inl rfl
  · split
    · exact Or.inl rfl
    · split
      · exact Or.inl rfl
      · exact Or.inr rfl

theorem commitBranch_outcomes (a : Acc) :
    (commitBranch a).outcomes = a.outcomes ∨ (commitBranch a).outcomes = a.outcomes ++ cbAcks a := by
  unfold commitBranch
  simp only []
  split <;> exact cbApply_outcomes a

theorem mem_takeWhile {α} (p : α → Bool) (l : List α) (x : α) (h : x ∈ l.takeWhile p) : x ∈ l ∧ p x = true := by
  induction l with
  | nil => simp at h
  | cons y ys ih =>
    rw [List.takeWhile_cons] at h
    split at h
    · rcases List.mem_cons.mp h with rfl | h
      · exact ⟨List.mem_cons_self, by assumption⟩
      · exact ⟨List.mem_cons_of_mem _ (ih h).1, (ih h).2⟩
    · simp at h

/-- the futures the commit branch answers: each is an in-flight call whose index the commit index has
    reached, answered nil with exactly that index (and, for a command, the command's own response);
    nothing else is answered -/
theorem commitBranch_acks_committed (a : Acc) (id : Nat) (o : Outcome)
    (h : (id, o) ∈ (commitBranch a).outcomes) :
    (id, o) ∈ a.outcomes ∨
    ∃ e, (id, e) ∈ a.lead.inflight ∧ e.index ≤ a.lead.cm.commitIndex ∧ o = okOf e ∧ id ≠ 0 := by
  rcases commitBranch_outcomes a with h1 | h1
  · rw [h1] at h; exact Or.inl h
  · rw [h1] at h
    rcases List.mem_append.mp h with h2 | h2
    · exact Or.inl h2
    · right
      obtain ⟨p, hp, hpe⟩ := List.mem_map.mp h2
      obtain ⟨hp1, hp2⟩ := List.mem_filter.mp hp
      obtain ⟨hin, hle⟩ := mem_takeWhile _ _ _ hp1
      obtain ⟨pid, pe⟩ := p
      simp only [Prod.mk.injEq] at hpe
      obtain ⟨rfl, rfl⟩ := hpe
      exact ⟨pe, hin, by simpa using hle, rfl, by simpa using hp2⟩

theorem cbApply_commit (a : Acc) : (cbApply a).v.commit = a.lead.cm.commitIndex := by
  have hv : (cbVol a).commit = a.lead.cm.commitIndex := by unfold cbVol; simp only []; split <;> rfl
  unfold cbApply
  simp only []
  split
  · exact hv
  · split
    · exact hv
    · split
      · exact hv
      · exact hv

/-- after the commit branch the reported commit index is the commitment's -/
theorem commitBranch_commit (a : Acc) : (commitBranch a).v.commit = a.lead.cm.commitIndex := by
  unfold commitBranch
  simp only []
  split
  · exact cbApply_commit a
  · exact cbApply_commit a

theorem head_dropWhile {α} (p : α → Bool) (l : List α) (x : α) (h : (l.dropWhile p).head? = some x) : p x = false := by
  induction l with
  | nil => simp at h
  | cons y ys ih =>
    rw [List.dropWhile_cons] at h
    split at h
    · exact ih h
    · simp only [List.head?_cons, Option.some.injEq] at h
      subst h
      simpa using ‹¬ p y = true›

/-- what stays in flight after the commit branch: the calls from the first one the commit index has
    not reached (nothing is dropped unanswered from the middle of the list) -/
theorem commitBranch_rest (a : Acc) :
    (commitBranch a).lead.inflight = cbRest a ∧
    ∀ p, (cbRest a).head? = some p → a.lead.cm.commitIndex < p.2.index := by
  constructor
  · have h0 : (cbApply a).lead.inflight = cbRest a := by
      unfold cbApply
      simp only []
      split
      · rename_i hnone
        have : cbReady a = [] := by simpa [List.getLast?_eq_none_iff] using hnone
        unfold cbReady at this
        unfold cbRest
        show a.lead.inflight = _
        have h2 := List.takeWhile_append_dropWhile (p := fun p : Nat × Entry => decide (p.2.index ≤ a.lead.cm.commitIndex)) (l := a.lead.inflight)
        rw [this] at h2
        simpa using h2.symm
      · split
        · rfl
        · split <;> rfl
    unfold commitBranch
    simp only []
    split <;> exact h0
  · intro p hp
    have := head_dropWhile _ _ _ hp
    simpa using this

/-! ## the clean-up -/

/-- `runLeader`'s deferred clean-up answers every call still in flight and every pending
    VerifyLeader (C17: losing leadership strands nobody) -/
theorem cleanup_answers_everyone (a : Acc) :
    (∀ p ∈ a.lead.inflight, p.1 ≠ 0 → ∃ o, (p.1, o) ∈ (cleanup a).outcomes) ∧
    (∀ x ∈ a.lead.verifies, (x.id, Outcome.leadershipLost) ∈ (cleanup a).outcomes) := by
  constructor
  · intro p hp hne
    by_cases hal : a.outcomes.any (fun o => o.1 = p.1) = true
    · obtain ⟨o, ho, hoe⟩ := List.any_eq_true.mp hal
      refine ⟨o.2, ?_⟩
      simp only [cleanup]
      apply List.mem_append_left; apply List.mem_append_left
      have : o.1 = p.1 := by simpa using hoe
      rw [← this]; exact ho
    · refine ⟨.leadershipLost, ?_⟩
      simp only [cleanup]
      apply List.mem_append_left; apply List.mem_append_right
      rw [List.mem_filterMap]
      exact ⟨p, hp, by simp [hne, hal]⟩
  · intro x hx
    simp only [cleanup]
    apply List.mem_append_right
    exact List.mem_map.mpr ⟨x, hx, rfl⟩

/-- the clean-up answers with ErrLeadershipLost only, and never touches an answer already given -/
theorem cleanup_keeps_answers (a : Acc) (id : Nat) (o : Outcome) (h : (id, o) ∈ (cleanup a).outcomes) :
    (id, o) ∈ a.outcomes ∨ o = .leadershipLost := by
  simp only [cleanup] at h
  rcases List.mem_append.mp h with h | h
  · rcases List.mem_append.mp h with h | h
    · exact Or.inl h
    · right
      obtain ⟨p, _, hp⟩ := List.mem_filterMap.mp h
      split at hp
      · simp only [Option.some.injEq, Prod.mk.injEq] at hp; exact hp.2.symm
      · simp at hp
  · right
    obtain ⟨x, _, hx⟩ := List.mem_map.mp h
    simp only [Prod.mk.injEq] at hx
    exact hx.2.symm

/-! ## leader bookkeeping exists only while the server is leader -/

theorem cleanup_role (a : Acc) : (cleanup a).v.role = a.v.role := by
  unfold cleanup; simp only []; split <;> rfl

theorem finish_lead (lw : LWorld) (a : Acc) (resp : Resp) (h : (finish lw a resp).1.lead.isSome) :
    (finish lw a resp).1.w.v.role = .leader := by
  unfold finish at h ⊢
  by_cases hp : a.panic = true
  · simp [hp] at h
  · simp only [hp] at h ⊢
    by_cases hr : a.v.role = .leader
    · simp [hr]
    · simp [hr, cleanup_role] at h

/-- **C17 / C18.**  Whatever one step does — calls, acknowledgements, heartbeats, a newer term
    reported by a follower, a request of another server — the leader's bookkeeping (in-flight
    futures, pending VerifyLeader requests, commitment) survives it only if the server is still
    leader: every way out of leadership runs the clean-up. -/
theorem step_lead_only_while_leader (lw : LWorld) (e : LEvent)
    (hinv : lw.lead.isSome → lw.w.v.role = .leader) (h : (stepLeader lw e).1.lead.isSome) :
    (stepLeader lw e).1.w.v.role = .leader := by
  by_cases hd : lw.w.dead = true
  · have : stepLeader lw e = (lw, ⟨deadObs lw.w.d, []⟩) := by unfold stepLeader; simp [hd]
    rw [this] at h ⊢; exact hinv h
  · obtain ⟨w, lead⟩ := lw
    have hd' : w.dead = false := by simpa using hd
    cases lead with
    | none =>
      cases e with
      | start =>
        simp only [stepLeader, hd', Bool.false_eq_true, if_false] at h ⊢
        by_cases hr : w.v.role = .leader
        · simp only [hr] at h ⊢
          exact finish_lead _ _ _ h
        · simp [hr] at h
      | calls cs f => simp [stepLeader, hd'] at h
      | ack p i => simp [stepLeader, hd'] at h
      | deposed => simp [stepLeader, hd'] at h
      | hb p a => simp [stepLeader, hd'] at h
      | rpc ev => simp [stepLeader, hd'] at h
      | heartbeatTimeout =>
        simp only [stepLeader, hd', Bool.false_eq_true, if_false] at h
        split at h <;> simp at h
      | idle => simp [stepLeader, hd'] at h
      | tick => simp [stepLeader, hd'] at h
    | some l =>
      cases e with
      | tick => simp only [stepLeader, hd', Bool.false_eq_true, if_false] at h ⊢; exact finish_lead _ _ _ h
      | start =>
        simp only [stepLeader, hd', Bool.false_eq_true, if_false] at h ⊢
        exact hinv (by simp)
      | heartbeatTimeout =>
        simp only [stepLeader, hd', Bool.false_eq_true, if_false] at h ⊢
        exact hinv (by simp)
      | idle =>
        simp only [stepLeader, hd', Bool.false_eq_true, if_false] at h ⊢
        exact hinv (by simp)
      | calls cs f => simp only [stepLeader, hd', Bool.false_eq_true, if_false] at h ⊢; exact finish_lead _ _ _ h
      | ack p i => simp only [stepLeader, hd', Bool.false_eq_true, if_false] at h ⊢; exact finish_lead _ _ _ h
      | deposed => simp only [stepLeader, hd', Bool.false_eq_true, if_false] at h ⊢; exact finish_lead _ _ _ h
      | hb p a => simp only [stepLeader, hd', Bool.false_eq_true, if_false] at h ⊢; exact finish_lead _ _ _ h
      | rpc ev =>
        simp only [stepLeader, hd', Bool.false_eq_true, if_false] at h ⊢
        by_cases hx : (stepEvent w ev).2.dead = true ∨ (stepEvent w ev).2.panic = true
        · simp [hx] at h
        · simp only [hx] at h ⊢
          by_cases hr : (stepEvent w ev).1.v.role = .leader
          · simp [hr]
          · simp [hr, cleanup_role] at h

end SV

namespace SV
open CF (Config)

/-! ## C07: the membership gate keeps the log at one uncommitted configuration -/

/-- every configuration entry in the log above the committed configuration's index is the latest
    configuration's entry: the log never holds two configurations that are not committed -/
def OneCfg (d : Durable) (v : Vol) : Prop :=
  v.committedIdx ≤ v.latestIdx ∧ v.latestIdx ≤ lastIndex v + 1 ∧
  ∀ e ∈ d.log, e.kind = 5 → v.committedIdx < e.index → e.index = v.latestIdx

def AccInv (a : Acc) : Prop := OneCfg a.d a.v

/-- `b` has the log and the configuration bookkeeping of `a` -/
def SameCfg (a b : Acc) : Prop :=
  b.d.log = a.d.log ∧ b.v.latestIdx = a.v.latestIdx ∧ b.v.committedIdx = a.v.committedIdx ∧ lastIndex b.v = lastIndex a.v

theorem SameCfg.refl (a : Acc) : SameCfg a a := ⟨rfl, rfl, rfl, rfl⟩

theorem SameCfg.trans {a b c : Acc} (h1 : SameCfg a b) (h2 : SameCfg b c) : SameCfg a c :=
  ⟨h2.1.trans h1.1, h2.2.1.trans h1.2.1, h2.2.2.1.trans h1.2.2.1, h2.2.2.2.trans h1.2.2.2⟩

theorem AccInv.same {a b : Acc} (h : AccInv a) (s : SameCfg a b) : AccInv b := by
  obtain ⟨h1, h2, h3⟩ := h
  obtain ⟨s1, s2, s3, s4⟩ := s
  unfold AccInv OneCfg
  rw [s1, s2, s3, s4]
  exact ⟨h1, h2, h3⟩

theorem storeAll_mem (es : List Entry) (d : Durable) (y : Entry) (h : y ∈ (es.foldl storeOne d).log) : y ∈ es ∨ y ∈ d.log := by
  induction es generalizing d with
  | nil => exact Or.inr h
  | cons e rest ih =>
    rcases ih (storeOne d e) h with h1 | h1
    · exact Or.inl (List.mem_cons_of_mem _ h1)
    · rw [storeOne_log] at h1
      rcases putEntry_mem h1 with rfl | h2
      · exact Or.inl List.mem_cons_self
      · exact Or.inr h2

theorem numberGroup_kind (t i : Nat) (g : List (Nat × Nat × Nat × Config)) (p : Nat × Entry) (hp : p ∈ numberGroup t i g) :
    ∃ c ∈ g, p.2.kind = c.2.1 ∧ i ≤ p.2.index := by
  induction g generalizing i with
  | nil => simp [numberGroup] at hp
  | cons x xs ih =>
    obtain ⟨id, k, d, c⟩ := x
    simp only [numberGroup, List.mem_cons] at hp
    rcases hp with rfl | hp
    · exact ⟨_, List.mem_cons_self, rfl, Nat.le_refl _⟩
    · obtain ⟨c', hc', hk, hi⟩ := ih (i + 1) hp
      exact ⟨c', List.mem_cons_of_mem _ hc', hk, by omega⟩

theorem stage_log (d : Durable) (ws : List Write) (h : ∀ w ∈ ws, ∃ i, w = Write.stage i) : (applyAll d ws).log = d.log := by
  induction ws generalizing d with
  | nil => rfl
  | cons w rest ih =>
    obtain ⟨i, rfl⟩ := h _ List.mem_cons_self
    simp only [applyAll, List.foldl_cons, Write.apply]
    exact ih _ (fun w hw => h w (List.mem_cons_of_mem _ hw))

theorem lastIndex_mono (v : Vol) (n t : Nat) : lastIndex v ≤ lastIndex { v with lastLogIdx := lastIndex v + n, lastLogTerm := t } := by
  unfold lastIndex; simp only []; omega

/-- the log after a dispatch: old entries and the new ones, whose kinds are the group's -/
theorem dispatch_log (cf : Cfg) (a : Acc) (g : List (Nat × Nat × Nat × Config)) (fail : Bool) (y : Entry)
    (hy : y ∈ (dispatch cf a g fail).1.d.log) :
    y ∈ a.d.log ∨ (fail = false ∧ ∃ c ∈ g, y.kind = c.2.1 ∧ lastIndex a.v + 1 ≤ y.index) := by
  have hst : ∀ w ∈ (if cf.restoreCommitted then [Write.stage a.v.commit] else []), ∃ i, w = Write.stage i := by
    intro w hw; split at hw
    · exact ⟨_, by simpa using hw⟩
    · simp at hw
  cases fail with
  | true =>
    left
    simp only [dispatch, if_true] at hy
    rwa [stage_log _ _ hst] at hy
  | false =>
    simp only [dispatch, Bool.false_eq_true, if_false, Write.apply] at hy
    rcases storeAll_mem _ _ _ hy with h1 | h1
    · right
      obtain ⟨p, hp, rfl⟩ := List.mem_map.mp h1
      exact ⟨rfl, numberGroup_kind _ _ _ _ hp⟩
    · left; rwa [stage_log _ _ hst] at h1

theorem dispatch_cfg (cf : Cfg) (a : Acc) (g : List (Nat × Nat × Nat × Config)) (fail : Bool) :
    (dispatch cf a g fail).1.v.latestIdx = a.v.latestIdx ∧ (dispatch cf a g fail).1.v.committedIdx = a.v.committedIdx ∧
    lastIndex a.v ≤ lastIndex (dispatch cf a g fail).1.v ∧
    (fail = false → lastIndex a.v + g.length ≤ lastIndex (dispatch cf a g fail).1.v) := by
  cases fail with
  | true => exact ⟨rfl, rfl, Nat.le_refl _, by simp⟩
  | false =>
    refine ⟨rfl, rfl, ?_, fun _ => ?_⟩
    · show lastIndex a.v ≤ max (lastIndex a.v + g.length) a.v.snapIdx
      omega
    · show lastIndex a.v + g.length ≤ max (lastIndex a.v + g.length) a.v.snapIdx
      omega

/-- a group without configuration entries keeps the invariant -/
theorem dispatch_inv (cf : Cfg) (a : Acc) (g : List (Nat × Nat × Nat × Config)) (fail : Bool)
    (hk : ∀ c ∈ g, c.2.1 ≠ 5) (h : AccInv a) : AccInv (dispatch cf a g fail).1 := by
  obtain ⟨h1, h2, h3⟩ := h
  obtain ⟨c1, c2, c3, _⟩ := dispatch_cfg cf a g fail
  unfold AccInv OneCfg
  rw [c1, c2]
  refine ⟨h1, by omega, ?_⟩
  intro e he hk5 hgt
  rcases dispatch_log cf a g fail e he with h4 | ⟨_, c, hc, hkc, _⟩
  · exact h3 e h4 hk5 hgt
  · exact absurd (hkc ▸ hk5) (hk c hc)

theorem gateOpen_stable (a : Acc) (h : gateOpen a = true) : a.v.latestIdx = a.v.committedIdx := by
  unfold gateOpen at h
  simp only [Bool.and_eq_true, decide_eq_true_eq] at h
  exact h.1

/-- `appendConfigurationEntry` under an open gate keeps the invariant: the previous configuration
    is committed, so the new entry is the only one above the committed index -/
theorem appendConfig_inv (cf : Cfg) (a : Acc) (id : Nat) (ch : CF.Change) (fail : Bool)
    (hg : a.v.latestIdx = a.v.committedIdx) (h : AccInv a) : AccInv (appendConfig cf a id ch fail) := by
  unfold appendConfig
  split
  · exact h
  · rename_i c' _
    cases fail with
    | true =>
      -- the store failed: nothing is adopted, and nothing was stored
      show AccInv (dispatch cf a [(id, 5, 0, c')] true).1
      obtain ⟨h1, h2, h3⟩ := h
      obtain ⟨c1, c2, c3, _⟩ := dispatch_cfg cf a [(id, 5, 0, c')] true
      unfold AccInv OneCfg
      rw [c1, c2]
      refine ⟨h1, by omega, ?_⟩
      intro e he hk5 hgt
      rcases dispatch_log cf a [(id, 5, 0, c')] true e he with h4 | ⟨hf, _⟩
      · exact h3 e h4 hk5 hgt
      · exact absurd hf (by simp)
    | false =>
    show AccInv { (dispatch cf a [(id, 5, 0, c')] false).1 with
      v := { (dispatch cf a [(id, 5, 0, c')] false).1.v with latest := c', latestIdx := lastIndex a.v + 1 },
      lead := restartPeers { (dispatch cf a [(id, 5, 0, c')] false).1.lead with
        cm := CM.setConfiguration (dispatch cf a [(id, 5, 0, c')] false).1.lead.cm (voterIds c') } c' }
    generalize hfl : false = fail
    obtain ⟨h1, h2, h3⟩ := h
    obtain ⟨c1, c2, c3, c4⟩ := dispatch_cfg cf a [(id, 5, 0, c')] fail
    unfold AccInv OneCfg
    simp only []
    show (dispatch cf a [(id, 5, 0, c')] fail).1.v.committedIdx ≤ lastIndex a.v + 1 ∧ _
    rw [c2]
    refine ⟨by omega, ?_, ?_⟩
    · show lastIndex a.v + 1 ≤ lastIndex (dispatch cf a [(id, 5, 0, c')] fail).1.v + 1
      omega
    · intro e he hk5 hgt
      rcases dispatch_log cf a [(id, 5, 0, c')] fail e he with h4 | ⟨hf, c, hc, _, hge⟩
      · have := h3 e h4 hk5 hgt
        omega
      · -- the new entry: the group has one element, numbered lastIndex + 1
        subst hf
        simp only [dispatch, Bool.false_eq_true, if_false, Write.apply] at he
        have hst : ∀ w ∈ (if cf.restoreCommitted then [Write.stage a.v.commit] else []), ∃ i, w = Write.stage i := by
          intro w hw; split at hw
          · exact ⟨_, by simpa using hw⟩
          · simp at hw
        rcases storeAll_mem _ _ _ he with h5 | h5
        · simp [numberGroup] at h5
          rw [h5]
        · rw [stage_log _ _ hst] at h5
          have := h3 e h5 hk5 hgt
          omega

theorem cbApply_dv (a : Acc) :
    (cbApply a).d = a.d ∧ (cbApply a).v.latestIdx = a.v.latestIdx ∧ lastIndex (cbApply a).v = lastIndex a.v ∧
    (cbApply a).v.committedIdx = (cbVol a).committedIdx := by
  have hv : (cbVol a).latestIdx = a.v.latestIdx ∧ lastIndex (cbVol a) = lastIndex a.v := by
    unfold cbVol; simp only []; split <;> exact ⟨rfl, rfl⟩
  unfold cbApply
  simp only []
  split
  · exact ⟨rfl, hv.1, hv.2, rfl⟩
  · split
    · exact ⟨rfl, hv.1, hv.2, rfl⟩
    · split
      · exact ⟨rfl, hv.1, hv.2, rfl⟩
      · exact ⟨rfl, hv.1, hv.2, rfl⟩

/-- the commit branch keeps the invariant: a configuration that becomes committed is the latest one -/
theorem commitBranch_inv (a : Acc) (h : AccInv a) : AccInv (commitBranch a) := by
  obtain ⟨h1, h2, h3⟩ := h
  obtain ⟨d1, d2, d3, d4⟩ := cbApply_dv a
  have hc : (cbVol a).committedIdx = a.v.committedIdx ∨ (cbVol a).committedIdx = a.v.latestIdx := by
    unfold cbVol; simp only []; split
    · exact Or.inr rfl
    · exact Or.inl rfl
  have key : OneCfg (cbApply a).d (cbApply a).v := by
    unfold OneCfg
    rw [d1, d2, d3, d4]
    rcases hc with hc | hc
    · rw [hc]; exact ⟨h1, h2, h3⟩
    · rw [hc]
      refine ⟨Nat.le_refl _, h2, ?_⟩
      intro e he hk5 hgt
      have := h3 e he hk5 (by omega)
      omega
  unfold AccInv commitBranch
  simp only []
  split
  · exact key
  · exact key

theorem settle_inv (cf : Cfg) (fuel : Nat) (a : Acc) (h : AccInv a) : AccInv (settle cf fuel a) := by
  induction fuel generalizing a with
  | zero => exact h
  | succ n ih =>
    unfold settle
    split
    · exact h
    · split
      · exact ih _ (commitBranch_inv a h)
      · split
        · split
          · rename_i hg
            apply ih
            apply appendConfig_inv
            · exact gateOpen_stable a hg
            · exact h
          · exact h
        · exact h

theorem settleAll_inv (cf : Cfg) (a : Acc) (h : AccInv a) : AccInv (settleAll cf a) := settle_inv cf _ a h

theorem applyGroup_inv (cf : Cfg) (a : Acc) (g : List (Nat × Nat × Nat)) (fail : Bool)
    (hk : ∀ c ∈ g, c.2.1 ≠ 5) (h : AccInv a) : AccInv (applyGroup cf a g fail) := by
  unfold applyGroup
  split
  · exact h
  · apply dispatch_inv _ _ _ _ _ h
    intro c hc
    obtain ⟨x, hx, rfl⟩ := List.mem_map.mp hc
    exact hk x hx

end SV

namespace SV
open CF (Config)

theorem chunk_mem {α} (n fuel : Nat) (l : List α) (g : List α) (x : α) (hg : g ∈ chunk n fuel l) (hx : x ∈ g) : x ∈ l := by
  induction fuel generalizing l with
  | zero => simp [chunk] at hg
  | succ f ih =>
    cases l with
    | nil => simp [chunk] at hg
    | cons y ys =>
      simp only [chunk, List.mem_cons] at hg
      rcases hg with rfl | hg
      · exact List.mem_of_mem_take hx
      · exact List.mem_of_mem_drop (ih _ hg)

theorem foldl_inv {β} (P : Acc → Prop) (f : Acc × Nat → β → Acc × Nat) (l : List β) (st : Acc × Nat)
    (hf : ∀ st b, b ∈ l → P st.1 → P (f st b).1) (h : P st.1) : P (l.foldl f st).1 := by
  induction l generalizing st with
  | nil => exact h
  | cons b bs ih =>
    exact ih _ (fun st b' hb' hp => hf st b' (List.mem_cons_of_mem _ hb') hp) (hf st b List.mem_cons_self h)

theorem applyCalls_inv (cf : Cfg) (a : Acc) (ls : List (Nat × Nat × Nat)) (failAt : Option Nat)
    (hk : ∀ c ∈ ls, c.2.1 ≠ 5) (h : AccInv a) : AccInv (applyCalls cf a ls failAt) := by
  unfold applyCalls
  cases ls with
  | nil => exact h
  | cons first rest =>
    simp only []
    apply foldl_inv AccInv
    · intro st g hg hp
      split
      · exact hp
      · apply settleAll_inv
        apply applyGroup_inv _ _ _ _ _ hp
        intro c hc
        rcases List.mem_cons.mp hg with rfl | hg
        · have : c = first := by simpa using hc
          exact hk c (this ▸ List.mem_cons_self)
        · exact hk c (List.mem_cons_of_mem _ (chunk_mem _ _ _ _ _ hg hc))
    · exact h

theorem verifyCall_same (a : Acc) (id : Nat) : SameCfg a (verifyCall a id) := by
  unfold verifyCall; simp only []
  split
  · split <;> exact ⟨rfl, rfl, rfl, rfl⟩
  · split <;> exact ⟨rfl, rfl, rfl, rfl⟩

theorem voteYes_same (a : Acc) (ids : List Nat) : SameCfg a (voteYes a ids) := by
  induction ids generalizing a with
  | nil => exact SameCfg.refl a
  | cons id rest ih =>
    unfold voteYes
    split
    · exact ih a
    · split
      · exact SameCfg.trans ⟨rfl, rfl, rfl, rfl⟩ (ih _)
      · exact SameCfg.trans ⟨rfl, rfl, rfl, rfl⟩ (ih _)

theorem voteNo_same (a : Acc) (ids : List Nat) : SameCfg a (voteNo a ids) := by
  unfold voteNo; split <;> exact ⟨rfl, rfl, rfl, rfl⟩

theorem hbStep_same (a : Acc) (peer : Nat) (ans : HbAnswer) : SameCfg a (hbStep a peer ans) := by
  unfold hbStep
  split
  · exact SameCfg.refl a
  · split
    · exact SameCfg.refl a
    · cases ans with
      | fail => exact ⟨rfl, rfl, rfl, rfl⟩
      | ok => exact SameCfg.trans ⟨rfl, rfl, rfl, rfl⟩ (voteYes_same _ _)
      | deny => exact SameCfg.trans ⟨rfl, rfl, rfl, rfl⟩ (voteNo_same _ _)

theorem cleanup_same (a : Acc) : SameCfg a (cleanup a) := by
  unfold cleanup; simp only []; split <;> exact ⟨rfl, rfl, rfl, rfl⟩

theorem leaseLoop_same (fuel : Nat) (a : Acc) : SameCfg a (leaseLoop fuel a) := by
  induction fuel generalizing a with
  | zero => exact SameCfg.refl a
  | succ n ih =>
    unfold leaseLoop
    split
    · exact SameCfg.refl a
    · simp only []
      split
      · exact ⟨rfl, rfl, rfl, rfl⟩
      · exact SameCfg.trans ⟨rfl, rfl, rfl, rfl⟩ (ih _)

theorem tickStep_same (a : Acc) : SameCfg a (tickStep a) := by
  unfold tickStep
  exact SameCfg.trans ⟨rfl, rfl, rfl, rfl⟩ (leaseLoop_same _ _)

theorem logKind_ne5 (c : Call) (k : Nat × Nat) (h : logKind c = some k) : k.1 ≠ 5 := by
  cases c <;> simp [logKind] at h <;> (subst h; simp)

theorem callStep_inv (cf : Cfg) (a : Acc) (cs : List (Nat × Call)) (failAt : Option Nat) (h : AccInv a) :
    AccInv (callStep cf a cs failAt) := by
  unfold callStep
  simp only []
  have h1 : AccInv (applyCalls cf a (cs.filterMap (fun p => (logKind p.2).map (fun k => (p.1, k.1, k.2)))) failAt) := by
    apply applyCalls_inv _ _ _ _ _ h
    intro c hc
    obtain ⟨p, _, hp⟩ := List.mem_filterMap.mp hc
    cases hlk : logKind p.2 with
    | none => simp [hlk] at hp
    | some k =>
      simp only [hlk, Option.map_some, Option.some.injEq] at hp
      subst hp
      exact logKind_ne5 _ _ hlk
  generalize applyCalls cf a _ failAt = a1 at h1
  induction cs generalizing a1 with
  | nil => exact h1
  | cons p rest ih =>
    simp only [List.foldl_cons]
    apply ih
    split
    · exact h1
    · split
      · split
        · rename_i hg
          apply settleAll_inv
          apply appendConfig_inv _ _ _ _ _ (gateOpen_stable _ hg.1) h1
        · exact h1.same ⟨rfl, rfl, rfl, rfl⟩
      · exact h1.same (verifyCall_same _ _)
      · exact h1

/-- **C07.**  As long as the leader loop runs, its log never holds two configuration entries above
    the committed configuration: every step made of API calls (Apply, Barrier, membership changes —
    served at once or after waiting for the gate —, VerifyLeader), acknowledgements, heartbeat
    answers or a follower reporting a newer term keeps `OneCfg`, for every store fault.  (Requests
    of other servers either end the leadership or, if stale, change nothing: `SV.stale_append_inert`
    and its siblings.) -/
theorem lead_one_uncommitted_config (lw : LWorld) (e : LEvent) (hne : ∀ ev, e ≠ .rpc ev)
    (hinv : OneCfg lw.w.d lw.w.v) (hl : (stepLeader lw e).1.lead.isSome) :
    OneCfg (stepLeader lw e).1.w.d (stepLeader lw e).1.w.v := by
  -- every branch that keeps a leader ends in `finish` on an accumulator that satisfies `AccInv`
  have fin : ∀ (a : Acc) (resp : Resp), AccInv a → (finish lw a resp).1.lead.isSome →
      OneCfg (finish lw a resp).1.w.d (finish lw a resp).1.w.v := by
    intro a resp ha hs
    unfold finish at hs ⊢
    by_cases hp : a.panic = true
    · simp [hp] at hs
    · simp only [hp] at hs ⊢
      by_cases hr : a.v.role = .leader
      · simp only [hr, ne_eq, not_true_eq_false, if_false]
        exact ha
      · simp [hr, cleanup_role] at hs
  by_cases hd : lw.w.dead = true
  · have : stepLeader lw e = (lw, ⟨deadObs lw.w.d, []⟩) := by unfold stepLeader; simp [hd]
    rw [this]; exact hinv
  · obtain ⟨w, lead⟩ := lw
    have hd' : w.dead = false := by simpa using hd
    have hw : ∀ l, AccInv (accOf w l) := fun _ => hinv
    cases lead with
    | none =>
      cases e with
      | start =>
        simp only [stepLeader, hd', Bool.false_eq_true, if_false] at hl ⊢
        by_cases hr : w.v.role = .leader
        · simp only [hr, ne_eq, not_true_eq_false, if_false] at hl ⊢
          apply fin _ _ _ hl
          apply settleAll_inv
          apply dispatch_inv _ _ _ _ _ (hw _)
          intro c hc
          have : c = (0, 1, 0, []) := by simpa using hc
          subst this; decide
        · simp [hr] at hl
      | calls cs f => simp [stepLeader, hd'] at hl
      | ack p i => simp [stepLeader, hd'] at hl
      | deposed => simp [stepLeader, hd'] at hl
      | hb p a => simp [stepLeader, hd'] at hl
      | rpc ev => exact absurd rfl (hne ev)
      | heartbeatTimeout =>
        simp only [stepLeader, hd', Bool.false_eq_true, if_false] at hl
        split at hl <;> simp at hl
      | idle => simp [stepLeader, hd'] at hl
      | tick => simp [stepLeader, hd'] at hl
    | some l =>
      cases e with
      | tick =>
        simp only [stepLeader, hd', Bool.false_eq_true, if_false] at hl ⊢
        exact fin _ _ ((hw l).same (tickStep_same _)) hl
      | start => simp only [stepLeader, hd', Bool.false_eq_true, if_false]; exact hinv
      | heartbeatTimeout => simp only [stepLeader, hd', Bool.false_eq_true, if_false]; exact hinv
      | idle => simp only [stepLeader, hd', Bool.false_eq_true, if_false]; exact hinv
      | calls cs f =>
        simp only [stepLeader, hd', Bool.false_eq_true, if_false] at hl ⊢
        exact fin _ _ (callStep_inv _ _ _ _ (hw _)) hl
      | ack p i =>
        simp only [stepLeader, hd', Bool.false_eq_true, if_false] at hl ⊢
        exact fin _ _ (settleAll_inv _ _ ((hw l).same ⟨rfl, rfl, rfl, rfl⟩)) hl
      | deposed =>
        simp only [stepLeader, hd', Bool.false_eq_true, if_false] at hl ⊢
        exact fin _ _ ((hw l).same ⟨rfl, rfl, rfl, rfl⟩) hl
      | hb p a =>
        simp only [stepLeader, hd', Bool.false_eq_true, if_false] at hl ⊢
        exact fin _ _ (((hw l).same (by split <;> exact ⟨rfl, rfl, rfl, rfl⟩)).same (hbStep_same _ _ _)) hl
      | rpc ev => exact absurd rfl (hne ev)

/-- non-vacuity: a three-voter leader, a membership call served at once, a second one that has to
    wait: the invariant holds after each step and the second call is still queued -/
example :
    let cfg : Config := [⟨.voter, 1, 11⟩, ⟨.voter, 2, 12⟩, ⟨.voter, 3, 13⟩]
    let d : Durable := ⟨1, 0, none, [⟨1, 1, 5, 0, cfg⟩], 1, 1, 0, []⟩
    let v : Vol := { emptyVol with term := 1, role := .leader, lastLogIdx := 1, lastLogTerm := 1, latest := cfg, latestIdx := 1,
                                   committed := cfg, committedIdx := 1, leader := selfAddr, leaderId := selfId }
    let lw0 : LWorld := ⟨⟨⟨false, false, 3, 2, false⟩, d, v, false, (0, 0), []⟩, none⟩
    let lw1 := (stepLeader lw0 .start).1
    let lw2 := (stepLeader lw1 (.ack 2 2)).1
    let lw3 := (stepLeader lw2 (.calls [(1, .change ⟨.addNonvoter, 4, 14, 0⟩)] none)).1
    let lw4 := (stepLeader lw3 (.calls [(2, .change ⟨.addNonvoter, 5, 15, 0⟩)] none)).1
    OneCfg lw0.w.d lw0.w.v ∧ lw4.lead.isSome = true ∧ (lw4.lead.map (·.queued.length)) = some 1 ∧
      lw4.w.v.latestIdx = 3 ∧ lw4.w.v.committedIdx = 1 := by
  refine ⟨⟨by decide, by decide, ?_⟩, by decide, by decide, by decide, by decide⟩
  intro e he _ hgt
  simp at he; subst he; simp at hgt

end SV


namespace SV

/-! ## the follower loop -/

/-- **C07 / C14.**  A server that is not a voter of its latest configuration (a non-voter, a staging
    server, a server that has been removed, a server without any configuration) never leaves the
    follower state by a heartbeat timeout, however often the timer fires. -/
theorem nonvoter_never_campaigns (v : Vol) (hrole : v.role = .follower) (h : ¬ hasVote v.latest selfId = true) :
    (followerTimeout v).role = .follower := by
  unfold followerTimeout
  simp only [h, Bool.false_eq_true, if_false]
  split
  · exact hrole
  · split <;> exact hrole

/-- a heartbeat timeout always forgets the leader (C18: a follower that has lost contact stops naming
    one), changes nothing else but possibly the role, and writes nothing -/
theorem followerTimeout_forgets_leader (v : Vol) :
    (followerTimeout v).leader = 0 ∧ (followerTimeout v).leaderId = 0 ∧ (followerTimeout v).term = v.term ∧
    (followerTimeout v).commit = v.commit ∧ (followerTimeout v).latest = v.latest := by
  unfold followerTimeout
  simp only []
  split
  · exact ⟨rfl, rfl, rfl, rfl, rfl⟩
  · split
    · exact ⟨rfl, rfl, rfl, rfl, rfl⟩
    · split <;> exact ⟨rfl, rfl, rfl, rfl, rfl⟩

/-- a voter that knows its configuration does start an election (C12: the timeout is not lost) -/
theorem voter_campaigns (v : Vol) (hcfg : v.latestIdx ≠ 0) (h : hasVote v.latest selfId = true) :
    (followerTimeout v).role = .candidate := by
  unfold followerTimeout
  simp only [hcfg, if_false]
  split
  · rename_i hh; exact absurd h hh.2
  · simp [h]

/-- **C17.**  A call that needs a leader, reaching a server whose leader loop is not running, is
    answered ErrNotLeader at once and leaves no trace: no write, no state change, nothing queued. -/
theorem refused_without_leader (lw : LWorld) (cs : List (Nat × Call)) (f : Option Nat) (hl : lw.lead = none) (hd : lw.w.dead = false) :
    (stepLeader lw (.calls cs f)).1 = lw ∧ (stepLeader lw (.calls cs f)).2.obs.writes = [] ∧
    (stepLeader lw (.calls cs f)).2.outcomes = cs.map (fun c => (c.1, Outcome.notLeader)) := by
  obtain ⟨w, lead⟩ := lw
  simp only at hl hd
  subst hl
  simp [stepLeader, hd, idleObs]

end SV

namespace SV

/-! ## the lease -/

/-- **C13.**  When a lease check falls due and fewer voters than a quorum (the leader itself
    included, if it is one) have answered within the lease, the server is a follower afterwards. -/
theorem lease_deposes_without_quorum (fuel : Nat) (a : Acc) (hrole : a.v.role = .leader)
    (hdue : a.lead.leaseAt ≤ a.lead.now)
    (hq : (leaseCount a.v a.lead a.lead.leaseAt).1 < quorumOf a.v.latest) :
    (leaseLoop (fuel + 1) a).v.role = .follower := by
  unfold leaseLoop
  have h1 : ¬ (a.v.role ≠ .leader ∨ a.lead.leaseAt > a.lead.now) := by
    intro h; rcases h with h | h
    · exact h hrole
    · omega
  rw [if_neg h1]
  simp only [hq, if_true]

/-- a check that finds a quorum re-arms the timer no further than one lease ahead (and at least
    `minCheckInterval`): a leader is never left unchecked for longer than the lease -/
theorem lease_rearmed_within_lease (a : Acc) :
    let r := leaseCount a.v a.lead a.lead.leaseAt
    max (leaseMs - r.2) minCheckMs ≤ leaseMs ∧ minCheckMs ≤ max (leaseMs - r.2) minCheckMs := by
  simp only [leaseMs, minCheckMs]; omega

/-- the lease check never makes a leader of anybody and never touches term, log or configuration -/
theorem leaseLoop_role (fuel : Nat) (a : Acc) :
    (leaseLoop fuel a).v.role = a.v.role ∨ (leaseLoop fuel a).v.role = .follower := by
  induction fuel generalizing a with
  | zero => exact Or.inl rfl
  | succ n ih =>
    unfold leaseLoop
    split
    · exact Or.inl rfl
    · simp only []
      split
      · exact Or.inr rfl
      · exact ih _

end SV

namespace SV

/-- **C07: a configuration that could not be stored is not adopted.**  When the StoreLogs call of
    `appendConfigurationEntry` fails, the server's latest configuration, its index and its log are
    what they were (the defect repaired by the `fix:` commit recorded as F22, commit c773f69: the real routine used
    to adopt the configuration all the same, so that a configuration held by no log became the one
    the server acted on, and later its committed one). -/
theorem appendConfig_store_failure_adopts_nothing (cf : Cfg) (a : Acc) (id : Nat) (ch : CF.Change) :
    (appendConfig cf a id ch true).v.latest = a.v.latest ∧
    (appendConfig cf a id ch true).v.latestIdx = a.v.latestIdx ∧
    (appendConfig cf a id ch true).d.log = a.d.log := by
  unfold appendConfig
  split
  · exact ⟨rfl, rfl, rfl⟩
  · rename_i c' _
    refine ⟨rfl, rfl, ?_⟩
    show (applyAll a.d (if cf.restoreCommitted then [Write.stage a.v.commit] else [])).log = a.d.log
    apply stage_log
    intro w hw; split at hw
    · exact ⟨_, by simpa using hw⟩
    · simp at hw


/-- **C07: the configuration a leader adopts is the one it stored.**  After a successful
    `appendConfigurationEntry` the server's latest configuration is carried by the configuration
    entry its own log holds at the index it names. -/
theorem appendConfig_adopts_what_it_stored (cf : Cfg) (a : Acc) (id : Nat) (ch : CF.Change) (c' : CF.Config)
    (hs : Sorted a.d.log) (hn : CF.nextConfiguration a.v.latest a.v.latestIdx ch = some c') :
    (appendConfig cf a id ch false).v.latest = c' ∧
    (appendConfig cf a id ch false).v.latestIdx = lastIndex a.v + 1 ∧
    getLog (appendConfig cf a id ch false).d.log (lastIndex a.v + 1) = some ⟨lastIndex a.v + 1, a.v.term, 5, 0, c'⟩ := by
  unfold appendConfig
  simp only [hn]
  refine ⟨rfl, rfl, ?_⟩
  show getLog (Write.apply (applyAll a.d (if cf.restoreCommitted then [Write.stage a.v.commit] else []))
      (Write.storeLogs [⟨lastIndex a.v + 1, a.v.term, 5, 0, c'⟩])).log (lastIndex a.v + 1) = _
  have hst : ∀ w ∈ (if cf.restoreCommitted then [Write.stage a.v.commit] else []), ∃ i, w = Write.stage i := by
    intro w hw; split at hw
    · exact ⟨_, by simpa using hw⟩
    · simp at hw
  have hs1 : Sorted (applyAll a.d (if cf.restoreCommitted then [Write.stage a.v.commit] else [])).log := by
    rw [stage_log _ _ hst]; exact hs
  have := getLog_storeAll [⟨lastIndex a.v + 1, a.v.term, 5, 0, c'⟩] _ hs1 (List.pairwise_singleton _ _) (lastIndex a.v + 1)
  simpa [Write.apply] using this


end SV
