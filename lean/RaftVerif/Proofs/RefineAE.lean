import RaftVerif.Core.Model
import RaftVerif.Proofs.AELog
import RaftVerif.Proofs.AECommit
/-! # The AppendEntries merge of the cluster model is the merge that is stepped against the code

`RP.handleAE` (Core/Model.lean) works on a log that is a plain list, position = index, and replaces
the suffix after the previous entry by `mergeSuffix`; the stepped handler (`SV.aePlan`) scans the
sent entries against an indexed store, truncates from the first conflict with `DeleteRange` and
appends with `StoreLogs`.  This file shows they compute the same log: for a store holding the
entries 1..n and sent entries numbered from `prevIdx + 1`, the store after the handler's writes
(`aeLogAfter`, which `aeBody_writes_log` proves to be the effect of the plan's writes) is
`take prevIdx ++ mergeSuffix (drop prevIdx) entries` — entry for entry, not just term for term. -/
namespace SV

/-- `l` holds the entries `i, i+1, …` in order -/
def Contig (i : Nat) (l : List Entry) : Prop := ∀ k (h : k < l.length), l[k].index = i + k

theorem Contig.tail {i : Nat} {x : Entry} {xs : List Entry} (h : Contig i (x :: xs)) : Contig (i + 1) xs := by
  intro k hk
  have := h (k + 1) (by simpa using hk)
  simp only [List.getElem_cons_succ] at this
  omega

theorem Contig.head {i : Nat} {x : Entry} {xs : List Entry} (h : Contig i (x :: xs)) : x.index = i := by
  have := h 0 (by simp)
  simpa using this

theorem Contig.mem_ge {i : Nat} {l : List Entry} (h : Contig i l) {y : Entry} (hy : y ∈ l) : i ≤ y.index ∧ y.index < i + l.length := by
  obtain ⟨k, hk, rfl⟩ := List.getElem_of_mem hy
  have := h k hk
  omega

/-- a contiguous log answers `GetLog` by position -/
theorem getLog_contig {i : Nat} {l : List Entry} (h : Contig i l) (k : Nat) (hk : k < l.length) :
    getLog l (i + k) = some l[k] := by
  induction l generalizing i k with
  | nil => simp at hk
  | cons x xs ih =>
    rw [getLog_cons]
    cases k with
    | zero => simp [h.head]
    | succ k' =>
      have hx : x.index ≠ i + (k' + 1) := by rw [h.head]; omega
      rw [if_neg hx]
      have := ih h.tail k' (by simpa using hk)
      rw [show i + (k' + 1) = i + 1 + k' by omega]
      simpa using this

theorem getLog_contig_none {i : Nat} {l : List Entry} (h : Contig i l) (j : Nat) (hj : j < i ∨ i + l.length ≤ j) :
    getLog l j = none := by
  unfold getLog
  apply List.find?_eq_none.mpr
  intro x hx
  have := h.mem_ge hx
  simp; omega

/-- `DeleteRange c..n` on the log 1..n keeps the first `c - 1` entries -/
theorem filter_contig (l : List Entry) (h : Contig 1 l) (c : Nat) (hc : 1 ≤ c) :
    l.filter (fun e => ¬ (c ≤ e.index ∧ e.index ≤ l.length)) = l.take (c - 1) := by
  have key : ∀ (i : Nat) (l : List Entry) (n : Nat), Contig i l → i + l.length = n + 1 → i ≤ c →
      l.filter (fun e => ¬ (c ≤ e.index ∧ e.index ≤ n)) = l.take (c - i) := by
    intro i l
    induction l generalizing i with
    | nil => intros; simp
    | cons x xs ih =>
      intro n hcg hlen hic
      have hx := hcg.head
      by_cases hci : c = i
      · -- everything from here on is deleted
        subst hci
        have : ∀ y ∈ x :: xs, ¬ (¬ (c ≤ y.index ∧ y.index ≤ n)) := by
          intro y hy
          have := hcg.mem_ge hy
          simp only [List.length_cons] at hlen this
          simp; omega
        simp only [Nat.sub_self, List.take_zero]
        apply List.filter_eq_nil_iff.mpr
        intro y hy
        simpa using this y hy
      · have hlt : i < c := by omega
        have hkeep : ¬ (c ≤ x.index ∧ x.index ≤ n) := by rw [hx]; omega
        rw [List.filter_cons]
        simp only [hkeep, not_false_eq_true, decide_true, if_true]
        have := ih (i + 1) n hcg.tail (by simp at hlen; omega) (by omega)
        rw [this]
        rw [show c - i = (c - (i + 1)) + 1 by omega, List.take_succ_cons]
  have := key 1 l l.length h (by omega) hc
  exact this

/-- `StoreLogs` of entries numbered from just past the end appends them -/
theorem putEntry_append (e : Entry) (l : List Entry) (h : ∀ y ∈ l, y.index < e.index) : putEntry e l = l ++ [e] := by
  induction l with
  | nil => rfl
  | cons x xs ih =>
    have hx := h x List.mem_cons_self
    unfold putEntry
    rw [if_neg (by omega), if_neg (by omega)]
    rw [ih (fun y hy => h y (List.mem_cons_of_mem _ hy))]
    rfl

theorem putAll_append (es l : List Entry) (i : Nat) (hl : ∀ y ∈ l, y.index < i) (hes : Contig i es) : putAll es l = l ++ es := by
  induction es generalizing l i with
  | nil => simp [putAll]
  | cons e rest ih =>
    have he := hes.head
    simp only [putAll, List.foldl_cons]
    rw [putEntry_append e l (fun y hy => by rw [he]; exact hl y hy)]
    have := ih (l ++ [e]) (i + 1) (by
      intro y hy
      rcases List.mem_append.mp hy with h | h
      · have := hl y h; omega
      · simp at h; subst h; omega) hes.tail
    simp only [putAll] at this
    rw [this]; simp

/-- the cluster model's merge, on indexed entries -/
def mergeIdx : List Entry → List Entry → List Entry
  | suf, [] => suf
  | [], es => es
  | x :: suf, e :: es => if x.term = e.term then x :: mergeIdx suf es else e :: es

/-- what the scan's verdict does to a log -/
def logAfterScan (r : Option Nat × List Entry) (last : Nat) (l : List Entry) : List Entry :=
  putAll r.2 (match r.1 with
    | some ci => l.filter (fun e => ¬ (ci ≤ e.index ∧ e.index ≤ last))
    | none => l)

/-- **the merge.**  On the log 1..n with the sent entries numbered from `p + 1` (`p ≤ n`), the scan
    always reaches a verdict, and truncating from the reported conflict and storing the entries it
    asks for leaves `take p ++ mergeIdx (drop p) entries`. -/
theorem scan_is_merge (l : List Entry) (hl : Contig 1 l) (es : List Entry) (p : Nat) (hp : p ≤ l.length)
    (hes : Contig (p + 1) es) :
    ∃ r, scanEntries l l.length 0 es = some r ∧ logAfterScan r l.length l = l.take p ++ mergeIdx (l.drop p) es := by
  induction es generalizing p with
  | nil =>
    refine ⟨(none, []), rfl, ?_⟩
    have hm : mergeIdx (l.drop p) [] = l.drop p := by cases l.drop p <;> rfl
    simp [logAfterScan, putAll, hm]
  | cons e rest ih =>
    have he : e.index = p + 1 := hes.head
    unfold scanEntries
    have h0 : ¬ e.index ≤ 0 := by omega
    rw [if_neg h0]
    by_cases hend : e.index > l.length
    · -- past the end: everything is appended
      rw [if_pos hend]
      have hpl : p = l.length := by omega
      refine ⟨(none, e :: rest), rfl, ?_⟩
      simp only [logAfterScan]
      rw [putAll_append (e :: rest) l (p + 1) (fun y hy => by have := hl.mem_ge hy; omega) hes]
      subst hpl
      simp [mergeIdx]
    · rw [if_neg hend]
      have hpl : p < l.length := by omega
      have hget : getLog l e.index = some l[p] := by
        have := getLog_contig hl p hpl
        rw [he, show p + 1 = 1 + p by omega]; exact this
      rw [hget]
      simp only []
      have hdrop : l.drop p = l[p] :: l.drop (p + 1) := (List.drop_eq_getElem_cons hpl)
      by_cases hterm : e.term ≠ l[p].term
      · -- the first conflict: truncate from here, store the rest of the request
        rw [if_pos hterm]
        refine ⟨(some e.index, e :: rest), rfl, ?_⟩
        simp only [logAfterScan]
        rw [he, filter_contig l hl (p + 1) (by omega)]
        simp only [Nat.add_sub_cancel]
        rw [putAll_append (e :: rest) (l.take p) (p + 1) (fun y hy => by
          have hy' := List.mem_of_mem_take hy
          obtain ⟨k, hk, rfl⟩ := List.getElem_of_mem hy
          have hk' : k < p := by simpa using (by simpa using hk : k < min p l.length) |> fun h => Nat.lt_of_lt_of_le h (Nat.min_le_left _ _)
          have : (l.take p)[k] = l[k] := by simp
          rw [this]
          have := hl k (by omega)
          omega) hes]
        rw [hdrop]
        simp only [mergeIdx]
        rw [if_neg (fun h => hterm h.symm)]
      · -- same term: the stored entry stays, on with the next one
        rw [if_neg hterm]
        obtain ⟨r, hr, hlog⟩ := ih (p + 1) (by omega) hes.tail
        refine ⟨r, hr, ?_⟩
        rw [hlog, hdrop]
        simp only [mergeIdx]
        have : l[p].term = e.term := (Decidable.not_not.mp hterm).symm
        rw [if_pos this]
        have ht : l.take (p + 1) = l.take p ++ [l[p]] := by
          rw [List.take_succ, List.getElem?_eq_getElem hpl]; rfl
        rw [ht, List.append_assoc]; rfl

end SV

namespace SV

/-- abstracting entries commutes with the merge, as long as terms are kept -/
theorem map_mergeIdx (absE : Entry → RP.Entry) (ht : ∀ e, (absE e).term = e.term) (suf es : List Entry) :
    (mergeIdx suf es).map absE = RP.mergeSuffix (suf.map absE) (es.map absE) := by
  induction suf generalizing es with
  | nil => cases es <;> simp [mergeIdx, RP.mergeSuffix]
  | cons x xs ih =>
    cases es with
    | nil => simp [mergeIdx, RP.mergeSuffix]
    | cons e rest =>
      simp only [mergeIdx, List.map_cons, RP.mergeSuffix, ht]
      split
      · simp [ih]
      · simp

/-- the cluster model's `termAt` on the abstracted log 1..n -/
theorem termAt_contig (absE : Entry → RP.Entry) (ht : ∀ e, (absE e).term = e.term) (l : List Entry) (k : Nat) (hk : k < l.length) :
    RP.termAt (l.map absE) (k + 1) = l[k].term := by
  simp [RP.termAt, List.getElem?_map, List.getElem?_eq_getElem hk, ht]

/-- the core fragment: no snapshot, the store holds the entries 1..n, the cached last entry is the
    store's, no leadership transfer pending -/
structure CoreFrag (d : Durable) (v : Vol) : Prop where
  contig : Contig 1 d.log
  snap : v.snapIdx = 0
  lastIdx : v.lastLogIdx = d.log.length
  lastTerm : v.lastLogTerm = (d.log.getLast?.map (·.term)).getD 0
  sync : v.term = d.curTerm
  transfer : v.transfer = false

/-- the previous-entry check of the stepped handler is the cluster model's -/
theorem prevOk_core (absE : Entry → RP.Entry) (ht : ∀ e, (absE e).term = e.term) (d : Durable) (v : Vol) (a : AEReq)
    (h : CoreFrag d v) :
    (aePrevOk d (aeVol2 v a) a = some true) ↔
      ¬ (a.prevIdx ≠ 0 ∧ (d.log.length < a.prevIdx ∨ RP.termAt (d.log.map absE) a.prevIdx ≠ a.prevTerm)) := by
  have hv2 : (aeVol2 v a).lastLogIdx = d.log.length ∧ (aeVol2 v a).lastLogTerm = v.lastLogTerm ∧ (aeVol2 v a).snapIdx = 0 := by
    unfold aeVol2; simp only []; split <;> exact ⟨h.lastIdx, rfl, h.snap⟩
  obtain ⟨e1, e2, e3⟩ := hv2
  unfold aePrevOk
  by_cases hp0 : a.prevIdx = 0
  · simp [hp0]
  · simp only [hp0, if_false, ne_eq, not_false_eq_true, true_and]
    have hle : lastEntry (aeVol2 v a) = (d.log.length, v.lastLogTerm) := by
      unfold lastEntry; rw [e1, e2, e3]; simp
    simp only [hle, e3]
    obtain ⟨k, hk1⟩ : ∃ k, a.prevIdx = k + 1 := ⟨a.prevIdx - 1, by omega⟩
    simp only [hk1]
    by_cases hn : k + 1 = d.log.length
    · -- the previous entry is the last entry: the cached term answers
      simp only [hn, if_true]
      have hk : k < d.log.length := by omega
      have hlt : v.lastLogTerm = d.log[k].term := by
        rw [h.lastTerm, List.getLast?_eq_getElem?]
        have : d.log.length - 1 = k := by omega
        simp [this, List.getElem?_eq_getElem hk]
      rw [← hn, termAt_contig absE ht d.log k hk, hlt]
      simp only [decide_eq_true_eq, Option.some.injEq]
      constructor
      · intro heq; simp [heq]
      · intro hh
        by_cases hne : a.prevTerm = d.log[k].term
        · exact hne
        · exact absurd (Or.inr (fun h2 => hne h2.symm)) hh
    · simp only [hn, if_false, show ¬ k + 1 = 0 by omega, show ¬ k + 1 < 0 by omega]
      by_cases hk : k + 1 < d.log.length
      · have hk' : k < d.log.length := by omega
        have := getLog_contig h.contig k hk'
        rw [show 1 + k = k + 1 by omega] at this
        rw [this, termAt_contig absE ht d.log k hk']
        simp only [Option.some.injEq, decide_eq_true_eq]
        constructor
        · intro heq; simp [heq]; omega
        · intro hh
          by_cases hne : a.prevTerm = d.log[k].term
          · exact hne
          · exact absurd (Or.inr (fun h2 => hne h2.symm)) hh
      · have hgt : d.log.length < k + 1 := by omega
        rw [getLog_contig_none h.contig (k + 1) (Or.inr (by omega))]
        simp [hgt]

end SV

namespace SV

theorem aeFinish_success_or_panic (v0 : Vol) (t1 : Nat) (a : AEReq) (steps : List (Write × Res)) (dlog : List Entry) (v3 : Vol) :
    (aeFinish v0 t1 a steps dlog v3).final.panic = false → isSuccess (aeFinish v0 t1 a steps dlog v3).final.resp = true := by
  unfold aeFinish
  simp only []
  split
  · split
    · intro h; simp [mkRes] at h
    · intro _; rfl
  · intro _; rfl

/-- once the scan has a verdict, the entries part ends in `aeFinish`: it answers success unless the
    process dies applying -/
theorem aeBody_success_or_panic (cf : Cfg) (d : Durable) (v : Vol) (a : AEReq) (pre : List (Write × Res)) (v2 : Vol) (t1 : Nat)
    (hscan : a.entries ≠ [] → ∃ r, scanEntries d.log v2.lastLogIdx v2.snapIdx a.entries = some r) :
    (aeBody cf d v a pre v2 t1).final.panic = false → isSuccess (aeBody cf d v a pre v2 t1).final.resp = true := by
  unfold aeBody
  by_cases he : a.entries = []
  · rw [if_pos he]; exact aeFinish_success_or_panic _ _ _ _ _ _
  · rw [if_neg he]
    obtain ⟨⟨conflict, newE⟩, hr⟩ := hscan he
    rw [hr]
    simp only []
    cases conflict with
    | none =>
      simp only [Bool.not_true, Bool.false_eq_true, if_false]
      split <;> exact aeFinish_success_or_panic _ _ _ _ _ _
    | some ci =>
      simp only [reloadable, if_true, Bool.not_true, Bool.false_eq_true, if_false]
      split <;> exact aeFinish_success_or_panic _ _ _ _ _ _

/-- **Refinement, AppendEntries (the core fragment).**  For a server without a snapshot whose store
    holds the entries 1..n, and a request whose entries are numbered from `PrevLogEntry + 1`: the
    log the stepped handler leaves behind is, entry for entry, the log `RP.handleAE` computes
    (`take prev ++ mergeSuffix (drop prev) entries`), and — unless the process dies while applying —
    it answers success exactly when the cluster model's handler does. -/
theorem ae_refines_core (absE : Entry → RP.Entry) (ht : ∀ e, (absE e).term = e.term)
    (cf : Cfg) (d : Durable) (v : Vol) (a : AEReq) (nd : RP.Node)
    (h : CoreFrag d v) (hents : Contig (a.prevIdx + 1) a.entries)
    (hterm : nd.term = v.term) (hlog : nd.log = d.log.map absE) (hbase : nd.base = 0) :
    let out := RP.handleAE nd a.term a.prevIdx a.prevTerm (a.entries.map absE) a.commit 1
    let r := exec (aePlan cf d v a) none none
    (applyAll d r.2).log.map absE = out.1.log ∧ (r.1.panic = false → isSuccess r.1.resp = out.2) := by
  intro out r
  have hr : r = ((aePlan cf d v a).final, (aePlan cf d v a).writes) := exec_none _
  rw [hr]
  simp only [applyAll_log]
  by_cases hlt : a.term < v.term
  · -- an older term: refused, nothing touched
    have hp : aePlan cf d v a = ⟨[], aeFail v v false v.term⟩ := by unfold aePlan; rw [if_pos hlt]
    have ho : out = (nd, false) := by
      simp only [out, RP.handleAE]; rw [if_pos (by omega)]
    rw [hp, ho]
    exact ⟨by simp [Plan.writes, hlog], fun _ => rfl⟩
  · have hnlt : ¬ a.term < nd.term := by omega
    -- the cluster model's node after the term / role update keeps its log and base
    obtain ⟨nd1, hnd1, hl1, hb1⟩ : ∃ nd1 : RP.Node, out = (let pre := nd1.log.take a.prevIdx
        let suf := nd1.log.drop a.prevIdx
        if a.prevIdx < nd1.base then (nd1, false)
        else if a.prevIdx ≠ 0 ∧ (nd1.log.length < a.prevIdx ∨ RP.termAt nd1.log a.prevIdx ≠ a.prevTerm) then (nd1, false)
        else ({ nd1 with log := pre ++ RP.mergeSuffix suf (a.entries.map absE),
                         commit := max nd1.commit (min a.commit (a.prevIdx + (a.entries.map absE).length)) }, true)) ∧
        nd1.log = nd.log ∧ nd1.base = 0 := by
      refine ⟨if nd.term < a.term ∨ nd.role ≠ .follower then { nd with term := a.term, role := .follower, tally := [] } else nd, ?_, ?_, ?_⟩
      · simp only [out, RP.handleAE]; rw [if_neg hnlt]
      · split <;> rfl
      · split <;> simp [hbase]
    rw [hnd1]
    simp only [hb1, Nat.not_lt_zero, if_false, hl1, hlog, List.length_map]
    by_cases hprev : aePrevOk d (aeVol2 v a) a = some true
    · -- the previous entry matches
      have hcore := (prevOk_core absE ht d v a h).mp hprev
      rw [if_neg hcore]
      rw [aePlan_eq_body cf d v a hlt hprev]
      have hv2 : (aeVol2 v a).lastLogIdx = d.log.length ∧ (aeVol2 v a).snapIdx = 0 := by
        unfold aeVol2; simp only []; split <;> exact ⟨h.lastIdx, h.snap⟩
      have hp : a.prevIdx ≤ d.log.length := by
        by_cases h0 : a.prevIdx = 0
        · omega
        · have : ¬ d.log.length < a.prevIdx := fun hh => hcore ⟨h0, Or.inl hh⟩
          omega
      obtain ⟨rs, hscan, hmerge⟩ := scan_is_merge d.log h.contig a.entries a.prevIdx hp hents
      constructor
      · rw [aeBody_writes_log cf d v a _ _ _ d.log (aePre_no_log_effect v a)]
        unfold aeLogAfter
        by_cases he : a.entries = []
        · rw [if_pos he, he]
          have : RP.mergeSuffix (List.drop a.prevIdx (d.log.map absE)) [] = List.drop a.prevIdx (d.log.map absE) := by
            cases List.drop a.prevIdx (d.log.map absE) <;> rfl
          simp only [List.map_nil]
          rw [this, List.take_append_drop]
        · rw [if_neg he, hv2.1, hv2.2, hscan]
          have : logAfterScan rs d.log.length d.log = List.take a.prevIdx d.log ++ mergeIdx (List.drop a.prevIdx d.log) a.entries := hmerge
          unfold logAfterScan at this
          obtain ⟨c, n⟩ := rs
          cases c <;> simp only [] at this ⊢ <;>
            rw [this, List.map_append, map_mergeIdx absE ht, List.map_take, List.map_drop]
      · apply aeBody_success_or_panic
        intro _
        rw [hv2.1, hv2.2]
        exact ⟨rs, hscan⟩
    · -- the previous entry does not match (or cannot be read): refused, the log untouched
      have hcore : a.prevIdx ≠ 0 ∧ (d.log.length < a.prevIdx ∨ RP.termAt (d.log.map absE) a.prevIdx ≠ a.prevTerm) := by
        by_cases hc : a.prevIdx ≠ 0 ∧ (d.log.length < a.prevIdx ∨ RP.termAt (d.log.map absE) a.prevIdx ≠ a.prevTerm)
        · exact hc
        · exact absurd ((prevOk_core absE ht d v a h).mpr hc) hprev
      rw [if_pos hcore]
      have hp : (aePlan cf d v a).writes = (aePre v a).map (·.1) ∧ isSuccess (aePlan cf d v a).final.resp = false := by
        unfold aePlan
        rw [if_neg hlt]
        simp only []
        cases hpo : aePrevOk d (aeVol2 v a) a with
        | none => exact ⟨rfl, rfl⟩
        | some b =>
          cases b with
          | false => exact ⟨rfl, rfl⟩
          | true => exact absurd hpo hprev
      rw [hp.1]
      exact ⟨by rw [foldl_noeffect _ _ (aePre_no_log_effect v a)]; simp [hl1, hlog], fun _ => hp.2⟩

end SV

namespace SV

/-- non-vacuity: a follower holding (1,t1) (2,t1) (3,t2) is sent prev = (1,t1) with entries (2,t1)
    (3,t3) (4,t3): the second is kept, the third is the first conflict, the stepped handler truncates
    from 3 and stores 3 and 4 — the cluster model's merge of the same lists -/
example :
    let e (i t : Nat) : Entry := ⟨i, t, 0, i, []⟩
    let d : Durable := ⟨3, 0, none, [e 1 1, e 2 1, e 3 2], 1, 3, 0, []⟩
    let v : Vol := { emptyVol with term := 3, lastLogIdx := 3, lastLogTerm := 2 }
    let a : AEReq := ⟨12, 2, 3, 1, 1, 0, [e 2 1, e 3 3, e 4 3]⟩
    (exec (aePlan ⟨false, false, 3, 3, false⟩ d v a) none none).2 = [.deleteRange 3 3, .storeLogs [e 3 3, e 4 3]] ∧
    mergeIdx [e 2 1, e 3 2] a.entries = [e 2 1, e 3 3, e 4 3] := by decide

end SV

namespace SV

theorem aeLastCovered_contig (a : AEReq) (h : Contig (a.prevIdx + 1) a.entries) :
    aeLastCovered a = a.prevIdx + a.entries.length := by
  unfold aeLastCovered
  cases hl : a.entries.getLast? with
  | none =>
    have : a.entries = [] := by simpa [List.getLast?_eq_none_iff] using hl
    simp [this]
  | some e =>
    simp only []
    rw [List.getLast?_eq_getElem?] at hl
    have hne : a.entries.length ≠ 0 := by
      intro h0
      have : a.entries = [] := List.eq_nil_of_length_eq_zero h0
      simp [this] at hl
    have hk : a.entries.length - 1 < a.entries.length := by omega
    rw [List.getElem?_eq_getElem hk] at hl
    simp only [Option.some.injEq] at hl
    have := h (a.entries.length - 1) hk
    rw [hl] at this
    omega

/-- **Refinement, AppendEntries: the commit index.**  Under the same hypotheses, when the stepped
    handler answers success the commit index it reports is the one `RP.handleAE` computes,
    `max old (min LeaderCommitIndex (prev + number of entries))`. -/
theorem ae_refines_core_commit (absE : Entry → RP.Entry) (cf : Cfg) (d : Durable) (v : Vol) (a : AEReq) (nd : RP.Node)
    (hents : Contig (a.prevIdx + 1) a.entries) (hcommit : nd.commit = v.commit)
    (hs : isSuccess (aePlan cf d v a).final.resp = true)
    (hout : (RP.handleAE nd a.term a.prevIdx a.prevTerm (a.entries.map absE) a.commit 1).2 = true) :
    (aePlan cf d v a).final.vol.commit =
      (RP.handleAE nd a.term a.prevIdx a.prevTerm (a.entries.map absE) a.commit 1).1.commit := by
  rw [ae_commit_exact cf d v a hs, aeLastCovered_contig a hents]
  have key : ∀ (es : List RP.Entry), (RP.handleAE nd a.term a.prevIdx a.prevTerm es a.commit 1).2 = true →
      (RP.handleAE nd a.term a.prevIdx a.prevTerm es a.commit 1).1.commit = max nd.commit (min a.commit (a.prevIdx + es.length)) := by
    intro es ho
    unfold RP.handleAE at ho ⊢
    by_cases h1 : a.term < nd.term
    · simp [h1] at ho
    · simp only [h1, if_false] at ho ⊢
      by_cases hd : nd.term < a.term ∨ nd.role ≠ .follower
      · simp only [hd, if_true] at ho ⊢
        by_cases h2 : a.prevIdx < nd.base
        · simp [h2] at ho
        · simp only [h2, if_false] at ho ⊢
          split at ho
          · simp at ho
          · rename_i h3; rw [if_neg h3]
      · simp only [hd, if_false] at ho ⊢
        by_cases h2 : a.prevIdx < nd.base
        · simp [h2] at ho
        · simp only [h2, if_false] at ho ⊢
          split at ho
          · simp at ho
          · rename_i h3; rw [if_neg h3]
  rw [key _ hout, hcommit, List.length_map]

end SV

namespace SV

/-! ## the crash between `DeleteRange` and `StoreLogs` (`stage = 0` of the cluster model) -/

/-- the cluster model's truncation-only half of the merge, on indexed entries -/
def truncIdx : List Entry → List Entry → List Entry
  | suf, [] => suf
  | [], _ => []
  | x :: suf, e :: es => if x.term = e.term then x :: truncIdx suf es else []

theorem map_truncIdx (absE : Entry → RP.Entry) (ht : ∀ e, (absE e).term = e.term) (suf es : List Entry) :
    (truncIdx suf es).map absE = RP.truncSuffix (suf.map absE) (es.map absE) := by
  induction suf generalizing es with
  | nil => cases es <;> simp [truncIdx, RP.truncSuffix]
  | cons x xs ih =>
    cases es with
    | nil => simp [truncIdx, RP.truncSuffix]
    | cons e rest =>
      simp only [truncIdx, List.map_cons, RP.truncSuffix, ht]
      split
      · simp [ih]
      · simp

/-- what the scan's verdict leaves if the process dies after the truncation, before the store -/
def logAfterTruncation (r : Option Nat × List Entry) (last : Nat) (l : List Entry) : List Entry :=
  match r.1 with
  | some ci => l.filter (fun e => ¬ (ci ≤ e.index ∧ e.index ≤ last))
  | none => l

/-- **the truncation.**  On the log 1..n with the sent entries numbered from `p + 1`: dying between
    the `DeleteRange` and the `StoreLogs` leaves `take p ++ truncIdx (drop p) entries` — the stored
    entries up to the first conflict, nothing of the request. -/
theorem scan_is_truncation (l : List Entry) (hl : Contig 1 l) (es : List Entry) (p : Nat) (hp : p ≤ l.length)
    (hes : Contig (p + 1) es) :
    ∃ r, scanEntries l l.length 0 es = some r ∧ logAfterTruncation r l.length l = l.take p ++ truncIdx (l.drop p) es := by
  induction es generalizing p with
  | nil =>
    refine ⟨(none, []), rfl, ?_⟩
    have hm : truncIdx (l.drop p) [] = l.drop p := by cases l.drop p <;> rfl
    simp [logAfterTruncation, hm]
  | cons e rest ih =>
    have he : e.index = p + 1 := hes.head
    unfold scanEntries
    have h0 : ¬ e.index ≤ 0 := by omega
    rw [if_neg h0]
    by_cases hend : e.index > l.length
    · rw [if_pos hend]
      have hpl : p = l.length := by omega
      refine ⟨(none, e :: rest), rfl, ?_⟩
      subst hpl
      simp [logAfterTruncation, truncIdx]
    · rw [if_neg hend]
      have hpl : p < l.length := by omega
      have hget : getLog l e.index = some l[p] := by
        have := getLog_contig hl p hpl
        rw [he, show p + 1 = 1 + p by omega]; exact this
      rw [hget]
      simp only []
      have hdrop : l.drop p = l[p] :: l.drop (p + 1) := (List.drop_eq_getElem_cons hpl)
      by_cases hterm : e.term ≠ l[p].term
      · rw [if_pos hterm]
        refine ⟨(some e.index, e :: rest), rfl, ?_⟩
        simp only [logAfterTruncation]
        rw [he, filter_contig l hl (p + 1) (by omega)]
        simp only [Nat.add_sub_cancel]
        rw [hdrop]
        simp only [truncIdx]
        rw [if_neg (fun h => hterm h.symm)]
        simp
      · rw [if_neg hterm]
        obtain ⟨r, hr, hlog⟩ := ih (p + 1) (by omega) hes.tail
        refine ⟨r, hr, ?_⟩
        rw [hlog, hdrop]
        simp only [truncIdx]
        have : l[p].term = e.term := (Decidable.not_not.mp hterm).symm
        rw [if_pos this]
        have ht : l.take (p + 1) = l.take p ++ [l[p]] := by
          rw [List.take_succ, List.getElem?_eq_getElem hpl]; rfl
        rw [ht, List.append_assoc]; rfl

end SV

namespace SV

/-- the writes of the entries part when there is something to store: everything before the final
    `StoreLogs` leaves the log truncated from the conflict (if any) and otherwise untouched -/
theorem aeBody_writes_before_store (cf : Cfg) (d : Durable) (v : Vol) (a : AEReq) (pre : List (Write × Res)) (v2 : Vol)
    (t1 : Nat) (l : List Entry) (hpre : ∀ w ∈ pre.map (·.1), ∀ l, w.onLog l = l)
    (c : Option Nat) (newE : List Entry) (hne : newE ≠ [])
    (hscan : scanEntries d.log v2.lastLogIdx v2.snapIdx a.entries = some (c, newE)) (he : a.entries ≠ []) :
    ∃ ws, (aeBody cf d v a pre v2 t1).writes = ws ++ [.storeLogs newE] ∧
      ws.foldl (fun l w => w.onLog l) l = logAfterTruncation (c, newE) v2.lastLogIdx l := by
  unfold aeBody Plan.writes
  rw [if_neg he, hscan]
  simp only []
  cases c with
  | none =>
    simp only [Bool.not_true, Bool.false_eq_true, if_false, if_neg hne, aeFinish_steps]
    refine ⟨pre.map (·.1) ++ (if cf.restoreCommitted then [Write.stage (min a.commit (lastOf newE ⟨0, 0, 0, 0, []⟩).index)] else []), ?_, ?_⟩
    · split <;> simp [List.map_append]
    · simp only [List.foldl_append, logAfterTruncation]
      rw [foldl_noeffect _ _ hpre]
      split <;> simp [Write.onLog]
  | some ci =>
    simp only [reloadable, if_true, Bool.not_true, Bool.false_eq_true, if_false, if_neg hne, aeFinish_steps]
    refine ⟨pre.map (·.1) ++ [Write.deleteRange ci v2.lastLogIdx] ++
        (if cf.restoreCommitted then [Write.stage (min a.commit (lastOf newE ⟨0, 0, 0, 0, []⟩).index)] else []), ?_, ?_⟩
    · split <;> simp [List.map_append]
    · simp only [List.foldl_append, logAfterTruncation, List.foldl_cons, List.foldl_nil]
      rw [foldl_noeffect _ _ hpre]
      split <;> simp [Write.onLog]

/-- **Refinement, AppendEntries: the crash point.**  If the stepped handler dies after everything
    it writes before the final `StoreLogs` (the truncation has happened, the new entries have not been
    stored), the log it leaves behind is the log of `RP.handleAE … stage = 0`:
    `take prev ++ truncSuffix (drop prev) entries`. -/
theorem ae_crash_refines_core (absE : Entry → RP.Entry) (ht : ∀ e, (absE e).term = e.term)
    (cf : Cfg) (d : Durable) (v : Vol) (a : AEReq) (nd : RP.Node)
    (h : CoreFrag d v) (hents : Contig (a.prevIdx + 1) a.entries)
    (hterm : nd.term = v.term) (hlog : nd.log = d.log.map absE) (hbase : nd.base = 0)
    (hlt : ¬ a.term < v.term) (hprev : aePrevOk d (aeVol2 v a) a = some true) (he : a.entries ≠ [])
    (c : Option Nat) (newE : List Entry) (hne : newE ≠ [])
    (hscan : scanEntries d.log d.log.length 0 a.entries = some (c, newE)) :
    ∃ ws, (aePlan cf d v a).writes = ws ++ [.storeLogs newE] ∧
      (applyAll d ws).log.map absE =
        (RP.handleAE nd a.term a.prevIdx a.prevTerm (a.entries.map absE) a.commit 0).1.log := by
  have hv2 : (aeVol2 v a).lastLogIdx = d.log.length ∧ (aeVol2 v a).snapIdx = 0 := by
    unfold aeVol2; simp only []; split <;> exact ⟨h.lastIdx, h.snap⟩
  rw [aePlan_eq_body cf d v a hlt hprev]
  obtain ⟨ws, hw, hl⟩ := aeBody_writes_before_store cf d v a (aePre v a) (aeVol2 v a) (aeVol2 v a).term d.log
    (aePre_no_log_effect v a) c newE hne (by rw [hv2.1, hv2.2]; exact hscan) he
  refine ⟨ws, hw, ?_⟩
  rw [applyAll_log, hl, hv2.1]
  have hcore := (prevOk_core absE ht d v a h).mp hprev
  have hp : a.prevIdx ≤ d.log.length := by
    by_cases h0 : a.prevIdx = 0
    · omega
    · have : ¬ d.log.length < a.prevIdx := fun hh => hcore ⟨h0, Or.inl hh⟩
      omega
  obtain ⟨rs, hscan', htr⟩ := scan_is_truncation d.log h.contig a.entries a.prevIdx hp hents
  rw [hscan] at hscan'
  simp only [Option.some.injEq] at hscan'
  subst hscan'
  rw [htr, List.map_append, map_truncIdx absE ht, List.map_take, List.map_drop]
  -- the cluster model's side
  have hnlt : ¬ a.term < nd.term := by omega
  unfold RP.handleAE
  rw [if_neg hnlt]
  simp only []
  have hb : ∀ (x : RP.Node), x.base = 0 → ¬ a.prevIdx < x.base := fun x hx => by omega
  split
  · rename_i hd
    rw [if_neg (hb _ (by simp [hbase]))]
    simp only [hlog, List.length_map]
    rw [if_neg hcore]
  · rw [if_neg (hb _ hbase)]
    simp only [hlog, List.length_map]
    rw [if_neg hcore]

end SV
