import RaftVerif.Proofs.AELog
import RaftVerif.Proofs.VoteTrace

/-!
# Representation invariant of the log along every run

`run_sorted`: started on an image whose log is well-formed (strictly ascending indexes), every run
of the stepped server — all events, failures and crashes — keeps it well-formed.  This discharges
the `Sorted d.log` hypothesis of `ae_success_log` for every reachable state.
-/

namespace SV

theorem stepPlan_durable (w : World) (p : Plan) (f c : Option Nat) :
    (stepPlan w p f c).1.d = applyAll w.d (exec p f c).2 := by
  unfold stepPlan
  simp only []
  split
  · split <;> rfl
  · rfl

theorem boot_durable (cf : Cfg) (d : Durable) : (boot cf d).1.d = d := (boot_synced cf d).2

theorem step_sorted (w : World) (e : Event) (h : Sorted w.d.log) : Sorted (stepEvent w e).1.d.log := by
  unfold stepEvent
  by_cases hd : w.dead = true
  · rw [if_pos hd]; exact h
  · rw [if_neg hd]
    have plan : ∀ p f c, Sorted (stepPlan w p f c).1.d.log := by
      intro p f c
      rw [stepPlan_durable]
      exact applyAll_sorted _ _ h
    cases e with
    | restart => simp only []; rw [boot_durable]; exact h
    | damagedRestart => simp only []; rw [boot_durable]; exact h
    | setRole r l lid => exact h
    | vote q f c => exact plan _ _ _
    | prevote q => exact plan _ _ _
    | append a f c => exact plan _ _ _
    | install q f c => exact plan _ _ _
    | timeoutNow => exact plan _ _ _
    | snapshot f c => exact plan _ _ _
    | campaign rs => exact plan _ _ _

theorem run_sorted (w : World) (es : List Event) (h : Sorted w.d.log) : Sorted (runWorld w es).d.log := by
  induction es generalizing w with
  | nil => exact h
  | cons e es ih => exact ih _ (step_sorted w e h)

end SV
