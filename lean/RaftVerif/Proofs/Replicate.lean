import RaftVerif.Model.Replicate
import RaftVerif.Proofs.RefineAE
/-! # The requests a leader's replication routine builds (replication.go: `setupAppendEntries`,
`setPreviousLog`, `setNewLogs`), as modelled by `SV.replSetup` and stepped against the real
`replicateTo` by the catch-up engine

`replSetup_wellformed` (C04): every AppendEntries request is read off the leader's own log — the
previous entry is what the leader holds just before `nextIndex` (the origin, the snapshot boundary
or a stored entry), the entries are the stored entries `nextIndex, nextIndex+1, …` without a gap, at
most `MaxAppendEntries` of them and none beyond `lastIndex`, in the leader's term with the leader's
commit index.  In particular they are numbered from `PrevLogEntry + 1`, which is the hypothesis of
`SV.ae_refines_core` about the requests a follower is given. -/
namespace SV

theorem readRange_spec (log : List Entry) (n lo : Nat) (es : List Entry) (h : readRange log n lo = some es) :
    es.length = n ∧ Contig lo es ∧ ∀ k (hk : k < es.length), getLog log (lo + k) = some es[k] := by
  induction n generalizing lo es with
  | zero =>
    simp [readRange] at h; subst h
    exact ⟨rfl, fun k hk => absurd hk (by simp), fun k hk => absurd hk (by simp)⟩
  | succ n ih =>
    unfold readRange at h
    cases hg : getLog log lo with
    | none => simp [hg] at h
    | some e =>
      simp only [hg] at h
      cases hr : readRange log n (lo + 1) with
      | none => simp [hr] at h
      | some rest =>
        simp only [hr, Option.map_some, Option.some.injEq] at h
        subst h
        obtain ⟨h1, h2, h3⟩ := ih (lo + 1) rest hr
        have hei : e.index = lo := by
          unfold getLog at hg
          have := List.find?_some hg
          simpa using this
        refine ⟨by simp [h1], ?_, ?_⟩
        · intro k hk
          cases k with
          | zero => simpa using hei
          | succ k' =>
            have := h2 k' (by simpa using hk)
            simp only [List.getElem_cons_succ]
            omega
        · intro k hk
          cases k with
          | zero => simpa using hg
          | succ k' =>
            have := h3 k' (by simpa using hk)
            simp only [List.getElem_cons_succ]
            rw [show lo + (k' + 1) = lo + 1 + k' by omega]
            exact this

/-- **C04, the leader's side.**  A request built by the replication routine is a window of the
    leader's log. -/
theorem replSetup_wellformed (cf : Cfg) (d : Durable) (v : Vol) (next last : Nat) (a : AEReq)
    (hnext : 1 ≤ next) (h : replSetup cf d v next last = some a) :
    a.term = v.term ∧ a.commit = v.commit ∧ a.prevIdx = next - 1 ∧
    (a.prevIdx = 0 ∧ a.prevTerm = 0 ∨ (a.prevIdx = v.snapIdx ∧ a.prevTerm = v.snapTerm) ∨
      ∃ e, getLog d.log a.prevIdx = some e ∧ e.term = a.prevTerm) ∧
    Contig (a.prevIdx + 1) a.entries ∧
    a.entries.length = min (next + cf.maxAE - 1) last + 1 - next ∧
    (∀ k (hk : k < a.entries.length), getLog d.log (next + k) = some a.entries[k]) := by
  unfold replSetup at h
  cases hp : replPrev d v next with
  | none => simp [hp] at h
  | some p =>
    simp only [hp] at h
    cases he : replEntries cf d next last with
    | none => simp [he] at h
    | some es =>
      simp only [he, Option.some.injEq] at h
      subst h
      obtain ⟨h1, h2, h3⟩ := readRange_spec d.log _ next es he
      have hprev : p.1 = next - 1 ∧ (p.1 = 0 ∧ p.2 = 0 ∨ (p.1 = v.snapIdx ∧ p.2 = v.snapTerm) ∨ ∃ e, getLog d.log p.1 = some e ∧ e.term = p.2) := by
        unfold replPrev at hp
        split at hp
        · rename_i h1; simp at hp; subst hp; exact ⟨by simp [h1], Or.inl ⟨rfl, rfl⟩⟩
        · split at hp
          · rename_i hs; simp at hp; subst hp; exact ⟨hs.symm, Or.inr (Or.inl ⟨rfl, rfl⟩)⟩
          · cases hg : getLog d.log (next - 1) with
            | none => simp [hg] at hp
            | some e =>
              simp only [hg, Option.map_some, Option.some.injEq] at hp
              subst hp
              have hei : e.index = next - 1 := by
                unfold getLog at hg
                have := List.find?_some hg
                simpa using this
              exact ⟨hei, Or.inr (Or.inr ⟨e, by rw [hei]; exact hg, rfl⟩)⟩
      refine ⟨rfl, rfl, hprev.1, hprev.2, ?_, h1, h3⟩
      show Contig (p.1 + 1) es
      rw [hprev.1, show next - 1 + 1 = next by omega]
      exact h2

end SV

namespace SV

/-- **C12, progress.**  A refusal never makes the routine repeat the same request: `nextIndex` moves
    strictly down (never below 1, never above the follower's hint + 1), and the loop goes on -/
theorem afterAE_refusal_moves_down (s : Repl) (a : AEReq) (term lastLog : Nat) (nr : Bool) (hterm : ¬ term > a.term) (hnext : 1 < s.next) :
    let r := afterAE s a (some (.append term lastLog false nr))
    r.2 = .again ∧ r.1.next < s.next ∧ 1 ≤ r.1.next ∧ r.1.next ≤ max (lastLog + 1) 1 ∧ r.1.matched = s.matched := by
  simp [afterAE, hterm]
  omega

/-- an acknowledgement moves `nextIndex` just past the last entry sent and records exactly that
    entry as stored by the follower; it never lowers what was recorded before -/
theorem afterAE_ack_moves_up (s : Repl) (a : AEReq) (term lastLog : Nat) (nr : Bool) (hterm : ¬ term > a.term)
    (e : Entry) (he : a.entries.getLast? = some e) :
    let r := afterAE s a (some (.append term lastLog true nr))
    r.2 = .again ∧ r.1.next = e.index + 1 ∧ r.1.matched = max s.matched e.index ∧ r.1.failures = 0 := by
  simp [afterAE, hterm, he]

/-- a newer term in the answer stops replication at once, whatever else the answer says -/
theorem afterAE_newer_term_stops (s : Repl) (a : AEReq) (term lastLog : Nat) (ok nr : Bool) (hterm : term > a.term) :
    afterAE s a (some (.append term lastLog ok nr)) = (s, .stale) := by
  simp [afterAE, hterm]

end SV
