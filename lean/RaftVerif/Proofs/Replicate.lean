import RaftVerif.Model.Replicate
import RaftVerif.Proofs.RefineAE
/-! # The requests a leader's replication routine builds (replication.go: `setupAppendEntries`,
`setPreviousLog`, `setNewLogs`), as modelled by `SV.replSetup` and stepped against the real
`replicateTo` by the catch-up engine

`replSetup_wellformed` (C04): every AppendEntries request is read off the leader's own log — the
previous entry is what the leader holds just before `nextIndex` (the origin, the snapshot boundary
or a stored entry), the entries are the stored entries `nextIndex, nextIndex+1, …` without a gap, at
most `MaxAppendEntries` of them and none beyond `lastIndex`, in the leader's term with the leader's
commit index.  In particular they are numbered from `PrevLogEntry + 1`, which is the hypothesis of
`SV.ae_refines_core` about the requests a follower is given. -/
namespace SV

theorem readRange_spec (log : List Entry) (n lo : Nat) (es : List Entry) (h : readRange log n lo = some es) :
    es.length = n ∧ Contig lo es ∧ ∀ k (hk : k < es.length), getLog log (lo + k) = some es[k] := by
  induction n generalizing lo es with
  | zero =>
    simp [readRange] at h; subst h
    exact ⟨rfl, fun k hk => absurd hk (by simp), fun k hk => absurd hk (by simp)⟩
  | succ n ih =>
    unfold readRange at h
    cases hg : getLog log lo with
    | none => simp [hg] at h
    | some e =>
      simp only [hg] at h
      cases hr : readRange log n (lo + 1) with
      | none => simp [hr] at h
      | some rest =>
        simp only [hr, Option.map_some, Option.some.injEq] at h
        subst h
        obtain ⟨h1, h2, h3⟩ := ih (lo + 1) rest hr
        have hei : e.index = lo := by
          unfold getLog at hg
          have := List.find?_some hg
          simpa using this
        refine ⟨by simp [h1], ?_, ?_⟩
        · intro k hk
          cases k with
          | zero => simpa using hei
          | succ k' =>
            have := h2 k' (by simpa using hk)
            simp only [List.getElem_cons_succ]
            omega
        · intro k hk
          cases k with
          | zero => simpa using hg
          | succ k' =>
            have := h3 k' (by simpa using hk)
            simp only [List.getElem_cons_succ]
            rw [show lo + (k' + 1) = lo + 1 + k' by omega]
            exact this

/-- **C04, the leader's side.**  A request built by the replication routine is a window of the
    leader's log. -/
theorem replSetup_wellformed (cf : Cfg) (d : Durable) (v : Vol) (next last : Nat) (a : AEReq)
    (hnext : 1 ≤ next) (h : replSetup cf d v next last = some a) :
    a.term = v.term ∧ a.commit = v.commit ∧ a.prevIdx = next - 1 ∧
    (a.prevIdx = 0 ∧ a.prevTerm = 0 ∨ (a.prevIdx = v.snapIdx ∧ a.prevTerm = v.snapTerm) ∨
      ∃ e, getLog d.log a.prevIdx = some e ∧ e.term = a.prevTerm) ∧
    Contig (a.prevIdx + 1) a.entries ∧
    a.entries.length = min (next + cf.maxAE - 1) last + 1 - next ∧
    (∀ k (hk : k < a.entries.length), getLog d.log (next + k) = some a.entries[k]) := by
  unfold replSetup at h
  cases hp : replPrev d v next with
  | none => simp [hp] at h
  | some p =>
    simp only [hp] at h
    cases he : replEntries cf d next last with
    | none => simp [he] at h
    | some es =>
      simp only [he, Option.some.injEq] at h
      subst h
      obtain ⟨h1, h2, h3⟩ := readRange_spec d.log _ next es he
      have hprev : p.1 = next - 1 ∧ (p.1 = 0 ∧ p.2 = 0 ∨ (p.1 = v.snapIdx ∧ p.2 = v.snapTerm) ∨ ∃ e, getLog d.log p.1 = some e ∧ e.term = p.2) := by
        unfold replPrev at hp
        split at hp
        · rename_i h1; simp at hp; subst hp; exact ⟨by simp [h1], Or.inl ⟨rfl, rfl⟩⟩
        · split at hp
          · rename_i hs; simp at hp; subst hp; exact ⟨hs.symm, Or.inr (Or.inl ⟨rfl, rfl⟩)⟩
          · cases hg : getLog d.log (next - 1) with
            | none => simp [hg] at hp
            | some e =>
              simp only [hg, Option.map_some, Option.some.injEq] at hp
              subst hp
              have hei : e.index = next - 1 := by
                unfold getLog at hg
                have := List.find?_some hg
                simpa using this
              exact ⟨hei, Or.inr (Or.inr ⟨e, by rw [hei]; exact hg, rfl⟩)⟩
      refine ⟨rfl, rfl, hprev.1, hprev.2, ?_, h1, h3⟩
      show Contig (p.1 + 1) es
      rw [hprev.1, show next - 1 + 1 = next by omega]
      exact h2

end SV

namespace SV

/-- **C12, progress.**  A refusal never makes the routine repeat the same request: `nextIndex` moves
    strictly down (never below 1, never above the follower's hint + 1), and the loop goes on -/
theorem afterAE_refusal_moves_down (s : Repl) (a : AEReq) (term lastLog : Nat) (nr : Bool) (hterm : ¬ term > a.term) (hnext : 1 < s.next) :
    let r := afterAE s a (some (.append term lastLog false nr))
    r.2 = .again ∧ r.1.next < s.next ∧ 1 ≤ r.1.next ∧ r.1.next ≤ max (lastLog + 1) 1 ∧ r.1.matched = s.matched := by
  simp [afterAE, hterm]
  omega

/-- an acknowledgement moves `nextIndex` just past the last entry sent and records exactly that
    entry as stored by the follower; it never lowers what was recorded before -/
theorem afterAE_ack_moves_up (s : Repl) (a : AEReq) (term lastLog : Nat) (nr : Bool) (hterm : ¬ term > a.term)
    (e : Entry) (he : a.entries.getLast? = some e) :
    let r := afterAE s a (some (.append term lastLog true nr))
    r.2 = .again ∧ r.1.next = e.index + 1 ∧ r.1.matched = max s.matched e.index ∧ r.1.failures = 0 := by
  simp [afterAE, hterm, he]

/-- a newer term in the answer stops replication at once, whatever else the answer says -/
theorem afterAE_newer_term_stops (s : Repl) (a : AEReq) (term lastLog : Nat) (ok nr : Bool) (hterm : term > a.term) :
    afterAE s a (some (.append term lastLog ok nr)) = (s, .stale) := by
  simp [afterAE, hterm]

end SV

/-! ## The pipelined mode (`pipelineReplicate` / `pipelineSend` / `pipelineDecode`), as modelled by
`SV.pipeStep` and stepped against the real routine by the catch-up engine's pipeline cases -/
namespace SV

/-- a refusal, or a newer term, credits nothing and ends the pipeline (the caller falls back to
    `replicateTo`, which is where `nextIndex` is walked back) -/
theorem pipeDecode_refusal_ends (p : Pipe) (a : AEReq) (term lastLog : Nat) (ok nr : Bool)
    (h : term > a.term ∨ ok = false) :
    (pipeDecode p a (some (.append term lastLog ok nr))).s = p.s ∧
    (p.alive = true → (pipeDecode p a (some (.append term lastLog ok nr))).alive = false) := by
  unfold pipeDecode
  rcases h with h | h
  · by_cases ha : p.alive = true <;> simp [ha, h]
  · subst h
    by_cases ha : p.alive = true <;> by_cases ht : term > a.term <;> simp [ha, ht]

/-- the decoder changes the replication state only on an acknowledgement in the request's own term
    (or an older one), and then to exactly the last entry of that request -/
theorem pipeDecode_credit (p : Pipe) (a : AEReq) (r : Option Resp) (h : (pipeDecode p a r).s ≠ p.s) :
    p.alive = true ∧ ∃ term lastLog nr e, r = some (.append term lastLog true nr) ∧ term ≤ a.term ∧
      a.entries.getLast? = some e ∧
      (pipeDecode p a r).s = { p.s with next := e.index + 1, matched := max p.s.matched e.index } := by
  unfold pipeDecode at h ⊢
  match r with
  | none => simp at h
  | some (.vote ..) => simp at h
  | some (.prevote ..) => simp at h
  | some (.install ..) => simp at h
  | some .timeoutNow => simp at h
  | some (.snap ..) => simp at h
  | some (.campaigned ..) => simp at h
  | some .none => simp at h
  | some (.append term lastLog ok nr) =>
    by_cases ha : p.alive = true
    · by_cases ht : term > a.term
      · simp [ha, ht] at h
      · cases ok with
        | false => simp [ha, ht] at h
        | true =>
          cases he : a.entries.getLast? with
          | none => simp [ha, ht, he] at h
          | some e =>
            refine ⟨ha, term, lastLog, nr, e, rfl, by omega, rfl, ?_⟩
            simp [ha, ht, he]
    · simp [ha] at h

/-- the decoder touches neither the queue nor the record of deliveries -/
theorem pipeDecode_frame (p : Pipe) (a : AEReq) (r : Option Resp) :
    (pipeDecode p a r).flight = p.flight ∧ (pipeDecode p a r).trace = p.trace := by
  unfold pipeDecode
  split <;> (repeat' split) <;> exact ⟨rfl, rfl⟩

/-- what the pipeline has done so far is accounted for: every request queued or delivered was built
    by `replSetup` from the leader's log (so `replSetup_wellformed` speaks about it), and the index
    the follower is credited with is the last entry of a delivered request that the follower
    acknowledged in that request's term -/
structure PipeInv (cf : Cfg) (d : Durable) (v : Vol) (p : Pipe) : Prop where
  flight : ∀ a ∈ p.flight, ∃ nx, replSetup cf d v nx v.lastLogIdx = some a
  trace : ∀ x ∈ p.trace, ∃ a nx, x.1 = .ae a ∧ replSetup cf d v nx v.lastLogIdx = some a
  credit : p.s.matched = 0 ∨ ∃ x ∈ p.trace, ∃ a e t l n, x.1 = .ae a ∧ a.entries.getLast? = some e ∧
      e.index = p.s.matched ∧ answerOf x.2 = some (.append t l true n) ∧ t ≤ a.term

theorem pipeSend_inv (cf : Cfg) (d : Durable) (v : Vol) (fuel : Nat) (p : Pipe) (h : PipeInv cf d v p) :
    PipeInv cf d v (pipeSend cf d v fuel p) := by
  unfold pipeSend
  by_cases ha : p.alive = true
  · simp only [ha, Bool.not_true, Bool.false_eq_true, if_false]
    cases hs : replSetup cf d v p.loc v.lastLogIdx with
    | none => exact ⟨h.flight, h.trace, h.credit⟩
    | some a =>
      simp only
      split
      · exact ⟨h.flight, h.trace, h.credit⟩
      · refine ⟨?_, h.trace, h.credit⟩
        intro b hb
        simp only [List.mem_append, List.mem_singleton] at hb
        rcases hb with hb | hb
        · exact h.flight b hb
        · subst hb; exact ⟨p.loc, hs⟩
  · simp only [Bool.not_eq_true] at ha
    simp [ha]; exact h

theorem pipeDeliver_inv (cf : Cfg) (d : Durable) (v : Vol) (p : Pipe) (h : PipeInv cf d v p) :
    PipeInv cf d v (pipeDeliver p) := by
  unfold pipeDeliver
  cases hf : p.flight with
  | nil => exact h
  | cons a rest =>
    have hfl : ∀ b ∈ rest, ∃ nx, replSetup cf d v nx v.lastLogIdx = some b :=
      fun b hb => h.flight b (by rw [hf]; exact List.mem_cons_of_mem _ hb)
    obtain ⟨nx, hnx⟩ := h.flight a (by rw [hf]; exact List.mem_cons_self)
    simp only
    split
    · exact ⟨hfl, h.trace, h.credit⟩
    · -- the request is delivered: the follower's observation joins the trace, then the decoder runs
      generalize hr : stepEvent p.f (Event.append a (p.faults.headD (none, none)).1 (p.faults.headD (none, none)).2) = r
      let q : Pipe := { p with flight := rest, f := r.1, trace := p.trace ++ [(.ae a, r.2)], faults := p.faults.tail }
      have hq : PipeInv cf d v q := by
        refine ⟨hfl, ?_, ?_⟩
        · intro x hx
          simp only [q, List.mem_append, List.mem_singleton] at hx
          rcases hx with hx | hx
          · exact h.trace x hx
          · subst hx; exact ⟨a, nx, rfl, hnx⟩
        · rcases h.credit with hc | ⟨x, hx, rest'⟩
          · exact Or.inl hc
          · exact Or.inr ⟨x, by simp only [q, List.mem_append]; exact Or.inl hx, rest'⟩
      show PipeInv cf d v (pipeDecode q a (answerOf r.2))
      by_cases hsame : (pipeDecode q a (answerOf r.2)).s = q.s
      · -- nothing credited: flight and trace are untouched by the decoder
        have hft := pipeDecode_frame q a (answerOf r.2)
        refine ⟨by rw [hft.1]; exact hq.flight, by rw [hft.2]; exact hq.trace, ?_⟩
        rw [hsame, hft.2]; exact hq.credit
      · obtain ⟨_, t, l, n, e, hans, hle, hlast, hs⟩ := pipeDecode_credit q a (answerOf r.2) hsame
        have hft := pipeDecode_frame q a (answerOf r.2)
        refine ⟨by rw [hft.1]; exact hq.flight, by rw [hft.2]; exact hq.trace, ?_⟩
        rw [hs, hft.2]
        simp only
        by_cases hm : q.s.matched ≤ e.index
        · refine Or.inr ⟨(.ae a, r.2), by simp [q], a, e, t, l, n, rfl, hlast, ?_, hans, hle⟩
          omega
        · rcases hq.credit with hc | hc
          · omega
          · rw [show max q.s.matched e.index = q.s.matched by omega]; exact Or.inr hc

theorem pipeStep_inv (cf : Cfg) (d : Durable) (v : Vol) (fuel : Nat) (p : Pipe) (op : POp) (h : PipeInv cf d v p) :
    PipeInv cf d v (pipeStep cf d v fuel p op) := by
  cases op with
  | send => exact pipeSend_inv cf d v fuel p h
  | deliver => exact pipeDeliver_inv cf d v p h

theorem pipeDrain_inv (cf : Cfg) (d : Durable) (v : Vol) (n : Nat) (p : Pipe) (h : PipeInv cf d v p) :
    PipeInv cf d v (pipeDrain n p) := by
  induction n generalizing p with
  | zero => exact h
  | succ n ih =>
    unfold pipeDrain
    split
    · exact h
    · exact ih _ (pipeDeliver_inv cf d v p h)

/-- **C05 / C03 / C04 for the pipelined mode, every run.**  Whatever the order of sends and
    deliveries, whatever the follower answers and whichever writes fail on it: every request comes
    from the leader's log, and the follower is credited only with the last entry of a request it
    acknowledged. -/
theorem pipelineRun_inv (cf : Cfg) (d : Durable) (v : Vol) (fuel : Nat) (faults : List Fault) (f : World)
    (next : Nat) (ops : List POp) : PipeInv cf d v (pipelineRun cf d v fuel faults f next ops) := by
  unfold pipelineRun
  apply pipeDrain_inv
  have h0 : PipeInv cf d v ⟨⟨next, 0, 0, false⟩, next, [], true, false, false, 0, f, [], faults⟩ :=
    ⟨fun a ha => absurd ha (by simp), fun x hx => absurd hx (by simp), Or.inl rfl⟩
  generalize (⟨⟨next, 0, 0, false⟩, next, [], true, false, false, 0, f, [], faults⟩ : Pipe) = p0 at h0
  induction ops generalizing p0 with
  | nil => exact h0
  | cons op ops ih => exact ih _ (pipeStep_inv cf d v fuel p0 op h0)

/-- non-vacuity: an acknowledged request really is credited, to exactly its last entry -/
example (p : Pipe) (h : p.alive = true) :
    (pipeDecode p ⟨11, 1, 2, 2, 1, 0, [⟨3, 2, 0, 7, []⟩]⟩ (some (.append 2 3 true false))).s.matched = max p.s.matched 3 := by
  simp [pipeDecode, h]

end SV

/-! ## What an acknowledgement means on the follower: the credited entry is held

`pipelineRun_inv` (and `afterAE_ack_moves_up` for the plain mode) say the leader credits the follower
only with the last entry of a request the follower acknowledged.  The theorem below closes the loop
inside the stepped model: a follower that acknowledges a request — whichever of its writes was set
to fail or to kill the process — durably holds every entry of the request above its snapshot, in
the request's term.  Together: the index a leader enters into its commitment table for a follower
is held by that follower (C05's premise for counting it towards a majority). -/
namespace SV

theorem contig_sorted (i : Nat) (l : List Entry) (h : Contig i l) : Sorted l := by
  induction l generalizing i with
  | nil => exact List.Pairwise.nil
  | cons x xs ih =>
    refine List.Pairwise.cons ?_ (ih (i + 1) h.tail)
    intro b hb
    obtain ⟨k, hk, rfl⟩ := List.getElem_of_mem hb
    have h0 := h 0 (by simp)
    have h1 := h (k + 1) (by simpa using hk)
    simp only [List.getElem_cons_zero, List.getElem_cons_succ] at h0 h1
    omega

/-- an acknowledged AppendEntries, any follower state, any armed failure or crash: the follower's
    store afterwards holds every sent entry above its snapshot, with the sent term -/
theorem ack_means_held (w : World) (a : AEReq) (fl cr : Option Nat) (t l : Nat) (n : Bool)
    (hs : Sorted w.d.log) (hes : Sorted a.entries)
    (h : answerOf (stepEvent w (.append a fl cr)).2 = some (.append t l true n)) :
    ∀ e ∈ a.entries, (aeVol2 w.v a).snapIdx < e.index →
      ∃ e', getLog (stepEvent w (.append a fl cr)).1.d.log e.index = some e' ∧ e'.term = e.term := by
  unfold stepEvent at h ⊢
  by_cases hd : w.dead = true
  · simp [hd, answerOf, deadObs] at h
  · simp only [hd, Bool.false_eq_true, if_false, planOf] at h ⊢
    unfold stepPlan at h ⊢
    by_cases hp : (exec (aePlan w.cf w.d w.v a) fl cr).1.panic = true
    · simp only [hp, if_true] at h
      cases hr : restart w.cf (applyAll w.d (exec (aePlan w.cf w.d w.v a) fl cr).2) with
      | none => simp [hr, answerOf, deadObs] at h
      | some vc => simp [hr, answerOf] at h
    · simp only [hp, Bool.false_eq_true, if_false] at h ⊢
      have hsucc : isSuccess (exec (aePlan w.cf w.d w.v a) fl cr).1.resp = true := by
        simp only [answerOf, Bool.false_eq_true, or_self, if_false] at h
        cases hresp : (exec (aePlan w.cf w.d w.v a) fl cr).1.resp with
        | append t' l' s' n' =>
          rw [hresp] at h
          simp only [Option.some.injEq, Resp.append.injEq] at h
          simp [isSuccess, h.2.2.1]
        | _ => rw [hresp] at h; first | (simp at h; done) | (split at h <;> simp_all)
      obtain ⟨_, hheld, _⟩ := ae_success_log w.cf w.d w.v a fl cr hs hes hsucc
      intro e he hsn
      obtain ⟨e', h1, h2, _⟩ := hheld e he hsn
      exact ⟨e', h1, h2⟩

end SV
