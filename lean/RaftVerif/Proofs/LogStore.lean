import RaftVerif.Model.Server

/-!
# The log store of the stepped model behaves like a map from index to entry

`SV.Durable.log` is a list kept ascending by index (`putEntry`, `filter`); the real `InmemStore` is a
map.  These lemmas show that under the representation invariant `Sorted` (strictly ascending
indexes) `getLog` after `StoreLogs` / `DeleteRange` is what a map would return, and that every
write preserves the invariant.
-/

namespace SV

def Sorted (l : List Entry) : Prop := l.Pairwise (fun a b => a.index < b.index)

theorem sorted_nil : Sorted [] := List.Pairwise.nil

theorem getLog_cons (x : Entry) (xs : List Entry) (i : Nat) :
    getLog (x :: xs) i = if x.index = i then some x else getLog xs i := by
  unfold getLog
  by_cases h : x.index = i <;> simp [List.find?, h]

theorem getLog_none_of_lt {l : List Entry} {i : Nat} (h : ∀ x ∈ l, i < x.index) : getLog l i = none := by
  unfold getLog
  apply List.find?_eq_none.mpr
  intro x hx
  have := h x hx
  simp; omega

/-- `StoreLog` of one entry: the entry is found at its index, every other index is untouched -/
theorem getLog_putEntry (e : Entry) (l : List Entry) (hs : Sorted l) (i : Nat) :
    getLog (putEntry e l) i = if e.index = i then some e else getLog l i := by
  induction l with
  | nil => simp [putEntry, getLog]
  | cons x xs ih =>
    have hx : ∀ y ∈ xs, x.index < y.index := (List.pairwise_cons.mp hs).1
    have hxs : Sorted xs := (List.pairwise_cons.mp hs).2
    unfold putEntry
    by_cases h1 : e.index < x.index
    · rw [if_pos h1, getLog_cons]
    · rw [if_neg h1]
      by_cases h2 : e.index = x.index
      · rw [if_pos h2, getLog_cons, getLog_cons]
        by_cases h3 : e.index = i
        · simp [h3]
        · have : ¬ x.index = i := by omega
          simp [h3, this]
      · rw [if_neg h2, getLog_cons, getLog_cons, ih hxs]
        by_cases h3 : x.index = i
        · have : ¬ e.index = i := by omega
          simp [h3, this]
        · simp [h3]

theorem putEntry_mem {e y : Entry} {l : List Entry} (h : y ∈ putEntry e l) : y = e ∨ y ∈ l := by
  induction l with
  | nil => simp [putEntry] at h; exact Or.inl h
  | cons x xs ih =>
    unfold putEntry at h
    split at h
    · rcases List.mem_cons.mp h with h | h
      · exact Or.inl h
      · exact Or.inr h
    · split at h
      · rcases List.mem_cons.mp h with h | h
        · exact Or.inl h
        · exact Or.inr (List.mem_cons_of_mem _ h)
      · rcases List.mem_cons.mp h with h | h
        · exact Or.inr (by rw [h]; exact List.mem_cons_self)
        · rcases ih h with h | h
          · exact Or.inl h
          · exact Or.inr (List.mem_cons_of_mem _ h)

theorem putEntry_sorted (e : Entry) (l : List Entry) (hs : Sorted l) : Sorted (putEntry e l) := by
  induction l with
  | nil => simp [putEntry, Sorted]
  | cons x xs ih =>
    have hx : ∀ y ∈ xs, x.index < y.index := (List.pairwise_cons.mp hs).1
    have hxs : Sorted xs := (List.pairwise_cons.mp hs).2
    unfold putEntry
    by_cases h1 : e.index < x.index
    · rw [if_pos h1]
      refine List.pairwise_cons.mpr ⟨?_, hs⟩
      intro y hy
      rcases List.mem_cons.mp hy with hy | hy
      · rw [hy]; exact h1
      · have := hx y hy; omega
    · rw [if_neg h1]
      by_cases h2 : e.index = x.index
      · rw [if_pos h2]
        refine List.pairwise_cons.mpr ⟨?_, hxs⟩
        intro y hy
        have := hx y hy; omega
      · rw [if_neg h2]
        refine List.pairwise_cons.mpr ⟨?_, ih hxs⟩
        intro y hy
        rcases putEntry_mem hy with hy | hy
        · rw [hy]; omega
        · exact hx y hy

/-- `DeleteRange lo hi`: indexes inside the range are gone, the others untouched -/
theorem getLog_filter_range (l : List Entry) (lo hi i : Nat) :
    getLog (l.filter (fun e => ¬ (lo ≤ e.index ∧ e.index ≤ hi))) i =
      if lo ≤ i ∧ i ≤ hi then none else getLog l i := by
  induction l with
  | nil => simp [getLog]
  | cons x xs ih =>
    by_cases hp : (lo ≤ x.index ∧ x.index ≤ hi)
    · rw [List.filter_cons_of_neg (by simp [hp]), ih, getLog_cons]
      by_cases h3 : x.index = i
      · subst h3; simp [hp]
      · simp [h3]
    · rw [List.filter_cons_of_pos (by simp [hp]), getLog_cons, getLog_cons, ih]
      by_cases h3 : x.index = i
      · subst h3; simp [hp]
      · simp [h3]

theorem filter_sorted (l : List Entry) (p : Entry → Bool) (hs : Sorted l) : Sorted (l.filter p) :=
  List.Pairwise.sublist List.filter_sublist hs

theorem storeOne_log (d : Durable) (e : Entry) : (storeOne d e).log = putEntry e d.log := rfl

theorem storeAll_sorted (es : List Entry) (d : Durable) (hs : Sorted d.log) : Sorted (es.foldl storeOne d).log := by
  induction es generalizing d with
  | nil => exact hs
  | cons e rest ih => exact ih _ (putEntry_sorted e d.log hs)

/-- `StoreLogs es` (entries with strictly ascending indexes): each stored entry is found at its
    index, every other index is untouched -/
theorem getLog_storeAll (es : List Entry) (d : Durable) (hs : Sorted d.log) (hes : Sorted es) (i : Nat) :
    getLog (es.foldl storeOne d).log i =
      match es.find? (·.index = i) with
      | some e => some e
      | none => getLog d.log i := by
  induction es generalizing d with
  | nil => simp
  | cons e rest ih =>
    have he : ∀ y ∈ rest, e.index < y.index := (List.pairwise_cons.mp hes).1
    have hrest : Sorted rest := (List.pairwise_cons.mp hes).2
    rw [List.foldl_cons, ih _ (putEntry_sorted e d.log hs) hrest, storeOne_log]
    by_cases h1 : e.index = i
    · have : rest.find? (·.index = i) = none := by
        apply List.find?_eq_none.mpr
        intro y hy
        have := he y hy
        simp; omega
      simp [List.find?, h1, this, getLog_putEntry e d.log hs]
    · simp only [List.find?, h1, decide_false]
      cases rest.find? (·.index = i) with
      | some _ => rfl
      | none => simp [getLog_putEntry e d.log hs, h1]

end SV
