import RaftVerif.Proofs.Leader
import RaftVerif.Proofs.Replicate
/-! # The configuration a stepped leader acts on is in its log (C07, after F22)

`appendConfig_adopts_what_it_stored` and `appendConfig_store_failure_adopts_nothing`
(Proofs/Leader.lean) are the two halves for the step that changes the configuration.  Here: the
other step that writes the log, `dispatchLogs` for any group of calls, leaves every index up to the
old last index exactly as it was — so the configuration entry the server's latest configuration
names stays where it is. -/
namespace SV
open CF (Config)

theorem numberGroup_contig (t i : Nat) (g : List (Nat × Nat × Nat × Config)) :
    Contig i ((numberGroup t i g).map (·.2)) := by
  induction g generalizing i with
  | nil => intro k hk; simp [numberGroup] at hk
  | cons x xs ih =>
    obtain ⟨id, kd, d, c⟩ := x
    intro k hk
    cases k with
    | zero => simp [numberGroup]
    | succ k' =>
      have := ih (i + 1) k' (by simpa [numberGroup] using hk)
      simp only [numberGroup, List.map_cons, List.getElem_cons_succ]
      omega

theorem numberGroup_index_ge (t i : Nat) (g : List (Nat × Nat × Nat × Config)) (e : Entry)
    (he : e ∈ (numberGroup t i g).map (·.2)) : i ≤ e.index := by
  obtain ⟨k, hk, rfl⟩ := List.getElem_of_mem he
  have := numberGroup_contig t i g k hk
  omega

/-- `dispatchLogs`, any group, store failing or not: every index up to the old last index holds
    what it held -/
theorem dispatch_keeps_entries (cf : Cfg) (a : Acc) (g : List (Nat × Nat × Nat × Config)) (fail : Bool)
    (hs : Sorted a.d.log) (i : Nat) (hi : i ≤ lastIndex a.v) :
    getLog (dispatch cf a g fail).1.d.log i = getLog a.d.log i := by
  have hst : ∀ w ∈ (if cf.restoreCommitted then [Write.stage a.v.commit] else []), ∃ j, w = Write.stage j := by
    intro w hw; split at hw
    · exact ⟨_, by simpa using hw⟩
    · simp at hw
  cases fail with
  | true =>
    show getLog (applyAll a.d (if cf.restoreCommitted then [Write.stage a.v.commit] else [])).log i = _
    rw [stage_log _ _ hst]
  | false =>
    show getLog (Write.apply (applyAll a.d (if cf.restoreCommitted then [Write.stage a.v.commit] else []))
      (Write.storeLogs ((numberGroup a.v.term (lastIndex a.v + 1) g).map (·.2)))).log i = _
    have hs1 : Sorted (applyAll a.d (if cf.restoreCommitted then [Write.stage a.v.commit] else [])).log := by
      rw [stage_log _ _ hst]; exact hs
    have := getLog_storeAll ((numberGroup a.v.term (lastIndex a.v + 1) g).map (·.2)) _ hs1
      (contig_sorted _ _ (numberGroup_contig _ _ _)) i
    have hnone : ((numberGroup a.v.term (lastIndex a.v + 1) g).map (·.2)).find? (·.index = i) = none := by
      apply List.find?_eq_none.mpr
      intro e he
      have := numberGroup_index_ge _ _ _ e he
      simp; omega
    rw [hnone] at this
    simp only [Write.apply]
    rw [this, stage_log _ _ hst]

/-- **C07.**  The configuration entry a leader's latest configuration names survives every
    `dispatchLogs`: if the log carries the latest configuration at `latestIdx` before, it does after -/
theorem dispatch_keeps_latest_config (cf : Cfg) (a : Acc) (g : List (Nat × Nat × Nat × Config)) (fail : Bool)
    (hs : Sorted a.d.log) (hle : a.v.latestIdx ≤ lastIndex a.v) (e : Entry)
    (h : getLog a.d.log a.v.latestIdx = some e ∧ e.kind = 5 ∧ e.cfg = a.v.latest) :
    getLog (dispatch cf a g fail).1.d.log (dispatch cf a g fail).1.v.latestIdx = some e ∧ e.kind = 5 ∧
      e.cfg = (dispatch cf a g fail).1.v.latest := by
  have hidx : (dispatch cf a g fail).1.v.latestIdx = a.v.latestIdx := (dispatch_cfg cf a g fail).1
  have hlat : (dispatch cf a g fail).1.v.latest = a.v.latest := by
    cases fail <;> rfl
  rw [hidx, hlat, dispatch_keeps_entries cf a g fail hs _ hle]
  exact h

end SV
