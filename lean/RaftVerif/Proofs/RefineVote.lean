import RaftVerif.Core.Model
import RaftVerif.Model.Server
/-! # The vote handler of the cluster model is the vote handler that is stepped against the code

The global theorems (`RP.election_safety`, `RP.leader_completeness`, …) are about the cut-down cluster
model `Core/Model.lean`; the correspondence runs are about `SV` (`Model/Server.lean`).  This file
closes that gap for RequestVote: for every durable image, volatile state and request, every failing
write of `persistVote`, the model that is stepped against `raft.go` does to the term and the vote
record exactly what `RP.handleVote` does for one of its three `stage`s, and answers the same —
provided the two guards `RP` does not have (the sender must be a voter of the known configuration;
no other leader may be known) let the request through, in which other case the stepped handler
changes nothing at all (a stutter step of the cluster model, whose refusals are inert).

The abstraction: the node's term / vote record are the durable ones, and its log is any list whose
length and last term are what the server's cached last entry says (the coherence the run invariants
of `Proofs/RunInv`, `Proofs/VoteTrace` maintain). -/
namespace SV

/-- the cluster-model node standing for a stepped server -/
def absNode (d : Durable) (full : List RP.Entry) : RP.Node :=
  { term := d.curTerm, voteTerm := d.voteTerm, voteCand := d.voteCand, log := full }

/-- the two guards of `requestVote` the cluster model does not have -/
def svOnlyRefusal (v : Vol) (q : VoteReq) : Prop :=
  (q.candId ≠ 0 ∧ v.latest ≠ [] ∧ ¬ inConfiguration v.latest q.candId) ∨
  (v.leader ≠ 0 ∧ v.leader ≠ q.cand ∧ ¬ q.transfer) ∨
  (q.term ≥ v.term ∧ q.candId ≠ 0 ∧ v.latest ≠ [] ∧ ¬ hasVote v.latest q.candId)

instance (v : Vol) (q : VoteReq) : Decidable (svOnlyRefusal v q) := by unfold svOnlyRefusal; infer_instance

/-- which `stage` of `RP.handleVote` a failing write ordinal of the stepped handler corresponds to -/
def stageOf (v : Vol) (q : VoteReq) (failAt : Option Nat) : Nat :=
  let base := if q.term > v.term then 1 else 0
  match failAt with
  | none => 2
  | some k => if k = base then 0 else if k = base + 1 then 1 else 2

theorem lastEntry_stepDown (v : Vol) (t : Nat) : lastEntry (stepDown v t) = lastEntry v := rfl

/-- **Refinement, RequestVote.**  Whenever the request passes the guards the cluster model lacks and
    the term write does not kill the process, the stepped handler under any failing vote write
    leaves the durable term and vote record exactly as `RP.handleVote` leaves the node (for the
    stage that failing write corresponds to), and grants iff it grants. -/
theorem vote_refines_core (d : Durable) (v : Vol) (q : VoteReq) (full : List RP.Entry) (failAt : Option Nat)
    (hsync : v.term = d.curTerm)
    (hcoh : lastEntry v = (full.length, RP.lastTerm full))
    (hguard : ¬ svOnlyRefusal v q)
    (hnp : (exec (votePlan d v q) failAt none).1.panic = false) :
    let r := exec (votePlan d v q) failAt none
    let d' := applyAll d r.2
    let out := RP.handleVote (absNode d full) q.cand q.term q.lastIdx q.lastTerm (stageOf v q failAt)
    out.1.term = d'.curTerm ∧ out.1.voteTerm = d'.voteTerm ∧ out.1.voteCand = d'.voteCand ∧ out.1.log = full ∧
    r.1.resp = .vote d'.curTerm out.2 := by
  intro r d' out
  have hle1 : (lastEntry v).1 = full.length := by rw [hcoh]
  have hle2 : (lastEntry v).2 = RP.lastTerm full := by rw [hcoh]
  unfold svOnlyRefusal at hguard
  simp only [not_or] at hguard
  obtain ⟨g1, g2, g3⟩ := hguard
  have hplan : votePlan d v q =
      if q.term < v.term then ⟨[], mkRes (.vote v.term false) v⟩
      else
        let pre := votePre v q
        let v1 := voteVol1 v q
        let t1 := v1.term
        let le := lastEntry v1
        if le.2 > q.lastTerm then ⟨pre, mkRes (.vote t1 false) v1⟩
        else if le.2 = q.lastTerm ∧ le.1 > q.lastIdx then ⟨pre, mkRes (.vote t1 false) v1⟩
        else if d.voteTerm = q.term ∧ d.voteCand.isSome then ⟨pre, mkRes (.vote t1 (d.voteCand = some q.cand)) v1⟩
        else ⟨pre ++ [(.setVoteTerm q.term, mkRes (.vote t1 false) v1), (.setVoteCand q.cand, mkRes (.vote t1 false) v1)],
              mkRes (.vote t1 true) v1⟩ := by
    unfold votePlan
    rw [if_neg g1, if_neg g2]
    by_cases hlt : q.term < v.term
    · simp [hlt]
    · simp only [hlt, if_false]
      have : ¬ (q.candId ≠ 0 ∧ v.latest ≠ [] ∧ ¬ hasVote v.latest q.candId) := fun h => g3 ⟨by omega, h⟩
      rw [if_neg this]
  have hle : lastEntry (voteVol1 v q) = lastEntry v := by unfold voteVol1; split <;> rfl
  simp only [r, d', out] at hnp ⊢
  rw [hplan] at hnp ⊢
  by_cases hlt : q.term < v.term
  · -- an older term: refused, nothing touched
    simp only [hlt, if_true]
    have h1 : q.term < d.curTerm := by omega
    cases failAt <;> simp [exec, Plan.writes, applyAll, mkRes, RP.handleVote, absNode, h1, hsync]
  · simp only [hlt, if_false] at hnp ⊢
    simp only [hle, hle1, hle2] at hnp ⊢
    have hnlt : (q.term < d.curTerm) = False := by simp; omega
    by_cases hgt : q.term > v.term
    · -- a newer term: the term write comes first
      have hgt' : d.curTerm < q.term := by omega
      have hpre : votePre v q = [(.setTerm q.term, { mkRes (.vote v.term false) { v with role := .follower, leader := 0, leaderId := 0 } with panic := true })] := by
        unfold votePre; simp [hgt]
      have hv1 : (voteVol1 v q).term = q.term := by unfold voteVol1; simp [hgt, stepDown]
      by_cases c1 : RP.lastTerm full > q.lastTerm
      · simp only [c1, if_true] at hnp ⊢
        rcases failAt with _ | _ | k <;>
          (simp_all [exec, Plan.writes, applyAll, Write.apply, Write.failable, mkRes, RP.handleVote, absNode, stageOf] <;>
            (try simp only [if_neg (show ¬ q.term < d.curTerm by omega)]) <;> (try simp_all) <;> (try omega) <;>
              (try (split <;> (try simp_all) <;> (try omega) <;> (try (split <;> (try simp_all) <;> (try omega) <;>
                (try (split <;> (try simp_all) <;> (try omega))))))))
      · simp only [c1, if_false] at hnp ⊢
        by_cases c2 : RP.lastTerm full = q.lastTerm ∧ full.length > q.lastIdx
        · simp only [c2, and_self, if_true] at hnp ⊢
          rcases failAt with _ | _ | k <;>
            (simp_all [exec, Plan.writes, applyAll, Write.apply, Write.failable, mkRes, RP.handleVote, absNode, stageOf] <;>
            (try simp only [if_neg (show ¬ q.term < d.curTerm by omega)]) <;> (try simp_all) <;> (try omega) <;>
              (try (split <;> (try simp_all) <;> (try omega) <;> (try (split <;> (try simp_all) <;> (try omega) <;>
                (try (split <;> (try simp_all) <;> (try omega))))))))
        · simp only [c2, if_false] at hnp ⊢
          by_cases c3 : d.voteTerm = q.term ∧ d.voteCand.isSome
          · simp only [c3, and_self, if_true] at hnp ⊢
            rcases failAt with _ | _ | k <;>
              (simp_all [exec, Plan.writes, applyAll, Write.apply, Write.failable, mkRes, RP.handleVote, absNode, stageOf] <;>
              (try simp only [if_neg (show ¬ q.term < d.curTerm by omega)]) <;> (try simp_all) <;> (try omega) <;>
              (try (split <;> (try simp_all) <;> (try omega) <;> (try (split <;> (try simp_all) <;> (try omega) <;>
                (try (split <;> (try simp_all) <;> (try omega))))))))
          · simp only [c3, if_false] at hnp ⊢
            rcases failAt with _ | _ | _ | _ | k <;>
              (simp_all [exec, Plan.writes, applyAll, Write.apply, Write.failable, mkRes, RP.handleVote, absNode, stageOf] <;>
              (try simp only [if_neg (show ¬ q.term < d.curTerm by omega)]) <;> (try simp_all) <;> (try omega) <;>
              (try (split <;> (try simp_all) <;> (try omega) <;> (try (split <;> (try simp_all) <;> (try omega) <;>
                (try (split <;> (try simp_all) <;> (try omega))))))))
    · -- the server's own term: no term write
      have heq : q.term = d.curTerm := by omega
      have hpre : votePre v q = [] := by unfold votePre; simp [hgt]
      have hv1 : voteVol1 v q = v := by unfold voteVol1; simp [hgt]
      by_cases c1 : RP.lastTerm full > q.lastTerm
      · simp only [c1, if_true] at hnp ⊢
        rcases failAt with _ | _ | k <;>
          (simp_all [exec, Plan.writes, applyAll, Write.apply, Write.failable, mkRes, RP.handleVote, absNode, stageOf] <;>
              (try simp only [if_neg (show ¬ q.term < d.curTerm by omega)]) <;> (try simp_all) <;> (try omega) <;>
              (try (split <;> (try simp_all) <;> (try omega) <;> (try (split <;> (try simp_all) <;> (try omega) <;>
                (try (split <;> (try simp_all) <;> (try omega))))))))
      · simp only [c1, if_false] at hnp ⊢
        by_cases c2 : RP.lastTerm full = q.lastTerm ∧ full.length > q.lastIdx
        · simp only [c2, and_self, if_true] at hnp ⊢
          rcases failAt with _ | _ | k <;>
            (simp_all [exec, Plan.writes, applyAll, Write.apply, Write.failable, mkRes, RP.handleVote, absNode, stageOf] <;>
              (try simp only [if_neg (show ¬ q.term < d.curTerm by omega)]) <;> (try simp_all) <;> (try omega) <;>
              (try (split <;> (try simp_all) <;> (try omega) <;> (try (split <;> (try simp_all) <;> (try omega) <;>
                (try (split <;> (try simp_all) <;> (try omega))))))))
        · simp only [c2, if_false] at hnp ⊢
          by_cases c3 : d.voteTerm = q.term ∧ d.voteCand.isSome
          · simp only [c3, and_self, if_true] at hnp ⊢
            rcases failAt with _ | _ | k <;>
              (simp_all [exec, Plan.writes, applyAll, Write.apply, Write.failable, mkRes, RP.handleVote, absNode, stageOf] <;>
              (try simp only [if_neg (show ¬ q.term < d.curTerm by omega)]) <;> (try simp_all) <;> (try omega) <;>
              (try (split <;> (try simp_all) <;> (try omega) <;> (try (split <;> (try simp_all) <;> (try omega) <;>
                (try (split <;> (try simp_all) <;> (try omega))))))))
          · simp only [c3, if_false] at hnp ⊢
            rcases failAt with _ | _ | _ | k <;>
              (simp_all [exec, Plan.writes, applyAll, Write.apply, Write.failable, mkRes, RP.handleVote, absNode, stageOf] <;>
              (try simp only [if_neg (show ¬ q.term < d.curTerm by omega)]) <;> (try simp_all) <;> (try omega) <;>
              (try (split <;> (try simp_all) <;> (try omega) <;> (try (split <;> (try simp_all) <;> (try omega) <;>
                (try (split <;> (try simp_all) <;> (try omega))))))))

end SV

namespace SV

/-- a request refused by a guard the cluster model lacks changes nothing (a stutter step there:
    refusals are inert in `RP.apply`) — unless it carries a newer term and fails only the voter
    check, in which case the term is adopted first, as `RP.handleVote` does for a refusal too -/
theorem vote_refused_is_stutter (d : Durable) (v : Vol) (q : VoteReq) (failAt : Option Nat)
    (h : (q.candId ≠ 0 ∧ v.latest ≠ [] ∧ ¬ inConfiguration v.latest q.candId) ∨ (v.leader ≠ 0 ∧ v.leader ≠ q.cand ∧ ¬ q.transfer)) :
    exec (votePlan d v q) failAt none = (mkRes (.vote v.term false) v, []) := by
  unfold votePlan
  rcases h with h | h
  · rw [if_pos h]; cases failAt <;> simp [exec, Plan.writes]
  · by_cases h1 : q.candId ≠ 0 ∧ v.latest ≠ [] ∧ ¬ inConfiguration v.latest q.candId
    · rw [if_pos h1]; cases failAt <;> simp [exec, Plan.writes]
    · rw [if_neg h1, if_pos h]; cases failAt <;> simp [exec, Plan.writes]

/-- non-vacuity: a fresh vote whose second write fails is `stage = 1` of the cluster model (the
    half-written vote record of F1) -/
example :
    let d : Durable := ⟨3, 2, some 12, [], 0, 0, 0, []⟩
    let v : Vol := { emptyVol with term := 3 }
    let q : VoteReq := ⟨13, 0, 4, 0, 0, false⟩
    (exec (votePlan d v q) (some 2) none).1.resp = .vote 4 false ∧
    (applyAll d (exec (votePlan d v q) (some 2) none).2).voteTerm = 4 ∧
    (applyAll d (exec (votePlan d v q) (some 2) none).2).voteCand = some 12 ∧
    stageOf v q (some 2) = 1 := by decide

end SV

