import RaftVerif.Proofs.VoteTrace

/-!
# One pass of the candidate loop (C14, C01, C07)

`SV.campaign` is the model of `runCandidate` / `preElectSelf` / `electSelf` that the handlers engine
steps against the real loop (scripted peers, answers delivered in a fixed order).

* `campaign_no_quorum_inert` (C14): with pre-vote on and no leadership transfer pending, a candidate
  whose pre-vote round does not reach a quorum of grants — and sees no newer term — writes nothing
  and keeps its term.  `campaign_alone_inert`: in particular when nobody answers and it is not the
  only voter.  So a server that cannot reach a majority never raises its term, however often it
  campaigns.
* `campaign_leader_needs_quorum` (C01/C07): a pass ends in leadership only if the granted votes
  (its own only if it is a voter of its latest configuration) number at least the quorum of that
  configuration's voters; `campAsked_voters`: only voters are ever asked.
-/

namespace SV

theorem tally_open (needed limit g : Nat) (l : List (Nat × Bool))
    (hfew : g + l.countP (·.2) < needed) (hterms : ∀ a ∈ l, a.1 ≤ limit) :
    tally needed limit g l = .open := by
  induction l generalizing g with
  | nil => rfl
  | cons a rest ih =>
    unfold tally
    have ha := hterms a List.mem_cons_self
    rw [if_neg (by omega)]
    simp only []
    by_cases hg : a.2 = true
    · have hc : (a :: rest).countP (·.2) = rest.countP (·.2) + 1 := by simp [List.countP_cons, hg]
      rw [hc] at hfew
      simp only [hg, if_true]
      rw [if_neg (by omega)]
      exact ih (g + 1) (by omega) (fun x hx => hterms x (List.mem_cons_of_mem _ hx))
    · have hg' : a.2 = false := by simpa using hg
      have hc : (a :: rest).countP (·.2) = rest.countP (·.2) := by simp [List.countP_cons, hg']
      rw [hc] at hfew
      simp only [hg', Bool.false_eq_true, if_false]
      rw [if_neg (by omega)]
      exact ih g hfew (fun x hx => hterms x (List.mem_cons_of_mem _ hx))

theorem tally_won (needed limit g : Nat) (l : List (Nat × Bool)) (h : tally needed limit g l = .won) :
    needed ≤ g + l.countP (·.2) := by
  induction l generalizing g with
  | nil => simp [tally] at h
  | cons a rest ih =>
    unfold tally at h
    by_cases h1 : a.1 > limit
    · rw [if_pos h1] at h; cases h
    · rw [if_neg h1] at h
      simp only [] at h
      by_cases hg : a.2 = true
      · have hc : (a :: rest).countP (·.2) = rest.countP (·.2) + 1 := by simp [List.countP_cons, hg]
        simp only [hg, if_true] at h
        by_cases h2 : g + 1 ≥ needed
        · omega
        · rw [if_neg h2] at h
          have := ih (g + 1) h
          omega
      · have hg' : a.2 = false := by simpa using hg
        have hc : (a :: rest).countP (·.2) = rest.countP (·.2) := by simp [List.countP_cons, hg']
        simp only [hg', Bool.false_eq_true, if_false] at h
        by_cases h2 : g ≥ needed
        · omega
        · rw [if_neg h2] at h
          have := ih g h
          omega

/-- **C14, the candidate.**  Pre-vote on, no transfer pending: a pre-vote round that gathers fewer
    grants than the quorum and meets no newer term leaves the server exactly as it was (but for the
    transfer flag, reset at the end of every pass): no durable write, same term. -/
theorem campaign_no_quorum_inert (cf : Cfg) (v : Vol) (rs : List PeerResp)
    (hpv : cf.noPreVote = false) (htr : v.transfer = false)
    (hfew : (campSelf v ++ preVoteAnswers (v.term + 1) (campAsked v) rs).countP (·.2) < quorumOf v.latest)
    (hterms : ∀ a ∈ preVoteAnswers (v.term + 1) (campAsked v) rs, a.1 ≤ v.term + 1) :
    (campaign cf v rs).writes = [] ∧ (campaign cf v rs).final.vol = v := by
  unfold campaign
  rw [if_neg (by simp [hpv, htr])]
  have hopen := tally_open (quorumOf v.latest) (v.term + 1) 0
    (campSelf v ++ preVoteAnswers (v.term + 1) (campAsked v) rs) (by omega) (by
      intro a ha
      rcases List.mem_append.mp ha with ha | ha
      · unfold campSelf at ha
        split at ha
        · simp at ha; subst ha; exact Nat.le_refl _
        · cases ha
      · exact hterms a ha)
  rw [hopen]
  refine ⟨rfl, ?_⟩
  simp only [mkRes, campDone]
  cases v; simp_all

/-- nobody answers and the server is not the only voter: the pass changes nothing -/
theorem campaign_alone_inert (cf : Cfg) (v : Vol) (hpv : cf.noPreVote = false) (htr : v.transfer = false)
    (hq : 2 ≤ quorumOf v.latest) : (campaign cf v []).writes = [] ∧ (campaign cf v []).final.vol = v := by
  apply campaign_no_quorum_inert cf v [] hpv htr
  · have : preVoteAnswers (v.term + 1) (campAsked v) [] = [] := by
      unfold preVoteAnswers; simp
    rw [this]
    unfold campSelf
    split <;> simp <;> omega
  · intro a ha
    have : preVoteAnswers (v.term + 1) (campAsked v) [] = [] := by
      unfold preVoteAnswers; simp
    rw [this] at ha; cases ha

/-- **C01/C07, the candidate.**  A pass ends in leadership only with a quorum of granted votes, its
    own counted only if it is a voter of its latest configuration. -/
theorem campaign_leader_needs_quorum (cf : Cfg) (v : Vol) (rs : List PeerResp) (hrole : v.role ≠ .leader)
    (h : (campaign cf v rs).final.vol.role = .leader) :
    quorumOf v.latest ≤ (campSelf v ++ voteAnswers (v.term + 1) (campAsked v) rs).countP (·.2) := by
  have elect : ∀ pre, (campElect v rs pre).final.vol.role = .leader →
      quorumOf v.latest ≤ (campSelf v ++ voteAnswers (v.term + 1) (campAsked v) rs).countP (·.2) := by
    intro pre hl
    unfold campElect at hl
    simp only [] at hl
    cases ht : tally (quorumOf v.latest) (v.term + 1) 0 (campSelf v ++ voteAnswers (v.term + 1) (campAsked v) rs) with
    | won => have := tally_won _ _ _ _ ht; omega
    | «open» => rw [ht] at hl; simp [mkRes, campDone] at hl; exact absurd hl hrole
    | higher t => rw [ht] at hl; simp [mkRes, campDone, stepDown] at hl
  unfold campaign at h
  split at h
  · exact elect _ h
  · cases ht : tally (quorumOf v.latest) (v.term + 1) 0 (campSelf v ++ preVoteAnswers (v.term + 1) (campAsked v) rs) with
    | won => rw [ht] at h; exact elect _ h
    | «open» => rw [ht] at h; simp [mkRes, campDone] at h; exact absurd h hrole
    | higher t => rw [ht] at h; simp [mkRes, campDone, stepDown] at h

/-- only voters of the latest configuration (other than the server itself) are ever asked -/
theorem campAsked_voters (v : Vol) (id : Nat) (h : id ∈ campAsked v) :
    id ≠ selfId ∧ ∃ s ∈ v.latest, s.id = id ∧ s.suffrage = .voter := by
  unfold campAsked votersToAsk at h
  rw [List.mem_mergeSort] at h
  obtain ⟨s, hs, rfl⟩ := List.mem_map.mp h
  have := List.mem_filter.mp hs
  simp only [decide_eq_true_eq] at this
  exact ⟨this.2.2, s, this.1, rfl, this.2.1⟩

/-- the candidate's own vote is counted only if it is a voter -/
theorem campSelf_voter (v : Vol) (h : campSelf v ≠ []) : hasVote v.latest selfId = true := by
  unfold campSelf at h
  split at h
  · assumption
  · exact absurd rfl h

end SV
