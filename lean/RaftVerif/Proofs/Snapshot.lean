import RaftVerif.Model.Server

/-!
# takeSnapshot in the stepped model (C11)

`snap_writes`: whatever the server state, a local snapshot writes at most a snapshot and one log
deletion; the snapshot ends at the FSM goroutine's position, carries the *committed* configuration
(whose entry is at or below that position) and the FSM's content; the deletion starts at the
store's first index, ends at or below the snapshot, and leaves at least `TrailingLogs` entries
below the last index.  `snap_position_monotone`: the cached snapshot position never moves back.
-/

namespace SV

theorem snap_writes (cf : Cfg) (d : Durable) (v : Vol) (fpos : Nat × Nat) (fdata : List Nat) :
    (snapPlan cf d v fpos fdata).writes = [] ∨
    ∃ s : Snap, s.idx = fpos.1 ∧ s.term = fpos.2 ∧ s.cfg = v.committed ∧ s.cfgIdx = v.committedIdx ∧
      s.cfgIdx ≤ s.idx ∧ s.data = fdata ∧ 0 < s.idx ∧
      ((snapPlan cf d v fpos fdata).writes = [.snapSave s] ∨
       ∃ lo hi, (snapPlan cf d v fpos fdata).writes = [.snapSave s, .deleteRange lo hi] ∧
         lo = d.low ∧ lo ≤ hi ∧ hi ≤ s.idx ∧ cf.trailing ≤ v.lastLogIdx - hi ∧ hi ≤ v.lastLogIdx) := by
  unfold snapPlan
  by_cases h0 : fpos.1 = 0
  · left; rw [if_pos h0]; rfl
  · rw [if_neg h0]
    by_cases h1 : fpos.1 < v.committedIdx
    · left; rw [if_pos h1]; rfl
    · rw [if_neg h1]
      right
      refine ⟨⟨fpos.1, fpos.2, v.committedIdx, v.committed, fdata, true⟩, rfl, rfl, rfl, rfl, by simp; omega, rfl,
        by simp; omega, ?_⟩
      simp only []
      cases hc : CP.compactRange fpos.1 v.lastLogIdx cf.trailing d.low with
      | none => left; rfl
      | some r =>
        obtain ⟨lo, hi⟩ := r
        right
        obtain ⟨a, b, c, e, f⟩ := CP.compactRange_spec _ _ _ _ _ _ hc
        exact ⟨lo, hi, rfl, a, b, c, e, f⟩

theorem snap_position_monotone (cf : Cfg) (d : Durable) (v : Vol) (fpos : Nat × Nat) (fdata : List Nat) :
    v.snapIdx ≤ (snapPlan cf d v fpos fdata).final.vol.snapIdx ∧
    (∀ s ∈ (snapPlan cf d v fpos fdata).steps, v.snapIdx ≤ s.2.vol.snapIdx) := by
  unfold snapPlan
  have hv1 : v.snapIdx ≤ (if fpos.1 > v.snapIdx then { v with snapIdx := fpos.1, snapTerm := fpos.2 } else v).snapIdx := by
    split
    · simp only []; omega
    · exact Nat.le_refl _
  split
  · exact ⟨Nat.le_refl _, by simp⟩
  · split
    · exact ⟨Nat.le_refl _, by simp⟩
    · simp only []
      split
      · refine ⟨hv1, ?_⟩
        intro s hs
        simp only [List.mem_cons, List.mem_nil_iff, or_false] at hs
        subst hs; exact Nat.le_refl _
      · refine ⟨hv1, ?_⟩
        intro s hs
        simp only [List.mem_cons, List.mem_nil_iff, or_false] at hs
        rcases hs with hs | hs
        · subst hs; exact Nat.le_refl _
        · subst hs; exact hv1

end SV

namespace SV

/-! ## requests of an older term change nothing (C18: the leader a follower names; C06) -/

/-- a RequestVote of an older term: no write, the state untouched, refused with the server's term -/
theorem stale_vote_inert (d : Durable) (v : Vol) (q : VoteReq) (h : q.term < v.term) :
    (votePlan d v q).steps = [] ∧ (votePlan d v q).final = mkRes (.vote v.term false) v := by
  unfold votePlan
  simp only []
  split
  · exact ⟨rfl, rfl⟩
  · split
    · exact ⟨rfl, rfl⟩
    · exact ⟨rfl, rfl⟩

/-- an InstallSnapshot of an older term: no write, the state untouched (in particular the leader the
    server names), refused with the server's term -/
theorem stale_install_inert (cf : Cfg) (d : Durable) (v : Vol) (q : ISReq) (h : q.term < v.term) :
    (isPlan cf d v q).steps = [] ∧ (isPlan cf d v q).final = mkRes (.install v.term false false) v := by
  unfold isPlan
  rw [if_pos h]
  exact ⟨rfl, rfl⟩

/-- an AppendEntries of an older term likewise -/
theorem stale_append_inert (cf : Cfg) (d : Durable) (v : Vol) (a : AEReq) (h : a.term < v.term) :
    (aePlan cf d v a).steps = [] ∧ (aePlan cf d v a).final.vol = v := by
  unfold aePlan
  rw [if_pos h]
  exact ⟨rfl, rfl⟩

end SV
