import RaftVerif.Proofs.Replicate
import RaftVerif.Proofs.RunInv
/-! # Pipelined replication: the credited index is held by the follower that acknowledged it (C05)
Combines `pipelineRun_inv`, `ack_means_held` and `step_sorted`. -/
namespace SV

theorem replSetup_entries_sorted (cf : Cfg) (d : Durable) (v : Vol) (next last : Nat) (a : AEReq)
    (h : replSetup cf d v next last = some a) : Sorted a.entries := by
  unfold replSetup at h
  cases hp : replPrev d v next with
  | none => simp [hp] at h
  | some p =>
    simp only [hp] at h
    cases he : replEntries cf d next last with
    | none => simp [he] at h
    | some es =>
      simp only [he, Option.some.injEq] at h
      subst h
      exact contig_sorted next es (readRange_spec d.log _ next es he).2.1

/-- the credit of a pipelined run, with the follower it was given by: the follower's state before
    the acknowledged delivery, whose log is well-formed -/
structure PipeHeld (cf : Cfg) (d : Durable) (v : Vol) (p : Pipe) : Prop where
  inv : PipeInv cf d v p
  sortedF : Sorted p.f.d.log
  credit : p.s.matched = 0 ∨ ∃ (w : World) (a : AEReq) (fl cr : Option Nat) (e : Entry) (t l : Nat) (n : Bool),
      Sorted w.d.log ∧ Sorted a.entries ∧ a.entries.getLast? = some e ∧ e.index = p.s.matched ∧
      answerOf (stepEvent w (.append a fl cr)).2 = some (.append t l true n)

theorem pipeSend_held (cf : Cfg) (d : Durable) (v : Vol) (fuel : Nat) (p : Pipe) (h : PipeHeld cf d v p) :
    PipeHeld cf d v (pipeSend cf d v fuel p) := by
  refine ⟨pipeSend_inv cf d v fuel p h.inv, ?_, ?_⟩
  · unfold pipeSend; split
    · exact h.sortedF
    · split
      · exact h.sortedF
      · split <;> exact h.sortedF
  · unfold pipeSend; split
    · exact h.credit
    · split
      · exact h.credit
      · split <;> exact h.credit

theorem pipeDecode_f (p : Pipe) (a : AEReq) (r : Option Resp) : (pipeDecode p a r).f = p.f := by
  unfold pipeDecode
  split <;> (repeat' split) <;> rfl

theorem pipeDeliver_held (cf : Cfg) (d : Durable) (v : Vol) (p : Pipe) (h : PipeHeld cf d v p) :
    PipeHeld cf d v (pipeDeliver p) := by
  refine ⟨pipeDeliver_inv cf d v p h.inv, ?_, ?_⟩
  · unfold pipeDeliver
    cases hf : p.flight with
    | nil => exact h.sortedF
    | cons a rest =>
      simp only
      split
      · exact h.sortedF
      · rw [pipeDecode_f]
        exact step_sorted p.f _ h.sortedF
  · unfold pipeDeliver
    cases hf : p.flight with
    | nil => exact h.credit
    | cons a rest =>
      obtain ⟨nx, hnx⟩ := h.inv.flight a (by rw [hf]; exact List.mem_cons_self)
      simp only
      split
      · exact h.credit
      · generalize hr : stepEvent p.f (Event.append a (p.faults.headD (none, none)).1 (p.faults.headD (none, none)).2) = r
        let q : Pipe := { p with flight := rest, f := r.1, trace := p.trace ++ [(.ae a, r.2)], faults := p.faults.tail }
        show (pipeDecode q a (answerOf r.2)).s.matched = 0 ∨ _
        by_cases hsame : (pipeDecode q a (answerOf r.2)).s = q.s
        · rw [hsame]; exact h.credit
        · obtain ⟨_, t, l, n, e, hans, _, hlast, hs⟩ := pipeDecode_credit q a (answerOf r.2) hsame
          rw [hs]
          simp only
          by_cases hm : q.s.matched ≤ e.index
          · right
            refine ⟨p.f, a, (p.faults.headD (none, none)).1, (p.faults.headD (none, none)).2, e, t, l, n, h.sortedF, replSetup_entries_sorted cf d v nx _ a hnx, hlast, ?_, ?_⟩
            · show e.index = max p.s.matched e.index
              have : q.s.matched = p.s.matched := rfl
              omega
            · rw [hr]; exact hans
          · rcases h.credit with hc | hc
            · have : q.s.matched = p.s.matched := rfl
              omega
            · rw [show max q.s.matched e.index = p.s.matched from by
                have : q.s.matched = p.s.matched := rfl
                omega]
              exact Or.inr hc

theorem pipeDrain_held (cf : Cfg) (d : Durable) (v : Vol) (n : Nat) (p : Pipe) (h : PipeHeld cf d v p) :
    PipeHeld cf d v (pipeDrain n p) := by
  induction n generalizing p with
  | zero => exact h
  | succ n ih =>
    unfold pipeDrain
    split
    · exact h
    · exact ih _ (pipeDeliver_held cf d v p h)

theorem pipelineRun_held (cf : Cfg) (d : Durable) (v : Vol) (fuel : Nat) (faults : List Fault) (f : World)
    (next : Nat) (ops : List POp) (hsf : Sorted f.d.log) :
    PipeHeld cf d v (pipelineRun cf d v fuel faults f next ops) := by
  unfold pipelineRun
  apply pipeDrain_held
  have h0 : PipeHeld cf d v ⟨⟨next, 0, 0, false⟩, next, [], true, false, false, 0, f, [], faults⟩ :=
    ⟨⟨fun a ha => absurd ha (by simp), fun x hx => absurd hx (by simp), Or.inl rfl⟩, hsf, Or.inl rfl⟩
  generalize (⟨⟨next, 0, 0, false⟩, next, [], true, false, false, 0, f, [], faults⟩ : Pipe) = p0 at h0
  induction ops generalizing p0 with
  | nil => exact h0
  | cons op ops ih =>
    apply ih
    cases op with
    | send => exact pipeSend_held cf d v fuel p0 h0
    | deliver => exact pipeDeliver_held cf d v p0 h0

/-- **C05, pipelined mode, closed inside the model.**  Whatever the order of sends and deliveries and
    whatever fails on the follower: the index a pipelined run ends up crediting the follower with is
    the last entry of a request which that follower, in a state with a well-formed log, acknowledged
    — and which it therefore durably held, above its snapshot, in the request's term. -/
theorem pipelineRun_credit_is_held (cf : Cfg) (d : Durable) (v : Vol) (fuel : Nat) (faults : List Fault) (f : World)
    (next : Nat) (ops : List POp) (hsf : Sorted f.d.log)
    (hm : (pipelineRun cf d v fuel faults f next ops).s.matched ≠ 0) :
    ∃ (w : World) (a : AEReq) (fl cr : Option Nat) (e : Entry),
      a.entries.getLast? = some e ∧ e.index = (pipelineRun cf d v fuel faults f next ops).s.matched ∧
      ((aeVol2 w.v a).snapIdx < e.index →
        ∃ e', getLog (stepEvent w (.append a fl cr)).1.d.log e.index = some e' ∧ e'.term = e.term) := by
  rcases (pipelineRun_held cf d v fuel faults f next ops hsf).credit with hc | ⟨w, a, fl, cr, e, t, l, n, hsw, hsa, hlast, hidx, hans⟩
  · exact absurd hc hm
  · refine ⟨w, a, fl, cr, e, hlast, hidx, fun hsn => ?_⟩
    have hmem : e ∈ a.entries := List.mem_of_getLast? hlast
    exact ack_means_held w a fl cr t l n hsw hsa hans e hmem hsn

end SV
