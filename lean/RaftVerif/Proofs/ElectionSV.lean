import RaftVerif.Proofs.VoteTrace
import RaftVerif.Model.Overlap

/-!
# Election safety from the stepped servers (C01)

A cluster of servers, each an arbitrary run of the stepped model `SV` (any durable image at start,
any sequence of messages, snapshots, role changes and restarts, write failures and crashes at any
ordinal).  If two candidates each hold granted answers for the same term from a quorum — the
quorums taken in one voter configuration, or in two configurations that differ by one voter, which
is all a leader can reach by the membership gate — then they are the same candidate.

The per-server ingredient is `run_one_vote_per_term`; the counting ingredient is the quorum
overlap of `Model/Overlap.lean`.  What is *not* in the stepped model is the candidate's own tally
(`electSelf`): the theorem speaks about the grants the servers actually reported.
-/

namespace SV

theorem pairwise_agree (l : List (Nat × Nat)) (hp : l.Pairwise (fun a b => a.1 = b.1 → a.2 = b.2)) :
    ∀ a ∈ l, ∀ b ∈ l, a.1 = b.1 → a.2 = b.2 := by
  induction hp with
  | nil => intro a ha; cases ha
  | @cons x l hx _ ih =>
    intro a ha b hb hab
    rcases List.mem_cons.mp ha with ha' | ha'
    · rcases List.mem_cons.mp hb with hb' | hb'
      · rw [ha', hb']
      · rw [ha'] at hab ⊢; exact hx b hb' hab
    · rcases List.mem_cons.mp hb with hb' | hb'
      · rw [hb'] at hab ⊢; exact (hx a ha' hab.symm).symm
      · exact ih a ha' b hb' hab

/-- all grants of one run agree per term -/
theorem grants_agree (w : World) (es : List Event) (hs : Synced w) :
    ∀ a ∈ grants w es, ∀ b ∈ grants w es, a.1 = b.1 → a.2 = b.2 :=
  pairwise_agree _ (one_vote_per_term w es hs)

/-- **C01 from the stepped servers.**  `run i` is server `i`'s start image and event sequence.  Two
    candidates `c1`, `c2` with granted answers of term `t` from quorums `Q1` of configuration `C1` and
    `Q2` of configuration `C2`, the configurations equal or one voter apart: `c1 = c2`. -/
theorem election_safety_sv (cf : Nat → Cfg) (d : Nat → Durable) (es : Nat → List Event)
    (t c1 c2 : Nat) (C1 C2 Q1 Q2 : Finset Nat) (hadj : OV.Adjacent C1 C2)
    (hq1 : OV.IsQuorum C1 Q1) (hq2 : OV.IsQuorum C2 Q2)
    (h1 : ∀ i ∈ Q1, (t, c1) ∈ grants (boot (cf i) (d i)).1 (es i))
    (h2 : ∀ i ∈ Q2, (t, c2) ∈ grants (boot (cf i) (d i)).1 (es i)) : c1 = c2 := by
  obtain ⟨i, hi1, hi2⟩ := OV.adjacent_config_majorities_intersect C1 C2 Q1 Q2 hadj hq1 hq2
  exact grants_agree _ (es i) (boot_synced (cf i) (d i)).1 (t, c1) (h1 i hi1) (t, c2) (h2 i hi2) rfl

end SV
