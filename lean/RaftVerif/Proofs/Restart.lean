import RaftVerif.Model.Server

/-!
# `NewRaft` on a durable image (C10): what a restarted server resumes with

Theorems about `SV.restart`, the model of `NewRaft` that the H2 engines step against the real
constructor after every crash ordinal and every `restart` / `damagedRestart` event.

* `restart_resumes`      term, role and cached last entry are the durable ones;
* `restart_fsm`          the FSM is rebuilt from the newest *usable* snapshot, then (commit-tracking
                         stores with RestoreCommittedLogs) handed exactly the command entries above it up
                         to `min(staged, last)`, each once, in increasing order, none skipped;
* `restart_returns`      `NewRaft` returns whenever the log is contiguous above the usable snapshot
                         and snapshots, if listed, include a usable one;
* `damaged_falls_back`   damaging the newest usable snapshot makes the next one the usable one.
-/

namespace SV

/-- the fields configuration processing does not touch -/
def sameButConfig (a b : Vol) : Prop :=
  a.term = b.term ∧ a.role = b.role ∧ a.lastLogIdx = b.lastLogIdx ∧ a.lastLogTerm = b.lastLogTerm ∧
  a.snapIdx = b.snapIdx ∧ a.snapTerm = b.snapTerm ∧ a.commit = b.commit ∧ a.applied = b.applied ∧
  a.leader = b.leader ∧ a.leaderId = b.leaderId ∧ a.transfer = b.transfer

theorem processConfigEntries_frame (v : Vol) (es : List Entry) :
    sameButConfig (processConfigEntries v es) v := by
  induction es generalizing v with
  | nil => simp [processConfigEntries, sameButConfig]
  | cons e rest ih =>
    unfold processConfigEntries
    split
    · have := ih { v with committed := v.latest, committedIdx := v.latestIdx, latest := e.cfg, latestIdx := e.index }
      simpa [sameButConfig] using this
    · exact ih v

theorem scanConfigs_frame (log : List Entry) (n start : Nat) (v v' : Vol)
    (h : scanConfigs log n start v = some v') : sameButConfig v' v := by
  induction n generalizing start v with
  | zero => simp [scanConfigs] at h; subst h; simp [sameButConfig]
  | succ n ih =>
    unfold scanConfigs at h
    split at h
    · cases h
    · rename_i e _
      have h1 := ih _ _ h
      have h2 := processConfigEntries_frame v [e]
      obtain ⟨a1, a2, a3, a4, a5, a6, a7, a8, a9, a10, a11⟩ := h1
      obtain ⟨b1, b2, b3, b4, b5, b6, b7, b8, b9, b10, b11⟩ := h2
      exact ⟨a1.trans b1, a2.trans b2, a3.trans b3, a4.trans b4, a5.trans b5, a6.trans b6, a7.trans b7,
             a8.trans b8, a9.trans b9, a10.trans b10, a11.trans b11⟩

theorem sameButConfig_trans {a b c : Vol} (h1 : sameButConfig a b) (h2 : sameButConfig b c) : sameButConfig a c := by
  obtain ⟨a1, a2, a3, a4, a5, a6, a7, a8, a9, a10, a11⟩ := h1
  obtain ⟨b1, b2, b3, b4, b5, b6, b7, b8, b9, b10, b11⟩ := h2
  exact ⟨a1.trans b1, a2.trans b2, a3.trans b3, a4.trans b4, a5.trans b5, a6.trans b6, a7.trans b7,
         a8.trans b8, a9.trans b9, a10.trans b10, a11.trans b11⟩

theorem restartCommitCfg_frame (v : Vol) : sameButConfig (restartCommitCfg v) v := by
  unfold restartCommitCfg sameButConfig
  split <;> simp

theorem getLog_index {l : List Entry} {i : Nat} {e : Entry} (h : getLog l i = some e) : e.index = i := by
  unfold getLog at h
  have := List.find?_some h
  simpa using this

def callIdx : FsmCall → Nat
  | .apply i _ _ => i
  | .restore _ => 0

/-- what `processLogsFrom` hands to the FSM: exactly the command entries of the index range, each
    once, in increasing index order; and every index of the range is present in the store -/
theorem processLogsFrom_spec (log : List Entry) (n start : Nat) (calls : List FsmCall)
    (h : processLogsFrom log n start = some calls) :
    (∀ c ∈ calls, ∃ e, getLog log e.index = some e ∧ e.kind = 0 ∧ c = .apply e.index e.term e.data ∧
        start ≤ e.index ∧ e.index < start + n) ∧
    calls.Pairwise (fun a b => callIdx a < callIdx b) ∧
    (∀ i e, start ≤ i → i < start + n → getLog log i = some e → e.kind = 0 →
        FsmCall.apply e.index e.term e.data ∈ calls) ∧
    (∀ i, start ≤ i → i < start + n → getLog log i ≠ none) := by
  induction n generalizing start calls with
  | zero =>
    simp [processLogsFrom] at h; subst h
    refine ⟨by simp, by simp, ?_, ?_⟩ <;> intros <;> omega
  | succ n ih =>
    unfold processLogsFrom at h
    split at h
    · cases h
    · rename_i e he
      split at h
      · cases h
      · rename_i rest hr
        have hi := getLog_index he
        obtain ⟨i1, i2, i3, i4⟩ := ih (start + 1) rest hr
        have hrest : ∀ c ∈ rest, start < callIdx c := by
          intro c hc
          obtain ⟨e', _, _, hc', hlo, _⟩ := i1 c hc
          subst hc'; simp [callIdx]; omega
        injection h with h
        by_cases hk : e.kind = 0
        · rw [if_pos hk] at h; subst h
          refine ⟨?_, ?_, ?_, ?_⟩
          · intro c hc
            rcases List.mem_cons.mp hc with hc | hc
            · exact ⟨e, by rw [hi]; exact he, hk, hc, by omega, by omega⟩
            · obtain ⟨e', g1, g2, g3, g4, g5⟩ := i1 c hc
              exact ⟨e', g1, g2, g3, by omega, by omega⟩
          · refine List.pairwise_cons.mpr ⟨?_, i2⟩
            intro c hc
            have := hrest c hc
            show e.index < callIdx c
            omega
          · intro i e' h1 h2 h3 h4
            by_cases hs : i = start
            · subst hs
              rw [he] at h3; injection h3 with h3; subst h3
              exact List.mem_cons_self
            · exact List.mem_cons_of_mem _ (i3 i e' (by omega) (by omega) h3 h4)
          · intro i h1 h2
            by_cases hs : i = start
            · subst hs; rw [he]; simp
            · exact i4 i (by omega) (by omega)
        · rw [if_neg hk] at h; subst h
          refine ⟨?_, i2, ?_, ?_⟩
          · intro c hc
            obtain ⟨e', g1, g2, g3, g4, g5⟩ := i1 c hc
            exact ⟨e', g1, g2, g3, by omega, by omega⟩
          · intro i e' h1 h2 h3 h4
            by_cases hs : i = start
            · subst hs
              rw [he] at h3; injection h3 with h3; subst h3
              exact absurd h4 hk
            · exact i3 i e' (by omega) (by omega) h3 h4
          · intro i h1 h2
            by_cases hs : i = start
            · subst hs; rw [he]; simp
            · exact i4 i (by omega) (by omega)

/-- the index the restarted server's FSM starts from: the newest usable snapshot's, or 0 -/
def restartBase (d : Durable) : Nat := ((usableSnap d).map (·.idx)).getD 0

/-- what the FSM is handed first: the newest usable snapshot's content, if there is one -/
def restartRestore (d : Durable) : List FsmCall :=
  match usableSnap d with
  | some s => [.restore s.data]
  | none => []

theorem restartSnap_spec (d : Durable) (v0 : Vol) :
    (restartSnap d v0).2 = restartRestore d ∧
    (restartSnap d v0).1.term = v0.term ∧ (restartSnap d v0).1.role = v0.role ∧
    (restartSnap d v0).1.lastLogIdx = v0.lastLogIdx ∧ (restartSnap d v0).1.lastLogTerm = v0.lastLogTerm ∧
    (restartSnap d v0).1.commit = v0.commit ∧
    (v0.applied = 0 → v0.snapIdx = 0 → v0.snapTerm = 0 →
      (restartSnap d v0).1.applied = restartBase d ∧ (restartSnap d v0).1.snapIdx = restartBase d ∧
      (restartSnap d v0).1.snapTerm = ((usableSnap d).map (·.term)).getD 0) := by
  unfold restartSnap restartRestore restartBase
  cases usableSnap d <;> simp_all

/-- **C10, resumption.**  Whenever `NewRaft` returns a server: its term is the durable term, it is a
    follower, its cached last entry is the store's last entry, its snapshot position is the newest
    usable snapshot's. -/
theorem restart_resumes (cf : Cfg) (d : Durable) (v : Vol) (calls : List FsmCall)
    (h : restart cf d = some (v, calls)) :
    v.term = d.curTerm ∧ v.role = .follower ∧
    (d.high = 0 → v.lastLogIdx = 0 ∧ v.lastLogTerm = 0) ∧
    (d.high ≠ 0 → ∃ e, getLog d.log d.high = some e ∧ v.lastLogIdx = d.high ∧ v.lastLogTerm = e.term) ∧
    (d.snaps ≠ [] → (usableSnap d).isSome) ∧
    v.snapIdx = restartBase d ∧ v.snapTerm = ((usableSnap d).map (·.term)).getD 0 := by
  unfold restart at h
  split at h
  · cases h
  · rename_i hsn
    split at h
    · cases h
    · rename_i li lt hl
      simp only [] at h
      split at h
      · cases h
      · rename_i v2 calls2 hc
        split at h
        · cases h
        · rename_i v3 hs
          injection h with h; injection h with h1 h2; subst h1; subst h2
          have fr := sameButConfig_trans (restartCommitCfg_frame v3) (scanConfigs_frame _ _ _ _ _ hs)
          obtain ⟨f1, f2, f3, f4, f5, f6, f7, f8, _, _, _⟩ := fr
          have sp := restartSnap_spec d { emptyVol with term := d.curTerm, lastLogIdx := li, lastLogTerm := lt }
          obtain ⟨s0, s1, s2, s3, s4, s5, s6⟩ := sp
          obtain ⟨s6a, s6b, s6c⟩ := s6 rfl rfl rfl
          -- v2 against the snapshot stage
          have hv2 : v2.term = d.curTerm ∧ v2.role = .follower ∧ v2.lastLogIdx = li ∧ v2.lastLogTerm = lt ∧
              v2.snapIdx = restartBase d ∧ v2.snapTerm = ((usableSnap d).map (·.term)).getD 0 := by
            unfold restartCommitted at hc
            split at hc
            · simp only [] at hc
              split at hc
              · cases hc
              · injection hc with hc; injection hc with hc1 hc2; subst hc1
                simp_all [emptyVol]
            · injection hc with hc; injection hc with hc1 hc2; subst hc1
              simp_all [emptyVol]
          obtain ⟨g1, g2, g3, g4, g5, g6⟩ := hv2
          refine ⟨f1.trans g1, f2.trans g2, ?_, ?_, ?_, f5.trans g5, f6.trans g6⟩
          · intro h0
            unfold restartLast at hl
            rw [if_pos h0] at hl
            injection hl with hl; injection hl with hl1 hl2
            exact ⟨by rw [f3, g3, ← hl1], by rw [f4, g4, ← hl2]⟩
          · intro h0
            unfold restartLast at hl
            rw [if_neg h0] at hl
            split at hl
            · cases hl
            · rename_i e he
              injection hl with hl; injection hl with hl1 hl2
              have hi := getLog_index he
              exact ⟨e, he, by rw [f3, g3, ← hl1, hi], by rw [f4, g4, ← hl2]⟩
          · intro hne
            cases hu : usableSnap d with
            | some _ => simp
            | none =>
              have : d.snaps.isEmpty = false := by
                cases hd : d.snaps with
                | nil => exact absurd hd hne
                | cons _ _ => simp
              simp [this, hu] at hsn

/-- **C10, the FSM after a restart.**  The FSM is first handed the newest usable snapshot (if any);
    after that exactly the command entries above it, up to the new `lastApplied`, each once, in
    increasing index order, none skipped.  Without RestoreCommittedLogs nothing is replayed and
    `lastApplied` is the snapshot's index; with it, `lastApplied` is `max(snapshot, min(staged, last))`
    and the commit index is `min(staged, last)`. -/
theorem restart_fsm (cf : Cfg) (d : Durable) (v : Vol) (calls : List FsmCall)
    (h : restart cf d = some (v, calls)) :
    ∃ rest, calls = restartRestore d ++ rest ∧
      (∀ c ∈ rest, ∃ e, getLog d.log e.index = some e ∧ e.kind = 0 ∧ c = .apply e.index e.term e.data ∧
          restartBase d < e.index ∧ e.index ≤ v.applied) ∧
      rest.Pairwise (fun a b => callIdx a < callIdx b) ∧
      (∀ i e, restartBase d < i → i ≤ v.applied → getLog d.log i = some e → e.kind = 0 →
          FsmCall.apply e.index e.term e.data ∈ rest) ∧
      (cf.restoreCommitted = false → v.applied = restartBase d ∧ rest = [] ∧ v.commit = 0) ∧
      (cf.restoreCommitted = true → v.commit = min d.staged d.high ∧
          v.applied = max (restartBase d) (min d.staged d.high)) := by
  unfold restart at h
  split at h
  · cases h
  · split at h
    · cases h
    · rename_i li lt hl
      simp only [] at h
      split at h
      · cases h
      · rename_i v2 calls2 hc
        split at h
        · cases h
        · rename_i v3 hs
          injection h with h; injection h with h1 h2; subst h1; subst h2
          obtain ⟨_, _, _, _, _, _, f7, f8, _, _, _⟩ :=
            sameButConfig_trans (restartCommitCfg_frame v3) (scanConfigs_frame _ _ _ _ _ hs)
          obtain ⟨s0, _, _, _, _, s5, s6⟩ :=
            restartSnap_spec d { emptyVol with term := d.curTerm, lastLogIdx := li, lastLogTerm := lt }
          obtain ⟨s6a, _, _⟩ := s6 rfl rfl rfl
          unfold restartCommitted at hc
          by_cases hrc : cf.restoreCommitted = true
          · rw [if_pos hrc] at hc
            simp only [] at hc
            split at hc
            · cases hc
            · rename_i pcalls hp
              injection hc with hc; injection hc with hc1 hc2; subst hc1; subst hc2
              rw [s6a] at hp
              refine ⟨pcalls, by rw [s0], ?_⟩
              have hcommit : (restartCommitCfg v3).commit = min d.staged d.high := by rw [f7]
              have happlied : (restartCommitCfg v3).applied = max (restartBase d) (min d.staged d.high) := by
                rw [f8]; simp only [s6a]
                split <;> omega
              unfold processLogs at hp
              by_cases hle : min d.staged d.high ≤ restartBase d
              · rw [if_pos hle] at hp; injection hp with hp; subst hp
                refine ⟨by simp, by simp, ?_, by simp [hrc], fun _ => ⟨hcommit, happlied⟩⟩
                intro i e h1 h2; omega
              · rw [if_neg hle] at hp
                obtain ⟨p1, p2, p3, _⟩ := processLogsFrom_spec _ _ _ _ hp
                refine ⟨?_, p2, ?_, by simp [hrc], fun _ => ⟨hcommit, happlied⟩⟩
                · intro c hc
                  obtain ⟨e, g1, g2, g3, g4, g5⟩ := p1 c hc
                  exact ⟨e, g1, g2, g3, by omega, by omega⟩
                · intro i e h1 h2 h3 h4
                  exact p3 i e (by omega) (by omega) h3 h4
          · rw [if_neg hrc] at hc
            injection hc with hc; injection hc with hc1 hc2; subst hc1; subst hc2
            have hrc' : cf.restoreCommitted = false := by simpa using hrc
            refine ⟨[], by rw [s0]; simp, by simp, by simp, ?_, ?_, by simp [hrc']⟩
            · intro i e h1 h2
              have : (restartCommitCfg v3).applied = restartBase d := by rw [f8, s6a]
              omega
            · intro _
              refine ⟨by rw [f8, s6a], rfl, ?_⟩
              rw [f7, s5]; rfl

theorem scanConfigs_some (log : List Entry) (n start : Nat) (v : Vol)
    (h : ∀ i, start ≤ i → i < start + n → getLog log i ≠ none) :
    (scanConfigs log n start v).isSome := by
  induction n generalizing start v with
  | zero => simp [scanConfigs]
  | succ n ih =>
    unfold scanConfigs
    cases hg : getLog log start with
    | none => exact absurd hg (h start (by omega) (by omega))
    | some e => exact ih _ _ (fun i h1 h2 => h i (by omega) (by omega))

theorem processLogsFrom_some (log : List Entry) (n start : Nat)
    (h : ∀ i, start ≤ i → i < start + n → getLog log i ≠ none) :
    (processLogsFrom log n start).isSome := by
  induction n generalizing start with
  | zero => simp [processLogsFrom]
  | succ n ih =>
    unfold processLogsFrom
    cases hg : getLog log start with
    | none => exact absurd hg (h start (by omega) (by omega))
    | some e =>
      have := ih (start + 1) (fun i h1 h2 => h i (by omega) (by omega))
      cases hp : processLogsFrom log n (start + 1) with
      | none => simp [hp] at this
      | some r => simp

/-- **C10, `NewRaft` returns.**  If the snapshot store lists no snapshot or a usable one, the store
    holds the entry its last index names, and the log holds every index from just above that
    snapshot up to its last index, the constructor returns a server. -/
theorem restart_returns (cf : Cfg) (d : Durable)
    (hs : d.snaps = [] ∨ (usableSnap d).isSome)
    (hh : d.high ≠ 0 → getLog d.log d.high ≠ none)
    (hl : ∀ i, restartBase d < i → i ≤ d.high → getLog d.log i ≠ none) :
    (restart cf d).isSome := by
  unfold restart
  have h1 : (!d.snaps.isEmpty && (usableSnap d).isNone) = false := by
    rcases hs with hs | hs
    · simp [hs]
    · cases hu : usableSnap d with
      | none => simp [hu] at hs
      | some _ => simp
  rw [h1]
  simp only [Bool.false_eq_true, if_false]
  -- the last entry
  have hlast : ∃ lt, restartLast d = some (d.high, lt) := by
    unfold restartLast
    by_cases h0 : d.high = 0
    · exact ⟨0, by rw [if_pos h0, h0]⟩
    · rw [if_neg h0]
      cases hg : getLog d.log d.high with
      | none => exact absurd hg (hh h0)
      | some e => exact ⟨e.term, by simp only []; rw [getLog_index hg]⟩
  obtain ⟨lt, hlast⟩ := hlast
  rw [hlast]
  simp only []
  obtain ⟨s0, _, _, _, _, _, s6⟩ :=
    restartSnap_spec d { emptyVol with term := d.curTerm, lastLogIdx := d.high, lastLogTerm := lt }
  obtain ⟨s6a, s6b, _⟩ := s6 rfl rfl rfl
  -- the replay stage
  have hrc : ∃ v2 c2, restartCommitted cf d
      (restartSnap d { emptyVol with term := d.curTerm, lastLogIdx := d.high, lastLogTerm := lt }).1
      (restartSnap d { emptyVol with term := d.curTerm, lastLogIdx := d.high, lastLogTerm := lt }).2 = some (v2, c2) ∧
      v2.snapIdx = restartBase d := by
    unfold restartCommitted
    by_cases hc : cf.restoreCommitted = true
    · rw [if_pos hc]
      simp only []
      have : (processLogs d.log (restartSnap d { emptyVol with term := d.curTerm, lastLogIdx := d.high, lastLogTerm := lt }).1.applied
                (min d.staged d.high)).isSome := by
        unfold processLogs
        split
        · simp
        · apply processLogsFrom_some
          intro i h2 h3
          rw [s6a] at h2 h3
          exact hl i (by omega) (by omega)
      cases hp : processLogs d.log (restartSnap d { emptyVol with term := d.curTerm, lastLogIdx := d.high, lastLogTerm := lt }).1.applied
                (min d.staged d.high) with
      | none => rw [hp] at this; simp at this
      | some calls => exact ⟨_, _, rfl, s6b⟩
    · rw [if_neg hc]
      exact ⟨_, _, rfl, s6b⟩
  obtain ⟨v2, c2, hrc, hv2⟩ := hrc
  rw [hrc]
  simp only []
  have hsc := scanConfigs_some d.log (d.high + 1 - (v2.snapIdx + 1)) (v2.snapIdx + 1) v2 (by
    intro i h2 h3
    rw [hv2] at h2 h3
    exact hl i (by omega) (by omega))
  cases hq : scanConfigs d.log (d.high + 1 - (v2.snapIdx + 1)) (v2.snapIdx + 1) v2 with
  | none => rw [hq] at hsc; simp at hsc
  | some v3 => simp

/-! ## a damaged snapshot -/

theorem damageNewest_usable (l : List Snap) :
    (damageNewest l).find? (·.ok) = match l.find? (·.ok) with
      | none => none
      | some _ => (l.dropWhile (fun s => !s.ok)).tail.find? (·.ok) := by
  induction l with
  | nil => simp [damageNewest]
  | cons s rest ih =>
    unfold damageNewest
    by_cases hs : s.ok = true
    · simp [hs, List.find?, List.dropWhile]
    · have hs' : s.ok = false := by simpa using hs
      simp only [hs', Bool.false_eq_true, if_false, List.find?, List.dropWhile, Bool.not_false]
      exact ih

/-- **C10, fall-back.**  After the newest usable snapshot is damaged, the usable snapshot is the
    next usable one in the store's order (newest first), or none. -/
theorem damaged_falls_back (d : Durable) (s : Snap) (h : usableSnap d = some s) :
    usableSnap { d with snaps := damageNewest d.snaps } =
      (d.snaps.dropWhile (fun s => !s.ok)).tail.find? (·.ok) := by
  unfold usableSnap at *
  rw [damageNewest_usable, h]

/-- damaging changes nothing but the flag of one snapshot -/
theorem damageNewest_same_content (l : List Snap) :
    (damageNewest l).map (fun s => (s.idx, s.term, s.cfgIdx, s.cfg, s.data)) =
      l.map (fun s => (s.idx, s.term, s.cfgIdx, s.cfg, s.data)) := by
  induction l with
  | nil => simp [damageNewest]
  | cons s rest ih =>
    unfold damageNewest
    split <;> simp [ih]

/-! ## non-vacuity: a concrete image with two snapshots, the newer one damaged -/

private def exLog : List Entry :=
  [⟨1, 1, 0, 11, []⟩, ⟨2, 1, 0, 12, []⟩, ⟨3, 2, 0, 13, []⟩, ⟨4, 2, 0, 14, []⟩]
private def exD : Durable :=
  { curTerm := 2, voteTerm := 0, voteCand := none, log := exLog, low := 1, high := 4, staged := 4,
    snaps := [⟨3, 2, 0, [], [11, 12, 13], true⟩, ⟨1, 1, 0, [], [11], true⟩] }

example : ((restart ⟨false, true, 3, 4, false⟩ exD).map (fun r => (r.1.applied, r.1.snapIdx, r.2))) =
    some (4, 3, [.restore [11, 12, 13], .apply 4 2 14]) := by decide
example : ((restart ⟨false, true, 3, 4, false⟩ { exD with snaps := damageNewest exD.snaps }).map
      (fun r => (r.1.applied, r.1.snapIdx, r.2))) =
    some (4, 1, [.restore [11], .apply 2 1 12, .apply 3 2 13, .apply 4 2 14]) := by decide

end SV
