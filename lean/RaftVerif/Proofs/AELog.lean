import RaftVerif.Proofs.LogStore
import RaftVerif.Proofs.ServerLocal

/-!
# AppendEntries and the log (C04): what a successful call leaves in the store

`ae_success_log`: for every durable image with a well-formed log, every request whose entries have
strictly ascending indexes, every failure ordinal and crash ordinal — if the handler answers
success, then in the store it leaves behind

* every sent entry above the snapshot is present at its index with the sent term (it is the sent
  entry itself, or the entry that was already there with the same index and term);
* every index below all sent entries holds exactly what it held before (nothing at or below the
  previous entry is touched);
* the representation invariant of the log is preserved.
-/

namespace SV

def putAll (es : List Entry) (l : List Entry) : List Entry := es.foldl (fun l e => putEntry e l) l

/-- the effect of one durable write on the log -/
def Write.onLog : Write → List Entry → List Entry
  | .deleteRange lo hi, l => l.filter (fun e => ¬ (lo ≤ e.index ∧ e.index ≤ hi))
  | .storeLogs es, l => putAll es l
  | _, l => l

theorem storeAll_log (es : List Entry) (d : Durable) : (es.foldl storeOne d).log = putAll es d.log := by
  induction es generalizing d with
  | nil => rfl
  | cons e rest ih => simp only [List.foldl_cons, putAll] at *; rw [ih]; rfl

theorem apply_log (d : Durable) (w : Write) : (Write.apply d w).log = w.onLog d.log := by
  cases w <;> simp [Write.apply, Write.onLog, deleteRangeD, storeAll_log]

theorem applyAll_log (d : Durable) (ws : List Write) :
    (applyAll d ws).log = ws.foldl (fun l w => w.onLog l) d.log := by
  induction ws generalizing d with
  | nil => rfl
  | cons w rest ih => simp only [applyAll, List.foldl_cons] at *; rw [ih, apply_log]

theorem putAll_sorted (es l : List Entry) (hs : Sorted l) : Sorted (putAll es l) := by
  induction es generalizing l with
  | nil => exact hs
  | cons e rest ih => exact ih _ (putEntry_sorted e l hs)

theorem getLog_putAll (es l : List Entry) (hs : Sorted l) (hes : Sorted es) (i : Nat) :
    getLog (putAll es l) i = match es.find? (·.index = i) with
      | some e => some e
      | none => getLog l i := by
  have := getLog_storeAll es ⟨0, 0, none, l, 0, 0, 0, []⟩ hs hes i
  rw [storeAll_log] at this
  exact this

theorem foldl_noeffect (ws : List Write) (l : List Entry) (h : ∀ w ∈ ws, ∀ l, w.onLog l = l) :
    ws.foldl (fun l w => w.onLog l) l = l := by
  induction ws generalizing l with
  | nil => rfl
  | cons w rest ih =>
    rw [List.foldl_cons, h w List.mem_cons_self, ih l (fun w hw => h w (List.mem_cons_of_mem _ hw))]

/-- what the sent entries are turned into: the log after a run of the entries part -/
def aeLogAfter (d : Durable) (v2 : Vol) (a : AEReq) (l : List Entry) : List Entry :=
  if a.entries = [] then l else
  match scanEntries d.log v2.lastLogIdx v2.snapIdx a.entries with
  | none => l
  | some (conflict, newE) =>
    putAll newE (match conflict with
      | some ci => l.filter (fun e => ¬ (ci ≤ e.index ∧ e.index ≤ v2.lastLogIdx))
      | none => l)

theorem aeBody_writes_log (cf : Cfg) (d : Durable) (v : Vol) (a : AEReq) (pre : List (Write × Res)) (v2 : Vol)
    (t1 : Nat) (l : List Entry) (hpre : ∀ w ∈ pre.map (·.1), ∀ l, w.onLog l = l) :
    (aeBody cf d v a pre v2 t1).writes.foldl (fun l w => w.onLog l) l = aeLogAfter d v2 a l := by
  unfold aeLogAfter Plan.writes aeBody
  by_cases he : a.entries = []
  · rw [if_pos he, if_pos he, aeFinish_steps]; exact foldl_noeffect _ _ hpre
  · rw [if_neg he, if_neg he]
    cases hsc : scanEntries d.log v2.lastLogIdx v2.snapIdx a.entries with
    | none => exact foldl_noeffect _ _ hpre
    | some pr =>
      obtain ⟨conflict, newEntries⟩ := pr
      cases conflict with
      | none =>
        simp only []
        split
        · rename_i hr; simp at hr
        · split
          · rename_i hn
            rw [aeFinish_steps, hn]; exact foldl_noeffect _ _ hpre
          · rw [aeFinish_steps]
            simp only [List.map_append, List.foldl_append, List.map_cons, List.map_nil, List.foldl_cons, List.foldl_nil]
            rw [foldl_noeffect _ _ hpre]
            split <;> simp [Write.onLog]
      | some ci =>
        simp only []
        split
        · rename_i hr; simp [reloadable] at hr
        · split
          · rename_i hn
            rw [aeFinish_steps, hn]
            simp only [List.map_append, List.foldl_append, List.map_cons, List.map_nil, List.foldl_cons, List.foldl_nil]
            rw [foldl_noeffect _ _ hpre]
            simp [Write.onLog, putAll]
          · rw [aeFinish_steps]
            simp only [List.map_append, List.foldl_append, List.map_cons, List.map_nil, List.foldl_cons, List.foldl_nil]
            rw [foldl_noeffect _ _ hpre]
            split <;> simp [Write.onLog]


/-- the scan splits the sent entries into a part the server already holds (or that its snapshot
    covers) and the part to store; a conflict is reported exactly at the first entry to store -/
theorem scanEntries_spec (log : List Entry) (last snap : Nat) (es : List Entry) (conflict : Option Nat)
    (newE : List Entry) (h : scanEntries log last snap es = some (conflict, newE)) :
    ∃ matched, es = matched ++ newE ∧
      (∀ m ∈ matched, m.index ≤ snap ∨ (m.index ≤ last ∧ ∃ se, getLog log m.index = some se ∧ se.term = m.term)) ∧
      (newE = [] → conflict = none) ∧
      (∀ e rest, newE = e :: rest → snap < e.index ∧
          ((conflict = none ∧ last < e.index) ∨ (conflict = some e.index ∧ e.index ≤ last))) := by
  induction es with
  | nil =>
    simp [scanEntries] at h
    obtain ⟨h1, h2⟩ := h
    subst h1; subst h2
    exact ⟨[], rfl, by simp, fun _ => rfl, by simp⟩
  | cons e rest ih =>
    unfold scanEntries at h
    by_cases h1 : e.index ≤ snap
    · rw [if_pos h1] at h
      obtain ⟨m, g1, g2, g3, g4⟩ := ih h
      refine ⟨e :: m, by rw [g1]; rfl, ?_, g3, g4⟩
      intro x hx
      rcases List.mem_cons.mp hx with hx | hx
      · subst hx; exact Or.inl h1
      · exact g2 x hx
    · rw [if_neg h1] at h
      by_cases h2 : e.index > last
      · rw [if_pos h2] at h
        injection h with h; injection h with h3 h4
        subst h3; subst h4
        refine ⟨[], rfl, by simp, by simp, ?_⟩
        intro e' rest' heq
        injection heq with q1 q2; subst q1
        exact ⟨by omega, Or.inl ⟨rfl, h2⟩⟩
      · rw [if_neg h2] at h
        cases hg : getLog log e.index with
        | none => rw [hg] at h; cases h
        | some se =>
          rw [hg] at h
          simp only [] at h
          by_cases h3 : e.term ≠ se.term
          · rw [if_pos h3] at h
            injection h with h; injection h with h4 h5
            subst h4; subst h5
            refine ⟨[], rfl, by simp, by simp, ?_⟩
            intro e' rest' heq
            injection heq with q1 q2; subst q1
            exact ⟨by omega, Or.inr ⟨rfl, by omega⟩⟩
          · rw [if_neg h3] at h
            obtain ⟨m, g1, g2, g3, g4⟩ := ih h
            refine ⟨e :: m, by rw [g1]; rfl, ?_, g3, g4⟩
            intro x hx
            rcases List.mem_cons.mp hx with hx | hx
            · subst hx
              exact Or.inr ⟨by omega, se, hg, by simp at h3; exact h3.symm⟩
            · exact g2 x hx

theorem find_self_of_sorted {es : List Entry} (hes : Sorted es) {e : Entry} (he : e ∈ es) :
    es.find? (·.index = e.index) = some e := by
  induction es with
  | nil => cases he
  | cons x xs ih =>
    have hx : ∀ y ∈ xs, x.index < y.index := (List.pairwise_cons.mp hes).1
    rcases List.mem_cons.mp he with he | he
    · subst he; simp [List.find?]
    · have := hx e he
      have hne : ¬ x.index = e.index := by omega
      simp only [List.find?, hne, decide_false]
      exact ih (List.pairwise_cons.mp hes).2 he

theorem aePlan_eq_body (cf : Cfg) (d : Durable) (v : Vol) (a : AEReq)
    (h1 : ¬ a.term < v.term) (h2 : aePrevOk d (aeVol2 v a) a = some true) :
    aePlan cf d v a = aeBody cf d v a (aePre v a) (aeVol2 v a) (aeVol2 v a).term := by
  unfold aePlan
  rw [if_neg h1]
  simp only [h2]

theorem aePre_no_log_effect (v : Vol) (a : AEReq) : ∀ w ∈ (aePre v a).map (·.1), ∀ l, w.onLog l = l := by
  intro w hw l
  unfold aePre at hw
  split at hw
  · simp at hw; subst hw; rfl
  · simp at hw

/-- a successful entries part has scanned its entries to the end -/
theorem aeBody_success_scan (cf : Cfg) (d : Durable) (v : Vol) (a : AEReq) (pre : List (Write × Res)) (v2 : Vol)
    (t1 : Nat) (h : isSuccess (aeBody cf d v a pre v2 t1).final.resp = true) (he : a.entries ≠ []) :
    ∃ c n, scanEntries d.log v2.lastLogIdx v2.snapIdx a.entries = some (c, n) := by
  unfold aeBody at h
  rw [if_neg he] at h
  cases hsc : scanEntries d.log v2.lastLogIdx v2.snapIdx a.entries with
  | none => rw [hsc] at h; simp [aeFail, mkRes, isSuccess] at h
  | some pr => exact ⟨pr.1, pr.2, rfl⟩

/-- the store after the new entries have been put into `base`, a log that agrees with the old one
    below every entry to store -/
theorem putAll_content (old base matched newE entries : List Entry) (snap last : Nat)
    (hsplit : entries = matched ++ newE) (hes : Sorted entries) (hbaseS : Sorted base)
    (hbaseLow : ∀ i, (∀ n ∈ newE, i < n.index) → getLog base i = getLog old i)
    (hm : ∀ m ∈ matched, m.index ≤ snap ∨ (m.index ≤ last ∧ ∃ se, getLog old m.index = some se ∧ se.term = m.term)) :
    Sorted (putAll newE base) ∧
    (∀ e ∈ entries, snap < e.index →
        ∃ e', getLog (putAll newE base) e.index = some e' ∧ e'.term = e.term ∧
          (e' = e ∨ getLog old e.index = some e')) ∧
    (∀ i, (∀ e ∈ entries, i < e.index) → getLog (putAll newE base) i = getLog old i) := by
  have hnewS : Sorted newE := by
    have : Sorted (matched ++ newE) := hsplit ▸ hes
    exact (List.pairwise_append.mp this).2.1
  have hcross : ∀ m ∈ matched, ∀ n ∈ newE, m.index < n.index := by
    have : Sorted (matched ++ newE) := hsplit ▸ hes
    exact (List.pairwise_append.mp this).2.2
  refine ⟨putAll_sorted _ _ hbaseS, ?_, ?_⟩
  · intro e hin hsnap
    rw [hsplit] at hin
    rcases List.mem_append.mp hin with hin | hin
    · rcases hm e hin with hle | ⟨_, se, hg, ht⟩
      · omega
      · refine ⟨se, ?_, ht, Or.inr hg⟩
        rw [getLog_putAll _ _ hbaseS hnewS]
        have : newE.find? (·.index = e.index) = none := by
          apply List.find?_eq_none.mpr
          intro n hn
          have := hcross e hin n hn
          simp; omega
        rw [this]
        simp only []
        rw [hbaseLow e.index (fun n hn => hcross e hin n hn)]
        exact hg
    · refine ⟨e, ?_, rfl, Or.inl rfl⟩
      rw [getLog_putAll _ _ hbaseS hnewS, find_self_of_sorted hnewS hin]
  · intro i hi
    rw [getLog_putAll _ _ hbaseS hnewS]
    have : newE.find? (·.index = i) = none := by
      apply List.find?_eq_none.mpr
      intro n hn
      have := hi n (by rw [hsplit]; exact List.mem_append_right _ hn)
      simp; omega
    rw [this]
    simp only []
    exact hbaseLow i (fun n hn => hi n (by rw [hsplit]; exact List.mem_append_right _ hn))

/-- **C04, the log after a successful AppendEntries** — every durable image with a well-formed log,
    every request whose entries have strictly ascending indexes, every failure and crash ordinal. -/
theorem ae_success_log (cf : Cfg) (d : Durable) (v : Vol) (a : AEReq) (f c : Option Nat)
    (hs : Sorted d.log) (hes : Sorted a.entries)
    (h : isSuccess (exec (aePlan cf d v a) f c).1.resp = true) :
    Sorted (applyAll d (exec (aePlan cf d v a) f c).2).log ∧
    (∀ e ∈ a.entries, (aeVol2 v a).snapIdx < e.index →
        ∃ e', getLog (applyAll d (exec (aePlan cf d v a) f c).2).log e.index = some e' ∧ e'.term = e.term ∧
          (e' = e ∨ getLog d.log e.index = some e')) ∧
    (∀ i, (∀ e ∈ a.entries, i < e.index) →
        getLog (applyAll d (exec (aePlan cf d v a) f c).2).log i = getLog d.log i) := by
  obtain ⟨hw, hterm, hprev⟩ := ae_success_sound cf d v a f c h
  have hfin : isSuccess (aePlan cf d v a).final.resp = true := by
    rcases exec_cases (aePlan cf d v a) f c with hfin | ⟨k, w, r, hs', hr, _, _⟩
    · rw [hfin] at h; exact h
    · exfalso
      have := aePlan_steps_refuse cf d v a (w, r) (List.mem_of_getElem? hs')
      rw [hr] at h; simp [this] at h
  have hbody := aePlan_eq_body cf d v a (by omega) hprev
  rw [hw, applyAll_log, hbody, aeBody_writes_log _ _ _ _ _ _ _ _ (aePre_no_log_effect v a)]
  rw [hbody] at hfin
  unfold aeLogAfter
  by_cases he : a.entries = []
  · rw [if_pos he]
    refine ⟨hs, ?_, fun _ _ => rfl⟩
    intro e hin; rw [he] at hin; cases hin
  · rw [if_neg he]
    obtain ⟨conflict, newE, hsc⟩ := aeBody_success_scan _ _ _ _ _ _ _ hfin he
    rw [hsc]
    simp only []
    obtain ⟨matched, hsplit, hm, hnone, hhead⟩ := scanEntries_spec _ _ _ _ _ _ hsc
    cases hc : conflict with
    | none =>
      simp only []
      exact putAll_content d.log d.log matched newE a.entries _ _ hsplit hes hs (fun _ _ => rfl) hm
    | some ci =>
      simp only []
      refine putAll_content d.log _ matched newE a.entries _ _ hsplit hes (filter_sorted _ _ hs) ?_ hm
      intro i hi
      rw [getLog_filter_range]
      cases hn : newE with
      | nil => have := hnone hn; rw [hc] at this; cases this
      | cons e0 rest0 =>
        obtain ⟨_, hh⟩ := hhead e0 rest0 hn
        rcases hh with ⟨hh, _⟩ | ⟨hh, _⟩
        · rw [hc] at hh; cases hh
        · rw [hc] at hh; injection hh with hh
          have := hi e0 (by rw [hn]; exact List.mem_cons_self)
          have hlt : ¬ (ci ≤ i ∧ i ≤ (aeVol2 v a).lastLogIdx) := by omega
          rw [if_neg hlt]

/-- the representation invariant survives every durable write, hence every crash image -/
theorem apply_sorted (d : Durable) (w : Write) (hs : Sorted d.log) : Sorted (Write.apply d w).log := by
  rw [apply_log]
  cases w <;> simp only [Write.onLog] <;> first
    | exact hs
    | exact filter_sorted _ _ hs
    | exact putAll_sorted _ _ hs

theorem applyAll_sorted (d : Durable) (ws : List Write) (hs : Sorted d.log) : Sorted (applyAll d ws).log := by
  induction ws generalizing d with
  | nil => exact hs
  | cons w rest ih => exact ih _ (apply_sorted d w hs)

/-! ## non-vacuity: a follower holding a stale suffix, a request that conflicts at index 3 -/

private def exLog : List Entry :=
  [⟨1, 1, 0, 11, []⟩, ⟨2, 1, 0, 12, []⟩, ⟨3, 1, 0, 13, []⟩, ⟨4, 1, 0, 14, []⟩]
private def exD : Durable :=
  { curTerm := 1, voteTerm := 0, voteCand := none, log := exLog, low := 1, high := 4, staged := 0, snaps := [] }
private def exV : Vol := { emptyVol with term := 1, lastLogIdx := 4, lastLogTerm := 1 }
private def exA : AEReq :=
  { leader := 12, leaderId := 2, term := 2, prevIdx := 1, prevTerm := 1, commit := 0,
    entries := [⟨2, 1, 0, 12, []⟩, ⟨3, 2, 0, 23, []⟩] }

example : isSuccess (exec (aePlan ⟨false, false, 3, 4, false⟩ exD exV exA) none none).1.resp = true := by decide
example : (applyAll exD (exec (aePlan ⟨false, false, 3, 4, false⟩ exD exV exA) none none).2).log =
    [⟨1, 1, 0, 11, []⟩, ⟨2, 1, 0, 12, []⟩, ⟨3, 2, 0, 23, []⟩] := by decide
example : Sorted exLog ∧ Sorted exA.entries := by
  constructor <;> simp [Sorted, exLog, exA]

end SV
