import RaftVerif.Proofs.AELog
import RaftVerif.Proofs.Restart

/-!
# AppendEntries and the commit index (C05 / C02, the F8 repair)

`ae_commit_rule`: whatever the durable image, the server state and the request — if the handler's
final answer is success, the commit index it leaves is either the old one, or strictly larger and
equal to `min(LeaderCommitIndex, last index this request covers)`: the follower never advances its
commit index over entries the request did not vouch for, and never moves it back.
-/

namespace SV

/-- a successful entries part ends in `aeFinish` on a state that has `v2`'s commit index -/
theorem aeBody_success_form (cf : Cfg) (d : Durable) (v : Vol) (a : AEReq) (pre : List (Write × Res)) (v2 : Vol)
    (t1 : Nat) (h : isSuccess (aeBody cf d v a pre v2 t1).final.resp = true) :
    ∃ steps dlog v3, aeBody cf d v a pre v2 t1 = aeFinish v t1 a steps dlog v3 ∧ v3.commit = v2.commit := by
  unfold aeBody at h ⊢
  by_cases he : a.entries = []
  · rw [if_pos he]; exact ⟨_, _, _, rfl, rfl⟩
  · rw [if_neg he] at h ⊢
    cases hsc : scanEntries d.log v2.lastLogIdx v2.snapIdx a.entries with
    | none => rw [hsc] at h; simp [aeFail, mkRes, isSuccess] at h
    | some pr =>
      obtain ⟨conflict, newEntries⟩ := pr
      rw [hsc] at h
      cases conflict with
      | none =>
        simp only [] at h ⊢
        split
        · rename_i hr; simp at hr
        · split
          · exact ⟨_, _, _, rfl, rfl⟩
          · refine ⟨_, _, _, rfl, ?_⟩
            simp only []
            exact (processConfigEntries_frame _ _).2.2.2.2.2.2.1
      | some ci =>
        simp only [] at h ⊢
        have hv3 : (if reloadable (deleteRangeD d ci v2.lastLogIdx) = true then
              (if ci ≤ v2.latestIdx then { reloadLast (deleteRangeD d ci v2.lastLogIdx) v2 with latest := v2.committed, latestIdx := v2.committedIdx }
               else reloadLast (deleteRangeD d ci v2.lastLogIdx) v2) else v2).commit = v2.commit := by
          simp only [reloadable, if_true]
          have : (reloadLast (deleteRangeD d ci v2.lastLogIdx) v2).commit = v2.commit := by
            unfold reloadLast; split
            · rfl
            · split <;> rfl
          split <;> simp [this]
        split
        · rename_i hr; simp [reloadable] at hr
        · split
          · exact ⟨_, _, _, rfl, hv3⟩
          · refine ⟨_, _, _, rfl, ?_⟩
            simp only []
            rw [(processConfigEntries_frame _ _).2.2.2.2.2.2.1]; exact hv3

theorem aeVol2_commit (v : Vol) (a : AEReq) : (aeVol2 v a).commit = v.commit := by
  unfold aeVol2
  by_cases hd : aeDown v a <;> simp [hd, stepDown]

/-- **C05/C02, the follower's commit rule.** -/
theorem ae_commit_rule (cf : Cfg) (d : Durable) (v : Vol) (a : AEReq)
    (h : isSuccess (aePlan cf d v a).final.resp = true) :
    (aePlan cf d v a).final.vol.commit = v.commit ∨
    (v.commit < (aePlan cf d v a).final.vol.commit ∧
     (aePlan cf d v a).final.vol.commit = min a.commit (aeLastCovered a)) := by
  unfold aePlan at h ⊢
  by_cases hst : a.term < v.term
  · rw [if_pos hst] at h; simp [aeFail, mkRes, isSuccess] at h
  · rw [if_neg hst] at h ⊢
    simp only [] at h ⊢
    cases hprev : aePrevOk d (aeVol2 v a) a with
    | none => rw [hprev] at h; simp [aeFail, mkRes, isSuccess] at h
    | some b =>
      cases b with
      | false => rw [hprev] at h; simp [aeFail, mkRes, isSuccess] at h
      | true =>
        rw [hprev] at h
        simp only [] at h ⊢
        obtain ⟨steps, dlog, v3, hform, hc⟩ := aeBody_success_form cf d v a _ _ _ h
        rw [hform] at h ⊢
        rw [aeVol2_commit] at hc
        unfold aeFinish at h ⊢
        simp only [] at h ⊢
        by_cases hcond : a.commit > 0 ∧ a.commit > v3.commit ∧ min a.commit (aeLastCovered a) > v3.commit
        · rw [if_pos hcond] at h ⊢
          cases hp : processLogs dlog (aeCommitVol v3 (min a.commit (aeLastCovered a))).applied (min a.commit (aeLastCovered a)) with
          | none => rw [hp] at h; simp [mkRes, isSuccess] at h
          | some calls =>
            right
            simp only []
            have hcm : (aeApplied (aeCommitVol v3 (min a.commit (aeLastCovered a))) (min a.commit (aeLastCovered a))).commit
                = min a.commit (aeLastCovered a) := by
              unfold aeApplied aeCommitVol
              simp only []
              split <;> (split <;> rfl)
            rw [hcm]
            exact ⟨by omega, rfl⟩
        · rw [if_neg hcond]
          left
          simp only [mkRes]
          exact hc

/-- **the commit rule, exactly** (the form of the cluster model's `handleAE`): after a successful
    answer the commit index is `max old (min LeaderCommitIndex lastCovered)` -/
theorem ae_commit_exact (cf : Cfg) (d : Durable) (v : Vol) (a : AEReq)
    (h : isSuccess (aePlan cf d v a).final.resp = true) :
    (aePlan cf d v a).final.vol.commit = max v.commit (min a.commit (aeLastCovered a)) := by
  unfold aePlan at h ⊢
  by_cases hst : a.term < v.term
  · rw [if_pos hst] at h; simp [aeFail, mkRes, isSuccess] at h
  · rw [if_neg hst] at h ⊢
    simp only [] at h ⊢
    cases hprev : aePrevOk d (aeVol2 v a) a with
    | none => rw [hprev] at h; simp [aeFail, mkRes, isSuccess] at h
    | some b =>
      cases b with
      | false => rw [hprev] at h; simp [aeFail, mkRes, isSuccess] at h
      | true =>
        rw [hprev] at h
        simp only [] at h ⊢
        obtain ⟨steps, dlog, v3, hform, hc⟩ := aeBody_success_form cf d v a _ _ _ h
        rw [hform] at h ⊢
        rw [aeVol2_commit] at hc
        unfold aeFinish at h ⊢
        simp only [] at h ⊢
        by_cases hcond : a.commit > 0 ∧ a.commit > v3.commit ∧ min a.commit (aeLastCovered a) > v3.commit
        · rw [if_pos hcond] at h ⊢
          cases hp : processLogs dlog (aeCommitVol v3 (min a.commit (aeLastCovered a))).applied (min a.commit (aeLastCovered a)) with
          | none => rw [hp] at h; simp [mkRes, isSuccess] at h
          | some calls =>
            simp only []
            have hcm : (aeApplied (aeCommitVol v3 (min a.commit (aeLastCovered a))) (min a.commit (aeLastCovered a))).commit
                = min a.commit (aeLastCovered a) := by
              unfold aeApplied aeCommitVol
              simp only []
              split <;> (split <;> rfl)
            rw [hcm]
            omega
        · rw [if_neg hcond]
          simp only [mkRes]
          rw [hc]
          omega

/-- non-vacuity: the F8 history — a heartbeat-like request `prev = (1, t1)`, no entries,
    `LeaderCommitIndex = 2`, against a follower that holds a stale entry 2: commit stops at 1 -/
private def exD : Durable :=
  { curTerm := 1, voteTerm := 0, voteCand := none,
    log := [⟨1, 1, 0, 11, []⟩, ⟨2, 1, 0, 99, []⟩], low := 1, high := 2, staged := 0, snaps := [] }
private def exV : Vol := { emptyVol with term := 1, lastLogIdx := 2, lastLogTerm := 1 }
private def exA : AEReq := { leader := 12, leaderId := 2, term := 1, prevIdx := 1, prevTerm := 1, commit := 2, entries := [] }
example : (aePlan ⟨false, false, 3, 4, false⟩ exD exV exA).final.vol.commit = 1 ∧
    (aePlan ⟨false, false, 3, 4, false⟩ exD exV exA).final.fsm = [.apply 1 1 11] := by decide

end SV
