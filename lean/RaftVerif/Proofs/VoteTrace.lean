import RaftVerif.Model.World
import RaftVerif.Proofs.ServerLocal
import RaftVerif.Proofs.Restart

/-!
# One vote per term, along every run of the stepped server (C06)

`vote_grant_sound` speaks about one call of the RequestVote handler.  This file lifts it to every
run of `SV.stepEvent`: any sequence of RequestVote / RequestPreVote / AppendEntries /
InstallSnapshot / TimeoutNow messages, local snapshots, role changes and restarts, with a store write failing or the
process dying at any write ordinal of any handler (the next process starts on the writes that were
performed).  Along such a run

* `one_vote_per_term`  two granted RequestVote answers for the same term name the same candidate;
* `durable_term_monotone`  the durable term never decreases.

The argument: once `(t, c)` has been granted, the durable state satisfies `Bound t c` — the
durable term is above `t`, or it is `t` and the vote record is `(t, c)` — and every prefix of every
handler's write plan preserves `Bound t c`; a running server's in-memory term always equals its
durable term (`Synced`), because every handler persists a new term before using it and dies if
that write fails.
-/

namespace SV

/-- the grant `(t, c)` still binds the server -/
def Bound (t c : Nat) (d : Durable) : Prop :=
  d.curTerm > t ∨ (d.curTerm = t ∧ d.voteTerm = t ∧ d.voteCand = some c)

/-- writes that touch neither the term nor the vote record -/
def Write.noTV : Write → Bool
  | .setTerm _ => false
  | .setVoteTerm _ => false
  | .setVoteCand _ => false
  | _ => true

theorem storeAll_tv (es : List Entry) (d : Durable) :
    (es.foldl storeOne d).curTerm = d.curTerm ∧ (es.foldl storeOne d).voteTerm = d.voteTerm ∧
    (es.foldl storeOne d).voteCand = d.voteCand := by
  induction es generalizing d with
  | nil => exact ⟨rfl, rfl, rfl⟩
  | cons e rest ih =>
    obtain ⟨a, b, c⟩ := ih (storeOne d e)
    exact ⟨a, b, c⟩

theorem apply_noTV (d : Durable) (w : Write) (h : w.noTV = true) :
    (Write.apply d w).curTerm = d.curTerm ∧ (Write.apply d w).voteTerm = d.voteTerm ∧
    (Write.apply d w).voteCand = d.voteCand := by
  cases w with
  | setTerm _ => cases h
  | setVoteTerm _ => cases h
  | setVoteCand _ => cases h
  | deleteRange lo hi => exact ⟨rfl, rfl, rfl⟩
  | storeLogs es => exact storeAll_tv es d
  | stage _ => exact ⟨rfl, rfl, rfl⟩
  | snapSave _ => exact ⟨rfl, rfl, rfl⟩

theorem applyAll_noTV (d : Durable) (ws : List Write) (h : ∀ w ∈ ws, w.noTV = true) :
    (applyAll d ws).curTerm = d.curTerm ∧ (applyAll d ws).voteTerm = d.voteTerm ∧
    (applyAll d ws).voteCand = d.voteCand := by
  induction ws generalizing d with
  | nil => exact ⟨rfl, rfl, rfl⟩
  | cons w rest ih =>
    obtain ⟨a, b, c⟩ := ih (Write.apply d w) (fun w' hw' => h w' (List.mem_cons_of_mem _ hw'))
    obtain ⟨a', b', c'⟩ := apply_noTV d w (h w List.mem_cons_self)
    simp only [applyAll, List.foldl_cons] at *
    exact ⟨a.trans a', b.trans b', c.trans c'⟩

theorem bound_of_same (t c : Nat) (d d' : Durable) (h1 : d'.curTerm = d.curTerm) (h2 : d'.voteTerm = d.voteTerm)
    (h3 : d'.voteCand = d.voteCand) (h : Bound t c d) : Bound t c d' := by
  unfold Bound at *; rw [h1, h2, h3]; exact h

theorem bound_setTerm (t c x : Nat) (d : Durable) (hx : d.curTerm ≤ x) (h : Bound t c d) :
    Bound t c (Write.apply d (.setTerm x)) := by
  unfold Bound at *
  simp only [Write.apply]
  rcases h with h | ⟨h1, h2, h3⟩
  · left; omega
  · by_cases hxt : x = t
    · right; exact ⟨hxt, h2, h3⟩
    · left; omega

/-- a plan whose writes are an optional term write (never backwards) followed by writes that touch
    neither term nor vote: every prefix keeps every grant bound, and never lowers the term -/
theorem bound_pre_rest (t c : Nat) (d : Durable) (pre rest : List Write)
    (hpre : pre = [] ∨ ∃ x, pre = [.setTerm x] ∧ d.curTerm ≤ x) (hrest : ∀ w ∈ rest, w.noTV = true)
    (k : Nat) (h : Bound t c d) : Bound t c (applyAll d ((pre ++ rest).take k)) := by
  rcases hpre with hp | ⟨x, hp, hx⟩
  · subst hp
    simp only [List.nil_append]
    obtain ⟨a, b, c'⟩ := applyAll_noTV d (rest.take k) (fun w hw => hrest w (List.mem_of_mem_take hw))
    exact bound_of_same t c d _ a b c' h
  · subst hp
    cases k with
    | zero => simpa [applyAll] using h
    | succ k =>
      simp only [List.cons_append, List.nil_append, List.take_succ_cons, applyAll, List.foldl_cons]
      have h1 := bound_setTerm t c x d hx h
      obtain ⟨a, b, c'⟩ := applyAll_noTV (Write.apply d (.setTerm x)) (rest.take k)
        (fun w hw => hrest w (List.mem_of_mem_take hw))
      exact bound_of_same t c _ _ a b c' h1

theorem term_pre_rest (d : Durable) (pre rest : List Write)
    (hpre : pre = [] ∨ ∃ x, pre = [.setTerm x] ∧ d.curTerm ≤ x) (hrest : ∀ w ∈ rest, w.noTV = true)
    (k : Nat) : d.curTerm ≤ (applyAll d ((pre ++ rest).take k)).curTerm := by
  rcases hpre with hp | ⟨x, hp, hx⟩
  · subst hp
    simp only [List.nil_append]
    obtain ⟨a, _, _⟩ := applyAll_noTV d (rest.take k) (fun w hw => hrest w (List.mem_of_mem_take hw))
    omega
  · subst hp
    cases k with
    | zero => simp [applyAll]
    | succ k =>
      simp only [List.cons_append, List.nil_append, List.take_succ_cons, applyAll, List.foldl_cons]
      obtain ⟨a, _, _⟩ := applyAll_noTV (Write.apply d (.setTerm x)) (rest.take k)
        (fun w hw => hrest w (List.mem_of_mem_take hw))
      simp only [applyAll] at a
      rw [a]; simpa [Write.apply] using hx

/-- what the trace argument needs from a handler's write plan, started in durable state `d` -/
structure PlanOK (d : Durable) (p : Plan) : Prop where
  bound : ∀ t c k, Bound t c d → Bound t c (applyAll d (p.writes.take k))
  mono : ∀ k, d.curTerm ≤ (applyAll d (p.writes.take k)).curTerm
  stepSync : ∀ k w r, p.steps[k]? = some (w, r) → r.panic = false →
      r.vol.term = (applyAll d (p.writes.take k)).curTerm
  finalSync : p.final.panic = false → p.final.vol.term = (applyAll d p.writes).curTerm

/-- the shape of every plan except RequestVote's: an optional term write (not backwards; the
    process dies if it fails), then writes that touch neither term nor vote; all results after the
    term write carry the new term -/
def PlainPlan (v : Vol) (p : Plan) : Prop :=
  ∃ (pre rest : List (Write × Res)) (T : Nat), p.steps = pre ++ rest ∧
    ((pre = [] ∧ T = v.term) ∨ (∃ r, pre = [(.setTerm T, r)] ∧ v.term ≤ T ∧ r.panic = true)) ∧
    (∀ s ∈ rest, s.1.noTV = true ∧ s.2.vol.term = T) ∧
    (p.final.panic = false → p.final.vol.term = T)

theorem take_all {α : Type} (l : List α) : l.take l.length = l := List.take_length

theorem plain_ok (d : Durable) (v : Vol) (p : Plan) (hsync : v.term = d.curTerm) (h : PlainPlan v p) :
    PlanOK d p := by
  obtain ⟨pre, rest, T, hsteps, hpre, hrest, hfinal⟩ := h
  have hw : p.writes = pre.map (·.1) ++ rest.map (·.1) := by
    unfold Plan.writes; rw [hsteps, List.map_append]
  have hrestW : ∀ w ∈ rest.map (·.1), w.noTV = true := by
    intro w hw'
    obtain ⟨s, hs, rfl⟩ := List.mem_map.mp hw'
    exact (hrest s hs).1
  have hpreW : pre.map (·.1) = [] ∨ ∃ x, pre.map (·.1) = [.setTerm x] ∧ d.curTerm ≤ x := by
    rcases hpre with ⟨hp, _⟩ | ⟨r, hp, hx, _⟩
    · left; rw [hp]; rfl
    · right; exact ⟨T, by rw [hp]; rfl, by omega⟩
  -- the durable term once the whole `pre` part has been written
  have hT : ∀ k, pre.length ≤ k → (applyAll d (p.writes.take k)).curTerm = T := by
    intro k hk
    rw [hw]
    rcases hpre with ⟨hp, hT⟩ | ⟨r, hp, hx, _⟩
    · subst hp
      simp only [List.map_nil, List.nil_append]
      obtain ⟨a, _, _⟩ := applyAll_noTV d ((rest.map (·.1)).take k) (fun w hw' => hrestW w (List.mem_of_mem_take hw'))
      rw [a, hT, hsync]
    · subst hp
      cases k with
      | zero => simp at hk
      | succ k =>
        simp only [List.map_cons, List.map_nil, List.cons_append, List.nil_append, List.take_succ_cons, applyAll,
          List.foldl_cons]
        obtain ⟨a, _, _⟩ := applyAll_noTV (Write.apply d (.setTerm T)) ((rest.map (·.1)).take k)
          (fun w hw' => hrestW w (List.mem_of_mem_take hw'))
        simp only [applyAll] at a
        rw [a]; rfl
  refine ⟨?_, ?_, ?_, ?_⟩
  · intro t c k hb
    rw [hw]; exact bound_pre_rest t c d _ _ hpreW hrestW k hb
  · intro k
    rw [hw]; exact term_pre_rest d _ _ hpreW hrestW k
  · intro k w r hs hnp
    rw [hsteps] at hs
    by_cases hk : k < pre.length
    · -- a step of `pre`: the term write, whose failure kills the process
      rcases hpre with ⟨hp, _⟩ | ⟨r0, hp, _, hr0⟩
      · subst hp; simp at hk
      · subst hp
        have : k = 0 := by simp at hk; omega
        subst this
        simp at hs
        obtain ⟨_, rfl⟩ := hs
        rw [hr0] at hnp; cases hnp
    · have hk' : pre.length ≤ k := by omega
      rw [List.getElem?_append_right hk'] at hs
      have hmem := List.mem_of_getElem? hs
      rw [hT k hk']
      exact (hrest _ hmem).2
  · intro hnp
    have := hT p.writes.length (by rw [hw]; simp)
    rw [take_all] at this
    rw [this]; exact hfinal hnp

/-! ## every plan but RequestVote's is a `PlainPlan` -/

theorem reloadLast_term (d : Durable) (v : Vol) : (reloadLast d v).term = v.term := by
  unfold reloadLast
  split
  · rfl
  · split <;> rfl

theorem processConfigEntries_term (v : Vol) (es : List Entry) : (processConfigEntries v es).term = v.term :=
  (processConfigEntries_frame v es).1

theorem aeCommitVol_term (v3 : Vol) (idx : Nat) : (aeCommitVol v3 idx).term = v3.term := by
  unfold aeCommitVol; simp only []; split <;> rfl

theorem aeApplied_term (v5 : Vol) (idx : Nat) : (aeApplied v5 idx).term = v5.term := by
  unfold aeApplied; split <;> rfl

theorem aeFinish_final_term (v0 : Vol) (t1 : Nat) (a : AEReq) (steps : List (Write × Res)) (dlog : List Entry)
    (v3 : Vol) (h : (aeFinish v0 t1 a steps dlog v3).final.panic = false) :
    (aeFinish v0 t1 a steps dlog v3).final.vol.term = v3.term := by
  unfold aeFinish at h ⊢
  simp only [] at h ⊢
  by_cases hc : a.commit > 0 ∧ a.commit > v3.commit ∧ min a.commit (aeLastCovered a) > v3.commit
  · rw [if_pos hc] at h ⊢
    cases hp : processLogs dlog (aeCommitVol v3 (min a.commit (aeLastCovered a))).applied (min a.commit (aeLastCovered a)) with
    | none => rw [hp] at h; simp at h
    | some calls => simp only []; rw [aeApplied_term, aeCommitVol_term]
  · rw [if_neg hc]; rfl

theorem aeVol2_term (v : Vol) (a : AEReq) :
    (aeVol2 v a).term = if aeDown v a then a.term else v.term := by
  unfold aeVol2
  by_cases hd : aeDown v a
  · simp [hd, stepDown]
  · simp [hd]

/-- the entries part adds only log writes after `pre`; every result carries `v2`'s term -/
theorem aeBody_shape (cf : Cfg) (d : Durable) (v : Vol) (a : AEReq) (pre : List (Write × Res)) (v2 : Vol) (t1 : Nat) :
    ∃ extra, (aeBody cf d v a pre v2 t1).steps = pre ++ extra ∧
      (∀ s ∈ extra, s.1.noTV = true ∧ s.2.vol.term = v2.term) ∧
      ((aeBody cf d v a pre v2 t1).final.panic = false → (aeBody cf d v a pre v2 t1).final.vol.term = v2.term) := by
  unfold aeBody
  split
  · exact ⟨[], by rw [aeFinish_steps]; simp, by simp, aeFinish_final_term _ _ _ _ _ _⟩
  · split
    · exact ⟨[], by simp, by simp, fun _ => rfl⟩
    · rename_i conflict newEntries _
      cases conflict with
      | none =>
        simp only []
        split
        · rename_i hr; simp at hr
        · split
          · exact ⟨[], by rw [aeFinish_steps]; simp, by simp, aeFinish_final_term _ _ _ _ _ _⟩
          · refine ⟨_, by rw [aeFinish_steps, List.append_assoc], ?_, ?_⟩
            · intro s hs
              simp only [List.mem_append, List.mem_cons, List.mem_nil_iff, or_false] at hs
              rcases hs with hs | hs
              · split at hs
                · simp at hs; subst hs; exact ⟨rfl, rfl⟩
                · simp at hs
              · subst hs; exact ⟨rfl, rfl⟩
            · intro hp
              rw [aeFinish_final_term _ _ _ _ _ _ hp]
              exact processConfigEntries_term _ _
      | some ci =>
        simp only []
        have hv3 : (if reloadable (deleteRangeD d ci v2.lastLogIdx) = true then
              (if ci ≤ v2.latestIdx then { reloadLast (deleteRangeD d ci v2.lastLogIdx) v2 with latest := v2.committed, latestIdx := v2.committedIdx }
               else reloadLast (deleteRangeD d ci v2.lastLogIdx) v2) else v2).term = v2.term := by
          simp only [reloadable, if_true]
          split <;> simp [reloadLast_term]
        split
        · rename_i hr; simp [reloadable] at hr
        · split
          · refine ⟨_, by rw [aeFinish_steps], ?_, ?_⟩
            · intro s hs
              simp only [List.mem_cons, List.mem_nil_iff, or_false] at hs
              subst hs; exact ⟨rfl, rfl⟩
            · intro hp
              rw [aeFinish_final_term _ _ _ _ _ _ hp]; exact hv3
          · refine ⟨_, by rw [aeFinish_steps, List.append_assoc, List.append_assoc], ?_, ?_⟩
            · intro s hs
              simp only [List.mem_append, List.mem_cons, List.mem_nil_iff, or_false] at hs
              rcases hs with hs | hs | hs
              · subst hs; exact ⟨rfl, rfl⟩
              · split at hs
                · simp at hs; subst hs; exact ⟨rfl, hv3⟩
                · simp at hs
              · subst hs; exact ⟨rfl, hv3⟩
            · intro hp
              rw [aeFinish_final_term _ _ _ _ _ _ hp]
              simp only []
              rw [processConfigEntries_term]; exact hv3

theorem aePlan_plain (cf : Cfg) (d : Durable) (v : Vol) (a : AEReq) : PlainPlan v (aePlan cf d v a) := by
  unfold aePlan
  by_cases hst : a.term < v.term
  · rw [if_pos hst]
    exact ⟨[], [], v.term, rfl, Or.inl ⟨rfl, rfl⟩, by simp, fun _ => rfl⟩
  · rw [if_neg hst]
    simp only []
    -- the term part
    have hpre : (aePre v a = [] ∧ (aeVol2 v a).term = v.term) ∨
        (∃ r, aePre v a = [(.setTerm (aeVol2 v a).term, r)] ∧ v.term ≤ (aeVol2 v a).term ∧ r.panic = true) := by
      rw [aeVol2_term]
      unfold aePre
      by_cases hd : aeDown v a
      · right; rw [if_pos hd, if_pos hd]; exact ⟨_, rfl, by omega, rfl⟩
      · left; rw [if_neg hd, if_neg hd]; exact ⟨rfl, rfl⟩
    have hpre' : (aePre v a = [] ∧ (aeVol2 v a).term = v.term) ∨
        (∃ r, aePre v a = [(.setTerm (aeVol2 v a).term, r)] ∧ v.term ≤ (aeVol2 v a).term ∧ r.panic = true) := hpre
    cases hprev : aePrevOk d (aeVol2 v a) a with
    | none => exact ⟨aePre v a, [], (aeVol2 v a).term, by simp, hpre, by simp, fun _ => rfl⟩
    | some b =>
      cases b with
      | false => exact ⟨aePre v a, [], (aeVol2 v a).term, by simp, hpre, by simp, fun _ => rfl⟩
      | true =>
        simp only []
        obtain ⟨extra, h1, h2, h3⟩ := aeBody_shape cf d v a (aePre v a) (aeVol2 v a) (aeVol2 v a).term
        exact ⟨aePre v a, extra, (aeVol2 v a).term, h1, hpre, h2, h3⟩

theorem preVotePlan_plain (v : Vol) (q : VoteReq) : PlainPlan v (preVotePlan v q) :=
  ⟨[], [], v.term, rfl, Or.inl ⟨rfl, rfl⟩, by simp, fun _ => rfl⟩

theorem timeoutNowPlan_plain (v : Vol) : PlainPlan v (timeoutNowPlan v) :=
  ⟨[], [], v.term, rfl, Or.inl ⟨rfl, rfl⟩, by simp, fun _ => rfl⟩

theorem snapPlan_plain (cf : Cfg) (d : Durable) (v : Vol) (fpos : Nat × Nat) (fdata : List Nat) :
    PlainPlan v (snapPlan cf d v fpos fdata) := by
  unfold snapPlan
  have hv1 : (if fpos.1 > v.snapIdx then { v with snapIdx := fpos.1, snapTerm := fpos.2 } else v).term = v.term := by
    split <;> rfl
  split
  · exact ⟨[], [], v.term, rfl, Or.inl ⟨rfl, rfl⟩, by simp, fun _ => rfl⟩
  · split
    · exact ⟨[], [], v.term, rfl, Or.inl ⟨rfl, rfl⟩, by simp, fun _ => rfl⟩
    · simp only []
      split
      · refine ⟨[], _, v.term, (List.nil_append _).symm, Or.inl ⟨rfl, rfl⟩, ?_, fun _ => hv1⟩
        intro s hs
        simp only [List.mem_cons, List.mem_nil_iff, or_false] at hs
        subst hs; exact ⟨rfl, rfl⟩
      · refine ⟨[], _, v.term, (List.nil_append _).symm, Or.inl ⟨rfl, rfl⟩, ?_, fun _ => hv1⟩
        intro s hs
        simp only [List.mem_cons, List.mem_nil_iff, or_false] at hs
        rcases hs with hs | hs
        · subst hs; exact ⟨rfl, rfl⟩
        · subst hs; exact ⟨rfl, hv1⟩

theorem isVol2_term (v : Vol) (q : ISReq) : (isVol2 v q).term = if isDown v q then q.term else v.term := by
  unfold isVol2
  by_cases hd : isDown v q
  · simp [hd, stepDown]
  · simp [hd]

/-- the snapshot part writes only the snapshot and log deletions; its results carry `v2`'s term -/
theorem isTail_shape (cf : Cfg) (d : Durable) (v2 : Vol) (q : ISReq) :
    (∀ s ∈ (isTail cf d v2 q).1, s.1.noTV = true ∧ s.2.vol.term = v2.term) ∧
    (isTail cf d v2 q).2.vol.term = v2.term := by
  unfold isTail
  simp only []
  split
  · exact ⟨by simp, rfl⟩
  · split
    · exact ⟨by simp, rfl⟩
    · split
      · refine ⟨?_, by simp [reloadLast_term]⟩
        intro s hs
        simp only [List.mem_append, List.mem_cons, List.mem_nil_iff, or_false] at hs
        rcases hs with hs | hs
        · subst hs; exact ⟨rfl, by simp [reloadLast_term]⟩
        · split at hs
          · simp at hs; subst hs; exact ⟨rfl, by simp [reloadLast_term]⟩
          · simp at hs
      · refine ⟨?_, by simp [reloadLast_term]⟩
        intro s hs
        simp only [List.mem_append, List.mem_cons, List.mem_nil_iff, or_false] at hs
        rcases hs with (hs | hs) | hs
        · subst hs; exact ⟨rfl, by simp [reloadLast_term]⟩
        · split at hs
          · simp at hs; subst hs; exact ⟨rfl, by simp [reloadLast_term]⟩
          · simp at hs
        · split at hs
          · simp at hs; subst hs; exact ⟨rfl, by simp [reloadLast_term]⟩
          · simp at hs

theorem isPlan_plain (cf : Cfg) (d : Durable) (v : Vol) (q : ISReq) : PlainPlan v (isPlan cf d v q) := by
  unfold isPlan
  by_cases hst : q.term < v.term
  · rw [if_pos hst]
    exact ⟨[], [], v.term, rfl, Or.inl ⟨rfl, rfl⟩, by simp, fun _ => rfl⟩
  · rw [if_neg hst]
    obtain ⟨h1, h2⟩ := isTail_shape cf d (isVol2 v q) q
    refine ⟨isPre v q, (isTail cf d (isVol2 v q) q).1, (isVol2 v q).term, rfl, ?_, h1, fun _ => h2⟩
    rw [isVol2_term]
    unfold isPre
    by_cases hd : isDown v q
    · right; rw [if_pos hd, if_pos hd]; exact ⟨_, rfl, by omega, rfl⟩
    · left; rw [if_neg hd, if_neg hd]; exact ⟨rfl, rfl⟩

/-! ## RequestVote -/

theorem applyAll_append (d : Durable) (a b : List Write) : applyAll d (a ++ b) = applyAll (applyAll d a) b := by
  simp [applyAll, List.foldl_append]

/-- like `plain_ok`, for a plan whose writes after the term part keep the durable term and keep
    every grant bound (hypotheses about the image once the term part is written) -/
theorem general_ok (d : Durable) (v : Vol) (p : Plan) (hsync : v.term = d.curTerm)
    (pre rest : List (Write × Res)) (T : Nat) (hsteps : p.steps = pre ++ rest)
    (hpre : (pre = [] ∧ T = v.term) ∨ (∃ r, pre = [(.setTerm T, r)] ∧ v.term ≤ T ∧ r.panic = true))
    (hterm : ∀ k, (applyAll (applyAll d (pre.map (·.1))) ((rest.map (·.1)).take k)).curTerm =
        (applyAll d (pre.map (·.1))).curTerm)
    (hbound : ∀ t c k, Bound t c (applyAll d (pre.map (·.1))) →
        Bound t c (applyAll (applyAll d (pre.map (·.1))) ((rest.map (·.1)).take k)))
    (hres : ∀ s ∈ rest, s.2.vol.term = T) (hfinal : p.final.panic = false → p.final.vol.term = T) :
    PlanOK d p := by
  have hw : p.writes = pre.map (·.1) ++ rest.map (·.1) := by
    unfold Plan.writes; rw [hsteps, List.map_append]
  -- the image after the term part
  have hd1 : (applyAll d (pre.map (·.1))).curTerm = T ∧ d.curTerm ≤ T ∧
      (∀ t c, Bound t c d → Bound t c (applyAll d (pre.map (·.1)))) := by
    rcases hpre with ⟨hp, hT⟩ | ⟨r, hp, hx, _⟩
    · subst hp; simp only [List.map_nil, applyAll, List.foldl_nil]
      exact ⟨by omega, by omega, fun _ _ h => h⟩
    · subst hp; simp only [List.map_cons, List.map_nil, applyAll, List.foldl_cons, List.foldl_nil]
      exact ⟨rfl, by omega, fun t c h => bound_setTerm t c T d (by omega) h⟩
  obtain ⟨hd1T, hd1le, hd1b⟩ := hd1
  -- prefixes of the writes: inside the term part, or the term part and a prefix of the rest
  have hsplit : ∀ k, (k < (pre.map (·.1)).length ∧ (p.writes.take k) = []) ∨
      (applyAll d (p.writes.take k) = applyAll (applyAll d (pre.map (·.1))) ((rest.map (·.1)).take (k - pre.length))
        ∧ pre.length ≤ k) := by
    intro k
    rw [hw]
    rcases hpre with ⟨hp, _⟩ | ⟨r, hp, _, _⟩
    · subst hp; right; simp [applyAll]
    · subst hp
      cases k with
      | zero => left; simp
      | succ k => right; simp [applyAll]
  refine ⟨?_, ?_, ?_, ?_⟩
  · intro t c k hb
    rcases hsplit k with ⟨_, h0⟩ | ⟨h1, _⟩
    · rw [h0]; exact hb
    · rw [h1]; exact hbound t c _ (hd1b t c hb)
  · intro k
    rcases hsplit k with ⟨_, h0⟩ | ⟨h1, _⟩
    · rw [h0]; exact Nat.le_refl _
    · rw [h1, hterm, hd1T]; exact hd1le
  · intro k w r hs hnp
    rw [hsteps] at hs
    by_cases hk : k < pre.length
    · rcases hpre with ⟨hp, _⟩ | ⟨r0, hp, _, hr0⟩
      · subst hp; simp at hk
      · subst hp
        have : k = 0 := by simp at hk; omega
        subst this
        simp at hs
        obtain ⟨_, rfl⟩ := hs
        rw [hr0] at hnp; cases hnp
    · have hk' : pre.length ≤ k := by omega
      rw [List.getElem?_append_right hk'] at hs
      have hmem := List.mem_of_getElem? hs
      rcases hsplit k with ⟨hlt, _⟩ | ⟨h1, _⟩
      · simp at hlt; omega
      · rw [h1, hterm, hd1T]; exact hres _ hmem
  · intro hnp
    have h1 : applyAll d p.writes = applyAll (applyAll d (pre.map (·.1))) ((rest.map (·.1)).take (rest.map (·.1)).length) := by
      rw [List.take_length, hw, applyAll_append]
    rw [h1, hterm, hd1T]; exact hfinal hnp

theorem voteVol1_term (v : Vol) (q : VoteReq) (h : ¬ q.term < v.term) : (voteVol1 v q).term = q.term := by
  unfold voteVol1
  by_cases hd : q.term > v.term
  · simp [hd, stepDown]
  · simp [hd]; omega

theorem votePre_shape (v : Vol) (q : VoteReq) (h : ¬ q.term < v.term) :
    (votePre v q = [] ∧ q.term = v.term) ∨
    (∃ r, votePre v q = [(.setTerm q.term, r)] ∧ v.term ≤ q.term ∧ r.panic = true) := by
  unfold votePre
  by_cases hd : q.term > v.term
  · right; rw [if_pos hd]; exact ⟨_, rfl, by omega, rfl⟩
  · left; rw [if_neg hd]; exact ⟨rfl, by omega⟩

/-- the image after the term part of a vote plan: durable term `q.term`, vote record untouched -/
theorem votePre_image (d : Durable) (v : Vol) (q : VoteReq) (hsync : v.term = d.curTerm) (h : ¬ q.term < v.term) :
    (applyAll d ((votePre v q).map (·.1))).curTerm = q.term ∧
    (applyAll d ((votePre v q).map (·.1))).voteTerm = d.voteTerm ∧
    (applyAll d ((votePre v q).map (·.1))).voteCand = d.voteCand := by
  unfold votePre
  by_cases hd : q.term > v.term
  · simp [hd, applyAll, Write.apply]
  · simp [hd, applyAll]; omega

theorem voteWrites_term (d1 : Durable) (x c : Nat) (k : Nat) :
    (applyAll d1 (([Write.setVoteTerm x, Write.setVoteCand c]).take k)).curTerm = d1.curTerm := by
  match k with
  | 0 => rfl
  | 1 => rfl
  | k + 2 => simp [applyAll, Write.apply]

theorem votePlan_ok (d : Durable) (v : Vol) (q : VoteReq) (hsync : v.term = d.curTerm) :
    PlanOK d (votePlan d v q) := by
  have plainNo : PlainPlan v ⟨[], mkRes (.vote v.term false) v⟩ :=
    ⟨[], [], v.term, rfl, Or.inl ⟨rfl, rfl⟩, by simp, fun _ => rfl⟩
  unfold votePlan
  simp only []
  by_cases c1 : q.candId ≠ 0 ∧ v.latest ≠ [] ∧ ¬ inConfiguration v.latest q.candId
  · rw [if_pos c1]; exact plain_ok d v _ hsync plainNo
  rw [if_neg c1]
  by_cases c2 : v.leader ≠ 0 ∧ v.leader ≠ q.cand ∧ ¬ q.transfer
  · rw [if_pos c2]; exact plain_ok d v _ hsync plainNo
  rw [if_neg c2]
  by_cases c3 : q.term < v.term
  · rw [if_pos c3]; exact plain_ok d v _ hsync plainNo
  rw [if_neg c3]
  have hT := voteVol1_term v q c3
  have hpre := votePre_shape v q c3
  have plainPre : ∀ (fin : Res), fin.vol.term = q.term → PlainPlan v ⟨votePre v q, fin⟩ :=
    fun fin hf => ⟨_, [], q.term, by simp, hpre, by simp, fun _ => hf⟩
  by_cases c4 : q.candId ≠ 0 ∧ v.latest ≠ [] ∧ ¬ hasVote v.latest q.candId
  · rw [if_pos c4]; exact plain_ok d v _ hsync (plainPre _ hT)
  rw [if_neg c4]
  by_cases c5 : (lastEntry (voteVol1 v q)).2 > q.lastTerm
  · rw [if_pos c5]; exact plain_ok d v _ hsync (plainPre _ hT)
  rw [if_neg c5]
  by_cases c6 : (lastEntry (voteVol1 v q)).2 = q.lastTerm ∧ (lastEntry (voteVol1 v q)).1 > q.lastIdx
  · rw [if_pos c6]; exact plain_ok d v _ hsync (plainPre _ hT)
  rw [if_neg c6]
  by_cases c7 : d.voteTerm = q.term ∧ d.voteCand.isSome
  · rw [if_pos c7]; exact plain_ok d v _ hsync (plainPre _ hT)
  rw [if_neg c7]
  -- a fresh vote: the term part, then the two vote writes
  obtain ⟨i1, i2, i3⟩ := votePre_image d v q hsync c3
  refine general_ok d v _ hsync (votePre v q)
    [(.setVoteTerm q.term, mkRes (.vote (voteVol1 v q).term false) (voteVol1 v q)),
     (.setVoteCand q.cand, mkRes (.vote (voteVol1 v q).term false) (voteVol1 v q))] q.term rfl hpre ?_ ?_ ?_ (fun _ => hT)
  · intro k
    exact voteWrites_term _ _ _ k
  · intro t c k hb
    have hgt : (applyAll d ((votePre v q).map (·.1))).curTerm > t := by
      rcases hb with hb | ⟨b1, b2, b3⟩
      · exact hb
      · exfalso
        apply c7
        rw [i2] at b2; rw [i3] at b3; rw [i1] at b1
        exact ⟨by omega, by rw [b3]; rfl⟩
    left
    have := voteWrites_term (applyAll d ((votePre v q).map (·.1))) q.term q.cand k
    simp only [List.map_cons, List.map_nil] at this ⊢
    rw [this]; exact hgt
  · intro s hs
    simp only [List.mem_cons, List.mem_nil_iff, or_false] at hs
    rcases hs with hs | hs <;> (subst hs; exact hT)

/-! ## the candidate loop -/

/-- writes of a campaign after its first term write: vote writes, or a later (larger) term -/
def Write.risingFrom (x : Nat) : Write → Prop
  | .setTerm y => x ≤ y
  | .setVoteTerm _ => True
  | .setVoteCand _ => True
  | _ => False

theorem rising_term (x : Nat) (ws : List Write) (d1 : Durable) (h1 : x ≤ d1.curTerm)
    (hws : ∀ w ∈ ws, w.risingFrom x) : x ≤ (applyAll d1 ws).curTerm := by
  induction ws generalizing d1 with
  | nil => exact h1
  | cons w rest ih =>
    simp only [applyAll, List.foldl_cons]
    apply ih
    · have hw := hws w List.mem_cons_self
      cases w <;> simp only [Write.risingFrom] at hw <;> simp only [Write.apply] <;> first | omega | exact h1 | (cases hw)
    · intro w' hw'; exact hws w' (List.mem_cons_of_mem _ hw')

/-- a plan that writes nothing, or starts by raising the durable term and afterwards writes only the
    vote record or still larger terms, and whose every write failure is the death of the process -/
theorem rising_ok (d : Durable) (p : Plan)
    (hshape : p.steps = [] ∨ ∃ x r0 rest, p.steps = (.setTerm x, r0) :: rest ∧ d.curTerm < x ∧
        ∀ s ∈ rest, s.1.risingFrom x)
    (hpanic : ∀ s ∈ p.steps, s.2.panic = true)
    (hfinal : p.final.vol.term = (applyAll d p.writes).curTerm) : PlanOK d p := by
  have key : ∀ k, p.writes.take k = [] ∨ ∃ x, d.curTerm < x ∧ x ≤ (applyAll d (p.writes.take k)).curTerm := by
    intro k
    rcases hshape with h0 | ⟨x, r0, rest, hs, hx, hr⟩
    · left; unfold Plan.writes; rw [h0]; simp
    · cases k with
      | zero => left; simp
      | succ k =>
        right
        refine ⟨x, hx, ?_⟩
        unfold Plan.writes; rw [hs]
        simp only [List.map_cons, List.take_succ_cons, applyAll, List.foldl_cons]
        apply rising_term x _ (Write.apply d (.setTerm x)) (by simp [Write.apply])
        intro w hw
        obtain ⟨s, hs', rfl⟩ := List.mem_map.mp (List.mem_of_mem_take hw)
        exact hr s hs'
  refine ⟨?_, ?_, ?_, fun _ => hfinal⟩
  · intro t c k hb
    rcases key k with h0 | ⟨x, hx, hle⟩
    · rw [h0]; exact hb
    · left
      rcases hb with hb | ⟨hb, _, _⟩ <;> omega
  · intro k
    rcases key k with h0 | ⟨x, hx, hle⟩
    · rw [h0]; exact Nat.le_refl _
    · omega
  · intro k w r hs hnp
    have := hpanic (w, r) (List.mem_of_getElem? hs)
    rw [this] at hnp; cases hnp

/-- a newer term seen by `tally` is above the limit -/
theorem tally_higher (needed limit g : Nat) (l : List (Nat × Bool)) (t : Nat)
    (h : tally needed limit g l = .higher t) : limit < t := by
  induction l generalizing g with
  | nil => simp [tally] at h
  | cons a rest ih =>
    unfold tally at h
    by_cases h1 : a.1 > limit
    · rw [if_pos h1] at h; injection h with h; omega
    · rw [if_neg h1] at h
      simp only [] at h
      by_cases h2 : (if a.2 = true then g + 1 else g) ≥ needed
      · rw [if_pos h2] at h; cases h
      · rw [if_neg h2] at h; exact ih _ h

theorem campBase_writes (v : Vol) :
    ∃ rest, campBase v = (.setTerm (v.term + 1), campDead v) :: rest ∧
      (∀ s ∈ rest, s.1.risingFrom (v.term + 1)) ∧ (∀ s ∈ campBase v, s.2.panic = true) ∧
      (∀ d : Durable, (applyAll d ((campBase v).map (·.1))).curTerm = v.term + 1) := by
  unfold campBase
  by_cases hv : hasVote v.latest selfId = true
  · simp only [hv, if_true]
    refine ⟨_, rfl, ?_, ?_, ?_⟩
    · intro s hs
      simp only [List.mem_cons, List.mem_nil_iff, or_false] at hs
      rcases hs with hs | hs <;> (subst hs; simp [Write.risingFrom])
    · intro s hs
      simp only [List.mem_cons, List.mem_nil_iff, or_false] at hs
      rcases hs with hs | hs | hs <;> (subst hs; rfl)
    · intro d; simp [applyAll, Write.apply]
  · have hv' : hasVote v.latest selfId = false := by simpa using hv
    simp only [hv', Bool.false_eq_true, if_false]
    refine ⟨[], rfl, by simp, ?_, ?_⟩
    · intro s hs
      simp only [List.mem_cons, List.mem_nil_iff, or_false] at hs
      subst hs; rfl
    · intro d; simp [applyAll, Write.apply]

theorem campElect_ok (d : Durable) (v : Vol) (rs : List PeerResp) (pre : List Nat) (hsync : v.term = d.curTerm) :
    PlanOK d (campElect v rs pre) := by
  obtain ⟨rest, hb, hr, hp, hc⟩ := campBase_writes v
  unfold campElect
  simp only []
  cases ht : tally (quorumOf v.latest) (v.term + 1) 0 (campSelf v ++ voteAnswers (v.term + 1) (campAsked v) rs) with
  | won =>
    simp only []
    apply rising_ok
    · right; exact ⟨v.term + 1, campDead v, rest, hb, by omega, hr⟩
    · exact hp
    · simp only [Plan.writes, mkRes, campDone]; rw [hc]
  | «open» =>
    simp only []
    apply rising_ok
    · right; exact ⟨v.term + 1, campDead v, rest, hb, by omega, hr⟩
    · exact hp
    · simp only [Plan.writes, mkRes, campDone]; rw [hc]
  | higher t =>
    simp only []
    have hgt := tally_higher _ _ _ _ _ ht
    apply rising_ok
    · right
      refine ⟨v.term + 1, campDead v, rest ++ [(.setTerm t, campDead { v with term := v.term + 1 })], by rw [hb]; rfl, by omega, ?_⟩
      intro s hs
      rcases List.mem_append.mp hs with hs | hs
      · exact hr s hs
      · simp only [List.mem_cons, List.mem_nil_iff, or_false] at hs
        subst hs; simp only [Write.risingFrom]; omega
    · intro s hs
      rcases List.mem_append.mp hs with hs | hs
      · exact hp s hs
      · simp only [List.mem_cons, List.mem_nil_iff, or_false] at hs
        subst hs; rfl
    · simp only [Plan.writes, mkRes, campDone, stepDown, List.map_append, List.map_cons, List.map_nil, applyAll,
        List.foldl_append, List.foldl_cons, List.foldl_nil, Write.apply]

theorem campaign_ok (cf : Cfg) (d : Durable) (v : Vol) (rs : List PeerResp) (hsync : v.term = d.curTerm) :
    PlanOK d (campaign cf v rs) := by
  unfold campaign
  split
  · exact campElect_ok d v rs [] hsync
  · cases ht : tally (quorumOf v.latest) (v.term + 1) 0 (campSelf v ++ preVoteAnswers (v.term + 1) (campAsked v) rs) with
    | won => exact campElect_ok d v rs _ hsync
    | «open» =>
      simp only []
      apply rising_ok
      · left; rfl
      · intro s hs; cases hs
      · simp only [Plan.writes, mkRes, campDone, List.map_nil, applyAll, List.foldl_nil]; exact hsync
    | higher t =>
      simp only []
      have hgt := tally_higher _ _ _ _ _ ht
      apply rising_ok
      · right; exact ⟨t, campDead v, [], rfl, by omega, by simp⟩
      · intro s hs
        simp only [List.mem_cons, List.mem_nil_iff, or_false] at hs
        subst hs; rfl
      · simp [Plan.writes, mkRes, campDone, stepDown, applyAll, Write.apply]

/-- a granting final answer: the answering state carries the request's term, and a vote record of
    that term for someone else would have made the answer a refusal -/
theorem votePlan_granted_facts (d : Durable) (v : Vol) (q : VoteReq) (t : Nat)
    (h : (votePlan d v q).final.resp = .vote t true) :
    (votePlan d v q).final.vol.term = q.term ∧ (votePlan d v q).final.panic = false ∧
    (∀ c', d.voteTerm = q.term → d.voteCand = some c' → c' = q.cand) := by
  unfold votePlan at h ⊢
  simp only [] at h ⊢
  by_cases c1 : q.candId ≠ 0 ∧ v.latest ≠ [] ∧ ¬ inConfiguration v.latest q.candId
  · rw [if_pos c1] at h; simp [mkRes] at h
  rw [if_neg c1] at h ⊢
  by_cases c2 : v.leader ≠ 0 ∧ v.leader ≠ q.cand ∧ ¬ q.transfer
  · rw [if_pos c2] at h; simp [mkRes] at h
  rw [if_neg c2] at h ⊢
  by_cases c3 : q.term < v.term
  · rw [if_pos c3] at h; simp [mkRes] at h
  rw [if_neg c3] at h ⊢
  have hT := voteVol1_term v q c3
  by_cases c4 : q.candId ≠ 0 ∧ v.latest ≠ [] ∧ ¬ hasVote v.latest q.candId
  · rw [if_pos c4] at h; simp [mkRes] at h
  rw [if_neg c4] at h ⊢
  by_cases c5 : (lastEntry (voteVol1 v q)).2 > q.lastTerm
  · rw [if_pos c5] at h; simp [mkRes] at h
  rw [if_neg c5] at h ⊢
  by_cases c6 : (lastEntry (voteVol1 v q)).2 = q.lastTerm ∧ (lastEntry (voteVol1 v q)).1 > q.lastIdx
  · rw [if_pos c6] at h; simp [mkRes] at h
  rw [if_neg c6] at h ⊢
  by_cases c7 : d.voteTerm = q.term ∧ d.voteCand.isSome
  · rw [if_pos c7] at h ⊢
    refine ⟨hT, rfl, ?_⟩
    intro c' _ hc
    simp only [mkRes, Resp.vote.injEq, decide_eq_true_eq] at h
    rw [hc] at h
    exact Option.some.inj h.2
  · rw [if_neg c7]
    refine ⟨hT, rfl, ?_⟩
    intro c' h1 h2
    exact absurd ⟨h1, by rw [h2]; rfl⟩ c7

/-! ## runs of the stepped server -/

/-- a running server's in-memory term is its durable term -/
def Synced (w : World) : Prop := w.dead = false → w.v.term = w.d.curTerm

theorem exec_cases' (p : Plan) (f c : Option Nat) :
    exec p f c = (p.final, p.writes) ∨
    ∃ k w r, p.steps[k]? = some (w, r) ∧
      ((exec p f c).1 = r ∨ (exec p f c).1 = { r with panic := true }) ∧ (exec p f c).2 = p.writes.take k := by
  unfold exec
  simp only []
  split
  · left; rfl
  · rename_i k isCrash _
    split
    · rename_i w r hs
      right
      refine ⟨k, w, r, hs, ?_, rfl⟩
      by_cases hc : isCrash <;> simp [hc]
    · left; rfl

theorem planOf_ok (w : World) (hs : w.v.term = w.d.curTerm) (e : Event) (p : Plan) (f c : Option Nat)
    (h : planOf w e = some (p, f, c)) : PlanOK w.d p := by
  cases e with
  | vote q f' c' => simp [planOf] at h; obtain ⟨rfl, _, _⟩ := h; exact votePlan_ok _ _ _ hs
  | prevote q => simp [planOf] at h; obtain ⟨rfl, _, _⟩ := h; exact plain_ok _ _ _ hs (preVotePlan_plain _ _)
  | append a f' c' => simp [planOf] at h; obtain ⟨rfl, _, _⟩ := h; exact plain_ok _ _ _ hs (aePlan_plain _ _ _ _)
  | install q f' c' => simp [planOf] at h; obtain ⟨rfl, _, _⟩ := h; exact plain_ok _ _ _ hs (isPlan_plain _ _ _ _)
  | timeoutNow => simp [planOf] at h; obtain ⟨rfl, _, _⟩ := h; exact plain_ok _ _ _ hs (timeoutNowPlan_plain _)
  | snapshot f' c' => simp [planOf] at h; obtain ⟨rfl, _, _⟩ := h; exact plain_ok _ _ _ hs (snapPlan_plain _ _ _ _ _)
  | campaign rs => simp [planOf] at h; obtain ⟨rfl, _, _⟩ := h; exact campaign_ok _ _ _ _ hs
  | restart => simp [planOf] at h
  | damagedRestart => simp [planOf] at h
  | setRole _ _ _ => simp [planOf] at h

theorem boot_synced (cf : Cfg) (d : Durable) : Synced (boot cf d).1 ∧ (boot cf d).1.d = d := by
  unfold boot
  cases hr : restart cf d with
  | none => exact ⟨fun h => by simp at h, rfl⟩
  | some r =>
    obtain ⟨v, calls⟩ := r
    refine ⟨fun _ => ?_, rfl⟩
    exact (restart_resumes cf d v calls hr).1

theorem restart_world_synced (cf : Cfg) (d : Durable) :
    Synced (match restart cf d with
      | none => (⟨cf, d, emptyVol, true, (0, 0), []⟩ : World)
      | some (v, calls) => ⟨cf, d, v, false, (fsmFresh d v calls).1, (fsmFresh d v calls).2⟩) := by
  cases hr : restart cf d with
  | none => intro h; simp at h
  | some r =>
    obtain ⟨v, calls⟩ := r
    intro _
    exact (restart_resumes cf d v calls hr).1

/-- one handler run: synced afterwards, durable term not lower, grants still bound -/
theorem step_plan (w : World) (p : Plan) (f c : Option Nat) (hsync : w.v.term = w.d.curTerm) (hp : PlanOK w.d p) :
    Synced (stepPlan w p f c).1 ∧ w.d.curTerm ≤ (stepPlan w p f c).1.d.curTerm ∧
    (∀ t c', Bound t c' w.d → Bound t c' (stepPlan w p f c).1.d) ∧
    (stepPlan w p f c).1.d = applyAll w.d (exec p f c).2 := by
  obtain ⟨m, hm⟩ := exec_prefix p f c
  have hd' : (stepPlan w p f c).1.d = applyAll w.d (exec p f c).2 := by
    unfold stepPlan
    simp only []
    split
    · split <;> rfl
    · rfl
  refine ⟨?_, ?_, ?_, hd'⟩
  · unfold stepPlan
    simp only []
    by_cases hpan : (exec p f c).1.panic = true
    · rw [if_pos hpan]
      have := restart_world_synced w.cf (applyAll w.d (exec p f c).2)
      cases hr : restart w.cf (applyAll w.d (exec p f c).2) with
      | none => intro h; simp at h
      | some r => rw [hr] at this; exact this
    · rw [if_neg hpan]
      intro _
      simp only []
      have hnp : (exec p f c).1.panic = false := by simpa using hpan
      rcases exec_cases' p f c with hfin | ⟨k, w', r, hs, hr, hw⟩
      · rw [hfin] at hnp ⊢
        exact hp.finalSync hnp
      · rcases hr with hr | hr
        · rw [hr] at hnp ⊢
          rw [hw]; exact hp.stepSync k w' r hs hnp
        · rw [hr] at hnp; simp at hnp
  · rw [hd', hm]; exact hp.mono m
  · intro t c' hb
    rw [hd', hm]; exact hp.bound t c' m hb

/-- one event: the server stays synced, its durable term does not decrease, every grant stays bound -/
theorem step_inv (w : World) (e : Event) (hs : Synced w) :
    Synced (stepEvent w e).1 ∧ w.d.curTerm ≤ (stepEvent w e).1.d.curTerm ∧
    (∀ t c, Bound t c w.d → Bound t c (stepEvent w e).1.d) := by
  unfold stepEvent
  by_cases hd : w.dead = true
  · rw [if_pos hd]; exact ⟨hs, Nat.le_refl _, fun _ _ h => h⟩
  · rw [if_neg hd]
    have hdead : w.dead = false := by simpa using hd
    have hsync := hs hdead
    have plan : ∀ p f c, PlanOK w.d p →
        Synced (stepPlan w p f c).1 ∧ w.d.curTerm ≤ (stepPlan w p f c).1.d.curTerm ∧
        (∀ t c', Bound t c' w.d → Bound t c' (stepPlan w p f c).1.d) :=
      fun p f c hp => let ⟨a, b, c', _⟩ := step_plan w p f c hsync hp; ⟨a, b, c'⟩
    cases e with
    | restart =>
      simp only []
      obtain ⟨b1, b2⟩ := boot_synced w.cf w.d
      rw [b2]; exact ⟨b1, Nat.le_refl _, fun _ _ h => h⟩
    | damagedRestart =>
      simp only []
      obtain ⟨b1, b2⟩ := boot_synced w.cf { w.d with snaps := damageNewest w.d.snaps }
      rw [b2]; exact ⟨b1, Nat.le_refl _, fun t c h => bound_of_same t c w.d _ rfl rfl rfl h⟩
    | setRole r l lid =>
      simp only []
      exact ⟨fun _ => hsync, Nat.le_refl _, fun _ _ h => h⟩
    | vote q f c => exact plan _ _ _ (planOf_ok w hsync (.vote q f c) _ _ _ rfl)
    | prevote q => exact plan _ _ _ (planOf_ok w hsync (.prevote q) _ _ _ rfl)
    | append a f c => exact plan _ _ _ (planOf_ok w hsync (.append a f c) _ _ _ rfl)
    | install q f c => exact plan _ _ _ (planOf_ok w hsync (.install q f c) _ _ _ rfl)
    | timeoutNow => exact plan _ _ _ (planOf_ok w hsync .timeoutNow _ _ _ rfl)
    | snapshot f c => exact plan _ _ _ (planOf_ok w hsync (.snapshot f c) _ _ _ rfl)
    | campaign rs => exact plan _ _ _ (planOf_ok w hsync (.campaign rs) _ _ _ rfl)

theorem stepPlan_durable' (w : World) (p : Plan) (f c : Option Nat) :
    (stepPlan w p f c).1.d = applyAll w.d (exec p f c).2 := by
  unfold stepPlan
  simp only []
  split
  · split <;> rfl
  · rfl

/-- a candidate's vote for itself, read off the writes of its campaign: the term and candidate it
    has just persisted -/
def selfVoteOf : List Write → Option (Nat × Nat)
  | .setTerm _ :: .setVoteTerm t :: .setVoteCand c :: _ => some (t, c)
  | _ => none

/-- the grant an observation reports, if any: (term, candidate) -/
def grantOf (e : Event) (o : Obs) : Option (Nat × Nat) :=
  match e with
  | .vote q _ _ => (match o.resp with
      | .vote t true => some (t, q.cand)
      | _ => none)
  | .campaign _ => (match o.resp with
      | .campaigned _ _ _ _ _ _ => selfVoteOf o.writes
      | _ => none)
  | _ => none

/-- the writes of one pass of the candidate loop: nothing; a newer term learnt in the pre-vote round;
    or the new term, the candidate's own vote if it is a voter, and possibly a still newer term -/
theorem campaign_writes (cf : Cfg) (v : Vol) (rs : List PeerResp) :
    (campaign cf v rs).final.panic = false ∧
    ((campaign cf v rs).writes = [] ∨
     (∃ t, v.term + 1 < t ∧ (campaign cf v rs).writes = [.setTerm t]) ∨
     (∃ tail, (campaign cf v rs).writes = .setTerm (v.term + 1) :: tail ∧
        (tail = [] ∨ ∃ t, v.term + 1 < t ∧ tail = [.setTerm t])) ∨
     (∃ tail, (campaign cf v rs).writes =
          .setTerm (v.term + 1) :: .setVoteTerm (v.term + 1) :: .setVoteCand selfAddr :: tail ∧
        (tail = [] ∨ ∃ t, v.term + 1 < t ∧ tail = [.setTerm t]))) := by
  have elect : ∀ pre, (campElect v rs pre).final.panic = false ∧
      ((∃ tail, (campElect v rs pre).writes = .setTerm (v.term + 1) :: tail ∧
          (tail = [] ∨ ∃ t, v.term + 1 < t ∧ tail = [.setTerm t])) ∨
       (∃ tail, (campElect v rs pre).writes =
            .setTerm (v.term + 1) :: .setVoteTerm (v.term + 1) :: .setVoteCand selfAddr :: tail ∧
          (tail = [] ∨ ∃ t, v.term + 1 < t ∧ tail = [.setTerm t]))) := by
    intro pre
    unfold campElect
    simp only []
    have hbase : (campBase v).map (·.1) = [.setTerm (v.term + 1)] ∨
        (campBase v).map (·.1) = [.setTerm (v.term + 1), .setVoteTerm (v.term + 1), .setVoteCand selfAddr] := by
      unfold campBase
      by_cases hv : hasVote v.latest selfId = true
      · right; simp [hv]
      · have hv' : hasVote v.latest selfId = false := by simpa using hv
        left; simp [hv']
    cases ht : tally (quorumOf v.latest) (v.term + 1) 0 (campSelf v ++ voteAnswers (v.term + 1) (campAsked v) rs) with
    | won =>
      refine ⟨rfl, ?_⟩
      rcases hbase with hb | hb
      · left; exact ⟨[], by simp [Plan.writes, hb], Or.inl rfl⟩
      · right; exact ⟨[], by simp [Plan.writes, hb], Or.inl rfl⟩
    | «open» =>
      refine ⟨rfl, ?_⟩
      rcases hbase with hb | hb
      · left; exact ⟨[], by simp [Plan.writes, hb], Or.inl rfl⟩
      · right; exact ⟨[], by simp [Plan.writes, hb], Or.inl rfl⟩
    | higher t =>
      have hgt := tally_higher _ _ _ _ _ ht
      refine ⟨rfl, ?_⟩
      rcases hbase with hb | hb
      · left; exact ⟨[.setTerm t], by simp [Plan.writes, hb], Or.inr ⟨t, hgt, rfl⟩⟩
      · right; exact ⟨[.setTerm t], by simp [Plan.writes, hb], Or.inr ⟨t, hgt, rfl⟩⟩
  unfold campaign
  split
  · obtain ⟨a, b⟩ := elect []
    exact ⟨a, Or.inr (Or.inr b)⟩
  · cases ht : tally (quorumOf v.latest) (v.term + 1) 0 (campSelf v ++ preVoteAnswers (v.term + 1) (campAsked v) rs) with
    | won =>
      obtain ⟨a, b⟩ := elect (campAsked v)
      exact ⟨a, Or.inr (Or.inr b)⟩
    | «open» => exact ⟨rfl, Or.inl rfl⟩
    | higher t =>
      have hgt := tally_higher _ _ _ _ _ ht
      exact ⟨rfl, Or.inr (Or.inl ⟨t, hgt, rfl⟩)⟩

/-- all grants reported along a run, in order -/
def grants : World → List Event → List (Nat × Nat)
  | _, [] => []
  | w, e :: es =>
    (match grantOf e (stepEvent w e).2 with
      | some g => [g]
      | none => []) ++ grants (stepEvent w e).1 es

/-- the world a run ends in -/
def runWorld : World → List Event → World
  | w, [] => w
  | w, e :: es => runWorld (stepEvent w e).1 es

/-- a reported grant is on disk and binding afterwards, and it agrees with every grant that was
    binding before -/
theorem grant_step (w : World) (e : Event) (hs : Synced w) (t c : Nat)
    (hg : grantOf e (stepEvent w e).2 = some (t, c)) :
    Bound t c (stepEvent w e).1.d ∧ (∀ c', Bound t c' w.d → c' = c) := by
  cases e with
  | vote q f cr =>
    unfold stepEvent at hg ⊢
    by_cases hd : w.dead = true
    · rw [if_pos hd] at hg; simp [grantOf, deadObs] at hg
    · rw [if_neg hd] at hg ⊢
      have hdead : w.dead = false := by simpa using hd
      have hsync := hs hdead
      simp only [planOf] at hg ⊢
      have hp := votePlan_ok w.d w.v q hsync
      obtain ⟨_, _, _, hd'⟩ := step_plan w (votePlan w.d w.v q) f cr hsync hp
      -- the observation reports the handler's answer only if the process survived
      have hobs : (exec (votePlan w.d w.v q) f cr).1.panic = false ∧
          (exec (votePlan w.d w.v q) f cr).1.resp = .vote t true ∧ c = q.cand := by
        unfold stepPlan at hg
        simp only [] at hg
        by_cases hpan : (exec (votePlan w.d w.v q) f cr).1.panic = true
        · rw [if_pos hpan] at hg
          split at hg <;> simp [grantOf, deadObs] at hg
        · rw [if_neg hpan] at hg
          simp only [grantOf] at hg
          split at hg
          · rename_i t' heq
            injection hg with hg; injection hg with h1 h2
            exact ⟨by simpa using hpan, by rw [← h1]; exact heq, h2.symm⟩
          · cases hg
      obtain ⟨hnp, hresp, hc⟩ := hobs
      subst hc
      -- a granting answer is the plan's final answer
      have hfin : exec (votePlan w.d w.v q) f cr = ((votePlan w.d w.v q).final, (votePlan w.d w.v q).writes) := by
        rcases exec_cases' (votePlan w.d w.v q) f cr with hfin | ⟨k, w', r, hsk, hr, _⟩
        · exact hfin
        · exfalso
          have href := votePlan_steps_refuse w.d w.v q (w', r) (List.mem_of_getElem? hsk) t
          rcases hr with hr | hr <;> (rw [hr] at hresp; exact href hresp)
      have hresp' : (votePlan w.d w.v q).final.resp = .vote t true := by rw [hfin] at hresp; exact hresp
      obtain ⟨hle, ht, _, _, _, _⟩ := votePlan_final_granted w.d w.v q t hresp'
      obtain ⟨hvt, hfp, hrec⟩ := votePlan_granted_facts w.d w.v q t hresp'
      obtain ⟨_, _, _, _, _, hvT, hvC⟩ := vote_grant_sound w.d w.v q f cr t hresp
      constructor
      · right
        rw [hd']
        refine ⟨?_, by rw [hvT, ht], by rw [hvC]⟩
        rw [hfin]
        rw [← hp.finalSync hfp, hvt, ht]
      · intro c' hb
        rcases hb with hb | ⟨b1, b2, b3⟩
        · omega
        · exact hrec c' (by rw [b2, ht]) b3
  | prevote q => simp [grantOf] at hg
  | append a f c' => simp [grantOf] at hg
  | install q f c' => simp [grantOf] at hg
  | timeoutNow => simp [grantOf] at hg
  | snapshot f' c' => simp [grantOf] at hg
  | campaign rs =>
    unfold stepEvent at hg ⊢
    by_cases hd : w.dead = true
    · rw [if_pos hd] at hg; simp [grantOf, deadObs] at hg
    · rw [if_neg hd] at hg ⊢
      have hdead : w.dead = false := by simpa using hd
      have hsync := hs hdead
      simp only [planOf] at hg ⊢
      obtain ⟨hnp, hcases⟩ := campaign_writes w.cf w.v rs
      have hd' := stepPlan_durable' w (campaign w.cf w.v rs) none none
      -- nothing armed: the plan runs to its end and the observation lists all its writes
      have hobs : (stepPlan w (campaign w.cf w.v rs) none none).2.writes = (campaign w.cf w.v rs).writes := by
        unfold stepPlan
        simp only [exec_none, hnp, Bool.false_eq_true, if_false]
      have hresp : (stepPlan w (campaign w.cf w.v rs) none none).2.resp = (campaign w.cf w.v rs).final.resp := by
        unfold stepPlan
        simp only [exec_none, hnp, Bool.false_eq_true, if_false]
      rw [exec_none] at hd'
      have hsv : selfVoteOf (campaign w.cf w.v rs).writes = some (t, c) := by
        simp only [grantOf, hobs] at hg
        split at hg
        · exact hg
        · cases hg
      -- only the shape with the candidate's own vote reports a grant
      rcases hcases with h0 | ⟨t', _, h1⟩ | ⟨tail, h2, htail⟩ | ⟨tail, h3, htail⟩
      · rw [h0] at hsv; simp [selfVoteOf] at hsv
      · rw [h1] at hsv; simp [selfVoteOf] at hsv
      · rw [h2] at hsv
        rcases htail with rfl | ⟨t', _, rfl⟩ <;> simp [selfVoteOf] at hsv
      · rw [h3] at hsv
        simp only [selfVoteOf, Option.some.injEq, Prod.mk.injEq] at hsv
        obtain ⟨rfl, rfl⟩ := hsv
        constructor
        · rw [hd', h3]
          rcases htail with rfl | ⟨t', ht', rfl⟩
          · right; simp [applyAll, Write.apply]
          · left; simp [applyAll, Write.apply]; omega
        · intro c' hb
          rcases hb with hb | ⟨hb, _, _⟩ <;> omega
  | restart => simp [grantOf] at hg
  | damagedRestart => simp [grantOf] at hg
  | setRole _ _ _ => simp [grantOf] at hg

/-- a binding grant is respected by every later grant of its term -/
theorem later_grants_respect (w : World) (es : List Event) (hs : Synced w) (t c : Nat) (hb : Bound t c w.d) :
    ∀ g ∈ grants w es, g.1 = t → g.2 = c := by
  induction es generalizing w with
  | nil => intro g hg; cases hg
  | cons e es ih =>
    intro g hg ht
    obtain ⟨s1, _, s3⟩ := step_inv w e hs
    unfold grants at hg
    rcases List.mem_append.mp hg with hg | hg
    · cases hgo : grantOf e (stepEvent w e).2 with
      | none => rw [hgo] at hg; cases hg
      | some g0 =>
        rw [hgo] at hg
        simp only [List.mem_cons, List.mem_nil_iff, or_false] at hg
        subst hg
        obtain ⟨_, h2⟩ := grant_step w e hs g.1 g.2 (by rw [hgo])
        exact (h2 c (by rw [ht]; exact hb)).symm
    · exact ih _ s1 (s3 t c hb) g hg ht

/-- **C06, one vote per term along every run**: any sequence of RequestVote / RequestPreVote /
    AppendEntries / InstallSnapshot / TimeoutNow messages, role changes and restarts, any write
    failure or crash ordinal in any handler — two grants of one term name one candidate. -/
theorem one_vote_per_term (w : World) (es : List Event) (hs : Synced w) :
    (grants w es).Pairwise (fun a b => a.1 = b.1 → a.2 = b.2) := by
  induction es generalizing w with
  | nil => exact List.Pairwise.nil
  | cons e es ih =>
    obtain ⟨s1, _, _⟩ := step_inv w e hs
    unfold grants
    cases hgo : grantOf e (stepEvent w e).2 with
    | none => simpa using ih _ s1
    | some g =>
      simp only [List.cons_append, List.nil_append]
      refine List.pairwise_cons.mpr ⟨?_, ih _ s1⟩
      intro g' hg' heq
      obtain ⟨h1, _⟩ := grant_step w e hs g.1 g.2 (by rw [hgo])
      exact (later_grants_respect _ es s1 g.1 g.2 h1 g' hg' heq.symm).symm

/-- the same, for a server started by `NewRaft` on any durable image -/
theorem run_one_vote_per_term (cf : Cfg) (d : Durable) (es : List Event) :
    (grants (boot cf d).1 es).Pairwise (fun a b => a.1 = b.1 → a.2 = b.2) :=
  one_vote_per_term _ es (boot_synced cf d).1

/-- **C06, the term never goes back**: along every run the durable term does not decrease, and a
    running server's in-memory term is its durable term -/
theorem run_term_monotone (w : World) (es : List Event) (hs : Synced w) :
    w.d.curTerm ≤ (runWorld w es).d.curTerm ∧ Synced (runWorld w es) := by
  induction es generalizing w with
  | nil => exact ⟨Nat.le_refl _, hs⟩
  | cons e es ih =>
    obtain ⟨s1, s2, _⟩ := step_inv w e hs
    obtain ⟨i1, i2⟩ := ih _ s1
    exact ⟨Nat.le_trans s2 i1, i2⟩

end SV
